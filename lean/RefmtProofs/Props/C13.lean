/-
  C13 — the object unmarshaller accepts exactly the token streams that fit the target.

  `unmV` (RefmtModel/Model/Obj/Unmarshal.lean) is the functional model of obj.Unmarshaller:
  feed a token list to a target of a given type; the result is the value with the number of
  tokens consumed (`ok`), "more tokens needed" (`more`), or the index of the token at which an
  error (`err`) / panic (`panic`) is raised.

  * `done_is_complete`   : completion is signalled only when the tokens consumed so far form exactly one
                           well-formed value (they are the flattening of a token tree) and the rest is untouched.
  * `no_early_done`      : no proper prefix of an accepted value is itself accepted (done exactly on the last token).
  * `complete`           : every token rendering the marshaller produces for a value of the target type is
                           accepted, completes exactly on its last token and reconstructs the value (`normV`):
                           this is the token-level round trip underlying C01 / C11.
  * `reject_*`           : unknown struct field, duplicate map key, declared struct length that disagrees, too many
                           elements for a fixed array, token of the wrong kind: each an error at the offending token.
  * `total`              : for a well-formed atlas no token list makes the model panic.

  Status (see the individual doc comments):
  * proved as stated: `no_early_done`, `rest_irrelevant`, all `reject_*`.
  * `done_is_complete` is false as stated (a close token carrying a tag is accepted by the unmarshaller but is not
    the flattening of any `TV`): `done_is_complete_false`; true modulo tags on close tokens
    (`done_is_complete_modTags`) and when the consumed close tokens are untagged (`done_is_complete_fixed`).
  * `total` is false as stated: the fuel bound is too small (`nested_opens_panic`: 3 units of fuel per token of a
    recursive slice type) and, independently of fuel, a transform whose receive type is the transformed type
    itself loops (`transform_loop_panics`, `total_false`).  `total_fixed` adds the missing hypothesis
    (same-list delegation chains bounded by `D`) and the right bound `(2D+3)·|toks| + 2D+2 ≤ fuel`.
  * `complete_plain` is false as stated (map entries come back in marshalling = key order while `normV` keeps
    the order of the value; duplicate keys are rejected): `complete_plain_false`.  `complete_plain_rt` is the
    exact round trip (`rtV` = `normV` with entries in key order), `complete_plain_sorted` the original
    conclusion for values whose maps are listed in key order, `complete_plain_perm` the general statement up
    to the order of map entries (`ValEqv`).
-/
import RefmtModel
import RefmtProofs.Lemmas.ObjUnmarshal
import RefmtProofs.Lemmas.ObjNoPanic
import RefmtProofs.Lemmas.ObjRoundTrip
set_option linter.unusedSimpArgs false
set_option linter.unusedVariables false
namespace Refmt.C13
open Refmt Refmt.Obj

/-! ### streaming: done exactly on the last token of one well-formed value -/

/-- everything the streaming invariant (`Refmt.Obj.allStr`) says about a successful `unmV` -/
theorem stream (ts : Types) (a : Atlas) (trs : Trs) (it : IfaceTys) (fuel id : Nat) (cur : Val)
    (toks : List Tok) (v : Val) (rest : List Tok) (used : Nat)
    (h : unmV ts a trs it fuel id cur toks = .ok v rest used) :
    used ≤ toks.length ∧ rest = toks.drop used ∧ toks = toks.take used ++ rest ∧
    TreeS (toks.take used) ∧
    (∀ more, unmV ts a trs it fuel id cur (toks.take used ++ more) = .ok v more used) ∧
    (∀ k, k < used → ∃ u, unmV ts a trs it fuel id cur (toks.take k) = .more u) := by
  obtain ⟨c, h1, h2, h3, h4, h5⟩ := (allStr ts a trs it fuel).v id cur toks v rest used h
  simp only [Nat.add_zero] at h2
  subst h1 h2
  simp only [List.take_left', List.drop_left', List.length_append]
  refine ⟨by omega, trivial, trivial, h3, h4, fun k hk => ?_⟩
  rw [List.take_append_of_le_length (by omega)]
  exact h5 k hk


/-- ORIGINAL STATEMENT (false, see `done_is_complete_false`). -/
def done_is_complete_statement : Prop :=
  ∀ (ts : Types) (a : Atlas) (trs : Trs) (it : IfaceTys) (fuel id : Nat) (cur : Val)
    (toks : List Tok) (v : Val) (rest : List Tok) (used : Nat),
    unmV ts a trs it fuel id cur toks = .ok v rest used →
    used ≤ toks.length ∧ rest = toks.drop used ∧ ∃ tv : TV, toks.take used = tv.flatten

theorem flatten_ne_nil (tv : TV) : tv.flatten ≠ [] := by
  cases tv <;> simp [TV.flatten]

def ceToks : List Tok := [⟨.arrOpen 0, none⟩, ⟨.arrClose, some 7⟩]
def ceTs : Types := [(0, .slice 1), (1, .prim .int true)]
def ceA : Atlas := ⟨[], .default⟩

theorem ce_no_tree : ¬ ∃ tv : TV, ceToks = tv.flatten := by
  rintro ⟨tv, h⟩
  cases tv with
  | scalar t => simp [TV.flatten, ceToks] at h
  | arr tag len items =>
    simp [TV.flatten, ceToks] at h
    obtain ⟨_, h⟩ := h
    cases items with
    | nil => simp [TV.flattenList] at h
    | cons x xs =>
      have := congrArg List.length h
      have hx := flatten_ne_nil x
      simp [TV.flattenList] at this
      cases hf : x.flatten with
      | nil => exact hx hf
      | cons y ys => rw [hf] at this; simp at this; omega
  | map tag len es => simp [TV.flatten, ceToks] at h

/-- The original statement fails on `[arrOpen, arrClose#7]` into a slice: the unmarshaller does not look at the
    tag of a close token, whereas `TV.flatten` only produces untagged close tokens.  (The culprit is the
    statement: no decoder emits tagged close tokens.) -/
theorem done_is_complete_false : ¬ done_is_complete_statement := by
  intro h
  have h1 : unmV ceTs ceA ⟨fun _ _ => none, fun _ _ => none⟩ default 5 0 (.slice none) ceToks = .ok (.slice (some [])) [] 2 := by
    simp [unmV, peel, ceTs, ceToks, ceA, Types.get, List.lookup, upickBare, Atlas.get, unmBare, unmElems, URes.shift]
  obtain ⟨-, -, tv, htv⟩ := h _ _ _ _ _ _ _ _ _ _ _ h1
  exact ce_no_tree ⟨tv, by simpa [ceToks] using htv⟩

/-- corrected: the consumed tokens are one token tree, up to the tags carried by close tokens -/
theorem done_is_complete_modTags (ts : Types) (a : Atlas) (trs : Trs) (it : IfaceTys) (fuel id : Nat) (cur : Val)
    (toks : List Tok) (v : Val) (rest : List Tok) (used : Nat)
    (h : unmV ts a trs it fuel id cur toks = .ok v rest used) :
    used ≤ toks.length ∧ rest = toks.drop used ∧ ∃ tv : TV, (toks.take used).map nc = tv.flatten := by
  obtain ⟨h1, h2, -, h4, -, -⟩ := stream ts a trs it fuel id cur toks v rest used h
  exact ⟨h1, h2, h4⟩

/-- corrected: the original conclusion when the consumed close tokens carry no tag -/
theorem done_is_complete_fixed (ts : Types) (a : Atlas) (trs : Trs) (it : IfaceTys) (fuel id : Nat) (cur : Val)
    (toks : List Tok) (v : Val) (rest : List Tok) (used : Nat)
    (h : unmV ts a trs it fuel id cur toks = .ok v rest used)
    (hct : ∀ t ∈ toks.take used, (t.body = .arrClose ∨ t.body = .mapClose) → t.tag = none) :
    used ≤ toks.length ∧ rest = toks.drop used ∧ ∃ tv : TV, toks.take used = tv.flatten := by
  obtain ⟨h1, h2, tv, h4⟩ := done_is_complete_modTags ts a trs it fuel id cur toks v rest used h
  refine ⟨h1, h2, tv, ?_⟩
  rw [← h4]
  symm
  conv => rhs; rw [← List.map_id (toks.take used)]
  refine List.map_congr_left (fun t ht => ?_)
  obtain ⟨body, tag⟩ := t
  have := hct _ ht
  cases body <;> simp_all [nc]

/-- feeding fewer tokens never yields `ok`: completion comes exactly on the last token of the value -/
theorem no_early_done (ts : Types) (a : Atlas) (trs : Trs) (it : IfaceTys) (fuel id : Nat) (cur : Val)
    (toks : List Tok) (v : Val) (rest : List Tok) (used k : Nat)
    (h : unmV ts a trs it fuel id cur toks = .ok v rest used) (hk : k < used) :
    ∃ u, unmV ts a trs it fuel id cur (toks.take k) = .more u :=
  (stream ts a trs it fuel id cur toks v rest used h).2.2.2.2.2 k hk

/-- the result does not depend on what follows the value -/
theorem rest_irrelevant (ts : Types) (a : Atlas) (trs : Trs) (it : IfaceTys) (fuel id : Nat) (cur : Val)
    (toks : List Tok) (v : Val) (rest : List Tok) (used : Nat) (more : List Tok)
    (h : unmV ts a trs it fuel id cur toks = .ok v rest used) :
    unmV ts a trs it fuel id cur (toks.take used ++ more) = .ok v more used :=
  (stream ts a trs it fuel id cur toks v rest used h).2.2.2.2.1 more

/-! ### strictness -/

theorem reject_unknown_field (ts : Types) (a : Atlas) (trs : Trs) (it : IfaceTys) (fuel id : Nat) (fields : List SMField)
    (len : Int) (idx : Nat) (cur : Val) (name : Bytes) (tag : Option Int) (rest : List Tok)
    (h : fields.find? (fun f => f.name == name) = none) :
    unmStruct ts a trs it (fuel + 1) id fields len idx cur (⟨.str name, tag⟩ :: rest) = .err 0 := by
  unfold unmStruct
  simp [h]
theorem reject_struct_length_mismatch (ts : Types) (a : Atlas) (trs : Trs) (it : IfaceTys) (fuel id : Nat) (fields : List SMField)
    (len : Int) (idx : Nat) (cur : Val) (tag : Option Int) (rest : List Tok) (h0 : 0 ≤ len) (h : len ≠ idx) :
    unmStruct ts a trs it (fuel + 1) id fields len idx cur (⟨.mapClose, tag⟩ :: rest) = .err 0 := by
  unfold unmStruct
  simp [h0, h]
theorem reject_duplicate_key (ts : Types) (a : Atlas) (trs : Trs) (it : IfaceTys) (fuel vt : Nat) (es : List (Val × Val))
    (s : Bytes) (tag : Option Int) (rest : List Tok) (h : hasKey (.str s) es = true) :
    unmMapEntries ts a trs it (fuel + 1) none vt es (⟨.str s, tag⟩ :: rest) = .err 0 := by
  simp [unmMapEntries, h]

theorem reject_array_overflow (ts : Types) (a : Atlas) (trs : Trs) (it : IfaceTys) (fuel e n : Nat) (acc : List Val)
    (t : Tok) (rest : List Tok) (hfull : acc.length ≥ n) (ht : t.body ≠ .arrClose) (ht2 : t.body ≠ .mapClose) :
    unmElems ts a trs it (fuel + 1) e (some n) acc (t :: rest) = .err 0 := by
  unfold unmElems
  split
  · contradiction
  · contradiction
  · simp [hfull]

theorem reject_wrong_kind_scalar (d : TyDesc) (t : Tok) (h : storePrim d t = none) (ts : Types) (a : Atlas) (trs : Trs)
    (it : IfaceTys) (fuel id : Nat) (cur : Val) (rest : List Tok) (hd : ts.get id = d) :
    unmBare ts a trs it (fuel + 1) id .prim cur (t :: rest) = .err 0 := by
  simp [unmBare, hd, h]

/-! ### totality -/

/-- the atlas is internally consistent: union members point into the pool at struct-map or transform entries
    and no entry is `invalid`; map-morphism entries sit on map types; struct-map routes resolve
    (checked dynamically by `getRoute`/`setRoute`, which return `none` → an error, not a panic) -/
def atlasOk (ts : Types) (a : Atlas) : Bool :=
  a.pool.all fun e =>
    match e.k with
    | .invalid => false
    | .union ms => ms.all fun (_, idx) =>
        (match a.pool[idx]? with
         | some me => (match me.k with | .structMap _ => true | .transform _ _ _ => true | _ => false)
         | none => false)
    | .mapMorph _ => (match ts.get e.ty with | .map _ _ => true | _ => false)
    | .transform _ _ uty => (match ts.get uty with | .ptr _ => false | _ => true)
    | .structMap _ => true

/-- no pointer-to-pointer chains longer than the peel bound, no type whose pointer chain ends in a pointer -/
def typesOk (ts : Types) : Bool :=
  ts.all fun (id, _) => match ts.get (peel ts 64 0 id).2 with | .ptr _ => false | _ => true

/-- ORIGINAL STATEMENT (false, see `total_false`, `nested_opens_panic`, `transform_loop_panics`). -/
def total_statement : Prop :=
  ∀ (ts : Types) (a : Atlas) (trs : Trs) (it : IfaceTys) (fuel id : Nat) (cur : Val) (toks : List Tok),
    atlasOk ts a = true → typesOk ts = true → toks.length + 64 < fuel → (ts.lookup id).isSome →
    ∀ u, unmV ts a trs it fuel id cur toks ≠ .panic u

/-! counterexample (a): nested slices of a recursive type need 3 units of fuel per token -/
def tsRec : Types := [(0, .slice 0)]
def aEmpty : Atlas := ⟨[], .default⟩
def opens (n : Nat) : List Tok := List.replicate n ⟨.arrOpen 0, none⟩

theorem nested_opens_panic (trs : Trs) (it : IfaceTys) : ∀ (n : Nat) (cur : Val),
    unmV tsRec aEmpty trs it (3 * n + 2) 0 cur (opens (n + 1)) = .panic (n + 1) := by
  have hpeel : peel tsRec 64 0 0 = (0, 0) := by simp [peel, tsRec, Types.get, List.lookup]
  have hpick : upickBare tsRec aEmpty 0 = .slice 0 := by
    simp [upickBare, tsRec, Types.get, List.lookup, aEmpty, Atlas.get]
  intro n
  induction n with
  | zero =>
    intro cur
    show unmV tsRec aEmpty trs it (1 + 1) 0 cur (⟨.arrOpen 0, none⟩ :: []) = _
    rw [unmV_cons, hpeel]
    simp only [beq_self_eq_true, if_true, hpick]
    show unmBare tsRec aEmpty trs it (0 + 1) 0 (.slice 0) cur (⟨.arrOpen 0, none⟩ :: []) = _
    rw [unmBare_slice]
    simp [unmElems]
  | succ n ih =>
    intro cur
    have e1 : 3 * (n + 1) + 2 = (3 * n + 4) + 1 := by omega
    have e2 : opens (n + 1 + 1) = ⟨.arrOpen 0, none⟩ :: opens (n + 1) := rfl
    rw [e1, e2, unmV_cons, hpeel]
    simp only [beq_self_eq_true, if_true, hpick]
    show unmBare tsRec aEmpty trs it ((3 * n + 3) + 1) 0 (.slice 0) cur (⟨.arrOpen 0, none⟩ :: opens (n + 1)) = _
    rw [unmBare_slice]
    simp only
    show (unmElems tsRec aEmpty trs it ((3 * n + 2) + 1) 0 none [] (⟨.arrOpen 0, none⟩ :: opens n)).shift 1 = _
    rw [unmElems_cons]
    simp only [capFull]
    have := ih (zeroVal tsRec 64 0)
    simp only [opens, List.replicate_succ] at this
    simp [opens, this]

/-! counterexample (b): a transform whose receive type is the transformed type itself never terminates -/
def tsInt : Types := [(0, .prim .int false)]
def aLoop : Atlas := ⟨[⟨true, 0, none, .transform 0 0 0⟩], .default⟩

theorem transform_loop_panics (trs : Trs) (it : IfaceTys) (t : Tok) (cur : Val) :
    ∀ fuel, unmV tsInt aLoop trs it fuel 0 cur [t] = .panic 0 := by
  have hpeel : peel tsInt 64 0 0 = (0, 0) := by simp [peel, tsInt, Types.get, List.lookup]
  have hpick : upickBare tsInt aLoop 0 = .transform 0 0 := by
    simp [upickBare, tsInt, Types.get, List.lookup, aLoop, Atlas.get, umachForEntry]
  have hb : ∀ fuel cur, unmBare tsInt aLoop trs it fuel 0 (.transform 0 0) cur [t] = .panic 0 := by
    intro fuel
    induction fuel with
    | zero => intro cur; simp [unmBare]
    | succ n ih => intro cur; rw [unmBare_transform, hpick, ih]; rfl
  intro fuel
  cases fuel with
  | zero => simp [unmV]
  | succ n =>
    rw [unmV_cons, hpeel]
    simp only [beq_self_eq_true, if_true, hpick]
    exact hb n cur

/-- counterexample (a) satisfies every hypothesis of the original statement: 33 tokens, fuel 98 -/
theorem total_fuel_bound_false (trs : Trs) (it : IfaceTys) (cur : Val) :
    atlasOk tsRec aEmpty = true ∧ typesOk tsRec = true ∧ (opens 33).length + 64 < 98 ∧ (tsRec.lookup 0).isSome ∧
    unmV tsRec aEmpty trs it 98 0 cur (opens 33) = .panic 33 :=
  ⟨by decide, by decide, by simp [opens], by decide, nested_opens_panic trs it 32 cur⟩

theorem total_false : ¬ total_statement := by
  intro h
  exact h tsInt aLoop ⟨fun _ _ => none, fun _ _ => none⟩ default 66 0 (.int 0) [⟨.int 1, none⟩]
    (by decide) (by decide) (by simp) (by decide) 0 (transform_loop_panics _ _ _ _ 66)

theorem entry_mOk {ts a} (ha : atlasOk ts a = true) {e : Entry} (he : e ∈ a.pool) : mOk ts a (umachForEntry ts e) := by
  have hall := List.all_eq_true.mp ha
  have h := hall e he
  unfold umachForEntry
  cases hk : e.k with
  | invalid => simp [hk] at h
  | structMap fs => simp [mOk]
  | transform fn mty uty =>
    simp only [hk] at h
    simp only [mOk]
    intro x hx
    simp [hx] at h
  | mapMorph mode =>
    simp only [hk] at h
    split at h
    · rename_i k v hm; simp [hm, mOk]
    · cases h
  | union ms =>
    simp only [hk, List.all_eq_true] at h
    simp only [mOk]
    intro p hp
    have h2 := h p hp
    obtain ⟨nm, idx⟩ := p
    simp only at h2 ⊢
    cases hme : a.pool[idx]? with
    | none => simp [hme] at h2
    | some me =>
      refine ⟨me, rfl, ?_⟩
      simp only [hme] at h2
      have hmem : me ∈ a.pool := List.mem_of_getElem? hme
      have h3 := hall me hmem
      cases hmk : me.k with
      | structMap fs => exact Or.inl ⟨fs, hmk⟩
      | transform fn mty uty =>
        refine Or.inr ⟨fn, mty, uty, hmk, ?_⟩
        simp only [hmk] at h3
        intro x hx
        simp [hx] at h3
      | union _ => simp [hmk] at h2
      | mapMorph _ => simp [hmk] at h2
      | invalid => simp [hmk] at h2

theorem pick_mOk {ts a} (ha : atlasOk ts a = true) (id : Nat) (h : notPtr (ts.get id) ∨ (a.get id).isSome) :
    mOk ts a (upickBare ts a id) := by
  unfold upickBare
  split
  · simp [mOk]
  · simp [mOk]
  · split
    · rename_i e he
      exact entry_mOk ha (List.mem_of_find?_eq_some he)
    · rename_i hn
      have hnp : notPtr (ts.get id) := by
        rcases h with h | h
        · exact h
        · simp [hn] at h
      split <;> simp [mOk]
      rename_i x hx
      exact hnp _ hx

theorem lookup_mem {ts : Types} {id : Nat} {d : TyDesc} (h : ts.lookup id = some d) : (id, d) ∈ ts := by
  induction ts with
  | nil => simp [List.lookup] at h
  | cons p ps ih =>
    obtain ⟨k, v⟩ := p
    simp only [List.lookup] at h
    split at h
    · rename_i hk
      simp at hk; cases h; subst hk; simp
    · exact List.mem_cons_of_mem _ (ih h)

theorem base_notPtr {ts} (ht : typesOk ts = true) (id : Nat) : notPtr (ts.get (peel ts 64 0 id).2) := by
  cases hl : ts.lookup id with
  | none =>
    have hg : ts.get id = .other := by simp [Types.get, hl]
    have : peel ts 64 0 id = (0, id) := by simp [peel, hg]
    rw [this]; simp only; rw [hg]; intro e he; cases he
  | some d =>
    have h := List.all_eq_true.mp ht _ (lookup_mem hl)
    simp only at h
    intro e he
    simp [he] at h

theorem ctx_of {ts a D} (ha : atlasOk ts a = true) (ht : typesOk ts = true)
    (hD : ∀ id, delegOk ts a D (upickBare ts a id)) : Ctx ts a D :=
  ⟨pick_mOk ha, base_notPtr ht, hD, fun g e h => find?_get_isSome h⟩

theorem total_fixed (ts : Types) (a : Atlas) (trs : Trs) (it : IfaceTys) (D fuel id : Nat) (cur : Val) (toks : List Tok)
    (ha : atlasOk ts a = true) (ht : typesOk ts = true) (hD : ∀ id, delegOk ts a D (upickBare ts a id))
    (hf : (2 * D + 3) * toks.length + (2 * D + 2) ≤ fuel) :
    ∀ u, unmV ts a trs it fuel id cur toks ≠ .panic u :=
  (allNP (ctx_of ha ht hD) fuel).v id cur toks hf

/-! ### completeness: what the marshaller produces is accepted and reconstructs the value -/

/-- value `v` inhabits type `id` (fuel-bounded structural check) -/
def hasTy (ts : Types) : Nat → Nat → Val → Bool
  | 0, _, _ => false
  | fuel+1, id, v =>
    match ts.get id, v with
    | .prim .bool _, .bool _ => true
    | .prim .string _, .str _ => true
    | .prim .f64 _, .float b => b < two64
    | .prim .f32 _, .float b => b < two64 && FloatText.narrowF32 b == b
    | .prim k _, .int i => (match intRange k with | some (lo, hi) => lo ≤ i && i ≤ hi | none => false)
    | .prim k _, .uint n => (match intRange k, uintMax k with | none, some mx => n ≤ mx | _, _ => false)
    | .bytes _, .bytes _ => true
    | .byteArr n, .byteArr b => b.length == n
    | .slice _, .slice none => true
    | .slice e, .slice (some vs) => vs.all (hasTy ts fuel e)
    | .arr n e, .arr vs => vs.length == n && vs.all (hasTy ts fuel e)
    | .map _ _, .map none => true
    | .map k e, .map (some es) => es.all fun (x, y) => hasTy ts fuel k x && hasTy ts fuel e y
    | .ptr _, .ptr none => true
    | .ptr e, .ptr (some x) => hasTy ts fuel e x
    | .iface _, .iface none => true
    | .iface _, .iface (some (dt, x)) => hasTy ts fuel dt x
    | .struct fds, .struct vs => vs.length == fds.length && (fds.zip vs).all fun (f, x) => hasTy ts fuel f.ty x
    | _, _ => false

/-- Token-level round trip, stated for the kinds whose rendering involves no untyped slot, transform or
    union (those are covered by the correspondence streams and by the `_partial` extensions below if proved). -/
def plainTy (ts : Types) (a : Atlas) : Nat → Nat → Bool
  | 0, _ => false
  | fuel+1, id =>
    match ts.get id with
    | .prim _ _ => (a.get id).isNone
    | .bytes _ => (a.get id).isNone
    | .byteArr _ => (a.get id).isNone
    | .slice e => (a.get id).isNone && plainTy ts a fuel e
    | .arr _ e => (a.get id).isNone && plainTy ts a fuel e
    | .map k e => (a.get id).isNone && (match ts.get k with | .prim .string _ => true | _ => false) && plainTy ts a fuel e
    | .ptr e => plainTy ts a fuel e
    | _ => false

/-- ORIGINAL STATEMENT (false, see `complete_plain_false`). -/
def complete_plain_statement : Prop :=
  ∀ (ts : Types) (a : Atlas) (trs : Trs) (it : IfaceTys) (fuel id : Nat) (v : Val) (toks : List Tok),
    plainTy ts a 64 id = true → hasTy ts 1000 id v = true → typesOk ts = true → True →
    marshalV ts a trs fuel id v = ⟨toks, none⟩ → toks.length + 64 < fuel →
    unmV ts a trs it fuel id (zeroVal ts 64 id) toks = .ok (normV .pretty ts a trs it fuel id v) [] toks.length

variable (ts : Types) (a : Atlas) (trs : Trs) (it : IfaceTys)

theorem plain_peel : ∀ (p k c id : Nat), plainTy ts a p id = true → p ≤ k →
    ∃ n base p', peel ts k c id = (c + n, base) ∧ plainTy ts a (p' + 1) base = true ∧ (∀ e, ts.get base ≠ .ptr e) ∧ chain ts n id base ∧ p' + 1 ≤ p := by
  intro p
  induction p with
  | zero => intro k c id h; simp [plainTy] at h
  | succ p ih =>
    intro k c id h hk
    obtain ⟨k, rfl⟩ : ∃ k', k = k' + 1 := ⟨k - 1, by omega⟩
    cases hd : ts.get id with
    | ptr e =>
      have he : plainTy ts a p e = true := by simpa [plainTy, hd] using h
      obtain ⟨n, base, p', h1, h2, h3, h4, h5⟩ := ih k (c + 1) e he (by omega)
      refine ⟨n + 1, base, p', ?_, h2, h3, ⟨e, hd, h4⟩, by omega⟩
      simp [peel, hd, h1]; omega
    | _ =>
      refine ⟨0, id, p, ?_, h, ?_, rfl, by omega⟩
      · simp [peel, hd]
      · simp [hd]

theorem chain_hasTy : ∀ (n id base h : Nat) (v : Val), chain ts n id base → hasTy ts h id v = true →
    derefN n v = none ∨ ∃ inner h', derefN n v = some inner ∧ hasTy ts h' base inner = true := by
  intro n
  induction n with
  | zero => intro id base h v hc hv; cases hc; exact Or.inr ⟨v, h, rfl, hv⟩
  | succ n ih =>
    intro id base h v hc hv
    obtain ⟨e, he, hc⟩ := hc
    cases h with
    | zero => simp [hasTy] at hv
    | succ h =>
      cases v <;> simp [hasTy, he] at hv
      rename_i o
      cases o with
      | none => left; rfl
      | some x =>
        simp [hasTy, he] at hv
        simpa [derefN] using ih e base h x hc hv

theorem chain_distinct : ∀ (n : Nat) (k : Nat) (v inner : Val), distinctKeys k v → derefN n v = some inner →
    ∃ k', distinctKeys k' inner := by
  intro n
  induction n with
  | zero => intro k v inner hk hd; simp [derefN] at hd; subst hd; exact ⟨k, hk⟩
  | succ n ih =>
    intro k v inner hk hd
    cases v <;> try (simp [derefN] at hd; done)
    rename_i o
    cases o with
    | none => simp [derefN] at hd
    | some x =>
      simp only [derefN] at hd
      cases k with
      | zero => simp [distinctKeys] at hk
      | succ k => exact ih k x inner (by simpa [distinctKeys] using hk) hd

theorem zeroVal_mapCur0 (k id : Nat) : mapCur0 (zeroVal ts k id) = [] := by
  cases k with
  | zero => rfl
  | succ k =>
    unfold zeroVal
    split <;> try rfl
    split <;> rfl

theorem zeroVal_not_ptr_some (k id : Nat) (x : Val) : zeroVal ts k id ≠ .ptr (some x) := by
  cases k with
  | zero => simp [zeroVal]
  | succ k =>
    unfold zeroVal
    split <;> try simp
    split <;> simp

def CurZ (ts : Types) (cur : Val) : Prop := ∃ id', cur = zeroVal ts 64 id'

theorem innerCur_zero : ∀ (n id : Nat) (cur : Val), CurZ ts cur → CurZ ts (innerCur ts n id cur) := by
  intro n
  induction n with
  | zero => intro id cur h; simpa [innerCur] using h
  | succ n ih =>
    intro id cur h
    unfold innerCur
    split
    · rename_i e x hq
      obtain ⟨id', h⟩ := h
      exact absurd h.symm (zeroVal_not_ptr_some ts 64 id' x)
    · exact ih _ _ ⟨_, rfl⟩
    · exact h

theorem peel_nonptr (id : Nat) (h : ∀ e, ts.get id ≠ .ptr e) (k c : Nat) : peel ts (k+1) c id = (c, id) := by
  unfold peel
  split
  · rename_i e he; exact absurd he (h e)
  · rfl

/-- the primitive machine: the token written is read back as the same value -/
theorem prim_rt (h id : Nat) (v : Val) (toks : List Tok) (hv : hasTy ts h id v = true)
    (hd : (∃ k b, ts.get id = .prim k b) ∨ (∃ b, ts.get id = .bytes b) ∨ (∃ n, ts.get id = .byteArr n))
    (hm : primTok ts id v = ⟨toks, none⟩) :
    ∃ tok, toks = [tok] ∧ storePrim (ts.get id) tok = some v ∧ tok.body ≠ .arrClose ∧ tok.body ≠ .mapClose ∧
      (tok = ⟨.null, none⟩ ∨ tok.body ≠ .null) := by
  cases h with
  | zero => simp [hasTy] at hv
  | succ h =>
    rcases hd with ⟨k, b, hd⟩ | ⟨b, hd⟩ | ⟨n, hd⟩
    · rw [hd]
      cases v <;> simp only [hasTy, hd] at hv <;>
        cases k <;> simp [intRange, uintMax] at hv <;>
        simp [primTok, MOut.ok] at hm <;> subst hm <;>
        simp [storePrim, intRange, uintMax, hv]
    · rw [hd]
      cases v <;> simp [hasTy, hd] at hv
      rename_i o
      cases o <;> simp [primTok, MOut.ok] at hm <;> subst hm <;> simp [storePrim]
    · rw [hd]
      cases v <;> simp [hasTy, hd] at hv
      simp [primTok, MOut.ok] at hm; subst hm; simp [storePrim, hv]

theorem nullSer_true (base : Nat) (inner : Val) (hb : ∀ e, ts.get base ≠ .ptr e)
    (h : (marshalBare ts a trs 999 base (pickBare ts a base) inner).toks = [⟨.null, none⟩]) :
    isNullSer ts a trs base inner = true := by
  unfold isNullSer
  rw [show (1000 : Nat) = 999 + 1 from rfl, marshalV_succ, peel_nonptr ts base hb 63 0]
  simp [h]

theorem nullSer_false (base : Nat) (inner : Val) (hb : ∀ e, ts.get base ≠ .ptr e) (t : Tok) (r : List Tok)
    (h : (marshalBare ts a trs 999 base (pickBare ts a base) inner).toks = t :: r) (ht : t.body ≠ .null) :
    isNullSer ts a trs base inner = false := by
  unfold isNullSer
  rw [show (1000 : Nat) = 999 + 1 from rfl, marshalV_succ, peel_nonptr ts base hb 63 0]
  simp only [beq_self_eq_true, if_true, h]
  cases r with
  | nil => simp only
  | cons x xs => rfl

def NullSpec (toks : List Tok) (base : Nat) (inner : Val) : Prop :=
  (toks = [⟨.null, none⟩] ∧ isNullSer ts a trs base inner = true) ∨
  (∃ t r, toks = t :: r ∧ t.body ≠ .null ∧ t.body ≠ .arrClose ∧ t.body ≠ .mapClose ∧ isNullSer ts a trs base inner = false)

structure RT (f : Nat) : Prop where
  v : ∀ p h k id v toks, p ≤ 64 → plainTy ts a p id = true → hasTy ts h id v = true → distinctKeys k v →
      marshalV ts a trs f id v = ⟨toks, none⟩ → ∀ g, f ≤ g → ∀ cur rest, CurZ ts cur →
      unmV ts a trs it f id cur (toks ++ rest) = .ok (rtV ts a trs it g id v) rest toks.length ∧
      ∃ t r, toks = t :: r ∧ t.body ≠ .arrClose ∧ t.body ≠ .mapClose
  b : ∀ p h k id v toks, p + 1 ≤ 64 → plainTy ts a (p + 1) id = true → (∀ e, ts.get id ≠ .ptr e) → hasTy ts h id v = true → distinctKeys k v →
      marshalBare ts a trs f id (pickBare ts a id) v = ⟨toks, none⟩ → ∀ g, f ≤ g → ∀ cur rest, CurZ ts cur →
      unmBare ts a trs it f id (upickBare ts a id) cur (toks ++ rest) = .ok (rtBare ts a trs it g id (pickBare ts a id) v) rest toks.length ∧
      NullSpec ts a trs toks id v
  l : ∀ p h k e vs toks, p ≤ 64 → plainTy ts a p e = true → (∀ x ∈ vs, hasTy ts h e x = true) → (∀ x ∈ vs, distinctKeys k x) →
      marshalList ts a trs f e vs = ⟨toks, none⟩ → ∀ g, f ≤ g → ∀ cap acc rest, (∀ n, cap = some n → acc.length + vs.length ≤ n) →
      unmElems ts a trs it f e cap acc (toks ++ ⟨.arrClose, none⟩ :: rest) =
        .ok (.slice (some (acc.reverse ++ vs.map (rtV ts a trs it g e)))) rest (toks.length + 1)
  m : ∀ p h k vt (kvs : List (Bytes × Val)) toks, p ≤ 64 → plainTy ts a p vt = true → (∀ q ∈ kvs, hasTy ts h vt q.2 = true) →
      (∀ q ∈ kvs, distinctKeys k q.2) → (kvs.map (·.1)).Nodup →
      marshalEntries ts a trs f vt kvs = ⟨toks, none⟩ → ∀ g, f ≤ g → ∀ es0 rest, (∀ q ∈ kvs, hasKey (.str q.1) es0 = false) →
      unmMapEntries ts a trs it f none vt es0 (toks ++ ⟨.mapClose, none⟩ :: rest) =
        .ok (.map (some (es0 ++ kvs.map fun (q : Bytes × Val) => (Val.str q.1, rtV ts a trs it g vt q.2)))) rest (toks.length + 1)

theorem rt_zero : RT ts a trs it 0 where
  v := by intro p h k id v toks _ _ _ _ hm; simp [marshalV, MOut.bad] at hm
  b := by intro p h k id v toks _ _ _ _ _ hm; simp [marshalBare, MOut.bad] at hm
  l := by intro p h k e vs toks _ _ _ _ hm; simp [marshalList, MOut.bad] at hm
  m := by intro p h k vt kvs toks _ _ _ _ _ hm; simp [marshalEntries, MOut.bad] at hm

variable {ts a trs it}

theorem rt_l {f} (ih : RT ts a trs it f) : ∀ p h k e vs toks, p ≤ 64 → plainTy ts a p e = true → (∀ x ∈ vs, hasTy ts h e x = true) → (∀ x ∈ vs, distinctKeys k x) →
      marshalList ts a trs (f+1) e vs = ⟨toks, none⟩ → ∀ g, f + 1 ≤ g → ∀ cap acc rest, (∀ n, cap = some n → acc.length + vs.length ≤ n) →
      unmElems ts a trs it (f+1) e cap acc (toks ++ ⟨.arrClose, none⟩ :: rest) =
        .ok (.slice (some (acc.reverse ++ vs.map (rtV ts a trs it g e)))) rest (toks.length + 1) := by
  intro p h k e vs toks hp64 hp hv hk hm g hg cap acc rest hcap
  cases vs with
  | nil =>
    rw [marshalList_nil] at hm
    simp [MOut.ok] at hm; subst hm
    simp [unmElems_cons]
  | cons x xs =>
    rw [marshalList_cons] at hm
    obtain ⟨tx, txs, h1, h2, rfl⟩ := seq_ok hm
    obtain ⟨hx, t, r, rfl, hc1, hc2⟩ := ih.v p h k e x tx hp64 hp (hv x (by simp)) (hk x (by simp)) h1 g (by omega)
      (zeroVal ts 64 e) (txs ++ ⟨.arrClose, none⟩ :: rest) ⟨e, rfl⟩
    have hxs := ih.l p h k e xs txs hp64 hp (fun y hy => hv y (by simp [hy])) (fun y hy => hk y (by simp [hy])) h2 g (by omega)
      cap (rtV ts a trs it g e x :: acc) rest (fun n hn => by have := hcap n hn; simp at this ⊢; omega)
    have hcf : capFull cap acc = false := by
      unfold capFull
      cases cap with
      | none => rfl
      | some n => have := hcap n rfl; simp at this ⊢; omega
    have e1 : (t :: r ++ txs) ++ ⟨.arrClose, none⟩ :: rest = t :: (r ++ (txs ++ ⟨.arrClose, none⟩ :: rest)) := by simp
    rw [e1, unmElems_cons]
    have e2 : t :: (r ++ (txs ++ ⟨.arrClose, none⟩ :: rest)) = (t :: r) ++ (txs ++ ⟨.arrClose, none⟩ :: rest) := by simp
    split
    · rename_i hb; exact absurd hb hc2
    · rename_i hb; exact absurd hb hc1
    · rw [hcf, e2, hx]
      simp [hxs]
      omega

theorem hasKey_append_str (s s' : Bytes) (es : List (Val × Val)) (v : Val) :
    hasKey (.str s) (es ++ [(.str s', v)]) = (hasKey (.str s) es || (s' == s)) := by
  simp [hasKey, beqVal]

theorem rt_m {f} (ih : RT ts a trs it f) : ∀ p h k vt (kvs : List (Bytes × Val)) toks, p ≤ 64 → plainTy ts a p vt = true → (∀ q ∈ kvs, hasTy ts h vt q.2 = true) →
      (∀ q ∈ kvs, distinctKeys k q.2) → (kvs.map (·.1)).Nodup →
      marshalEntries ts a trs (f+1) vt kvs = ⟨toks, none⟩ → ∀ g, f + 1 ≤ g → ∀ es0 rest, (∀ q ∈ kvs, hasKey (.str q.1) es0 = false) →
      unmMapEntries ts a trs it (f+1) none vt es0 (toks ++ ⟨.mapClose, none⟩ :: rest) =
        .ok (.map (some (es0 ++ kvs.map fun (q : Bytes × Val) => (Val.str q.1, rtV ts a trs it g vt q.2)))) rest (toks.length + 1) := by
  intro p h k vt kvs toks hp64 hp hv hk hnd hm g hg es0 rest hes
  cases kvs with
  | nil =>
    rw [marshalEntries_nil] at hm
    simp [MOut.ok] at hm; subst hm
    simp [unmMapEntries_cons]
  | cons q qs =>
    obtain ⟨s, x⟩ := q
    rw [marshalEntries_cons] at hm
    obtain ⟨t1, t23, h1, h23, rfl⟩ := seq_ok hm
    obtain ⟨tx, txs, h2, h3, rfl⟩ := seq_ok h23
    simp [MOut.ok] at h1; subst h1
    obtain ⟨hx, -⟩ := ih.v p h k vt x tx hp64 hp (hv (s, x) (by simp)) (hk (s, x) (by simp)) h2 g (by omega)
      (zeroVal ts 64 vt) (txs ++ ⟨.mapClose, none⟩ :: rest) ⟨vt, rfl⟩
    simp only [List.map_cons, List.nodup_cons] at hnd
    have hxs := ih.m p h k vt qs txs hp64 hp (fun y hy => hv y (by simp [hy])) (fun y hy => hk y (by simp [hy])) hnd.2 h3 g (by omega)
      (es0 ++ [(.str s, rtV ts a trs it g vt x)]) rest (fun y hy => by
        rw [hasKey_append_str, hes y (by simp [hy])]
        simp only [Bool.false_or, beq_eq_false_iff_ne]
        intro he
        exact hnd.1 (by rw [he]; exact List.mem_map_of_mem hy))
    have e1 : ([⟨.str s, none⟩] ++ (tx ++ txs)) ++ ⟨.mapClose, none⟩ :: rest =
        ⟨.str s, none⟩ :: (tx ++ (txs ++ ⟨.mapClose, none⟩ :: rest)) := by simp
    rw [e1, unmMapEntries_cons]
    simp only [mapKey, hes (s, x) (by simp), hx]
    simp [hxs]
    omega

theorem pick_prim {id k b} (hd : ts.get id = .prim k b) (hn : a.get id = none) :
    pickBare ts a id = .prim ∧ upickBare ts a id = .prim := by
  cases b <;> simp [pickBare, upickBare, hd, hn]
theorem pick_bytes {id b} (hd : ts.get id = .bytes b) (hn : a.get id = none) :
    pickBare ts a id = .prim ∧ upickBare ts a id = .prim := by
  cases b <;> simp [pickBare, upickBare, hd, hn]
theorem pick_byteArr {id n} (hd : ts.get id = .byteArr n) (hn : a.get id = none) :
    pickBare ts a id = .prim ∧ upickBare ts a id = .prim := by
  simp [pickBare, upickBare, hd, hn]
theorem pick_slice {id e} (hd : ts.get id = .slice e) (hn : a.get id = none) :
    pickBare ts a id = .slice e ∧ upickBare ts a id = .slice e := by
  simp [pickBare, upickBare, hd, hn]
theorem pick_arr {id n e} (hd : ts.get id = .arr n e) (hn : a.get id = none) :
    pickBare ts a id = .array e ∧ upickBare ts a id = .array n e := by
  simp [pickBare, upickBare, hd, hn]
theorem pick_map {id k e} (hd : ts.get id = .map k e) (hn : a.get id = none) :
    pickBare ts a id = .map k e a.defaultSort ∧ upickBare ts a id = .map k e := by
  simp [pickBare, upickBare, hd, hn]

theorem rt_b_prim {f} (h id : Nat) (v : Val) (toks : List Tok) (hv : hasTy ts h id v = true)
    (hd : (∃ k b, ts.get id = .prim k b) ∨ (∃ b, ts.get id = .bytes b) ∨ (∃ n, ts.get id = .byteArr n))
    (hnp : ∀ e, ts.get id ≠ .ptr e)
    (hpick : pickBare ts a id = .prim ∧ upickBare ts a id = .prim)
    (hm : marshalBare ts a trs (f+1) id (pickBare ts a id) v = ⟨toks, none⟩) (g : Nat) (hg : f + 1 ≤ g) (cur : Val) (rest : List Tok) :
    unmBare ts a trs it (f+1) id (upickBare ts a id) cur (toks ++ rest) = .ok (rtBare ts a trs it g id (pickBare ts a id) v) rest toks.length ∧
      NullSpec ts a trs toks id v := by
  obtain ⟨g, rfl⟩ : ∃ g', g = g' + 1 := ⟨g - 1, by omega⟩
  rw [hpick.1, marshalBare_prim] at hm
  obtain ⟨tok, rfl, hs, hc1, hc2, hnull⟩ := prim_rt ts h id v toks hv hd hm
  rw [hpick.1, hpick.2, rtBare_prim]
  refine ⟨by simp [unmBare_prim, hs], ?_⟩
  have h999 : (marshalBare ts a trs 999 id (pickBare ts a id) v).toks = [tok] := by
    rw [hpick.1, show (999 : Nat) = 998 + 1 from rfl, marshalBare_prim, hm]
  rcases hnull with rfl | hnn
  · exact Or.inl ⟨rfl, nullSer_true ts a trs id v hnp h999⟩
  · exact Or.inr ⟨tok, [], rfl, hnn, hc1, hc2, nullSer_false ts a trs id v hnp tok [] h999 hnn⟩


theorem seq_toks_head (t : Tok) (B : Unit → MOut) : ((MOut.ok [t]).seq B).toks = t :: (B ()).toks := by
  simp [MOut.seq, MOut.ok]

theorem mapM_keys (es : List (Val × Val)) (hk : ∀ q ∈ es, ∃ s, q.1 = Val.str s) :
    es.mapM (mkeyStr trs none) = some (es.map fun (k, x) => (keyStr k, x)) := by
  induction es with
  | nil => simp
  | cons q qs ih =>
    obtain ⟨k, x⟩ := q
    obtain ⟨s, hs⟩ := hk (k, x) (by simp)
    simp only at hs; subst hs
    simp [List.mapM_cons, ih (fun q hq => hk q (by simp [hq])), mkeyStr, keyStr]

theorem nullSer_false' (base : Nat) (inner : Val) (hb : ∀ e, ts.get base ≠ .ptr e) (t : Tok)
    (h : ∃ r, (marshalBare ts a trs 999 base (pickBare ts a base) inner).toks = t :: r) (ht : t.body ≠ .null) :
    isNullSer ts a trs base inner = false := by
  obtain ⟨r, h⟩ := h
  exact nullSer_false ts a trs base inner hb t r h ht

theorem rt_b {f} (ih : RT ts a trs it f) : ∀ p h k id v toks, p + 1 ≤ 64 → plainTy ts a (p + 1) id = true → (∀ e, ts.get id ≠ .ptr e) → hasTy ts h id v = true → distinctKeys k v →
      marshalBare ts a trs (f+1) id (pickBare ts a id) v = ⟨toks, none⟩ → ∀ g, f + 1 ≤ g → ∀ cur rest, CurZ ts cur →
      unmBare ts a trs it (f+1) id (upickBare ts a id) cur (toks ++ rest) = .ok (rtBare ts a trs it g id (pickBare ts a id) v) rest toks.length ∧
      NullSpec ts a trs toks id v := by
  intro p h k id v toks hp64 hp hnp hv hk hm g hg cur rest hcur
  cases hd : ts.get id with
  | prim kk b =>
    have hn : a.get id = none := by simpa [plainTy, hd] using hp
    exact rt_b_prim h id v toks hv (Or.inl ⟨kk, b, hd⟩) hnp (pick_prim hd hn) hm g hg cur rest
  | bytes b =>
    have hn : a.get id = none := by simpa [plainTy, hd] using hp
    exact rt_b_prim h id v toks hv (Or.inr (Or.inl ⟨b, hd⟩)) hnp (pick_bytes hd hn) hm g hg cur rest
  | byteArr n =>
    have hn : a.get id = none := by simpa [plainTy, hd] using hp
    exact rt_b_prim h id v toks hv (Or.inr (Or.inr ⟨n, hd⟩)) hnp (pick_byteArr hd hn) hm g hg cur rest
  | slice e =>
    obtain ⟨g, rfl⟩ : ∃ g', g = g' + 1 := ⟨g - 1, by omega⟩
    have hp' : a.get id = none ∧ plainTy ts a p e = true := by simpa [plainTy, hd] using hp
    obtain ⟨hpk, hupk⟩ := pick_slice hd hp'.1
    rw [hpk] at hm ⊢; rw [hupk]
    cases h with
    | zero => simp [hasTy] at hv
    | succ h =>
    cases k with
    | zero => simp [distinctKeys] at hk
    | succ k =>
    cases v <;> simp only [hasTy, hd] at hv <;> try (cases hv; done)
    rename_i o
    cases o with
    | none =>
      rw [marshalBare_slice] at hm
      simp [MOut.ok] at hm; subst hm
      refine ⟨by simp [unmBare_slice, rtBare_slice], Or.inl ⟨rfl, nullSer_true ts a trs id _ hnp ?_⟩⟩
      rw [hpk, show (999 : Nat) = 998 + 1 from rfl, marshalBare_slice]; rfl
    | some es =>
      rw [marshalBare_slice] at hm
      simp only at hm
      obtain ⟨t1, t23, h1, h23, rfl⟩ := seq_ok hm
      obtain ⟨tl, tc, h2, h3, rfl⟩ := seq_ok h23
      simp [MOut.ok] at h1 h3; subst h1 h3
      have hv' : ∀ x ∈ es, hasTy ts h e x = true := by simpa [hasTy, hd] using hv
      have hk' : ∀ x ∈ es, distinctKeys k x := by simpa [distinctKeys] using hk
      have hl := ih.l p h k e es tl (by omega) hp'.2 hv' hk' h2 g (by omega) none [] rest (by simp)
      refine ⟨?_, Or.inr ⟨⟨.arrOpen es.length, none⟩, tl ++ [⟨.arrClose, none⟩], rfl, by simp, by simp, by simp, nullSer_false' id _ hnp ⟨.arrOpen es.length, none⟩ ?_ (by simp)⟩⟩
      · have e1 : ([⟨.arrOpen es.length, none⟩] ++ (tl ++ [⟨.arrClose, none⟩])) ++ rest =
            ⟨.arrOpen es.length, none⟩ :: (tl ++ ⟨.arrClose, none⟩ :: rest) := by simp
        rw [e1, unmBare_slice, rtBare_slice]
        simp [hl]
      · rw [hpk, show (999 : Nat) = 998 + 1 from rfl, marshalBare_slice]
        exact ⟨_, seq_toks_head _ _⟩
  | arr n e =>
    obtain ⟨g, rfl⟩ : ∃ g', g = g' + 1 := ⟨g - 1, by omega⟩
    have hp' : a.get id = none ∧ plainTy ts a p e = true := by simpa [plainTy, hd] using hp
    obtain ⟨hpk, hupk⟩ := pick_arr hd hp'.1
    rw [hpk] at hm ⊢; rw [hupk]
    cases h with
    | zero => simp [hasTy] at hv
    | succ h =>
    cases k with
    | zero => simp [distinctKeys] at hk
    | succ k =>
    cases v <;> simp only [hasTy, hd] at hv <;> try (cases hv; done)
    rename_i es
    rw [marshalBare_array] at hm
    simp only at hm
    obtain ⟨t1, t23, h1, h23, rfl⟩ := seq_ok hm
    obtain ⟨tl, tc, h2, h3, rfl⟩ := seq_ok h23
    simp [MOut.ok] at h1 h3; subst h1 h3
    have hv' : es.length = n ∧ ∀ x ∈ es, hasTy ts h e x = true := by simpa [hasTy, hd] using hv
    have hk' : ∀ x ∈ es, distinctKeys k x := by simpa [distinctKeys] using hk
    have hl := ih.l p h k e es tl (by omega) hp'.2 hv'.2 hk' h2 g (by omega) (some n) [] rest (by simp [hv'.1])
    refine ⟨?_, Or.inr ⟨⟨.arrOpen es.length, none⟩, tl ++ [⟨.arrClose, none⟩], rfl, by simp, by simp, by simp, nullSer_false' id _ hnp ⟨.arrOpen es.length, none⟩ ?_ (by simp)⟩⟩
    · have e1 : ([⟨.arrOpen es.length, none⟩] ++ (tl ++ [⟨.arrClose, none⟩])) ++ rest =
          ⟨.arrOpen es.length, none⟩ :: (tl ++ ⟨.arrClose, none⟩ :: rest) := by simp
      rw [e1, unmBare_array, rtBare_array]
      simp [hl, arrFix, hv'.1]
    · rw [hpk, show (999 : Nat) = 998 + 1 from rfl, marshalBare_array]
      exact ⟨_, seq_toks_head _ _⟩
  | map kt vt =>
    obtain ⟨g, rfl⟩ : ∃ g', g = g' + 1 := ⟨g - 1, by omega⟩
    have hp2 := hp
    simp only [plainTy, hd, Bool.and_eq_true, Option.isNone_iff_eq_none] at hp2
    obtain ⟨⟨hn, hkt⟩, hpv⟩ := hp2
    obtain ⟨bk, hkt⟩ : ∃ bk, ts.get kt = .prim .string bk := by
      split at hkt
      · rename_i bk hh; exact ⟨bk, hh⟩
      · cases hkt
    have hmk : mkeyFn ts a kt = some none := by simp [mkeyFn, hkt]
    have huk : ukeyFn ts a kt = some none := by simp [ukeyFn, hkt]
    obtain ⟨hpk, hupk⟩ := pick_map hd hn
    rw [hpk] at hm ⊢; rw [hupk]
    cases h with
    | zero => simp [hasTy] at hv
    | succ h =>
    cases k with
    | zero => simp [distinctKeys] at hk
    | succ k =>
    cases v <;> simp only [hasTy, hd] at hv <;> try (cases hv; done)
    rename_i o
    cases o with
    | none =>
      rw [marshalBare_map, hmk] at hm
      simp [MOut.ok] at hm; subst hm
      refine ⟨by simp [unmBare_map, huk, rtBare_map], Or.inl ⟨rfl, nullSer_true ts a trs id _ hnp ?_⟩⟩
      rw [hpk, show (999 : Nat) = 998 + 1 from rfl, marshalBare_map, hmk]; rfl
    | some es =>
      have hv' : ∀ q ∈ es, hasTy ts h kt q.1 = true ∧ hasTy ts h vt q.2 = true := by
        intro q hq
        obtain ⟨q1, q2⟩ := q
        have := hv
        simp at this
        exact this q1 q2 hq
      have hkeys : ∀ q ∈ es, ∃ s, q.1 = Val.str s := by
        intro q hq
        have h1 := (hv' q hq).1
        cases h with
        | zero => simp [hasTy] at h1
        | succ h =>
          obtain ⟨k1, x1⟩ := q
          cases k1 <;> simp [hasTy, hkt, intRange, uintMax] at h1
          exact ⟨_, rfl⟩
      have hk' : ((es.map fun p => keyStr p.1).Nodup) ∧ ∀ q ∈ es, distinctKeys k q.2 := (by simpa [distinctKeys] using hk : _ ∧ _ ∧ _).2
      rw [marshalBare_map, hmk] at hm
      simp only [Option.getD_some, mapM_keys es hkeys, Option.isNone_some, Bool.false_eq_true, if_false] at hm
      obtain ⟨t1, t23, h1, h23, rfl⟩ := seq_ok hm
      obtain ⟨tl, tc, h2, h3, rfl⟩ := seq_ok h23
      simp [MOut.ok] at h1 h3; subst h1 h3
      let kvs := es.map fun (q : Val × Val) => (keyStr q.1, q.2)
      have hperm := List.mergeSort_perm kvs (fun x y => keyLe a.defaultSort x.1 y.1)
      have hmem : ∀ q ∈ sortKeys a.defaultSort kvs, ∃ q' ∈ es, q.2 = q'.2 := by
        intro q hq
        have : q ∈ kvs := hperm.mem_iff.mp hq
        simp only [kvs, List.mem_map] at this
        obtain ⟨q', hq', rfl⟩ := this
        exact ⟨q', hq', rfl⟩
      have hm' := ih.m p h k vt (sortKeys a.defaultSort kvs) tl (by omega) hpv
        (fun q hq => by obtain ⟨q', hq', he⟩ := hmem q hq; rw [he]; exact (hv' q' hq').2)
        (fun q hq => by obtain ⟨q', hq', he⟩ := hmem q hq; rw [he]; exact hk'.2 q' hq')
        (by
          have : ((sortKeys a.defaultSort kvs).map (·.1)).Perm (kvs.map (·.1)) := hperm.map _
          rw [this.nodup_iff]
          simpa [kvs, List.map_map, Function.comp_def] using hk'.1)
        h2 g (by omega) [] rest (by intro q hq; simp [hasKey])
      obtain ⟨idz, rfl⟩ := hcur
      refine ⟨?_, Or.inr ⟨⟨.mapOpen es.length, none⟩, tl ++ [⟨.mapClose, none⟩], rfl, by simp, by simp, by simp, nullSer_false' id _ hnp ⟨.mapOpen es.length, none⟩ ?_ (by simp)⟩⟩
      · have e1 : ([⟨.mapOpen es.length, none⟩] ++ (tl ++ [⟨.mapClose, none⟩])) ++ rest =
            ⟨.mapOpen es.length, none⟩ :: (tl ++ ⟨.mapClose, none⟩ :: rest) := by simp
        rw [e1, unmBare_map, huk, rtBare_map]
        simp only [zeroVal_mapCur0]
        simp [hm', kvs]
      · rw [hpk, show (999 : Nat) = 998 + 1 from rfl, marshalBare_map, hmk]
        simp only [Option.getD_some, mapM_keys es hkeys, Option.isNone_some, Bool.false_eq_true, if_false]
        exact ⟨_, seq_toks_head _ _⟩
  | ptr e => exact absurd hd (hnp e)
  | iface m => simp [plainTy, hd] at hp
  | struct fs => simp [plainTy, hd] at hp
  | other => simp [plainTy, hd] at hp

theorem rt_v {f} (ih : RT ts a trs it f) : ∀ p h k id v toks, p ≤ 64 → plainTy ts a p id = true → hasTy ts h id v = true → distinctKeys k v →
      marshalV ts a trs (f+1) id v = ⟨toks, none⟩ → ∀ g, f + 1 ≤ g → ∀ cur rest, CurZ ts cur →
      unmV ts a trs it (f+1) id cur (toks ++ rest) = .ok (rtV ts a trs it g id v) rest toks.length ∧
      ∃ t r, toks = t :: r ∧ t.body ≠ .arrClose ∧ t.body ≠ .mapClose := by
  intro p h k id v toks hp64 hp hv hk hm g hg cur rest hcur
  obtain ⟨g, rfl⟩ : ∃ g', g = g' + 1 := ⟨g - 1, by omega⟩
  obtain ⟨n, base, p', hpeel, hpb, hnp, hch, hp'p⟩ := plain_peel ts a p 64 0 id hp hp64
  simp only [Nat.zero_add] at hpeel
  have hp'64 : p' + 1 ≤ 64 := by omega
  rw [marshalV_succ, hpeel] at hm
  rw [rtV_succ, hpeel]
  simp only at hm ⊢
  cases n with
  | zero =>
    cases hch
    simp only [beq_self_eq_true, if_true] at hm ⊢
    obtain ⟨hu, hns⟩ := ih.b p' h k id v toks hp'64 hpb hnp hv hk hm g (by omega) cur rest hcur
    have hhead : ∃ t r, toks = t :: r ∧ t.body ≠ .arrClose ∧ t.body ≠ .mapClose := by
      rcases hns with ⟨rfl, -⟩ | ⟨t, r, rfl, -, h1, h2, -⟩
      · exact ⟨_, _, rfl, by simp, by simp⟩
      · exact ⟨t, r, rfl, h1, h2⟩
    refine ⟨?_, hhead⟩
    obtain ⟨t, r, rfl, -, -⟩ := hhead
    rw [List.cons_append, unmV_cons, hpeel]
    simpa using hu
  | succ n =>
    have hn0 : ((n + 1 == 0) = false) := by simp
    simp only [hn0] at hm ⊢
    rcases chain_hasTy ts (n + 1) id base h v hch hv with hdn | ⟨inner, h', hdn, hvi⟩
    · rw [hdn] at hm ⊢
      simp [MOut.ok] at hm; subst hm
      refine ⟨?_, ⟨_, _, rfl, by simp, by simp⟩⟩
      rw [List.cons_append, unmV_cons, hpeel]
      simp
    · rw [hdn] at hm ⊢
      simp only at hm ⊢
      obtain ⟨k', hki⟩ := chain_distinct (n + 1) k v inner hk hdn
      obtain ⟨hu, hns⟩ := ih.b p' h' k' base inner toks hp'64 hpb hnp hvi hki hm g (by omega)
        (innerCur ts (n + 1) id cur) rest (innerCur_zero ts _ _ _ hcur)
      rcases hns with ⟨rfl, hnull⟩ | ⟨t, r, rfl, hnn, h1, h2, hnull⟩
      · refine ⟨?_, ⟨_, _, rfl, by simp, by simp⟩⟩
        rw [List.cons_append, unmV_cons, hpeel]
        simp [hnull]
      · refine ⟨?_, ⟨t, r, rfl, h1, h2⟩⟩
        rw [List.cons_append, unmV_cons, hpeel]
        simp only [hn0, hnull, Bool.false_eq_true, if_false]
        rw [List.cons_append] at hu
        first
          | (rw [hu]; rfl)
          | (split
             · rename_i hb; exact absurd hb hnn
             · rw [hu]; rfl)

theorem rt_all (f : Nat) : RT ts a trs it f := by
  induction f with
  | zero => exact rt_zero ts a trs it
  | succ n ih => exact ⟨rt_v ih, rt_b ih, rt_l ih, rt_m ih⟩

variable (ts a trs it)

theorem normV_succ (fuel id v) : normV .pretty ts a trs it (fuel+1) id v =
    if (peel ts 64 0 id).1 == 0 then normBare .pretty ts a trs it fuel (peel ts 64 0 id).2 (pickBare ts a (peel ts 64 0 id).2) v
    else match derefN (peel ts 64 0 id).1 v with
      | none => .ptr none
      | some inner =>
        if isNullSer ts a trs (peel ts 64 0 id).2 inner then .ptr none
        else wrapPtr (peel ts 64 0 id).1 (normBare .pretty ts a trs it fuel (peel ts 64 0 id).2 (pickBare ts a (peel ts 64 0 id).2) inner) := by
  rw [normV.eq_def]
  try rfl

theorem normBare_slice (fuel id e v) : normBare .pretty ts a trs it (fuel+1) id (.slice e) v =
    (match v with | .slice (some vs) => .slice (some (vs.map (normV .pretty ts a trs it fuel e))) | x => x) := by
  rw [normBare.eq_def]
  try rfl
theorem normBare_array (fuel id e v) : normBare .pretty ts a trs it (fuel+1) id (.array e) v =
    (match v with | .arr vs => .arr (vs.map (normV .pretty ts a trs it fuel e)) | x => x) := by
  rw [normBare.eq_def]
  try rfl
theorem normBare_map (fuel id kt vt mode v) : normBare .pretty ts a trs it (fuel+1) id (.map kt vt mode) v =
    (match v with
     | .map (some es) => .map (some (es.map fun (k, x) => (k, normV .pretty ts a trs it fuel vt x)))
     | x => x) := by
  rw [normBare.eq_def]
  try rfl
theorem normBare_prim (fuel id v) : normBare .pretty ts a trs it (fuel+1) id .prim v = v := by
  have := rtBare_prim ts a trs it fuel id v
  rw [rtBare.eq_def] at this
  exact this


theorem derefN_sorted (mode) : ∀ (n : Nat) (k : Nat) (v inner : Val), mapsSorted mode k v → derefN n v = some inner →
    ∃ k', mapsSorted mode k' inner := by
  intro n
  induction n with
  | zero => intro k v inner hk hd; simp [derefN] at hd; subst hd; exact ⟨k, hk⟩
  | succ n ih =>
    intro k v inner hk hd
    cases v <;> try (simp [derefN] at hd; done)
    rename_i o
    cases o with
    | none => simp [derefN] at hd
    | some x =>
      simp only [derefN] at hd
      cases k with
      | zero => simp [mapsSorted] at hk
      | succ k => exact ih k x inner (by simpa [mapsSorted] using hk) hd

/-- on values whose maps are listed in key order the round-trip value is exactly `normV` -/
theorem rt_eq_norm (g : Nat) :
    (∀ p k id v, p ≤ 64 → plainTy ts a p id = true → mapsSorted a.defaultSort k v →
      rtV ts a trs it g id v = normV .pretty ts a trs it g id v) ∧
    (∀ p k id v, p + 1 ≤ 64 → plainTy ts a (p + 1) id = true → (∀ e, ts.get id ≠ .ptr e) → mapsSorted a.defaultSort k v →
      rtBare ts a trs it g id (pickBare ts a id) v = normBare .pretty ts a trs it g id (pickBare ts a id) v) := by
  induction g with
  | zero => exact ⟨fun _ _ _ _ _ _ _ => by simp [rtV, normV], fun _ _ _ _ _ _ _ _ => by simp [rtBare, normBare]⟩
  | succ g ih =>
    constructor
    · intro p k id v hp64 hp hs
      obtain ⟨n, base, p', hpeel, hpb, hnp, hch, hp'p⟩ := plain_peel ts a p 64 0 id hp hp64
      simp only [Nat.zero_add] at hpeel
      rw [rtV_succ, normV_succ, hpeel]
      simp only
      split
      · exact ih.2 p' k base v (by omega) hpb hnp hs
      · cases hdn : derefN n v with
        | none => rfl
        | some inner =>
          obtain ⟨k', hs'⟩ := derefN_sorted a.defaultSort n k v inner hs hdn
          simp only [ih.2 p' k' base inner (by omega) hpb hnp hs']
    · intro p k id v hp64 hp hnp hs
      cases hd : ts.get id with
      | prim kk b =>
        have hn : a.get id = none := by simpa [plainTy, hd] using hp
        rw [(pick_prim hd hn).1, rtBare_prim, normBare_prim]
      | bytes b =>
        have hn : a.get id = none := by simpa [plainTy, hd] using hp
        rw [(pick_bytes hd hn).1, rtBare_prim, normBare_prim]
      | byteArr n =>
        have hn : a.get id = none := by simpa [plainTy, hd] using hp
        rw [(pick_byteArr hd hn).1, rtBare_prim, normBare_prim]
      | slice e =>
        have hp' : a.get id = none ∧ plainTy ts a p e = true := by simpa [plainTy, hd] using hp
        rw [(pick_slice hd hp'.1).1, rtBare_slice, normBare_slice]
        cases v <;> try rfl
        rename_i o
        cases o with
        | none => rfl
        | some vs =>
          cases k with
          | zero => simp [mapsSorted] at hs
          | succ k =>
            simp only [mapsSorted] at hs
            simp only [Val.slice.injEq, Option.some.injEq]
            exact List.map_congr_left (fun x hx => ih.1 p k e x (by omega) hp'.2 (hs x hx))
      | arr n e =>
        have hp' : a.get id = none ∧ plainTy ts a p e = true := by simpa [plainTy, hd] using hp
        rw [(pick_arr hd hp'.1).1, rtBare_array, normBare_array]
        cases v <;> try rfl
        rename_i vs
        cases k with
        | zero => simp [mapsSorted] at hs
        | succ k =>
          simp only [mapsSorted] at hs
          simp only [Val.arr.injEq]
          exact List.map_congr_left (fun x hx => ih.1 p k e x (by omega) hp'.2 (hs x hx))
      | map kt vt =>
        have hp2 := hp
        simp only [plainTy, hd, Bool.and_eq_true, Option.isNone_iff_eq_none] at hp2
        obtain ⟨⟨hn, hkt⟩, hpv⟩ := hp2
        rw [(pick_map hd hn).1, rtBare_map, normBare_map]
        cases v <;> try rfl
        rename_i o
        cases o with
        | none => rfl
        | some es =>
          cases k with
          | zero => simp [mapsSorted] at hs
          | succ k =>
            simp only [mapsSorted] at hs
            obtain ⟨hsort, hstr, hsub⟩ := hs
            simp only [Val.map.injEq, Option.some.injEq]
            have : sortKeys a.defaultSort (es.map fun x => (keyStr x.1, x.2)) = es.map fun x => (keyStr x.1, x.2) :=
              List.mergeSort_of_pairwise hsort
            rw [this, List.map_map]
            refine List.map_congr_left (fun q hq => ?_)
            obtain ⟨s, hs1⟩ := hstr q hq
            obtain ⟨q1, q2⟩ := q
            simp only at hs1; subst hs1
            simp [keyStr, ih.1 p k vt q2 (by omega) hpv (hsub _ hq)]
      | ptr e => exact absurd hd (hnp e)
      | iface m => simp [plainTy, hd] at hp
      | struct fs => simp [plainTy, hd] at hp
      | other => simp [plainTy, hd] at hp

theorem ValEqv.wrap {x y : Val} (h : ValEqv x y) : ∀ n, ValEqv (wrapPtr n x) (wrapPtr n y)
  | 0 => h
  | n+1 => ValEqv.ptr (ValEqv.wrap h n)

theorem zip_map_mem {α β γ : Type} (f : α → β) (g : α → γ) (l : List α) (p : β × γ) (hp : p ∈ (l.map f).zip (l.map g)) :
    ∃ x ∈ l, p = (f x, g x) := by
  rw [List.zip_map'] at hp
  simpa [eq_comm] using hp

/-- in general the round-trip value is `normV` up to the order of map entries -/
theorem rt_eqv_norm (g : Nat) :
    (∀ p k id v, p ≤ 64 → plainTy ts a p id = true → distinctKeys k v →
      ValEqv (rtV ts a trs it g id v) (normV .pretty ts a trs it g id v)) ∧
    (∀ p k id v, p + 1 ≤ 64 → plainTy ts a (p + 1) id = true → (∀ e, ts.get id ≠ .ptr e) → distinctKeys k v →
      ValEqv (rtBare ts a trs it g id (pickBare ts a id) v) (normBare .pretty ts a trs it g id (pickBare ts a id) v)) := by
  induction g with
  | zero =>
    exact ⟨fun _ _ _ v _ _ _ => by simp only [rtV, normV]; exact ValEqv.refl v,
           fun _ _ _ v _ _ _ _ => by simp only [rtBare, normBare]; exact ValEqv.refl v⟩
  | succ g ih =>
    constructor
    · intro p k id v hp64 hp hs
      obtain ⟨n, base, p', hpeel, hpb, hnp, hch, hp'p⟩ := plain_peel ts a p 64 0 id hp hp64
      simp only [Nat.zero_add] at hpeel
      rw [rtV_succ, normV_succ, hpeel]
      simp only
      split
      · exact ih.2 p' k base v (by omega) hpb hnp hs
      · cases hdn : derefN n v with
        | none => exact ValEqv.refl _
        | some inner =>
          obtain ⟨k', hs'⟩ := chain_distinct n k v inner hs hdn
          simp only
          split
          · exact ValEqv.refl _
          · exact ValEqv.wrap (ih.2 p' k' base inner (by omega) hpb hnp hs') n
    · intro p k id v hp64 hp hnp hs
      cases hd : ts.get id with
      | prim kk b =>
        have hn : a.get id = none := by simpa [plainTy, hd] using hp
        rw [(pick_prim hd hn).1, rtBare_prim, normBare_prim]; exact ValEqv.refl _
      | bytes b =>
        have hn : a.get id = none := by simpa [plainTy, hd] using hp
        rw [(pick_bytes hd hn).1, rtBare_prim, normBare_prim]; exact ValEqv.refl _
      | byteArr n =>
        have hn : a.get id = none := by simpa [plainTy, hd] using hp
        rw [(pick_byteArr hd hn).1, rtBare_prim, normBare_prim]; exact ValEqv.refl _
      | slice e =>
        have hp' : a.get id = none ∧ plainTy ts a p e = true := by simpa [plainTy, hd] using hp
        rw [(pick_slice hd hp'.1).1, rtBare_slice, normBare_slice]
        cases v <;> try exact ValEqv.refl _
        rename_i o
        cases o with
        | none => exact ValEqv.refl _
        | some vs =>
          cases k with
          | zero => simp [distinctKeys] at hs
          | succ k =>
            simp only [distinctKeys] at hs
            refine ValEqv.slice (by simp) (fun q hq => ?_)
            obtain ⟨x, hx, rfl⟩ := zip_map_mem _ _ vs q hq
            exact ih.1 p k e x (by omega) hp'.2 (hs x hx)
      | arr n e =>
        have hp' : a.get id = none ∧ plainTy ts a p e = true := by simpa [plainTy, hd] using hp
        rw [(pick_arr hd hp'.1).1, rtBare_array, normBare_array]
        cases v <;> try exact ValEqv.refl _
        rename_i vs
        cases k with
        | zero => simp [distinctKeys] at hs
        | succ k =>
          simp only [distinctKeys] at hs
          refine ValEqv.arr (by simp) (fun q hq => ?_)
          obtain ⟨x, hx, rfl⟩ := zip_map_mem _ _ vs q hq
          exact ih.1 p k e x (by omega) hp'.2 (hs x hx)
      | map kt vt =>
        have hp2 := hp
        simp only [plainTy, hd, Bool.and_eq_true, Option.isNone_iff_eq_none] at hp2
        obtain ⟨⟨hn, hkt⟩, hpv⟩ := hp2
        rw [(pick_map hd hn).1, rtBare_map, normBare_map]
        cases v <;> try exact ValEqv.refl _
        rename_i o
        cases o with
        | none => exact ValEqv.refl _
        | some es =>
          cases k with
          | zero => simp [distinctKeys] at hs
          | succ k =>
            simp only [distinctKeys] at hs
            obtain ⟨hstr, hnd, hsub⟩ := hs
            simp only
            refine ValEqv.map (zs := es.map fun q => (q.1, rtV ts a trs it g vt q.2)) ?_ (by simp) ?_ ?_
            · have hperm := (List.mergeSort_perm (es.map fun x => (keyStr x.1, x.2))
                (fun x y => keyLe a.defaultSort x.1 y.1)).map (fun (q : Bytes × Val) => (Val.str q.1, rtV ts a trs it g vt q.2))
              refine hperm.trans (List.Perm.of_eq ?_)
              rw [List.map_map]
              refine List.map_congr_left (fun q hq => ?_)
              obtain ⟨s, hs1⟩ := hstr q hq
              obtain ⟨q1, q2⟩ := q
              simp only at hs1; subst hs1
              simp [keyStr]
            · intro q hq
              obtain ⟨x, hx, rfl⟩ := zip_map_mem _ _ es q hq
              rfl
            · intro q hq
              obtain ⟨x, hx, rfl⟩ := zip_map_mem _ _ es q hq
              exact ih.1 p k vt x.2 (by omega) hpv (hsub x hx)
      | ptr e => exact absurd hd (hnp e)
      | iface m => simp [plainTy, hd] at hp
      | struct fs => simp [plainTy, hd] at hp
      | other => simp [plainTy, hd] at hp
/-- the exact token-level round trip on plain types -/
theorem complete_plain_rt (ts : Types) (a : Atlas) (trs : Trs) (it : IfaceTys) (fuel id : Nat) (v : Val) (toks : List Tok)
    (hp : plainTy ts a 64 id = true) (hv : hasTy ts 1000 id v = true)
    (hkeys : distinctKeys 1000 v)
    (hm : marshalV ts a trs fuel id v = ⟨toks, none⟩) :
    unmV ts a trs it fuel id (zeroVal ts 64 id) toks = .ok (rtV ts a trs it fuel id v) [] toks.length := by
  have := ((rt_all (ts := ts) (a := a) (trs := trs) (it := it) fuel).v 64 1000 1000 id v toks (Nat.le_refl _) hp hv hkeys hm fuel
    (Nat.le_refl _) (zeroVal ts 64 id) [] ⟨id, rfl⟩).1
  simpa using this

def ceTsM : Types := [(0, .map 1 2), (1, .prim .string true), (2, .prim .int true)]
def ceAM : Atlas := ⟨[], .default⟩
def ceV : Val := .map (some [(.str [98], .int 1), (.str [97], .int 2)])
def ceTrs : Trs := ⟨fun _ _ => none, fun _ _ => none⟩

theorem ce_plain : plainTy ceTsM ceAM 64 0 = true := by
  decide
theorem ce_hasTy : hasTy ceTsM 1000 0 ceV = true := by
  decide
theorem ce_distinct : distinctKeys 1000 ceV := by
  show distinctKeys (999 + 1) (.map (some [(.str [98], .int 1), (.str [97], .int 2)]))
  rw [distinctKeys]
  refine ⟨by simp, by simp [keyStr], fun p hp => ?_⟩
  simp at hp
  rcases hp with rfl | rfl <;> (show distinctKeys (998 + 1) (Val.int _); simp [distinctKeys])
theorem ce_marshal : marshalV ceTsM ceAM ceTrs 100 0 ceV =
    ⟨[⟨.mapOpen 2, none⟩, ⟨.str [97], none⟩, ⟨.int 2, none⟩, ⟨.str [98], none⟩, ⟨.int 1, none⟩, ⟨.mapClose, none⟩], none⟩ := by
  simp [marshalV, marshalBare, marshalEntries, peel, ceTsM, ceAM, ceV, Types.get, List.lookup, pickBare, Atlas.get,
    sortKeys, List.mergeSort, List.merge, keyLe, bytesLe, bytesLt, MOut.seq, MOut.ok, primTok]
theorem ce_rt (it : IfaceTys) : rtV ceTsM ceAM ceTrs it 100 0 ceV = .map (some [(.str [97], .int 2), (.str [98], .int 1)]) := by
  simp [rtV, rtBare, peel, ceTsM, ceAM, ceV, Types.get, List.lookup, pickBare, Atlas.get, keyStr,
    sortKeys, List.mergeSort, List.merge, keyLe, bytesLe, bytesLt, normBare, derefN]
theorem ce_norm (it : IfaceTys) : normV .pretty ceTsM ceAM ceTrs it 100 0 ceV = ceV := by
  simp [normV, normBare, peel, ceTsM, ceAM, ceV, Types.get, List.lookup, pickBare, Atlas.get, derefN]

/-- The original statement fails for the map `{"b":1, "a":2}` (listed in that order): the marshaller emits the
    entries in key order, the unmarshaller commits them in stream order, so the value comes back as
    `{"a":2, "b":1}`, whereas `normV` keeps the original order.  (Go maps are unordered: the culprit is the use of
    order-sensitive equality on `Val.map` in the statement, not the model.) -/
theorem complete_plain_false : ¬ complete_plain_statement := by
  intro h
  have h1 := h ceTsM ceAM ceTrs default 100 0 ceV _ ce_plain ce_hasTy (by decide) trivial ce_marshal (by simp)
  have h2 := complete_plain_rt ceTsM ceAM ceTrs default 100 0 ceV _ ce_plain ce_hasTy ce_distinct ce_marshal
  rw [h2, ce_rt, ce_norm] at h1
  simp [ceV] at h1

/-- the original conclusion, for values whose maps are listed in the marshaller's key order
    (`hkeys : True` replaced by: keys are distinct strings, entries sorted) -/
theorem complete_plain_sorted (ts : Types) (a : Atlas) (trs : Trs) (it : IfaceTys) (fuel id : Nat) (v : Val) (toks : List Tok)
    (hp : plainTy ts a 64 id = true) (hv : hasTy ts 1000 id v = true)
    (hkeys : distinctKeys 1000 v) (hsorted : mapsSorted a.defaultSort 1000 v)
    (hm : marshalV ts a trs fuel id v = ⟨toks, none⟩) :
    unmV ts a trs it fuel id (zeroVal ts 64 id) toks = .ok (normV .pretty ts a trs it fuel id v) [] toks.length := by
  rw [complete_plain_rt ts a trs it fuel id v toks hp hv hkeys hm,
    (rt_eq_norm ts a trs it fuel).1 64 1000 id v (Nat.le_refl _) hp hsorted]

/-- the general statement: the value comes back as `normV` up to the order of map entries -/
theorem complete_plain_perm (ts : Types) (a : Atlas) (trs : Trs) (it : IfaceTys) (fuel id : Nat) (v : Val) (toks : List Tok)
    (hp : plainTy ts a 64 id = true) (hv : hasTy ts 1000 id v = true)
    (hkeys : distinctKeys 1000 v)
    (hm : marshalV ts a trs fuel id v = ⟨toks, none⟩) :
    ∃ v', unmV ts a trs it fuel id (zeroVal ts 64 id) toks = .ok v' [] toks.length ∧
      ValEqv v' (normV .pretty ts a trs it fuel id v) :=
  ⟨_, complete_plain_rt ts a trs it fuel id v toks hp hv hkeys hm,
    (rt_eqv_norm ts a trs it fuel).1 64 1000 id v (Nat.le_refl _) hp hkeys⟩

end Refmt.C13
