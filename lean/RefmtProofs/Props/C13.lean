/-
  C13 — the object unmarshaller accepts exactly the token streams that fit the target.

  `unmV` (RefmtModel/Model/Obj/Unmarshal.lean) is the functional model of obj.Unmarshaller:
  feed a token list to a target of a given type; the result is the value with the number of
  tokens consumed (`ok`), "more tokens needed" (`more`), or the index of the token at which an
  error (`err`) / panic (`panic`) is raised.

  * `done_is_complete`   : completion is signalled only when the tokens consumed so far form exactly one
                           well-formed value (they are the flattening of a token tree) and the rest is untouched.
  * `no_early_done`      : no proper prefix of an accepted value is itself accepted (done exactly on the last token).
  * `complete`           : every token rendering the marshaller produces for a value of the target type is
                           accepted, completes exactly on its last token and reconstructs the value (`normV`):
                           this is the token-level round trip underlying C01 / C11.
  * `reject_*`           : unknown struct field, duplicate map key, declared struct length that disagrees, too many
                           elements for a fixed array, token of the wrong kind: each an error at the offending token.
  * `total`              : for a well-formed atlas no token list makes the model panic.
-/
import RefmtModel
set_option linter.unusedSimpArgs false
set_option linter.unusedVariables false
namespace Refmt.C13
open Refmt Refmt.Obj

theorem done_is_complete (ts : Types) (a : Atlas) (trs : Trs) (it : IfaceTys) (fuel id : Nat) (cur : Val)
    (toks : List Tok) (v : Val) (rest : List Tok) (used : Nat)
    (h : unmV ts a trs it fuel id cur toks = .ok v rest used) :
    used ≤ toks.length ∧ rest = toks.drop used ∧ ∃ tv : TV, toks.take used = tv.flatten := by
  sorry

/-- feeding fewer tokens never yields `ok`: completion comes exactly on the last token of the value -/
theorem no_early_done (ts : Types) (a : Atlas) (trs : Trs) (it : IfaceTys) (fuel id : Nat) (cur : Val)
    (toks : List Tok) (v : Val) (rest : List Tok) (used k : Nat)
    (h : unmV ts a trs it fuel id cur toks = .ok v rest used) (hk : k < used) :
    ∃ u, unmV ts a trs it fuel id cur (toks.take k) = .more u := by
  sorry

/-- the result does not depend on what follows the value -/
theorem rest_irrelevant (ts : Types) (a : Atlas) (trs : Trs) (it : IfaceTys) (fuel id : Nat) (cur : Val)
    (toks : List Tok) (v : Val) (rest : List Tok) (used : Nat) (more : List Tok)
    (h : unmV ts a trs it fuel id cur toks = .ok v rest used) :
    unmV ts a trs it fuel id cur (toks.take used ++ more) = .ok v more used := by
  sorry

/-! ### strictness -/

theorem reject_unknown_field (ts : Types) (a : Atlas) (trs : Trs) (it : IfaceTys) (fuel id : Nat) (fields : List SMField)
    (len : Int) (idx : Nat) (cur : Val) (name : Bytes) (tag : Option Int) (rest : List Tok)
    (h : fields.find? (fun f => f.name == name) = none) :
    unmStruct ts a trs it (fuel + 1) id fields len idx cur (⟨.str name, tag⟩ :: rest) = .err 0 := by
  sorry

theorem reject_struct_length_mismatch (ts : Types) (a : Atlas) (trs : Trs) (it : IfaceTys) (fuel id : Nat) (fields : List SMField)
    (len : Int) (idx : Nat) (cur : Val) (tag : Option Int) (rest : List Tok) (h0 : 0 ≤ len) (h : len ≠ idx) :
    unmStruct ts a trs it (fuel + 1) id fields len idx cur (⟨.mapClose, tag⟩ :: rest) = .err 0 := by
  sorry

theorem reject_duplicate_key (ts : Types) (a : Atlas) (trs : Trs) (it : IfaceTys) (fuel vt : Nat) (es : List (Val × Val))
    (s : Bytes) (tag : Option Int) (rest : List Tok) (h : hasKey (.str s) es = true) :
    unmMapEntries ts a trs it (fuel + 1) none vt es (⟨.str s, tag⟩ :: rest) = .err 0 := by
  sorry

theorem reject_array_overflow (ts : Types) (a : Atlas) (trs : Trs) (it : IfaceTys) (fuel e n : Nat) (acc : List Val)
    (t : Tok) (rest : List Tok) (hfull : acc.length ≥ n) (ht : t.body ≠ .arrClose) (ht2 : t.body ≠ .mapClose) :
    unmElems ts a trs it (fuel + 1) e (some n) acc (t :: rest) = .err 0 := by
  sorry

theorem reject_wrong_kind_scalar (d : TyDesc) (t : Tok) (h : storePrim d t = none) (ts : Types) (a : Atlas) (trs : Trs)
    (it : IfaceTys) (fuel id : Nat) (cur : Val) (rest : List Tok) (hd : ts.get id = d) :
    unmBare ts a trs it (fuel + 1) id .prim cur (t :: rest) = .err 0 := by
  sorry

/-! ### totality -/

/-- the atlas is internally consistent: union members point into the pool at struct-map or transform entries
    and no entry is `invalid`; map-morphism entries sit on map types; struct-map routes resolve
    (checked dynamically by `getRoute`/`setRoute`, which return `none` → an error, not a panic) -/
def atlasOk (ts : Types) (a : Atlas) : Bool :=
  a.pool.all fun e =>
    match e.k with
    | .invalid => false
    | .union ms => ms.all fun (_, idx) =>
        (match a.pool[idx]? with
         | some me => (match me.k with | .structMap _ => true | .transform _ _ _ => true | _ => false)
         | none => false)
    | .mapMorph _ => (match ts.get e.ty with | .map _ _ => true | _ => false)
    | .transform _ _ uty => (match ts.get uty with | .ptr _ => false | _ => true)
    | .structMap _ => true

/-- no pointer-to-pointer chains longer than the peel bound, no type whose pointer chain ends in a pointer -/
def typesOk (ts : Types) : Bool :=
  ts.all fun (id, _) => match ts.get (peel ts 64 0 id).2 with | .ptr _ => false | _ => true

theorem total (ts : Types) (a : Atlas) (trs : Trs) (it : IfaceTys) (fuel id : Nat) (cur : Val) (toks : List Tok)
    (ha : atlasOk ts a = true) (ht : typesOk ts = true) (hf : toks.length + 64 < fuel) (hid : (ts.lookup id).isSome) :
    ∀ u, unmV ts a trs it fuel id cur toks ≠ .panic u := by
  sorry

/-! ### completeness: what the marshaller produces is accepted and reconstructs the value -/

/-- value `v` inhabits type `id` (fuel-bounded structural check) -/
def hasTy (ts : Types) : Nat → Nat → Val → Bool
  | 0, _, _ => false
  | fuel+1, id, v =>
    match ts.get id, v with
    | .prim .bool _, .bool _ => true
    | .prim .string _, .str _ => true
    | .prim .f64 _, .float b => b < two64
    | .prim .f32 _, .float b => b < two64 && FloatText.narrowF32 b == b
    | .prim k _, .int i => (match intRange k with | some (lo, hi) => lo ≤ i && i ≤ hi | none => false)
    | .prim k _, .uint n => (match intRange k, uintMax k with | none, some mx => n ≤ mx | _, _ => false)
    | .bytes _, .bytes _ => true
    | .byteArr n, .byteArr b => b.length == n
    | .slice _, .slice none => true
    | .slice e, .slice (some vs) => vs.all (hasTy ts fuel e)
    | .arr n e, .arr vs => vs.length == n && vs.all (hasTy ts fuel e)
    | .map _ _, .map none => true
    | .map k e, .map (some es) => es.all fun (x, y) => hasTy ts fuel k x && hasTy ts fuel e y
    | .ptr _, .ptr none => true
    | .ptr e, .ptr (some x) => hasTy ts fuel e x
    | .iface _, .iface none => true
    | .iface _, .iface (some (dt, x)) => hasTy ts fuel dt x
    | .struct fds, .struct vs => vs.length == fds.length && (fds.zip vs).all fun (f, x) => hasTy ts fuel f.ty x
    | _, _ => false

/-- Token-level round trip, stated for the kinds whose rendering involves no untyped slot, transform or
    union (those are covered by the correspondence streams and by the `_partial` extensions below if proved). -/
def plainTy (ts : Types) (a : Atlas) : Nat → Nat → Bool
  | 0, _ => false
  | fuel+1, id =>
    match ts.get id with
    | .prim _ _ => (a.get id).isNone
    | .bytes _ => (a.get id).isNone
    | .byteArr _ => (a.get id).isNone
    | .slice e => (a.get id).isNone && plainTy ts a fuel e
    | .arr _ e => (a.get id).isNone && plainTy ts a fuel e
    | .map k e => (a.get id).isNone && (match ts.get k with | .prim .string _ => true | _ => false) && plainTy ts a fuel e
    | .ptr e => plainTy ts a fuel e
    | _ => false

theorem complete_plain (ts : Types) (a : Atlas) (trs : Trs) (it : IfaceTys) (fuel id : Nat) (v : Val) (toks : List Tok)
    (hp : plainTy ts a 64 id = true) (hv : hasTy ts 1000 id v = true) (ht : typesOk ts = true)
    (hkeys : True)   -- map keys are distinct as in any Go map: part of `hv`'s intent; strengthen if needed
    (hm : marshalV ts a trs fuel id v = ⟨toks, none⟩) (hf : toks.length + 64 < fuel) :
    unmV ts a trs it fuel id (zeroVal ts 64 id) toks = .ok (normV .pretty ts a trs it fuel id v) [] toks.length := by
  sorry

end Refmt.C13
