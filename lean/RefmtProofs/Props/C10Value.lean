/-
  C10, composed with the round-trip theorems: the transcoded document DENOTES the same value.

  `C10.c2j_accepts` / `j2c_pump` say the pump succeeds and what it writes; C03 / C02 say what those bytes
  decode to.  Composed:

  * `c2j_denotes`      : CBOR → JSON.  For CBOR bytes that `Spec.Cbor.parse` reads as a tree `v` of the common
                         data model (`C10.common`), every configuration with whitespace-only `Line`/`Indent`
                         (`C03.cfgOk`) and the model's float text: the pump succeeds, consumes exactly the item,
                         and decoding its JSON output with `JsonDec.decode` succeeds and yields
                         `v.flatten.map Spec.Json.retypeTok` - the same tokens with lengths unknown, integers
                         re-typed by their text, strings through `toValidUtf8`, floats as their text re-reads.
  * `c2j_denotes_ref`  : the same through the independent reference reader `Spec.Json.parse` (the output is a
                         valid RFC 8259 text for that value, followed only by the trailing `Line`).
  * `c2j_float_leaf`, `c2j_uint_leaf`, `c2j_str_leaf`, `c2j_other_leaf` : what `retypeTok` does to each leaf of
                         such a tree, semantically: a float `x` comes back as a token that `C03Sem.ReadsAs x`
                         (the float itself, or the integer whose conversion to float64 is `x`; `-0` as `0`);
                         an unsigned integer as the same integer (`.int` below 2^63); a string as its
                         `toValidUtf8` image (itself when it is valid UTF-8); null / bool / negative integers
                         unchanged.
  * `j2c_denotes`      : JSON → CBOR in the same style (the fourth conjunct of `C10.j2c_bounded` at the level
                         of the decoder model): decoding the pump's CBOR output with `CborDec.decode` succeeds,
                         consumes it all, and yields `v.flatten.map C02.normTok` = `v.flatten.map C02.canonTok`
                         (non-negative `.int` comes back as `.uint`; nothing else changes), under `hbig`
                         (strings within the decoders' 32 MiB cap, without which `C10.j2c_statement_false`).

  What `common` had to be strengthened with: nothing.  `C03.JWF v` needs the leaves inside the wire ranges
  (integers, float bit patterns below 2^64, strings made of bytes); `Spec.Cbor.parse` on bytes guarantees that
  (`CborLeaves.parse_LB`, new: Lemmas/CborLeaves.lean).  Strings need not be valid UTF-8: the JSON text then
  decodes to the `toValidUtf8` image, which is what `retypeTok` says.

  All statements proved.
-/
import RefmtModel
import RefmtProofs.Props.C10
import RefmtProofs.Props.C03Float
import RefmtProofs.Props.C03Sem
import RefmtProofs.Lemmas.CborLeaves
set_option linter.unusedSimpArgs false
set_option linter.unusedVariables false
namespace Refmt.C10Value
open Refmt

/-! ### CBOR → JSON -/

/-- the pump's JSON output is `C03.out c v` -/
theorem c2j_out (c : JsonEnc.Cfg) (bs : Bytes) (v : TV) (rest : Bytes) (hb : ∀ x ∈ bs, x < 256)
    (hp : Spec.Cbor.parse false bs = some (v, rest)) (hc : C10.common v = true) :
    let r := Pump.run (Pump.cborSrc false) (JsonEnc.step c FloatText.jsonFloat) (2 * bs.length + 4) CborDec.init
      (Rd.ofBytes bs) JsonEnc.init []
    r.ok = true ∧ r.rd.data = rest ∧ r.out.flatten = C03.out c v := by
  intro r
  obtain ⟨g1, g2, g3⟩ := C10.c2j_accepts c FloatText.jsonFloat bs v rest hb hp hc
  exact ⟨g1, g2, congrArg List.flatten g3⟩

theorem c2j_denotes (c : JsonEnc.Cfg) (bs : Bytes) (v : TV) (rest : Bytes) (hb : ∀ x ∈ bs, x < 256)
    (hp : Spec.Cbor.parse false bs = some (v, rest)) (hc : C10.common v = true) (hcfg : C03.cfgOk c = true) :
    let r := Pump.run (Pump.cborSrc false) (JsonEnc.step c FloatText.jsonFloat) (2 * bs.length + 4) CborDec.init
      (Rd.ofBytes bs) JsonEnc.init []
    let o := JsonDec.decode (Rd.ofBytes r.out.flatten)
    r.ok = true ∧ r.rd.data = rest ∧ o.res = .ok () ∧ o.toks = v.flatten.map Spec.Json.retypeTok := by
  intro r o
  obtain ⟨g1, g2, g3⟩ := c2j_out c bs v rest hb hp hc
  have hj := CborLeaves.parse_common_JWF false bs v rest hb hp hc
  obtain ⟨r1, r2⟩ := C03Float.roundtrip c v hj hcfg
  have ho : o = JsonDec.decode (Rd.ofBytes (C03.out c v)) := by
    show JsonDec.decode (Rd.ofBytes r.out.flatten) = _
    rw [g3]
  rw [ho]
  exact ⟨g1, g2, r2, r1⟩

theorem c2j_denotes_ref (c : JsonEnc.Cfg) (bs : Bytes) (v : TV) (rest : Bytes) (hb : ∀ x ∈ bs, x < 256)
    (hp : Spec.Cbor.parse false bs = some (v, rest)) (hc : C10.common v = true) (hcfg : C03.cfgOk c = true) :
    let r := Pump.run (Pump.cborSrc false) (JsonEnc.step c FloatText.jsonFloat) (2 * bs.length + 4) CborDec.init
      (Rd.ofBytes bs) JsonEnc.init []
    (Spec.Json.parse r.out.flatten).map (fun p => (p.1.flatten, p.2)) =
      some (v.flatten.map Spec.Json.retypeTok, C03.trailer c v) := by
  intro r
  obtain ⟨_, _, g3⟩ := c2j_out c bs v rest hb hp hc
  have hj := CborLeaves.parse_common_JWF false bs v rest hb hp hc
  rw [g3]
  exact C03Float.enc_valid c v hj hcfg

/-! ### what `retypeTok` means on the leaves of such a tree -/

mutual
  theorem jwf_memV : ∀ (v : TV), C03.JWF v = true → ∀ t ∈ v.flatten, t.body.isScalar = true → C03.jsonScalarOk t = true
    | .scalar t, h, t', ht, _ => by
      simp only [TV.flatten, List.mem_singleton] at ht
      subst ht
      simpa [C03.JWF] using h
    | .arr tag len items, h, t, ht, hs => by
      simp only [TV.flatten, List.mem_cons, List.mem_append, List.not_mem_nil, or_false] at ht
      rcases ht with rfl | ht | rfl
      · simp [Body.isScalar] at hs
      · exact jwf_memL items (by simpa [C03.JWF] using h) t ht hs
      · simp [Body.isScalar] at hs
    | .map tag len es, h, t, ht, hs => by
      simp only [TV.flatten, List.mem_cons, List.mem_append, List.not_mem_nil, or_false] at ht
      rcases ht with rfl | ht | rfl
      · simp [Body.isScalar] at hs
      · exact jwf_memE es (by simpa [C03.JWF] using h) t ht hs
      · simp [Body.isScalar] at hs
  theorem jwf_memL : ∀ (vs : List TV), C03.JWFl vs = true → ∀ t ∈ TV.flattenList vs, t.body.isScalar = true →
      C03.jsonScalarOk t = true
    | [], _, t, ht, _ => by simp [TV.flattenList] at ht
    | v :: vs, h, t, ht, hs => by
      simp only [C03.JWFl, Bool.and_eq_true] at h
      simp only [TV.flattenList, List.mem_append] at ht
      rcases ht with ht | ht
      · exact jwf_memV v h.1 t ht hs
      · exact jwf_memL vs h.2 t ht hs
  theorem jwf_memE : ∀ (es : List (TV × TV)), C03.JWFe es = true → ∀ t ∈ TV.flattenEntries es,
      t.body.isScalar = true → C03.jsonScalarOk t = true
    | [], _, t, ht, _ => by simp [TV.flattenEntries] at ht
    | (k, v) :: es, h, t, ht, hs => by
      simp only [C03.JWFe, Bool.and_eq_true] at h
      obtain ⟨⟨hk, hv⟩, hes⟩ := h
      simp only [TV.flattenEntries, List.mem_append] at ht
      rcases ht with ht | ht | ht
      · obtain ⟨s, tag, rfl⟩ := C03.key_form hk
        simp only [TV.flatten, List.mem_singleton] at ht
        subst ht
        simpa [C03.jsonScalarOk] using hk
      · exact jwf_memV v hv t ht hs
      · exact jwf_memE es hes t ht hs
end

section leaves
variable (bs : Bytes) (v : TV) (rest : Bytes) (hb : ∀ x ∈ bs, x < 256)
  (hp : Spec.Cbor.parse false bs = some (v, rest)) (hc : C10.common v = true)
include hb hp hc

/-- a float leaf comes back as a token denoting the same number -/
theorem c2j_float_leaf (t : Tok) (ht : t ∈ v.flatten) (x : Nat) (hx : t.body = .float x) :
    C03Sem.ReadsAs x (Spec.Json.retypeTok t).body := by
  have hj := CborLeaves.parse_common_JWF false bs v rest hb hp hc
  have hs := jwf_memV v hj t ht (by rw [hx]; rfl)
  simp only [C03.jsonScalarOk, hx, Bool.and_eq_true, decide_eq_true_eq, Bool.not_eq_true'] at hs
  obtain ⟨h1, h2⟩ := hs
  simp only [Spec.Json.retypeTok, hx]
  rcases C03Sem.numTok_jsonFloat_kinds x h1 h2 with h | ⟨i, h, hi⟩
  · rw [h]; exact rfl
  · rw [h]; exact hi

end leaves

/-- an unsigned integer leaf comes back as the same integer (`retypeTok`, any token) -/
theorem c2j_uint_leaf (t : Tok) (n : Nat) (hx : t.body = .uint n) :
    (Spec.Json.retypeTok t).body = (if n < two63 then .int (n : Int) else .uint n) := by
  simp only [Spec.Json.retypeTok, hx]

/-- a string leaf comes back as its `toValidUtf8` image: itself when it is valid UTF-8 -/
theorem c2j_str_leaf (t : Tok) (s : Bytes) (hx : t.body = .str s) :
    (Spec.Json.retypeTok t).body = .str (toValidUtf8 s) ∧
    (toValidUtf8 s = s → (Spec.Json.retypeTok t).body = .str s) := by
  refine ⟨by simp only [Spec.Json.retypeTok, hx], fun h => ?_⟩
  simp only [Spec.Json.retypeTok, hx, h]

/-- null, booleans and negative integers come back unchanged -/
theorem c2j_other_leaf (t : Tok)
    (hx : t.body = .null ∨ (∃ b, t.body = .bool b) ∨ (∃ i, t.body = .int i)) :
    (Spec.Json.retypeTok t).body = t.body := by
  rcases hx with hx | ⟨b, hx⟩ | ⟨i, hx⟩ <;> simp only [Spec.Json.retypeTok, hx]


/-! ### JSON → CBOR -/

mutual
  theorem jt_lenV : ∀ (v : TV), PumpL.JT v = true → ∀ t ∈ v.flatten, ∀ l,
      (t.body = .arrOpen l ∨ t.body = .mapOpen l) → -1 ≤ l
    | .scalar t, h, t', ht, l, hl => by
      simp only [TV.flatten, List.mem_singleton] at ht
      subst ht
      simp only [PumpL.JT, Bool.and_eq_true] at h
      rcases hl with hl | hl <;> rw [hl] at h <;> simp [PumpL.jscalar] at h
    | .arr tag len items, h, t, ht, l, hl => by
      simp only [PumpL.JT, Bool.and_eq_true, beq_iff_eq] at h
      simp only [TV.flatten, List.mem_cons, List.mem_append, List.not_mem_nil, or_false] at ht
      rcases ht with rfl | ht | rfl
      · rcases hl with hl | hl <;> simp at hl; omega
      · exact jt_lenL items h.2 t ht l hl
      · rcases hl with hl | hl <;> simp at hl
    | .map tag len es, h, t, ht, l, hl => by
      simp only [PumpL.JT, Bool.and_eq_true, beq_iff_eq] at h
      simp only [TV.flatten, List.mem_cons, List.mem_append, List.not_mem_nil, or_false] at ht
      rcases ht with rfl | ht | rfl
      · rcases hl with hl | hl <;> simp at hl; omega
      · exact jt_lenE es h.2 t ht l hl
      · rcases hl with hl | hl <;> simp at hl
  theorem jt_lenL : ∀ (vs : List TV), PumpL.JTl vs = true → ∀ t ∈ TV.flattenList vs, ∀ l,
      (t.body = .arrOpen l ∨ t.body = .mapOpen l) → -1 ≤ l
    | [], _, t, ht, _, _ => by simp [TV.flattenList] at ht
    | v :: vs, h, t, ht, l, hl => by
      simp only [PumpL.JTl, Bool.and_eq_true] at h
      simp only [TV.flattenList, List.mem_append] at ht
      rcases ht with ht | ht
      · exact jt_lenV v h.1 t ht l hl
      · exact jt_lenL vs h.2 t ht l hl
  theorem jt_lenE : ∀ (es : List (TV × TV)), PumpL.JTe es = true → ∀ t ∈ TV.flattenEntries es, ∀ l,
      (t.body = .arrOpen l ∨ t.body = .mapOpen l) → -1 ≤ l
    | [], _, t, ht, _, _ => by simp [TV.flattenEntries] at ht
    | (k, v) :: es, h, t, ht, l, hl => by
      simp only [PumpL.JTe, Bool.and_eq_true] at h
      obtain ⟨⟨hk, hv⟩, hes⟩ := h
      simp only [TV.flattenEntries, List.mem_append] at ht
      rcases ht with ht | ht | ht
      · cases k with
        | scalar tk =>
          simp only [TV.flatten, List.mem_singleton] at ht
          subst ht
          simp only [Bool.and_eq_true] at hk
          rcases hl with hl | hl <;> rw [hl] at hk <;> simp at hk
        | arr _ _ _ => simp at hk
        | map _ _ _ => simp at hk
      · exact jt_lenV v hv t ht l hl
      · exact jt_lenE es hes t ht l hl
end

theorem j2c_denotes (bs : Bytes) (v : TV) (rest : Bytes) (hb : ∀ x ∈ bs, x < 256)
    (hp : Spec.Json.parse bs = some (v, rest))
    (hbig : ∀ t ∈ v.flatten, ∀ s, t.body = .str s → s.length ≤ 33554432) :
    let r := Pump.run Pump.jsonSrc CborEnc.step (2 * bs.length + 4) JsonDec.init (Rd.ofBytes bs) CborEnc.init []
    let o := CborDec.decode false (Rd.ofBytes r.out.flatten)
    r.ok = true ∧ r.rd.data = rest ∧ o.res = .ok () ∧ o.rd.data = [] ∧
    o.toks = v.flatten.map C02.normTok ∧ o.toks = v.flatten.map C02.canonTok := by
  intro r o
  obtain ⟨g1, g2, g3⟩ := C10.j2c_pump bs v rest hb hp
  have hj := PumpL.parse_JT bs v rest hb hp
  have hrt := C02.roundtrip_norm v [] (PumpL.wfV v hj) (PumpL.supV v hj hbig)
  simp only [List.append_nil] at hrt
  obtain ⟨r1, r2, r3⟩ := hrt
  have ho : o = CborDec.decode false (Rd.ofBytes (Spec.Cbor.enc v)) := by
    show CborDec.decode false (Rd.ofBytes r.out.flatten) = _
    rw [g2]
  rw [ho]
  refine ⟨g1, g3, r2, r3, r1, ?_⟩
  rw [r1]
  apply List.map_congr_left
  intro t ht
  exact C02.normTok_eq_canonTok t (jt_lenV v hj t ht)

/-! ### non-vacuity -/

-- CBOR `{"a": [1, 1.5]}` = a1 61 61 82 01 f9 3e 00 (half-precision 1.5)
example : Spec.Cbor.parse false [0xa1, 0x61, 0x61, 0x82, 0x01, 0xf9, 0x3e, 0x00] =
    some (.map none 1 [(.scalar ⟨.str [0x61], none⟩,
      .arr none 2 [.scalar ⟨.uint 1, none⟩, .scalar ⟨.float 0x3ff8000000000000, none⟩])], []) := rfl
example : C10.common (.map none 1 [(.scalar ⟨.str [0x61], none⟩,
      .arr none 2 [.scalar ⟨.uint 1, none⟩, .scalar ⟨.float 0x3ff8000000000000, none⟩])]) = true := by decide
-- the instance of `c2j_denotes` on that document, compact configuration
example :
    let r := Pump.run (Pump.cborSrc false) (JsonEnc.step ⟨none, []⟩ FloatText.jsonFloat)
      (2 * [0xa1, 0x61, 0x61, 0x82, 0x01, 0xf9, 0x3e, 0x00].length + 4) CborDec.init
      (Rd.ofBytes [0xa1, 0x61, 0x61, 0x82, 0x01, 0xf9, 0x3e, 0x00]) JsonEnc.init []
    (JsonDec.decode (Rd.ofBytes r.out.flatten)).res = .ok () :=
  (c2j_denotes ⟨none, []⟩ [0xa1, 0x61, 0x61, 0x82, 0x01, 0xf9, 0x3e, 0x00] _ [] (by decide) rfl (by decide)
    (by decide)).2.2.1

-- JSON `[1,"a"]` → CBOR
example : Spec.Json.parse [91, 49, 44, 34, 97, 34, 93] =
    some (.arr none (-1) [.scalar ⟨.int 1, none⟩, .scalar ⟨.str [97], none⟩], []) := rfl
example :
    let r := Pump.run Pump.jsonSrc CborEnc.step (2 * [91, 49, 44, 34, 97, 34, 93].length + 4) JsonDec.init
      (Rd.ofBytes [91, 49, 44, 34, 97, 34, 93]) CborEnc.init []
    (CborDec.decode false (Rd.ofBytes r.out.flatten)).toks =
      [⟨.arrOpen (-1), none⟩, ⟨.uint 1, none⟩, ⟨.str [97], none⟩, ⟨.arrClose, none⟩] :=
  (j2c_denotes [91, 49, 44, 34, 97, 34, 93] (.arr none (-1) [.scalar ⟨.int 1, none⟩, .scalar ⟨.str [97], none⟩]) []
    (by decide) rfl
    (by intro t ht s hs
        simp [TV.flatten, TV.flattenList] at ht
        rcases ht with rfl | rfl | rfl | rfl <;> simp at hs
        subst hs; decide)).2.2.2.2.2

end Refmt.C10Value
