/-
  C01 — Marshal then Unmarshal returns the original value (CBOR and JSON).

  In refmt, Marshal = object marshaller pumped into an encoder, Unmarshal = decoder pumped into an object
  unmarshaller.  The model composes the four machines the same way (`viaCbor`, `viaJson`), and the proof
  factors the round trip through the *token-level* round trip `viaTokens` (marshaller straight into
  unmarshaller — which is also the model of Clone, C11):

  * `transport_cbor`      : whatever token list the marshaller emits (a well-formed item by C07, with numbers
                            a Go value can hold), the CBOR encoder accepts it with done exactly at the end and the
                            CBOR decoder returns the same tokens up to `canonTok` (non-negative ints unsigned).
  * `unm_canon`           : no unmarshal machine, for any type and atlas, can tell a token list from its `canonTok`
                            image.
  * `cbor_eq_tokens`      : hence for EVERY type, atlas and value:  viaCbor v = viaTokens v.
  * `transport_json`      : same for JSON on what JSON can carry; tokens come back as `retypeTok`.
  * `unm_retype_typed`    : on typed targets (no untyped slot is reached) the unmarshaller gives the same value for
                            `retypeTok` tokens when strings are valid UTF-8 and no float is -0 (those are the
                            differences the property statement lists).
  * `json_eq_tokens_typed`: viaJson v = viaTokens v on that domain.
  * `roundtrip_plain_*`   : with C13.complete_plain (the token-level round trip reconstructs `normV`): the full
                            statement for the plain kinds; structs, unions, transforms and untyped slots are carried
                            by `*_eq_tokens` + the correspondence streams (see DESIGN.md).

  Results.
  * `transport_cbor`, `cbor_eq_tokens`, `transport_json` : proved as stated (for every type, atlas and value).
    Besides C07's tree facts they use that the marshaller only declares exact, non-negative lengths
    (`C01L.marshal_lenNN`, Lemmas/Transport.lean).
  * `unm_canon` is FALSE as first stated (`unm_canon_statement`, refuted by `unm_canon_false`): `canonTok` also
    rewrites `.int i` for `i ≥ 2^63`, which an untyped slot stores as `int` while `.uint i` is stored as `uint64`.
    `unm_canon_fixed` adds the hypothesis that signed-integer tokens fit an int64 (`intFits`, implied by `carryCbor`);
    `C01L.unm_canon'` (Lemmas/UnmCanon.lean) is the hypothesis-free form for `canon'` (= `canonTok` cut to int64).
    Both hold for every type, atlas, current value and fuel (induction on the fuel over the six unmarshal machines).
  * `unm_retype_typed`, `json_eq_tokens_typed` are FALSE as first stated (`*_statement`, refuted by `*_false`):
    the value is not required to inhabit the type, and `float64 1.0` at type `int` is rejected by the token-level
    round trip but accepted through JSON (text `1`, re-typed `int 1`).  Proved instead (`*_partial`): whenever the
    token-level unmarshal / round trip succeeds, the JSON one succeeds with the same value.  Extra hypotheses:
    `C01L.noIgnore a` (no ignored struct-map field) and the conjunct `C01L.rereadOk b` added to `plainJson` for
    float tokens (the token the float's text is typed as stores back the same float: a decidable check on the float
    text routines of the trusted base, not provable for all floats here).
    Left open: the converse direction (token-level failure ⇒ JSON failure) for values that inhabit the type; it
    follows from token-level completeness (C13.complete), which is not proved.
  * Non-vacuity: `exTs`/`exAtlas`/`exVal` at the end (slice of struct-map structs with int and float64 fields).
-/
import RefmtModel
import RefmtProofs.Props.C02
import RefmtProofs.Props.C03
import RefmtProofs.Props.C07
import RefmtProofs.Props.C13
import RefmtProofs.Lemmas.Transport
import RefmtProofs.Lemmas.UnmCanon
import RefmtProofs.Lemmas.TransportJson
import RefmtProofs.Lemmas.UnmSuffix
import RefmtProofs.Lemmas.UnmRetype
set_option linter.unusedSimpArgs false
set_option linter.unusedVariables false
namespace Refmt.C01
open Refmt Refmt.Obj

/-- marshaller pumped straight into the unmarshaller (also the model of Clone) -/
def viaTokens (ts : Types) (a : Atlas) (trs : Trs) (it : IfaceTys) (fuel id : Nat) (v : Val) : Option Val :=
  let mo := marshalV ts a trs fuel id v
  match mo.fail with
  | some _ => none
  | none =>
    (match unmV ts a trs it fuel id (zeroVal ts 64 id) mo.toks with
     | .ok r [] _ => some r
     | _ => none)

def encodeCbor (toks : List Tok) : Option Bytes :=
  let (fl, ws) := runOut CborEnc.step CborEnc.init toks
  if fl.getLast? = some Flag.done then some ws.flatten else none

def encodeJson (c : JsonEnc.Cfg) (toks : List Tok) : Option Bytes :=
  let (fl, ws) := runOut (JsonEnc.step c FloatText.jsonFloat) JsonEnc.init toks
  if fl.getLast? = some Flag.done then some ws.flatten else none

/-- refmt.MarshalAtlased ∘ refmt.UnmarshalAtlased for CBOR -/
def viaCbor (ts : Types) (a : Atlas) (trs : Trs) (it : IfaceTys) (fuel id : Nat) (v : Val) : Option Val :=
  let mo := marshalV ts a trs fuel id v
  match mo.fail with
  | some _ => none
  | none =>
    (match encodeCbor mo.toks with
     | none => none
     | some bs =>
       let o := CborDec.decode false (Rd.ofBytes bs)
       if o.res.isOk then
         (match unmV ts a trs it fuel id (zeroVal ts 64 id) o.toks with
          | .ok r [] _ => some r
          | _ => none)
       else none)

def viaJson (c : JsonEnc.Cfg) (ts : Types) (a : Atlas) (trs : Trs) (it : IfaceTys) (fuel id : Nat) (v : Val) : Option Val :=
  let mo := marshalV ts a trs fuel id v
  match mo.fail with
  | some _ => none
  | none =>
    (match encodeJson c mo.toks with
     | none => none
     | some bs =>
       let o := JsonDec.decode (Rd.ofBytes bs)
       if o.res.isOk then
         (match unmV ts a trs it fuel id (zeroVal ts 64 id) o.toks with
          | .ok r [] _ => some r
          | _ => none)
       else none)

/-- a token a Go program can produce and CBOR can carry: numbers within the 64-bit kinds, tags non-negative ints,
    strings within the decoder's built-in 32 MiB per-item cap -/
def carryCbor (t : Tok) : Bool :=
  (match t.body with
   | .uint n => decide (n < two64)
   | .int i => decide (-(two63 : Int) ≤ i) && decide (i < (two63 : Int))
   | .float b => decide (b < two64)
   | .str s => decide (s.length ≤ 33554432)
   | .bytes b => decide (b.length ≤ 33554432)
   | .mapOpen l | .arrOpen l => decide (l < (two63 : Int))
   | _ => true) &&
  (match t.tag with | some g => decide (0 ≤ g) && decide (g < (two63 : Int)) | none => true)

theorem transport_cbor (ts : Types) (a : Atlas) (trs : Trs) (fuel id : Nat) (v : Val) (toks : List Tok)
    (hm : marshalV ts a trs fuel id v = ⟨toks, none⟩) (hc : toks.all carryCbor = true) :
    ∃ bs, encodeCbor toks = some bs ∧
      (let o := CborDec.decode false (Rd.ofBytes bs)
       o.toks = toks.map C02.canonTok ∧ o.res = .ok () ∧ o.rd.data = []) := by
  obtain ⟨tv, rfl, h1, h2, h3⟩ := C07.marshal_wf_strong ts a trs fuel id v toks hm
  have hn : tv.flatten.all C01L.lenNN = true := by
    have := C01L.marshal_lenNN ts a trs fuel id v
    rw [hm] at this; exact this
  obtain ⟨hd, hdec⟩ := C01L.transport_tree tv hc hn h1 h2 h3
  refine ⟨(runOut CborEnc.step CborEnc.init tv.flatten).2.flatten, ?_, hdec⟩
  unfold encodeCbor
  simp only [hd, if_true]

def URes.mapRest (f : List Tok → List Tok) : URes → URes
  | .ok v r k => .ok v (f r) k
  | x => x

/-- `unm_canon` as first stated (no hypothesis on the tokens). -/
def unm_canon_statement : Prop :=
  ∀ (ts : Types) (a : Atlas) (trs : Trs) (it : IfaceTys) (fuel id : Nat) (cur : Val) (toks : List Tok),
    unmV ts a trs it fuel id cur (toks.map C02.canonTok) =
      URes.mapRest (List.map C02.canonTok) (unmV ts a trs it fuel id cur toks)

def cexIt : IfaceTys := ⟨0, 0, 0, 1, 2, 0, 0, 0, 0⟩
def cexTrs : Trs := ⟨fun _ _ => none, fun _ _ => none⟩

/-- It is FALSE as first stated: `canonTok` also rewrites signed integers ≥ 2^63 (which no Go `int64` holds, but
    which are tokens of the model) and an untyped slot tells them apart: `.int 2^63` is stored as an `int`,
    `.uint 2^63` (its `canonTok` image) as a `uint64`. -/
theorem unm_canon_false : ¬ unm_canon_statement := by
  intro h
  have h0 := h [(0, .iface false)] ⟨[], .default⟩ cexTrs cexIt 3 0 (.iface none) [⟨.int 9223372036854775808, none⟩]
  have e1 : unmV [(0, .iface false)] ⟨[], .default⟩ cexTrs cexIt 3 0 (.iface none) [⟨.int 9223372036854775808, none⟩] =
      .ok (.iface (some (1, .int 9223372036854775808))) [] 1 := by with_unfolding_all rfl
  have e2 : unmV [(0, .iface false)] ⟨[], .default⟩ cexTrs cexIt 3 0 (.iface none)
      ([⟨.int 9223372036854775808, none⟩].map C02.canonTok) =
      .ok (.iface (some (2, .uint 9223372036854775808))) [] 1 := by with_unfolding_all rfl
  rw [e1, e2] at h0
  simp [URes.mapRest] at h0

/-- signed integer tokens fit an int64 (every token the marshaller emits for a Go value does; part of `carryCbor`) -/
def intFits (t : Tok) : Bool :=
  match t.body with
  | .int i => decide (i < (two63 : Int))
  | _ => true

theorem carryCbor_intFits {t : Tok} (h : carryCbor t = true) : intFits t = true := by
  obtain ⟨body, tag⟩ := t
  unfold carryCbor at h
  unfold intFits
  cases body <;> simp_all

theorem canonTok_eq_canon' {t : Tok} (h : intFits t = true) : C02.canonTok t = C01L.canon' t := by
  obtain ⟨body, tag⟩ := t
  unfold intFits at h
  cases body <;> simp_all [C02.canonTok, C01L.canon']

theorem map_canonTok_eq {toks : List Tok} (h : toks.all intFits = true) :
    toks.map C02.canonTok = toks.map C01L.canon' :=
  List.map_congr_left fun t ht => canonTok_eq_canon' (List.all_eq_true.mp h t ht)

theorem mapRest_eq (f : List Tok → List Tok) (x : URes) : URes.mapRest f x = C01L.mapRest f x := by
  cases x <;> rfl

/-- `unm_canon`, closest true statement: the only change is the hypothesis `hfit` that no signed-integer token
    exceeds the int64 range (true of every token the marshaller emits for a Go value, and implied by `carryCbor`).
    For every type, atlas, current value and fuel.
    (`C01L.unm_canon'` is the hypothesis-free variant for `C01L.canon'` = `canonTok` cut to the int64 range.) -/
theorem unm_canon_fixed (ts : Types) (a : Atlas) (trs : Trs) (it : IfaceTys) (fuel id : Nat) (cur : Val) (toks : List Tok)
    (hfit : toks.all intFits = true) :
    unmV ts a trs it fuel id cur (toks.map C02.canonTok) =
      URes.mapRest (List.map C02.canonTok) (unmV ts a trs it fuel id cur toks) := by
  rw [map_canonTok_eq hfit, C01L.unm_canon', mapRest_eq]
  cases h : unmV ts a trs it fuel id cur toks with
  | ok v r u =>
    have := C01L.all_of_suffix (C01L.unm_rest_suffix ts a trs it fuel id cur toks v r u h) hfit
    simp only [C01L.mapRest_ok, map_canonTok_eq this]
  | _ => rfl

/-- CBOR adds nothing to and removes nothing from the token-level round trip: for every type, atlas and value -/
theorem cbor_eq_tokens (ts : Types) (a : Atlas) (trs : Trs) (it : IfaceTys) (fuel id : Nat) (v : Val)
    (hc : (marshalV ts a trs fuel id v).toks.all carryCbor = true) :
    viaCbor ts a trs it fuel id v = viaTokens ts a trs it fuel id v := by
  unfold viaCbor viaTokens
  cases hmo : marshalV ts a trs fuel id v with
  | mk toks fail =>
    rw [hmo] at hc
    simp only at hc ⊢
    cases fail with
    | some f => rfl
    | none =>
      obtain ⟨bs, hbs, ht, hr, _⟩ := transport_cbor ts a trs fuel id v toks hmo hc
      have hfit : toks.all intFits = true :=
        List.all_eq_true.mpr fun t ht => carryCbor_intFits (List.all_eq_true.mp hc t ht)
      simp only [hbs, ht, hr, Except.isOk, Except.toBool, if_true, map_canonTok_eq hfit, C01L.unm_canon']
      cases unmV ts a trs it fuel id (zeroVal ts 64 id) toks with
      | ok r rest u => cases rest <;> rfl
      | _ => rfl

/-! ### JSON -/

/-- what JSON can carry: no byte strings, no tags, finite floats whose text re-reads exactly, bytes < 256 in strings -/
def carryJson (t : Tok) : Bool :=
  t.tag.isNone &&
  (match t.body with
   | .uint n => decide (n < two64)
   | .int i => decide (-(two63 : Int) ≤ i) && decide (i < (two63 : Int))
   | .float b => decide (b < two64) && !floatNonFinite b && C03L.floatOk b
   | .str s => s.all (· < 256)
   | .bytes _ => false
   | _ => true)

theorem transport_json (c : JsonEnc.Cfg) (ts : Types) (a : Atlas) (trs : Trs) (fuel id : Nat) (v : Val) (toks : List Tok)
    (hcfg : C03.cfgOk c = true) (hm : marshalV ts a trs fuel id v = ⟨toks, none⟩) (hc : toks.all carryJson = true) :
    ∃ bs, encodeJson c toks = some bs ∧
      (let o := JsonDec.decode (Rd.ofBytes bs)
       o.toks = toks.map Spec.Json.retypeTok ∧ o.res = .ok ()) := by
  obtain ⟨tv, rfl, h1, h2, h3⟩ := C07.marshal_wf_strong ts a trs fuel id v toks hm
  obtain ⟨hd, hdec⟩ := C01L.transport_tree_json c hcfg tv hc h2 h3
  refine ⟨(runOut (JsonEnc.step c FloatText.jsonFloat) JsonEnc.init tv.flatten).2.flatten, ?_, hdec⟩
  unfold encodeJson
  simp only [hd, if_true]

/-- the differences JSON makes that a typed target can see: invalid UTF-8 is replaced and -0 is re-read as 0;
    tokens free of both.
    ADDED (in place) for float tokens: `C01L.rereadOk b`, i.e. the token the decoder types the float's text as
    (`numTok (jsonFloat b)`: a float token, or an integer token when the text is integral) stores back exactly `b`
    into a float target.  This is a decidable per-float check on the big-number float text routines of the trusted
    base (like `C03L.floatOk`); it cannot be proved for all floats here (it is the shortest-digits / parse round
    trip of strconv) and it subsumes the -0 exclusion, which is kept for readability. -/
def plainJson (t : Tok) : Bool :=
  match t.body with
  | .str s => toValidUtf8 s == s
  | .float b => b != 9223372036854775808 && C01L.rereadOk b
  | _ => true

/-- no untyped slot, union or transform is reachable from the type: every float token lands in a float target -/
def typedTy (ts : Types) (a : Atlas) : Nat → Nat → Bool
  | 0, _ => false
  | fuel+1, id =>
    match ts.get id with
    | .prim _ _ => (a.get id).isNone
    | .bytes _ => (a.get id).isNone
    | .byteArr _ => (a.get id).isNone
    | .slice e => (a.get id).isNone && typedTy ts a fuel e
    | .arr _ e => (a.get id).isNone && typedTy ts a fuel e
    | .map k e => (a.get id).isNone && (match ts.get k with | .prim .string _ => true | _ => false) && typedTy ts a fuel e
    | .ptr e => typedTy ts a fuel e
    | .struct _ =>
      (match a.get id with
       | some ⟨_, _, none, .structMap fields⟩ => fields.all fun f => typedTy ts a fuel f.ty
       | _ => false)
    | _ => false

/-- `unm_retype_typed` as first stated (with the strengthened `plainJson`, so refuting it refutes the first wording too). -/
def unm_retype_typed_statement : Prop :=
  ∀ (ts : Types) (a : Atlas) (trs : Trs) (it : IfaceTys) (fuel id : Nat) (v : Val) (toks : List Tok),
    typedTy ts a 64 id = true → marshalV ts a trs fuel id v = ⟨toks, none⟩ →
    toks.all carryJson = true → toks.all plainJson = true → toks.length + 64 < fuel →
    unmV ts a trs it fuel id (zeroVal ts 64 id) (toks.map Spec.Json.retypeTok) =
      URes.mapRest (List.map Spec.Json.retypeTok) (unmV ts a trs it fuel id (zeroVal ts 64 id) toks)

/-- `json_eq_tokens_typed` as first stated. -/
def json_eq_tokens_typed_statement : Prop :=
  ∀ (c : JsonEnc.Cfg) (ts : Types) (a : Atlas) (trs : Trs) (it : IfaceTys) (fuel id : Nat) (v : Val),
    C03.cfgOk c = true → typedTy ts a 64 id = true →
    (marshalV ts a trs fuel id v).toks.all carryJson = true → (marshalV ts a trs fuel id v).toks.all plainJson = true →
    (marshalV ts a trs fuel id v).toks.length + 64 < fuel →
    viaJson c ts a trs it fuel id v = viaTokens ts a trs it fuel id v

/-! Both are FALSE as first stated: nothing says the value inhabits the type.  The marshaller's primitive machine
    emits the token of the *value*, so the ill-typed value `float64 1.0` at type `int` marshals to the token
    `float 1.0`; the token-level round trip rejects it (a float token into an int target), but its JSON text is `1`,
    which comes back as the token `int 1` and is accepted: JSON accepts strictly more. -/

def cexTs : Types := [(0, .prim .int false)]
def cexOne : Nat := 4607182418800017408   -- bits of 1.0

theorem unm_retype_typed_false : ¬ unm_retype_typed_statement := by
  intro h
  have h0 := h cexTs ⟨[], .default⟩ cexTrs cexIt 70 0 (.float cexOne) [⟨.float cexOne, none⟩]
    (by with_unfolding_all rfl) (by with_unfolding_all rfl) (by with_unfolding_all rfl) (by with_unfolding_all rfl)
    (by decide)
  have e1 : unmV cexTs ⟨[], .default⟩ cexTrs cexIt 70 0 (zeroVal cexTs 64 0) [⟨.float cexOne, none⟩] = .err 0 := by
    with_unfolding_all rfl
  have e2 : unmV cexTs ⟨[], .default⟩ cexTrs cexIt 70 0 (zeroVal cexTs 64 0)
      ([⟨.float cexOne, none⟩].map Spec.Json.retypeTok) = .ok (.int 1) [] 1 := by
    with_unfolding_all rfl
  rw [e1, e2] at h0
  simp [URes.mapRest] at h0

theorem json_eq_tokens_typed_false : ¬ json_eq_tokens_typed_statement := by
  intro h
  have h0 := h ⟨none, []⟩ cexTs ⟨[], .default⟩ cexTrs cexIt 70 0 (.float cexOne)
    (by decide) (by with_unfolding_all rfl) (by with_unfolding_all rfl) (by with_unfolding_all rfl)
    (by with_unfolding_all decide)
  have e1 : viaTokens cexTs ⟨[], .default⟩ cexTrs cexIt 70 0 (.float cexOne) = none := by
    with_unfolding_all rfl
  have e2 : viaJson ⟨none, []⟩ cexTs ⟨[], .default⟩ cexTrs cexIt 70 0 (.float cexOne) = some (.int 1) := by
    with_unfolding_all rfl
  rw [e1, e2] at h0
  simp at h0

theorem typedTy_eq (ts : Types) (a : Atlas) : ∀ (k id : Nat), typedTy ts a k id = C01L.typedT ts a k id
  | 0, _ => rfl
  | k+1, id => by
    have ih : typedTy ts a k = C01L.typedT ts a k := funext (typedTy_eq ts a k)
    unfold typedTy C01L.typedT
    rw [ih]
    rfl

theorem carryJson_plain_jOk {t : Tok} (hc : carryJson t = true) (hp : plainJson t = true) : C01L.jOk t = true := by
  unfold C01L.jOk
  simp only [Bool.and_eq_true]
  exact ⟨hc, hp⟩

/-- `unm_retype_typed`, the part that holds: on a typed target, whenever the unmarshaller ACCEPTS a token list
    it accepts the re-typed list, stores the same value, consumes the same number of tokens and leaves the re-typed
    rest.  Changes with respect to the first statement:
    * one direction only (acceptance of `toks` is a hypothesis): JSON accepts more, see `unm_retype_typed_false`;
      the converse needs the value to inhabit the type (the token-level completeness C13.complete, not available);
    * `C01L.noIgnore a`: no struct-map entry has an ignored field (an ignored field's value is slurped by the
      wildcard machine over `it`, whose sub-machines `typedTy` does not constrain);
    * `plainJson` additionally checks `C01L.rereadOk` on float tokens (see there);
    * generalised: any token list, any current value, no fuel side condition, no reference to the marshaller. -/
theorem unm_retype_typed_partial (ts : Types) (a : Atlas) (trs : Trs) (it : IfaceTys) (fuel id : Nat) (cur : Val)
    (toks : List Tok) (r : Val) (rest : List Tok) (u : Nat)
    (hni : C01L.noIgnore a = true) (ht : typedTy ts a 64 id = true)
    (hc : toks.all carryJson = true) (hp : toks.all plainJson = true)
    (h : unmV ts a trs it fuel id cur toks = .ok r rest u) :
    unmV ts a trs it fuel id cur (toks.map Spec.Json.retypeTok) = .ok r (rest.map Spec.Json.retypeTok) u := by
  rw [typedTy_eq] at ht
  have hj : toks.all C01L.jOk = true :=
    List.all_eq_true.mpr fun t hm =>
      carryJson_plain_jOk (List.all_eq_true.mp hc t hm) (List.all_eq_true.mp hp t hm)
  exact C01L.unm_retype_ok ts a trs it fuel id cur toks r rest u hni ht hj h

/-- `json_eq_tokens_typed`, the part that holds: whenever the token-level round trip succeeds, the JSON round trip
    succeeds with the same value (so with C13's completeness for well-typed values, both return the value).
    Changes: hypothesis `hs` (token-level success; without it false, `json_eq_tokens_typed_false`), `noIgnore`,
    the `rereadOk` conjunct of `plainJson`; the fuel side condition is not needed. -/
theorem json_eq_tokens_typed_partial (c : JsonEnc.Cfg) (ts : Types) (a : Atlas) (trs : Trs) (it : IfaceTys)
    (fuel id : Nat) (v : Val)
    (hcfg : C03.cfgOk c = true) (hni : C01L.noIgnore a = true) (ht : typedTy ts a 64 id = true)
    (hc : (marshalV ts a trs fuel id v).toks.all carryJson = true)
    (hp : (marshalV ts a trs fuel id v).toks.all plainJson = true)
    (hs : (viaTokens ts a trs it fuel id v).isSome = true) :
    viaJson c ts a trs it fuel id v = viaTokens ts a trs it fuel id v := by
  unfold viaJson viaTokens at *
  cases hmo : marshalV ts a trs fuel id v with
  | mk toks fail =>
    rw [hmo] at hc hp hs
    simp only at hc hp hs ⊢
    cases fail with
    | some f => rfl
    | none =>
      obtain ⟨bs, hbs, hto, hr⟩ := transport_json c ts a trs fuel id v toks hcfg hmo hc
      simp only [hbs, hto, hr, Except.isOk, Except.toBool, if_true]
      simp only at hs
      cases hu : unmV ts a trs it fuel id (zeroVal ts 64 id) toks with
      | ok r rest u =>
        rw [unm_retype_typed_partial ts a trs it fuel id _ toks r rest u hni ht hc hp hu]
        cases rest <;> rfl
      | _ => rw [hu] at hs; simp at hs


/-! ### The full statement on the plain kinds: codec transport composed with token-level completeness (C13) -/

theorem viaTokens_plain (ts : Types) (a : Atlas) (trs : Trs) (it : IfaceTys) (fuel id : Nat) (v : Val)
    (hp : C13.plainTy ts a 64 id = true) (hv : C13.hasTy ts 1000 id v = true) (hk : distinctKeys 1000 v)
    (hok : (marshalV ts a trs fuel id v).fail = none) :
    ∃ r, viaTokens ts a trs it fuel id v = some r ∧ ValEqv r (normV .pretty ts a trs it fuel id v) := by
  have hm : marshalV ts a trs fuel id v = ⟨(marshalV ts a trs fuel id v).toks, none⟩ := by
    cases h : marshalV ts a trs fuel id v with
    | mk toks fail => simp [h] at hok; simp [hok]
  obtain ⟨r, h1, h2⟩ := C13.complete_plain_perm ts a trs it fuel id v _ hp hv hk hm
  refine ⟨r, ?_, h2⟩
  unfold viaTokens
  simp only [hok, h1]

/-- CBOR, every plain type, every value of it with distinct map keys and wire-representable leaves:
    Marshal then Unmarshal returns the specified value `normV` (up to the order in which the model lists map entries) -/
theorem roundtrip_plain_cbor (ts : Types) (a : Atlas) (trs : Trs) (it : IfaceTys) (fuel id : Nat) (v : Val)
    (hp : C13.plainTy ts a 64 id = true) (hv : C13.hasTy ts 1000 id v = true) (hk : distinctKeys 1000 v)
    (hok : (marshalV ts a trs fuel id v).fail = none)
    (hc : (marshalV ts a trs fuel id v).toks.all carryCbor = true) :
    ∃ r, viaCbor ts a trs it fuel id v = some r ∧ ValEqv r (normV .pretty ts a trs it fuel id v) := by
  rw [cbor_eq_tokens ts a trs it fuel id v hc]
  exact viaTokens_plain ts a trs it fuel id v hp hv hk hok

/-- JSON, every plain type that is also a typed target, on what JSON can carry (`carryJson`, `plainJson`) -/
theorem roundtrip_plain_json (c : JsonEnc.Cfg) (ts : Types) (a : Atlas) (trs : Trs) (it : IfaceTys) (fuel id : Nat) (v : Val)
    (hcfg : C03.cfgOk c = true) (hni : C01L.noIgnore a = true) (ht : typedTy ts a 64 id = true)
    (hp : C13.plainTy ts a 64 id = true) (hv : C13.hasTy ts 1000 id v = true) (hk : distinctKeys 1000 v)
    (hok : (marshalV ts a trs fuel id v).fail = none)
    (hc : (marshalV ts a trs fuel id v).toks.all carryJson = true)
    (hpj : (marshalV ts a trs fuel id v).toks.all plainJson = true) :
    ∃ r, viaJson c ts a trs it fuel id v = some r ∧ ValEqv r (normV .pretty ts a trs it fuel id v) := by
  obtain ⟨r, h1, h2⟩ := viaTokens_plain ts a trs it fuel id v hp hv hk hok
  rw [json_eq_tokens_typed_partial c ts a trs it fuel id v hcfg hni ht hc hpj (by rw [h1]; rfl)]
  exact ⟨r, h1, h2⟩

/-! ### Non-vacuity: a slice of structs (struct-map entry with an int and a float64 field) -/

def exTs : Types := [(0, .slice 1), (1, .struct [⟨[88], 2, true, false, none⟩, ⟨[89], 3, true, false, none⟩]),
  (2, .prim .int true), (3, .prim .f64 true)]
def exAtlas : Atlas :=
  ⟨[⟨true, 1, none, .structMap [⟨[120], false, [0], 2, false⟩, ⟨[121], false, [1], 3, false⟩]⟩], .default⟩
/-- `[]T{{7, 1.5}, {-2, 0}}` -/
def exVal : Val := .slice (some [.struct [.int 7, .float 4609434218613702656], .struct [.int (-2), .float 0]])

theorem ex_carryCbor : (marshalV exTs exAtlas cexTrs 100 0 exVal).toks.all carryCbor = true := by
  with_unfolding_all rfl

/-- the hypotheses of `cbor_eq_tokens` hold and the CBOR round trip returns the value -/
example : viaCbor exTs exAtlas cexTrs cexIt 100 0 exVal = some exVal := by
  rw [cbor_eq_tokens exTs exAtlas cexTrs cexIt 100 0 exVal ex_carryCbor]
  with_unfolding_all rfl

/-- the hypotheses of `json_eq_tokens_typed_partial` hold (including `rereadOk` on the floats 1.5 and 0)
    and the JSON round trip returns the value -/
example : viaJson ⟨none, []⟩ exTs exAtlas cexTrs cexIt 100 0 exVal = some exVal := by
  rw [json_eq_tokens_typed_partial ⟨none, []⟩ exTs exAtlas cexTrs cexIt 100 0 exVal (by decide) (by decide)
    (by with_unfolding_all rfl) (by with_unfolding_all rfl) (by with_unfolding_all rfl) (by with_unfolding_all rfl)]
  with_unfolding_all rfl

end Refmt.C01
