/-
  C02 — CBOR encoding of token streams is lossless and in RFC 7049 shortest form.

  * `emitHead_eq_head`   : the Go head emitter writes exactly the spec head, for every argument < 2^64
  * `head_shortest`      : no legal head for the same argument is shorter
  * `enc_eq_spec`        : for every well-formed token tree, the encoder accepts `flatten v`, signals done
                           exactly on the last token, and the bytes written are `Spec.Cbor.enc v`
  * `roundtrip_norm`     : decoding `enc v ++ rest` with the decoder model yields `flatten v` mapped through
                           `normTok` (= `canonTok`, plus every indefinite declared length comes back as -1),
                           done on the last token, and leaves exactly `rest`
  * `roundtrip_statement`: the round trip as first stated (tokens = `flatten v` mapped through `canonTok`);
                           `roundtrip_statement_false` refutes it (`.arr none (-2) []` is well-formed and
                           supported, is written as 0x9f 0xff, and comes back as `arrOpen (-1)`)
  * `roundtrip_partial`  : the first statement plus the hypothesis that every declared length is >= -1

  Machine-level lemmas live in RefmtProofs/Lemmas/{Heads,CborEnc,CborDec}.lean; the inductions over
  token trees (`encV/encL/encE`, `decV/decL/decE`, `lenV/lenL/lenE`) are here.
-/
import RefmtModel
import RefmtProofs.Lemmas.Heads
import RefmtProofs.Lemmas.CborEnc
import RefmtProofs.Lemmas.CborDec
set_option linter.unusedSimpArgs false
set_option linter.unusedVariables false
namespace Refmt.C02
open Refmt Refmt.C02L

/-! ### Heads -/

/-- `h` is *a* legal RFC 7049 head for argument `n` under major base `major`
    (any of the five widths wide enough to hold `n`). -/
inductive ValidHead (major n : Nat) : Bytes → Prop
  | imm (h : n < 24) : ValidHead major n [major + n]
  | w1 (h : n < 256) : ValidHead major n [major + 24, n]
  | w2 (h : n < 65536) : ValidHead major n ((major + 25) :: beBytes 2 n)
  | w4 (h : n < 4294967296) : ValidHead major n ((major + 26) :: beBytes 4 n)
  | w8 (h : n < 18446744073709551616) : ValidHead major n ((major + 27) :: beBytes 8 n)

theorem emitHead_eq_head (major v : Nat) (hv : v < two64) :
    (CborEnc.emitHead major v).flatten = Spec.Cbor.head major v :=
  emitHead_flatten major v

theorem head_valid (major n : Nat) (hn : n < two64) : ValidHead major n (Spec.Cbor.head major n) := by
  unfold Spec.Cbor.head
  unfold two64 at hn
  split
  · exact .imm ‹_›
  split
  · exact .w1 ‹_›
  split
  · exact .w2 ‹_›
  split
  · exact .w4 ‹_›
  · exact .w8 hn

theorem head_shortest (major n : Nat) (h : Bytes) (hv : ValidHead major n h) :
    (Spec.Cbor.head major n).length ≤ h.length := by
  unfold Spec.Cbor.head
  cases hv <;> (repeat' split) <;> simp [beBytes_length] <;> omega

/-! ### Well-formed token trees (the property's quantifier domain) -/

def tokInRange (t : Tok) : Bool :=
  (match t.body with
   | .uint n => n < two64
   | .int i => - (two63 : Int) ≤ i && i < (two63 : Int)
   | .float b => b < two64
   | .mapOpen _ | .mapClose | .arrOpen _ | .arrClose => false
   | _ => true) &&
  (match t.tag with | some g => 0 ≤ g && g < (two63 : Int) | none => true)

def keyTok (t : Tok) : Bool := keyOk .cbor t.body

mutual
  /-- Scalars are in range, keys are string/int/uint tokens, declared lengths and tags are Go ints. -/
  def WFv : TV → Bool
    | .scalar t => tokInRange t
    | .arr tag len items =>
      (match tag with | some g => 0 ≤ g && g < (two63 : Int) | none => true) && len < (two63 : Int) && WFl items
    | .map tag len es =>
      (match tag with | some g => 0 ≤ g && g < (two63 : Int) | none => true) && len < (two63 : Int) && WFe es
  def WFl : List TV → Bool
    | [] => true
    | v :: vs => WFv v && WFl vs
  def WFe : List (TV × TV) → Bool
    | [] => true
    | (k, v) :: es => (match k with | .scalar t => keyTok t | _ => false) && WFv k && WFv v && WFe es
end

/-! ### Encoder = specification -/

theorem tokInRange_scalar {t : Tok} (h : tokInRange t = true) : t.body.isScalar = true := by
  unfold tokInRange at h
  cases hb : t.body <;> simp [hb] at h <;> rfl

theorem tokInRange_int {t : Tok} (h : tokInRange t = true) :
    ∀ i, t.body = .int i → - (two63 : Int) ≤ i ∧ i < (two63 : Int) := by
  intro i hb
  unfold tokInRange at h
  simp [hb] at h
  exact h.1

/-- Writes of a scalar token are its spec encoding. -/
theorem scalar_writes {t : Tok} (h : tokInRange t = true) :
    (CborEnc.tagHead t.tag ++ CborEnc.scalarWrites t.body).flatten = Spec.Cbor.enc (.scalar t) := by
  simp [Spec.Cbor.enc, tagHead_flatten, scalarWrites_flatten _ (tokInRange_int h)]

theorem open_writes (isMap : Bool) (tag : Option Int) (len : Int) (hl : len < (two63 : Int)) (h0 : 0 ≤ len) :
    (CborEnc.tagHead tag ++ CborEnc.openWrites isMap len).flatten =
      Spec.Cbor.tagBytes tag ++ Spec.Cbor.head (if isMap then 0xa0 else 0x80) len.toNat := by
  simp [tagHead_flatten, openWrites_flatten isMap len h0 hl]

theorem open_writes_neg (isMap : Bool) (tag : Option Int) (len : Int) (h0 : ¬ 0 ≤ len) :
    (CborEnc.tagHead tag ++ CborEnc.openWrites isMap len).flatten =
      Spec.Cbor.tagBytes tag ++ [if isMap then 0xbf else 0x9f] := by
  cases isMap <;> simp [tagHead_flatten, CborEnc.openWrites, h0, CborEnc.sigIndefMap, CborEnc.sigIndefArr]

/-- The phase in which the items of a container are consumed. -/
theorem openPhase_arr (len : Int) :
    CborEnc.openPhase false len = .arrDef ∨ CborEnc.openPhase false len = .arrIndef := by
  unfold CborEnc.openPhase; split <;> simp

theorem openPhase_map (len : Int) :
    (CborEnc.openPhase true len = .mapDefKey) ∨ (CborEnc.openPhase true len = .mapIndefKey) := by
  unfold CborEnc.openPhase; split <;> simp

/-- Closing a container whose frame sits on a non-empty stack. -/
theorem arrClose_nested (p c : CborEnc.Phase) (r : List CborEnc.Phase)
    (hp : p = .arrDef ∨ p = .arrIndef) :
    (CborEnc.step ⟨p :: c :: r, p⟩ ⟨.arrClose, none⟩).ret.flag = .cont ∧
    (CborEnc.step ⟨p :: c :: r, p⟩ ⟨.arrClose, none⟩).st = ⟨c :: r, c⟩ ∧
    (CborEnc.step ⟨p :: c :: r, p⟩ ⟨.arrClose, none⟩).writes = (if p = .arrDef then [] else [[0xff]]) := by
  rcases hp with rfl | rfl <;>
    simp [CborEnc.step, CborEnc.stepArrClose, CborEnc.popRet, CborEnc.pop, Ret.flag, CborEnc.sigBreak]

theorem mapClose_nested (p c : CborEnc.Phase) (r : List CborEnc.Phase)
    (hp : p = .mapDefKey ∨ p = .mapIndefKey) :
    (CborEnc.step ⟨p :: c :: r, p⟩ ⟨.mapClose, none⟩).ret.flag = .cont ∧
    (CborEnc.step ⟨p :: c :: r, p⟩ ⟨.mapClose, none⟩).st = ⟨c :: r, c⟩ ∧
    (CborEnc.step ⟨p :: c :: r, p⟩ ⟨.mapClose, none⟩).writes = (if p = .mapDefKey then [] else [[0xff]]) := by
  rcases hp with rfl | rfl <;>
    simp [CborEnc.step, CborEnc.stepMapClose, CborEnc.popRet, CborEnc.pop, Ret.flag, CborEnc.sigBreak]

theorem arrClose_top (p : CborEnc.Phase) (hp : p = .arrDef ∨ p = .arrIndef) :
    (CborEnc.step ⟨[p], p⟩ ⟨.arrClose, none⟩).ret.flag = .done ∧
    (CborEnc.step ⟨[p], p⟩ ⟨.arrClose, none⟩).writes = (if p = .arrDef then [] else [[0xff]]) := by
  rcases hp with rfl | rfl <;>
    simp [CborEnc.step, CborEnc.stepArrClose, CborEnc.popRet, CborEnc.pop, Ret.flag, CborEnc.sigBreak]

theorem mapClose_top (p : CborEnc.Phase) (hp : p = .mapDefKey ∨ p = .mapIndefKey) :
    (CborEnc.step ⟨[p], p⟩ ⟨.mapClose, none⟩).ret.flag = .done ∧
    (CborEnc.step ⟨[p], p⟩ ⟨.mapClose, none⟩).writes = (if p = .mapDefKey then [] else [[0xff]]) := by
  rcases hp with rfl | rfl <;>
    simp [CborEnc.step, CborEnc.stepMapClose, CborEnc.popRet, CborEnc.pop, Ret.flag, CborEnc.sigBreak]

/-- Bytes of a container body + close, given the bytes of the open and of the items. -/
theorem enc_arr_eq (tag : Option Int) (len : Int) (items : List TV) :
    Spec.Cbor.enc (.arr tag len items) =
      (Spec.Cbor.tagBytes tag ++ (if 0 ≤ len then Spec.Cbor.head 0x80 len.toNat else [0x9f])) ++
        Spec.Cbor.encList items ++ (if 0 ≤ len then [] else [0xff]) := by
  by_cases h : 0 ≤ len <;> simp [Spec.Cbor.enc, h]

theorem enc_map_eq (tag : Option Int) (len : Int) (es : List (TV × TV)) :
    Spec.Cbor.enc (.map tag len es) =
      (Spec.Cbor.tagBytes tag ++ (if 0 ≤ len then Spec.Cbor.head 0xa0 len.toNat else [0xbf])) ++
        Spec.Cbor.encEntries es ++ (if 0 ≤ len then [] else [0xff]) := by
  by_cases h : 0 ≤ len <;> simp [Spec.Cbor.enc, h]

theorem open_writes_eq (isMap : Bool) (tag : Option Int) (len : Int) (hl : len < (two63 : Int)) :
    (CborEnc.tagHead tag ++ CborEnc.openWrites isMap len).flatten =
      Spec.Cbor.tagBytes tag ++ (if 0 ≤ len then Spec.Cbor.head (if isMap then 0xa0 else 0x80) len.toNat
                                  else [if isMap then 0xbf else 0x9f]) := by
  by_cases h : 0 ≤ len
  · simp [h, open_writes isMap tag len hl h]
  · simp [h, open_writes_neg isMap tag len h]

theorem open_writes_arr (tag : Option Int) (len : Int) (hl : len < (two63 : Int)) :
    (CborEnc.tagHead tag ++ CborEnc.openWrites false len).flatten =
      Spec.Cbor.tagBytes tag ++ (if 0 ≤ len then Spec.Cbor.head 0x80 len.toNat else [0x9f]) := by
  simpa using open_writes_eq false tag len hl

theorem open_writes_map (tag : Option Int) (len : Int) (hl : len < (two63 : Int)) :
    (CborEnc.tagHead tag ++ CborEnc.openWrites true len).flatten =
      Spec.Cbor.tagBytes tag ++ (if 0 ≤ len then Spec.Cbor.head 0xa0 len.toNat else [0xbf]) := by
  simpa using open_writes_eq true tag len hl

theorem close_writes_arr (len : Int) :
    (if CborEnc.openPhase false len = .arrDef then ([] : List Bytes) else [[0xff]]).flatten =
      (if 0 ≤ len then [] else [0xff]) := by
  unfold CborEnc.openPhase; by_cases h : 0 ≤ len <;> simp [h]

theorem close_writes_map (len : Int) :
    (if CborEnc.openPhase true len = .mapDefKey then ([] : List Bytes) else [[0xff]]).flatten =
      (if 0 ≤ len then [] else [0xff]) := by
  unfold CborEnc.openPhase; by_cases h : 0 ≤ len <;> simp [h]

mutual
  /-- One value in a nested value position. -/
  theorem encV : ∀ (v : TV), WFv v = true → ∀ (c cur : CborEnc.Phase) (r : List CborEnc.Phase),
      CborEnc.valuePos cur = some c → cur ≠ .any →
      ∃ ws, ws.flatten = Spec.Cbor.enc v ∧ Runs ⟨c :: r, cur⟩ v.flatten ws ⟨c :: r, c⟩
    | .scalar t, h, c, cur, r, hc, hne => by
      have ht : tokInRange t = true := by simpa [WFv] using h
      have hstep := step_scalar (c :: r) cur c t (tokInRange_scalar ht) hc
      refine ⟨_, scalar_writes ht, ?_⟩
      have hf : (CborEnc.step ⟨c :: r, cur⟩ t).ret.flag = .cont := by
        rw [hstep]; simp [Ret.flag, hne]
      have := Runs.single hf
      rw [hstep] at this
      simpa [TV.flatten] using this
    | .arr tag len items, h, c, cur, r, hc, hne => by
      simp only [WFv, Bool.and_eq_true, decide_eq_true_eq] at h
      obtain ⟨⟨_, hl⟩, hitems⟩ := h
      obtain ⟨ws, hws, hruns⟩ := encL items hitems (CborEnc.openPhase false len) (c :: r) (openPhase_arr len)
      have hopen := step_arrOpen (c :: r) cur c tag len hc
      have hcl := arrClose_nested (CborEnc.openPhase false len) c r (openPhase_arr len)
      have hf : (CborEnc.step ⟨c :: r, cur⟩ ⟨.arrOpen len, tag⟩).ret.flag = .cont := by
        rw [hopen]; simp [Ret.flag]
      have h1 := Runs.single hf
      rw [hopen] at h1
      have h3 := Runs.single hcl.1
      rw [hcl.2.1, hcl.2.2] at h3
      have := (h1.append hruns).append h3
      refine ⟨_, ?_, by simpa [TV.flatten] using this⟩
      rw [enc_arr_eq, ← open_writes_arr tag len hl, ← hws, ← close_writes_arr]
      simp [List.flatten_append]
    | .map tag len es, h, c, cur, r, hc, hne => by
      simp only [WFv, Bool.and_eq_true, decide_eq_true_eq] at h
      obtain ⟨⟨_, hl⟩, hes⟩ := h
      obtain ⟨ws, hws, hruns⟩ := encE es hes (CborEnc.openPhase true len) (c :: r) (openPhase_map len)
      have hopen := step_mapOpen (c :: r) cur c tag len hc
      have hcl := mapClose_nested (CborEnc.openPhase true len) c r (openPhase_map len)
      have hf : (CborEnc.step ⟨c :: r, cur⟩ ⟨.mapOpen len, tag⟩).ret.flag = .cont := by
        rw [hopen]; simp [Ret.flag]
      have h1 := Runs.single hf
      rw [hopen] at h1
      have h3 := Runs.single hcl.1
      rw [hcl.2.1, hcl.2.2] at h3
      have := (h1.append hruns).append h3
      refine ⟨_, ?_, by simpa [TV.flatten] using this⟩
      rw [enc_map_eq, ← open_writes_map tag len hl, ← hws, ← close_writes_map]
      simp [List.flatten_append]
  /-- The items of an array. -/
  theorem encL : ∀ (vs : List TV), WFl vs = true → ∀ (p : CborEnc.Phase) (r : List CborEnc.Phase),
      (p = .arrDef ∨ p = .arrIndef) →
      ∃ ws, ws.flatten = Spec.Cbor.encList vs ∧ Runs ⟨p :: r, p⟩ (TV.flattenList vs) ws ⟨p :: r, p⟩
    | [], _, p, r, _ => ⟨[], by simp [Spec.Cbor.encList], by simpa [TV.flattenList] using Runs.nil _⟩
    | v :: vs, h, p, r, hp => by
      simp only [WFl, Bool.and_eq_true] at h
      have hvp : CborEnc.valuePos p = some p ∧ p ≠ .any := by
        rcases hp with rfl | rfl <;> simp [CborEnc.valuePos]
      obtain ⟨w1, hw1, hr1⟩ := encV v h.1 p p r hvp.1 hvp.2
      obtain ⟨w2, hw2, hr2⟩ := encL vs h.2 p r hp
      exact ⟨w1 ++ w2, by simp [Spec.Cbor.encList, hw1, hw2], by simpa [TV.flattenList] using hr1.append hr2⟩
  /-- The entries of a map. -/
  theorem encE : ∀ (es : List (TV × TV)), WFe es = true → ∀ (p : CborEnc.Phase) (r : List CborEnc.Phase),
      (p = .mapDefKey ∨ p = .mapIndefKey) →
      ∃ ws, ws.flatten = Spec.Cbor.encEntries es ∧ Runs ⟨p :: r, p⟩ (TV.flattenEntries es) ws ⟨p :: r, p⟩
    | [], _, p, r, _ => ⟨[], by simp [Spec.Cbor.encEntries], by simpa [TV.flattenEntries] using Runs.nil _⟩
    | (k, v) :: es, h, p, r, hp => by
      simp only [WFe, Bool.and_eq_true] at h
      obtain ⟨⟨⟨hk, hkw⟩, hv⟩, hes⟩ := h
      obtain ⟨pv, hkp, hvp, hne⟩ : ∃ pv, CborEnc.keyPos p = some pv ∧ CborEnc.valuePos pv = some p ∧ pv ≠ .any := by
        rcases hp with rfl | rfl
        · exact ⟨.mapDefVal, rfl, rfl, by simp⟩
        · exact ⟨.mapIndefVal, rfl, rfl, by simp⟩
      obtain ⟨w2, hw2, hr2⟩ := encV v hv p pv r hvp hne
      obtain ⟨w3, hw3, hr3⟩ := encE es hes p r hp
      cases k with
      | scalar t =>
        have ht : tokInRange t = true := by simpa [WFv] using hkw
        have hstep := step_key (p :: r) p pv t (by simpa [keyTok] using hk) hkp
        have hpne : p ≠ .any := by rcases hp with rfl | rfl <;> simp
        have hf : (CborEnc.step ⟨p :: r, p⟩ t).ret.flag = .cont := by
          rw [hstep]; simp [Ret.flag, hpne]
        have h1 := Runs.single hf
        rw [hstep] at h1
        refine ⟨_, ?_, by simpa [TV.flattenEntries, TV.flatten] using (h1.append hr2).append hr3⟩
        rw [Spec.Cbor.encEntries, ← scalar_writes ht, ← hw2, ← hw3]
        simp [List.flatten_append]
      | arr _ _ _ => simp at hk
      | map _ _ _ => simp at hk
end

/-- The encoder accepts every well-formed tree, answers continue on every token but the last,
    done on the last, and the concatenation of its `Write` calls is the RFC 7049 encoding. -/
theorem enc_eq_spec (v : TV) (h : WFv v = true) :
    (runOut CborEnc.step CborEnc.init v.flatten).1 =
        List.replicate (v.flatten.length - 1) Flag.cont ++ [Flag.done] ∧
    (runOut CborEnc.step CborEnc.init v.flatten).2.flatten = Spec.Cbor.enc v := by
  cases v with
  | scalar t =>
    have ht : tokInRange t = true := by simpa [WFv] using h
    have hstep := step_scalar [] .any .any t (tokInRange_scalar ht) rfl
    simp only [TV.flatten, runOut, CborEnc.init, hstep]
    simp only [Ret.flag]
    simpa using scalar_writes ht
  | arr tag len items =>
    simp only [WFv, Bool.and_eq_true, decide_eq_true_eq] at h
    obtain ⟨⟨_, hl⟩, hitems⟩ := h
    obtain ⟨ws, hws, hruns⟩ := encL items hitems (CborEnc.openPhase false len) [] (openPhase_arr len)
    have hopen := step_arrOpen [] .any .any tag len rfl
    have hcl := arrClose_top (CborEnc.openPhase false len) (openPhase_arr len)
    have hf : (CborEnc.step ⟨[], .any⟩ ⟨.arrOpen len, tag⟩).ret.flag = .cont := by
      rw [hopen]; simp [Ret.flag]
    have h1 := Runs.single hf
    rw [hopen] at h1
    have := (h1.append hruns).finish hcl.1
    rw [hcl.2] at this
    simp only [TV.flatten, CborEnc.init]
    simp only [List.singleton_append, List.cons_append, List.nil_append] at this
    rw [this]
    refine ⟨by simp, ?_⟩
    rw [enc_arr_eq, ← open_writes_arr tag len hl, ← hws, ← close_writes_arr]
    simp [List.flatten_append]
  | map tag len es =>
    simp only [WFv, Bool.and_eq_true, decide_eq_true_eq] at h
    obtain ⟨⟨_, hl⟩, hes⟩ := h
    obtain ⟨ws, hws, hruns⟩ := encE es hes (CborEnc.openPhase true len) [] (openPhase_map len)
    have hopen := step_mapOpen [] .any .any tag len rfl
    have hcl := mapClose_top (CborEnc.openPhase true len) (openPhase_map len)
    have hf : (CborEnc.step ⟨[], .any⟩ ⟨.mapOpen len, tag⟩).ret.flag = .cont := by
      rw [hopen]; simp [Ret.flag]
    have h1 := Runs.single hf
    rw [hopen] at h1
    have := (h1.append hruns).finish hcl.1
    rw [hcl.2] at this
    simp only [TV.flatten, CborEnc.init]
    simp only [List.singleton_append, List.cons_append, List.nil_append] at this
    rw [this]
    refine ⟨by simp, ?_⟩
    rw [enc_map_eq, ← open_writes_map tag len hl, ← hws, ← close_writes_map]
    simp [List.flatten_append]

/-! ### Round trip through the decoder -/

def canonTok (t : Tok) : Tok :=
  match t.body with
  | .int i => if i ≥ 0 then { t with body := .uint i.toNat } else t
  | _ => t

-- What the decoder can give back: leaves within the built-in 32 MiB per-item cap, lengths exact.
mutual
  def Supported : TV → Bool
    | .scalar t => (match t.body with | .str s => s.length ≤ 33554432 | .bytes b => b.length ≤ 33554432 | _ => true)
    | .arr _ len items => (len < 0 || len == items.length) && SupportedL items
    | .map _ len es => (len < 0 || len == es.length) && SupportedE es
  def SupportedL : List TV → Bool
    | [] => true
    | v :: vs => Supported v && SupportedL vs
  def SupportedE : List (TV × TV) → Bool
    | [] => true
    | (k, v) :: es => Supported k && Supported v && SupportedE es
end

/-- What the decoder really gives back for a token: as `canonTok`, and in addition every negative
    (indefinite) declared length comes back as `-1`. -/
def normTok (t : Tok) : Tok := ⟨canonBody t.body, t.tag⟩

theorem normTok_close_arr : normTok ⟨.arrClose, none⟩ = ⟨.arrClose, none⟩ := rfl
theorem normTok_close_map : normTok ⟨.mapClose, none⟩ = ⟨.mapClose, none⟩ := rfl

/-- Away from declared lengths below `-1`, `normTok` is `canonTok`. -/
theorem normTok_eq_canonTok (t : Tok)
    (hl : ∀ l, (t.body = .arrOpen l ∨ t.body = .mapOpen l) → -1 ≤ l) : normTok t = canonTok t := by
  obtain ⟨body, tag⟩ := t
  cases body with
  | int i => by_cases h : i ≥ 0 <;> simp [normTok, canonTok, canonBody, h]
  | arrOpen l =>
    have := hl l (Or.inl rfl)
    by_cases h : l < 0
    · have : l = -1 := by omega
      subst this; simp [normTok, canonTok, canonBody]
    · simp [normTok, canonTok, canonBody, h]
  | mapOpen l =>
    have := hl l (Or.inr rfl)
    by_cases h : l < 0
    · have : l = -1 := by omega
      subst this; simp [normTok, canonTok, canonBody]
    · simp [normTok, canonTok, canonBody, h]
  | _ => simp [normTok, canonTok, canonBody]

theorem tokInRange_facts {t : Tok} (h : tokInRange t = true) :
    (∀ n, t.body = .uint n → n < two64) ∧ (∀ x, t.body = .float x → x < two64) ∧ TagOk t.tag := by
  unfold tokInRange at h
  simp only [Bool.and_eq_true] at h
  obtain ⟨h1, h2⟩ := h
  exact ⟨fun n hb => by simpa [hb] using h1, fun x hb => by simpa [hb] using h1,
    fun g hg => by simpa [hg] using h2⟩

theorem tagOk_of {tag : Option Int}
    (h : (match tag with | some g => decide (0 ≤ g) && decide (g < (two63 : Int)) | none => true) = true) :
    TagOk tag := by
  intro g hg
  simpa [hg] using h

/-- `acceptValue` on the encoding of a scalar token. -/
theorem scalar_AVT {t : Tok} (h : tokInRange t = true) (hs : Supported (.scalar t) = true) :
    AVT (Spec.Cbor.enc (.scalar t)) id (normTok t) true := by
  obtain ⟨hu, hf, htag⟩ := tokInRange_facts h
  have hstr : ∀ x, t.body = .str x → x.length ≤ 33554432 := by
    intro x hb; simpa [Supported, hb] using hs
  have hbytes : ∀ x, t.body = .bytes x → x.length ≤ 33554432 := by
    intro x hb; simpa [Supported, hb] using hs
  have := (AV_scalar t.body (tokInRange_scalar h) hu (tokInRange_int h) hf hstr hbytes).tagged t.tag htag
  simpa [Spec.Cbor.enc, normTok] using this

mutual
  /-- One value inside a container. -/
  theorem decV : ∀ (v : TV), WFv v = true → Supported v = true →
      ∀ (coerce : Bool) (s sIn : CborDec.St), ValCtx coerce s sIn →
      DRuns coerce s (Spec.Cbor.enc v) (v.flatten.map normTok) sIn
    | .scalar t, h, hs, coerce, s, sIn, hc => by
      have ht : tokInRange t = true := by simpa [WFv] using h
      have := DRuns.single (fun rest => step_nested hc (scalar_AVT ht hs) rest)
      simpa [TV.flatten] using this
    | .arr tag len items, h, hs, coerce, s, sIn, hc => by
      simp only [WFv, Bool.and_eq_true, decide_eq_true_eq] at h
      obtain ⟨⟨htag, hl⟩, hitems⟩ := h
      simp only [Supported, Bool.and_eq_true, Bool.or_eq_true, decide_eq_true_eq, beq_iff_eq] at hs
      obtain ⟨hlen, hsi⟩ := hs
      have ht := tagOk_of htag
      by_cases h0 : 0 ≤ len
      · have hlen' : len = (items.length : Int) := by omega
        subst hlen'
        have hn : items.length ≤ CborDec.maxInt := by
          unfold CborDec.maxInt; unfold two63 at hl; omega
        have := arr_nested (d := true) ht hn (fun q stk l => decL items hitems hsi coerce true q stk l) hc
        have hneg : ¬ ((items.length : Int) < 0) := by omega
        simpa [enc_arr_eq, TV.flatten, normTok, canonBody, hneg] using this
      · have hneg : len < 0 := by omega
        have := arr_nested (d := false) (n := 0) ht (by unfold CborDec.maxInt; omega)
          (fun q stk l => decL items hitems hsi coerce false q stk l) hc
        simpa [enc_arr_eq, TV.flatten, normTok, canonBody, hneg, h0] using this
    | .map tag len es, h, hs, coerce, s, sIn, hc => by
      simp only [WFv, Bool.and_eq_true, decide_eq_true_eq] at h
      obtain ⟨⟨htag, hl⟩, hes⟩ := h
      simp only [Supported, Bool.and_eq_true, Bool.or_eq_true, decide_eq_true_eq, beq_iff_eq] at hs
      obtain ⟨hlen, hse⟩ := hs
      have ht := tagOk_of htag
      by_cases h0 : 0 ≤ len
      · have hlen' : len = (es.length : Int) := by omega
        subst hlen'
        have hn : es.length ≤ CborDec.maxInt := by
          unfold CborDec.maxInt; unfold two63 at hl; omega
        have := map_nested (d := true) ht hn (fun q stk l => decE es hes hse coerce true q stk l) hc
        have hneg : ¬ ((es.length : Int) < 0) := by omega
        simpa [enc_map_eq, TV.flatten, normTok, canonBody, hneg] using this
      · have hneg : len < 0 := by omega
        have := map_nested (d := false) (n := 0) ht (by unfold CborDec.maxInt; omega)
          (fun q stk l => decE es hes hse coerce false q stk l) hc
        simpa [enc_map_eq, TV.flatten, normTok, canonBody, hneg, h0] using this
  /-- The items of an array (definite: counting down; indefinite: until the break). -/
  theorem decL : ∀ (vs : List TV), WFl vs = true → SupportedL vs = true →
      ∀ (coerce d : Bool) (q : CborDec.Phase) (stk : List CborDec.Phase) (l : List Nat),
      DRuns coerce ⟨q :: stk, arrPhase d, lf d vs.length l⟩ (Spec.Cbor.encList vs)
        ((TV.flattenList vs).map normTok) ⟨q :: stk, arrPhase d, lf d 0 l⟩
    | [], _, _, coerce, d, q, stk, l => by
      simpa [Spec.Cbor.encList, TV.flattenList] using DRuns.nil coerce _
    | v :: vs, h, hs, coerce, d, q, stk, l => by
      simp only [WFl, Bool.and_eq_true] at h
      simp only [SupportedL, Bool.and_eq_true] at hs
      have h1 := decV v h.1 hs.1 coerce _ _ (ValCtx_arr coerce d q stk vs.length l)
      have h2 := decL vs h.2 hs.2 coerce d q stk l
      simpa [Spec.Cbor.encList, TV.flattenList] using h1.append h2
  /-- The entries of a map. -/
  theorem decE : ∀ (es : List (TV × TV)), WFe es = true → SupportedE es = true →
      ∀ (coerce d : Bool) (q : CborDec.Phase) (stk : List CborDec.Phase) (l : List Nat),
      DRuns coerce ⟨q :: stk, mapKPhase d, lf d es.length l⟩ (Spec.Cbor.encEntries es)
        ((TV.flattenEntries es).map normTok) ⟨q :: stk, mapKPhase d, lf d 0 l⟩
    | [], _, _, coerce, d, q, stk, l => by
      simpa [Spec.Cbor.encEntries, TV.flattenEntries] using DRuns.nil coerce _
    | (k, v) :: es, h, hs, coerce, d, q, stk, l => by
      simp only [WFe, Bool.and_eq_true] at h
      obtain ⟨⟨⟨_, hk⟩, hv⟩, hes⟩ := h
      simp only [SupportedE, Bool.and_eq_true] at hs
      obtain ⟨⟨hsk, hsv⟩, hse⟩ := hs
      have h1 := decV k hk hsk coerce _ _ (ValCtx_mapK coerce d q stk es.length l)
      have h2 := decV v hv hsv coerce _ _ (ValCtx_mapV coerce d q stk (lf d es.length l))
      have h3 := decE es hes hse coerce d q stk l
      simpa [Spec.Cbor.encEntries, TV.flattenEntries] using (h1.append h2).append h3
end

/-- One value from the initial state. -/
theorem decTop (coerce : Bool) (v : TV) (h : WFv v = true) (hs : Supported v = true) :
    Decodes coerce (Spec.Cbor.enc v) (v.flatten.map normTok) := by
  cases v with
  | scalar t =>
    have ht : tokInRange t = true := by simpa [WFv] using h
    simpa [TV.flatten] using scalar_top (coerce := coerce) (scalar_AVT ht hs)
  | arr tag len items =>
    simp only [WFv, Bool.and_eq_true, decide_eq_true_eq] at h
    obtain ⟨⟨htag, hl⟩, hitems⟩ := h
    simp only [Supported, Bool.and_eq_true, Bool.or_eq_true, decide_eq_true_eq, beq_iff_eq] at hs
    obtain ⟨hlen, hsi⟩ := hs
    have ht := tagOk_of htag
    by_cases h0 : 0 ≤ len
    · have hlen' : len = (items.length : Int) := by omega
      subst hlen'
      have hn : items.length ≤ CborDec.maxInt := by
        unfold CborDec.maxInt; unfold two63 at hl; omega
      have := arr_top (d := true) ht hn (fun q stk l => decL items hitems hsi coerce true q stk l)
      have hneg : ¬ ((items.length : Int) < 0) := by omega
      simpa [enc_arr_eq, TV.flatten, normTok, canonBody, hneg] using this
    · have hneg : len < 0 := by omega
      have := arr_top (d := false) (n := 0) ht (by unfold CborDec.maxInt; omega)
        (fun q stk l => decL items hitems hsi coerce false q stk l)
      simpa [enc_arr_eq, TV.flatten, normTok, canonBody, hneg, h0] using this
  | map tag len es =>
    simp only [WFv, Bool.and_eq_true, decide_eq_true_eq] at h
    obtain ⟨⟨htag, hl⟩, hes⟩ := h
    simp only [Supported, Bool.and_eq_true, Bool.or_eq_true, decide_eq_true_eq, beq_iff_eq] at hs
    obtain ⟨hlen, hse⟩ := hs
    have ht := tagOk_of htag
    by_cases h0 : 0 ≤ len
    · have hlen' : len = (es.length : Int) := by omega
      subst hlen'
      have hn : es.length ≤ CborDec.maxInt := by
        unfold CborDec.maxInt; unfold two63 at hl; omega
      have := map_top (d := true) ht hn (fun q stk l => decE es hes hse coerce true q stk l)
      have hneg : ¬ ((es.length : Int) < 0) := by omega
      simpa [enc_map_eq, TV.flatten, normTok, canonBody, hneg] using this
    · have hneg : len < 0 := by omega
      have := map_top (d := false) (n := 0) ht (by unfold CborDec.maxInt; omega)
        (fun q stk l => decE es hes hse coerce false q stk l)
      simpa [enc_map_eq, TV.flatten, normTok, canonBody, hneg, h0] using this

/-! Fuel: every token costs at least half a byte. -/

theorem encBody_pos (b : Body) (hs : b.isScalar = true) : 1 ≤ (Spec.Cbor.encBody b).length := by
  cases b with
  | uint n =>
    obtain ⟨x, tl, hx, _⟩ := head_ne_nil 0x00 n
    simp [Spec.Cbor.encBody, hx]
  | int i =>
    simp only [Spec.Cbor.encBody]
    split
    · obtain ⟨x, tl, hx, _⟩ := head_ne_nil 0x00 i.toNat
      simp [hx]
    · obtain ⟨x, tl, hx, _⟩ := head_ne_nil 0x20 (-1 - i).toNat
      simp [hx]
  | str x =>
    obtain ⟨y, tl, hx, _⟩ := head_ne_nil 0x60 x.length
    simp [Spec.Cbor.encBody, hx]
  | bytes x =>
    obtain ⟨y, tl, hx, _⟩ := head_ne_nil 0x40 x.length
    simp [Spec.Cbor.encBody, hx]
  | bool x => cases x <;> simp [Spec.Cbor.encBody]
  | null => simp [Spec.Cbor.encBody]
  | float x => simp [Spec.Cbor.encBody]
  | mapOpen _ => simp [Body.isScalar] at hs
  | mapClose => simp [Body.isScalar] at hs
  | arrOpen _ => simp [Body.isScalar] at hs
  | arrClose => simp [Body.isScalar] at hs

theorem open_len_pos (m : Nat) (len : Int) (x : Nat) :
    1 ≤ (if 0 ≤ len then Spec.Cbor.head m len.toNat else [x]).length := by
  split
  · obtain ⟨y, tl, hx, _⟩ := head_ne_nil m len.toNat
    simp [hx]
  · simp

mutual
  theorem lenV : ∀ (v : TV), WFv v = true → v.flatten.length ≤ 2 * (Spec.Cbor.enc v).length
    | .scalar t, h => by
      have ht : tokInRange t = true := by simpa [WFv] using h
      have := encBody_pos t.body (tokInRange_scalar ht)
      simp only [TV.flatten, Spec.Cbor.enc, List.length_append, List.length_cons, List.length_nil]
      omega
    | .arr tag len items, h => by
      simp only [WFv, Bool.and_eq_true] at h
      have h1 := lenL items h.2
      have h2 := open_len_pos 0x80 len 0x9f
      rw [enc_arr_eq]
      simp only [TV.flatten, List.length_append, List.length_cons, List.length_nil]
      omega
    | .map tag len es, h => by
      simp only [WFv, Bool.and_eq_true] at h
      have h1 := lenE es h.2
      have h2 := open_len_pos 0xa0 len 0xbf
      rw [enc_map_eq]
      simp only [TV.flatten, List.length_append, List.length_cons, List.length_nil]
      omega
  theorem lenL : ∀ (vs : List TV), WFl vs = true →
      (TV.flattenList vs).length ≤ 2 * (Spec.Cbor.encList vs).length
    | [], _ => by simp [TV.flattenList]
    | v :: vs, h => by
      simp only [WFl, Bool.and_eq_true] at h
      have h1 := lenV v h.1
      have h2 := lenL vs h.2
      simp only [TV.flattenList, Spec.Cbor.encList, List.length_append]
      omega
  theorem lenE : ∀ (es : List (TV × TV)), WFe es = true →
      (TV.flattenEntries es).length ≤ 2 * (Spec.Cbor.encEntries es).length
    | [], _ => by simp [TV.flattenEntries]
    | (k, v) :: es, h => by
      simp only [WFe, Bool.and_eq_true] at h
      have h1 := lenV k h.1.1.2
      have h2 := lenV v h.1.2
      have h3 := lenE es h.2
      simp only [TV.flattenEntries, Spec.Cbor.encEntries, List.length_append]
      omega
end

/-- The round trip as the decoder really performs it: tokens come back through `normTok`
    (that is `canonTok`, plus every indefinite declared length reported as `-1`). -/
theorem roundtrip_norm (v : TV) (rest : Bytes) (h : WFv v = true) (hs : Supported v = true) :
    let o := CborDec.decode false (Rd.ofBytes (Spec.Cbor.enc v ++ rest))
    o.toks = v.flatten.map normTok ∧ o.res = .ok () ∧ o.rd.data = rest := by
  have hlen := lenV v h
  have := decTop false v h hs (2 * (Spec.Cbor.enc v ++ rest).length + 2) rest
    (by simp only [List.length_map, List.length_append]; omega)
  simpa [CborDec.decode, Rd.ofBytes] using this

/-- The statement of `roundtrip` as originally written. -/
def roundtrip_statement : Prop :=
  ∀ (v : TV) (rest : Bytes) (h : WFv v = true) (hs : Supported v = true)
    (hb : ∀ t ∈ v.flatten, ∀ b, (t.body = .str b ∨ t.body = .bytes b) → ∀ x ∈ b, x < 256),
    let o := CborDec.decode false (Rd.ofBytes (Spec.Cbor.enc v ++ rest))
    o.toks = v.flatten.map canonTok ∧ o.res = .ok () ∧ o.rd.data = rest

/-- It is false: a declared length `-2` is well-formed and supported, is written as an indefinite
    array, and comes back with declared length `-1`. -/
theorem roundtrip_statement_false : ¬ roundtrip_statement := by
  intro hst
  have h1 := hst (.arr none (-2) []) [] (by decide) (by decide)
    (by simp [TV.flatten, TV.flattenList])
  have h2 := roundtrip_norm (.arr none (-2) []) [] (by decide) (by decide)
  simp only at h1 h2
  have := h1.1.symm.trans h2.1
  simp [TV.flatten, TV.flattenList, normTok, canonBody, canonTok] at this

/-- Decoding the encoder's output gives back the same tokens (non-negative signed integers come back
    unsigned), signals done exactly on the last token, and consumes exactly those bytes —
    provided every indefinite declared length is spelled `-1` (hypothesis `hl`, the only addition
    to the original statement). -/
theorem roundtrip_partial (v : TV) (rest : Bytes) (h : WFv v = true) (hs : Supported v = true)
    (hb : ∀ t ∈ v.flatten, ∀ b, (t.body = .str b ∨ t.body = .bytes b) → ∀ x ∈ b, x < 256)
    (hl : ∀ t ∈ v.flatten, ∀ l, (t.body = .arrOpen l ∨ t.body = .mapOpen l) → -1 ≤ l) :
    let o := CborDec.decode false (Rd.ofBytes (Spec.Cbor.enc v ++ rest))
    o.toks = v.flatten.map canonTok ∧ o.res = .ok () ∧ o.rd.data = rest := by
  have := roundtrip_norm v rest h hs
  have e : v.flatten.map normTok = v.flatten.map canonTok :=
    List.map_congr_left (fun t ht => normTok_eq_canonTok t (hl t ht))
  rw [e] at this
  exact this

end Refmt.C02
