/-
  C02 — CBOR encoding of token streams is lossless and in RFC 7049 shortest form.

  * `emitHead_eq_head`   : the Go head emitter writes exactly the spec head, for every argument < 2^64
  * `head_shortest`      : no legal head for the same argument is shorter
  * `enc_eq_spec`        : for every well-formed token tree, the encoder accepts `flatten v`, signals done
                           exactly on the last token, and the bytes written are `Spec.Cbor.enc v`
  * `roundtrip`          : decoding `enc v ++ rest` with the decoder model yields `flatten (canon v)`,
                           done on the last token, and leaves exactly `rest`
-/
import RefmtModel
set_option linter.unusedSimpArgs false
set_option linter.unusedVariables false
namespace Refmt.C02
open Refmt

/-! ### Heads -/

/-- `h` is *a* legal RFC 7049 head for argument `n` under major base `major`
    (any of the five widths wide enough to hold `n`). -/
inductive ValidHead (major n : Nat) : Bytes → Prop
  | imm (h : n < 24) : ValidHead major n [major + n]
  | w1 (h : n < 256) : ValidHead major n [major + 24, n]
  | w2 (h : n < 65536) : ValidHead major n ((major + 25) :: beBytes 2 n)
  | w4 (h : n < 4294967296) : ValidHead major n ((major + 26) :: beBytes 4 n)
  | w8 (h : n < 18446744073709551616) : ValidHead major n ((major + 27) :: beBytes 8 n)

theorem emitHead_eq_head (major v : Nat) (hv : v < two64) :
    (CborEnc.emitHead major v).flatten = Spec.Cbor.head major v := by
  sorry

theorem head_valid (major n : Nat) (hn : n < two64) : ValidHead major n (Spec.Cbor.head major n) := by
  sorry

theorem head_shortest (major n : Nat) (h : Bytes) (hv : ValidHead major n h) :
    (Spec.Cbor.head major n).length ≤ h.length := by
  sorry

/-! ### Well-formed token trees (the property's quantifier domain) -/

def tokInRange (t : Tok) : Bool :=
  (match t.body with
   | .uint n => n < two64
   | .int i => - (two63 : Int) ≤ i && i < (two63 : Int)
   | .float b => b < two64
   | .mapOpen _ | .mapClose | .arrOpen _ | .arrClose => false
   | _ => true) &&
  (match t.tag with | some g => 0 ≤ g && g < (two63 : Int) | none => true)

def keyTok (t : Tok) : Bool := keyOk .cbor t.body

mutual
  /-- Scalars are in range, keys are string/int/uint tokens, declared lengths and tags are Go ints. -/
  def WFv : TV → Bool
    | .scalar t => tokInRange t
    | .arr tag len items =>
      (match tag with | some g => 0 ≤ g && g < (two63 : Int) | none => true) && len < (two63 : Int) && WFl items
    | .map tag len es =>
      (match tag with | some g => 0 ≤ g && g < (two63 : Int) | none => true) && len < (two63 : Int) && WFe es
  def WFl : List TV → Bool
    | [] => true
    | v :: vs => WFv v && WFl vs
  def WFe : List (TV × TV) → Bool
    | [] => true
    | (k, v) :: es => (match k with | .scalar t => keyTok t | _ => false) && WFv k && WFv v && WFe es
end

/-! ### Encoder = specification -/

/-- The encoder accepts every well-formed tree, answers continue on every token but the last,
    done on the last, and the concatenation of its `Write` calls is the RFC 7049 encoding. -/
theorem enc_eq_spec (v : TV) (h : WFv v = true) :
    (runOut CborEnc.step CborEnc.init v.flatten).1 =
        List.replicate (v.flatten.length - 1) Flag.cont ++ [Flag.done] ∧
    (runOut CborEnc.step CborEnc.init v.flatten).2.flatten = Spec.Cbor.enc v := by
  sorry

/-! ### Round trip through the decoder -/

def canonTok (t : Tok) : Tok :=
  match t.body with
  | .int i => if i ≥ 0 then { t with body := .uint i.toNat } else t
  | _ => t

-- What the decoder can give back: leaves within the built-in 32 MiB per-item cap, lengths exact.
mutual
  def Supported : TV → Bool
    | .scalar t => (match t.body with | .str s => s.length ≤ 33554432 | .bytes b => b.length ≤ 33554432 | _ => true)
    | .arr _ len items => (len < 0 || len == items.length) && SupportedL items
    | .map _ len es => (len < 0 || len == es.length) && SupportedE es
  def SupportedL : List TV → Bool
    | [] => true
    | v :: vs => Supported v && SupportedL vs
  def SupportedE : List (TV × TV) → Bool
    | [] => true
    | (k, v) :: es => Supported k && Supported v && SupportedE es
end

/-- Decoding the encoder's output gives back the same tokens (non-negative signed integers come back
    unsigned), signals done exactly on the last token, and consumes exactly those bytes. -/
theorem roundtrip (v : TV) (rest : Bytes) (h : WFv v = true) (hs : Supported v = true)
    (hb : ∀ t ∈ v.flatten, ∀ b, (t.body = .str b ∨ t.body = .bytes b) → ∀ x ∈ b, x < 256) :
    let o := CborDec.decode false (Rd.ofBytes (Spec.Cbor.enc v ++ rest))
    o.toks = v.flatten.map canonTok ∧ o.res = .ok () ∧ o.rd.data = rest := by
  sorry

end Refmt.C02
