/-
  C17 (object unmarshaller), continued: the refinement of the functional model `unmV` by the stateful model, extended to
  KEYED UNIONS and to TAGGED TOKENS resolved through the atlas (the two cases C17ObjUnmarshalFull.lean leaves out).

  PROVED (same conclusion as `unmarshaller_refines_target`: any current content of the target, any dirty instance, any
  token list, only hypothesis on the run: the functional model does not panic; machine fuel 17 is enough):
    * `unmarshaller_refines_frag_union`   : every type of a set `S` with `UMachU.Closed ts a S wi` and `UntypedOkT`;
    * `unmarshaller_refines_target_union` : `FragTargetU ts a it id` (decidable; computes `S`), atlases without tags;
    * `unmarshaller_refines_target_tags`  : `FragTargetT ts a it id` (decidable), atlases WITH tagged entries.
  On top of the machines of C17ObjUnmarshalFull.lean the reachable types may select
    * the keyed union machine, anywhere (target, element of slices / arrays / maps, struct field,
      behind pointers, member of a struct that is itself a union member: recursive types are fine), whose members'
      entries are struct maps, maps with an accepted key type, or transforms (receive type not a pointer type) over a
      struct map / slice / array / map machine.  All phases: open token (length -1 / 1), key (unknown member: error;
      dangling pool index: both models panic), member value (the member's machine is configured in `slab.tip()`: the
      union machine's own row or a leaked row above), closing token.  The member's `Reset` cannot fail for these
      members (`okMember`), which is what `UnionOk` of C17ObjUnmarshalFull.lean asks (`clash_union_reset`);
    * the wildcard machine receiving a TAGGED first token: entry found (same member shapes; its machine is configured in
      `slab.tip()`, Reset and fed the same token), entry not found, interface type with methods; nested in
      `[]interface{}` / `map[string]interface{}` / ignored keys; tags on tokens for typed targets, on keys and on
      closing tokens (ignored by both models).
  NOT covered: a union member / tagged entry that is a transform over a PRIMITIVE receive type (or a bare primitive /
  union / wildcard entry).  This is not a disagreement of the models: the primitive machine of a BORROWED row reads the
  row's `anyKind` flag, which no machine ever sets, but the simulation leaves the rows above a machine's own row
  unconstrained; covering it needs the invariant "every row has `anyKind = false`" threaded through every statement.
  (Transforms over primitives as ordinary typed targets / elements / map keys stay covered, as before.)
  No new disagreement between the two models was found.

  The proof is a generalised copy of RefmtProofs/Lemmas/UnmarshalMach*.lean (namespace `Refmt.UMachU`, files
  RefmtProofs/Lemmas/UnmarshalMachUnion*.lean; new material in …Comm, …U, …Leaf, and in …Defs / Wr / Sim / SimA / SimR /
  SimW / SimBW / Wild / WildF / Main):
    * `Wr` has links for the union machine in its delegate phase (`unionS`, `unionX`: the delegate lives in
      `slab.tip()`, the union machine's own row or a row further up) and for the pointer machine above it, and an
      index saying whether a union machine is in the chain; with one, a done report of the leaf is NOT passed on
      (`finU`): the union machine records the value and waits for the closing token (`kontU`);
    * the invariant on a machine's row has three levels (`Keep`): below a chain everything the machines above still
      need (`SameCfg`, now with `union.tmp_rt` and `ptr.firstStep`), for a machine with its own row the configuration
      (`SameCfgC`), for a machine that lends its row (`slab.tip()` may be its own row, whose configuration fields the
      delegate's configuration overwrites) what the parent needs to Reset it again (`SameCfgW`: pointer wrapper, union
      members); `SimV` / `SimB` use the level `borrows M` of the selected machine;
    * the union machine Resets its delegate BEFORE it records it: `reset_uw` (UnmarshalMachUnionComm.lean) commutes the
      two, `pump_as_rtpB` brings the run into the Reset-then-pump form of the leaf lemmas, `simDelegate` runs the member
      below an arbitrary chain, `union_after_key` / `union_key_S` / `union_key_X` / `simB_union` do the phases;
    * tags: `wild_tag_S` / `wild_tag_X` (UnmarshalMachUnionSimBW.lean), `TagSim` is a hypothesis of `simB_wild`
      discharged by `tagSim_of` (Main) from `simDelegate`;
    * chains may have depth 3 (pointer, union / wildcard, transform): machine fuel 17 instead of 14.
-/
import RefmtProofs.Props.C17ObjUnmarshalFull
import RefmtProofs.Lemmas.UnmarshalMachUnionMain
open Refmt Refmt.Obj Refmt.Obj.UM

namespace Refmt.C17ObjUnmarshal

/-- the machines of the tagged atlas entries are covered: struct map, map (key type accepted), transform (receive type
    not a pointer type) over struct map / slice / array / map; their element types are in `S` -/
def TagsOk (ts : Types) (a : Atlas) (S : List Nat) (wi : Option Nat) : Prop :=
  ∀ e ∈ a.pool, e.tag ≠ none → UMachU.okMember ts a S wi (upickBare ts a e.ty)

instance (ts : Types) (a : Atlas) (S : List Nat) (wi : Option Nat) : Decidable (TagsOk ts a S wi) := by
  unfold TagsOk; infer_instance

theorem NoTags.tagsOk {ts : Types} {a : Atlas} {S : List Nat} {wi : Option Nat} (h : NoTags a) : TagsOk ts a S wi :=
  fun e he hne => absurd (h e he) hne

/-- the side condition for untyped slots (needed only when the closed set asks for them, `wi ≠ none`): `wi` names
    `interface{}`, the untyped-slot type ids denote what they should (`ItOk`), the tagged entries are covered -/
def UntypedOkT (ts : Types) (a : Atlas) (it : IfaceTys) (S : List Nat) (wi : Option Nat) : Prop :=
  wi = none ∨ (wi = some it.iface ∧ ItOk ts a it ∧ TagsOk ts a S (some it.iface))

theorem wildHyp_ofT {ts : Types} {a : Atlas} {it : IfaceTys} {S : List Nat} {wi : Option Nat}
    (h : UntypedOkT ts a it S wi) (hw : UMachU.wildIn S wi) : UMachU.WildHyp ts a it S := by
  rcases h with rfl | ⟨rfl, ⟨h1, h2, h3, h4, ⟨b, h5⟩, _, _⟩, hnt⟩
  · exact hw.elim
  · refine ⟨h3, h4, ?_, hw, ?_, ?_, ?_, ?_⟩
    · simp [keyFnOfU, h5]
    · simp [peel, h1]
    · simp [upickBare, h1, h2]
    · simp [hasMethods, h1]
    · intro g e hg
      have hm := List.mem_of_find?_eq_some hg
      have hp := List.find?_some hg
      refine hnt e hm ?_
      intro hn
      simp [hn] at hp

/-- the refinement for every type of a closed set `S` of covered types, keyed unions and tagged entries included
    (`UMachU.Closed`, `UntypedOkT`: decidable): any current content of the target, any dirty instance, any token list,
    machine fuel 17 -/
theorem unmarshaller_refines_frag_union (ts : Types) (a : Atlas) (trs : Trs) (it : IfaceTys) (S : List Nat)
    (wi : Option Nat) (hS : UMachU.Closed ts a S wi) (hU : UntypedOkT ts a it S wi) (id : Nat) (hid : id ∈ S)
    (fuel : Nat) (cur : Val) (toks : List Tok) (hnp : NoPanic (unmV ts a trs it fuel id cur toks)) :
    ∃ N, ∀ sf, N ≤ sf → ∀ dirty : UState,
      urun ts a trs it sf (UM.bind ts a sf dirty id cur) toks = unmV ts a trs it fuel id cur toks :=
  ⟨17, fun sf hsf dirty => UMachU.refines_closed hS (wildHyp_ofT hU) hid fuel cur toks hnp sf hsf dirty⟩

/-! ### The class as a decidable predicate on (ts, a, it, id): the closed set is computed -/

/-- the element types of a container / struct-map machine -/
def subKids (it : IfaceTys) : UMach → List Nat
  | .slice e | .array _ e | .map _ e => [e]
  | .structMap fs => fs.map fun f => if f.ignore then it.iface else f.ty
  | _ => []

/-- the same through a transform -/
def memKids (ts : Types) (a : Atlas) (it : IfaceTys) : UMach → List Nat
  | .transform _ uty => subKids it (upickBare ts a uty)
  | M => subKids it M

/-- the types the machine selected for `id` requisitions machines for: for a union those of its members' machines, for
    an untyped slot also those of the machines of the tagged entries -/
def kidsU (ts : Types) (a : Atlas) (it : IfaceTys) (id : Nat) : List Nat :=
  match upickBare ts a (peel ts 64 0 id).2 with
  | .union ms => ms.flatMap fun m =>
      (match a.pool[m.2]? with
       | some me => memKids ts a it (umachForEntry ts me)
       | none => [])
  | .wildcard => it.iface :: (a.pool.filter fun e => e.tag.isSome).flatMap fun e => memKids ts a it (upickBare ts a e.ty)
  | M => memKids ts a it M

def reachU (ts : Types) (a : Atlas) (it : IfaceTys) : Nat → List Nat → List Nat
  | 0, S => S
  | n+1, S => reachU ts a it n ((S ++ S.flatMap (kidsU ts a it)).eraseDups)

/-- `id` is a covered target, keyed unions and tagged entries allowed: the types reachable from it select covered
    machines only (`UMachU.okMach`); when untyped slots or ignored keys are among them, the untyped-slot ids are right
    and the tagged entries' machines are covered (`TagsOk`) -/
def FragTargetT (ts : Types) (a : Atlas) (it : IfaceTys) (id : Nat) : Prop :=
  id ∈ reachU ts a it (ts.length + 1) [id] ∧
  (UMachU.Closed ts a (reachU ts a it (ts.length + 1) [id]) none ∨
   (UMachU.Closed ts a (reachU ts a it (ts.length + 1) [id]) (some it.iface) ∧ ItOk ts a it ∧
     TagsOk ts a (reachU ts a it (ts.length + 1) [id]) (some it.iface)))

instance (ts : Types) (a : Atlas) (it : IfaceTys) (id : Nat) : Decidable (FragTargetT ts a it id) := by
  unfold FragTargetT; infer_instance

/-- the same for atlases without tagged entries (keyed unions allowed) -/
def FragTargetU (ts : Types) (a : Atlas) (it : IfaceTys) (id : Nat) : Prop :=
  id ∈ reachU ts a it (ts.length + 1) [id] ∧
  (UMachU.Closed ts a (reachU ts a it (ts.length + 1) [id]) none ∨
   (UMachU.Closed ts a (reachU ts a it (ts.length + 1) [id]) (some it.iface) ∧ ItOk ts a it ∧ NoTags a))

instance (ts : Types) (a : Atlas) (it : IfaceTys) (id : Nat) : Decidable (FragTargetU ts a it id) := by
  unfold FragTargetU; infer_instance

theorem FragTargetU.toT {ts : Types} {a : Atlas} {it : IfaceTys} {id : Nat} (h : FragTargetU ts a it id) :
    FragTargetT ts a it id := by
  obtain ⟨h1, h2 | ⟨h2, h3, h4⟩⟩ := h
  · exact ⟨h1, Or.inl h2⟩
  · exact ⟨h1, Or.inr ⟨h2, h3, h4.tagsOk⟩⟩

/-- the corrected statement of C17ObjUnmarshal.lean for covered targets WITH tagged atlas entries (and keyed unions, and
    any current content of the target).  Tag situations, all covered:
      * a tagged first token of a value in an untyped slot (also nested in `[]interface{}` / `map[string]interface{}`,
        an ignored struct key, a struct field of type `interface{}`): entry found (its machine is configured in
        `slab.tip()`, Reset, and given the same token: `wild_tag_S` / `wild_tag_X`), entry not found (error), slot of an
        interface type with methods (error, as in the functional model);
      * a tag on a token for a typed target (scalar, open token of a slice / array / map / struct, union open / key /
        member tokens), on a close token or on a key: both models look at `t.body` only. -/
theorem unmarshaller_refines_target_tags (ts : Types) (a : Atlas) (trs : Trs) (it : IfaceTys) (id : Nat)
    (h : FragTargetT ts a it id) (fuel : Nat) (cur : Val) (toks : List Tok)
    (hnp : NoPanic (unmV ts a trs it fuel id cur toks)) :
    ∃ N, ∀ sf, N ≤ sf → ∀ dirty : UState,
      urun ts a trs it sf (UM.bind ts a sf dirty id cur) toks = unmV ts a trs it fuel id cur toks := by
  obtain ⟨hid, h | ⟨hc, hi, hn⟩⟩ := h
  · exact unmarshaller_refines_frag_union ts a trs it _ none h (Or.inl rfl) id hid fuel cur toks hnp
  · exact unmarshaller_refines_frag_union ts a trs it _ (some it.iface) hc (Or.inr ⟨rfl, hi, hn⟩) id hid fuel cur toks hnp

/-- the corrected statement of C17ObjUnmarshal.lean for covered targets with keyed unions (members: struct map, map
    with an accepted key type, transform over struct map / slice / array / map; the union type anywhere: element of
    slices / arrays / maps, struct field, behind pointers).  `UnionOk` is not a separate hypothesis: `FragTargetU` asks
    of the members it meets what `UnionOk` asks of all (`okMember`: the member's `Reset` cannot fail). -/
theorem unmarshaller_refines_target_union (ts : Types) (a : Atlas) (trs : Trs) (it : IfaceTys) (id : Nat)
    (h : FragTargetU ts a it id) (fuel : Nat) (cur : Val) (toks : List Tok)
    (hnp : NoPanic (unmV ts a trs it fuel id cur toks)) :
    ∃ N, ∀ sf, N ≤ sf → ∀ dirty : UState,
      urun ts a trs it sf (UM.bind ts a sf dirty id cur) toks = unmV ts a trs it fuel id cur toks :=
  unmarshaller_refines_target_tags ts a trs it id h.toT fuel cur toks hnp

/-! ### Non-vacuity: a zoo with a keyed union (anywhere), tagged entries and untyped slots

0 string, 1 int, 2 map[string]int, 3 struct S{A map[string]int; B []int; U Shape; X interface{}} (recursive through
Shape), 4 interface{}, 5 []int, 7 map[string]interface{}, 8 []interface{}, 20 interface Shape = union {m: type 2, s: S,
v: V}, 22 []Shape, 23 *Shape, 24 map[string]*Shape, 30 struct V made from []int by transform 0, 31 struct P{N int}
(tag 7), 32 struct W made from map[string]int by transform 1 (tag 9) -/
def vTs : Types :=
  [(0, .prim .string true), (1, .prim .int true), (2, .map 0 1),
   (3, .struct [⟨[65], 2, true, false, none⟩, ⟨[66], 5, true, false, none⟩, ⟨[85], 20, true, false, none⟩,
     ⟨[88], 4, true, false, none⟩]),
   (4, .iface false), (5, .slice 1), (7, .map 0 4), (8, .slice 4), (20, .iface true), (22, .slice 20), (23, .ptr 20),
   (24, .map 0 23), (30, .struct [⟨[86], 5, true, false, none⟩]), (31, .struct [⟨[78], 1, true, false, none⟩]),
   (32, .struct [⟨[87], 2, true, false, none⟩])]
def vAtlas : Atlas :=
  ⟨[⟨true, 3, none, .structMap [⟨[97], false, [0], 2, false⟩, ⟨[98], false, [1], 5, false⟩,
      ⟨[117], false, [2], 20, false⟩, ⟨[120], false, [3], 4, false⟩, ⟨[122], true, [], 0, false⟩]⟩,
    ⟨true, 2, none, .mapMorph .default⟩,
    ⟨true, 30, none, .transform 0 0 5⟩,
    ⟨true, 20, none, .union [([109], 1), ([115], 0), ([118], 2)]⟩,
    ⟨true, 31, some 7, .structMap [⟨[110], false, [0], 1, false⟩]⟩,
    ⟨true, 32, some 9, .transform 1 1 2⟩], .default⟩
def vIt : IfaceTys := ⟨0, 0, 0, 1, 1, 1, 7, 8, 4⟩
def vTrs : Trs := ⟨fun _ _ => none, fun _ v => match v with
  | .slice (some (.int 13 :: _)) => none
  | x => some (.struct [x])⟩

/-- the predicate decides: every type of the zoo is a covered target -/
example : ([0, 1, 2, 3, 4, 5, 7, 8, 20, 22, 23, 24, 30, 31, 32].all fun id => decide (FragTargetT vTs vAtlas vIt id)) = true := by
  decide +kernel

/-- without the tagged entries also for `FragTargetU` -/
def vAtlas0 : Atlas := ⟨vAtlas.pool.take 4, .default⟩
example : ([3, 20, 22, 23, 24].all fun id => decide (FragTargetU vTs vAtlas0 vIt id)) = true := by decide +kernel

/-- `[{"m": {"k": 1}}, {"s": {"a": {"q": 2}, "b": [3], "u": {"v": [4, 5]}, "x": 7({"n": 6}), "z": [null]}}]` into
    `[]Shape`: a map member, a struct member holding a nested union (transform member) and a TAGGED struct in an untyped
    slot, an ignored key -/
def vToks : List Tok :=
  [tk (.arrOpen 2),
   tk (.mapOpen 1), tk (.str [109]), tk (.mapOpen 1), tk (.str [107]), tk (.int 1), tk .mapClose, tk .mapClose,
   tk (.mapOpen 1), tk (.str [115]), tk (.mapOpen 5), tk (.str [97]), tk (.mapOpen 1), tk (.str [113]), tk (.int 2),
   tk .mapClose, tk (.str [98]), tk (.arrOpen 1), tk (.int 3), tk .arrClose, tk (.str [117]), tk (.mapOpen 1),
   tk (.str [118]), tk (.arrOpen 2), tk (.int 4), tk (.int 5), tk .arrClose, tk .mapClose, tk (.str [120]),
   ⟨.mapOpen 1, some 7⟩, tk (.str [110]), tk (.int 6), tk .mapClose, tk (.str [122]), tk (.arrOpen 1), tk .null,
   tk .arrClose, tk .mapClose, tk .mapClose,
   tk .arrClose]

def vBoth (id : Nat) (toks : List Tok) : URes × URes :=
  (urun vTs vAtlas vTrs vIt 20 (UM.bind vTs vAtlas 20 dirty id (zeroVal vTs 64 id)) toks,
   unmV vTs vAtlas vTrs vIt 60 id (zeroVal vTs 64 id) toks)

example : sameRes (vBoth 22 vToks).1 (vBoth 22 vToks).2 = true := by decide +kernel
example : (match (vBoth 22 vToks).2 with | .ok _ r u => (r.length, u) | _ => (9, 9)) = (0, 40) := by decide +kernel

/-- every prefix; the user function refusing (`{"v": [13]}`); an unknown member; two keys; a wrong close; a tagged
    transform entry in an untyped slot (`9({"k": 1})` into `interface{}` and into `[]interface{}`); a tag that is not
    registered; a tag on a typed target, on a key, on a close token -/
example : (((List.range 41).map fun n => (22, vToks.take n)) ++
      [(20, [tk (.mapOpen 1), tk (.str [118]), tk (.arrOpen 1), tk (.int 13), tk .arrClose, tk .mapClose]),
       (20, [tk (.mapOpen 1), tk (.str [119])]), (20, [tk (.mapOpen 2)]),
       (23, [tk (.mapOpen 1), tk (.str [109]), tk (.mapOpen 0), tk .mapClose, tk (.str [109])]),
       (23, [tk .null]), (24, [tk (.mapOpen 1), tk (.str [65]), tk (.mapOpen 1), tk (.str [109]), tk .null, tk .mapClose,
         tk .mapClose]),
       (4, [⟨.mapOpen 1, some 9⟩, tk (.str [107]), tk (.int 1), tk .mapClose]),
       (8, [tk (.arrOpen 2), ⟨.mapOpen 1, some 9⟩, tk (.str [107]), tk (.int 1), tk .mapClose, ⟨.mapOpen 0, some 7⟩,
         tk .mapClose, tk .arrClose]),
       (4, [⟨.int 1, some 5⟩]), (1, [⟨.int 1, some 7⟩]),
       (2, [⟨.mapOpen 1, some 7⟩, ⟨.str [107], some 9⟩, ⟨.int 1, some 5⟩, ⟨.mapClose, some 7⟩])]).all
      (fun p => sameRes (vBoth p.1 p.2).1 (vBoth p.1 p.2).2) = true := by decide +kernel

def vS : List Nat := [0, 1, 2, 3, 4, 5, 7, 8, 20, 22, 23, 24]
theorem vS_closed : UMachU.Closed vTs vAtlas vS (some 4) := by decide +kernel
theorem v_untypedOk : UntypedOkT vTs vAtlas vIt vS (some 4) :=
  Or.inr ⟨rfl, ⟨by decide +kernel, by decide +kernel, by decide +kernel, by decide +kernel, ⟨true, by decide +kernel⟩,
    by decide +kernel, by decide +kernel⟩, by decide +kernel⟩

/-- the theorem applied: from the dirty instance of C17ObjUnmarshal.lean, every machine fuel ≥ 17 -/
example (sf : Nat) (h : 17 ≤ sf) :
    urun vTs vAtlas vTrs vIt sf (UM.bind vTs vAtlas sf dirty 22 (zeroVal vTs 64 22)) vToks
      = unmV vTs vAtlas vTrs vIt 60 22 (zeroVal vTs 64 22) vToks :=
  UMachU.refines_closed vS_closed (wildHyp_ofT v_untypedOk) (by decide) 60 _ vToks (NoPanic_of _ (by decide +kernel)) sf h
    dirty

/-- the zoos of C17ObjUnmarshalFull.lean stay covered (transforms over primitives as ordinary targets included);
    the union zoo of C17ObjUnmarshal.lean is NOT: its member `t` and its tagged entry are transforms over a primitive
    receive type (see the header) -/
example : (exS.all fun id => decide (FragTargetT exTs exAtlas exIt id)) = true := by decide +kernel
example : (fS.all fun id => decide (FragTargetT fTs fAtlas exIt id)) = true := by decide +kernel
example : ([10, 20, 21, 22, 23].all fun id => decide (FragTargetT tTs tAtlas exIt id)) = true := by decide +kernel
example : ¬ FragTargetT uxTs uxAtlas uxIt 22 ∧ ¬ FragTargetT uxTs uxAtlas uxIt 20 := by decide +kernel
/-- the counterexamples of C17ObjUnmarshalFull.lean stay outside -/
example : ¬ FragTargetT pTs pAtlas pIt 100 ∧ ¬ FragTargetT qTs qAtlas qIt 3 ∧ ¬ FragTargetT cxTs cxAtlas exIt 11 ∧
    ¬ FragTargetT cxTs cxAtlas exIt 14 := by decide +kernel

end Refmt.C17ObjUnmarshal

#print axioms Refmt.C17ObjUnmarshal.unmarshaller_refines_frag_union
#print axioms Refmt.C17ObjUnmarshal.unmarshaller_refines_target_union
#print axioms Refmt.C17ObjUnmarshal.unmarshaller_refines_target_tags
