/-
  C03, semantic part: the number read back from the JSON text of a finite float IS the float that was written.

    * `FloatL.roundRat_spec`      (Lemmas/FloatRound) : `roundRat` rounds every rational of the rounding interval of a
                                                         finite positive binary64 value to that value;
    * `FloatL.shortest_roundtrip` (Lemmas/FloatFuel)  : the digits `shortest` picks parse back to the magnitude
                                                         (no hypothesis on the fuel of `shortestAux`: `inside20`);
    * here: `numTok (jsonFloat x)` is `.float x`, or - for an integral value below `2^63` written in plain digits -
      the `.int i` with `float64(i) = x` whose decimal text is that text; hence `C01L.rereadOk x` and
      `C12.floatStable x` hold for every finite `x` other than `-0` (whose text `-0` is read as the integer `0`:
      both predicates are `false` at `2^63`, see `rereadOk_negZero`, `floatStable_negZero`).
-/
import RefmtProofs.Lemmas.FloatFuel
import RefmtProofs.Lemmas.FloatTokSem
import RefmtProofs.Lemmas.UnmRetype
import RefmtProofs.Props.C12
import RefmtProofs.Props.C01
set_option linter.unusedSimpArgs false
set_option linter.unusedVariables false
namespace Refmt.C03Sem
open Refmt Refmt.FloatText Refmt.JsonDec Refmt.C03L Refmt.FloatL

/-- a digit string with a non-zero leading digit is the decimal expansion of its value -/
theorem natDigits_digitsVal (b : Nat) (hb : 49 ≤ b ∧ b ≤ 57) : ∀ (n : Nat) (r : Bytes), r.length = n → Digs r →
    natDigits (digitsVal (b :: r)) = b :: r ∧ 1 ≤ digitsVal (b :: r)
  | 0, r, hn, _ => by
    have : r = [] := List.length_eq_zero_iff.1 hn
    subst this
    have hv : digitsVal [b] = b - 48 := by simp [digitsVal]
    rw [hv, natDigits_lt _ (by omega)]
    refine ⟨?_, by omega⟩
    congr 1; omega
  | n+1, r, hn, hd => by
    rcases List.eq_nil_or_concat r with rfl | ⟨r', z, rfl⟩
    · simp at hn
    · simp only [List.concat_eq_append] at hn hd ⊢
      have hlen : r'.length = n := by simpa using hn
      obtain ⟨ih1, ih2⟩ := natDigits_digitsVal b hb n r' hlen hd.left
      have hz := isDigit_iff.1 (hd.right z (by simp))
      rw [← List.cons_append, digitsVal_snoc]
      generalize digitsVal (b :: r') = V at *
      have hge : ¬ V * 10 + (z - 48) < 10 := by omega
      rw [natDigits_ge _ hge]
      have e1 : (V * 10 + (z - 48)) / 10 = V := by omega
      have e2 : 48 + (V * 10 + (z - 48)) % 10 = z := by omega
      rw [e1, e2, ih1]
      exact ⟨rfl, by omega⟩

theorem floatRes_ok (neg : Bool) (abs : Nat) :
    floatRes neg (abs, false) = .ok (.float (if neg then abs + 9223372036854775808 else abs)) := rfl

/-- `x` from its magnitude and sign bit -/
theorem bits_split (x : Nat) (hx : x < two64) :
    (if decide (x ≥ 9223372036854775808) = true then x % 9223372036854775808 + 9223372036854775808
      else x % 9223372036854775808) = x := by
  unfold two64 at hx
  by_cases h : x ≥ 9223372036854775808
  · simp only [h, decide_true, if_true]; omega
  · simp only [h, decide_false, Bool.false_eq_true, if_false]; omega

theorem finite_abs (x : Nat) (hx : x < two64) (hfin : floatNonFinite x = false) :
    (x % 9223372036854775808) / p52 < 2047 := by
  unfold floatNonFinite at hfin
  simp only [beq_eq_false_iff_ne, ne_eq] at hfin
  unfold two64 at hx
  unfold p52
  omega

/-- **The token read back from the text of a finite non-zero float**: the float itself, or (plain digits, value
    below `2^63`) the integer whose conversion to float64 is the float and whose decimal text is the text. -/
theorem numTok_jsonFloat_nz (x : Nat) (hx : x < two64) (hfin : floatNonFinite x = false)
    (h0 : x % 9223372036854775808 ≠ 0) :
    numTok (jsonFloat x) = .ok (.float x) ∨
      ∃ i : Int, numTok (jsonFloat x) = .ok (.int i) ∧ intToF64 i = x ∧ intDigits i = jsonFloat x := by
  have hfa := finite_abs x hx hfin
  have hfin' : ((x % 9223372036854775808) / p52) % 2048 ≠ 2047 := by
    have := hfa
    unfold p52 at this ⊢
    omega
  have hrt := shortest_roundtrip x h0 hfa
  obtain ⟨hd, hl, hv, hv2⟩ := shortest_sem x hfin'
  have hsplit := bits_split x hx
  rw [jsonFloat_eq]
  generalize (shortest x).1 = ds at *
  generalize (shortest x).2 = dp at *
  split
  · left
    obtain ⟨f, r, rfl⟩ : ∃ f r, ds = f :: r := by
      cases ds with
      | nil => exact absurd rfl hl.ne_nil
      | cons f r => exact ⟨f, r, rfl⟩
    rw [fmtE_tok _ f r dp hd, hrt, floatRes_ok, hsplit]
  · rename_i hu
    have hex : x % 9223372036854775808 / p52 ≤ 1085 := by
      unfold p52
      simp only [Bool.and_eq_true, bne_iff_ne, ne_eq, Bool.or_eq_true, decide_eq_true_eq, not_and, not_or] at hu
      have := (hu h0).2
      omega
    by_cases hfr : dp ≤ 0 ∨ dp.toNat < ds.length
    · left
      rw [fmtF_tok_frac _ ds dp hd hl hfr, hrt, floatRes_ok, hsplit]
    · right
      have h1 : 0 < dp := by omega
      have h2 : dp.toNat ≥ ds.length := by omega
      have hVlt : digitsVal ds * 10 ^ (dp.toNat - ds.length) < two63 := by
        have h3 := hv2 hex (dp.toNat - ds.length) 0 (by omega)
        simp only [Nat.pow_zero, Nat.mul_one] at h3
        exact Nat.lt_trans h3 KHI_two63
      obtain ⟨hF, hT⟩ := fmtF_tok_int (decide (x ≥ 9223372036854775808)) ds dp hd hl.ne_nil h1 h2 hVlt
      -- the integer read is the magnitude, exactly
      have hrr : roundRat (digitsVal ds * 10 ^ (dp.toNat - ds.length)) 1 = (x % 9223372036854775808, false) ∧
          digitsVal ds ≠ 0 := by
        unfold parseDecimal at hrt
        by_cases hd0 : digitsVal ds = 0
        · rw [if_pos hd0] at hrt
          have := congrArg Prod.fst hrt
          simp only at this
          exact absurd this.symm h0
        · rw [if_neg hd0, if_pos (by omega)] at hrt
          by_cases h400 : dp - (ds.length : Int) > 400
          · rw [if_pos h400] at hrt
            simp at hrt
          · rw [if_neg h400] at hrt
            have : (dp - (ds.length : Int)).toNat = dp.toNat - ds.length := by omega
            rw [this] at hrt
            exact ⟨hrt, hd0⟩
      obtain ⟨hrr, hd0⟩ := hrr
      have hVpos : 0 < digitsVal ds * 10 ^ (dp.toNat - ds.length) :=
        Nat.mul_pos (Nat.pos_of_ne_zero hd0) (Nat.pow_pos (by decide))
      -- the text is the decimal expansion of that integer
      have hnd : natDigits (digitsVal ds * 10 ^ (dp.toNat - ds.length)) =
          ds ++ List.replicate (dp.toNat - ds.length) 48 := by
        rcases hl with ⟨h, _⟩ | ⟨b, r, rfl, hb⟩
        · subst h; simp [digitsVal] at hd0
        · rw [← digitsVal_zeros, List.cons_append]
          exact (natDigits_digitsVal b hb _ _ rfl (hd.tail.append (Digs.zeros _))).1
      generalize digitsVal ds * 10 ^ (dp.toNat - ds.length) = V at *
      refine ⟨_, hT, ?_, ?_⟩
      · unfold intToF64
        by_cases hneg : x ≥ 9223372036854775808
        · simp only [hneg, decide_true, if_true] at hsplit ⊢
          have : ¬ (-(V : Int) ≥ 0) := by omega
          rw [if_neg this]
          have : (- -(V : Int)).toNat = V := by omega
          rw [this, hrr]
          omega
        · simp only [hneg, decide_false, Bool.false_eq_true, if_false] at hsplit ⊢
          have : ((V : Int) ≥ 0) := by omega
          rw [if_pos this]
          have : ((V : Int)).toNat = V := by omega
          rw [this, hrr]
          exact hsplit
      · rw [hF]
        unfold intDigits
        by_cases hneg : x ≥ 9223372036854775808
        · simp only [hneg, decide_true, if_true]
          have : (-(V : Int) < 0) := by omega
          rw [if_pos this]
          have : (- -(V : Int)).toNat = V := by omega
          rw [this, hnd]
          rfl
        · simp only [hneg, decide_false, Bool.false_eq_true, if_false]
          have : ¬ ((V : Int) < 0) := by omega
          rw [if_neg this]
          have : ((V : Int)).toNat = V := by omega
          rw [this, hnd]
          rfl

end Refmt.C03Sem

namespace Refmt.C03Sem
open Refmt Refmt.FloatText Refmt.JsonDec Refmt.C03L Refmt.FloatL

/-! ### the two zeros -/

theorem jsonFloat_zero : jsonFloat 0 = [48] := by
  have hs : shortest 0 = ([48], 1) := by unfold shortest; simp
  rw [jsonFloat_eq, hs]
  simp [fmtF]

theorem jsonFloat_negZero : jsonFloat 9223372036854775808 = [45, 48] := by
  have hs : shortest 9223372036854775808 = ([48], 1) := by unfold shortest; simp
  rw [jsonFloat_eq, hs]
  simp [fmtF]

theorem numTok_zero : numTok [48] = .ok (.int 0) := by
  have h := numTok_signed false 48 [] (by decide)
  simp only [Bool.false_eq_true, if_false, List.nil_append] at h
  rw [h, numTokCore_int_eq false [48] (Digs.cons (by decide) Digs.nil) (by decide)]
  rfl

theorem numTok_negZero : numTok [45, 48] = .ok (.int 0) := by
  have h := numTok_signed true 48 [] (by decide)
  simp only [if_true, List.singleton_append] at h
  rw [h, numTokCore_int_eq true [48] (Digs.cons (by decide) Digs.nil) (by decide)]
  rfl

theorem intToF64_zero : intToF64 0 = 0 := by
  simp [intToF64, roundRat]

theorem abs_zero_cases (x : Nat) (hx : x < two64) (h0 : x % 9223372036854775808 = 0) :
    x = 0 ∨ x = 9223372036854775808 := by
  unfold two64 at hx; omega

/-- what a float is read back as: itself, except that `-0` is read as `+0` -/
def readBack (x : Nat) : Nat := if x = 9223372036854775808 then 0 else x

/-- the token `b` denotes the float `x` (`-0` read as `+0`) -/
def ReadsAs (x : Nat) : Body → Prop
  | .float y => y = x
  | .int i => intToF64 i = readBack x
  | .uint n => intToF64 (n : Int) = readBack x
  | _ => False

/-- **C03, semantic round trip at the token level.**  Whatever `numTok` makes of the text written for a finite
    float `x` denotes `x` (`-0` is read as the integer `0`). -/
theorem numTok_jsonFloat (x : Nat) (hx : x < two64) (hfin : floatNonFinite x = false) (b : Body)
    (h : numTok (jsonFloat x) = .ok b) : ReadsAs x b := by
  by_cases h0 : x % 9223372036854775808 = 0
  · rcases abs_zero_cases x hx h0 with rfl | rfl
    · rw [jsonFloat_zero, numTok_zero] at h
      cases h
      exact intToF64_zero
    · rw [jsonFloat_negZero, numTok_negZero] at h
      cases h
      exact intToF64_zero
  · have hne : x ≠ 9223372036854775808 := by intro hc; subst hc; exact h0 (by decide)
    rcases numTok_jsonFloat_nz x hx hfin h0 with h1 | ⟨i, h1, h2, _⟩
    · rw [h1] at h; cases h; exact rfl
    · rw [h1] at h; cases h
      show intToF64 i = readBack x
      simp only [readBack, hne, if_false]
      exact h2

/-- the text of a finite float is never typed as `.uint` -/
theorem numTok_jsonFloat_kinds (x : Nat) (hx : x < two64) (hfin : floatNonFinite x = false) :
    numTok (jsonFloat x) = .ok (.float x) ∨
      ∃ i : Int, numTok (jsonFloat x) = .ok (.int i) ∧ intToF64 i = readBack x := by
  by_cases h0 : x % 9223372036854775808 = 0
  · rcases abs_zero_cases x hx h0 with rfl | rfl
    · exact Or.inr ⟨0, by rw [jsonFloat_zero, numTok_zero], intToF64_zero⟩
    · exact Or.inr ⟨0, by rw [jsonFloat_negZero, numTok_negZero], intToF64_zero⟩
  · have hne : x ≠ 9223372036854775808 := by intro hc; subst hc; exact h0 (by decide)
    rcases numTok_jsonFloat_nz x hx hfin h0 with h1 | ⟨i, h1, h2, _⟩
    · exact Or.inl h1
    · exact Or.inr ⟨i, h1, by simp only [readBack, hne, if_false]; exact h2⟩

/-! ### the decidable side conditions of C01 / C12 hold for every finite float but `-0` -/

theorem rereadOk_finite (x : Nat) (hx : x < two64) (hfin : floatNonFinite x = false)
    (hnz : x ≠ 9223372036854775808) : C01L.rereadOk x = true := by
  unfold C01L.rereadOk
  rcases numTok_jsonFloat_kinds x hx hfin with h | ⟨i, h, hi⟩
  · rw [h]; simp
  · rw [h]
    simp only [readBack, hnz, if_false] at hi
    simp [hi]

theorem floatStable_finite (x : Nat) (hx : x < two64) (hfin : floatNonFinite x = false)
    (hnz : x ≠ 9223372036854775808) : C12.floatStable x = true := by
  unfold C12.floatStable
  by_cases h0 : x % 9223372036854775808 = 0
  · rcases abs_zero_cases x hx h0 with rfl | rfl
    · rw [jsonFloat_zero, numTok_zero]
      simp [scalarTxt, intDigits, natDigits_lt]
    · exact absurd rfl hnz
  · rcases numTok_jsonFloat_nz x hx hfin h0 with h | ⟨i, h, _, hi⟩
    · rw [h]
      simp [scalarTxt, hx, hfin]
    · rw [h]
      simp [scalarTxt, hi]

/-- `-0` is the one finite float for which both fail: its text `-0` is read as the integer `0` -/
theorem rereadOk_negZero : C01L.rereadOk 9223372036854775808 = false := by
  unfold C01L.rereadOk
  rw [jsonFloat_negZero, numTok_negZero]
  simp [intToF64_zero]

theorem floatStable_negZero : C12.floatStable 9223372036854775808 = false := by
  unfold C12.floatStable
  rw [jsonFloat_negZero, numTok_negZero]
  simp [scalarTxt, intDigits, natDigits_lt]

/-- `C01L.plainOk` / the float clause of `C12.jsonU` for every finite float other than `-0` -/
theorem plainOk_float (x : Nat) (tag : Option Int) (hx : x < two64) (hfin : floatNonFinite x = false)
    (hnz : x ≠ 9223372036854775808) : C01L.plainOk ⟨.float x, tag⟩ = true := by
  unfold C01L.plainOk
  simp [hnz, rereadOk_finite x hx hfin hnz]

/-- the float clause of `C01.plainJson` holds for every finite float other than `-0` -/
theorem plainJson_float (x : Nat) (tag : Option Int) (hx : x < two64) (hfin : floatNonFinite x = false)
    (hnz : x ≠ 9223372036854775808) : C01.plainJson ⟨.float x, tag⟩ = true := by
  unfold C01.plainJson
  simp [hnz, rereadOk_finite x hx hfin hnz]

/-- the float clause of `C12.jsonU` is just "finite and not `-0`" -/
theorem jsonU_float_clause (x : Nat) (hx : x < two64) (hfin : floatNonFinite x = false)
    (hnz : x ≠ 9223372036854775808) :
    ((C03L.floatOk x && !floatNonFinite x) && x != 9223372036854775808 && C12.floatStable x) = true := by
  simp [FloatL.floatOk_finite x hfin, hfin, hnz, floatStable_finite x hx hfin hnz]

end Refmt.C03Sem
