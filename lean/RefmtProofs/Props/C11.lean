/-
  C11 — Clone produces an equal and fully independent deep copy.

  refmt.Clone is an object marshaller pumped straight into an object unmarshaller (cloneHelpers.go): in the model,
  `clone` below.  Two things are claimed by the property:

  (1) Equality: the destination equals the source "up to what the token stream cannot carry" — the specified value
      `normV .pretty`.  `clone_equal_plain` (from C13's completeness theorems) gives this for every plain type;
      `norm_plain_id` shows that on plain types without pointers the specified value IS the source value, and
      `norm_plain_ptr` pins the one difference pointers add (a non-nil pointer to something that serializes as null
      comes back nil).  `clone_equal_struct_*` extend completeness to struct-map entries (see below).
  (2) Independence: no storage is shared between source and destination.  Model values are immutable mathematical
      values: sharing cannot be expressed, so this half is NOT provable in the model.  It is decided by the
      correspondence stream `clone`, whose oracle mutates every reachable byte / element / entry / pointee of the copy
      and of the source in the real Go values and looks for the change on the other side (DESIGN.md).

  `source_unchanged` is definitional in the model (marshalV is a function of the value); the oracle checks it on the
  real code.

  Status:
  * proved as stated: `clone_equal_plain`, `norm_plain_id` (`norm_plain_id_aux`: neither `hasTy` nor the fuel bound is
    needed), `clone_equal_plain_noptr`, `norm_plain_ptr`.
  * `clone_equal_struct` is false as stated (`clone_equal_struct_statement`, `clone_equal_struct_false`): `ValEqv` has
    no congruence for struct fields, so a map inside a struct field that comes back in key order is not related to
    the original; moreover `distinctKeys` does not look inside struct fields.  `clone_equal_struct_fixed` is the
    corrected theorem for the whole of `structTy` (nested structs, `omitEmpty` fields, structs inside slices / maps /
    pointers): conclusion up to `ValEqv'` (= `ValEqv` + struct congruence), hypothesis `distinctKeys'` (descends into
    struct fields), and the fuel side condition `ZeroStable ts` (`zeroStable_of_check`: decidable criterion).
    `clone_equal_struct_rt` is the exact result (`rtV'`), `clone_equal_struct_sorted` exact equality with `normV` for
    values whose maps are listed in key order.  Machinery: RefmtProofs/Lemmas/ObjStructRT.lean and the `RTS`
    induction below (C13's `RT` over `structTy`, plus `marshalFields` against `unmStruct`).
-/
import RefmtModel
import RefmtProofs.Props.C13
import RefmtProofs.Lemmas.ObjStructRT
set_option linter.unusedSimpArgs false
set_option linter.unusedVariables false
namespace Refmt.C11
open Refmt Refmt.Obj Refmt.C13

/-- refmt.CloneAtlased in the model -/
def clone (ts : Types) (a : Atlas) (trs : Trs) (it : IfaceTys) (fuel id : Nat) (v : Val) : Option Val :=
  let mo := marshalV ts a trs fuel id v
  match mo.fail with
  | some _ => none
  | none =>
    (match unmV ts a trs it fuel id (zeroVal ts 64 id) mo.toks with
     | .ok r [] _ => some r
     | _ => none)

theorem clone_equal_plain (ts : Types) (a : Atlas) (trs : Trs) (it : IfaceTys) (fuel id : Nat) (v : Val)
    (hp : plainTy ts a 64 id = true) (hv : hasTy ts 1000 id v = true) (hkeys : distinctKeys 1000 v)
    (hok : (marshalV ts a trs fuel id v).fail = none) :
    ∃ r, clone ts a trs it fuel id v = some r ∧ ValEqv r (normV .pretty ts a trs it fuel id v) := by
  obtain ⟨r, h1, h2⟩ := complete_plain_perm ts a trs it fuel id v (marshalV ts a trs fuel id v).toks hp hv hkeys
    (by cases hm : marshalV ts a trs fuel id v with | mk t f => rw [hm] at hok; simp at hok; rw [hok])
  exact ⟨r, by simp [clone, hok, h1], h2⟩

/-- no pointer type is reachable from the (plain) type -/
def noPtr (ts : Types) : Nat → Nat → Bool
  | 0, _ => false
  | fuel+1, id =>
    match ts.get id with
    | .ptr _ => false
    | .slice e => noPtr ts fuel e
    | .arr _ e => noPtr ts fuel e
    | .map _ e => noPtr ts fuel e
    | _ => true

/-- `norm_plain_id` for every fuel (of the types and of `normV`) and every value: neither `hasTy` nor the fuel
    bound is needed -/
theorem norm_plain_id_aux (ts : Types) (a : Atlas) (trs : Trs) (it : IfaceTys) :
    ∀ (p id : Nat), plainTy ts a p id = true → noPtr ts p id = true →
      ∀ (fuel : Nat) (v : Val), normV .pretty ts a trs it fuel id v = v := by
  intro p
  induction p with
  | zero => intro id hp; simp [plainTy] at hp
  | succ p ih =>
    intro id hp hn fuel v
    cases fuel with
    | zero => simp [normV]
    | succ fuel =>
      have hnp : ∀ e, ts.get id ≠ .ptr e := by
        intro e he; simp [noPtr, he] at hn
      rw [normV_succ, peel_nonptr ts id hnp 63 0]
      simp only [beq_self_eq_true, if_true]
      cases fuel with
      | zero => simp [normBare]
      | succ fuel =>
        cases hd : ts.get id with
        | prim kk b =>
          have hna : a.get id = none := by simpa [plainTy, hd] using hp
          rw [(pick_prim hd hna).1, normBare_prim]
        | bytes b =>
          have hna : a.get id = none := by simpa [plainTy, hd] using hp
          rw [(pick_bytes hd hna).1, normBare_prim]
        | byteArr n =>
          have hna : a.get id = none := by simpa [plainTy, hd] using hp
          rw [(pick_byteArr hd hna).1, normBare_prim]
        | slice e =>
          have hp' : a.get id = none ∧ plainTy ts a p e = true := by simpa [plainTy, hd] using hp
          have hn' : noPtr ts p e = true := by simpa [noPtr, hd] using hn
          rw [(pick_slice hd hp'.1).1, normBare_slice]
          cases v <;> try rfl
          rename_i o
          cases o with
          | none => rfl
          | some vs =>
            simp only [Val.slice.injEq, Option.some.injEq]
            conv => rhs; rw [← List.map_id vs]
            exact List.map_congr_left (fun x _ => ih e hp'.2 hn' fuel x)
        | arr n e =>
          have hp' : a.get id = none ∧ plainTy ts a p e = true := by simpa [plainTy, hd] using hp
          have hn' : noPtr ts p e = true := by simpa [noPtr, hd] using hn
          rw [(pick_arr hd hp'.1).1, normBare_array]
          cases v <;> try rfl
          rename_i vs
          simp only [Val.arr.injEq]
          conv => rhs; rw [← List.map_id vs]
          exact List.map_congr_left (fun x _ => ih e hp'.2 hn' fuel x)
        | map kt vt =>
          have hp2 := hp
          simp only [plainTy, hd, Bool.and_eq_true, Option.isNone_iff_eq_none] at hp2
          obtain ⟨⟨hna, hkt⟩, hpv⟩ := hp2
          have hn' : noPtr ts p vt = true := by simpa [noPtr, hd] using hn
          rw [(pick_map hd hna).1, normBare_map]
          cases v <;> try rfl
          rename_i o
          cases o with
          | none => rfl
          | some es =>
            simp only [Val.map.injEq, Option.some.injEq]
            conv => rhs; rw [← List.map_id es]
            refine List.map_congr_left (fun q _ => ?_)
            obtain ⟨q1, q2⟩ := q
            simp [ih vt hpv hn' fuel q2]
        | ptr e => exact absurd hd (hnp e)
        | iface m => simp [plainTy, hd] at hp
        | struct fs => simp [plainTy, hd] at hp
        | other => simp [plainTy, hd] at hp

/-- on plain pointer-free types the specified value is the value itself: Clone returns an equal value, full stop -/
theorem norm_plain_id (ts : Types) (a : Atlas) (trs : Trs) (it : IfaceTys) (fuel id : Nat) (v : Val)
    (hp : plainTy ts a 64 id = true) (hn : noPtr ts 64 id = true) (hv : hasTy ts 1000 id v = true) (hf : 64 < fuel) :
    normV .pretty ts a trs it fuel id v = v :=
  norm_plain_id_aux ts a trs it 64 id hp hn fuel v

theorem clone_equal_plain_noptr (ts : Types) (a : Atlas) (trs : Trs) (it : IfaceTys) (fuel id : Nat) (v : Val)
    (hp : plainTy ts a 64 id = true) (hn : noPtr ts 64 id = true) (hv : hasTy ts 1000 id v = true)
    (hkeys : distinctKeys 1000 v) (hok : (marshalV ts a trs fuel id v).fail = none) (hf : 64 < fuel) :
    ∃ r, clone ts a trs it fuel id v = some r ∧ ValEqv r v := by
  obtain ⟨r, h1, h2⟩ := clone_equal_plain ts a trs it fuel id v hp hv hkeys hok
  rw [norm_plain_id ts a trs it fuel id v hp hn hv hf] at h2
  exact ⟨r, h1, h2⟩

theorem peel_count_ge (ts : Types) : ∀ (k c id : Nat), c ≤ (peel ts k c id).1 := by
  intro k
  induction k with
  | zero => intro c id; simp [peel]
  | succ k ih =>
    intro c id
    unfold peel
    split
    · exact Nat.le_trans (Nat.le_succ c) (ih (c + 1) _)
    · exact Nat.le_refl _

/-- what pointers add: a pointer (chain) comes back nil exactly when it is nil somewhere or its target serializes as
    a single null token; otherwise it comes back non-nil, pointing to the specified value of its target -/
theorem norm_plain_ptr (ts : Types) (a : Atlas) (trs : Trs) (it : IfaceTys) (fuel id e : Nat) (v : Val)
    (hd : ts.get id = .ptr e) (hf : 0 < fuel) :
    normV .pretty ts a trs it fuel id v = .ptr none ∨
    ∃ n base inner, peel ts 64 0 id = (n, base) ∧ derefN n v = some inner ∧ isNullSer ts a trs base inner = false ∧
      normV .pretty ts a trs it fuel id v = wrapPtr n (normBare .pretty ts a trs it (fuel - 1) base (pickBare ts a base) inner) := by
  obtain ⟨fuel, rfl⟩ : ∃ f', fuel = f' + 1 := ⟨fuel - 1, by omega⟩
  have hn1 : 1 ≤ (peel ts 64 0 id).1 := by
    have : peel ts 64 0 id = peel ts 63 1 e := by
      show peel ts (63 + 1) 0 id = _
      simp [peel, hd]
    rw [this]; exact peel_count_ge ts 63 1 e
  rw [normV_succ]
  have hn0 : ((peel ts 64 0 id).1 == 0) = false := by simp; omega
  simp only [hn0, Bool.false_eq_true, if_false, Nat.add_sub_cancel]
  cases hdn : derefN (peel ts 64 0 id).1 v with
  | none => left; rfl
  | some inner =>
    simp only
    cases hns : isNullSer ts a trs (peel ts 64 0 id).2 inner with
    | true => left; simp
    | false =>
      right
      exact ⟨(peel ts 64 0 id).1, (peel ts 64 0 id).2, inner, rfl, hdn, hns, by simp⟩

/-! ### structs (stretch): completeness for struct-map entries

  `structTy`: like `plainTy`, but struct types with a registered, untagged struct-map entry are allowed when every
  field of the entry is not ignored, has a one-step route `[i]` to a distinct exported field of the struct with the
  field's declared type, serial names are pairwise distinct, and the field types are again `structTy`.
  `omitEmpty` fields are allowed (the specified value then has the zero value for an empty field). -/
def structTy (ts : Types) (a : Atlas) : Nat → Nat → Bool
  | 0, _ => false
  | fuel+1, id =>
    match ts.get id with
    | .prim _ _ => (a.get id).isNone
    | .bytes _ => (a.get id).isNone
    | .byteArr _ => (a.get id).isNone
    | .slice e => (a.get id).isNone && structTy ts a fuel e
    | .arr _ e => (a.get id).isNone && structTy ts a fuel e
    | .map k e => (a.get id).isNone && (match ts.get k with | .prim .string _ => true | _ => false) && structTy ts a fuel e
    | .ptr e => structTy ts a fuel e
    | .struct fds =>
      (match a.get id with
       | some ⟨_, _, none, .structMap fields⟩ =>
         decide ((fields.map (·.name)).Nodup) && decide ((fields.map (·.route)).Nodup) &&
         fields.all fun f =>
           !f.ignore &&
           (match f.route with
            | [i] => (match fds[i]? with | some fd => fd.exported && fd.ty == f.ty | none => false)
            | _ => false) &&
           structTy ts a fuel f.ty
       | _ => false)
    | _ => false

/-- ORIGINAL STATEMENT (false, see `clone_equal_struct_false`). -/
def clone_equal_struct_statement : Prop :=
  ∀ (ts : Types) (a : Atlas) (trs : Trs) (it : IfaceTys) (fuel id : Nat) (v : Val),
    structTy ts a 64 id = true → hasTy ts 1000 id v = true → distinctKeys 1000 v →
    (marshalV ts a trs fuel id v).fail = none → 1000 < fuel →
    ∃ r, clone ts a trs it fuel id v = some r ∧ ValEqv r (normV .pretty ts a trs it fuel id v)

section structs
variable {ts : Types} {a : Atlas} {trs : Trs} {it : IfaceTys}

/-- what `structTy` says about one field of a struct-map entry -/
def FOK (ts : Types) (a : Atlas) (p : Nat) (fds : List FieldDesc) (fld : SMField) : Prop :=
  fld.ignore = false ∧ ∃ i fd, fld.route = [i] ∧ fds[i]? = some fd ∧ fd.ty = fld.ty ∧ structTy ts a p fld.ty = true

theorem structTy_struct {p id : Nat} {fds : List FieldDesc} (hp : structTy ts a (p+1) id = true) (hd : ts.get id = .struct fds) :
    ∃ reg ty fields, a.get id = some ⟨reg, ty, none, .structMap fields⟩ ∧ (fields.map (·.name)).Nodup ∧
      (fields.map (·.route)).Nodup ∧ ∀ fld ∈ fields, FOK ts a p fds fld := by
  simp only [structTy, hd] at hp
  split at hp
  · rename_i reg ty fields he
    simp only [Bool.and_eq_true, decide_eq_true_eq, List.all_eq_true] at hp
    obtain ⟨⟨h1, h2⟩, h3⟩ := hp
    refine ⟨reg, ty, fields, he, h1, h2, fun fld hf => ?_⟩
    obtain ⟨⟨hi, hr⟩, hs⟩ := h3 fld hf
    split at hr
    · rename_i i hroute
      split at hr
      · rename_i fd hfd
        simp only [Bool.and_eq_true, beq_iff_eq] at hr
        exact ⟨by simpa using hi, i, fd, hroute, hfd, hr.2, hs⟩
      · cases hr
    · cases hr
  · cases hp

theorem struct_peel : ∀ (p k c id : Nat), structTy ts a p id = true → p ≤ k →
    ∃ n base p', peel ts k c id = (c + n, base) ∧ structTy ts a (p' + 1) base = true ∧ (∀ e, ts.get base ≠ .ptr e) ∧ chain ts n id base ∧ p' + 1 ≤ p := by
  intro p
  induction p with
  | zero => intro k c id h; simp [structTy] at h
  | succ p ih =>
    intro k c id h hk
    obtain ⟨k, rfl⟩ : ∃ k', k = k' + 1 := ⟨k - 1, by omega⟩
    cases hd : ts.get id with
    | ptr e =>
      have he : structTy ts a p e = true := by simpa [structTy, hd] using h
      obtain ⟨n, base, p', h1, h2, h3, h4, h5⟩ := ih k (c + 1) e he (by omega)
      refine ⟨n + 1, base, p', ?_, h2, h3, ⟨e, hd, h4⟩, by omega⟩
      simp [peel, hd, h1]; omega
    | _ =>
      refine ⟨0, id, p, ?_, h, ?_, rfl, by omega⟩
      · simp [peel, hd]
      · simp [hd]

theorem chain_distinct' : ∀ (n : Nat) (k : Nat) (v inner : Val), distinctKeys' k v → derefN n v = some inner →
    ∃ k', distinctKeys' k' inner := by
  intro n
  induction n with
  | zero => intro k v inner hk hd; simp [derefN] at hd; subst hd; exact ⟨k, hk⟩
  | succ n ih =>
    intro k v inner hk hd
    cases v <;> try (simp [derefN] at hd; done)
    rename_i o
    cases o with
    | none => simp [derefN] at hd
    | some x =>
      simp only [derefN] at hd
      cases k with
      | zero => simp [distinctKeys'] at hk
      | succ k => exact ih k x inner (by simpa [distinctKeys'] using hk) hd

theorem pick_struct {id : Nat} {fds : List FieldDesc} {reg : Bool} {ty : Nat} {tag : Option Int} {fields : List SMField}
    (hd : ts.get id = .struct fds) (he : a.get id = some ⟨reg, ty, tag, .structMap fields⟩) :
    pickBare ts a id = .structMap ⟨reg, ty, tag, .structMap fields⟩ fields ∧ upickBare ts a id = .structMap fields := by
  simp [pickBare, upickBare, hd, he, machForEntry, umachForEntry]

variable (ts a trs it) in
/-- the round-trip induction of C13 (`RT`) over `structTy`, with a fifth statement for the struct-map machine
    (`marshalFields` against `unmStruct`).  The unmarshaller's current value is the zero value of the target type. -/
structure RTS (f : Nat) : Prop where
  v : ∀ p h k id v toks, p ≤ 64 → structTy ts a p id = true → hasTy ts h id v = true → distinctKeys' k v →
      marshalV ts a trs f id v = ⟨toks, none⟩ → ∀ g, f ≤ g → ∀ rest,
      unmV ts a trs it f id (zeroVal ts 64 id) (toks ++ rest) = .ok (rtV' ts a trs it g id v) rest toks.length ∧
      ∃ t r, toks = t :: r ∧ t.body ≠ .arrClose ∧ t.body ≠ .mapClose
  b : ∀ p h k id v toks, p + 1 ≤ 64 → structTy ts a (p + 1) id = true → (∀ e, ts.get id ≠ .ptr e) → hasTy ts h id v = true → distinctKeys' k v →
      marshalBare ts a trs f id (pickBare ts a id) v = ⟨toks, none⟩ → ∀ g, f ≤ g → ∀ rest,
      unmBare ts a trs it f id (upickBare ts a id) (zeroVal ts 64 id) (toks ++ rest) = .ok (rtBare' ts a trs it g id (pickBare ts a id) v) rest toks.length ∧
      NullSpec ts a trs toks id v
  l : ∀ p h k e vs toks, p ≤ 64 → structTy ts a p e = true → (∀ x ∈ vs, hasTy ts h e x = true) → (∀ x ∈ vs, distinctKeys' k x) →
      marshalList ts a trs f e vs = ⟨toks, none⟩ → ∀ g, f ≤ g → ∀ cap acc rest, (∀ n, cap = some n → acc.length + vs.length ≤ n) →
      unmElems ts a trs it f e cap acc (toks ++ ⟨.arrClose, none⟩ :: rest) =
        .ok (.slice (some (acc.reverse ++ vs.map (rtV' ts a trs it g e)))) rest (toks.length + 1)
  m : ∀ p h k vt (kvs : List (Bytes × Val)) toks, p ≤ 64 → structTy ts a p vt = true → (∀ q ∈ kvs, hasTy ts h vt q.2 = true) →
      (∀ q ∈ kvs, distinctKeys' k q.2) → (kvs.map (·.1)).Nodup →
      marshalEntries ts a trs f vt kvs = ⟨toks, none⟩ → ∀ g, f ≤ g → ∀ es0 rest, (∀ q ∈ kvs, hasKey (.str q.1) es0 = false) →
      unmMapEntries ts a trs it f none vt es0 (toks ++ ⟨.mapClose, none⟩ :: rest) =
        .ok (.map (some (es0 ++ kvs.map fun (q : Bytes × Val) => (Val.str q.1, rtV' ts a trs it g vt q.2)))) rest (toks.length + 1)
  s : ∀ p h k id fds (fields fl : List SMField) (vs : List Val) toks, p ≤ 64 → ts.get id = .struct fds →
      (fields.map (·.name)).Nodup → (fl.map (·.route)).Nodup → (∀ fld ∈ fl, fld ∈ fields ∧ FOK ts a p fds fld) →
      (∀ (i : Nat) fd x, fds[i]? = some fd → vs[i]? = some x → hasTy ts h fd.ty x = true) → (∀ x ∈ vs, distinctKeys' k x) →
      marshalFields ts a trs f fl (.struct vs) = ⟨toks, none⟩ → ∀ g, f ≤ g →
      ∀ (cs : List Val) (idx : Nat) (len : Int) rest, cs.length = fds.length →
      (∀ fld ∈ fl, ∀ (i : Nat), fld.route = [i] → cs[i]? = some (zeroVal ts 64 fld.ty)) → len = ((idx + fl.length : Nat) : Int) →
      unmStruct ts a trs it f id fields len idx (.struct cs) (toks ++ ⟨.mapClose, none⟩ :: rest) =
        .ok (fl.foldl (fieldStep ts id (.struct vs) (rtV' ts a trs it g)) (.struct cs)) rest (toks.length + 1)

theorem rts_zero : RTS ts a trs it 0 where
  v := by intro p h k id v toks _ _ _ _ hm; simp [marshalV, MOut.bad] at hm
  b := by intro p h k id v toks _ _ _ _ _ hm; simp [marshalBare, MOut.bad] at hm
  l := by intro p h k e vs toks _ _ _ _ hm; simp [marshalList, MOut.bad] at hm
  m := by intro p h k vt kvs toks _ _ _ _ _ hm; simp [marshalEntries, MOut.bad] at hm
  s := by intro p h k id fds fields fl vs toks _ _ _ _ _ _ _ hm; simp [marshalFields, MOut.bad] at hm

theorem rts_l {f} (ih : RTS ts a trs it f) : ∀ p h k e vs toks, p ≤ 64 → structTy ts a p e = true → (∀ x ∈ vs, hasTy ts h e x = true) → (∀ x ∈ vs, distinctKeys' k x) →
      marshalList ts a trs (f+1) e vs = ⟨toks, none⟩ → ∀ g, f + 1 ≤ g → ∀ cap acc rest, (∀ n, cap = some n → acc.length + vs.length ≤ n) →
      unmElems ts a trs it (f+1) e cap acc (toks ++ ⟨.arrClose, none⟩ :: rest) =
        .ok (.slice (some (acc.reverse ++ vs.map (rtV' ts a trs it g e)))) rest (toks.length + 1) := by
  intro p h k e vs toks hp64 hp hv hk hm g hg cap acc rest hcap
  cases vs with
  | nil =>
    rw [marshalList_nil] at hm
    simp [MOut.ok] at hm; subst hm
    simp [unmElems_cons]
  | cons x xs =>
    rw [marshalList_cons] at hm
    obtain ⟨tx, txs, h1, h2, rfl⟩ := seq_ok hm
    obtain ⟨hx, t, r, rfl, hc1, hc2⟩ := ih.v p h k e x tx hp64 hp (hv x (by simp)) (hk x (by simp)) h1 g (by omega)
      (txs ++ ⟨.arrClose, none⟩ :: rest)
    have hxs := ih.l p h k e xs txs hp64 hp (fun y hy => hv y (by simp [hy])) (fun y hy => hk y (by simp [hy])) h2 g (by omega)
      cap (rtV' ts a trs it g e x :: acc) rest (fun n hn => by have := hcap n hn; simp at this ⊢; omega)
    have hcf : capFull cap acc = false := by
      unfold capFull
      cases cap with
      | none => rfl
      | some n => have := hcap n rfl; simp at this ⊢; omega
    have e1 : (t :: r ++ txs) ++ ⟨.arrClose, none⟩ :: rest = t :: (r ++ (txs ++ ⟨.arrClose, none⟩ :: rest)) := by simp
    rw [e1, unmElems_cons]
    have e2 : t :: (r ++ (txs ++ ⟨.arrClose, none⟩ :: rest)) = (t :: r) ++ (txs ++ ⟨.arrClose, none⟩ :: rest) := by simp
    split
    · rename_i hb; exact absurd hb hc2
    · rename_i hb; exact absurd hb hc1
    · rw [hcf, e2, hx]
      simp [hxs]
      omega

theorem rts_m {f} (ih : RTS ts a trs it f) : ∀ p h k vt (kvs : List (Bytes × Val)) toks, p ≤ 64 → structTy ts a p vt = true → (∀ q ∈ kvs, hasTy ts h vt q.2 = true) →
      (∀ q ∈ kvs, distinctKeys' k q.2) → (kvs.map (·.1)).Nodup →
      marshalEntries ts a trs (f+1) vt kvs = ⟨toks, none⟩ → ∀ g, f + 1 ≤ g → ∀ es0 rest, (∀ q ∈ kvs, hasKey (.str q.1) es0 = false) →
      unmMapEntries ts a trs it (f+1) none vt es0 (toks ++ ⟨.mapClose, none⟩ :: rest) =
        .ok (.map (some (es0 ++ kvs.map fun (q : Bytes × Val) => (Val.str q.1, rtV' ts a trs it g vt q.2)))) rest (toks.length + 1) := by
  intro p h k vt kvs toks hp64 hp hv hk hnd hm g hg es0 rest hes
  cases kvs with
  | nil =>
    rw [marshalEntries_nil] at hm
    simp [MOut.ok] at hm; subst hm
    simp [unmMapEntries_cons]
  | cons q qs =>
    obtain ⟨s, x⟩ := q
    rw [marshalEntries_cons] at hm
    obtain ⟨t1, t23, h1, h23, rfl⟩ := seq_ok hm
    obtain ⟨tx, txs, h2, h3, rfl⟩ := seq_ok h23
    simp [MOut.ok] at h1; subst h1
    obtain ⟨hx, -⟩ := ih.v p h k vt x tx hp64 hp (hv (s, x) (by simp)) (hk (s, x) (by simp)) h2 g (by omega)
      (txs ++ ⟨.mapClose, none⟩ :: rest)
    simp only [List.map_cons, List.nodup_cons] at hnd
    have hxs := ih.m p h k vt qs txs hp64 hp (fun y hy => hv y (by simp [hy])) (fun y hy => hk y (by simp [hy])) hnd.2 h3 g (by omega)
      (es0 ++ [(.str s, rtV' ts a trs it g vt x)]) rest (fun y hy => by
        rw [hasKey_append_str, hes y (by simp [hy])]
        simp only [Bool.false_or, beq_eq_false_iff_ne]
        intro he
        exact hnd.1 (by rw [he]; exact List.mem_map_of_mem hy))
    have e1 : ([⟨.str s, none⟩] ++ (tx ++ txs)) ++ ⟨.mapClose, none⟩ :: rest =
        ⟨.str s, none⟩ :: (tx ++ (txs ++ ⟨.mapClose, none⟩ :: rest)) := by simp
    rw [e1, unmMapEntries_cons]
    simp only [mapKey, hes (s, x) (by simp), hx]
    simp [hxs]
    omega

/-- the struct-map machine: the emitted fields are read back one by one into the zero-valued struct -/
theorem rts_s {f} (ih : RTS ts a trs it f) : ∀ p h k id fds (fields fl : List SMField) (vs : List Val) toks, p ≤ 64 → ts.get id = .struct fds →
      (fields.map (·.name)).Nodup → (fl.map (·.route)).Nodup → (∀ fld ∈ fl, fld ∈ fields ∧ FOK ts a p fds fld) →
      (∀ (i : Nat) fd x, fds[i]? = some fd → vs[i]? = some x → hasTy ts h fd.ty x = true) → (∀ x ∈ vs, distinctKeys' k x) →
      marshalFields ts a trs (f+1) fl (.struct vs) = ⟨toks, none⟩ → ∀ g, f + 1 ≤ g →
      ∀ (cs : List Val) (idx : Nat) (len : Int) rest, cs.length = fds.length →
      (∀ fld ∈ fl, ∀ (i : Nat), fld.route = [i] → cs[i]? = some (zeroVal ts 64 fld.ty)) → len = ((idx + fl.length : Nat) : Int) →
      unmStruct ts a trs it (f+1) id fields len idx (.struct cs) (toks ++ ⟨.mapClose, none⟩ :: rest) =
        .ok (fl.foldl (fieldStep ts id (.struct vs) (rtV' ts a trs it g)) (.struct cs)) rest (toks.length + 1) := by
  intro p h k id fds fields fl vs toks hp64 hd hnames hroutes hfl hv hk hm g hg cs idx len rest hcs hzero hlen
  cases fl with
  | nil =>
    rw [marshalFields_nil] at hm
    simp [MOut.ok] at hm; subst hm
    subst hlen
    simp [unmStruct_cons]
  | cons fld fl' =>
    obtain ⟨hmem, hign, i, fd, hroute, hfd, hty, hst⟩ := hfl fld (by simp)
    rw [marshalFields_cons, hroute, traverse_one] at hm
    cases hvi : vs[i]? with
    | none => rw [hvi] at hm; simp [MOut.bad] at hm
    | some fv =>
    rw [hvi] at hm
    simp only at hm
    obtain ⟨t1, t23, h1, h23, rfl⟩ := seq_ok hm
    obtain ⟨tx, txs, h2, h3, rfl⟩ := seq_ok h23
    simp [MOut.ok] at h1; subst h1
    have hvfv : hasTy ts h fld.ty fv = true := by rw [← hty]; exact hv i fd fv hfd hvi
    obtain ⟨hx, t, r, rfl, hc1, hc2⟩ := ih.v p h k fld.ty fv tx hp64 hst hvfv (hk fv (List.mem_of_getElem? hvi)) h2 g (by omega)
      (txs ++ ⟨.mapClose, none⟩ :: rest)
    have hci : cs[i]? = some (zeroVal ts 64 fld.ty) := hzero fld (by simp) i hroute
    simp only [List.map_cons, List.nodup_cons] at hroutes
    have hxs := ih.s p h k id fds fields fl' vs txs hp64 hd hnames hroutes.2 (fun y hy => hfl y (by simp [hy])) hv hk h3 g (by omega)
      (cs.set i (rtV' ts a trs it g fld.ty fv)) (idx + 1) len rest (by simp [hcs])
      (fun y hy j hj => by
        have hne : i ≠ j := by
          intro he
          apply hroutes.1
          rw [hroute, he, ← hj]
          exact List.mem_map_of_mem hy
        rw [List.getElem?_set_ne hne]
        exact hzero y (by simp [hy]) j hj)
      (by rw [hlen]; simp only [List.length_cons]; congr 1; omega)
    have e1 : ([⟨.str fld.name, none⟩] ++ (t :: r ++ txs)) ++ ⟨.mapClose, none⟩ :: rest =
        ⟨.str fld.name, none⟩ :: t :: (r ++ (txs ++ ⟨.mapClose, none⟩ :: rest)) := by simp
    have e2 : t :: (r ++ (txs ++ ⟨.mapClose, none⟩ :: rest)) = (t :: r) ++ (txs ++ ⟨.mapClose, none⟩ :: rest) := by simp
    have hstep : fieldStep ts id (.struct vs) (rtV' ts a trs it g) (.struct cs) fld = .struct (cs.set i (rtV' ts a trs it g fld.ty fv)) := by
      unfold fieldStep
      rw [hroute, traverse_one, hvi]
      simp only
      rw [setRoute_one ts _ hd hfd hci]
      rfl
    rw [e1, unmStruct_cons]
    simp only [find?_name fields hnames fld hmem, hign, Bool.false_eq_true, if_false]
    rw [hroute, getRoute_one ts hd hfd hci]
    simp only
    rw [e2, hx]
    simp only [URes.bind'_ok, structCont]
    rw [setRoute_one ts _ hd hfd hci]
    simp only [hxs, List.foldl_cons, hstep, URes.shift_ok]
    simp
    omega

theorem rts_b_prim {f} (h id : Nat) (v : Val) (toks : List Tok) (hv : hasTy ts h id v = true)
    (hd : (∃ k b, ts.get id = .prim k b) ∨ (∃ b, ts.get id = .bytes b) ∨ (∃ n, ts.get id = .byteArr n))
    (hnp : ∀ e, ts.get id ≠ .ptr e)
    (hpick : pickBare ts a id = .prim ∧ upickBare ts a id = .prim)
    (hm : marshalBare ts a trs (f+1) id (pickBare ts a id) v = ⟨toks, none⟩) (g : Nat) (hg : f + 1 ≤ g) (cur : Val) (rest : List Tok) :
    unmBare ts a trs it (f+1) id (upickBare ts a id) cur (toks ++ rest) = .ok (rtBare' ts a trs it g id (pickBare ts a id) v) rest toks.length ∧
      NullSpec ts a trs toks id v := by
  obtain ⟨g, rfl⟩ : ∃ g', g = g' + 1 := ⟨g - 1, by omega⟩
  have := rt_b_prim (it := it) h id v toks hv hd hnp hpick hm (g + 1) hg cur rest
  rw [hpick.1, rtBare_prim] at this
  rw [hpick.1, rtBare'_prim]
  exact this

/-- the fuel bound of `zeroVal` does not truncate any zero value (type nesting through struct fields and arrays is
    shallower than 63) -/
def ZeroStable (ts : Types) : Prop := ∀ t, zeroVal ts 63 t = zeroVal ts 64 t

theorem rts_b {f} (hz : ZeroStable ts) (ih : RTS ts a trs it f) : ∀ p h k id v toks, p + 1 ≤ 64 → structTy ts a (p + 1) id = true → (∀ e, ts.get id ≠ .ptr e) → hasTy ts h id v = true → distinctKeys' k v →
      marshalBare ts a trs (f+1) id (pickBare ts a id) v = ⟨toks, none⟩ → ∀ g, f + 1 ≤ g → ∀ rest,
      unmBare ts a trs it (f+1) id (upickBare ts a id) (zeroVal ts 64 id) (toks ++ rest) = .ok (rtBare' ts a trs it g id (pickBare ts a id) v) rest toks.length ∧
      NullSpec ts a trs toks id v := by
  intro p h k id v toks hp64 hp hnp hv hk hm g hg rest
  cases hd : ts.get id with
  | prim kk b =>
    have hn : a.get id = none := by simpa [structTy, hd] using hp
    exact rts_b_prim h id v toks hv (Or.inl ⟨kk, b, hd⟩) hnp (pick_prim hd hn) hm g hg _ rest
  | bytes b =>
    have hn : a.get id = none := by simpa [structTy, hd] using hp
    exact rts_b_prim h id v toks hv (Or.inr (Or.inl ⟨b, hd⟩)) hnp (pick_bytes hd hn) hm g hg _ rest
  | byteArr n =>
    have hn : a.get id = none := by simpa [structTy, hd] using hp
    exact rts_b_prim h id v toks hv (Or.inr (Or.inr ⟨n, hd⟩)) hnp (pick_byteArr hd hn) hm g hg _ rest
  | slice e =>
    obtain ⟨g, rfl⟩ : ∃ g', g = g' + 1 := ⟨g - 1, by omega⟩
    have hp' : a.get id = none ∧ structTy ts a p e = true := by simpa [structTy, hd] using hp
    obtain ⟨hpk, hupk⟩ := pick_slice hd hp'.1
    rw [hpk] at hm ⊢; rw [hupk]
    cases h with
    | zero => simp [hasTy] at hv
    | succ h =>
    cases k with
    | zero => simp [distinctKeys'] at hk
    | succ k =>
    cases v <;> simp only [hasTy, hd] at hv <;> try (cases hv; done)
    rename_i o
    cases o with
    | none =>
      rw [marshalBare_slice] at hm
      simp [MOut.ok] at hm; subst hm
      refine ⟨by simp [unmBare_slice, rtBare'_slice], Or.inl ⟨rfl, nullSer_true ts a trs id _ hnp ?_⟩⟩
      rw [hpk, show (999 : Nat) = 998 + 1 from rfl, marshalBare_slice]; rfl
    | some es =>
      rw [marshalBare_slice] at hm
      simp only at hm
      obtain ⟨t1, t23, h1, h23, rfl⟩ := seq_ok hm
      obtain ⟨tl, tc, h2, h3, rfl⟩ := seq_ok h23
      simp [MOut.ok] at h1 h3; subst h1 h3
      have hv' : ∀ x ∈ es, hasTy ts h e x = true := by simpa [hasTy, hd] using hv
      have hk' : ∀ x ∈ es, distinctKeys' k x := by simpa [distinctKeys'] using hk
      have hl := ih.l p h k e es tl (by omega) hp'.2 hv' hk' h2 g (by omega) none [] rest (by simp)
      refine ⟨?_, Or.inr ⟨⟨.arrOpen es.length, none⟩, tl ++ [⟨.arrClose, none⟩], rfl, by simp, by simp, by simp, nullSer_false' id _ hnp ⟨.arrOpen es.length, none⟩ ?_ (by simp)⟩⟩
      · have e1 : ([⟨.arrOpen es.length, none⟩] ++ (tl ++ [⟨.arrClose, none⟩])) ++ rest =
            ⟨.arrOpen es.length, none⟩ :: (tl ++ ⟨.arrClose, none⟩ :: rest) := by simp
        rw [e1, unmBare_slice, rtBare'_slice]
        simp [hl]
      · rw [hpk, show (999 : Nat) = 998 + 1 from rfl, marshalBare_slice]
        exact ⟨_, seq_toks_head _ _⟩
  | arr n e =>
    obtain ⟨g, rfl⟩ : ∃ g', g = g' + 1 := ⟨g - 1, by omega⟩
    have hp' : a.get id = none ∧ structTy ts a p e = true := by simpa [structTy, hd] using hp
    obtain ⟨hpk, hupk⟩ := pick_arr hd hp'.1
    rw [hpk] at hm ⊢; rw [hupk]
    cases h with
    | zero => simp [hasTy] at hv
    | succ h =>
    cases k with
    | zero => simp [distinctKeys'] at hk
    | succ k =>
    cases v <;> simp only [hasTy, hd] at hv <;> try (cases hv; done)
    rename_i es
    rw [marshalBare_array] at hm
    simp only at hm
    obtain ⟨t1, t23, h1, h23, rfl⟩ := seq_ok hm
    obtain ⟨tl, tc, h2, h3, rfl⟩ := seq_ok h23
    simp [MOut.ok] at h1 h3; subst h1 h3
    have hv' : es.length = n ∧ ∀ x ∈ es, hasTy ts h e x = true := by simpa [hasTy, hd] using hv
    have hk' : ∀ x ∈ es, distinctKeys' k x := by simpa [distinctKeys'] using hk
    have hl := ih.l p h k e es tl (by omega) hp'.2 hv'.2 hk' h2 g (by omega) (some n) [] rest (by simp [hv'.1])
    refine ⟨?_, Or.inr ⟨⟨.arrOpen es.length, none⟩, tl ++ [⟨.arrClose, none⟩], rfl, by simp, by simp, by simp, nullSer_false' id _ hnp ⟨.arrOpen es.length, none⟩ ?_ (by simp)⟩⟩
    · have e1 : ([⟨.arrOpen es.length, none⟩] ++ (tl ++ [⟨.arrClose, none⟩])) ++ rest =
          ⟨.arrOpen es.length, none⟩ :: (tl ++ ⟨.arrClose, none⟩ :: rest) := by simp
      rw [e1, unmBare_array, rtBare'_array]
      simp [hl, arrFix, hv'.1]
    · rw [hpk, show (999 : Nat) = 998 + 1 from rfl, marshalBare_array]
      exact ⟨_, seq_toks_head _ _⟩
  | map kt vt =>
    obtain ⟨g, rfl⟩ : ∃ g', g = g' + 1 := ⟨g - 1, by omega⟩
    have hp2 := hp
    simp only [structTy, hd, Bool.and_eq_true, Option.isNone_iff_eq_none] at hp2
    obtain ⟨⟨hn, hkt⟩, hpv⟩ := hp2
    obtain ⟨bk, hkt⟩ : ∃ bk, ts.get kt = .prim .string bk := by
      split at hkt
      · rename_i bk hh; exact ⟨bk, hh⟩
      · cases hkt
    have hmk : mkeyFn ts a kt = some none := by simp [mkeyFn, hkt]
    have huk : ukeyFn ts a kt = some none := by simp [ukeyFn, hkt]
    obtain ⟨hpk, hupk⟩ := pick_map hd hn
    rw [hpk] at hm ⊢; rw [hupk]
    cases h with
    | zero => simp [hasTy] at hv
    | succ h =>
    cases k with
    | zero => simp [distinctKeys'] at hk
    | succ k =>
    cases v <;> simp only [hasTy, hd] at hv <;> try (cases hv; done)
    rename_i o
    cases o with
    | none =>
      rw [marshalBare_map, hmk] at hm
      simp [MOut.ok] at hm; subst hm
      refine ⟨by simp [unmBare_map, huk, rtBare'_map], Or.inl ⟨rfl, nullSer_true ts a trs id _ hnp ?_⟩⟩
      rw [hpk, show (999 : Nat) = 998 + 1 from rfl, marshalBare_map, hmk]; rfl
    | some es =>
      have hv' : ∀ q ∈ es, hasTy ts h kt q.1 = true ∧ hasTy ts h vt q.2 = true := by
        intro q hq
        obtain ⟨q1, q2⟩ := q
        have := hv
        simp at this
        exact this q1 q2 hq
      have hkeys : ∀ q ∈ es, ∃ s, q.1 = Val.str s := by
        intro q hq
        have h1 := (hv' q hq).1
        cases h with
        | zero => simp [hasTy] at h1
        | succ h =>
          obtain ⟨k1, x1⟩ := q
          cases k1 <;> simp [hasTy, hkt, intRange, uintMax] at h1
          exact ⟨_, rfl⟩
      have hk' : ((es.map fun p => keyStr p.1).Nodup) ∧ ∀ q ∈ es, distinctKeys' k q.2 := (by simpa [distinctKeys'] using hk : _ ∧ _ ∧ _).2
      rw [marshalBare_map, hmk] at hm
      simp only [Option.getD_some, mapM_keys es hkeys, Option.isNone_some, Bool.false_eq_true, if_false] at hm
      obtain ⟨t1, t23, h1, h23, rfl⟩ := seq_ok hm
      obtain ⟨tl, tc, h2, h3, rfl⟩ := seq_ok h23
      simp [MOut.ok] at h1 h3; subst h1 h3
      let kvs := es.map fun (q : Val × Val) => (keyStr q.1, q.2)
      have hperm := List.mergeSort_perm kvs (fun x y => keyLe a.defaultSort x.1 y.1)
      have hmem : ∀ q ∈ sortKeys a.defaultSort kvs, ∃ q' ∈ es, q.2 = q'.2 := by
        intro q hq
        have : q ∈ kvs := hperm.mem_iff.mp hq
        simp only [kvs, List.mem_map] at this
        obtain ⟨q', hq', rfl⟩ := this
        exact ⟨q', hq', rfl⟩
      have hm' := ih.m p h k vt (sortKeys a.defaultSort kvs) tl (by omega) hpv
        (fun q hq => by obtain ⟨q', hq', he⟩ := hmem q hq; rw [he]; exact (hv' q' hq').2)
        (fun q hq => by obtain ⟨q', hq', he⟩ := hmem q hq; rw [he]; exact hk'.2 q' hq')
        (by
          have : ((sortKeys a.defaultSort kvs).map (·.1)).Perm (kvs.map (·.1)) := hperm.map _
          rw [this.nodup_iff]
          simpa [kvs, List.map_map, Function.comp_def] using hk'.1)
        h2 g (by omega) [] rest (by intro q hq; simp [hasKey])
      refine ⟨?_, Or.inr ⟨⟨.mapOpen es.length, none⟩, tl ++ [⟨.mapClose, none⟩], rfl, by simp, by simp, by simp, nullSer_false' id _ hnp ⟨.mapOpen es.length, none⟩ ?_ (by simp)⟩⟩
      · have e1 : ([⟨.mapOpen es.length, none⟩] ++ (tl ++ [⟨.mapClose, none⟩])) ++ rest =
            ⟨.mapOpen es.length, none⟩ :: (tl ++ ⟨.mapClose, none⟩ :: rest) := by simp
        rw [e1, unmBare_map, huk, rtBare'_map]
        simp only [zeroVal_mapCur0]
        simp [hm', kvs]
      · rw [hpk, show (999 : Nat) = 998 + 1 from rfl, marshalBare_map, hmk]
        simp only [Option.getD_some, mapM_keys es hkeys, Option.isNone_some, Bool.false_eq_true, if_false]
        exact ⟨_, seq_toks_head _ _⟩
  | ptr e => exact absurd hd (hnp e)
  | iface m => simp [structTy, hd] at hp
  | struct fds =>
    obtain ⟨g, rfl⟩ : ∃ g', g = g' + 1 := ⟨g - 1, by omega⟩
    obtain ⟨reg, ty, fields, he, hnames, hroutes, hfok⟩ := structTy_struct hp hd
    obtain ⟨hpk, hupk⟩ := pick_struct hd he
    rw [hpk] at hm ⊢; rw [hupk]
    cases h with
    | zero => simp [hasTy] at hv
    | succ h =>
    cases k with
    | zero => simp [distinctKeys'] at hk
    | succ k =>
    cases v <;> simp only [hasTy, hd] at hv <;> try (cases hv; done)
    rename_i vs
    simp only [Bool.and_eq_true, beq_iff_eq, List.all_eq_true] at hv
    obtain ⟨hvl, hvall⟩ := hv
    have hv' : ∀ (i : Nat) fd x, fds[i]? = some fd → vs[i]? = some x → hasTy ts h fd.ty x = true := by
      intro i fd x h1 h2
      have : (fd, x) ∈ fds.zip vs := by
        apply List.mem_of_getElem? (i := i)
        simp [List.getElem?_zip_eq_some, h1, h2]
      exact hvall (fd, x) this
    have hk' : ∀ x ∈ vs, distinctKeys' k x := by simpa [distinctKeys'] using hk
    rw [marshalBare_structMap] at hm
    simp only at hm
    obtain ⟨t1, t23, h1, h23, rfl⟩ := seq_ok hm
    obtain ⟨tl, tc, h2, h3, rfl⟩ := seq_ok h23
    simp [MOut.ok] at h1 h3; subst h1 h3
    have hs := ih.s p h k id fds fields (fields.filter (emitP (.struct vs))) vs tl (by omega) hd hnames
      ((List.filter_sublist.map _).nodup hroutes)
      (fun fld hf => ⟨(List.mem_filter.mp hf).1, hfok fld (List.mem_filter.mp hf).1⟩) hv' hk' h2 g (by omega)
      (fds.map fun fd => zeroVal ts 63 fd.ty) 0 ((fields.filter (emitP (.struct vs))).length : Nat) rest (by simp)
      (fun fld hf i hi => by
        obtain ⟨_, j, fd, hroute, hfd, hty, _⟩ := hfok fld (List.mem_filter.mp hf).1
        rw [hroute] at hi
        cases hi
        rw [List.getElem?_map, hfd, ← hty, ← hz fd.ty]; rfl)
      (by simp)
    refine ⟨?_, Or.inr ⟨⟨.mapOpen (fields.filter (emitP (.struct vs))).length, none⟩, tl ++ [⟨.mapClose, none⟩], rfl, by simp, by simp, by simp,
      nullSer_false' id _ hnp ⟨.mapOpen (fields.filter (emitP (.struct vs))).length, none⟩ ?_ (by simp)⟩⟩
    · have e1 : ([⟨.mapOpen (fields.filter (emitP (.struct vs))).length, none⟩] ++ (tl ++ [⟨.mapClose, none⟩])) ++ rest =
          ⟨.mapOpen (fields.filter (emitP (.struct vs))).length, none⟩ :: (tl ++ ⟨.mapClose, none⟩ :: rest) := by simp
      rw [e1, unmBare_structMap, rtBare'_structMap, structFold_eq_filter, zeroVal_struct ts hd]
      simp only [hs, URes.shift_ok]
      simp
    · rw [hpk, show (999 : Nat) = 998 + 1 from rfl, marshalBare_structMap]
      exact ⟨_, seq_toks_head _ _⟩
  | other => simp [structTy, hd] at hp

theorem rts_v {f} (ih : RTS ts a trs it f) : ∀ p h k id v toks, p ≤ 64 → structTy ts a p id = true → hasTy ts h id v = true → distinctKeys' k v →
      marshalV ts a trs (f+1) id v = ⟨toks, none⟩ → ∀ g, f + 1 ≤ g → ∀ rest,
      unmV ts a trs it (f+1) id (zeroVal ts 64 id) (toks ++ rest) = .ok (rtV' ts a trs it g id v) rest toks.length ∧
      ∃ t r, toks = t :: r ∧ t.body ≠ .arrClose ∧ t.body ≠ .mapClose := by
  intro p h k id v toks hp64 hp hv hk hm g hg rest
  obtain ⟨g, rfl⟩ : ∃ g', g = g' + 1 := ⟨g - 1, by omega⟩
  obtain ⟨n, base, p', hpeel, hpb, hnp, hch, hp'p⟩ := struct_peel (ts := ts) (a := a) p 64 0 id hp hp64
  simp only [Nat.zero_add] at hpeel
  have hp'64 : p' + 1 ≤ 64 := by omega
  rw [marshalV_succ, hpeel] at hm
  rw [rtV'_succ, hpeel]
  simp only at hm ⊢
  cases n with
  | zero =>
    cases hch
    simp only [beq_self_eq_true, if_true] at hm ⊢
    obtain ⟨hu, hns⟩ := ih.b p' h k id v toks hp'64 hpb hnp hv hk hm g (by omega) rest
    have hhead : ∃ t r, toks = t :: r ∧ t.body ≠ .arrClose ∧ t.body ≠ .mapClose := by
      rcases hns with ⟨rfl, -⟩ | ⟨t, r, rfl, -, h1, h2, -⟩
      · exact ⟨_, _, rfl, by simp, by simp⟩
      · exact ⟨t, r, rfl, h1, h2⟩
    refine ⟨?_, hhead⟩
    obtain ⟨t, r, rfl, -, -⟩ := hhead
    rw [List.cons_append, unmV_cons, hpeel]
    simpa using hu
  | succ n =>
    have hn0 : ((n + 1 == 0) = false) := by simp
    simp only [hn0] at hm ⊢
    rcases chain_hasTy ts (n + 1) id base h v hch hv with hdn | ⟨inner, h', hdn, hvi⟩
    · rw [hdn] at hm ⊢
      simp [MOut.ok] at hm; subst hm
      refine ⟨?_, ⟨_, _, rfl, by simp, by simp⟩⟩
      rw [List.cons_append, unmV_cons, hpeel]
      simp
    · rw [hdn] at hm ⊢
      simp only at hm ⊢
      obtain ⟨k', hki⟩ := chain_distinct' (n + 1) k v inner hk hdn
      obtain ⟨hu, hns⟩ := ih.b p' h' k' base inner toks hp'64 hpb hnp hvi hki hm g (by omega) rest
      have hic := innerCur_zeroVal ts (n + 1) id base hch
      rcases hns with ⟨rfl, hnull⟩ | ⟨t, r, rfl, hnn, h1, h2, hnull⟩
      · refine ⟨?_, ⟨_, _, rfl, by simp, by simp⟩⟩
        rw [List.cons_append, unmV_cons, hpeel]
        simp [hnull]
      · refine ⟨?_, ⟨t, r, rfl, h1, h2⟩⟩
        rw [List.cons_append, unmV_cons, hpeel]
        simp only [hn0, hnull, Bool.false_eq_true, if_false, hic]
        rw [List.cons_append] at hu
        first
          | (rw [hu]; rfl)
          | (split
             · rename_i hb; exact absurd hb hnn
             · rw [hu]; rfl)

theorem rts_all (hz : ZeroStable ts) (f : Nat) : RTS ts a trs it f := by
  induction f with
  | zero => exact rts_zero
  | succ n ih => exact ⟨rts_v ih, rts_b hz ih, rts_l ih, rts_m ih, rts_s ih⟩

/-! #### the round-trip value against the specified value -/

theorem normStep_skip {id : Nat} (v : Val) (N : Nat → Val → Val) {fld : SMField} (he : emitP v fld = false) (acc : Val) :
    normStep ts id v N acc fld = acc := by
  rw [normStep_eq, he]; simp

theorem normStep_struct {id : Nat} {fds : List FieldDesc} (hd : ts.get id = .struct fds) (v : Val) {p : Nat}
    {fld : SMField} (hf : FOK ts a p fds fld) (he : emitP v fld = true) :
    ∃ (i : Nat) (fv : Val), i < fds.length ∧ fld.route = [i] ∧ traverse fld.route v = some fv ∧
      ∀ (N : Nat → Val → Val) (cs : List Val), cs.length = fds.length →
        normStep ts id v N (.struct cs) fld = .struct (cs.set i (N fld.ty fv)) := by
  obtain ⟨hign, i, fd, hroute, hfd, hty, hst⟩ := hf
  have hi : i < fds.length := (List.getElem?_eq_some_iff.mp hfd).1
  cases ht : traverse fld.route v with
  | none => simp [emitP, ht] at he
  | some fv =>
    refine ⟨i, fv, hi, hroute, rfl, fun N cs hcs => ?_⟩
    have hci : cs[i]? = some cs[i] := List.getElem?_eq_getElem (by omega)
    rw [normStep_eq, he]
    simp only [if_true, fieldStep, ht]
    rw [hroute, setRoute_one ts _ hd hfd hci]
    rfl

theorem fold_eqv {id : Nat} {fds : List FieldDesc} (hd : ts.get id = .struct fds) (v : Val) (N1 N2 : Nat → Val → Val) (p : Nat) :
    ∀ (fields : List SMField), (∀ fld ∈ fields, FOK ts a p fds fld) →
    (∀ fld ∈ fields, ∀ fv, traverse fld.route v = some fv → ValEqv' (N1 fld.ty fv) (N2 fld.ty fv)) →
    ∀ cs1 cs2 : List Val, cs1.length = fds.length → cs2.length = fds.length →
    (∀ (j : Nat) (x y : Val), cs1[j]? = some x → cs2[j]? = some y → ValEqv' x y) →
    ValEqv' (fields.foldl (normStep ts id v N1) (.struct cs1)) (fields.foldl (normStep ts id v N2) (.struct cs2)) := by
  intro fields
  induction fields with
  | nil =>
    intro _ _ cs1 cs2 h1 h2 hpt
    exact ValEqv'.struct (by omega) hpt
  | cons fld fs ih =>
    intro hfok hN cs1 cs2 h1 h2 hpt
    simp only [List.foldl_cons]
    have ihh := ih (fun y hy => hfok y (by simp [hy])) (fun y hy => hN y (by simp [hy]))
    cases he : emitP v fld with
    | false =>
      rw [normStep_skip v N1 he, normStep_skip v N2 he]
      exact ihh cs1 cs2 h1 h2 hpt
    | true =>
      obtain ⟨i, fv, hi, hroute, ht, hstep⟩ := normStep_struct hd v (hfok fld (by simp)) he
      rw [hstep N1 cs1 h1, hstep N2 cs2 h2]
      refine ihh _ _ (by simp [h1]) (by simp [h2]) (fun j x y hx hy => ?_)
      simp only [List.getElem?_set] at hx hy
      split at hx
      · rename_i hij
        subst hij
        simp only [h1, h2, hi, if_true, Option.some.injEq] at hx hy
        subst hx hy
        exact hN fld (by simp) fv ht
      · rename_i hij
        simp only [hij, if_false] at hy
        exact hpt j x y hx hy

/-- the struct fold depends on the field normalizer only through the traversed field values -/
theorem structFold_congr (id : Nat) (v : Val) (N1 N2 : Nat → Val → Val) (fields : List SMField)
    (hN : ∀ fld ∈ fields, ∀ fv, traverse fld.route v = some fv → N1 fld.ty fv = N2 fld.ty fv) :
    structFold ts id fields v N1 = structFold ts id fields v N2 := by
  unfold structFold
  generalize zeroVal ts 64 id = z
  induction fields generalizing z with
  | nil => rfl
  | cons fld fs ih =>
    simp only [List.foldl_cons]
    have : normStep ts id v N1 z fld = normStep ts id v N2 z fld := by
      unfold normStep
      split
      · rfl
      · split
        · rfl
        · rename_i fv ht
          rw [hN fld (by simp) fv ht]
    rw [this]
    exact ih (fun y hy => hN y (by simp [hy])) _

variable (ts a trs it)

/-- the round-trip value is the specified value up to the order of map entries -/
theorem rts_eqv_norm (g : Nat) :
    (∀ p k id v, p ≤ 64 → structTy ts a p id = true → distinctKeys' k v →
      ValEqv' (rtV' ts a trs it g id v) (normV .pretty ts a trs it g id v)) ∧
    (∀ p k id v, p + 1 ≤ 64 → structTy ts a (p + 1) id = true → (∀ e, ts.get id ≠ .ptr e) → distinctKeys' k v →
      ValEqv' (rtBare' ts a trs it g id (pickBare ts a id) v) (normBare .pretty ts a trs it g id (pickBare ts a id) v)) := by
  induction g with
  | zero =>
    exact ⟨fun _ _ _ v _ _ _ => by simp only [rtV', normV]; exact ValEqv'.refl v,
           fun _ _ _ v _ _ _ _ => by simp only [rtBare', normBare]; exact ValEqv'.refl v⟩
  | succ g ih =>
    constructor
    · intro p k id v hp64 hp hs
      obtain ⟨n, base, p', hpeel, hpb, hnp, hch, hp'p⟩ := struct_peel (ts := ts) (a := a) p 64 0 id hp hp64
      simp only [Nat.zero_add] at hpeel
      rw [rtV'_succ, normV_succ, hpeel]
      simp only
      split
      · exact ih.2 p' k base v (by omega) hpb hnp hs
      · cases hdn : derefN n v with
        | none => exact ValEqv'.refl _
        | some inner =>
          obtain ⟨k', hs'⟩ := chain_distinct' n k v inner hs hdn
          simp only
          split
          · exact ValEqv'.refl _
          · exact ValEqv'.wrap (ih.2 p' k' base inner (by omega) hpb hnp hs') n
    · intro p k id v hp64 hp hnp hs
      cases hd : ts.get id with
      | prim kk b =>
        have hn : a.get id = none := by simpa [structTy, hd] using hp
        rw [(pick_prim hd hn).1, rtBare'_prim, normBare_prim]; exact ValEqv'.refl _
      | bytes b =>
        have hn : a.get id = none := by simpa [structTy, hd] using hp
        rw [(pick_bytes hd hn).1, rtBare'_prim, normBare_prim]; exact ValEqv'.refl _
      | byteArr n =>
        have hn : a.get id = none := by simpa [structTy, hd] using hp
        rw [(pick_byteArr hd hn).1, rtBare'_prim, normBare_prim]; exact ValEqv'.refl _
      | slice e =>
        have hp' : a.get id = none ∧ structTy ts a p e = true := by simpa [structTy, hd] using hp
        rw [(pick_slice hd hp'.1).1, rtBare'_slice, normBare_slice]
        cases v <;> try exact ValEqv'.refl _
        rename_i o
        cases o with
        | none => exact ValEqv'.refl _
        | some vs =>
          cases k with
          | zero => simp [distinctKeys'] at hs
          | succ k =>
            simp only [distinctKeys'] at hs
            refine ValEqv'.slice (by simp) (fun q hq => ?_)
            obtain ⟨x, hx, rfl⟩ := zip_map_mem _ _ vs q hq
            exact ih.1 p k e x (by omega) hp'.2 (hs x hx)
      | arr n e =>
        have hp' : a.get id = none ∧ structTy ts a p e = true := by simpa [structTy, hd] using hp
        rw [(pick_arr hd hp'.1).1, rtBare'_array, normBare_array]
        cases v <;> try exact ValEqv'.refl _
        rename_i vs
        cases k with
        | zero => simp [distinctKeys'] at hs
        | succ k =>
          simp only [distinctKeys'] at hs
          refine ValEqv'.arr (by simp) (fun q hq => ?_)
          obtain ⟨x, hx, rfl⟩ := zip_map_mem _ _ vs q hq
          exact ih.1 p k e x (by omega) hp'.2 (hs x hx)
      | map kt vt =>
        have hp2 := hp
        simp only [structTy, hd, Bool.and_eq_true, Option.isNone_iff_eq_none] at hp2
        obtain ⟨⟨hn, hkt⟩, hpv⟩ := hp2
        rw [(pick_map hd hn).1, rtBare'_map, normBare_map]
        cases v <;> try exact ValEqv'.refl _
        rename_i o
        cases o with
        | none => exact ValEqv'.refl _
        | some es =>
          cases k with
          | zero => simp [distinctKeys'] at hs
          | succ k =>
            simp only [distinctKeys'] at hs
            obtain ⟨hstr, hnd, hsub⟩ := hs
            simp only
            refine ValEqv'.map (zs := es.map fun q => (q.1, rtV' ts a trs it g vt q.2)) ?_ (by simp) ?_ ?_
            · have hperm := (List.mergeSort_perm (es.map fun x => (keyStr x.1, x.2))
                (fun x y => keyLe a.defaultSort x.1 y.1)).map (fun (q : Bytes × Val) => (Val.str q.1, rtV' ts a trs it g vt q.2))
              refine hperm.trans (List.Perm.of_eq ?_)
              rw [List.map_map]
              refine List.map_congr_left (fun q hq => ?_)
              obtain ⟨s, hs1⟩ := hstr q hq
              obtain ⟨q1, q2⟩ := q
              simp only at hs1; subst hs1
              simp [keyStr]
            · intro q hq
              obtain ⟨x, hx, rfl⟩ := zip_map_mem _ _ es q hq
              rfl
            · intro q hq
              obtain ⟨x, hx, rfl⟩ := zip_map_mem _ _ es q hq
              exact ih.1 p k vt x.2 (by omega) hpv (hsub x hx)
      | ptr e => exact absurd hd (hnp e)
      | iface m => simp [structTy, hd] at hp
      | struct fds =>
        obtain ⟨reg, ty, fields, he, hnames, hroutes, hfok⟩ := structTy_struct hp hd
        rw [(pick_struct hd he).1, rtBare'_structMap, normBare_structMap]
        unfold structFold
        rw [zeroVal_struct ts hd]
        refine fold_eqv hd v _ _ p fields hfok (fun fld hf fv ht => ?_) _ _ (by simp) (by simp)
          (fun j x y hx hy => by rw [hx] at hy; cases hy; exact ValEqv'.refl _)
        obtain ⟨_, i, fd, hroute, _, _, hst⟩ := hfok fld hf
        rw [hroute] at ht
        obtain ⟨k', hk'⟩ := traverse_one_distinct i v fv k ht hs
        exact ih.1 p k' fld.ty fv (by omega) hst hk'
      | other => simp [structTy, hd] at hp

theorem derefN_sorted' (mode) : ∀ (n : Nat) (k : Nat) (v inner : Val), mapsSorted' mode k v → derefN n v = some inner →
    ∃ k', mapsSorted' mode k' inner := by
  intro n
  induction n with
  | zero => intro k v inner hk hd; simp [derefN] at hd; subst hd; exact ⟨k, hk⟩
  | succ n ih =>
    intro k v inner hk hd
    cases v <;> try (simp [derefN] at hd; done)
    rename_i o
    cases o with
    | none => simp [derefN] at hd
    | some x =>
      simp only [derefN] at hd
      cases k with
      | zero => simp [mapsSorted'] at hk
      | succ k => exact ih k x inner (by simpa [mapsSorted'] using hk) hd

theorem traverse_one_sorted (mode : KeySort) (i : Nat) (v fv : Val) (k : Nat) (ht : traverse [i] v = some fv) (hk : mapsSorted' mode k v) :
    ∃ k', mapsSorted' mode k' fv := by
  have key : ∀ vs k, mapsSorted' mode k (.struct vs) → vs[i]? = some fv → ∃ k', mapsSorted' mode k' fv := by
    intro vs k hk hi
    cases k with
    | zero => simp [mapsSorted'] at hk
    | succ k =>
      simp only [mapsSorted'] at hk
      exact ⟨k, hk fv (List.mem_of_getElem? hi)⟩
  cases v with
  | struct vs => rw [traverse_one] at ht; exact key vs k hk ht
  | ptr o =>
    cases o with
    | none => simp [traverse] at ht
    | some x =>
      cases k with
      | zero => simp [mapsSorted'] at hk
      | succ k =>
        simp only [mapsSorted'] at hk
        cases x with
        | struct vs =>
          have : traverse [i] (.ptr (some (.struct vs))) = vs[i]? := by
            simp only [traverse]
            cases vs[i]? <;> rfl
          rw [this] at ht
          exact key vs k hk ht
        | _ => simp [traverse] at ht
  | _ => simp [traverse] at ht

/-- on values whose maps (at every level, also inside struct fields) are listed in key order the round-trip value is
    exactly the specified value -/
theorem rts_eq_norm (g : Nat) :
    (∀ p k id v, p ≤ 64 → structTy ts a p id = true → mapsSorted' a.defaultSort k v →
      rtV' ts a trs it g id v = normV .pretty ts a trs it g id v) ∧
    (∀ p k id v, p + 1 ≤ 64 → structTy ts a (p + 1) id = true → (∀ e, ts.get id ≠ .ptr e) → mapsSorted' a.defaultSort k v →
      rtBare' ts a trs it g id (pickBare ts a id) v = normBare .pretty ts a trs it g id (pickBare ts a id) v) := by
  induction g with
  | zero => exact ⟨fun _ _ _ _ _ _ _ => by simp [rtV', normV], fun _ _ _ _ _ _ _ _ => by simp [rtBare', normBare]⟩
  | succ g ih =>
    constructor
    · intro p k id v hp64 hp hs
      obtain ⟨n, base, p', hpeel, hpb, hnp, hch, hp'p⟩ := struct_peel (ts := ts) (a := a) p 64 0 id hp hp64
      simp only [Nat.zero_add] at hpeel
      rw [rtV'_succ, normV_succ, hpeel]
      simp only
      split
      · exact ih.2 p' k base v (by omega) hpb hnp hs
      · cases hdn : derefN n v with
        | none => rfl
        | some inner =>
          obtain ⟨k', hs'⟩ := derefN_sorted' a.defaultSort n k v inner hs hdn
          simp only [ih.2 p' k' base inner (by omega) hpb hnp hs']
    · intro p k id v hp64 hp hnp hs
      cases hd : ts.get id with
      | prim kk b =>
        have hn : a.get id = none := by simpa [structTy, hd] using hp
        rw [(pick_prim hd hn).1, rtBare'_prim, normBare_prim]
      | bytes b =>
        have hn : a.get id = none := by simpa [structTy, hd] using hp
        rw [(pick_bytes hd hn).1, rtBare'_prim, normBare_prim]
      | byteArr n =>
        have hn : a.get id = none := by simpa [structTy, hd] using hp
        rw [(pick_byteArr hd hn).1, rtBare'_prim, normBare_prim]
      | slice e =>
        have hp' : a.get id = none ∧ structTy ts a p e = true := by simpa [structTy, hd] using hp
        rw [(pick_slice hd hp'.1).1, rtBare'_slice, normBare_slice]
        cases v <;> try rfl
        rename_i o
        cases o with
        | none => rfl
        | some vs =>
          cases k with
          | zero => simp [mapsSorted'] at hs
          | succ k =>
            simp only [mapsSorted'] at hs
            simp only [Val.slice.injEq, Option.some.injEq]
            exact List.map_congr_left (fun x hx => ih.1 p k e x (by omega) hp'.2 (hs x hx))
      | arr n e =>
        have hp' : a.get id = none ∧ structTy ts a p e = true := by simpa [structTy, hd] using hp
        rw [(pick_arr hd hp'.1).1, rtBare'_array, normBare_array]
        cases v <;> try rfl
        rename_i vs
        cases k with
        | zero => simp [mapsSorted'] at hs
        | succ k =>
          simp only [mapsSorted'] at hs
          simp only [Val.arr.injEq]
          exact List.map_congr_left (fun x hx => ih.1 p k e x (by omega) hp'.2 (hs x hx))
      | map kt vt =>
        have hp2 := hp
        simp only [structTy, hd, Bool.and_eq_true, Option.isNone_iff_eq_none] at hp2
        obtain ⟨⟨hn, hkt⟩, hpv⟩ := hp2
        rw [(pick_map hd hn).1, rtBare'_map, normBare_map]
        cases v <;> try rfl
        rename_i o
        cases o with
        | none => rfl
        | some es =>
          cases k with
          | zero => simp [mapsSorted'] at hs
          | succ k =>
            simp only [mapsSorted'] at hs
            obtain ⟨hsort, hstr, hsub⟩ := hs
            simp only [Val.map.injEq, Option.some.injEq]
            have : sortKeys a.defaultSort (es.map fun x => (keyStr x.1, x.2)) = es.map fun x => (keyStr x.1, x.2) :=
              List.mergeSort_of_pairwise hsort
            rw [this, List.map_map]
            refine List.map_congr_left (fun q hq => ?_)
            obtain ⟨s, hs1⟩ := hstr q hq
            obtain ⟨q1, q2⟩ := q
            simp only at hs1; subst hs1
            simp [keyStr, ih.1 p k vt q2 (by omega) hpv (hsub _ hq)]
      | ptr e => exact absurd hd (hnp e)
      | iface m => simp [structTy, hd] at hp
      | struct fds =>
        obtain ⟨reg, ty, fields, he, hnames, hroutes, hfok⟩ := structTy_struct hp hd
        rw [(pick_struct hd he).1, rtBare'_structMap, normBare_structMap]
        refine structFold_congr id v _ _ fields (fun fld hf fv ht => ?_)
        obtain ⟨_, i, fd, hroute, _, _, hst⟩ := hfok fld hf
        rw [hroute] at ht
        obtain ⟨k', hk'⟩ := traverse_one_sorted a.defaultSort i v fv k ht hs
        exact ih.1 p k' fld.ty fv (by omega) hst hk'
      | other => simp [structTy, hd] at hp

end structs


/-! #### the struct theorems -/

/-- the exact token-level round trip on `structTy` types: Clone returns `rtV'` -/
theorem clone_equal_struct_rt (ts : Types) (a : Atlas) (trs : Trs) (it : IfaceTys) (fuel id : Nat) (v : Val)
    (hp : structTy ts a 64 id = true) (hv : hasTy ts 1000 id v = true) (hkeys : distinctKeys' 1000 v)
    (hz : ZeroStable ts) (hok : (marshalV ts a trs fuel id v).fail = none) :
    clone ts a trs it fuel id v = some (rtV' ts a trs it fuel id v) := by
  have hm : marshalV ts a trs fuel id v = ⟨(marshalV ts a trs fuel id v).toks, none⟩ := by
    cases hm : marshalV ts a trs fuel id v with | mk t f => rw [hm] at hok; simp at hok; rw [hok]
  have := ((rts_all (ts := ts) (a := a) (trs := trs) (it := it) hz fuel).v 64 1000 1000 id v _ (Nat.le_refl _) hp hv hkeys hm fuel
    (Nat.le_refl _) []).1
  simp only [List.append_nil] at this
  simp [clone, hok, this]

/-- CORRECTED `clone_equal_struct`.  Three changes with respect to the original statement
    (`clone_equal_struct_statement`, refuted by `clone_equal_struct_false`):
    * `ValEqv` (C13) has no congruence rule for struct fields, so a map inside a struct field that comes back in key
      order is not `ValEqv` to the original: the conclusion uses `ValEqv'` = `ValEqv` + struct congruence;
    * `distinctKeys` does not descend into struct fields (a duplicate map key inside a field makes the unmarshaller
      reject): the hypothesis is `distinctKeys'`, which does;
    * `ZeroStable ts` (fuel side condition): the struct unmarshaller starts a nested struct from the field of the
      enclosing zero value, i.e. `zeroVal ts 63 _`, while `normBare` starts from `zeroVal ts 64 _`; they agree
      unless a type nests structs/arrays 63 deep (`zeroStable_of_check` gives a decidable criterion).
    `hf` is not needed. -/
theorem clone_equal_struct_fixed (ts : Types) (a : Atlas) (trs : Trs) (it : IfaceTys) (fuel id : Nat) (v : Val)
    (hp : structTy ts a 64 id = true) (hv : hasTy ts 1000 id v = true) (hkeys : distinctKeys' 1000 v)
    (hz : ZeroStable ts) (hok : (marshalV ts a trs fuel id v).fail = none) (hf : 1000 < fuel) :
    ∃ r, clone ts a trs it fuel id v = some r ∧ ValEqv' r (normV .pretty ts a trs it fuel id v) :=
  ⟨_, clone_equal_struct_rt ts a trs it fuel id v hp hv hkeys hz hok,
    (rts_eqv_norm ts a trs it fuel).1 64 1000 id v (Nat.le_refl _) hp hkeys⟩

/-- exact equality when every map of the value (also inside struct fields) is listed in the marshaller's key order -/
theorem clone_equal_struct_sorted (ts : Types) (a : Atlas) (trs : Trs) (it : IfaceTys) (fuel id : Nat) (v : Val)
    (hp : structTy ts a 64 id = true) (hv : hasTy ts 1000 id v = true) (hkeys : distinctKeys' 1000 v)
    (hsorted : mapsSorted' a.defaultSort 1000 v)
    (hz : ZeroStable ts) (hok : (marshalV ts a trs fuel id v).fail = none) :
    clone ts a trs it fuel id v = some (normV .pretty ts a trs it fuel id v) := by
  rw [clone_equal_struct_rt ts a trs it fuel id v hp hv hkeys hz hok,
    (rts_eq_norm ts a trs it fuel).1 64 1000 id v (Nat.le_refl _) hp hsorted]

/-! a decidable criterion for `ZeroStable` -/

/-- the zero value of the type is complete within `k` levels of struct / array nesting -/
def zFin (ts : Types) : Nat → Nat → Bool
  | 0, _ => false
  | k+1, id =>
    match ts.get id with
    | .arr _ e => zFin ts k e
    | .struct fs => fs.all fun f => zFin ts k f.ty
    | _ => true

theorem zFin_stable (ts : Types) : ∀ (k id : Nat), zFin ts k id = true → ∀ m, k ≤ m → zeroVal ts m id = zeroVal ts k id := by
  intro k
  induction k with
  | zero => intro id h; simp [zFin] at h
  | succ k ih =>
    intro id h m hm
    obtain ⟨m, rfl⟩ : ∃ m', m = m' + 1 := ⟨m - 1, by omega⟩
    rw [zeroVal.eq_def ts (m + 1) id, zeroVal.eq_def ts (k + 1) id]
    simp only
    cases hd : ts.get id with
    | arr n e =>
      have he : zFin ts k e = true := by simpa [zFin, hd] using h
      simp only [ih e he m (by omega)]
    | struct fs =>
      have he : ∀ f ∈ fs, zFin ts k f.ty = true := by simpa [zFin, hd] using h
      simp only [Val.struct.injEq]
      exact List.map_congr_left (fun f hf => ih f.ty (he f hf) m (by omega))
    | _ => rfl

theorem zeroStable_of_check (ts : Types) (h : (ts.all fun p => zFin ts 63 p.1) = true) : ZeroStable ts := by
  intro t
  cases hl : ts.lookup t with
  | none =>
    have hg : ts.get t = .other := by simp [Types.get, hl]
    rw [zeroVal.eq_def ts 63 t, zeroVal.eq_def ts 64 t]
    simp [hg]
  | some d =>
    have := List.all_eq_true.mp h _ (lookup_mem hl)
    exact (zFin_stable ts 63 t this 64 (by omega)).symm

/-! counterexample to the original statement: a struct with one map field listed out of key order -/
def ceTsS : Types := [(0, .struct [⟨[77], 1, true, false, none⟩]), (1, .map 2 3), (2, .prim .string true), (3, .prim .int true)]
def ceAS : Atlas := ⟨[⟨true, 0, none, .structMap [⟨[109], false, [0], 1, false⟩]⟩], .default⟩
def ceVS : Val := .struct [ceV]

theorem ceS_struct : structTy ceTsS ceAS 64 0 = true := by decide
theorem ceS_hasTy : hasTy ceTsS 1000 0 ceVS = true := by decide
theorem ceS_zero : ZeroStable ceTsS := zeroStable_of_check _ (by decide)
theorem ceS_distinct : distinctKeys 1000 ceVS := by
  show distinctKeys (999 + 1) (.struct [ceV])
  rw [distinctKeys]
  all_goals (first | trivial | (intro _ h; cases h))
theorem ceS_distinct' : distinctKeys' 1000 ceVS := by
  show distinctKeys' (999 + 1) (.struct [ceV])
  rw [distinctKeys']
  intro x hx
  simp only [List.mem_singleton] at hx
  subst hx
  show distinctKeys' (998 + 1) (.map (some [(.str [98], .int 1), (.str [97], .int 2)]))
  rw [distinctKeys']
  refine ⟨by simp, by simp [keyStr], fun p hp => ?_⟩
  simp at hp
  rcases hp with rfl | rfl <;> (show distinctKeys' (997 + 1) (Val.int _); simp [distinctKeys'])
theorem ceS_ok (n : Nat) : (marshalV ceTsS ceAS ceTrs (n + 12) 0 ceVS).fail = none := by
  simp [marshalV, marshalBare, marshalFields, marshalEntries, peel, ceTsS, ceAS, ceVS, ceV, Types.get, List.lookup, pickBare,
    Atlas.get, machForEntry, traverse, sortKeys, List.mergeSort, List.merge, keyLe, bytesLe, bytesLt, MOut.seq, MOut.ok, primTok]
theorem ceS_get0 : ceTsS.get 0 = .struct [⟨[77], 1, true, false, none⟩] := by simp [Types.get, ceTsS, List.lookup]
theorem ceS_get1 : ceTsS.get 1 = .map 2 3 := by simp [Types.get, ceTsS, List.lookup]
theorem ceS_get3 : ceTsS.get 3 = .prim .int true := by simp [Types.get, ceTsS, List.lookup]
theorem ceS_peel0 : peel ceTsS 64 0 0 = (0, 0) := by simp [peel, ceS_get0]
theorem ceS_peel1 : peel ceTsS 64 0 1 = (0, 1) := by simp [peel, ceS_get1]
theorem ceS_peel3 : peel ceTsS 64 0 3 = (0, 3) := by simp [peel, ceS_get3]
theorem ceS_pick0 : pickBare ceTsS ceAS 0 = .structMap ⟨true, 0, none, .structMap [⟨[109], false, [0], 1, false⟩]⟩ [⟨[109], false, [0], 1, false⟩] := by
  simp [pickBare, ceS_get0, ceAS, Atlas.get, machForEntry]
theorem ceS_pick1 : pickBare ceTsS ceAS 1 = .map 2 3 .default := by
  simp [pickBare, ceS_get1, ceAS, Atlas.get]
theorem ceS_pick3 : pickBare ceTsS ceAS 3 = .prim := by
  simp [pickBare, ceS_get3, ceAS, Atlas.get]
theorem ceS_zero0 : zeroVal ceTsS 64 0 = .struct [.map none] := by
  rw [zeroVal_struct ceTsS ceS_get0]
  simp only [List.map_cons, List.map_nil]
  rw [zeroVal.eq_def ceTsS 63 1]
  simp [ceS_get1]

theorem ceS_step (N : Nat → Val → Val) : structFold ceTsS 0 [⟨[109], false, [0], 1, false⟩] ceVS N = .struct [N 1 ceV] := by
  unfold structFold
  rw [ceS_zero0]
  simp only [List.foldl_cons, List.foldl_nil, normStep, ceVS, traverse_one]
  simp [setRoute_one ceTsS _ ceS_get0 (i := 0) (fd := ⟨[77], 1, true, false, none⟩) (cs := [.map none]) (c := .map none) rfl rfl]

theorem ceS_rt (it : IfaceTys) (n : Nat) : rtV' ceTsS ceAS ceTrs it (n + 12) 0 ceVS = .struct [.map (some [(.str [97], .int 2), (.str [98], .int 1)])] := by
  show rtV' ceTsS ceAS ceTrs it ((n + 11) + 1) 0 ceVS = _
  rw [rtV'_succ, ceS_peel0]
  simp only [beq_self_eq_true, if_true]
  rw [ceS_pick0]
  show rtBare' ceTsS ceAS ceTrs it ((n + 10) + 1) 0 _ ceVS = _
  rw [rtBare'_structMap, ceS_step]
  show Val.struct [rtV' ceTsS ceAS ceTrs it ((n + 9) + 1) 1 ceV] = _
  rw [rtV'_succ, ceS_peel1]
  simp only [beq_self_eq_true, if_true]
  rw [ceS_pick1]
  show Val.struct [rtBare' ceTsS ceAS ceTrs it ((n + 8) + 1) 1 _ ceV] = _
  rw [rtBare'_map]
  have h3 : ∀ x, rtV' ceTsS ceAS ceTrs it (n + 8) 3 x = x := by
    intro x
    show rtV' ceTsS ceAS ceTrs it ((n + 7) + 1) 3 x = x
    rw [rtV'_succ, ceS_peel3]
    simp only [beq_self_eq_true, if_true]
    rw [ceS_pick3]
    show rtBare' ceTsS ceAS ceTrs it ((n + 6) + 1) 3 _ x = x
    rw [rtBare'_prim]
  simp [ceV, h3, keyStr, sortKeys, List.mergeSort, List.merge, keyLe, bytesLe, bytesLt]

theorem ceS_norm (it : IfaceTys) (n : Nat) : normV .pretty ceTsS ceAS ceTrs it (n + 12) 0 ceVS = ceVS := by
  show normV .pretty ceTsS ceAS ceTrs it ((n + 11) + 1) 0 ceVS = _
  rw [normV_succ, ceS_peel0]
  simp only [beq_self_eq_true, if_true]
  rw [ceS_pick0]
  show normBare .pretty ceTsS ceAS ceTrs it ((n + 10) + 1) 0 _ ceVS = _
  rw [normBare_structMap, ceS_step]
  show Val.struct [normV .pretty ceTsS ceAS ceTrs it ((n + 9) + 1) 1 ceV] = _
  rw [normV_succ, ceS_peel1]
  simp only [beq_self_eq_true, if_true]
  rw [ceS_pick1]
  show Val.struct [normBare .pretty ceTsS ceAS ceTrs it ((n + 8) + 1) 1 _ ceV] = _
  rw [normBare_map]
  have h3 : ∀ x, normV .pretty ceTsS ceAS ceTrs it (n + 8) 3 x = x := by
    intro x
    show normV .pretty ceTsS ceAS ceTrs it ((n + 7) + 1) 3 x = x
    rw [normV_succ, ceS_peel3]
    simp only [beq_self_eq_true, if_true]
    rw [ceS_pick3]
    show normBare .pretty ceTsS ceAS ceTrs it ((n + 6) + 1) 3 _ x = x
    rw [normBare_prim]
  simp [ceVS, ceV, h3]
theorem ValEqv_struct_inv {xs : List Val} {y : Val} (h : ValEqv (.struct xs) y) : y = .struct xs := by
  cases h; rfl

/-- The original statement fails on `struct{M map[string]int}{M: {"b":1, "a":2}}` (entries listed in that order):
    the copy holds the entries in key order, and `ValEqv` cannot look inside struct fields.  (As for
    `complete_plain_false` the culprit is the statement, not the model: Go maps are unordered.) -/
theorem clone_equal_struct_false : ¬ clone_equal_struct_statement := by
  intro h
  obtain ⟨r, hr, heq⟩ := h ceTsS ceAS ceTrs default (989 + 12) 0 ceVS ceS_struct ceS_hasTy ceS_distinct (ceS_ok 989) (by omega)
  rw [clone_equal_struct_rt ceTsS ceAS ceTrs default (989 + 12) 0 ceVS ceS_struct ceS_hasTy ceS_distinct' ceS_zero (ceS_ok 989)] at hr
  cases hr
  rw [ceS_rt, ceS_norm] at heq
  have := ValEqv_struct_inv heq
  simp [ceVS, ceV] at this

/-! non-vacuity: a struct with a two-field struct-map entry, the second field `omitempty` -/
def exTs : Types := [(0, .struct [⟨[65], 1, true, false, none⟩, ⟨[66], 2, true, false, none⟩]), (1, .prim .string true), (2, .prim .int true)]
def exA : Atlas := ⟨[⟨true, 0, none, .structMap [⟨[97], false, [0], 1, false⟩, ⟨[98], false, [1], 2, true⟩]⟩], .default⟩
def exV : Val := .struct [.str [120], .int 0]

example : structTy exTs exA 64 0 = true ∧ hasTy exTs 1000 0 exV = true := by decide
example : ZeroStable exTs := zeroStable_of_check _ (by decide)


theorem ex_distinct : distinctKeys' 1000 exV := by
  show distinctKeys' (999 + 1) (.struct [.str [120], .int 0])
  rw [distinctKeys']
  intro x hx
  simp only [List.mem_cons, List.not_mem_nil, or_false] at hx
  rcases hx with rfl | rfl <;> (show distinctKeys' (998 + 1) _; simp [distinctKeys'])

theorem ex_empty : isEmpty 1000 (.int 0) = true := by decide
theorem ex_ok (n : Nat) : (marshalV exTs exA ceTrs (n + 12) 0 exV).fail = none := by
  simp [marshalV, marshalBare, marshalFields, peel, exTs, exA, exV, Types.get, List.lookup, pickBare,
    Atlas.get, machForEntry, traverse, ex_empty, MOut.seq, MOut.ok, primTok]

/-- the corrected theorem applies to the example (the `omitempty` field is empty, hence omitted) -/
example (it : IfaceTys) : ∃ r, clone exTs exA ceTrs it 1001 0 exV = some r ∧ ValEqv' r (normV .pretty exTs exA ceTrs it 1001 0 exV) :=
  clone_equal_struct_fixed exTs exA ceTrs it (989 + 12) 0 exV (by decide) (by decide) ex_distinct
    (zeroStable_of_check _ (by decide)) (ex_ok 989) (by omega)

end Refmt.C11
