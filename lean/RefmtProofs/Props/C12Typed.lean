/-
  C12, claim (ii) — the re-marshalled document still decodes, into the value's own type, to the value.

  The chain in refmt is   v ─M→ b1 ─U(untyped)→ u1 ─M→ b2   and C12 claims
    (i)  b2 is a byte-exact fixpoint of (Unmarshal-into-untyped, Marshal)        [RefmtProofs/Props/C12.lean];
    (ii) b2 still decodes INTO v's OWN TYPE to a value equal to v (in the round-trip sense `normV`)   [this file].

  Token level.  Let t1 = Marshal(v) at type `id`, u1 = what an untyped slot (`interface{}`) reads from t1, and
  t2 = Marshal(u1).  t2 differs from t1: every map-shaped item (Go maps, structs, keyed unions) has its entries in the
  atlas' default key order (a struct's fields come out sorted by NAME, not in the atlas' field order), and non-negative
  integers below 2^63 written from unsigned Go types are spelled `int` instead of `uint`.  Declared lengths are unchanged.

  `remarshal_typed_leg_tokens`  : for every type of the class `C13Full.fullTy` (structs with struct-map entries, keyed
        unions, transforms, untyped slots, slices / arrays / string-keyed maps / pointers of these), over an atlas WITHOUT
        TAGGED ENTRIES (`NoTags`), and every value satisfying the side conditions of `C13Full.clone_equal_full`:
        for every sufficiently large fuel the untyped pass succeeds and consumes t1 exactly, the re-marshal succeeds, and
        t2 read into a zero value of type `id` is accepted, consumed exactly, and yields a value equal, up to the order of
        map entries (`ValEqv''`), to the specified round-trip value `normV .pretty … id v`.
        In fact the value read from t2 is EXACTLY the one read from t1 (`remarshal_typed_same_as_first_pass`: both are `rtF`).
  `remarshal_typed_leg_tokens_hyp` : the same in hypothesis form (given that the untyped pass returned u1 and the
        re-marshal t2, at a sufficiently large fuel).
  `remarshal_typed_leg_cbor` / `remarshal_typed_leg_json` : byte-level corollaries through the codec transport theorems.

  Proof (RefmtProofs/Lemmas/Leg*.lean): an induction over the marshaller's fuel that follows `C13Full`'s round-trip
  induction `RTF` case by case; for each value it produces the untyped value `u`, its re-rendering `tk2`, and shows that
  `tk2` reads as `rtF` (`Leg`).  The three genuinely new ingredients are
    * `UP_map`     : the untyped pass on a map-shaped item re-emits its entries sorted (`sortI`);
    * `rd_struct` + `foldl_setStep_perm` : the struct machine looks fields up by name and writes them by route, so any
                     order of the (distinct) entries gives the same struct;
    * `storePrim_scalU` / `unmWild_scalU` : neither a scalar target nor an untyped slot sees the `uint` → `int` re-spelling.

  Domain restriction (honest): TAGS.  With a tagged entry the untyped pass does not produce a native untyped value but
  reconstructs the registered type (`unmWild`'s `getByTag` branch), and only if the tag leads back to the same entry;
  an unregistered or shadowed tag makes the untyped pass fail or reconstruct another type.  That case is not covered
  here (`NoTags a`: no atlas entry carries a tag); `tagged_statement` records the intended extension, unproved.
  Fuel: the untyped pass needs more fuel per nesting level than the typed machines (five units per level against
  three), and the sorted order moves entries to other positions in the per-entry fuel countdown; the theorems are
  therefore stated for every fuel above some bound `N` (fuel is a model artefact).

  Findings: none against refmt.  Re-ordering entries never changes what the typed unmarshaller returns on this domain:
  struct fields are found by name (field names are pairwise distinct in `fullTy`), duplicate detection in maps is
  order-independent, and for Go maps the order does not change at all (t1 is already sorted by the same order).
  Non-vacuity: `lgTs` / `lgA` / `lgV` at the end (a struct with fields declared B, A holding a map with keys z, y).
-/
import RefmtModel
import RefmtProofs.Lemmas.LegRT5
import RefmtProofs.Props.C13Full
import RefmtProofs.Props.C01
set_option linter.unusedSimpArgs false
set_option linter.unusedVariables false
namespace Refmt.C12Typed
open Refmt Refmt.Obj Refmt.C13 Refmt.C11 Refmt.C12

/-- Claim (ii) at token level.  `g` is the fuel at which the specification `normV` (and the side conditions
    `fullVal`) are evaluated; `fuel0` a fuel at which the marshaller succeeds on `v`. -/
theorem remarshal_typed_leg_tokens (ts : Types) (a : Atlas) (trs : Trs) (it : IfaceTys) (fuel0 g id : Nat) (v : Val) (t1 : List Tok)
    (hp : fullTy ts a 64 id = true) (hv : hasTy ts 1000 id v = true) (hside : fullVal ts a trs it g id v = true)
    (he : UEnv ts a it) (hz : ZeroStable ts) (htr : TrsEqv trs) (hnt : NoTags a)
    (hm : marshalV ts a trs fuel0 id v = ⟨t1, none⟩) (h0 : fuel0 ≤ 1000) (hg : fuel0 ≤ g) :
    ∃ N, ∀ fuel, N ≤ fuel → ∃ u1 t2 r,
      unmV ts a trs it fuel it.iface (.iface none) t1 = .ok u1 [] t1.length ∧
      marshalV ts a trs fuel it.iface u1 = ⟨t2, none⟩ ∧
      unmV ts a trs it fuel id (zeroVal ts 64 id) t2 = .ok r [] t2.length ∧
      r = rtF ts a trs it g id v ∧
      ValEqv'' r (normV .pretty ts a trs it g id v) := by
  obtain ⟨u, tk2, N, hgood⟩ := (leg_all he hz htr hnt fuel0 h0).v 64 1000 id v t1 g (Nat.le_refl _) hp hv hg hside hm
  refine ⟨N, fun fuel hF => ⟨u, tk2, rtF ts a trs it g id v, ?_, (hgood.1.2 fuel hF).2, ?_, rfl,
    (rtf_eqv_norm htr he g).1 64 id v (Nat.le_refl _) hp hside⟩⟩
  · have := (hgood.1.2 fuel hF).1 []
    rw [zeroVal_iface he] at this
    simpa using this
  · have := hgood.2 fuel hF []
    simpa using this

/-- the same in hypothesis form: whenever (at a sufficiently large fuel) the untyped pass returns `u1` and the
    re-marshal `t2`, then `t2` decodes into `v`'s own type to the specified value -/
theorem remarshal_typed_leg_tokens_hyp (ts : Types) (a : Atlas) (trs : Trs) (it : IfaceTys) (fuel0 g id : Nat) (v : Val) (t1 : List Tok)
    (hp : fullTy ts a 64 id = true) (hv : hasTy ts 1000 id v = true) (hside : fullVal ts a trs it g id v = true)
    (he : UEnv ts a it) (hz : ZeroStable ts) (htr : TrsEqv trs) (hnt : NoTags a)
    (hm : marshalV ts a trs fuel0 id v = ⟨t1, none⟩) (h0 : fuel0 ≤ 1000) (hg : fuel0 ≤ g) :
    ∃ N, ∀ fuel, N ≤ fuel → ∀ (u1 : Val) (k : Nat) (t2 : List Tok),
      unmV ts a trs it fuel it.iface (.iface none) t1 = .ok u1 [] k →
      marshalV ts a trs fuel it.iface u1 = ⟨t2, none⟩ →
      ∃ r, unmV ts a trs it fuel id (zeroVal ts 64 id) t2 = .ok r [] t2.length ∧
        ValEqv'' r (normV .pretty ts a trs it g id v) := by
  obtain ⟨N, hN⟩ := remarshal_typed_leg_tokens ts a trs it fuel0 g id v t1 hp hv hside he hz htr hnt hm h0 hg
  refine ⟨N, fun fuel hF u1 k t2 h1 h2 => ?_⟩
  obtain ⟨u1', t2', r, e1, e2, e3, -, e4⟩ := hN fuel hF
  rw [e1] at h1
  cases h1
  rw [e2] at h2
  cases h2
  exact ⟨r, e3, e4⟩

/-- the typed reading of the re-marshalled tokens is EXACTLY the typed reading of the first rendering (Clone's result) -/
theorem remarshal_typed_same_as_first_pass (ts : Types) (a : Atlas) (trs : Trs) (it : IfaceTys) (fuel0 id : Nat) (v : Val) (t1 : List Tok)
    (hp : fullTy ts a 64 id = true) (hv : hasTy ts 1000 id v = true)
    (he : UEnv ts a it) (hz : ZeroStable ts) (htr : TrsEqv trs) (hnt : NoTags a)
    (hm : marshalV ts a trs fuel0 id v = ⟨t1, none⟩) (h0 : fuel0 ≤ 1000)
    (hside : ∀ g, fullVal ts a trs it g id v = true) :
    ∃ N, ∀ fuel, N ≤ fuel → ∃ u1 t2 r,
      unmV ts a trs it fuel it.iface (.iface none) t1 = .ok u1 [] t1.length ∧
      marshalV ts a trs fuel it.iface u1 = ⟨t2, none⟩ ∧
      unmV ts a trs it fuel id (zeroVal ts 64 id) t2 = .ok r [] t2.length ∧
      unmV ts a trs it fuel id (zeroVal ts 64 id) t1 = .ok r [] t1.length := by
  obtain ⟨N, hN⟩ := remarshal_typed_leg_tokens ts a trs it fuel0 fuel0 id v t1 hp hv (hside _) he hz htr hnt hm h0 (Nat.le_refl _)
  refine ⟨max N (fuel0 + 1), fun fuel hF => ?_⟩
  obtain ⟨u1, t2, r, e1, e2, e3, e4, -⟩ := hN fuel (by omega)
  refine ⟨u1, t2, r, e1, e2, e3, ?_⟩
  have := ((rtf_all he hz htr fuel0 h0).v 64 1000 id v t1 fuel0 (Nat.le_refl _) hp hv (Nat.le_refl _) (hside _) hm).2 fuel (by omega) []
  rw [e4]
  simpa using this


/-! ### Byte level -/

/-- decode one CBOR item and hand its tokens to the unmarshaller (target type `id`): the value, if the document is
    accepted and consumed exactly -/
def viaDecCbor (ts : Types) (a : Atlas) (trs : Trs) (it : IfaceTys) (fuel id : Nat) (bs : Bytes) : Option Val :=
  let o := CborDec.decode false (Rd.ofBytes bs)
  if o.res.isOk then
    (match unmV ts a trs it fuel id (zeroVal ts 64 id) o.toks with
     | .ok r [] _ => some r
     | _ => none)
  else none

def viaDecJson (ts : Types) (a : Atlas) (trs : Trs) (it : IfaceTys) (fuel id : Nat) (bs : Bytes) : Option Val :=
  let o := JsonDec.decode (Rd.ofBytes bs)
  if o.res.isOk then
    (match unmV ts a trs it fuel id (zeroVal ts 64 id) o.toks with
     | .ok r [] _ => some r
     | _ => none)
  else none

/-- Claim (ii) for CBOR: b1 = CBOR(Marshal v) decodes into an untyped variable to `u1`; Marshal(u1) = t2; and (provided
    t2 is within what the CBOR codec theorems cover, `carryCbor`: numbers in the 64-bit kinds, items within the decoder's
    per-item cap) b2 = CBOR(t2) decodes into `v`'s own type to the specified value. -/
theorem remarshal_typed_leg_cbor (ts : Types) (a : Atlas) (trs : Trs) (it : IfaceTys) (fuel0 g id : Nat) (v : Val) (t1 : List Tok)
    (hp : fullTy ts a 64 id = true) (hv : hasTy ts 1000 id v = true) (hside : fullVal ts a trs it g id v = true)
    (he : UEnv ts a it) (hz : ZeroStable ts) (htr : TrsEqv trs) (hnt : NoTags a)
    (hm : marshalV ts a trs fuel0 id v = ⟨t1, none⟩) (h0 : fuel0 ≤ 1000) (hg : fuel0 ≤ g)
    (hc1 : t1.all C01.carryCbor = true) :
    ∃ N, ∀ fuel, N ≤ fuel → ∃ b1 u1 t2,
      C01.encodeCbor t1 = some b1 ∧
      viaDecCbor ts a trs it fuel it.iface b1 = some u1 ∧
      marshalV ts a trs fuel it.iface u1 = ⟨t2, none⟩ ∧
      (t2.all C01.carryCbor = true → ∃ b2 r,
        C01.encodeCbor t2 = some b2 ∧ viaDecCbor ts a trs it fuel id b2 = some r ∧
        ValEqv'' r (normV .pretty ts a trs it g id v)) := by
  obtain ⟨N, hN⟩ := remarshal_typed_leg_tokens ts a trs it fuel0 g id v t1 hp hv hside he hz htr hnt hm h0 hg
  refine ⟨N, fun fuel hF => ?_⟩
  obtain ⟨u1, t2, r, e1, e2, e3, -, e4⟩ := hN fuel hF
  obtain ⟨b1, hb1, ht1, hr1, -⟩ := C01.transport_cbor ts a trs fuel0 id v t1 hm hc1
  have hfit1 : t1.all C01.intFits = true :=
    List.all_eq_true.mpr fun t ht => C01.carryCbor_intFits (List.all_eq_true.mp hc1 t ht)
  refine ⟨b1, u1, t2, hb1, ?_, e2, fun hc2 => ?_⟩
  · unfold viaDecCbor
    simp only [ht1, hr1, Except.isOk, Except.toBool, if_true, zeroVal_iface he]
    rw [C01.unm_canon_fixed ts a trs it fuel it.iface _ t1 hfit1, e1]
    simp [C01.URes.mapRest]
  · obtain ⟨b2, hb2, ht2, hr2, -⟩ := C01.transport_cbor ts a trs fuel it.iface u1 t2 e2 hc2
    have hfit2 : t2.all C01.intFits = true :=
      List.all_eq_true.mpr fun t ht => C01.carryCbor_intFits (List.all_eq_true.mp hc2 t ht)
    refine ⟨b2, r, hb2, ?_, e4⟩
    unfold viaDecCbor
    simp only [ht2, hr2, Except.isOk, Except.toBool, if_true]
    rw [C01.unm_canon_fixed ts a trs it fuel id _ t2 hfit2, e3]
    simp [C01.URes.mapRest]

/-- tokens an untyped slot reads alike before and after a JSON round trip: valid UTF-8 strings, no floats (a float's
    text may come back as an integer, which an untyped slot stores as an `int`: that case belongs to `normV .json`) -/
def jsonSame (t : Tok) : Bool :=
  t.tag.isNone &&
  (match t.body with
   | .float _ => false
   | .bytes _ => false
   | .str s => toValidUtf8 s == s
   | _ => true)

theorem compat_retype (t : Tok) (h : jsonSame t = true) : Compat t (Spec.Json.retypeTok t) := by
  obtain ⟨b, tg⟩ := t
  simp only [jsonSame, Bool.and_eq_true, Option.isNone_iff_eq_none] at h
  obtain ⟨rfl, hb⟩ := h
  refine ⟨rfl, rfl, ?_⟩
  cases b <;> simp only [Spec.Json.retypeTok, BodyCompat] <;> try (first | rfl | exact ⟨_, rfl⟩ | (simp at hb; done))
  case str s => simp only [beq_iff_eq] at hb; rw [hb]
  case int i => simp
  case uint n =>
    by_cases hn : n < two63 <;> simp [hn]

/-- Claim (ii) for JSON, restricted: types without untyped slots, unions and transforms (`C01.typedTy`), atlas without
    ignored fields, a first rendering free of floats, byte strings and invalid UTF-8 (`jsonSame`), and — as antecedent —
    a re-marshalled rendering `t2` within what the JSON codec theorems cover (`carryJson`, `plainJson`). -/
theorem remarshal_typed_leg_json (c : JsonEnc.Cfg) (ts : Types) (a : Atlas) (trs : Trs) (it : IfaceTys) (fuel0 g id : Nat) (v : Val)
    (t1 : List Tok)
    (hp : fullTy ts a 64 id = true) (hv : hasTy ts 1000 id v = true) (hside : fullVal ts a trs it g id v = true)
    (he : UEnv ts a it) (hz : ZeroStable ts) (htr : TrsEqv trs) (hnt : NoTags a)
    (hm : marshalV ts a trs fuel0 id v = ⟨t1, none⟩) (h0 : fuel0 ≤ 1000) (hg : fuel0 ≤ g)
    (hcfg : C03.cfgOk c = true) (hni : C01L.noIgnore a = true) (hty : C01.typedTy ts a 64 id = true)
    (hc1 : t1.all C01.carryJson = true) (hs1 : t1.all jsonSame = true) :
    ∃ N, ∀ fuel, N ≤ fuel → ∃ b1 u1 t2,
      C01.encodeJson c t1 = some b1 ∧
      viaDecJson ts a trs it fuel it.iface b1 = some u1 ∧
      marshalV ts a trs fuel it.iface u1 = ⟨t2, none⟩ ∧
      (t2.all C01.carryJson = true → t2.all C01.plainJson = true → ∃ b2 r,
        C01.encodeJson c t2 = some b2 ∧ viaDecJson ts a trs it fuel id b2 = some r ∧
        ValEqv'' r (normV .pretty ts a trs it g id v)) := by
  obtain ⟨N, hN⟩ := remarshal_typed_leg_tokens ts a trs it fuel0 g id v t1 hp hv hside he hz htr hnt hm h0 hg
  refine ⟨N, fun fuel hF => ?_⟩
  obtain ⟨u1, t2, r, e1, e2, e3, -, e4⟩ := hN fuel hF
  obtain ⟨b1, hb1, ht1, hr1⟩ := C01.transport_json c ts a trs fuel0 id v t1 hcfg hm hc1
  refine ⟨b1, u1, t2, hb1, ?_, e2, fun hc2 hp2 => ?_⟩
  · unfold viaDecJson
    simp only [ht1, hr1, Except.isOk, Except.toBool, if_true, zeroVal_iface he]
    rw [unm_compat trs he Spec.Json.retypeTok fuel _ t1 (fun t ht => compat_retype t (List.all_eq_true.mp hs1 t ht)), e1]
    simp [mapRes]
  · obtain ⟨b2, hb2, ht2, hr2⟩ := C01.transport_json c ts a trs fuel it.iface u1 t2 hcfg e2 hc2
    refine ⟨b2, r, hb2, ?_, e4⟩
    unfold viaDecJson
    simp only [ht2, hr2, Except.isOk, Except.toBool, if_true]
    rw [C01.unm_retype_typed_partial ts a trs it fuel id _ t2 r [] _ hni hty hc2 hp2 e3]
    simp

/-! ### Non-vacuity

  Type 0 = `struct { B map[string]uint; A int }` with the struct-map entry `b ↦ B, a ↦ A` (fields declared in
  non-alphabetical order), the value `{B: {"z": 1, "y": 2}, A: 7}` (map entries listed unsorted). -/

def lgTs : Types := [
  (0, .struct [⟨[66], 9, true, false, none⟩, ⟨[65], 2, true, false, none⟩]),
  (1, .prim .string true), (2, .prim .int true), (3, .bytes true), (4, .prim .bool true), (5, .prim .uint64 true), (6, .prim .f64 true),
  (7, .map 1 20), (8, .slice 20), (20, .iface false),
  (9, .map 1 10), (10, .prim .uint true)]

def lgA : Atlas := ⟨[⟨true, 0, none, .structMap [⟨[98], false, [0], 9, false⟩, ⟨[97], false, [1], 2, false⟩]⟩], .default⟩
def lgIt : IfaceTys := ⟨1, 3, 4, 2, 5, 6, 7, 8, 20⟩
def lgTrs : Trs := ⟨fun _ _ => none, fun _ _ => none⟩
def lgV : Val := .struct [.map (some [(.str [122], .uint 1), (.str [121], .uint 2)]), .int 7]

/-- first rendering: fields in atlas order (b, a), map keys sorted (y, z), unsigned spelling -/
def lgT1 : List Tok := [⟨.mapOpen 2, none⟩, ⟨.str [98], none⟩, ⟨.mapOpen 2, none⟩, ⟨.str [121], none⟩, ⟨.uint 2, none⟩,
  ⟨.str [122], none⟩, ⟨.uint 1, none⟩, ⟨.mapClose, none⟩, ⟨.str [97], none⟩, ⟨.int 7, none⟩, ⟨.mapClose, none⟩]

/-- re-marshalled rendering: fields sorted by name (a, b), signed spelling -/
def lgT2 : List Tok := [⟨.mapOpen 2, none⟩, ⟨.str [97], none⟩, ⟨.int 7, none⟩, ⟨.str [98], none⟩, ⟨.mapOpen 2, none⟩,
  ⟨.str [121], none⟩, ⟨.int 2, none⟩, ⟨.str [122], none⟩, ⟨.int 1, none⟩, ⟨.mapClose, none⟩, ⟨.mapClose, none⟩]

theorem lg_env : UEnv lgTs lgA lgIt := by constructor <;> decide
theorem lg_zero : ZeroStable lgTs := zeroStable_of_check _ (by decide)
theorem lg_trsEqv : TrsEqv lgTrs := by
  apply C13Full.trsEqv_of_scalar
  intro fn y b h
  simp [lgTrs] at h
theorem lg_noTags : NoTags lgA := by
  intro e he
  simp [lgA] at he
  subst he
  rfl

example : fullTy lgTs lgA 64 0 = true ∧ hasTy lgTs 1000 0 lgV = true ∧ fullVal lgTs lgA lgTrs lgIt 100 0 lgV = true := by
  decide

set_option maxRecDepth 8000 in
theorem lg_marshal : marshalV lgTs lgA lgTrs 12 0 lgV = ⟨lgT1, none⟩ := by
  simp [marshalV, marshalBare, marshalEntries, marshalFields, traverse, machForEntry, peel, lgTs, lgA, lgV, lgT1,
    Types.get, List.lookup, pickBare, Atlas.get, sortKeys, List.mergeSort, List.merge, keyLe, bytesLe, bytesLt, MOut.seq,
    MOut.ok, primTok]

/-- the theorem applies -/
theorem lg_leg : ∃ N, ∀ fuel, N ≤ fuel → ∃ u1 t2 r,
    unmV lgTs lgA lgTrs lgIt fuel lgIt.iface (.iface none) lgT1 = .ok u1 [] lgT1.length ∧
    marshalV lgTs lgA lgTrs fuel lgIt.iface u1 = ⟨t2, none⟩ ∧
    unmV lgTs lgA lgTrs lgIt fuel 0 (zeroVal lgTs 64 0) t2 = .ok r [] t2.length ∧
    r = rtF lgTs lgA lgTrs lgIt 100 0 lgV ∧
    ValEqv'' r (normV .pretty lgTs lgA lgTrs lgIt 100 0 lgV) :=
  remarshal_typed_leg_tokens lgTs lgA lgTrs lgIt 12 100 0 lgV lgT1 (by decide) (by decide) (by decide)
    lg_env lg_zero lg_trsEqv lg_noTags lg_marshal (by omega) (by omega)

set_option maxRecDepth 8000 in
/-- the chain evaluated at fuel 40: the untyped value, the re-marshalled tokens (`lgT2 ≠ lgT1`), and the value read from
    them into type 0: the map comes back in key order (y, z), the rest as in `lgV` -/
theorem lg_eval :
    unmV lgTs lgA lgTrs lgIt 40 20 (.iface none) lgT1 =
      .ok (.iface (some (7, .map (some [
        (.str [98], .iface (some (7, .map (some [(.str [121], .iface (some (2, .int 2))), (.str [122], .iface (some (2, .int 1)))])))),
        (.str [97], .iface (some (2, .int 7)))])))) [] 11 ∧
    marshalV lgTs lgA lgTrs 40 20 (.iface (some (7, .map (some [
        (.str [98], .iface (some (7, .map (some [(.str [121], .iface (some (2, .int 2))), (.str [122], .iface (some (2, .int 1)))])))),
        (.str [97], .iface (some (2, .int 7)))])))) = ⟨lgT2, none⟩ ∧
    unmV lgTs lgA lgTrs lgIt 40 0 (zeroVal lgTs 64 0) lgT2 =
      .ok (.struct [.map (some [(.str [121], .uint 2), (.str [122], .uint 1)]), .int 7]) [] 11 ∧
    lgT2 ≠ lgT1 := by
  refine ⟨by with_unfolding_all rfl, ?_, by with_unfolding_all rfl, by decide⟩
  simp [marshalV, marshalBare, marshalEntries, peel, lgTs, lgA, lgT2,
    Types.get, List.lookup, pickBare, Atlas.get, sortKeys, List.mergeSort, List.merge, keyLe, bytesLe, bytesLt, MOut.seq,
    MOut.ok, primTok]

/-! ### Tags: the intended extension (UNPROVED) and why it needs a hypothesis

  With tagged entries the untyped pass reconstructs the registered type behind a tag (`unmWild`, `getByTag`) instead of
  building a native untyped value, and the re-marshal re-emits that type's rendering.  The extension below replaces
  `NoTags` by "every registered tagged entry is the one its tag leads back to" (`taggedB`, as in `fullVal`).  It is NOT
  proved here.  (Evaluated: on `C13Full.fuV`, which holds a tagged struct, tagged transforms and a keyed union, the chain
  succeeds at fuel 60, the tags survive in t2, and t2 reads back exactly as Clone's result.) -/

/-- every registered tagged entry is found under its tag -/
def TagsOk (a : Atlas) : Prop := ∀ e ∈ a.pool, e.registered = true → e.tag.isSome = true → taggedB a e = true

/-- UNPROVED: `remarshal_typed_leg_tokens` with `TagsOk` in place of `NoTags` -/
def tagged_statement : Prop :=
  ∀ (ts : Types) (a : Atlas) (trs : Trs) (it : IfaceTys) (fuel0 g id : Nat) (v : Val) (t1 : List Tok),
    fullTy ts a 64 id = true → hasTy ts 1000 id v = true → fullVal ts a trs it g id v = true →
    UEnv ts a it → ZeroStable ts → TrsEqv trs → TagsOk a →
    marshalV ts a trs fuel0 id v = ⟨t1, none⟩ → fuel0 ≤ 1000 → fuel0 ≤ g →
    ∃ N, ∀ fuel, N ≤ fuel → ∃ u1 t2 r,
      unmV ts a trs it fuel it.iface (.iface none) t1 = .ok u1 [] t1.length ∧
      marshalV ts a trs fuel it.iface u1 = ⟨t2, none⟩ ∧
      unmV ts a trs it fuel id (zeroVal ts 64 id) t2 = .ok r [] t2.length ∧
      ValEqv'' r (normV .pretty ts a trs it g id v)

/-! Without such a hypothesis the chain breaks at its SECOND step: two registered struct types sharing tag 50.  A value
    of the second type marshals and clones fine, but the untyped pass looks the tag up, finds the first type, and rejects
    the field name: Unmarshal-into-untyped fails, so there is no b2.  (An atlas with duplicate tags; a statement about
    the atlas builder, not about the machines.) -/
def dupTs : Types := [
  (0, .struct [⟨[89], 2, true, false, none⟩]), (30, .struct [⟨[90], 1, true, false, none⟩]),
  (1, .prim .string true), (2, .prim .int true), (3, .bytes true), (4, .prim .bool true), (5, .prim .uint64 true), (6, .prim .f64 true),
  (7, .map 1 20), (8, .slice 20), (20, .iface false)]
def dupA : Atlas := ⟨[⟨true, 0, some 50, .structMap [⟨[121], false, [0], 2, false⟩]⟩,
                      ⟨true, 30, some 50, .structMap [⟨[122], false, [0], 1, false⟩]⟩], .default⟩

theorem dup_tag_untyped_pass_fails :
    fullTy dupTs dupA 64 30 = true ∧
    marshalV dupTs dupA lgTrs 30 30 (.struct [.str [7]]) =
      ⟨[⟨.mapOpen 1, some 50⟩, ⟨.str [122], none⟩, ⟨.str [7], none⟩, ⟨.mapClose, none⟩], none⟩ ∧
    (clone dupTs dupA lgTrs lgIt 30 30 (.struct [.str [7]])).isSome = true ∧
    unmV dupTs dupA lgTrs lgIt 30 20 (.iface none)
      [⟨.mapOpen 1, some 50⟩, ⟨.str [122], none⟩, ⟨.str [7], none⟩, ⟨.mapClose, none⟩] = .err 1 := by
  refine ⟨by decide, by with_unfolding_all rfl, by with_unfolding_all decide, by with_unfolding_all rfl⟩

end Refmt.C12Typed
