/-
  C01 on the whole domain for CBOR: codec transport (C01.cbor_eq_tokens: CBOR adds nothing to and removes nothing from
  the token-level round trip, for every type) composed with completeness on `fullTy` (C13Full.clone_equal_full).
-/
import RefmtProofs.Props.C01
import RefmtProofs.Props.C13Full
set_option linter.unusedVariables false

namespace Refmt.C01Full
open Refmt Refmt.Obj Refmt.C11 Refmt.C12 Refmt.C13Full

theorem viaTokens_eq_clone (ts : Types) (a : Atlas) (trs : Trs) (it : IfaceTys) (fuel id : Nat) (v : Val) :
    C01.viaTokens ts a trs it fuel id v = C11.clone ts a trs it fuel id v := rfl

/-- Marshal to CBOR bytes, then Unmarshal from them, into a fresh variable of the same type with the same atlas,
    returns the specified value `normV` (up to the order in which the model lists map entries), for every type of
    `fullTy`: plain kinds, struct maps, keyed unions, transforms, untyped slots; nested arbitrarily. -/
theorem roundtrip_full_cbor (ts : Types) (a : Atlas) (trs : Trs) (it : IfaceTys) (fuel0 fuel id : Nat) (v : Val)
    (hp : fullTy ts a 64 id = true) (hv : C13.hasTy ts 1000 id v = true)
    (hside : fullVal ts a trs it fuel id v = true) (he : UEnv ts a it) (hz : ZeroStable ts) (htr : TrsEqv trs)
    (hok : (marshalV ts a trs fuel0 id v).fail = none) (h0 : fuel0 ≤ 1000) (hf : fuel0 < fuel)
    (hc : (marshalV ts a trs fuel id v).toks.all C01.carryCbor = true) :
    ∃ r, C01.viaCbor ts a trs it fuel id v = some r ∧ ValEqv'' r (normV .pretty ts a trs it fuel id v) := by
  rw [C01.cbor_eq_tokens ts a trs it fuel id v hc, viaTokens_eq_clone]
  exact clone_equal_full ts a trs it fuel0 fuel id v hp hv hside he hz htr hok h0 hf

end Refmt.C01Full
