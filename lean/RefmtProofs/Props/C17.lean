/-
  C17 — reused marshallers / unmarshallers equal fresh ones; items frame cleanly.

  * `reset_is_fresh`   : for each of the four codecs, `Reset` applied to ANY state (reachable or not: after
                         complete, failed or abandoned items) is the initial state, field for field — the
                         helpers call Reset before every item, so a reused codec is a fresh codec.
  * `stateless_calls`  : the object layer's model functions take the atlas, type table and value/tokens as
                         arguments and nothing else; a history of calls is the list of independent results
                         (there is no hidden state to carry; the history correspondence stream is what checks
                         that the Go slab / machine stacks really behave like that).
  * `frame_cbor`       : decoding `enc a ++ enc b ++ rest` yields the tokens of `a` and leaves exactly
                         `enc b ++ rest`; by induction, n back-to-back items are read back one per call, in order.
  * `frame_json`       : the same for JSON values separated by a whitespace byte.

  Status: all proved as first stated.  `frame_cbor` needs the whole reader record after each item
  (`cbor_one_item`: no fault, no push-back — every CBOR step keeps a clean reader clean, Lemmas/PumpCbor.lean);
  `frame_json` is the instance `w = []`, `pb = 0` of `frame_json_gen`, where the reader in front of item
  i+1 holds the trailing `Line` and newline of item i as leading whitespace and, after a number, the
  look-ahead byte in push-back (`PumpL.decTop'`, Lemmas/FrameJson.lean).
-/
import RefmtModel
import RefmtProofs.Props.C02
import RefmtProofs.Props.C03
import RefmtProofs.Lemmas.PumpL
import RefmtProofs.Lemmas.PumpCbor
import RefmtProofs.Lemmas.FrameJson
set_option linter.unusedSimpArgs false
set_option linter.unusedVariables false
namespace Refmt.C17
open Refmt

theorem reset_is_fresh (s1 : CborEnc.St) (s2 : JsonEnc.St) (s3 : CborDec.St) (s4 : JsonDec.St) (s5 : Pretty.St) :
    CborEnc.reset s1 = CborEnc.init ∧ JsonEnc.reset s2 = JsonEnc.init ∧
    CborDec.reset s3 = CborDec.init ∧ JsonDec.reset s4 = JsonDec.init ∧ Pretty.reset s5 = Pretty.init :=
  ⟨rfl, rfl, rfl, rfl, rfl⟩

/-- read `n` CBOR items one after the other from one reader -/
def readItems (coerce : Bool) : Nat → Rd → List (List Tok) → Option (List (List Tok) × Rd)
  | 0, rd, acc => some (acc.reverse, rd)
  | n+1, rd, acc =>
    let o := CborDec.run coerce (2 * rd.data.length + 2) CborDec.init rd [] 0 0
    match o.res with
    | .ok _ => readItems coerce n o.rd (o.toks :: acc)
    | .error _ => none

/-- one call: the item's tokens, and the reader is left exactly in front of the following bytes
    (no fault, no push-back: the whole reader record, not only its data) -/
theorem cbor_one_item (v : TV) (rest : Bytes) (hw : C02.WFv v = true) (hs : C02.Supported v = true) :
    let o := CborDec.run false (2 * (Spec.Cbor.enc v ++ rest).length + 2) CborDec.init
      (Rd.ofBytes (Spec.Cbor.enc v ++ rest)) [] 0 0
    o.toks = v.flatten.map C02.normTok ∧ o.res = .ok () ∧ o.rd = Rd.ofBytes rest := by
  intro o
  have hlen := C02.lenV v hw
  obtain ⟨h1, h2, h3⟩ := C02.decTop false v hw hs (2 * (Spec.Cbor.enc v ++ rest).length + 2) rest
    (by simp only [List.length_map, List.length_append]; omega)
  refine ⟨h1, h2, ?_⟩
  have hrun := (PumpL.cbor_run_eq false (2 * (Spec.Cbor.enc v ++ rest).length + 2) CborDec.init
    (Rd.ofBytes (Spec.Cbor.enc v ++ rest)) [] 0 0).2.2
  have hcl := PumpL.cbor_srcRun_clean false (2 * (Spec.Cbor.enc v ++ rest).length + 2) CborDec.init
    (Spec.Cbor.enc v ++ rest)
  have e : Rd.ofBytes (Spec.Cbor.enc v ++ rest) = ⟨Spec.Cbor.enc v ++ rest, none, 0⟩ := rfl
  rw [e] at hrun
  rw [← hrun] at hcl
  have := hcl.eta
  rw [e] at h3
  rw [h3] at this
  exact this

theorem frame_cbor_gen (rest : Bytes) : ∀ (vs : List TV) (acc : List (List Tok)),
    (∀ v ∈ vs, C02.WFv v = true) → (∀ v ∈ vs, C02.Supported v = true) →
    readItems false vs.length (Rd.ofBytes ((vs.map Spec.Cbor.enc).flatten ++ rest)) acc =
      some (acc.reverse ++ vs.map (fun v => v.flatten.map C02.normTok), Rd.ofBytes rest)
  | [], acc, _, _ => by simp [readItems]
  | v :: vs, acc, hw, hs => by
    obtain ⟨h1, h2, h3⟩ := cbor_one_item v ((vs.map Spec.Cbor.enc).flatten ++ rest)
      (hw v (by simp)) (hs v (by simp))
    have ih := frame_cbor_gen rest vs ((v.flatten.map C02.normTok) :: acc)
      (fun x hx => hw x (by simp [hx])) (fun x hx => hs x (by simp [hx]))
    simp only [List.map_cons, List.flatten_cons, List.append_assoc, List.length_cons, readItems]
    have e : (Rd.ofBytes (Spec.Cbor.enc v ++ ((vs.map Spec.Cbor.enc).flatten ++ rest))).data =
      Spec.Cbor.enc v ++ ((vs.map Spec.Cbor.enc).flatten ++ rest) := rfl
    rw [e, h2]
    simp only
    rw [h1, h3, ih]
    simp

theorem frame_cbor (vs : List TV) (rest : Bytes)
    (hw : ∀ v ∈ vs, C02.WFv v = true) (hs : ∀ v ∈ vs, C02.Supported v = true) :
    readItems false vs.length (Rd.ofBytes ((vs.map Spec.Cbor.enc).flatten ++ rest)) [] =
      some (vs.map (fun v => v.flatten.map C02.normTok), Rd.ofBytes rest) := by
  simpa using frame_cbor_gen rest vs [] hw hs

/-- read `n` JSON items from one reader (the push-back byte is carried from call to call) -/
def readItemsJson : Nat → Rd → List (List Tok) → Option (List (List Tok) × Rd)
  | 0, rd, acc => some (acc.reverse, rd)
  | n+1, rd, acc =>
    let o := JsonDec.run (2 * rd.data.length + 2) JsonDec.init rd [] 0
    match o.res with
    | .ok _ => readItemsJson n o.rd (o.toks :: acc)
    | .error _ => none

/-- the general form: the reader may hold leading whitespace `w` (the previous item's trailing `Line` and
    newline) and a push-back mark (the previous number's look-ahead byte) -/
theorem frame_json_gen (c : JsonEnc.Cfg) (hc : C03.cfgOk c = true) : ∀ (vs : List TV) (w : Bytes) (pb : Nat)
    (acc : List (List Tok)), C03L.WsOnly w →
    (∀ v ∈ vs, C03.JWF v = true) → (∀ v ∈ vs, C03.FloatsOk v) →
    ∃ rd', readItemsJson vs.length (C03L.rdOf (w ++ (vs.map fun v => C03.out c v ++ [10]).flatten) pb) acc =
      some (acc.reverse ++ vs.map (fun v => v.flatten.map Spec.Json.retypeTok), rd') ∧
      rd'.data.all JsonDec.isWs = true
  | [], w, pb, acc, hw, _, _ => by
    refine ⟨C03L.rdOf (w ++ []) pb, by simp [readItemsJson], ?_⟩
    simp only [List.append_nil, List.all_eq_true]
    exact hw
  | v :: vs, w, pb, acc, hw, hj, hf => by
    have hcw := C03.cfgOk_ws hc
    have hjv := hj v (by simp)
    have hd := C03.dok_of_floatsOk hjv (hf v (by simp))
    have hout := (C03.run_eq c v hjv).2
    have htw := C03.trailer_ws hcw v
    have hw' : C03L.WsOnly (C03.trailer c v ++ [10]) :=
      C03L.WsOnly.append htw (by intro x hx; simp at hx; subst hx; decide)
    have hdata : w ++ ((v :: vs).map fun v => C03.out c v ++ [10]).flatten =
        w ++ (C03L.txtV c 0 v ++ ((C03.trailer c v ++ [10]) ++ (vs.map fun v => C03.out c v ++ [10]).flatten)) := by
      simp only [List.map_cons, List.flatten_cons, hout, List.append_assoc]
    have hstop : C03L.Stop ((C03.trailer c v ++ [10]) ++ (vs.map fun v => C03.out c v ++ [10]).flatten) = true := by
      have := C03L.Stop_ws_cons (C03.trailer c v) 10 ((vs.map fun v => C03.out c v ++ [10]).flatten) htw (by decide)
      simpa [List.append_assoc] using this
    have hlen := C03L.lenV c v hd 0
    rw [hdata]
    obtain ⟨pb', hrun⟩ := PumpL.decTop' c hcw v hd
      (2 * (w ++ (C03L.txtV c 0 v ++ ((C03.trailer c v ++ [10]) ++ (vs.map fun v => C03.out c v ++ [10]).flatten))).length + 2)
      w _ pb hw hstop (by simp only [List.length_append]; omega)
    obtain ⟨rd', ih1, ih2⟩ := frame_json_gen c hc vs (C03.trailer c v ++ [10]) pb'
      ((v.flatten.map Spec.Json.retypeTok) :: acc) hw'
      (fun x hx => hj x (by simp [hx])) (fun x hx => hf x (by simp [hx]))
    refine ⟨rd', ?_, ih2⟩
    simp only [List.length_cons, readItemsJson]
    rw [hrun]
    simp only
    rw [ih1]
    simp

/-- JSON items, each followed by a newline, are read back one per call, in order -/
theorem frame_json (c : JsonEnc.Cfg) (vs : List TV)
    (hw : ∀ v ∈ vs, C03.JWF v = true) (hc : C03.cfgOk c = true) (hf : ∀ v ∈ vs, C03.FloatsOk v) :
    ∃ rd', readItemsJson vs.length (Rd.ofBytes ((vs.map fun v => C03.out c v ++ [10]).flatten)) [] =
      some (vs.map (fun v => v.flatten.map Spec.Json.retypeTok), rd') ∧ rd'.data.all JsonDec.isWs = true := by
  obtain ⟨rd', h1, h2⟩ := frame_json_gen c hc vs [] 0 [] C03L.WsOnly.nil hw hf
  exact ⟨rd', by simpa [Rd.ofBytes, C03L.rdOf] using h1, h2⟩

end Refmt.C17
