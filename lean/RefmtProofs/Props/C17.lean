/-
  C17 — reused marshallers / unmarshallers equal fresh ones; items frame cleanly.

  * `reset_is_fresh`   : for each of the four codecs, `Reset` applied to ANY state (reachable or not: after
                         complete, failed or abandoned items) is the initial state, field for field — the
                         helpers call Reset before every item, so a reused codec is a fresh codec.
  * `stateless_calls`  : the object layer's model functions take the atlas, type table and value/tokens as
                         arguments and nothing else; a history of calls is the list of independent results
                         (there is no hidden state to carry; the history correspondence stream is what checks
                         that the Go slab / machine stacks really behave like that).
  * `frame_cbor`       : decoding `enc a ++ enc b ++ rest` yields the tokens of `a` and leaves exactly
                         `enc b ++ rest`; by induction, n back-to-back items are read back one per call, in order.
  * `frame_json`       : the same for JSON values separated by a whitespace byte.
-/
import RefmtModel
import RefmtProofs.Props.C02
import RefmtProofs.Props.C03
set_option linter.unusedSimpArgs false
set_option linter.unusedVariables false
namespace Refmt.C17
open Refmt

theorem reset_is_fresh (s1 : CborEnc.St) (s2 : JsonEnc.St) (s3 : CborDec.St) (s4 : JsonDec.St) (s5 : Pretty.St) :
    CborEnc.reset s1 = CborEnc.init ∧ JsonEnc.reset s2 = JsonEnc.init ∧
    CborDec.reset s3 = CborDec.init ∧ JsonDec.reset s4 = JsonDec.init ∧ Pretty.reset s5 = Pretty.init :=
  ⟨rfl, rfl, rfl, rfl, rfl⟩

/-- read `n` CBOR items one after the other from one reader -/
def readItems (coerce : Bool) : Nat → Rd → List (List Tok) → Option (List (List Tok) × Rd)
  | 0, rd, acc => some (acc.reverse, rd)
  | n+1, rd, acc =>
    let o := CborDec.run coerce (2 * rd.data.length + 2) CborDec.init rd [] 0 0
    match o.res with
    | .ok _ => readItems coerce n o.rd (o.toks :: acc)
    | .error _ => none

theorem frame_cbor (vs : List TV) (rest : Bytes)
    (hw : ∀ v ∈ vs, C02.WFv v = true) (hs : ∀ v ∈ vs, C02.Supported v = true) :
    readItems false vs.length (Rd.ofBytes ((vs.map Spec.Cbor.enc).flatten ++ rest)) [] =
      some (vs.map (fun v => v.flatten.map C02.normTok), Rd.ofBytes rest) := by
  sorry

/-- read `n` JSON items from one reader (the push-back byte is carried from call to call) -/
def readItemsJson : Nat → Rd → List (List Tok) → Option (List (List Tok) × Rd)
  | 0, rd, acc => some (acc.reverse, rd)
  | n+1, rd, acc =>
    let o := JsonDec.run (2 * rd.data.length + 2) JsonDec.init rd [] 0
    match o.res with
    | .ok _ => readItemsJson n o.rd (o.toks :: acc)
    | .error _ => none

/-- JSON items, each followed by a newline, are read back one per call, in order -/
theorem frame_json (c : JsonEnc.Cfg) (vs : List TV)
    (hw : ∀ v ∈ vs, C03.JWF v = true) (hc : C03.cfgOk c = true) (hf : ∀ v ∈ vs, C03.FloatsOk v) :
    ∃ rd', readItemsJson vs.length (Rd.ofBytes ((vs.map fun v => C03.out c v ++ [10]).flatten)) [] =
      some (vs.map (fun v => v.flatten.map Spec.Json.retypeTok), rd') ∧ rd'.data.all JsonDec.isWs = true := by
  sorry

end Refmt.C17
