/-
  C07 — the object marshaller always emits one finite, well-formed token stream.

  `marshalV` (RefmtModel/Model/Obj/Marshal.lean) is the functional model of obj.Marshaller:
  the token list emitted for a value of a declared type under an atlas, or the tokens
  emitted before an error.

  * `marshal_wf`     : whenever marshalling succeeds, the tokens are exactly one well-formed value:
                       they are the flattening of a token tree in which every declared length equals the
                       number of entries that follow and every map key is an untagged string token
                       (tags can only sit on the first token of an item, closes are never tagged).
  * `marshal_bound`  : the number of tokens is bounded by the size of the value (and of what its transforms return).
  * `marshal_total`  : for well-typed values under a well-formed atlas the outcome is a token stream or an
                       error, never a panic, and the result does not depend on the fuel once it is large enough
                       (the functional model terminates: no endless stream).

  Results.
  * `marshal_wf`, `marshal_fuel_mono`, `struct_count_matches_walk` are proved as first written.
    `marshal_wf_strong` adds that every leaf of the tree is a scalar token (`Leaves`; without it a stray
    close token could hide in a `.scalar`), `struct_count_matches_walk_strong` that the header count is the
    number of fields passing the ignore / unreachable / omitempty filter and that exactly that many pairs follow,
    `marshal_fuel_mono_le` extends monotonicity to any larger fuel.
    Proof shape: induction on the fuel, simultaneously for `marshalV`, `marshalBare`, `marshalList`,
    `marshalEntries`, `marshalFields` (`all_fuel`, `all_mono`, `all_bound`).
  * `marshal_bound_plain` is FALSE as first written (kept as `marshal_bound_plain_statement`, refuted by
    `marshal_bound_plain_false`; three independent counterexamples `cex_run`, `cex2_run`, `cex3_run`): these are
    defects of the statement (coefficient too small for keyed unions, unconstrained atlas, fuel-bounded `valNodes`
    versus one-step pointer peeling), not of the model.  Proved instead:
      `marshal_bound`             : ≤ 5 · valNodes, keyed unions allowed (`PlainAtlas`, `NoPtrPtr`);
      `marshal_bound_two`         : ≤ 2 · valNodes without unions (`PlainAtlasNoUnion`, `NoPtrPtr`);
      `marshal_bound_plain_fixed` : the original conclusion `≤ 3 · valNodes + 2` under the latter hypotheses.
-/
import RefmtModel
import RefmtProofs.Lemmas.ObjMarshal
set_option linter.unusedSimpArgs false
set_option linter.unusedVariables false
namespace Refmt.C07
open Refmt Refmt.Obj Refmt.ObjL

mutual
  /-- every key is an untagged string scalar -/
  def KeysStr : TV → Bool
    | .scalar _ => true
    | .arr _ _ items => KeysStrL items
    | .map _ _ es => KeysStrE es
  def KeysStrL : List TV → Bool
    | [] => true
    | v :: vs => KeysStr v && KeysStrL vs
  def KeysStrE : List (TV × TV) → Bool
    | [] => true
    | (k, v) :: es =>
      (match k with | .scalar t => (match t.body, t.tag with | .str _, none => true | _, _ => false) | _ => false) &&
      KeysStr v && KeysStrE es
end

/-- scalar leaves really are scalar tokens -/
def leafOk : TV → Bool
  | .scalar t => t.body.isScalar
  | _ => true

mutual
  /-- every leaf of the tree is a scalar token (no stray open / close token hides in a `.scalar`) -/
  def Leaves : TV → Bool
    | .scalar t => t.body.isScalar
    | .arr _ _ items => LeavesL items
    | .map _ _ es => LeavesE es
  def LeavesL : List TV → Bool
    | [] => true
    | v :: vs => Leaves v && LeavesL vs
  def LeavesE : List (TV × TV) → Bool
    | [] => true
    | (k, v) :: es => Leaves k && Leaves v && LeavesE es
end

/-- one well-formed item -/
def Good (tv : TV) : Prop := tv.lengthsOk = true ∧ KeysStr tv = true ∧ Leaves tv = true
def GoodL (l : List TV) : Prop := TV.lengthsOkList l = true ∧ KeysStrL l = true ∧ LeavesL l = true
def GoodE (l : List (TV × TV)) : Prop := TV.lengthsOkEntries l = true ∧ KeysStrE l = true ∧ LeavesE l = true

theorem good_scalar {t : Tok} (h : t.body.isScalar = true) : Good (.scalar t) := by
  simp [Good, TV.lengthsOk, KeysStr, Leaves, h]
theorem good_arr {tag : Option Int} {items : List TV} (h : GoodL items) : Good (.arr tag items.length items) := by
  simp [Good, TV.lengthsOk, KeysStr, Leaves, h.1, h.2.1, h.2.2]
theorem good_map {tag : Option Int} {es : List (TV × TV)} (h : GoodE es) : Good (.map tag es.length es) := by
  simp [Good, TV.lengthsOk, KeysStr, Leaves, h.1, h.2.1, h.2.2]
theorem goodL_nil : GoodL [] := by simp [GoodL, TV.lengthsOkList, KeysStrL, LeavesL]
theorem goodL_cons {v : TV} {vs : List TV} (h : Good v) (hs : GoodL vs) : GoodL (v :: vs) := by
  simp [GoodL, TV.lengthsOkList, KeysStrL, LeavesL, h.1, h.2.1, h.2.2, hs.1, hs.2.1, hs.2.2]
theorem goodE_nil : GoodE [] := by simp [GoodE, TV.lengthsOkEntries, KeysStrE, LeavesE]
theorem goodE_cons {s : Bytes} {v : TV} {es : List (TV × TV)} (h : Good v) (hs : GoodE es) :
    GoodE ((.scalar ⟨.str s, none⟩, v) :: es) := by
  simp [GoodE, TV.lengthsOkEntries, KeysStrE, LeavesE, TV.lengthsOk, Leaves, Body.isScalar, h.1, h.2.1, h.2.2, hs.1, hs.2.1, hs.2.2]
theorem good_setTag {g : Int} {tv : TV} (h : Good tv) : Good (setTag g tv) := by
  cases tv <;> simpa [Good, setTag, TV.lengthsOk, KeysStr, Leaves] using h

/-! ### the five invariants -/
section
variable (ts : Types) (a : Atlas) (trs : Trs)

def PV (fuel : Nat) : Prop := ∀ id v toks, marshalV ts a trs fuel id v = ⟨toks, none⟩ → ∃ tv : TV, toks = tv.flatten ∧ Good tv
def PB (fuel : Nat) : Prop := ∀ id m v toks, marshalBare ts a trs fuel id m v = ⟨toks, none⟩ → ∃ tv : TV, toks = tv.flatten ∧ Good tv
def PL (fuel : Nat) : Prop := ∀ e es toks, marshalList ts a trs fuel e es = ⟨toks, none⟩ →
  ∃ tvs : List TV, toks = TV.flattenList tvs ∧ tvs.length = es.length ∧ GoodL tvs
def PE (fuel : Nat) : Prop := ∀ vt kvs toks, marshalEntries ts a trs fuel vt kvs = ⟨toks, none⟩ →
  ∃ es : List (TV × TV), toks = TV.flattenEntries es ∧ es.length = kvs.length ∧ GoodE es
def PF (fuel : Nat) : Prop := ∀ fs v toks, marshalFields ts a trs fuel fs v = ⟨toks, none⟩ →
  ∃ es : List (TV × TV), toks = TV.flattenEntries es ∧ es.length = fs.length ∧ GoodE es

theorem null_good : ∃ tv : TV, [(⟨.null, none⟩ : Tok)] = tv.flatten ∧ Good tv :=
  ⟨.scalar ⟨.null, none⟩, rfl, good_scalar rfl⟩

theorem pv_step (fuel : Nat) (hb : PB ts a trs fuel) : PV ts a trs (fuel + 1) := by
  intro id v toks h
  simp only [marshalV] at h
  split at h
  · exact hb _ _ _ _ h
  · split at h
    · rw [ok_inv h]; exact null_good
    · exact hb _ _ _ _ h

theorem pl_step (fuel : Nat) (hv : PV ts a trs fuel) (hl : PL ts a trs fuel) : PL ts a trs (fuel + 1) := by
  intro e es toks h
  cases es with
  | nil =>
    simp only [marshalList] at h
    rw [ok_inv h]; exact ⟨[], rfl, rfl, goodL_nil⟩
  | cons x xs =>
    simp only [marshalList] at h
    obtain ⟨t1, t2, h1, h2, rfl⟩ := seq_inv h
    obtain ⟨tv, rfl, g1⟩ := hv _ _ _ h1
    obtain ⟨tvs, rfl, hlen, g2⟩ := hl _ _ _ h2
    exact ⟨tv :: tvs, by simp [TV.flattenList], by simp [hlen], goodL_cons g1 g2⟩

theorem pe_step (fuel : Nat) (hv : PV ts a trs fuel) (he : PE ts a trs fuel) : PE ts a trs (fuel + 1) := by
  intro vt kvs toks h
  cases kvs with
  | nil =>
    simp only [marshalEntries] at h
    rw [ok_inv h]; exact ⟨[], rfl, rfl, goodE_nil⟩
  | cons kx rest =>
    obtain ⟨k, x⟩ := kx
    simp only [marshalEntries] at h
    obtain ⟨t0, t12, h0, h12, rfl⟩ := seq_inv h
    obtain ⟨t1, t2, h1, h2, rfl⟩ := seq_inv h12
    obtain ⟨tv, rfl, g1⟩ := hv _ _ _ h1
    obtain ⟨es, rfl, hlen, g2⟩ := he _ _ _ h2
    rw [ok_inv h0]
    exact ⟨(.scalar ⟨.str k, none⟩, tv) :: es, by simp [TV.flattenEntries, TV.flatten], by simp [hlen], goodE_cons g1 g2⟩

theorem pf_step (fuel : Nat) (hv : PV ts a trs fuel) (hf : PF ts a trs fuel) : PF ts a trs (fuel + 1) := by
  intro fs v toks h
  cases fs with
  | nil =>
    simp only [marshalFields] at h
    rw [ok_inv h]; exact ⟨[], rfl, rfl, goodE_nil⟩
  | cons f rest =>
    simp only [marshalFields] at h
    split at h
    · exact absurd h bad_ne
    · obtain ⟨t0, t12, h0, h12, rfl⟩ := seq_inv h
      obtain ⟨t1, t2, h1, h2, rfl⟩ := seq_inv h12
      obtain ⟨tv, rfl, g1⟩ := hv _ _ _ h1
      obtain ⟨es, rfl, hlen, g2⟩ := hf _ _ _ h2
      rw [ok_inv h0]
      exact ⟨(.scalar ⟨.str f.name, none⟩, tv) :: es, by simp [TV.flattenEntries, TV.flatten], by simp [hlen], goodE_cons g1 g2⟩


theorem prim_good (id : Nat) (v : Val) (toks : List Tok) (h : primTok ts id v = ⟨toks, none⟩) :
    ∃ tv : TV, toks = tv.flatten ∧ Good tv := by
  unfold primTok at h
  split at h <;> first
    | exact absurd h bad_ne
    | (rw [ok_inv h]; exact ⟨.scalar _, rfl, good_scalar rfl⟩)

theorem arr_good (fuel e : Nat) (es : List Val) (toks : List Tok) (hl : PL ts a trs fuel)
    (h : ((MOut.ok [⟨.arrOpen es.length, none⟩]).seq fun _ =>
           (marshalList ts a trs fuel e es).seq fun _ => .ok [⟨.arrClose, none⟩]) = ⟨toks, none⟩) :
    ∃ tv : TV, toks = tv.flatten ∧ Good tv := by
  obtain ⟨t0, t12, h0, h12, rfl⟩ := seq_inv h
  obtain ⟨t1, t2, h1, h2, rfl⟩ := seq_inv h12
  obtain ⟨tvs, rfl, hlen, g⟩ := hl _ _ _ h1
  rw [ok_inv h0, ok_inv h2, ← hlen]
  exact ⟨.arr none tvs.length tvs, by simp [TV.flatten], good_arr g⟩

theorem pb_step (fuel : Nat) (hv : PV ts a trs fuel) (hb : PB ts a trs fuel) (hl : PL ts a trs fuel)
    (he : PE ts a trs fuel) (hf : PF ts a trs fuel) : PB ts a trs (fuel + 1) := by
  intro id m v toks h
  cases m with
  | prim => unfold marshalBare at h; simp only at h; exact prim_good ts id v toks h
  | errThunk => unfold marshalBare at h; simp only at h; exact absurd h bad_ne
  | panic => unfold marshalBare at h; simp only at h; exact absurd h bad_ne
  | wildcard =>
    unfold marshalBare at h; simp only at h
    split at h
    · rw [ok_inv h]; exact null_good
    · exact hv _ _ _ h
    · exact absurd h bad_ne
  | slice e =>
    unfold marshalBare at h; simp only at h
    split at h
    · rw [ok_inv h]; exact null_good
    · exact arr_good ts a trs fuel e _ toks hl h
    · exact absurd h bad_ne
  | array e =>
    unfold marshalBare at h; simp only at h
    split at h
    · exact arr_good ts a trs fuel e _ toks hl h
    · exact absurd h bad_ne
  | map kt vt mode =>
    unfold marshalBare at h; simp only at h
    split at h
    · exact absurd h bad_ne
    · next kf es _ =>
      split at h
      · exact absurd h bad_ne
      · next kvs hkvs =>
        split at h
        · rw [ok_inv h]; exact null_good
        · obtain ⟨t0, t12, h0, h12, rfl⟩ := seq_inv h
          obtain ⟨t1, t2, h1, h2, rfl⟩ := seq_inv h12
          obtain ⟨tes, rfl, hlen, g⟩ := he _ _ _ h1
          have hl2 : (es.getD []).length = tes.length := by
            rw [hlen, sortKeys_length, mapM_length _ _ _ hkvs]
          rw [ok_inv h0, ok_inv h2, hl2]
          exact ⟨.map none tes.length tes, by simp [TV.flatten], good_map g⟩
    · exact absurd h bad_ne
  | structMap e fields =>
    unfold marshalBare at h; simp only at h
    obtain ⟨t0, t12, h0, h12, rfl⟩ := seq_inv h
    obtain ⟨t1, t2, h1, h2, rfl⟩ := seq_inv h12
    obtain ⟨es, rfl, hlen, g⟩ := hf _ _ _ h1
    rw [ok_inv h0, ok_inv h2, ← hlen]
    exact ⟨.map e.tag es.length es, by simp [TV.flatten], good_map g⟩
  | transform e fn mty =>
    unfold marshalBare at h; simp only at h
    split at h
    · exact absurd h bad_ne
    · next tv htv =>
      cases hr : marshalV ts a trs fuel mty tv with
      | mk rt rf =>
        rw [hr] at h
        have hrf : rf = none := by
          have := congrArg MOut.fail h
          cases htag : e.tag <;> cases rt <;> simpa [retagFirst, htag] using this
        subst hrf
        obtain ⟨tv', rfl, g⟩ := hv _ _ _ hr
        cases htag : e.tag with
        | none =>
          rw [htag] at h
          simp [retagFirst] at h
          exact ⟨tv', h.symm, g⟩
        | some gg =>
          rw [htag, retag_flatten] at h
          simp at h
          exact ⟨setTag gg tv', h.symm, good_setTag g⟩
  | union e members =>
    unfold marshalBare at h; simp only at h
    split at h
    · exact absurd h bad_ne
    · split at h
      · exact absurd h bad_ne
      · split at h
        · exact absurd h bad_ne
        · next _ name idx _ _ me hme =>
          split at h
          · exact absurd h bad_ne
          · obtain ⟨t0, t12, h0, h12, rfl⟩ := seq_inv h
            obtain ⟨t1, t2, h1, h2, rfl⟩ := seq_inv h12
            obtain ⟨tv, rfl, g⟩ := hb _ _ _ _ h1
            rw [ok_inv h0, ok_inv h2]
            exact ⟨.map none (1 : Nat) [(.scalar ⟨.str name, none⟩, tv)], by simp [TV.flatten, TV.flattenEntries],
              good_map (es := [(.scalar ⟨.str name, none⟩, tv)]) (goodE_cons g goodE_nil)⟩
    · exact absurd h bad_ne

theorem all_fuel (fuel : Nat) :
    PV ts a trs fuel ∧ PB ts a trs fuel ∧ PL ts a trs fuel ∧ PE ts a trs fuel ∧ PF ts a trs fuel := by
  induction fuel with
  | zero =>
    refine ⟨?_, ?_, ?_, ?_, ?_⟩
    · intro id v toks h; simp only [marshalV] at h; exact absurd h bad_ne
    · intro id m v toks h; simp only [marshalBare] at h; exact absurd h bad_ne
    · intro e es toks h; simp only [marshalList] at h; exact absurd h bad_ne
    · intro e es toks h; simp only [marshalEntries] at h; exact absurd h bad_ne
    · intro e es toks h; simp only [marshalFields] at h; exact absurd h bad_ne
  | succ n ih =>
    obtain ⟨hv, hb, hl, he, hf⟩ := ih
    exact ⟨pv_step ts a trs n hb, pb_step ts a trs n hv hb hl he hf, pl_step ts a trs n hv hl,
      pe_step ts a trs n hv he, pf_step ts a trs n hv hf⟩

end

theorem marshal_wf_strong (ts : Types) (a : Atlas) (trs : Trs) (fuel id : Nat) (v : Val) (toks : List Tok)
    (h : marshalV ts a trs fuel id v = ⟨toks, none⟩) :
    ∃ tv : TV, toks = tv.flatten ∧ tv.lengthsOk = true ∧ KeysStr tv = true ∧ Leaves tv = true :=
  (all_fuel ts a trs fuel).1 id v toks h

theorem marshal_wf (ts : Types) (a : Atlas) (trs : Trs) (fuel id : Nat) (v : Val) (toks : List Tok)
    (h : marshalV ts a trs fuel id v = ⟨toks, none⟩) :
    ∃ tv : TV, toks = tv.flatten ∧ tv.lengthsOk = true ∧ KeysStr tv = true := by
  obtain ⟨tv, h1, h2, h3, _⟩ := marshal_wf_strong ts a trs fuel id v toks h
  exact ⟨tv, h1, h2, h3⟩


/-- number of nodes of a value, counting what transforms return (they are applied at most once per node) -/
def valNodes : Nat → Val → Nat
  | 0, _ => 1
  | fuel+1, v =>
    match v with
    | .slice (some vs) => 1 + (vs.map (valNodes fuel)).sum
    | .arr vs => 1 + (vs.map (valNodes fuel)).sum
    | .map (some es) => 1 + (es.map fun (_, x) => 1 + valNodes fuel x).sum
    | .ptr (some x) => valNodes fuel x
    | .iface (some (_, x)) => valNodes fuel x
    | .struct fs => 1 + (fs.map fun x => 1 + valNodes fuel x).sum
    | _ => 1


/-! ### `marshal_bound_plain` as first stated is false

  Three independent defects of the *statement* (none is a defect of the marshaller model):
  1. a keyed union costs three tokens (`{`, member name, `}`) that `valNodes` does not count (`.iface` adds no node),
     so the coefficient 3 is too small as soon as unions occur in a slice / map / struct;
  2. the atlas is unconstrained: a struct-map entry may list the same field any number of times;
  3. `valNodes fuel` spends one unit of fuel per pointer level, the marshaller peels a whole pointer chain
     in one step, so `valNodes fuel` may see nothing of a value the marshaller walks completely. -/

/-- The statement as first written (false):
    "Token count is linear in the size of the value, for values that contain no transformed types
    (a transform may return an arbitrarily large serial form, which is then what is measured)." -/
def marshal_bound_plain_statement : Prop :=
  ∀ (ts : Types) (a : Atlas) (trs : Trs) (fuel id : Nat) (v : Val) (toks : List Tok),
    (∀ e ∈ a.pool, ∀ fn m u, e.k ≠ .transform fn m u) →
    marshalV ts a trs fuel id v = ⟨toks, none⟩ →
    toks.length ≤ 3 * valNodes fuel v + 2

def cexTrs : Trs := ⟨fun _ _ => none, fun _ _ => none⟩

/-- counterexample 1: `[]I{S{}, S{}}` where `I` is an interface registered as a keyed union with member
    `"s" ↦ S`, `S = struct{}`: 12 tokens `[ {"s":{}} {"s":{}} ]`, 3 nodes, 3·3+2 = 11 -/
def cexTs : Types := [(0, .slice 1), (1, .iface true), (2, .struct [])]
def cexAtlas : Atlas := ⟨[⟨true, 1, none, .union [([115], 1)]⟩, ⟨true, 2, none, .structMap []⟩], .default⟩
def cexVal : Val := .slice (some [.iface (some (2, .struct [])), .iface (some (2, .struct []))])
def cexToks : List Tok :=
  [⟨.arrOpen 2, none⟩,
   ⟨.mapOpen 1, none⟩, ⟨.str [115], none⟩, ⟨.mapOpen 0, none⟩, ⟨.mapClose, none⟩, ⟨.mapClose, none⟩,
   ⟨.mapOpen 1, none⟩, ⟨.str [115], none⟩, ⟨.mapOpen 0, none⟩, ⟨.mapClose, none⟩, ⟨.mapClose, none⟩,
   ⟨.arrClose, none⟩]

theorem cex_run : marshalV cexTs cexAtlas cexTrs 10 0 cexVal = ⟨cexToks, none⟩ := by
  with_unfolding_all rfl

theorem cex_nodes : valNodes 10 cexVal = 3 := by decide

theorem marshal_bound_plain_false : ¬ marshal_bound_plain_statement := by
  intro h
  have := h cexTs cexAtlas cexTrs 10 0 cexVal cexToks
    (by intro e he; simp [cexAtlas] at he; rcases he with rfl | rfl <;> simp) cex_run
  rw [cex_nodes] at this
  revert this
  decide

/-- counterexample 2 (no unions, no pointers): `struct{X int}{7}` under a struct-map entry listing field `x` five
    times: 12 tokens, 3 nodes -/
def cex2Field : SMField := ⟨[120], false, [0], 1, false⟩
def cex2Ts : Types := [(0, .struct [⟨[88], 1, true, false, none⟩]), (1, .prim .int true)]
def cex2Atlas : Atlas := ⟨[⟨true, 0, none, .structMap [cex2Field, cex2Field, cex2Field, cex2Field, cex2Field]⟩], .default⟩
def cex2Val : Val := .struct [.int 7]

theorem cex2_run : ∃ toks, marshalV cex2Ts cex2Atlas cexTrs 10 0 cex2Val = ⟨toks, none⟩ ∧
    toks.length = 12 ∧ 3 * valNodes 10 cex2Val + 2 = 11 :=
  ⟨(marshalV cex2Ts cex2Atlas cexTrs 10 0 cex2Val).toks, by with_unfolding_all rfl, by with_unfolding_all rfl,
   by decide⟩

/-- counterexample 3 (empty atlas): an eight-fold pointer to `[]int{1,2,3,4}` at fuel 8: six tokens, but
    `valNodes 8` runs out of fuel on the pointers and counts a single node (with fuel 9 it counts 5) -/
def cex3Ts : Types :=
  [(0, .ptr 1), (1, .ptr 2), (2, .ptr 3), (3, .ptr 4), (4, .ptr 5), (5, .ptr 6), (6, .ptr 7), (7, .ptr 8),
   (8, .slice 9), (9, .prim .int true)]
def cex3P (v : Val) : Val := .ptr (some v)
def cex3Val : Val :=
  cex3P (cex3P (cex3P (cex3P (cex3P (cex3P (cex3P (cex3P (.slice (some [.int 1, .int 2, .int 3, .int 4])))))))))

theorem cex3_run : ∃ toks, marshalV cex3Ts ⟨[], .default⟩ cexTrs 8 0 cex3Val = ⟨toks, none⟩ ∧
    toks.length = 6 ∧ 3 * valNodes 8 cex3Val + 2 = 5 :=
  ⟨(marshalV cex3Ts ⟨[], .default⟩ cexTrs 8 0 cex3Val).toks, by with_unfolding_all rfl, by with_unfolding_all rfl,
   by decide⟩

/-! ### sums -/

theorem sum_map_le {α : Type} (l : List α) (f g : α → Nat) (h : ∀ x ∈ l, f x ≤ g x) :
    (l.map f).sum ≤ (l.map g).sum := by
  induction l with
  | nil => simp
  | cons x xs ih =>
    simp only [List.map_cons, List.sum_cons]
    have := h x (by simp)
    have := ih (fun y hy => h y (by simp [hy]))
    omega

theorem sum_map_mul {α : Type} (l : List α) (c : Nat) (f : α → Nat) :
    (l.map fun x => c * f x).sum = c * (l.map f).sum := by
  induction l with
  | nil => simp
  | cons x xs ih => simp only [List.map_cons, List.sum_cons, ih, Nat.mul_add]

theorem sum_set_zero (ws : List Nat) (i : Nat) : (ws.set i 0).sum + ws[i]?.getD 0 = ws.sum := by
  induction ws generalizing i with
  | nil => simp
  | cons w ws ih =>
    cases i with
    | zero => simp; omega
    | succ i => simp only [List.set_cons_succ, List.sum_cons, List.getElem?_cons_succ]; have := ih i; omega

/-- a sum over pairwise distinct indices is at most the whole sum -/
theorem sum_idx_le (idxs : List Nat) (hnd : idxs.Nodup) (ws : List Nat) :
    (idxs.map fun i => ws[i]?.getD 0).sum ≤ ws.sum := by
  induction idxs generalizing ws with
  | nil => simp
  | cons i is ih =>
    rw [List.nodup_cons] at hnd
    simp only [List.map_cons, List.sum_cons]
    have h1 := ih hnd.2 (ws.set i 0)
    have h2 := sum_set_zero ws i
    have h3 : (is.map fun j => (ws.set i 0)[j]?.getD 0) = (is.map fun j => ws[j]?.getD 0) := by
      apply List.map_congr_left
      intro j hj
      have : i ≠ j := fun hij => hnd.1 (hij ▸ hj)
      simp [List.getElem?_set, this]
    rw [h3] at h1
    omega

/-! ### `valNodes` -/

theorem valNodes_zero (v : Val) : valNodes 0 v = 1 := rfl
theorem valNodes_slice (k : Nat) (l : List Val) : valNodes (k+1) (.slice (some l)) = 1 + (l.map (valNodes k)).sum := rfl
theorem valNodes_arr (k : Nat) (l : List Val) : valNodes (k+1) (.arr l) = 1 + (l.map (valNodes k)).sum := rfl
theorem valNodes_map (k : Nat) (l : List (Val × Val)) :
    valNodes (k+1) (.map (some l)) = 1 + (l.map fun p => 1 + valNodes k p.2).sum := rfl
theorem valNodes_struct (k : Nat) (l : List Val) :
    valNodes (k+1) (.struct l) = 1 + (l.map fun x => 1 + valNodes k x).sum := rfl
theorem valNodes_ptr (k : Nat) (x : Val) : valNodes (k+1) (.ptr (some x)) = valNodes k x := rfl
theorem valNodes_iface (k d : Nat) (x : Val) : valNodes (k+1) (.iface (some (d, x))) = valNodes k x := rfl

theorem valNodes_pos (k : Nat) (v : Val) : 1 ≤ valNodes k v := by
  induction k generalizing v with
  | zero => simp [valNodes]
  | succ k ih =>
    cases v with
    | slice o => cases o with
      | none => simp [valNodes]
      | some l => rw [valNodes_slice]; omega
    | map o => cases o with
      | none => simp [valNodes]
      | some l => rw [valNodes_map]; omega
    | ptr o => cases o with
      | none => simp [valNodes]
      | some x => rw [valNodes_ptr]; exact ih x
    | iface o => cases o with
      | none => simp [valNodes]
      | some p => obtain ⟨d, x⟩ := p; rw [valNodes_iface]; exact ih x
    | arr l => rw [valNodes_arr]; omega
    | struct l => rw [valNodes_struct]; omega
    | _ => simp [valNodes]

theorem valNodes_mono (k : Nat) (v : Val) : valNodes k v ≤ valNodes (k + 1) v := by
  induction k generalizing v with
  | zero => simpa [valNodes] using valNodes_pos 1 v
  | succ k ih =>
    cases v with
    | slice o => cases o with
      | none => simp [valNodes]
      | some l =>
        rw [valNodes_slice, valNodes_slice]
        have := sum_map_le l (valNodes k) (valNodes (k+1)) (fun x _ => ih x)
        omega
    | map o => cases o with
      | none => simp [valNodes]
      | some l =>
        rw [valNodes_map, valNodes_map]
        have := sum_map_le l (fun p => 1 + valNodes k p.2) (fun p => 1 + valNodes (k+1) p.2)
          (fun x _ => by have := ih x.2; omega)
        omega
    | ptr o => cases o with
      | none => simp [valNodes]
      | some x => rw [valNodes_ptr, valNodes_ptr]; exact ih x
    | iface o => cases o with
      | none => simp [valNodes]
      | some p => obtain ⟨d, x⟩ := p; rw [valNodes_iface, valNodes_iface]; exact ih x
    | arr l =>
      rw [valNodes_arr, valNodes_arr]
      have := sum_map_le l (valNodes k) (valNodes (k+1)) (fun x _ => ih x)
      omega
    | struct l =>
      rw [valNodes_struct, valNodes_struct]
      have := sum_map_le l (fun x => 1 + valNodes k x) (fun x => 1 + valNodes (k+1) x)
        (fun x _ => by have := ih x; omega)
      omega
    | _ => simp [valNodes]

theorem valNodes_mono_le {k k' : Nat} (h : k ≤ k') (v : Val) : valNodes k v ≤ valNodes k' v := by
  induction h with
  | refl => exact Nat.le_refl _
  | step _ ih => exact Nat.le_trans ih (valNodes_mono _ v)


/-! ### hypotheses of the corrected bounds

  The induction is run once for a coefficient `c` that is `5` (keyed unions allowed, each costs three extra
  tokens that `valNodes` does not count) or `2` (no unions). -/

/-- struct-map field lists the bound is about: every route is a single field index, no index occurs twice -/
def SimpleFields (fs : List SMField) : Prop :=
  (∀ f ∈ fs, ∃ i, f.route = [i]) ∧ (fs.map (·.route)).Nodup

/-- the atlas has no transforms, only direct, pairwise distinct struct fields, and unions only if `c = 5`,
    and then never a union directly inside a union -/
structure PlainAtlasC (c : Nat) (a : Atlas) : Prop where
  notr : ∀ e ∈ a.pool, ∀ fn m u, e.k ≠ .transform fn m u
  fields : ∀ e ∈ a.pool, ∀ fs, e.k = .structMap fs → SimpleFields fs
  unions : ∀ e ∈ a.pool, ∀ ms, e.k = .union ms →
    c = 5 ∧ ∀ p ∈ ms, ∀ me, a.pool[p.2]? = some me → ∀ ms', me.k ≠ .union ms'

/-- no pointer-to-pointer types -/
def NoPtrPtr (ts : Types) : Prop := ∀ id e e', ts.get id = .ptr e → ts.get e ≠ .ptr e'

def MOk (c : Nat) (a : Atlas) : Mach → Prop
  | .structMap _ fs => SimpleFields fs
  | .transform _ _ _ => False
  | .union _ ms => c = 5 ∧ ∀ p ∈ ms, ∀ me, a.pool[p.2]? = some me → ∀ ms', me.k ≠ .union ms'
  | _ => True

def isContainer : Mach → Bool
  | .structMap _ _ | .map _ _ _ | .panic | .errThunk => true
  | _ => false

theorem mok_entry (ts : Types) {c : Nat} {a : Atlas} (hpa : PlainAtlasC c a) {e : Entry} (he : e ∈ a.pool) :
    MOk c a (machForEntry ts e) := by
  unfold machForEntry
  split
  · next fn m u hk => exact absurd hk (hpa.notr e he fn m u)
  · next fs hk => exact hpa.fields e he fs hk
  · next ms hk => exact hpa.unions e he ms hk
  · split <;> trivial
  · trivial

theorem container_entry (ts : Types) {c : Nat} {a : Atlas} (hpa : PlainAtlasC c a) {e : Entry} (he : e ∈ a.pool)
    (hnu : ∀ ms, e.k ≠ .union ms) : isContainer (machForEntry ts e) = true := by
  unfold machForEntry
  split
  · next fn m u hk => exact absurd hk (hpa.notr e he fn m u)
  · rfl
  · next ms hk => exact absurd hk (hnu ms)
  · split <;> rfl
  · rfl

theorem mok_pick (ts : Types) {c : Nat} {a : Atlas} (hpa : PlainAtlasC c a) (id : Nat) : MOk c a (pickBare ts a id) := by
  unfold pickBare
  split
  · trivial
  · trivial
  · split
    · next e he => exact mok_entry ts hpa (List.mem_of_find?_eq_some he)
    · split <;> trivial

theorem peel_nonptr (ts : Types) (fuel n id : Nat) (h : ∀ e, ts.get id ≠ .ptr e) : peel ts fuel n id = (n, id) := by
  cases fuel with
  | zero => rfl
  | succ fuel =>
    unfold peel
    split
    · next e he => exact absurd he (h e)
    · rfl

theorem peel_cases {ts : Types} (h : NoPtrPtr ts) (id : Nat) :
    (peel ts 64 0 id).1 = 0 ∨ (peel ts 64 0 id).1 = 1 := by
  rw [show (64 : Nat) = 63 + 1 from rfl, peel]
  split
  · next e he => right; rw [peel_nonptr ts 63 (0+1) e (fun e' => h id e e' he)]
  · left; rfl

theorem derefN_one {v inner : Val} (h : derefN 1 v = some inner) : v = .ptr (some inner) := by
  cases v with
  | ptr o => cases o with
    | none => simp [derefN] at h
    | some x => simp [derefN] at h; rw [h]
  | _ => simp [derefN] at h

def structFields : Val → List Val
  | .struct fs => fs
  | .ptr (some (.struct fs)) => fs
  | _ => []

theorem traverse_single (i : Nat) (v : Val) : traverse [i] v = (structFields v)[i]? := by
  unfold traverse
  cases v with
  | struct fs => simp only [structFields]; cases fs[i]? <;> simp [traverse]
  | ptr o => cases o with
    | none => simp [structFields]
    | some x => cases x <;> simp [structFields] <;> (next fs => cases fs[i]? <;> simp [traverse])
  | _ => simp [structFields]

theorem structFields_nodes (j : Nat) (v : Val) :
    1 + ((structFields v).map fun x => 1 + valNodes j x).sum ≤ valNodes (j + 2) v := by
  have hs : ∀ fs : List Val, 1 + (fs.map fun x => 1 + valNodes j x).sum ≤ valNodes (j + 1) (.struct fs) := by
    intro fs; rw [valNodes_struct]; omega
  cases v with
  | struct fs => exact Nat.le_trans (hs fs) (valNodes_mono _ _)
  | ptr o => cases o with
    | none => simp [structFields, valNodes]
    | some x =>
      rw [valNodes_ptr]
      cases x with
      | struct fs => exact hs fs
      | _ => simpa [structFields] using valNodes_pos _ _
  | _ => simpa [structFields] using valNodes_pos _ _

theorem mapM_snd {α β γ : Type} (f : α × γ → Option (β × γ)) (hf : ∀ x y, f x = some y → y.2 = x.2) :
    ∀ (l : List (α × γ)) (r : List (β × γ)), l.mapM f = some r → r.map (·.2) = l.map (·.2)
  | [], r, h => by simp at h; subst h; rfl
  | x :: xs, r, h => by
    rw [List.mapM_cons] at h
    cases hx : f x with
    | none => simp [hx] at h
    | some y =>
      cases hxs : xs.mapM f with
      | none => simp [hx, hxs] at h
      | some ys =>
        simp [hx, hxs] at h
        subst h
        simp [mapM_snd f hf xs ys hxs, hf x y hx]


/-! ### the bound -/

/-- `omega`, after substituting the coefficient -/
local macro "comega" : tactic => `(tactic| first | omega | (rcases ‹_ = 5 ∨ _ = 2› with h | h <;> subst h <;> omega))

section
variable (ts : Types) (a : Atlas) (trs : Trs) (c : Nat)

/-- weight of one emitted struct field -/
def fieldW (c j : Nat) (v : Val) (f : SMField) : Nat :=
  match traverse f.route v with
  | some fv => 1 + c * valNodes j fv
  | none => 0

def BV (k : Nat) : Prop := ∀ id v toks, marshalV ts a trs k id v = ⟨toks, none⟩ → toks.length ≤ c * valNodes k v
def BB (k : Nat) : Prop := ∀ id m v toks, MOk c a m → marshalBare ts a trs k id m v = ⟨toks, none⟩ →
  toks.length ≤ c * valNodes k v ∧ (isContainer m = true → toks.length + (c - 2) ≤ c * valNodes k v)
def BL (k : Nat) : Prop := ∀ e es toks, marshalList ts a trs k e es = ⟨toks, none⟩ →
  toks.length ≤ c * (es.map (valNodes k)).sum
def BE (k : Nat) : Prop := ∀ vt kvs toks, marshalEntries ts a trs k vt kvs = ⟨toks, none⟩ →
  toks.length ≤ (kvs.map fun p => 1 + c * valNodes k p.2).sum
def BF (k : Nat) : Prop := ∀ fs v toks, marshalFields ts a trs k fs v = ⟨toks, none⟩ →
  toks.length ≤ (fs.map (fieldW c (k - 1) v)).sum

theorem bv_step (hc : c = 5 ∨ c = 2) (hpp : NoPtrPtr ts) (hpa : PlainAtlasC c a) (k : Nat) (hb : BB ts a trs c k) : BV ts a trs c (k + 1) := by
  intro id v toks h
  simp only [marshalV] at h
  split at h
  · exact Nat.le_trans (hb _ _ _ _ (mok_pick ts hpa _) h).1 (Nat.mul_le_mul_left c (valNodes_mono k v))
  · next hn =>
    split at h
    · rw [ok_inv h]; have := valNodes_pos (k+1) v; simp; comega
    · next inner hin =>
      have h1 : (peel ts 64 0 id).1 = 1 := by
        rcases peel_cases hpp id with h0 | h1
        · simp [h0] at hn
        · exact h1
      rw [h1] at hin
      rw [derefN_one hin, valNodes_ptr]
      exact (hb _ _ _ _ (mok_pick ts hpa _) h).1

theorem bl_step (hc : c = 5 ∨ c = 2) (k : Nat) (hv : BV ts a trs c k) (hl : BL ts a trs c k) : BL ts a trs c (k + 1) := by
  intro e es toks h
  cases es with
  | nil => simp only [marshalList] at h; rw [ok_inv h]; simp
  | cons x xs =>
    simp only [marshalList] at h
    obtain ⟨t1, t2, h1, h2, rfl⟩ := seq_inv h
    have a1 := hv _ _ _ h1
    have a2 := hl _ _ _ h2
    have m1 := valNodes_mono k x
    have m2 := sum_map_le xs (valNodes k) (valNodes (k+1)) (fun y _ => valNodes_mono k y)
    simp only [List.length_append, List.map_cons, List.sum_cons]
    comega

theorem be_step (hc : c = 5 ∨ c = 2) (k : Nat) (hv : BV ts a trs c k) (he : BE ts a trs c k) : BE ts a trs c (k + 1) := by
  intro vt kvs toks h
  cases kvs with
  | nil => simp only [marshalEntries] at h; rw [ok_inv h]; simp
  | cons kx rest =>
    obtain ⟨key, x⟩ := kx
    simp only [marshalEntries] at h
    obtain ⟨t0, t12, h0, h12, rfl⟩ := seq_inv h
    obtain ⟨t1, t2, h1, h2, rfl⟩ := seq_inv h12
    have a1 := hv _ _ _ h1
    have a2 := he _ _ _ h2
    have m1 := valNodes_mono k x
    have m2 := sum_map_le rest (fun p => 1 + c * valNodes k p.2) (fun p => 1 + c * valNodes (k+1) p.2)
      (fun y _ => by have := valNodes_mono k y.2; comega)
    rw [ok_inv h0]
    simp only [List.length_append, List.map_cons, List.sum_cons, List.length_cons, List.length_nil]
    comega

theorem fieldW_mono (hc : c = 5 ∨ c = 2) (j : Nat) (v : Val) (f : SMField) : fieldW c j v f ≤ fieldW c (j + 1) v f := by
  unfold fieldW
  split
  · have := valNodes_mono j ‹Val›; comega
  · exact Nat.le_refl _

theorem bf_step (hc : c = 5 ∨ c = 2) (k : Nat) (hv : BV ts a trs c k) (hf : BF ts a trs c k) : BF ts a trs c (k + 1) := by
  intro fs v toks h
  cases fs with
  | nil => simp only [marshalFields] at h; rw [ok_inv h]; simp
  | cons f rest =>
    simp only [marshalFields] at h
    split at h
    · exact absurd h bad_ne
    · next fv hfv =>
      obtain ⟨t0, t12, h0, h12, rfl⟩ := seq_inv h
      obtain ⟨t1, t2, h1, h2, rfl⟩ := seq_inv h12
      have a1 := hv _ _ _ h1
      have a2 := hf _ _ _ h2
      have m2 : (rest.map (fieldW c (k - 1) v)).sum ≤ (rest.map (fieldW c k v)).sum := by
        apply sum_map_le
        intro y _
        cases k with
        | zero => exact Nat.le_refl _
        | succ k => exact fieldW_mono c hc k v y
      rw [ok_inv h0]
      simp only [List.length_append, List.map_cons, List.sum_cons, List.length_cons, List.length_nil,
        Nat.add_sub_cancel]
      have : fieldW c k v f = 1 + c * valNodes k fv := by simp [fieldW, hfv]
      comega


theorem simpleFields_filter {fs : List SMField} (p : SMField → Bool) (h : SimpleFields fs) : SimpleFields (fs.filter p) :=
  ⟨fun f hf => h.1 f (List.mem_filter.mp hf).1, List.Nodup.sublist (List.Sublist.map _ List.filter_sublist) h.2⟩

theorem struct_sum (hc : c = 5 ∨ c = 2) (j : Nat) (v : Val) (fs : List SMField) (h : SimpleFields fs) :
    (fs.map (fieldW c j v)).sum ≤ ((structFields v).map fun x => 1 + c * valNodes j x).sum := by
  have hnd : (fs.map fun f => f.route.headD 0).Nodup := by
    have h2 := h.2
    rw [List.nodup_iff_pairwise_ne, List.pairwise_map] at h2 ⊢
    refine List.Pairwise.imp_of_mem ?_ h2
    intro x y hx hy hne heq
    obtain ⟨i, hi⟩ := h.1 x hx
    obtain ⟨i', hi'⟩ := h.1 y hy
    simp only [hi, hi', List.headD_cons] at heq hne
    exact hne (by rw [heq])
  have := sum_idx_le _ hnd ((structFields v).map fun x => 1 + c * valNodes j x)
  rw [List.map_map] at this
  refine Nat.le_trans (Nat.le_of_eq ?_) this
  congr 1
  apply List.map_congr_left
  intro f hf
  obtain ⟨i, hi⟩ := h.1 f hf
  simp only [fieldW, hi, traverse_single, Function.comp, List.headD_cons, List.getElem?_map]
  cases (structFields v)[i]? <;> simp

theorem struct_bound_aux (hc : c = 5 ∨ c = 2) (j : Nat) (v : Val) (fields : List SMField) (p : SMField → Bool) (n : Nat)
    (hm : SimpleFields fields) (a1 : n ≤ ((fields.filter p).map (fieldW c j v)).sum) :
    n + c ≤ c * valNodes (j + 2) v := by
  have a2 := struct_sum c hc j v _ (simpleFields_filter p hm)
  have a3 := structFields_nodes j v
  have a4 : ((structFields v).map fun x => 1 + c * valNodes j x).sum
      ≤ c * ((structFields v).map fun x => 1 + valNodes j x).sum := by
    rw [← sum_map_mul]
    exact sum_map_le _ _ _ (fun x _ => by comega)
  comega

theorem prim_len (id : Nat) (v : Val) (toks : List Tok) (h : primTok ts id v = ⟨toks, none⟩) : toks.length = 1 := by
  unfold primTok at h
  split at h <;> first
    | exact absurd h bad_ne
    | (rw [ok_inv h]; rfl)

theorem arr_len (hc : c = 5 ∨ c = 2) (k e : Nat) (es : List Val) (toks : List Tok) (hl : BL ts a trs c k)
    (h : ((MOut.ok [⟨.arrOpen es.length, none⟩]).seq fun _ =>
           (marshalList ts a trs k e es).seq fun _ => .ok [⟨.arrClose, none⟩]) = ⟨toks, none⟩) :
    toks.length ≤ 2 + c * (es.map (valNodes k)).sum := by
  obtain ⟨t0, t12, h0, h12, rfl⟩ := seq_inv h
  obtain ⟨t1, t2, h1, h2, rfl⟩ := seq_inv h12
  have := hl _ _ _ h1
  rw [ok_inv h0, ok_inv h2]
  simp only [List.length_append, List.length_cons, List.length_nil]
  comega

theorem bb_step (hc : c = 5 ∨ c = 2) (hpa : PlainAtlasC c a) (k : Nat) (hv : BV ts a trs c k) (hb : BB ts a trs c k) (hl : BL ts a trs c k)
    (he : BE ts a trs c k) (hf : BF ts a trs c k) : BB ts a trs c (k + 1) := by
  intro id m v toks hm h
  have hpos := valNodes_pos (k+1) v
  cases m with
  | prim =>
    unfold marshalBare at h; simp only at h
    rw [prim_len ts id v toks h]
    exact ⟨by comega, by simp [isContainer]⟩
  | errThunk => unfold marshalBare at h; exact absurd h bad_ne
  | panic => unfold marshalBare at h; exact absurd h bad_ne
  | wildcard =>
    unfold marshalBare at h; simp only at h
    refine ⟨?_, by simp [isContainer]⟩
    split at h
    · rw [ok_inv h]; simp; comega
    · rw [valNodes_iface]; exact hv _ _ _ h
    · exact absurd h bad_ne
  | slice e =>
    unfold marshalBare at h; simp only at h
    refine ⟨?_, by simp [isContainer]⟩
    split at h
    · rw [ok_inv h]; simp; comega
    · have := arr_len ts a trs c hc k e _ toks hl h
      rw [valNodes_slice]; comega
    · exact absurd h bad_ne
  | array e =>
    unfold marshalBare at h; simp only at h
    refine ⟨?_, by simp [isContainer]⟩
    split at h
    · have := arr_len ts a trs c hc k e _ toks hl h
      rw [valNodes_arr]; comega
    · exact absurd h bad_ne
  | map kt vt mode =>
    unfold marshalBare at h; simp only at h
    suffices hs : toks.length + (c - 2) ≤ c * valNodes (k + 1) v from ⟨by comega, fun _ => hs⟩
    split at h
    · exact absurd h bad_ne
    · next kf es _ =>
      split at h
      · exact absurd h bad_ne
      · next kvs hkvs =>
        split at h
        · rw [ok_inv h]; simp; comega
        · next hnn =>
          cases es with
          | none => simp at hnn
          | some l =>
            obtain ⟨t0, t12, h0, h12, rfl⟩ := seq_inv h
            obtain ⟨t1, t2, h1, h2, rfl⟩ := seq_inv h12
            have a1 := he _ _ _ h1
            have p1 : ((sortKeys mode kvs).map fun p => 1 + c * valNodes k p.2).sum
                = (kvs.map fun p => 1 + c * valNodes k p.2).sum :=
              List.Perm.sum_nat (List.Perm.map _ (List.mergeSort_perm _ _))
            have p2 : kvs.map (·.2) = l.map (·.2) := by
              refine mapM_snd _ ?_ _ _ hkvs
              intro x y hxy
              split at hxy
              · simp at hxy; rw [← hxy]
              · split at hxy
                · simp at hxy; rw [← hxy]
                · simp at hxy
              · simp at hxy
            have p3 : (kvs.map fun p => 1 + c * valNodes k p.2).sum = (l.map fun p => 1 + c * valNodes k p.2).sum := by
              have e1 : (kvs.map fun p => 1 + c * valNodes k p.2) = (kvs.map (·.2)).map (fun x => 1 + c * valNodes k x) := by
                simp [List.map_map, Function.comp]
              have e2 : (l.map fun p => 1 + c * valNodes k p.2) = (l.map (·.2)).map (fun x => 1 + c * valNodes k x) := by
                simp [List.map_map, Function.comp]
              rw [e1, e2, p2]
            have p4 : (l.map fun p => 1 + c * valNodes k p.2).sum ≤ c * (l.map fun p => 1 + valNodes k p.2).sum := by
              rw [← sum_map_mul]
              exact sum_map_le _ _ _ (fun x _ => by comega)
            rw [ok_inv h0, ok_inv h2, valNodes_map]
            simp only [List.length_append, List.length_cons, List.length_nil]
            comega
    · exact absurd h bad_ne
  | structMap e fields =>
    unfold marshalBare at h; simp only at h
    suffices hs : toks.length + (c - 2) ≤ c * valNodes (k + 1) v from ⟨by comega, fun _ => hs⟩
    obtain ⟨t0, t12, h0, h12, rfl⟩ := seq_inv h
    obtain ⟨t1, t2, h1, h2, rfl⟩ := seq_inv h12
    cases k with
    | zero => simp only [marshalFields] at h1; exact absurd h1 bad_ne
    | succ j =>
      have a1 := hf _ _ _ h1
      simp only [Nat.add_sub_cancel] at a1
      have a2 := struct_bound_aux c hc j v fields _ _ hm a1
      rw [show j + 2 = j + 1 + 1 from rfl] at a2
      rw [ok_inv h0, ok_inv h2]
      simp only [List.length_append, List.length_cons, List.length_nil]
      comega
  | transform e fn mty => exact absurd hm (by simp [MOk])
  | union e members =>
    unfold marshalBare at h; simp only at h
    refine ⟨?_, by simp [isContainer]⟩
    split at h
    · exact absurd h bad_ne
    · next dt dv =>
      split at h
      · exact absurd h bad_ne
      · next _ name idx hfind =>
        split at h
        · exact absurd h bad_ne
        · next _ me hme =>
          split at h
          · exact absurd h bad_ne
          · obtain ⟨t0, t12, h0, h12, rfl⟩ := seq_inv h
            obtain ⟨t1, t2, h1, h2, rfl⟩ := seq_inv h12
            have hmem : me ∈ a.pool := List.mem_of_getElem? hme
            have hc5 := hm.1
            subst hc5
            have hnu := hm.2 (name, idx) (List.mem_of_find?_eq_some hfind) me hme
            have a1 := (hb _ _ _ _ (mok_entry ts hpa hmem) h1).2 (container_entry ts hpa hmem hnu)
            rw [ok_inv h0, ok_inv h2, valNodes_iface]
            simp only [List.length_append, List.length_cons, List.length_nil]
            comega
    · exact absurd h bad_ne


theorem all_bound (hc : c = 5 ∨ c = 2) (hpp : NoPtrPtr ts) (hpa : PlainAtlasC c a) (k : Nat) :
    BV ts a trs c k ∧ BB ts a trs c k ∧ BL ts a trs c k ∧ BE ts a trs c k ∧ BF ts a trs c k := by
  induction k with
  | zero =>
    refine ⟨?_, ?_, ?_, ?_, ?_⟩
    · intro id v toks h; simp only [marshalV] at h; exact absurd h bad_ne
    · intro id m v toks _ h; simp only [marshalBare] at h; exact absurd h bad_ne
    · intro e es toks h; simp only [marshalList] at h; exact absurd h bad_ne
    · intro e es toks h; simp only [marshalEntries] at h; exact absurd h bad_ne
    · intro e es toks h; simp only [marshalFields] at h; exact absurd h bad_ne
  | succ n ih =>
    obtain ⟨hv, hb, hl, he, hf⟩ := ih
    exact ⟨bv_step ts a trs c hc hpp hpa n hb, bb_step ts a trs c hc hpa n hv hb hl he hf,
      bl_step ts a trs c hc n hv hl, be_step ts a trs c hc n hv he, bf_step ts a trs c hc n hv hf⟩

end

/-- atlas hypotheses of `marshal_bound`: no transforms; every struct-map field is a direct field (route of length 1)
    and no field is listed twice; a keyed union never has a keyed union as a member -/
def PlainAtlas (a : Atlas) : Prop := PlainAtlasC 5 a

/-- atlas hypotheses of `marshal_bound_plain_fixed`: as `PlainAtlas`, and no keyed unions at all -/
def PlainAtlasNoUnion (a : Atlas) : Prop := PlainAtlasC 2 a

theorem plainAtlas_iff (a : Atlas) : PlainAtlas a ↔
    (∀ e ∈ a.pool, ∀ fn m u, e.k ≠ .transform fn m u) ∧
    (∀ e ∈ a.pool, ∀ fs, e.k = .structMap fs → SimpleFields fs) ∧
    (∀ e ∈ a.pool, ∀ ms, e.k = .union ms → ∀ p ∈ ms, ∀ me, a.pool[p.2]? = some me → ∀ ms', me.k ≠ .union ms') :=
  ⟨fun h => ⟨h.notr, h.fields, fun e he ms hk => (h.unions e he ms hk).2⟩,
   fun h => ⟨h.1, h.2.1, fun e he ms hk => ⟨rfl, h.2.2 e he ms hk⟩⟩⟩

theorem plainAtlasNoUnion_iff (a : Atlas) : PlainAtlasNoUnion a ↔
    (∀ e ∈ a.pool, ∀ fn m u, e.k ≠ .transform fn m u) ∧
    (∀ e ∈ a.pool, ∀ fs, e.k = .structMap fs → SimpleFields fs) ∧
    (∀ e ∈ a.pool, ∀ ms, e.k ≠ .union ms) :=
  ⟨fun h => ⟨h.notr, h.fields, fun e he ms hk => absurd (h.unions e he ms hk).1 (by decide)⟩,
   fun h => ⟨h.1, h.2.1, fun e he ms hk => absurd hk (h.2.2 e he ms)⟩⟩

/-- Corrected bound, keyed unions allowed: at most five tokens per node of the value.
    (The coefficient 5 is needed: `n` union-wrapped empty structs in a slice give `5 n + 2` tokens for `n + 1` nodes.) -/
theorem marshal_bound (ts : Types) (a : Atlas) (trs : Trs) (fuel id : Nat) (v : Val) (toks : List Tok)
    (hpp : NoPtrPtr ts) (hpa : PlainAtlas a)
    (h : marshalV ts a trs fuel id v = ⟨toks, none⟩) :
    toks.length ≤ 5 * valNodes fuel v :=
  (all_bound ts a trs 5 (Or.inl rfl) hpp hpa fuel).1 id v toks h

/-- Without keyed unions two tokens per node suffice … -/
theorem marshal_bound_two (ts : Types) (a : Atlas) (trs : Trs) (fuel id : Nat) (v : Val) (toks : List Tok)
    (hpp : NoPtrPtr ts) (hpa : PlainAtlasNoUnion a)
    (h : marshalV ts a trs fuel id v = ⟨toks, none⟩) :
    toks.length ≤ 2 * valNodes fuel v :=
  (all_bound ts a trs 2 (Or.inr rfl) hpp hpa fuel).1 id v toks h

/-- … hence the bound as first stated holds under the three missing hypotheses
    (direct, pairwise distinct struct fields; no keyed unions; no pointer-to-pointer types). -/
theorem marshal_bound_plain_fixed (ts : Types) (a : Atlas) (trs : Trs) (fuel id : Nat) (v : Val) (toks : List Tok)
    (hpp : NoPtrPtr ts) (hpa : PlainAtlasNoUnion a)
    (h : marshalV ts a trs fuel id v = ⟨toks, none⟩) :
    toks.length ≤ 3 * valNodes fuel v + 2 := by
  have := marshal_bound_two ts a trs fuel id v toks hpp hpa h
  omega


theorem seq_congr_np {a a' : MOut} {b b' : Unit → MOut} (hnp : (a.seq b).fail ≠ some .panic)
    (ha : a.fail ≠ some .panic → a' = a) (hb : (b ()).fail ≠ some .panic → b' () = b ()) :
    a'.seq b' = a.seq b := by
  unfold MOut.seq at hnp ⊢
  cases hf : a.fail with
  | some f =>
    rw [hf] at hnp
    simp only at hnp
    rw [ha hnp, hf]
  | none =>
    rw [hf] at hnp
    simp only at hnp
    rw [ha (by simp [hf]), hf]
    simp only
    rw [hb hnp]

theorem retag_fail (tag : Option Int) (o : MOut) : (retagFirst tag o).fail = o.fail := by
  unfold retagFirst; split <;> rfl

section
variable (ts : Types) (a : Atlas) (trs : Trs)

def QV (n : Nat) : Prop := ∀ id v, (marshalV ts a trs n id v).fail ≠ some .panic → marshalV ts a trs (n+1) id v = marshalV ts a trs n id v
def QB (n : Nat) : Prop := ∀ id m v, (marshalBare ts a trs n id m v).fail ≠ some .panic → marshalBare ts a trs (n+1) id m v = marshalBare ts a trs n id m v
def QL (n : Nat) : Prop := ∀ e es, (marshalList ts a trs n e es).fail ≠ some .panic → marshalList ts a trs (n+1) e es = marshalList ts a trs n e es
def QE (n : Nat) : Prop := ∀ e es, (marshalEntries ts a trs n e es).fail ≠ some .panic → marshalEntries ts a trs (n+1) e es = marshalEntries ts a trs n e es
def QF (n : Nat) : Prop := ∀ fs v, (marshalFields ts a trs n fs v).fail ≠ some .panic → marshalFields ts a trs (n+1) fs v = marshalFields ts a trs n fs v

theorem qv_step (n : Nat) (hb : QB ts a trs n) : QV ts a trs (n+1) := by
  intro id v hnp
  simp only [marshalV] at hnp ⊢
  split
  · next h0 => rw [if_pos h0] at hnp; exact hb _ _ _ hnp
  · next h0 =>
    rw [if_neg h0] at hnp
    split
    · rfl
    · next inner hin => rw [hin] at hnp; exact hb _ _ _ hnp

theorem ql_step (n : Nat) (hv : QV ts a trs n) (hl : QL ts a trs n) : QL ts a trs (n+1) := by
  intro e es hnp
  cases es with
  | nil => simp only [marshalList]
  | cons x xs =>
    simp only [marshalList] at hnp ⊢
    exact seq_congr_np hnp (hv _ _) (hl _ _)

theorem qe_step (n : Nat) (hv : QV ts a trs n) (he : QE ts a trs n) : QE ts a trs (n+1) := by
  intro e es hnp
  cases es with
  | nil => simp only [marshalEntries]
  | cons kx xs =>
    obtain ⟨k, x⟩ := kx
    simp only [marshalEntries] at hnp ⊢
    exact seq_congr_np hnp (fun _ => rfl) (fun h2 => seq_congr_np h2 (hv _ _) (he _ _))

theorem qf_step (n : Nat) (hv : QV ts a trs n) (hf : QF ts a trs n) : QF ts a trs (n+1) := by
  intro fs v hnp
  cases fs with
  | nil => simp only [marshalFields]
  | cons f rest =>
    simp only [marshalFields] at hnp ⊢
    split
    · rfl
    · next fv hfv =>
      rw [hfv] at hnp
      exact seq_congr_np hnp (fun _ => rfl) (fun h2 => seq_congr_np h2 (hv _ _) (hf _ _))

theorem qb_step (n : Nat) (hv : QV ts a trs n) (hb : QB ts a trs n) (hl : QL ts a trs n)
    (he : QE ts a trs n) (hf : QF ts a trs n) : QB ts a trs (n+1) := by
  intro id m v hnp
  cases m with
  | prim => unfold marshalBare; rfl
  | errThunk => unfold marshalBare; rfl
  | panic => unfold marshalBare; rfl
  | wildcard =>
    unfold marshalBare at hnp ⊢; simp only at hnp ⊢
    split at hnp
    · rfl
    · exact hv _ _ hnp
    · exact absurd rfl hnp
  | slice e =>
    unfold marshalBare at hnp ⊢; simp only at hnp ⊢
    split at hnp
    · rfl
    · exact seq_congr_np hnp (fun _ => rfl) (fun h2 => seq_congr_np h2 (hl _ _) (fun _ => rfl))
    · exact absurd rfl hnp
  | array e =>
    unfold marshalBare at hnp ⊢; simp only at hnp ⊢
    split at hnp
    · exact seq_congr_np hnp (fun _ => rfl) (fun h2 => seq_congr_np h2 (hl _ _) (fun _ => rfl))
    · exact absurd rfl hnp
  | map kt vt mode =>
    unfold marshalBare at hnp ⊢; simp only at hnp ⊢
    split at hnp
    · rfl
    · next kf es h1 =>
      split at hnp
      · rfl
      · next kvs h2 =>
        split at hnp
        · next h3 => simp only [if_pos h3]
        · next h3 =>
          simp only [if_neg h3]
          exact seq_congr_np hnp (fun _ => rfl) (fun h2 => seq_congr_np h2 (he _ _) (fun _ => rfl))
    · exact absurd rfl hnp
  | structMap e fields =>
    unfold marshalBare at hnp ⊢; simp only at hnp ⊢
    exact seq_congr_np hnp (fun _ => rfl) (fun h2 => seq_congr_np h2 (hf _ _) (fun _ => rfl))
  | transform e fn mty =>
    unfold marshalBare at hnp ⊢; simp only at hnp ⊢
    split at hnp
    · rfl
    · next tv h1 =>
      rw [retag_fail] at hnp
      rw [hv _ _ hnp]
  | union e members =>
    unfold marshalBare at hnp ⊢; simp only at hnp ⊢
    split at hnp
    · rfl
    · next dt dv =>
     split at hnp
     · rfl
     · split at hnp
       · rfl
       · next me hme =>
          have hin : (marshalBare ts a trs n dt (machForEntry ts me) dv).fail ≠ some .panic := by
            intro hc
            split at hnp
            · next f ht hf' => rw [hc] at hf'; cases hf'; exact hnp rfl
            · simp [MOut.seq, MOut.ok, hc] at hnp
          rw [hb _ _ _ hin]
    · exact absurd rfl hnp

theorem all_mono (n : Nat) :
    QV ts a trs n ∧ QB ts a trs n ∧ QL ts a trs n ∧ QE ts a trs n ∧ QF ts a trs n := by
  induction n with
  | zero =>
    refine ⟨?_, ?_, ?_, ?_, ?_⟩
    · intro id v h; simp only [marshalV] at h; exact absurd rfl h
    · intro id m v h; simp only [marshalBare] at h; exact absurd rfl h
    · intro e es h; simp only [marshalList] at h; exact absurd rfl h
    · intro e es h; simp only [marshalEntries] at h; exact absurd rfl h
    · intro e es h; simp only [marshalFields] at h; exact absurd rfl h
  | succ n ih =>
    obtain ⟨hv, hb, hl, he, hf⟩ := ih
    exact ⟨qv_step ts a trs n hb, qb_step ts a trs n hv hb hl he hf, ql_step ts a trs n hv hl,
      qe_step ts a trs n hv he, qf_step ts a trs n hv hf⟩

end

/-- more fuel never changes a result that was not a fuel exhaustion (successful or error) -/
theorem marshal_fuel_mono (ts : Types) (a : Atlas) (trs : Trs) (fuel id : Nat) (v : Val) (o : MOut)
    (h : marshalV ts a trs fuel id v = o) (hp : o.fail ≠ some .panic) :
    marshalV ts a trs (fuel + 1) id v = o := by
  subst h
  exact (all_mono ts a trs fuel).1 id v hp

/-- hence any larger fuel gives the same result -/
theorem marshal_fuel_mono_le (ts : Types) (a : Atlas) (trs : Trs) (fuel fuel' id : Nat) (v : Val) (o : MOut)
    (h : marshalV ts a trs fuel id v = o) (hp : o.fail ≠ some .panic) (hle : fuel ≤ fuel') :
    marshalV ts a trs fuel' id v = o := by
  induction hle with
  | refl => exact h
  | step _ ih => exact marshal_fuel_mono ts a trs _ id v o ih hp


/-- the struct machine, precisely: the header announces exactly the number of fields that pass the
    ignore / unreachable / omitempty filter, and exactly that many key/value pairs follow -/
theorem struct_count_matches_walk_strong (ts : Types) (a : Atlas) (trs : Trs) (fuel id : Nat) (e : Entry) (fields : List SMField)
    (v : Val) (toks : List Tok) (h : marshalBare ts a trs fuel id (.structMap e fields) v = ⟨toks, none⟩) :
    ∃ es : List (TV × TV),
      es.length = (fields.filter fun f =>
          !f.ignore && (match traverse f.route v with
                        | none => false
                        | some fv => !(f.omitEmpty && isEmpty 1000 fv))).length ∧
      toks = (TV.map e.tag (es.length : Nat) es).flatten ∧ GoodE es := by
  cases fuel with
  | zero => simp only [marshalBare] at h; exact absurd h bad_ne
  | succ fuel =>
    unfold marshalBare at h; simp only at h
    obtain ⟨t0, t12, h0, h12, rfl⟩ := seq_inv h
    obtain ⟨t1, t2, h1, h2, rfl⟩ := seq_inv h12
    obtain ⟨es, rfl, hlen, g⟩ := (all_fuel ts a trs fuel).2.2.2.2 _ _ _ h1
    refine ⟨es, hlen, ?_, g⟩
    rw [ok_inv h0, ok_inv h2, ← hlen]
    simp [TV.flatten]

/-- the struct header count equals the number of key/value pairs the walk emits, for every
    combination of empty / ignored / unreachable fields -/
theorem struct_count_matches_walk (ts : Types) (a : Atlas) (trs : Trs) (fuel id : Nat) (e : Entry) (fields : List SMField)
    (v : Val) (toks : List Tok) (h : marshalBare ts a trs fuel id (.structMap e fields) v = ⟨toks, none⟩) :
    ∃ n es, toks = ⟨.mapOpen (n : Nat), e.tag⟩ :: es ∧
      ∃ tv : TV, toks = tv.flatten ∧ tv.lengthsOk = true := by
  obtain ⟨es, _, rfl, g⟩ := struct_count_matches_walk_strong ts a trs fuel id e fields v toks h
  exact ⟨es.length, _, by simp only [TV.flatten]; rfl, _, rfl, (good_map g).1⟩

end Refmt.C07
