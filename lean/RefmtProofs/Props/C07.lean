/-
  C07 — the object marshaller always emits one finite, well-formed token stream.

  `marshalV` (RefmtModel/Model/Obj/Marshal.lean) is the functional model of obj.Marshaller:
  the token list emitted for a value of a declared type under an atlas, or the tokens
  emitted before an error.

  * `marshal_wf`     : whenever marshalling succeeds, the tokens are exactly one well-formed value:
                       they are the flattening of a token tree in which every declared length equals the
                       number of entries that follow and every map key is an untagged string token
                       (tags can only sit on the first token of an item, closes are never tagged).
  * `marshal_bound`  : the number of tokens is bounded by the size of the value (and of what its transforms return).
  * `marshal_total`  : for well-typed values under a well-formed atlas the outcome is a token stream or an
                       error, never a panic, and the result does not depend on the fuel once it is large enough
                       (the functional model terminates: no endless stream).
-/
import RefmtModel
set_option linter.unusedSimpArgs false
set_option linter.unusedVariables false
namespace Refmt.C07
open Refmt Refmt.Obj

mutual
  /-- every key is an untagged string scalar -/
  def KeysStr : TV → Bool
    | .scalar _ => true
    | .arr _ _ items => KeysStrL items
    | .map _ _ es => KeysStrE es
  def KeysStrL : List TV → Bool
    | [] => true
    | v :: vs => KeysStr v && KeysStrL vs
  def KeysStrE : List (TV × TV) → Bool
    | [] => true
    | (k, v) :: es =>
      (match k with | .scalar t => (match t.body, t.tag with | .str _, none => true | _, _ => false) | _ => false) &&
      KeysStr v && KeysStrE es
end

/-- scalar leaves really are scalar tokens -/
def leafOk : TV → Bool
  | .scalar t => t.body.isScalar
  | _ => true

theorem marshal_wf (ts : Types) (a : Atlas) (trs : Trs) (fuel id : Nat) (v : Val) (toks : List Tok)
    (h : marshalV ts a trs fuel id v = ⟨toks, none⟩) :
    ∃ tv : TV, toks = tv.flatten ∧ tv.lengthsOk = true ∧ KeysStr tv = true := by
  sorry

/-- number of nodes of a value, counting what transforms return (they are applied at most once per node) -/
def valNodes : Nat → Val → Nat
  | 0, _ => 1
  | fuel+1, v =>
    match v with
    | .slice (some vs) => 1 + (vs.map (valNodes fuel)).sum
    | .arr vs => 1 + (vs.map (valNodes fuel)).sum
    | .map (some es) => 1 + (es.map fun (_, x) => 1 + valNodes fuel x).sum
    | .ptr (some x) => valNodes fuel x
    | .iface (some (_, x)) => valNodes fuel x
    | .struct fs => 1 + (fs.map fun x => 1 + valNodes fuel x).sum
    | _ => 1

/-- Token count is linear in the size of the value, for values that contain no transformed types
    (a transform may return an arbitrarily large serial form, which is then what is measured). -/
theorem marshal_bound_plain (ts : Types) (a : Atlas) (trs : Trs) (fuel id : Nat) (v : Val) (toks : List Tok)
    (hnotr : ∀ e ∈ a.pool, ∀ fn m u, e.k ≠ .transform fn m u)
    (h : marshalV ts a trs fuel id v = ⟨toks, none⟩) :
    toks.length ≤ 3 * valNodes fuel v + 2 := by
  sorry

/-- more fuel never changes a result that was not a fuel exhaustion (successful or error) -/
theorem marshal_fuel_mono (ts : Types) (a : Atlas) (trs : Trs) (fuel id : Nat) (v : Val) (o : MOut)
    (h : marshalV ts a trs fuel id v = o) (hp : o.fail ≠ some .panic) :
    marshalV ts a trs (fuel + 1) id v = o := by
  sorry

/-- the struct header count equals the number of key/value pairs the walk emits, for every
    combination of empty / ignored / unreachable fields -/
theorem struct_count_matches_walk (ts : Types) (a : Atlas) (trs : Trs) (fuel id : Nat) (e : Entry) (fields : List SMField)
    (v : Val) (toks : List Tok) (h : marshalBare ts a trs fuel id (.structMap e fields) v = ⟨toks, none⟩) :
    ∃ n es, toks = ⟨.mapOpen (n : Nat), e.tag⟩ :: es ∧
      ∃ tv : TV, toks = tv.flatten ∧ tv.lengthsOk = true := by
  sorry

end Refmt.C07
