/-
  C03 without the float hypothesis: `FloatTextOk` is a theorem (`FloatL.floatTextOk`), so the statements of
  `enc_valid` and `roundtrip` as first written hold.
-/
import RefmtProofs.Props.C03
import RefmtProofs.Lemmas.FloatTextProof
namespace Refmt.C03Float
open Refmt

theorem floatTextOk : C03.FloatTextOk := FloatL.floatTextOk

theorem enc_valid : C03.enc_valid_statement := C03.enc_valid_of_floatTextOk floatTextOk

theorem roundtrip : C03.roundtrip_statement := C03.roundtrip_of_floatTextOk floatTextOk

end Refmt.C03Float
