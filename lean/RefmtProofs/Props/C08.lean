/-
  C08 — output is a deterministic function of the value; keys are ordered as configured.

  * `keyLe_*`            : both key comparators are total preorders that are antisymmetric on byte strings
                           (default / strings: bytewise lexicographic; RFC 7049: shorter first, then bytewise).
  * `sortKeys_sorted`, `sortKeys_perm` : the emitted key sequence is sorted by the configured order and is a
                           permutation of the map's keys.
  * `sortKeys_unique`    : with distinct keys the sorted sequence does not depend on the order in which the map
                           was iterated or built (so any correct sort, Go's unstable one included, gives it).
  * `marshal_map_order_independent` : two map values holding the same entries in different iteration orders
                           marshal to identical token lists.
  * `struct_keys_in_atlas_order`    : a struct's keys appear in the order of the atlas entry's field list.
        The statement as first written (`struct_keys_in_atlas_order_statement`) is FALSE: its hypothesis constrains
        the field *types* only, so a string-valued (ill-typed) field value, or a named scalar type with an atlas
        transform to a string, puts a string token in value position (`struct_keys_in_atlas_order_false_illtyped`,
        `struct_keys_in_atlas_order_false_atlas`).  The keys themselves are always in atlas order:
        `struct_tokens_shape` (unconditional token-stream shape), `struct_keys_in_atlas_order_of_nostr`,
        `struct_keys_in_atlas_order_typed` (corrected hypotheses).
-/
import RefmtModel
import RefmtProofs.Lemmas.KeyOrder
set_option linter.unusedSimpArgs false
set_option linter.unusedVariables false
namespace Refmt.C08
open Refmt Refmt.Obj

theorem keyLe_total (mode : KeySort) (a b : Bytes) : keyLe mode a b = true ∨ keyLe mode b a = true := by
  exact KeyOrder.keyLe_total mode a b

theorem keyLe_trans (mode : KeySort) (a b c : Bytes) (h1 : keyLe mode a b = true) (h2 : keyLe mode b c = true) :
    keyLe mode a c = true := by
  exact KeyOrder.keyLe_trans mode a b c h1 h2

theorem keyLe_antisymm (mode : KeySort) (a b : Bytes) (h1 : keyLe mode a b = true) (h2 : keyLe mode b a = true) :
    a = b := by
  exact KeyOrder.keyLe_antisymm mode a b h1 h2

/-- the orders are what the property says -/
theorem keyLe_rfc7049_shorter_first (a b : Bytes) (h : a.length < b.length) : keyLe .rfc7049 a b = true ∧ keyLe .rfc7049 b a = false := by
  have h1 : ¬ a.length = b.length := by omega
  have h2 : ¬ b.length = a.length := by omega
  simp [keyLe, h1, h2]
  omega

theorem keyLe_default_is_strings (a b : Bytes) : keyLe .default a b = keyLe .strings a b := by
  rfl

theorem sortKeys_sorted (mode : KeySort) (kvs : List (Bytes × Val)) :
    (sortKeys mode kvs).Pairwise (fun x y => keyLe mode x.1 y.1 = true) := by
  unfold sortKeys
  exact List.pairwise_mergeSort (le := fun x y => keyLe mode x.1 y.1)
    (fun x y z h1 h2 => keyLe_trans mode x.1 y.1 z.1 h1 h2)
    (fun x y => by simpa using keyLe_total mode x.1 y.1) kvs

theorem sortKeys_perm (mode : KeySort) (kvs : List (Bytes × Val)) : (sortKeys mode kvs).Perm kvs := by
  unfold sortKeys
  exact List.mergeSort_perm kvs _

/-- entries with distinct keys are determined by their key -/
theorem eq_of_key_eq : ∀ (l : List (Bytes × Val)), (l.map (·.1)).Nodup → ∀ {x y}, x ∈ l → y ∈ l → x.1 = y.1 → x = y := by
  intro l
  induction l with
  | nil => intro _ x y hx; simp at hx
  | cons p l ih =>
    intro hd x y hx hy hxy
    simp only [List.map_cons, List.nodup_cons, List.mem_map, not_exists, not_and] at hd
    simp only [List.mem_cons] at hx hy
    rcases hx with rfl | hx <;> rcases hy with rfl | hy
    · rfl
    · exact absurd hxy.symm (hd.1 y hy)
    · exact absurd hxy (hd.1 x hx)
    · exact ih hd.2 hx hy hxy

theorem sortKeys_unique (mode : KeySort) (kvs kvs' : List (Bytes × Val)) (hp : kvs.Perm kvs')
    (hd : (kvs.map (·.1)).Nodup) : sortKeys mode kvs = sortKeys mode kvs' := by
  apply List.Perm.eq_of_pairwise (le := fun x y => keyLe mode x.1 y.1 = true)
  · intro x y hx hy h1 h2
    have hx' : x ∈ kvs := (sortKeys_perm mode kvs).mem_iff.mp hx
    have hy' : y ∈ kvs := hp.mem_iff.mpr ((sortKeys_perm mode kvs').mem_iff.mp hy)
    exact eq_of_key_eq kvs hd hx' hy' (keyLe_antisymm mode _ _ h1 h2)
  · exact sortKeys_sorted mode kvs
  · exact sortKeys_sorted mode kvs'
  · exact (sortKeys_perm mode kvs).trans (hp.trans (sortKeys_perm mode kvs').symm)

/-- the stringified entry of a string-keyed map entry -/
def keyStr (p : Val × Val) : Bytes × Val := (match p.1 with | .str s => s | _ => [], p.2)

theorem mapM_eq_some_map {α β : Type} (f : α → Option β) (g : α → β) :
    ∀ l : List α, (∀ p ∈ l, f p = some (g p)) → l.mapM f = some (l.map g) := by
  intro l
  induction l with
  | nil => intro _; rfl
  | cons x l ih =>
    intro h
    have h1 := h x (by simp)
    have h2 := ih (fun p hp => h p (by simp [hp]))
    simp [List.mapM_cons, h1, h2]

theorem nodup_keyStr : ∀ (es : List (Val × Val)), (∀ p ∈ es, ∃ s, p.1 = .str s) →
    (es.map (·.1)).Pairwise (fun x y => ∀ s, x = Val.str s → y ≠ Val.str s) →
    ((es.map keyStr).map (·.1)).Nodup := by
  intro es
  induction es with
  | nil => intro _ _; simp
  | cons p es ih =>
    intro hk hd
    simp only [List.map_cons, List.pairwise_cons, List.mem_map, forall_exists_index, and_imp] at hd
    simp only [List.map_cons, List.nodup_cons, List.mem_map, not_exists, not_and]
    refine ⟨?_, ih (fun q hq => hk q (by simp [hq])) hd.2⟩
    rintro _ ⟨q, hq, rfl⟩ heq
    obtain ⟨s, hs⟩ := hk p (by simp)
    obtain ⟨s', hs'⟩ := hk q (by simp [hq])
    have : s' = s := by simpa [keyStr, hs, hs'] using heq
    subst this
    exact hd.1 _ q hq rfl s' hs hs'

/-- Independence of map iteration / insertion order (string-keyed maps; keys distinct as in any Go map). -/
theorem marshal_map_order_independent (ts : Types) (a : Atlas) (trs : Trs) (fuel id kt vt : Nat) (mode : KeySort)
    (es es' : List (Val × Val)) (hp : es.Perm es')
    (hk : ∀ p ∈ es, ∃ s, p.1 = .str s) (hd : (es.map (·.1)).Pairwise (fun x y => ∀ s, x = Val.str s → y ≠ Val.str s))
    (hkt : ∃ b, ts.get kt = .prim .string b) :
    marshalBare ts a trs fuel id (.map kt vt mode) (.map (some es)) =
    marshalBare ts a trs fuel id (.map kt vt mode) (.map (some es')) := by
  obtain ⟨b, hkt⟩ := hkt
  cases fuel with
  | zero => unfold marshalBare; rfl
  | succ fuel =>
    have hk' : ∀ p ∈ es', ∃ s, p.1 = .str s := fun p hp' => hk p (hp.mem_iff.mpr hp')
    unfold marshalBare
    simp only [hkt, Option.getD_some]
    rw [mapM_eq_some_map _ keyStr es ?_, mapM_eq_some_map _ keyStr es' ?_]
    · simp only [Option.isNone_some]
      rw [sortKeys_unique mode _ _ (hp.map keyStr) (nodup_keyStr es hk hd), hp.length_eq]
    · intro p hp'
      obtain ⟨s, hs⟩ := hk' p hp'
      obtain ⟨k, x⟩ := p
      simp only at hs
      subst hs
      rfl
    · intro p hp'
      obtain ⟨s, hs⟩ := hk p hp'
      obtain ⟨k, x⟩ := p
      simp only at hs
      subst hs
      rfl

/-- keys of the tokens a struct machine emits, in order -/
def structKeys (fields : List SMField) (v : Val) : List Bytes :=
  (fields.filter fun f =>
    !f.ignore && (match traverse f.route v with
                  | none => false
                  | some fv => !(f.omitEmpty && isEmpty 1000 fv))).map (·.name)

/-- every second token after the opening one is a key, in atlas order -/
def keysOf : List Tok → List Bytes
  | [] => []
  | t :: rest => (match t.body with | .str s => [s] | _ => []) ++ keysOf rest

/-- The statement as originally written.  It is FALSE (see `struct_keys_in_atlas_order_false_illtyped` and
    `struct_keys_in_atlas_order_false_atlas` below): `hscalar` constrains only the *type descriptors* of the
    fields, but (1) nothing ties the value `v` to those types, and the primitive machine emits the token of the
    value it is handed; (2) a named (non-builtin) scalar type may have an atlas entry (e.g. a transform to a
    string type), in which case the field is not marshalled by the primitive machine at all.  In both cases a
    field *value* contributes a string token that `keysOf` counts as a key.  The corrected versions are
    `struct_tokens_shape` (general), `struct_keys_in_atlas_order_of_nostr` and `struct_keys_in_atlas_order_typed`. -/
def struct_keys_in_atlas_order_statement : Prop :=
  ∀ (ts : Types) (a : Atlas) (trs : Trs) (fuel id : Nat) (e : Entry) (fields : List SMField)
    (v : Val) (toks : List Tok)
    (hscalar : ∀ f ∈ fields, ∃ k b, ts.get f.ty = .prim k b ∧ k ≠ .string)   -- scalar, non-string fields: every string token is a key
    (h : marshalBare ts a trs (fuel + 1) id (.structMap e fields) v = ⟨toks, none⟩),
    keysOf toks = structKeys fields v

/-- Counterexample 1 (ill-typed value): one field `a` of builtin type `int`, route `[]`, but the value handed
    in is the string `"b"`.  Output `{ "a": "b" }`, so `keysOf = ["a","b"] ≠ ["a"]`. -/
theorem struct_keys_in_atlas_order_false_illtyped : ¬ struct_keys_in_atlas_order_statement := by
  intro hst
  have h := hst [(0, .prim .int true)] ⟨[], .default⟩ ⟨fun _ _ => none, fun _ _ => none⟩ 5 7
    ⟨true, 7, none, .invalid⟩ [⟨[97], false, [], 0, false⟩] (.str [98])
    [⟨.mapOpen 1, none⟩, ⟨.str [97], none⟩, ⟨.str [98], none⟩, ⟨.mapClose, none⟩]
    (by intro f hf
        simp only [List.mem_singleton] at hf
        subst hf
        exact ⟨.int, true, by simp [Types.get, List.lookup], by decide⟩)
    (by simp [marshalBare, marshalFields, marshalV, traverse, MOut.seq, MOut.ok, peel, Types.get, pickBare,
          primTok, List.lookup])
  simp [keysOf, structKeys, traverse] at h

/-- Counterexample 2 (well-typed value, atlas override): the field type is a named `int` type (`.prim .int false`)
    for which the atlas registers a transform to `string`; the value is the integer `5`.  The transform machine
    emits a string token for the field value: output `{ "a": "b" }`. -/
theorem struct_keys_in_atlas_order_false_atlas : ¬ struct_keys_in_atlas_order_statement := by
  intro hst
  have h := hst [(0, .prim .int false), (1, .prim .string true)] ⟨[⟨true, 0, none, .transform 0 1 0⟩], .default⟩
    ⟨fun _ _ => some (.str [98]), fun _ _ => none⟩ 5 7
    ⟨true, 7, none, .invalid⟩ [⟨[97], false, [], 0, false⟩] (.int 5)
    [⟨.mapOpen 1, none⟩, ⟨.str [97], none⟩, ⟨.str [98], none⟩, ⟨.mapClose, none⟩]
    (by intro f hf
        simp only [List.mem_singleton] at hf
        subst hf
        exact ⟨.int, false, by simp [Types.get, List.lookup], by decide⟩)
    (by simp [marshalBare, marshalFields, marshalV, traverse, MOut.seq, MOut.ok, peel, Types.get, pickBare,
          Atlas.get, machForEntry, retagFirst, primTok, List.lookup])
  simp [keysOf, structKeys, traverse] at h

/-! ### Corrected versions -/

theorem keysOf_append (x y : List Tok) : keysOf (x ++ y) = keysOf x ++ keysOf y := by
  induction x with
  | nil => rfl
  | cons t x ih => simp [keysOf, ih, List.append_assoc]

/-- a successful sequential composition is the concatenation of two successful outputs -/
theorem seq_ok {x : MOut} {f : Unit → MOut} {toks : List Tok} (h : x.seq f = ⟨toks, none⟩) :
    ∃ t1 t2, x = ⟨t1, none⟩ ∧ f () = ⟨t2, none⟩ ∧ toks = t1 ++ t2 := by
  obtain ⟨xt, xf⟩ := x
  cases xf with
  | some fl => simp [MOut.seq] at h
  | none =>
    simp only [MOut.seq, MOut.mk.injEq] at h
    refine ⟨xt, (f ()).toks, rfl, ?_, h.1.symm⟩
    cases hf : f () with
    | mk ft ff => rw [hf] at h; simp only at h; simp [h.2]

/-- The token stream of the fields of a struct, for a list of fields in atlas order: for each field, the key
    token carrying the field's name, then the tokens of a successful marshal of the field's value. -/
inductive FieldToks (ts : Types) (a : Atlas) (trs : Trs) (v : Val) : List SMField → List Tok → Prop
  | nil : FieldToks ts a trs v [] []
  | cons {f : SMField} {fs : List SMField} {fv : Val} {fuel : Nat} {c rest : List Tok} :
      traverse f.route v = some fv → marshalV ts a trs fuel f.ty fv = ⟨c, none⟩ →
      FieldToks ts a trs v fs rest → FieldToks ts a trs v (f :: fs) (⟨.str f.name, none⟩ :: (c ++ rest))

theorem marshalFields_shape (ts : Types) (a : Atlas) (trs : Trs) (v : Val) :
    ∀ (fuel : Nat) (fs : List SMField) (toks : List Tok),
      marshalFields ts a trs fuel fs v = ⟨toks, none⟩ → FieldToks ts a trs v fs toks := by
  intro fuel
  induction fuel with
  | zero => intro fs toks h; simp [marshalFields, MOut.bad] at h
  | succ fuel ih =>
    intro fs toks h
    cases fs with
    | nil =>
      simp only [marshalFields, MOut.ok, MOut.mk.injEq] at h
      rw [← h.1]
      exact .nil
    | cons f rest =>
      rw [marshalFields] at h
      split at h
      · simp [MOut.bad] at h
      · rename_i fv hfv
        obtain ⟨t1, t2, h1, h2, rfl⟩ := seq_ok h
        obtain ⟨t3, t4, h3, h4, rfl⟩ := seq_ok h2
        simp only [MOut.ok, MOut.mk.injEq] at h1
        rw [← h1.1]
        exact FieldToks.cons (c := t3) (rest := t4) hfv h3 (ih rest t4 h4)

/-- GENERAL FORM (no hypothesis on the fields): a successful struct marshal is the open token with the number
    of emitted fields, then for each emitted field **in atlas order** its name followed by its value's tokens,
    then the close token.  The emitted fields are exactly those counted by `structKeys`. -/
theorem struct_tokens_shape (ts : Types) (a : Atlas) (trs : Trs) (fuel id : Nat) (e : Entry) (fields : List SMField)
    (v : Val) (toks : List Tok)
    (h : marshalBare ts a trs (fuel + 1) id (.structMap e fields) v = ⟨toks, none⟩) :
    ∃ (emit : List SMField) (body : List Tok),
      emit = (fields.filter fun f =>
        !f.ignore && (match traverse f.route v with
                      | none => false
                      | some fv => !(f.omitEmpty && isEmpty 1000 fv))) ∧
      emit.map (·.name) = structKeys fields v ∧
      FieldToks ts a trs v emit body ∧
      toks = ⟨.mapOpen emit.length, e.tag⟩ :: (body ++ [⟨.mapClose, none⟩]) := by
  rw [marshalBare] at h
  obtain ⟨t1, t2, h1, h2, rfl⟩ := seq_ok h
  obtain ⟨t3, t4, h3, h4, rfl⟩ := seq_ok h2
  simp only [MOut.ok, MOut.mk.injEq] at h1 h4
  refine ⟨_, t3, rfl, rfl, marshalFields_shape ts a trs v fuel _ t3 h3, ?_⟩
  rw [← h1.1, ← h4.1]
  rfl

theorem keysOf_fieldToks (ts : Types) (a : Atlas) (trs : Trs) (v : Val) (fs : List SMField) (toks : List Tok)
    (hft : FieldToks ts a trs v fs toks)
    (hnostr : ∀ f ∈ fs, ∀ fv fuel' out, traverse f.route v = some fv →
        marshalV ts a trs fuel' f.ty fv = ⟨out, none⟩ → keysOf out = []) :
    keysOf toks = fs.map (·.name) := by
  induction hft with
  | nil => rfl
  | cons hfv hm hrest ih =>
    rename_i f fs fv fuel c rest
    have hc := hnostr f (by simp) fv fuel c hfv hm
    have hr := ih (fun g hg => hnostr g (by simp [hg]))
    simp [keysOf, keysOf_append, hc, hr]

/-- CORRECTED STATEMENT, semantic hypothesis: if no field value marshals to a stream containing a string token,
    the string tokens of the output are exactly the emitted fields' names, in atlas order. -/
theorem struct_keys_in_atlas_order_of_nostr (ts : Types) (a : Atlas) (trs : Trs) (fuel id : Nat) (e : Entry)
    (fields : List SMField) (v : Val) (toks : List Tok)
    (hnostr : ∀ f ∈ fields, ∀ fv fuel' out, traverse f.route v = some fv →
        marshalV ts a trs fuel' f.ty fv = ⟨out, none⟩ → keysOf out = [])
    (h : marshalBare ts a trs (fuel + 1) id (.structMap e fields) v = ⟨toks, none⟩) :
    keysOf toks = structKeys fields v := by
  obtain ⟨emit, body, hemit, hkeys, hft, rfl⟩ := struct_tokens_shape ts a trs fuel id e fields v toks h
  have hb := keysOf_fieldToks ts a trs v emit body hft (fun f hf => hnostr f (by
    rw [hemit] at hf
    exact (List.mem_filter.mp hf).1))
  simp [keysOf, keysOf_append, hb, hkeys]

/-- a scalar type with no atlas override, holding a non-string value, marshals without string tokens -/
theorem marshalV_prim_nostr (ts : Types) (a : Atlas) (trs : Trs) (fuel id : Nat) (k : Kind) (b : Bool) (fv : Val)
    (out : List Tok) (hty : ts.get id = .prim k b) (hb : b = true ∨ a.get id = none)
    (hv : ∀ s, fv ≠ .str s) (hout : marshalV ts a trs fuel id fv = ⟨out, none⟩) : keysOf out = [] := by
  cases fuel with
  | zero => simp [marshalV, MOut.bad] at hout
  | succ fuel =>
    have hpeel : peel ts 64 0 id = (0, id) := by simp [peel, hty]
    have hpick : pickBare ts a id = .prim := by
      unfold pickBare
      rw [hty]
      rcases hb with rfl | hb
      · rfl
      · cases b <;> simp [hb]
    rw [marshalV] at hout
    simp only [hpeel, hpick, beq_self_eq_true, if_true] at hout
    cases fuel with
    | zero => simp [marshalBare, MOut.bad] at hout
    | succ fuel =>
      rw [marshalBare] at hout
      cases fv <;> simp [primTok, MOut.ok, MOut.bad] at hout
      all_goals first
        | (subst hout; simp [keysOf]; done)
        | (exact absurd rfl (hv _))
        | (rename_i bo; cases bo <;> simp [primTok, MOut.ok] at hout <;> subst hout <;> simp [keysOf])

/-- CORRECTED STATEMENT, concrete hypotheses: `hscalar` as in the original, plus (`hatlas`) the scalar types are
    builtin or have no atlas entry, plus (`hval`) the field values are not strings (as holds for every value that
    is well typed at a non-string scalar type). -/
theorem struct_keys_in_atlas_order_typed (ts : Types) (a : Atlas) (trs : Trs) (fuel id : Nat) (e : Entry)
    (fields : List SMField) (v : Val) (toks : List Tok)
    (hscalar : ∀ f ∈ fields, ∃ k b, ts.get f.ty = .prim k b ∧ k ≠ .string)
    (hatlas : ∀ f ∈ fields, (∃ k, ts.get f.ty = .prim k true) ∨ a.get f.ty = none)
    (hval : ∀ f ∈ fields, ∀ fv, traverse f.route v = some fv → ∀ s, fv ≠ .str s)
    (h : marshalBare ts a trs (fuel + 1) id (.structMap e fields) v = ⟨toks, none⟩) :
    keysOf toks = structKeys fields v := by
  apply struct_keys_in_atlas_order_of_nostr ts a trs fuel id e fields v toks _ h
  intro f hf fv fuel' out hfv hout
  obtain ⟨k, b, hty, _⟩ := hscalar f hf
  refine marshalV_prim_nostr ts a trs fuel' f.ty k b fv out hty ?_ (hval f hf fv hfv) hout
  rcases hatlas f hf with ⟨k', hk'⟩ | hn
  · rw [hty] at hk'
    simp only [TyDesc.prim.injEq] at hk'
    exact Or.inl hk'.2
  · exact Or.inr hn

example : keyLe .rfc7049 [98] [97, 97] = true ∧ keyLe .strings [98] [97, 97] = false := by decide

end Refmt.C08
