/-
  C08 — output is a deterministic function of the value; keys are ordered as configured.

  * `keyLe_*`            : both key comparators are total preorders that are antisymmetric on byte strings
                           (default / strings: bytewise lexicographic; RFC 7049: shorter first, then bytewise).
  * `sortKeys_sorted`, `sortKeys_perm` : the emitted key sequence is sorted by the configured order and is a
                           permutation of the map's keys.
  * `sortKeys_unique`    : with distinct keys the sorted sequence does not depend on the order in which the map
                           was iterated or built (so any correct sort, Go's unstable one included, gives it).
  * `marshal_map_order_independent` : two map values holding the same entries in different iteration orders
                           marshal to identical token lists.
  * `struct_keys_in_atlas_order`    : a struct's keys appear in the order of the atlas entry's field list.
-/
import RefmtModel
set_option linter.unusedSimpArgs false
set_option linter.unusedVariables false
namespace Refmt.C08
open Refmt Refmt.Obj

theorem keyLe_total (mode : KeySort) (a b : Bytes) : keyLe mode a b = true ∨ keyLe mode b a = true := by
  sorry

theorem keyLe_trans (mode : KeySort) (a b c : Bytes) (h1 : keyLe mode a b = true) (h2 : keyLe mode b c = true) :
    keyLe mode a c = true := by
  sorry

theorem keyLe_antisymm (mode : KeySort) (a b : Bytes) (h1 : keyLe mode a b = true) (h2 : keyLe mode b a = true) :
    a = b := by
  sorry

/-- the orders are what the property says -/
theorem keyLe_rfc7049_shorter_first (a b : Bytes) (h : a.length < b.length) : keyLe .rfc7049 a b = true ∧ keyLe .rfc7049 b a = false := by
  sorry

theorem keyLe_default_is_strings (a b : Bytes) : keyLe .default a b = keyLe .strings a b := by
  sorry

theorem sortKeys_sorted (mode : KeySort) (kvs : List (Bytes × Val)) :
    (sortKeys mode kvs).Pairwise (fun x y => keyLe mode x.1 y.1 = true) := by
  sorry

theorem sortKeys_perm (mode : KeySort) (kvs : List (Bytes × Val)) : (sortKeys mode kvs).Perm kvs := by
  sorry

theorem sortKeys_unique (mode : KeySort) (kvs kvs' : List (Bytes × Val)) (hp : kvs.Perm kvs')
    (hd : (kvs.map (·.1)).Nodup) : sortKeys mode kvs = sortKeys mode kvs' := by
  sorry

/-- Independence of map iteration / insertion order (string-keyed maps; keys distinct as in any Go map). -/
theorem marshal_map_order_independent (ts : Types) (a : Atlas) (trs : Trs) (fuel id kt vt : Nat) (mode : KeySort)
    (es es' : List (Val × Val)) (hp : es.Perm es')
    (hk : ∀ p ∈ es, ∃ s, p.1 = .str s) (hd : (es.map (·.1)).Pairwise (fun x y => ∀ s, x = Val.str s → y ≠ Val.str s))
    (hkt : ∃ b, ts.get kt = .prim .string b) :
    marshalBare ts a trs fuel id (.map kt vt mode) (.map (some es)) =
    marshalBare ts a trs fuel id (.map kt vt mode) (.map (some es')) := by
  sorry

/-- keys of the tokens a struct machine emits, in order -/
def structKeys (fields : List SMField) (v : Val) : List Bytes :=
  (fields.filter fun f =>
    !f.ignore && (match traverse f.route v with
                  | none => false
                  | some fv => !(f.omitEmpty && isEmpty 1000 fv))).map (·.name)

/-- every second token after the opening one is a key, in atlas order -/
def keysOf : List Tok → List Bytes
  | [] => []
  | t :: rest => (match t.body with | .str s => [s] | _ => []) ++ keysOf rest

theorem struct_keys_in_atlas_order (ts : Types) (a : Atlas) (trs : Trs) (fuel id : Nat) (e : Entry) (fields : List SMField)
    (v : Val) (toks : List Tok)
    (hscalar : ∀ f ∈ fields, ∃ k b, ts.get f.ty = .prim k b ∧ k ≠ .string)   -- scalar, non-string fields: every string token is a key
    (h : marshalBare ts a trs (fuel + 1) id (.structMap e fields) v = ⟨toks, none⟩) :
    keysOf toks = structKeys fields v := by
  sorry

example : keyLe .rfc7049 [98] [97, 97] = true ∧ keyLe .strings [98] [97, 97] = false := by decide

end Refmt.C08
