/-
  C20 — CBOR tags identify registered types and are never silently dropped.

  * `struct_tag_first`, `transform_tag_first` : the machines for tagged struct-map and transform entries put
        exactly the entry's tag on the first token they emit.
  * `tagged_occurrence` : wherever a value of a type registered with a tag is marshalled (`marshalV` at that
        type — top level, struct field, map value, slice element — or through any chain of non-nil pointers,
        or inside an untyped slot), the first token of that occurrence carries the tag.
  * `wire_tag` : the CBOR encoding of an item whose first token is tagged begins with the tag head.
  * `untyped_unknown_tag`, `untyped_known_tag` : an untyped slot given a tagged token reconstructs the type
        registered under that tag, and an unregistered tag is an error, not ignored.

  All eight statements are proved as first written.  `ex_transform_overrides_inner_tag` and
  `ex_builtin_not_overridable` (end of file) are concrete evaluations of the model showing the two situations
  the hypotheses leave out: a tagged transform overwrites the tag of a tagged target type, and an entry
  registered for a predeclared primitive type is never consulted.
-/
import RefmtModel
set_option linter.unusedSimpArgs false
set_option linter.unusedVariables false
namespace Refmt.C20
open Refmt Refmt.Obj

theorem seq_ok_toks (ts : List Tok) (b : Unit → MOut) : (MOut.ok ts).seq b = ⟨ts ++ (b ()).toks, (b ()).fail⟩ := by
  simp [MOut.seq, MOut.ok]

theorem struct_tag_first (ts : Types) (a : Atlas) (trs : Trs) (fuel id : Nat) (e : Entry) (fields : List SMField) (v : Val)
    (t : Tok) (rest : List Tok) (f : Option Fail)
    (h : marshalBare ts a trs fuel id (.structMap e fields) v = ⟨t :: rest, f⟩) :
    t.tag = e.tag ∧ ∃ n, t.body = .mapOpen n := by
  cases fuel with
  | zero => simp [marshalBare, MOut.bad] at h
  | succ fuel =>
    simp only [marshalBare, seq_ok_toks] at h
    simp at h
    obtain ⟨⟨rfl, _⟩, _⟩ := h
    exact ⟨rfl, _, rfl⟩

theorem transform_tag_first (ts : Types) (a : Atlas) (trs : Trs) (fuel id fn mty : Nat) (e : Entry) (g : Int) (v : Val)
    (t : Tok) (rest : List Tok) (f : Option Fail) (hg : e.tag = some g)
    (h : marshalBare ts a trs fuel id (.transform e fn mty) v = ⟨t :: rest, f⟩) :
    t.tag = some g := by
  cases fuel with
  | zero => simp [marshalBare, MOut.bad] at h
  | succ fuel =>
    simp only [marshalBare] at h
    cases hm : trs.m fn v with
    | none => simp [hm, MOut.bad] at h
    | some tv =>
      simp only [hm, hg, retagFirst] at h
      cases ht : (marshalV ts a trs fuel mty tv).toks with
      | nil =>
        rw [ht] at h
        have := congrArg MOut.toks h
        simp [ht] at this
      | cons t0 r0 =>
        rw [ht] at h
        have := congrArg MOut.toks h
        simp at this
        rw [← this.1]

/-- the entry kinds the property quantifies over (struct maps and transforms) -/
def taggable (e : Entry) : Bool :=
  match e.k with
  | .structMap _ => true
  | .transform _ _ _ => true
  | _ => false

/-- the type is not one of the predeclared, unoverridable primitives -/
def overridable (ts : Types) (id : Nat) : Bool :=
  match ts.get id with
  | .prim _ true => false
  | .bytes true => false
  | .ptr _ => false
  | _ => true

theorem peel_nonptr (ts : Types) (fuel n id : Nat) (h : ∀ e, ts.get id ≠ .ptr e) : peel ts fuel n id = (n, id) := by
  cases fuel with
  | zero => rfl
  | succ fuel =>
    unfold peel
    split
    · next e he => exact absurd he (h e)
    · rfl

theorem overridable_nonptr {ts : Types} {id : Nat} (ho : overridable ts id = true) : ∀ e, ts.get id ≠ .ptr e := by
  intro e he
  simp [overridable, he] at ho

theorem pickBare_entry (ts : Types) (a : Atlas) (e : Entry)
    (hreg : a.get e.ty = some e) (ho : overridable ts e.ty = true) :
    pickBare ts a e.ty = machForEntry ts e := by
  unfold pickBare
  unfold overridable at ho
  split
  · next h => simp [h] at ho
  · next h => simp [h] at ho
  · simp [hreg]

theorem bare_tagged (ts : Types) (a : Atlas) (trs : Trs) (fuel : Nat) (e : Entry) (g : Int) (v : Val)
    (t : Tok) (rest : List Tok) (f : Option Fail)
    (hg : e.tag = some g) (hk : taggable e = true)
    (h : marshalBare ts a trs fuel e.ty (machForEntry ts e) v = ⟨t :: rest, f⟩) :
    t.tag = some g := by
  unfold taggable at hk
  unfold machForEntry at h
  split at hk
  · next fs hfs =>
    rw [hfs] at h
    have := (struct_tag_first ts a trs fuel e.ty e fs v t rest f h).1
    rw [this, hg]
  · next fn m u hfs =>
    rw [hfs] at h
    exact transform_tag_first ts a trs fuel e.ty fn m e g v t rest f hg h
  · exact absurd hk (by simp)

theorem tagged_occurrence (ts : Types) (a : Atlas) (trs : Trs) (fuel : Nat) (e : Entry) (g : Int) (v : Val)
    (t : Tok) (rest : List Tok) (f : Option Fail)
    (hreg : a.get e.ty = some e) (hg : e.tag = some g) (hk : taggable e = true) (ho : overridable ts e.ty = true)
    (h : marshalV ts a trs fuel e.ty v = ⟨t :: rest, f⟩) :
    t.tag = some g := by
  cases fuel with
  | zero => simp [marshalV, MOut.bad] at h
  | succ fuel =>
    simp only [marshalV, peel_nonptr ts 64 0 e.ty (overridable_nonptr ho), pickBare_entry ts a e hreg ho] at h
    simp at h
    exact bare_tagged ts a trs fuel e g v t rest f hg hk h

/-- through a non-nil pointer the same tokens are produced -/
theorem tagged_through_pointer (ts : Types) (a : Atlas) (trs : Trs) (fuel pid : Nat) (e : Entry) (g : Int) (v : Val)
    (t : Tok) (rest : List Tok) (f : Option Fail)
    (hp : ts.get pid = .ptr e.ty)
    (hreg : a.get e.ty = some e) (hg : e.tag = some g) (hk : taggable e = true) (ho : overridable ts e.ty = true)
    (h : marshalV ts a trs fuel pid (.ptr (some v)) = ⟨t :: rest, f⟩) :
    t.tag = some g := by
  cases fuel with
  | zero => simp [marshalV, MOut.bad] at h
  | succ fuel =>
    have hpeel : peel ts 64 0 pid = (1, e.ty) := by
      show (match ts.get pid with | .ptr e => peel ts 63 (0 + 1) e | _ => (0, pid)) = _
      rw [hp]
      exact peel_nonptr ts 63 1 e.ty (overridable_nonptr ho)
    simp only [marshalV, hpeel, pickBare_entry ts a e hreg ho] at h
    simp [derefN] at h
    exact bare_tagged ts a trs fuel e g v t rest f hg hk h

/-- inside an untyped slot -/
theorem tagged_in_untyped (ts : Types) (a : Atlas) (trs : Trs) (fuel iid : Nat) (e : Entry) (g : Int) (v : Val)
    (t : Tok) (rest : List Tok) (f : Option Fail)
    (hi : ts.get iid = .iface false) (hni : a.get iid = none)
    (hreg : a.get e.ty = some e) (hg : e.tag = some g) (hk : taggable e = true) (ho : overridable ts e.ty = true)
    (h : marshalV ts a trs fuel iid (.iface (some (e.ty, v))) = ⟨t :: rest, f⟩) :
    t.tag = some g := by
  cases fuel with
  | zero => simp [marshalV, MOut.bad] at h
  | succ fuel =>
    have hpeel : peel ts 64 0 iid = (0, iid) := peel_nonptr ts 64 0 iid (by simp [hi])
    have hpick : pickBare ts a iid = .wildcard := by simp [pickBare, hi, hni]
    simp only [marshalV, hpeel, hpick] at h
    simp at h
    cases fuel with
    | zero => simp [marshalBare, MOut.bad] at h
    | succ fuel =>
      simp only [marshalBare] at h
      exact tagged_occurrence ts a trs fuel e g v t rest f hreg hg hk ho h

/-- on the wire the tag head comes directly before the item -/
theorem wire_tag (tv : TV) (g : Int) (t : Tok) (rest : List Tok) (h : tv.flatten = t :: rest) (ht : t.tag = some g) :
    ∃ item, Spec.Cbor.enc tv = Spec.Cbor.head 0xc0 (toU64 g) ++ item := by
  cases tv with
  | scalar t0 =>
    simp [TV.flatten] at h
    obtain ⟨rfl, _⟩ := h
    exact ⟨_, by simp only [Spec.Cbor.enc, ht, Spec.Cbor.tagBytes]; rfl⟩
  | arr tag len items =>
    simp [TV.flatten] at h
    obtain ⟨rfl, _⟩ := h
    simp at ht
    subst ht
    simp only [Spec.Cbor.enc, Spec.Cbor.tagBytes]
    split
    · exact ⟨_, by simp only [List.append_assoc]; rfl⟩
    · exact ⟨_, by simp only [List.append_assoc]; rfl⟩
  | map tag len items =>
    simp [TV.flatten] at h
    obtain ⟨rfl, _⟩ := h
    simp at ht
    subst ht
    simp only [Spec.Cbor.enc, Spec.Cbor.tagBytes]
    split
    · exact ⟨_, by simp only [List.append_assoc]; rfl⟩
    · exact ⟨_, by simp only [List.append_assoc]; rfl⟩

theorem untyped_unknown_tag (ts : Types) (a : Atlas) (trs : Trs) (it : IfaceTys) (fuel : Nat) (b : Body) (g : Int) (rest : List Tok)
    (h : a.getByTag g = none) :
    unmWild ts a trs it (fuel + 1) false ⟨b, some g⟩ rest = .err 0 := by
  simp [unmWild, h]

theorem untyped_known_tag (ts : Types) (a : Atlas) (trs : Trs) (it : IfaceTys) (fuel : Nat) (b : Body) (g : Int) (rest : List Tok)
    (e : Entry) (v : Val) (r : List Tok) (u : Nat) (h : a.getByTag g = some e)
    (hu : unmBare ts a trs it fuel e.ty (upickBare ts a e.ty) (zeroVal ts 64 e.ty) (⟨b, some g⟩ :: rest) = .ok v r u) :
    unmWild ts a trs it (fuel + 1) false ⟨b, some g⟩ rest = .ok (.iface (some (e.ty, v))) r u := by
  simp [unmWild, h, hu]

/-! ### Remarks: what the hypotheses exclude (concrete evaluations of the model)

  The statements above hold as first written.  The two examples below show that their hypotheses are needed
  and document the two situations in which a registered tag does not reach the stream. -/

/-- A tagged transform whose marshal target is itself a tagged registered type: the delegate's first token
    carries the target's tag (20), the transform machine then overwrites it with its own (10) — a token has
    a single tag slot, so the inner tag is lost (`tagged_occurrence` holds for both entries at their own
    `marshalV` call; it is the enclosing transform that replaces the tag afterwards). -/
theorem ex_transform_overrides_inner_tag :
    let ts : Types := [(0, .struct []), (1, .struct [])]
    let a : Atlas := ⟨[⟨true, 0, some 10, .transform 0 1 1⟩, ⟨true, 1, some 20, .structMap []⟩], .default⟩
    let trs : Trs := ⟨fun _ v => some v, fun _ v => some v⟩
    marshalV ts a trs 10 1 (.struct []) = ⟨[⟨.mapOpen 0, some 20⟩, ⟨.mapClose, none⟩], none⟩ ∧
    marshalV ts a trs 10 0 (.struct []) = ⟨[⟨.mapOpen 0, some 10⟩, ⟨.mapClose, none⟩], none⟩ := by
  constructor <;> with_unfolding_all rfl

/-- `overridable` is needed: an atlas entry (here a tagged transform) registered for a predeclared primitive
    type is never consulted, the value is emitted by the primitive machine, untagged. -/
theorem ex_builtin_not_overridable :
    let ts : Types := [(0, .prim .int true), (1, .prim .string true)]
    let a : Atlas := ⟨[⟨true, 0, some 10, .transform 0 1 1⟩], .default⟩
    let trs : Trs := ⟨fun _ _ => some (.str [120]), fun _ v => some v⟩
    marshalV ts a trs 10 0 (.int 7) = ⟨[⟨.int 7, none⟩], none⟩ := by
  with_unfolding_all rfl

end Refmt.C20
