/-
  C20 — CBOR tags identify registered types and are never silently dropped.

  * `struct_tag_first`, `transform_tag_first` : the machines for tagged struct-map and transform entries put
        exactly the entry's tag on the first token they emit.
  * `tagged_occurrence` : wherever a value of a type registered with a tag is marshalled (`marshalV` at that
        type — top level, struct field, map value, slice element — or through any chain of non-nil pointers,
        or inside an untyped slot), the first token of that occurrence carries the tag.
  * `wire_tag` : the CBOR encoding of an item whose first token is tagged begins with the tag head.
  * `untyped_unknown_tag`, `untyped_known_tag` : an untyped slot given a tagged token reconstructs the type
        registered under that tag, and an unregistered tag is an error, not ignored.
-/
import RefmtModel
set_option linter.unusedSimpArgs false
set_option linter.unusedVariables false
namespace Refmt.C20
open Refmt Refmt.Obj

theorem struct_tag_first (ts : Types) (a : Atlas) (trs : Trs) (fuel id : Nat) (e : Entry) (fields : List SMField) (v : Val)
    (t : Tok) (rest : List Tok) (f : Option Fail)
    (h : marshalBare ts a trs fuel id (.structMap e fields) v = ⟨t :: rest, f⟩) :
    t.tag = e.tag ∧ ∃ n, t.body = .mapOpen n := by
  sorry

theorem transform_tag_first (ts : Types) (a : Atlas) (trs : Trs) (fuel id fn mty : Nat) (e : Entry) (g : Int) (v : Val)
    (t : Tok) (rest : List Tok) (f : Option Fail) (hg : e.tag = some g)
    (h : marshalBare ts a trs fuel id (.transform e fn mty) v = ⟨t :: rest, f⟩) :
    t.tag = some g := by
  sorry

/-- the entry kinds the property quantifies over (struct maps and transforms) -/
def taggable (e : Entry) : Bool :=
  match e.k with
  | .structMap _ => true
  | .transform _ _ _ => true
  | _ => false

/-- the type is not one of the predeclared, unoverridable primitives -/
def overridable (ts : Types) (id : Nat) : Bool :=
  match ts.get id with
  | .prim _ true => false
  | .bytes true => false
  | .ptr _ => false
  | _ => true

theorem tagged_occurrence (ts : Types) (a : Atlas) (trs : Trs) (fuel : Nat) (e : Entry) (g : Int) (v : Val)
    (t : Tok) (rest : List Tok) (f : Option Fail)
    (hreg : a.get e.ty = some e) (hg : e.tag = some g) (hk : taggable e = true) (ho : overridable ts e.ty = true)
    (h : marshalV ts a trs fuel e.ty v = ⟨t :: rest, f⟩) :
    t.tag = some g := by
  sorry

/-- through a non-nil pointer the same tokens are produced -/
theorem tagged_through_pointer (ts : Types) (a : Atlas) (trs : Trs) (fuel pid : Nat) (e : Entry) (g : Int) (v : Val)
    (t : Tok) (rest : List Tok) (f : Option Fail)
    (hp : ts.get pid = .ptr e.ty)
    (hreg : a.get e.ty = some e) (hg : e.tag = some g) (hk : taggable e = true) (ho : overridable ts e.ty = true)
    (h : marshalV ts a trs fuel pid (.ptr (some v)) = ⟨t :: rest, f⟩) :
    t.tag = some g := by
  sorry

/-- inside an untyped slot -/
theorem tagged_in_untyped (ts : Types) (a : Atlas) (trs : Trs) (fuel iid : Nat) (e : Entry) (g : Int) (v : Val)
    (t : Tok) (rest : List Tok) (f : Option Fail)
    (hi : ts.get iid = .iface false) (hni : a.get iid = none)
    (hreg : a.get e.ty = some e) (hg : e.tag = some g) (hk : taggable e = true) (ho : overridable ts e.ty = true)
    (h : marshalV ts a trs fuel iid (.iface (some (e.ty, v))) = ⟨t :: rest, f⟩) :
    t.tag = some g := by
  sorry

/-- on the wire the tag head comes directly before the item -/
theorem wire_tag (tv : TV) (g : Int) (t : Tok) (rest : List Tok) (h : tv.flatten = t :: rest) (ht : t.tag = some g) :
    ∃ item, Spec.Cbor.enc tv = Spec.Cbor.head 0xc0 (toU64 g) ++ item := by
  sorry

theorem untyped_unknown_tag (ts : Types) (a : Atlas) (trs : Trs) (it : IfaceTys) (fuel : Nat) (b : Body) (g : Int) (rest : List Tok)
    (h : a.getByTag g = none) :
    unmWild ts a trs it (fuel + 1) false ⟨b, some g⟩ rest = .err 0 := by
  sorry

theorem untyped_known_tag (ts : Types) (a : Atlas) (trs : Trs) (it : IfaceTys) (fuel : Nat) (b : Body) (g : Int) (rest : List Tok)
    (e : Entry) (v : Val) (r : List Tok) (u : Nat) (h : a.getByTag g = some e)
    (hu : unmBare ts a trs it fuel e.ty (upickBare ts a e.ty) (zeroVal ts 64 e.ty) (⟨b, some g⟩ :: rest) = .ok v r u) :
    unmWild ts a trs it (fuel + 1) false ⟨b, some g⟩ rest = .ok (.iface (some (e.ty, v))) r u := by
  sorry

end Refmt.C20
