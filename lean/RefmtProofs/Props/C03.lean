/-
  C03 — JSON encoding of token streams is lossless and always valid JSON.

  Domain (`JWF`): token trees inside JSON's data model — string keys, no byte
  strings, finite floats, integers in the 64-bit token range; tags are allowed
  and are dropped.  Options: `Line` / `Indent` made of JSON whitespace only.

  * `escape_unquote`   : the string escaper followed by the decoder's unquoting is the identity on valid
                         UTF-8 and maps every invalid byte to U+FFFD (`toValidUtf8`), for every byte string.
  * `escape_is_body`   : the escaper's output is a legal RFC 8259 string body (no raw control byte, no
                         unescaped quote or backslash) and is valid UTF-8: invalid bytes are never emitted raw.
  * `enc_accepts`      : every tree of the domain is accepted, done exactly on its last token.
  * `enc_valid`        : the output is a valid RFC 8259 text that the independent reference reader
                         (Spec.Json.parse) reads as the same value (up to number typing), followed only by
                         the trailing `Line`.
  * `pretty_is_compact`: the pretty-printed output with insignificant whitespace removed is exactly the
                         compact output.
  * `roundtrip`        : decoding the output with the decoder model gives the tokens back up to number typing.
-/
import RefmtModel
set_option linter.unusedSimpArgs false
set_option linter.unusedVariables false
namespace Refmt.C03
open Refmt Refmt.JsonEnc

/-! ### The string escaper -/

/-- the bytes `emitString` writes between the quotes -/
def escaped (s : Bytes) : Bytes := (escLoop s []).flatten

theorem escape_unquote (s : Bytes) (hb : ∀ x ∈ s, x < 256) :
    JsonDec.parseString ((escaped s).length + 1) (escaped s) = some (toValidUtf8 s) := by
  sorry

/-- RFC 8259 string body, as in C05 -/
def isStringBody : Bytes → Bool
  | [] => true
  | 92 :: 117 :: a :: b :: c :: d :: r =>
    JsonDec.isHex a && JsonDec.isHex b && JsonDec.isHex c && JsonDec.isHex d && isStringBody r
  | 92 :: e :: r =>
    (e == 34 || e == 92 || e == 47 || e == 98 || e == 102 || e == 110 || e == 114 || e == 116) && isStringBody r
  | c :: r => c != 34 && c != 92 && c ≥ 0x20 && isStringBody r

theorem escape_is_body (s : Bytes) (hb : ∀ x ∈ s, x < 256) :
    isStringBody (escaped s) = true ∧ toValidUtf8 (escaped s) = escaped s := by
  sorry

/-! ### Domain -/

def jsonScalarOk (t : Tok) : Bool :=
  match t.body with
  | .uint n => n < two64
  | .int i => - (two63 : Int) ≤ i && i < (two63 : Int)
  | .float b => b < two64 && !floatNonFinite b
  | .str s => s.all (· < 256)
  | .null => true
  | .bool _ => true
  | _ => false

mutual
  def JWF : TV → Bool
    | .scalar t => jsonScalarOk t
    | .arr _ _ items => JWFl items
    | .map _ _ es => JWFe es
  def JWFl : List TV → Bool
    | [] => true
    | v :: vs => JWF v && JWFl vs
  def JWFe : List (TV × TV) → Bool
    | [] => true
    | (k, v) :: es =>
      (match k with | .scalar t => (match t.body with | .str s => s.all (· < 256) | _ => false) | _ => false) &&
      JWF v && JWFe es
end

def wsOnly (bs : Bytes) : Bool := bs.all JsonDec.isWs
def cfgOk (c : Cfg) : Bool := wsOnly c.lineBytes && wsOnly c.indent

/-- all bytes written for a tree under a configuration (the model's float text is `FloatText.jsonFloat`) -/
def out (c : Cfg) (v : TV) : Bytes := (runOut (step c FloatText.jsonFloat) init v.flatten).2.flatten

/-! ### Theorems -/

theorem enc_accepts (c : Cfg) (v : TV) (h : JWF v = true) :
    (runOut (step c FloatText.jsonFloat) init v.flatten).1 =
      List.replicate (v.flatten.length - 1) Flag.cont ++ [Flag.done] := by
  sorry

/-- trailing bytes after the value: containers are followed by `Line`, scalars by nothing -/
def trailer (c : Cfg) : TV → Bytes
  | .scalar _ => []
  | _ => c.lineBytes

theorem enc_valid (c : Cfg) (v : TV) (h : JWF v = true) (hc : cfgOk c = true) :
    (Spec.Json.parse (out c v)).map (fun p => (p.1.flatten, p.2)) =
      some (v.flatten.map Spec.Json.retypeTok, trailer c v) := by
  sorry

theorem pretty_is_compact (c : Cfg) (v : TV) (h : JWF v = true) (hc : cfgOk c = true) :
    Spec.Json.stripWs (out c v) false false = out ⟨none, []⟩ v := by
  sorry

theorem roundtrip (c : Cfg) (v : TV) (h : JWF v = true) (hc : cfgOk c = true) :
    let o := JsonDec.decode (Rd.ofBytes (out c v))
    o.toks = v.flatten.map Spec.Json.retypeTok ∧ o.res = .ok () := by
  sorry

example : out ⟨some [10], [32]⟩ (.arr none 2 [.scalar ⟨.null, none⟩, .arr (some 3) (-1) [.scalar ⟨.bool true, none⟩]])
    = [91, 10, 32, 110, 117, 108, 108, 44, 10, 32, 91, 10, 32, 32, 116, 114, 117, 101, 10, 32, 93, 10, 93, 10] := by
  decide

end Refmt.C03
