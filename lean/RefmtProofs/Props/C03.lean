/-
  C03 — JSON encoding of token streams is lossless and always valid JSON.

  Domain (`JWF`): token trees inside JSON's data model — string keys, no byte
  strings, finite floats, integers in the 64-bit token range; tags are allowed
  and are dropped.  Options: `Line` / `Indent` made of JSON whitespace only.

  * `escape_unquote`   : the string escaper followed by the decoder's unquoting is the identity on valid
                         UTF-8 and maps every invalid byte to U+FFFD (`toValidUtf8`), for every byte string.
  * `escape_is_body`   : the escaper's output is a legal RFC 8259 string body (no raw control byte, no
                         unescaped quote or backslash) and is valid UTF-8: invalid bytes are never emitted raw.
  * `enc_accepts`      : every tree of the domain is accepted, done exactly on its last token.
  * `enc_valid`        : the output is a valid RFC 8259 text that the independent reference reader
                         (Spec.Json.parse) reads as the same value (up to number typing), followed only by
                         the trailing `Line`.
  * `pretty_is_compact`: the pretty-printed output with insignificant whitespace removed is exactly the
                         compact output.
  * `roundtrip`        : decoding the output with the decoder model gives the tokens back up to number typing.

  Status.  `escape_unquote`, `escape_is_body`, `enc_accepts`, `pretty_is_compact` are proved as stated.
  `enc_valid` and `roundtrip` depend on one fact that is not proved here: that the model's float text
  `FloatText.jsonFloat` (a big-number re-implementation of strconv, validated by the harness) is always a
  complete RFC 8259 number that `numTok` can type without overflow.  That fact is the *definition*
  `FloatTextOk` (a hypothesis, not an axiom); per tree it is `FloatsOk v` (vacuous without float tokens).
    - `enc_valid_statement`, `roundtrip_statement` : the statements as first written (kept as `def … : Prop`)
    - `enc_valid_partial`, `roundtrip_partial`     : the same conclusions under `FloatsOk v`
    - `enc_valid_iff_floatTextOk`                  : `enc_valid_statement ↔ FloatTextOk`
    - `roundtrip_of_floatTextOk`                   : `FloatTextOk → roundtrip_statement`
  Nothing was found false.  The hypotheses `hb` (bytes < 256) of the two escape theorems are not needed.

  Machine- and text-level lemmas live in RefmtProofs/Lemmas/{Utf8,Escape,JsonNum,FloatChars,JsonText,JsonEncL,
  JsonParseL,JsonDecL}.lean; `txtV` there is the output as a function of the tree, `retV` the retyped tree.
-/
import RefmtModel
import RefmtProofs.Lemmas.JsonEncL
import RefmtProofs.Lemmas.JsonParseL
import RefmtProofs.Lemmas.JsonDecL
set_option linter.unusedSimpArgs false
set_option linter.unusedVariables false
namespace Refmt.C03
open Refmt Refmt.JsonEnc Refmt.C03L

/-! ### The string escaper -/

/-- the bytes `emitString` writes between the quotes -/
def escaped (s : Bytes) : Bytes := (escLoop s []).flatten

theorem escape_unquote (s : Bytes) (hb : ∀ x ∈ s, x < 256) :
    JsonDec.parseString ((escaped s).length + 1) (escaped s) = some (toValidUtf8 s) :=
  (esc_Esc s).unquote _ (Nat.lt_succ_self _)

/-- RFC 8259 string body, as in C05 -/
def isStringBody : Bytes → Bool
  | [] => true
  | 92 :: 117 :: a :: b :: c :: d :: r =>
    JsonDec.isHex a && JsonDec.isHex b && JsonDec.isHex c && JsonDec.isHex d && isStringBody r
  | 92 :: e :: r =>
    (e == 34 || e == 92 || e == 47 || e == 98 || e == 102 || e == 110 || e == 114 || e == 116) && isStringBody r
  | c :: r => c != 34 && c != 92 && c ≥ 0x20 && isStringBody r

theorem isStringBody_of_SBody {e : Bytes} (h : SBody e) : isStringBody e = true := by
  induction h with
  | nil => rfl
  | plain c r h1 h2 h3 _ ih =>
    unfold isStringBody
    split
    · simp_all
    · simp_all
    · simp_all
    · rename_i heq; simp at heq; simp_all
  | esc x r hx _ ih =>
    rcases hx with rfl | rfl | rfl | rfl | rfl <;> simp [isStringBody, ih]
  | uni a b c d r ha hb hc hd _ ih => simp [isStringBody, ha, hb, hc, hd, ih]

theorem escape_is_body (s : Bytes) (hb : ∀ x ∈ s, x < 256) :
    isStringBody (escaped s) = true ∧ toValidUtf8 (escaped s) = escaped s :=
  ⟨isStringBody_of_SBody (esc_Esc s).body, (esc_Esc s).valid⟩

/-! ### Domain -/

def jsonScalarOk (t : Tok) : Bool :=
  match t.body with
  | .uint n => n < two64
  | .int i => - (two63 : Int) ≤ i && i < (two63 : Int)
  | .float b => b < two64 && !floatNonFinite b
  | .str s => s.all (· < 256)
  | .null => true
  | .bool _ => true
  | _ => false

mutual
  def JWF : TV → Bool
    | .scalar t => jsonScalarOk t
    | .arr _ _ items => JWFl items
    | .map _ _ es => JWFe es
  def JWFl : List TV → Bool
    | [] => true
    | v :: vs => JWF v && JWFl vs
  def JWFe : List (TV × TV) → Bool
    | [] => true
    | (k, v) :: es =>
      (match k with | .scalar t => (match t.body with | .str s => s.all (· < 256) | _ => false) | _ => false) &&
      JWF v && JWFe es
end

def wsOnly (bs : Bytes) : Bool := bs.all JsonDec.isWs
def cfgOk (c : Cfg) : Bool := wsOnly c.lineBytes && wsOnly c.indent

/-- all bytes written for a tree under a configuration (the model's float text is `FloatText.jsonFloat`) -/
def out (c : Cfg) (v : TV) : Bytes := (runOut (step c FloatText.jsonFloat) init v.flatten).2.flatten

/-! ### The encoder writes `txtV` -/

theorem scalar_encOk {t : Tok} (h : jsonScalarOk t = true) : encOk t.body = true := by
  unfold jsonScalarOk at h
  cases hb : t.body <;> simp [hb] at h <;> simp [encOk, h]

theorem cfgOk_ws {c : Cfg} (h : cfgOk c = true) : CfgWs c := by
  simp only [cfgOk, wsOnly, Bool.and_eq_true, List.all_eq_true] at h
  exact ⟨h.1, h.2⟩

/-- a map key of the domain is a string token -/
theorem key_form {k : TV}
    (h : (match k with | .scalar t => (match t.body with | .str s => s.all (· < 256) | _ => false) | _ => false) = true) :
    ∃ s tag, k = .scalar ⟨.str s, tag⟩ := by
  cases k with
  | scalar t =>
    obtain ⟨body, tag⟩ := t
    cases body <;> simp at h
    exact ⟨_, _, rfl⟩
  | arr _ _ _ => simp at h
  | map _ _ _ => simp at h

mutual
  /-- one value in array-item position (`inArr`) or map-value position -/
  theorem encV (c : Cfg) : ∀ (v : TV), JWF v = true → ∀ (inArr : Bool) (r : List Phase) (sm : Bool),
      Runs c (vS inArr r sm) v.flatten (vPre c inArr r sm ++ txtV c (r.length + 1) v) (vE inArr r)
    | .scalar t, h, inArr, r, sm => by
      have := step_scalar c inArr r sm t (scalar_encOk (by simpa [JWF] using h))
      simpa [TV.flatten, txtV] using this
    | .arr tag len items, h, inArr, r, sm => by
      have h1 := step_arrOpen c inArr r sm len tag
      have h2 := encL c items (by simpa [JWF] using h) (topPh inArr :: r) false
      have h3 := step_arrClose c (topPh inArr) r (false || !items.isEmpty)
      have := (h1.append h2).append h3
      simpa [TV.flatten, txtV, vE] using this
    | .map tag len es, h, inArr, r, sm => by
      have h1 := step_mapOpen c inArr r sm len tag
      have h2 := encE c es (by simpa [JWF] using h) (topPh inArr :: r) false
      have h3 := step_mapClose c (topPh inArr) r (false || !es.isEmpty)
      have := (h1.append h2).append h3
      simpa [TV.flatten, txtV, vE] using this
  theorem encL (c : Cfg) : ∀ (vs : List TV), JWFl vs = true → ∀ (r : List Phase) (sm : Bool),
      Runs c ⟨.arr :: r, .arr, sm⟩ (TV.flattenList vs) (txtL c (r.length + 1) sm vs) ⟨.arr :: r, .arr, sm || !vs.isEmpty⟩
    | [], _, r, sm => by simpa [TV.flattenList, txtL] using Runs.nil c _
    | v :: vs, h, r, sm => by
      simp only [JWFl, Bool.and_eq_true] at h
      have h1 := encV c v h.1 true r sm
      have h2 := encL c vs h.2 r true
      have := h1.append h2
      simpa [TV.flattenList, txtL, vS, vE, vPre, topPh] using this
  theorem encE (c : Cfg) : ∀ (es : List (TV × TV)), JWFe es = true → ∀ (r : List Phase) (sm : Bool),
      Runs c ⟨.mapKey :: r, .mapKey, sm⟩ (TV.flattenEntries es) (txtE c (r.length + 1) sm es)
        ⟨.mapKey :: r, .mapKey, sm || !es.isEmpty⟩
    | [], _, r, sm => by simpa [TV.flattenEntries, txtE] using Runs.nil c _
    | (k, v) :: es, h, r, sm => by
      simp only [JWFe, Bool.and_eq_true] at h
      obtain ⟨⟨hk, hv⟩, hes⟩ := h
      obtain ⟨s, tag, rfl⟩ := key_form hk
      have h1 := step_key c r sm s tag
      have h2 := encV c v hv false r true
      have h3 := encE c es hes r true
      have := (h1.append h2).append h3
      simpa [TV.flattenEntries, TV.flatten, txtE, keyTxt, scalarTxt, vS, vE, vPre, topPh] using this
end

/-- trailing bytes after the value: containers are followed by `Line`, scalars by nothing -/
def trailer (c : Cfg) : TV → Bytes
  | .scalar _ => []
  | _ => c.lineBytes

/-- flags and bytes of a whole run -/
theorem run_eq (c : Cfg) (v : TV) (h : JWF v = true) :
    (runOut (step c FloatText.jsonFloat) init v.flatten).1 =
      List.replicate (v.flatten.length - 1) Flag.cont ++ [Flag.done] ∧
    out c v = txtV c 0 v ++ trailer c v := by
  unfold out
  cases v with
  | scalar t =>
    obtain ⟨hf, hw⟩ := top_scalar c t (scalar_encOk (by simpa [JWF] using h))
    simp only [stp] at hf hw
    simp [TV.flatten, runOut, hf, hw, txtV, trailer]
  | arr tag len items =>
    have h1 := top_arrOpen c len tag
    have h2 := encL c items (by simpa [JWF] using h) [] false
    obtain ⟨hf, hw⟩ := top_arrClose c (false || !items.isEmpty)
    have := (h1.append h2).finish hf hw
    simp only [stp] at this
    simp only [TV.flatten, List.singleton_append, List.cons_append, List.nil_append] at this ⊢
    rw [this.1, this.2]
    simp [txtV, trailer]
  | map tag len es =>
    have h1 := top_mapOpen c len tag
    have h2 := encE c es (by simpa [JWF] using h) [] false
    obtain ⟨hf, hw⟩ := top_mapClose c (false || !es.isEmpty)
    have := (h1.append h2).finish hf hw
    simp only [stp] at this
    simp only [TV.flatten, List.singleton_append, List.cons_append, List.nil_append] at this ⊢
    rw [this.1, this.2]
    simp [txtV, trailer]

/-! ### Removing the insignificant whitespace -/

mutual
  theorem stripV (c : Cfg) (hc : CfgWs c) : ∀ (v : TV), JWF v = true → ∀ (d : Nat) (rest : Bytes),
      Spec.Json.stripWs (txtV c d v ++ rest) false false = txtV ⟨none, []⟩ d v ++ Spec.Json.stripWs rest false false
    | .scalar t, h, d, rest => by
      simpa [txtV] using stripWs_scalar t.body (scalar_encOk (by simpa [JWF] using h)) rest
    | .arr tag len items, h, d, rest => by
      have h2 := stripL c hc items (by simpa [JWF] using h) (d + 1) false
      simp only [txtV, List.cons_append, List.append_assoc]
      rw [stripWs_open 91 (Or.inl rfl), h2, stripWs_close hc _ _ 93 (Or.inl rfl), closeSep_compact]
      simp
    | .map tag len es, h, d, rest => by
      have h2 := stripE c hc es (by simpa [JWF] using h) (d + 1) false
      simp only [txtV, List.cons_append, List.append_assoc]
      rw [stripWs_open 123 (Or.inr rfl), h2, stripWs_close hc _ _ 125 (Or.inr rfl), closeSep_compact]
      simp
  theorem stripL (c : Cfg) (hc : CfgWs c) : ∀ (vs : List TV), JWFl vs = true → ∀ (d : Nat) (sm : Bool) (rest : Bytes),
      Spec.Json.stripWs (txtL c d sm vs ++ rest) false false = txtL ⟨none, []⟩ d sm vs ++ Spec.Json.stripWs rest false false
    | [], _, d, sm, rest => by simp [txtL]
    | v :: vs, h, d, sm, rest => by
      simp only [JWFl, Bool.and_eq_true] at h
      simp only [txtL, List.append_assoc]
      rw [stripWs_sep hc, stripV c hc v h.1, stripL c hc vs h.2]
  theorem stripE (c : Cfg) (hc : CfgWs c) : ∀ (es : List (TV × TV)), JWFe es = true →
      ∀ (d : Nat) (sm : Bool) (rest : Bytes),
      Spec.Json.stripWs (txtE c d sm es ++ rest) false false = txtE ⟨none, []⟩ d sm es ++ Spec.Json.stripWs rest false false
    | [], _, d, sm, rest => by simp [txtE]
    | (k, v) :: es, h, d, sm, rest => by
      simp only [JWFe, Bool.and_eq_true] at h
      obtain ⟨⟨hk, hv⟩, hes⟩ := h
      obtain ⟨s, tag, rfl⟩ := key_form hk
      simp only [txtE, List.append_assoc, keyTxt]
      rw [stripWs_sep hc, stripWs_scalar (.str s) rfl, stripWs_colon, stripV c hc v hv, stripE c hc es hes, colon_compact]
      simp
end

/-! ### Reading the text back -/

/-- The float hypothesis for one tree: for every float token, the model's float text
    (`FloatText.jsonFloat`, a re-implementation of strconv validated by the harness) is a complete
    RFC 8259 number for the scanners and `numTok` can type it (`C03L.floatOk`, a decidable check). -/
def FloatsOk (v : TV) : Prop := ∀ t ∈ v.flatten, ∀ x, t.body = .float x → floatOk x = true

/-- The same for every finite binary64 bit pattern: part of the trusted base (not an axiom: a hypothesis). -/
def FloatTextOk : Prop := ∀ x, x < two64 → floatNonFinite x = false → floatOk x = true

mutual
  theorem dokV : ∀ (v : TV), JWF v = true →
      (∀ t ∈ v.flatten, ∀ x, t.body = .float x → x < two64 → floatNonFinite x = false → floatOk x = true) →
      DOk v = true
    | .scalar t, h, hf => by
      have hj : jsonScalarOk t = true := by simpa [JWF] using h
      have hf' := hf t (by simp [TV.flatten])
      unfold jsonScalarOk at hj
      cases hb : t.body <;> simp [hb] at hj <;> simp [DOk, decOk, hb, hj]
      rename_i x
      exact hf' x hb hj.1 hj.2
    | .arr tag len items, h, hf => by
      simp only [DOk]
      exact dokL items (by simpa [JWF] using h) (fun t ht => hf t (by simp [TV.flatten, ht]))
    | .map tag len es, h, hf => by
      simp only [DOk]
      exact dokE es (by simpa [JWF] using h) (fun t ht => hf t (by simp [TV.flatten, ht]))
  theorem dokL : ∀ (vs : List TV), JWFl vs = true →
      (∀ t ∈ TV.flattenList vs, ∀ x, t.body = .float x → x < two64 → floatNonFinite x = false → floatOk x = true) →
      DOkL vs = true
    | [], _, _ => rfl
    | v :: vs, h, hf => by
      simp only [JWFl, Bool.and_eq_true] at h
      simp only [DOkL, Bool.and_eq_true]
      exact ⟨dokV v h.1 (fun t ht => hf t (by simp [TV.flattenList, ht])),
        dokL vs h.2 (fun t ht => hf t (by simp [TV.flattenList, ht]))⟩
  theorem dokE : ∀ (es : List (TV × TV)), JWFe es = true →
      (∀ t ∈ TV.flattenEntries es, ∀ x, t.body = .float x → x < two64 → floatNonFinite x = false → floatOk x = true) →
      DOkE es = true
    | [], _, _ => rfl
    | (k, v) :: es, h, hf => by
      simp only [JWFe, Bool.and_eq_true] at h
      obtain ⟨⟨hk, hv⟩, hes⟩ := h
      obtain ⟨s, tag, rfl⟩ := key_form hk
      simp only [DOkE, Bool.and_eq_true]
      exact ⟨⟨trivial, dokV v hv (fun t ht => hf t (by simp [TV.flattenEntries, ht]))⟩,
        dokE es hes (fun t ht => hf t (by simp [TV.flattenEntries, ht]))⟩
end

/-- a tree without float tokens needs no hypothesis -/
theorem floatsOk_of_noFloat {v : TV} (h : ∀ t ∈ v.flatten, ∀ x, t.body ≠ .float x) : FloatsOk v :=
  fun t ht x hb => absurd hb (h t ht x)

theorem dok_of_floatsOk {v : TV} (h : JWF v = true) (hf : FloatsOk v) : DOk v = true :=
  dokV v h (fun t ht x hb _ _ => hf t ht x hb)

theorem dok_of_floatTextOk {v : TV} (h : JWF v = true) (hf : FloatTextOk) : DOk v = true :=
  dokV v h (fun _ _ x _ h1 h2 => hf x h1 h2)

theorem trailer_ws {c : Cfg} (hw : CfgWs c) (v : TV) : WsOnly (trailer c v) := by
  cases v <;> first | exact WsOnly.nil | exact hw.line

/-- `enc_valid` on the domain `DOk` -/
theorem enc_valid_dok (c : Cfg) (v : TV) (h : JWF v = true) (hc : cfgOk c = true) (hd : DOk v = true) :
    (Spec.Json.parse (out c v)).map (fun p => (p.1.flatten, p.2)) =
      some (v.flatten.map Spec.Json.retypeTok, trailer c v) := by
  have hw := cfgOk_ws hc
  rw [(run_eq c v h).2]
  unfold Spec.Json.parse
  have h1 := needV_le v
  have h2 := lenV c v hd 0
  rw [parseV c hw v hd _ 0 (trailer c v) (by simp only [List.length_append]; omega) (Stop_ws _ (trailer_ws hw v))]
  simp [retV_flatten]

/-- `roundtrip` on the domain `DOk` -/
theorem roundtrip_dok (c : Cfg) (v : TV) (h : JWF v = true) (hc : cfgOk c = true) (hd : DOk v = true) :
    let o := JsonDec.decode (Rd.ofBytes (out c v))
    o.toks = v.flatten.map Spec.Json.retypeTok ∧ o.res = .ok () := by
  have hw := cfgOk_ws hc
  have h2 := lenV c v hd 0
  have := decTop c hw v hd (2 * (out c v).length + 2) (trailer c v) (Stop_ws _ (trailer_ws hw v))
    (by rw [(run_eq c v h).2]; simp only [List.length_append]; omega)
  rw [← (run_eq c v h).2] at this
  exact this

/-! ### Theorems -/

theorem enc_accepts (c : Cfg) (v : TV) (h : JWF v = true) :
    (runOut (step c FloatText.jsonFloat) init v.flatten).1 =
      List.replicate (v.flatten.length - 1) Flag.cont ++ [Flag.done] :=
  (run_eq c v h).1

/-- The statement of `enc_valid` as first written.  It is not refuted; it is true exactly when the float
    texts are sound (`FloatTextOk`, see `enc_valid_of_floatTextOk`), a fact about the big-number routines
    `FloatText.shortest` / `parseDecimal` that is part of the trusted base and is not proved here. -/
def enc_valid_statement : Prop :=
  ∀ (c : Cfg) (v : TV), JWF v = true → cfgOk c = true →
    (Spec.Json.parse (out c v)).map (fun p => (p.1.flatten, p.2)) =
      some (v.flatten.map Spec.Json.retypeTok, trailer c v)

/-- `enc_valid` with the float hypothesis made explicit for the tree at hand
    (vacuous for trees without float tokens; `floatOk` is a Boolean function that can be evaluated). -/
theorem enc_valid_partial (c : Cfg) (v : TV) (h : JWF v = true) (hc : cfgOk c = true) (hf : FloatsOk v) :
    (Spec.Json.parse (out c v)).map (fun p => (p.1.flatten, p.2)) =
      some (v.flatten.map Spec.Json.retypeTok, trailer c v) :=
  enc_valid_dok c v h hc (dok_of_floatsOk h hf)

theorem enc_valid_of_floatTextOk (hF : FloatTextOk) : enc_valid_statement :=
  fun c v h hc => enc_valid_dok c v h hc (dok_of_floatTextOk h hF)

/-- Conversely the first statement already contains the float hypothesis (take a top-level float):
    `enc_valid_statement` and `FloatTextOk` are the same proposition. -/
theorem floatTextOk_of_enc_valid (hS : enc_valid_statement) : FloatTextOk := by
  intro x hx hfin
  have hj : JWF (.scalar ⟨.float x, none⟩) = true := by simp [JWF, jsonScalarOk, hx, hfin]
  have h1 := hS ⟨none, []⟩ (.scalar ⟨.float x, none⟩) hj (by decide)
  rw [(run_eq _ _ hj).2] at h1
  simp only [txtV, scalarTxt, trailer, List.append_nil] at h1
  cases hp : Spec.Json.parse (FloatText.jsonFloat x) with
  | none => simp [hp] at h1
  | some p =>
    simp only [hp, Option.map_some, Option.some.injEq, Prod.mk.injEq] at h1
    exact floatOk_of_parse x p hp h1.2

theorem enc_valid_iff_floatTextOk : enc_valid_statement ↔ FloatTextOk :=
  ⟨floatTextOk_of_enc_valid, enc_valid_of_floatTextOk⟩

theorem pretty_is_compact (c : Cfg) (v : TV) (h : JWF v = true) (hc : cfgOk c = true) :
    Spec.Json.stripWs (out c v) false false = out ⟨none, []⟩ v := by
  have hw := cfgOk_ws hc
  rw [(run_eq c v h).2, (run_eq ⟨none, []⟩ v h).2, stripV c hw v h]
  have h1 : trailer ⟨none, []⟩ v = [] := by cases v <;> rfl
  have h2 : Spec.Json.stripWs (trailer c v) false false = [] := by
    have := stripWs_ws (trailer c v) [] (by cases v <;> first | exact WsOnly.nil | exact hw.line)
    simpa [Spec.Json.stripWs] using this
  rw [h1, h2]

/-- The statement of `roundtrip` as first written; as for `enc_valid_statement` it is not refuted, and it
    follows from the soundness of the float texts (`roundtrip_of_floatTextOk`). -/
def roundtrip_statement : Prop :=
  ∀ (c : Cfg) (v : TV), JWF v = true → cfgOk c = true →
    let o := JsonDec.decode (Rd.ofBytes (out c v))
    o.toks = v.flatten.map Spec.Json.retypeTok ∧ o.res = .ok ()

/-- `roundtrip` with the float hypothesis made explicit for the tree at hand. -/
theorem roundtrip_partial (c : Cfg) (v : TV) (h : JWF v = true) (hc : cfgOk c = true) (hf : FloatsOk v) :
    let o := JsonDec.decode (Rd.ofBytes (out c v))
    o.toks = v.flatten.map Spec.Json.retypeTok ∧ o.res = .ok () :=
  roundtrip_dok c v h hc (dok_of_floatsOk h hf)

theorem roundtrip_of_floatTextOk (hF : FloatTextOk) : roundtrip_statement :=
  fun c v h hc => roundtrip_dok c v h hc (dok_of_floatTextOk h hF)

example : out ⟨some [10], [32]⟩ (.arr none 2 [.scalar ⟨.null, none⟩, .arr (some 3) (-1) [.scalar ⟨.bool true, none⟩]])
    = [91, 10, 32, 110, 117, 108, 108, 44, 10, 32, 91, 10, 32, 32, 116, 114, 117, 101, 10, 32, 93, 10, 93, 10] := by
  decide

end Refmt.C03
