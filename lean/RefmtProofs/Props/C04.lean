/-
  C04 — the CBOR decoder accepts exactly well-formed CBOR and yields what the bytes say.

  The specification is the recursive-descent reference decoder `Spec.Cbor.parse`
  (RefmtModel/Spec/Cbor.lean), written from RFC 7049 for refmt's supported subset.
  The model of the Go decoder is the phase/stack/countdown machine `CborDec`.

  * `refine`      : for every byte string and both option settings the machine yields exactly the
                    tokens of the item the reference decoder reads, signals done on its last token and
                    leaves exactly the reference decoder's rest; and it returns an error whenever the
                    reference decoder rejects.  (Accepts exactly; never returns a value the bytes do not encode.)
  * `half_exact`  : `halfFloatToFloatBits` followed by the float32→float64 widening is value-exact on
                    all 65 536 half-precision patterns (against the IEEE 754 binary16 definition).
  * `negint_exact`: a decoded negative integer is exactly -1-n, or the outcome is an error.
  * `prefix_free` : every proper prefix of an accepted item is rejected (truncation at every byte).
-/
import RefmtModel
import RefmtProofs.Lemmas.HalfTable
import RefmtProofs.Lemmas.CborBasic
import RefmtProofs.Lemmas.CborParse
import RefmtProofs.Lemmas.CborMachine
import RefmtProofs.Lemmas.CborRun
set_option linter.unusedSimpArgs false
set_option linter.unusedVariables false
namespace Refmt.C04
open Refmt

theorem refine (coerce : Bool) (bs : Bytes) (hb : ∀ x ∈ bs, x < 256) :
    let o := CborDec.decode coerce (Rd.ofBytes bs)
    match Spec.Cbor.parse coerce bs with
    | some (v, rest) => o.toks = v.flatten ∧ o.res = .ok () ∧ o.rd.data = rest
    | none => ∃ e, o.res = .error e := by
  intro o
  have hrun := run_eq coerce (2 * bs.length + 2) CborDec.init ⟨bs, none, 0⟩ [] 0 0
  have ho : o = CborDec.run coerce (2 * bs.length + 2) CborDec.init ⟨bs, none, 0⟩ [] 0 0 := rfl
  have htop := top_run coerce bs hb
  cases hp : Spec.Cbor.parse coerce bs with
  | none =>
    rw [hp] at htop
    dsimp only at htop ⊢
    obtain ⟨e, he⟩ := htop
    rw [← hrun] at he
    exact ⟨e, by rw [ho]; exact he⟩
  | some p =>
    obtain ⟨v, rest⟩ := p
    rw [hp] at htop
    dsimp only at htop ⊢
    rw [← hrun] at htop
    simp only [Prod.mk.injEq] at htop
    rw [ho]
    refine ⟨htop.1, htop.2.1, ?_⟩
    rw [htop.2.2]

theorem half_exact (h : Nat) (hh : h < 65536) :
    f32to64 (halfToFloatBits h) = Spec.Cbor.halfToF64 h :=
  HalfTable.half_exact h hh

theorem negint_exact (rd : Rd) (major : Nat) (i : Int) (hm : 0x20 ≤ major ∧ major < 0x40)
    (h : (CborDec.decNegInt rd major).res = .ok i) :
    ∃ n, (CborDec.decUint rd major).res = .ok n ∧ i = -1 - (n : Int) ∧ n < two63 :=
  negint_exact' rd major i h

/-- What the reference decoder consumed is a prefix of the input. -/
theorem parse_consumes (coerce : Bool) (bs : Bytes) (v : TV) (rest : Bytes)
    (h : Spec.Cbor.parse coerce bs = some (v, rest)) : ∃ used, bs = used ++ rest ∧ used ≠ [] :=
  parse_consumes' coerce bs v rest h

theorem prefix_free (coerce : Bool) (bs : Bytes) (v : TV)
    (h : Spec.Cbor.parse coerce bs = some (v, [])) (p : Bytes) (hp : p <+: bs) (hne : p ≠ bs) :
    Spec.Cbor.parse coerce p = none :=
  prefix_free' coerce bs v h p hp hne

example : (Spec.Cbor.parse false [0xa1, 0x61, 0x6b, 0x9f, 0x05, 0x24, 0xff, 0x00]).map (fun p => (p.1.flatten, p.2)) =
    some ([⟨.mapOpen 1, none⟩, ⟨.str [0x6b], none⟩, ⟨.arrOpen (-1), none⟩, ⟨.uint 5, none⟩, ⟨.int (-5), none⟩,
           ⟨.arrClose, none⟩, ⟨.mapClose, none⟩], [0x00]) := by
  decide

end Refmt.C04
