/-
  C17 (object marshaller): the STATEFUL model of obj.Marshaller (RefmtModel/Model/Obj/MarshalMach.lean: slab rows,
  machine stack, current machine, Bind, one token per Step) refines the FUNCTIONAL model `marshalV`
  (RefmtModel/Model/Obj/Marshal.lean), from ANY state the instance was left in.

  Contents
    * `marshaller_refines_statement` : the statement at full strength (all atlases).  It is FALSE
      (`marshaller_refines_statement_false`): see `clash_chain`, `clash_ptr` below — Go panics where the functional
      model marshals.  This is a finding about the Go code (same-row delegation of the transform machine),
      reproduced against the real library.
    * `marshaller_refines_fixed`     : the statement for every atlas satisfying `NoClash` (explicit, decidable by
      `fragCheck`, satisfied by the example atlases below): ALL machines — primitives, byte strings, pointers of any
      depth, interfaces (wildcard), slices, arrays, maps (string keys, and struct keys with a key transform), struct
      maps with ignored / omitempty / unreachable fields, error thunks, transforms (with the tag on the first
      token), keyed unions (delegate in the tip row, which is the union's own row or a leaked row above it);
      any nesting; any dirty state; errors included.  What `NoClash` excludes:
        - a transform whose target type is a pointer type or a type with a transform of its own (the clash: Go
          panics), an interface type or a union (not covered by the proof);
        - a union whose member entry is itself a union entry, or invalid (Go panics);
        - atlas entries for which machine selection panics (`invalid atlas entry`, a map morphism on a non-map).
    * `reused_eq_fresh`              : a reused instance behaves as a fresh one (unconditional: every atlas).
    * `completed_run_stack_empty`    : after a completed run the machine stack is empty again.  The ROWS are not
      (the root machine's row, and every row requisitioned by a wildcard machine or by the map machine of a nil map,
      are never released; `Bind` is what forgets them): `rows_not_released`.
    * examples running the stateful model from a deliberately dirty state.

  Fuel.  `marshalV` takes fuel and answers `panic` when it runs out; the hypothesis
  `(marshalV ts a trs fuel id v).fail ≠ some .panic` says that `fuel` was enough (and that the value is well typed:
  the functional model's other panics are ill-typed values and malformed atlases).  The stateful model takes fuel
  too (`run fuel'` pumps at most `fuel'` times and gives every call `fuel'` units for the recursion inside one
  `Step`): the theorem holds for every `fuel'` from some bound on.
-/
import RefmtProofs.Lemmas.MarshalMachFinal
open Refmt Refmt.Obj Refmt.Obj.MM Refmt.MachL

namespace Refmt.C17ObjMarshal

/-- the refinement at full strength -/
def marshaller_refines_statement : Prop :=
  ∀ (ts : Types) (a : Atlas) (trs : Trs) (fuel id : Nat) (v : Val),
    (marshalV ts a trs fuel id v).fail ≠ some .panic →
    ∃ N, ∀ fuel', N ≤ fuel' → ∀ dirty : MState,
      run ts a trs fuel' (MM.bind ts a trs fuel' dirty id v) = marshalV ts a trs fuel id v

/-- the extra hypothesis, on the atlas alone (see `Refmt.MachL.Frag`, `Okm`, `Okm1`): for every type, the machine
    selected for it (pointer levels peeled off) is not a panic; if it is a transform machine, the transform's target
    type is not a pointer type and selects a plain machine other than the wildcard machine (so: not a transform, not
    a union); if it is a union machine, each member entry selects a struct-map, map or such a transform machine -/
abbrev NoClash (ts : Types) (a : Atlas) : Prop := Frag ts a

/-- the refinement, for every atlas without same-row clashes -/
theorem marshaller_refines_fixed (ts : Types) (a : Atlas) (trs : Trs) (hfrag : NoClash ts a)
    (fuel id : Nat) (v : Val) (hfuel : (marshalV ts a trs fuel id v).fail ≠ some .panic) :
    ∃ N, ∀ fuel', N ≤ fuel' → ∀ dirty : MState,
      run ts a trs fuel' (MM.bind ts a trs fuel' dirty id v) = marshalV ts a trs fuel id v := by
  obtain ⟨N, hN⟩ := refines_frag (trs := trs) hfrag fuel id v hfuel
  exact ⟨N, fun fuel' h dirty => (hN fuel' h dirty).1⟩

/-- whatever the instance did before, `Bind` makes it behave as a new one: every atlas, every fuel -/
theorem reused_eq_fresh (ts : Types) (a : Atlas) (trs : Trs) (f : Nat) (dirty : MState) (id : Nat) (v : Val) :
    run ts a trs f (MM.bind ts a trs f dirty id v) = run ts a trs f (MM.bind ts a trs f MState.fresh id v) := by
  unfold MM.bind
  cases requisition ts a f [] id with
  | error x => simp [run]
  | ok p =>
    obtain ⟨R, m⟩ := p
    cases resetM ts a trs f m id v R <;> rfl

/-- after a completed run the machine stack is empty again (and the root row is still there) -/
theorem completed_run_stack_empty (ts : Types) (a : Atlas) (trs : Trs) (hfrag : Frag ts a)
    (fuel id : Nat) (v : Val) (hok : (marshalV ts a trs fuel id v).fail = none) :
    ∃ N, ∀ fuel', N ≤ fuel' → ∀ dirty : MState,
      ∃ s', finalState ts a trs fuel' fuel' (MM.bind ts a trs fuel' dirty id v) = some s' ∧
        s'.stack = [] ∧ s'.rows ≠ [] := by
  obtain ⟨N, hN⟩ := refines_frag (trs := trs) hfrag fuel id v (by rw [hok]; simp)
  exact ⟨N, fun fuel' h dirty => (hN fuel' h dirty).2 hok⟩

/-! ### Non-vacuity: the stateful model run from a deliberately dirty state -/

/-- 0 string, 1 int, 2 map[string]int, 3 struct{A, B map[string]int; C []interface{}}, 4 interface{}, 5 []interface{},
    6 *struct -/
def exTs : Types :=
  [(0, .prim .string true), (1, .prim .int true), (2, .map 0 1), (3, .struct []), (4, .iface false), (5, .slice 4),
   (6, .ptr 3)]
def exEntry : Entry :=
  ⟨true, 3, some 7, .structMap [⟨[97], false, [0], 2, false⟩, ⟨[98], false, [1], 2, true⟩, ⟨[99], false, [2], 5, false⟩]⟩
def exAtlas : Atlas := ⟨[exEntry], .default⟩
def exTrs : Trs := ⟨fun _ _ => none, fun _ _ => none⟩
def exMap (k : Nat) (x : Int) : Val := .map (some [(.str [k], .int x)])
/-- a struct with two maps and a slice holding a pointer to another such struct and a nil interface -/
def exVal : Val :=
  .struct [exMap 120 1, exMap 121 2,
    .slice (some [.iface (some (6, .ptr (some (.struct [exMap 122 3, .map none, .slice none])))), .iface none])]

/-- a row left behind by an abandoned run: the map machine between a key and its value, the struct machine with a
    value loaded, a wildcard delegate pointing nowhere, a union machine in mid-flight -/
def dirtyRow : Row :=
  { map := { value := true, index := 7, keys := [([1], .int 9)], valueMach := some ⟨9, .map⟩ },
    struct := { index := 1, value_rv := some (.int 5) },
    wild := { delegate := some ⟨4, .struct⟩ },
    slice := { index := 3, length := 1 },
    ptr := { mach := some .ptr, peelCount := 3, isNil := true },
    union := { step := .delegate } }
/-- an instance abandoned in the middle of a run: three dirty rows, a non-empty stack -/
def dirty : MState := ⟨[dirtyRow, dirtyRow, dirtyRow], [⟨1, .map⟩, ⟨0, .struct⟩], some ⟨2, .map⟩, none⟩

example : (run exTs exAtlas exTrs 40 (MM.bind exTs exAtlas exTrs 40 dirty 3 exVal)).toks =
    (marshalV exTs exAtlas exTrs 40 3 exVal).toks := by decide +kernel
example : (run exTs exAtlas exTrs 40 (MM.bind exTs exAtlas exTrs 40 dirty 3 exVal)).fail = none ∧
    (marshalV exTs exAtlas exTrs 40 3 exVal).fail = none := by decide +kernel
example : (run exTs exAtlas exTrs 40 (MM.bind exTs exAtlas exTrs 40 dirty 3 exVal)).toks.length = 25 := by
  decide +kernel
/-- the same value through a pointer, and the nil pointer -/
example : (run exTs exAtlas exTrs 40 (MM.bind exTs exAtlas exTrs 40 dirty 6 (.ptr (some exVal)))).toks =
    (marshalV exTs exAtlas exTrs 40 3 exVal).toks := by decide +kernel
example : (run exTs exAtlas exTrs 40 (MM.bind exTs exAtlas exTrs 40 dirty 6 (.ptr none))).toks = [⟨.null, none⟩] := by
  decide +kernel
/-- the rows are not released by a completed run: root row, grown row of the struct, leaked wildcard rows -/
theorem rows_not_released :
    (finalState exTs exAtlas exTrs 40 40 (MM.bind exTs exAtlas exTrs 40 dirty 3 exVal)).map
      (fun s => (s.rows.length, s.stack.length)) = some (3, 0) := by decide +kernel

/-- the example atlas is in the fragment, so `marshaller_refines_partial` applies to it -/
theorem ex_frag : Frag exTs exAtlas := frag_of_check (by decide +kernel)

/-! ### Transforms and keyed unions, from the same dirty state

0 string, 1 int, 4 interface{}, 10 struct T (transform 0 to string, tag 5), 20 interface Shape = union {c: Circle, t: T},
21 struct Circle {r int; t T; a interface{}}, 22 []Shape, 24 struct Holder {s Shape; l []Shape} (tag 9), 25 *Holder.
In the slice, the first Circle holds a non-nil interface: its wildcard machine leaks a row, so the union machine of the
next elements finds rows above its own and configures its delegate there (`sim_union_tip`), whereas the first one
configures it in its own row (`sim_union_same`). -/

def uxTs : Types :=
  [(0, .prim .string true), (1, .prim .int true), (4, .iface false), (10, .struct []), (20, .iface true), (21, .struct []),
   (22, .slice 20), (24, .struct []), (25, .ptr 24)]
def uxAtlas : Atlas :=
  ⟨[⟨true, 10, some 5, .transform 0 0 0⟩,
    ⟨true, 21, none, .structMap [⟨[114], false, [0], 1, false⟩, ⟨[116], false, [1], 10, false⟩, ⟨[97], false, [2], 4, false⟩]⟩,
    ⟨true, 20, none, .union [([99], 1), ([116], 0)]⟩,
    ⟨true, 24, some 9, .structMap [⟨[115], false, [0], 20, false⟩, ⟨[108], false, [1], 22, false⟩]⟩], .default⟩
def uxTrs : Trs := ⟨fun _ _ => some (.str [65]), fun _ _ => none⟩
def circle (r : Int) (any : Val) : Val := .iface (some (21, .struct [.int r, .struct [], any]))
def uxVal : Val :=
  .struct [circle 3 (.iface none),
    .slice (some [circle 4 (.iface (some (0, .str [120]))), .iface (some (10, .struct [])), circle 5 (.iface none)])]

theorem ux_noClash : NoClash uxTs uxAtlas := frag_of_check (by decide +kernel)

example : (run uxTs uxAtlas uxTrs 60 (MM.bind uxTs uxAtlas uxTrs 60 dirty 25 (.ptr (some uxVal)))).toks =
    (marshalV uxTs uxAtlas uxTrs 40 24 uxVal).toks := by decide +kernel
example : (run uxTs uxAtlas uxTrs 60 (MM.bind uxTs uxAtlas uxTrs 60 dirty 25 (.ptr (some uxVal)))).fail = none ∧
    (marshalV uxTs uxAtlas uxTrs 40 24 uxVal).fail = none ∧
    (marshalV uxTs uxAtlas uxTrs 40 24 uxVal).toks.length = 43 := by decide +kernel
/-- a value that is not a member of the union: an error, after the same 12 tokens -/
def uxBad : Val := .slice (some [circle 1 (.iface none), .iface (some (24, .struct []))])
example : (run uxTs uxAtlas uxTrs 60 (MM.bind uxTs uxAtlas uxTrs 60 dirty 22 uxBad)).toks =
      (marshalV uxTs uxAtlas uxTrs 40 22 uxBad).toks ∧
    (run uxTs uxAtlas uxTrs 60 (MM.bind uxTs uxAtlas uxTrs 60 dirty 22 uxBad)).fail = some .err ∧
    (marshalV uxTs uxAtlas uxTrs 40 22 uxBad).fail = some .err ∧
    (marshalV uxTs uxAtlas uxTrs 40 22 uxBad).toks.length = 12 := by decide +kernel

/-! ### The statement at full strength is false: same-row delegation of the transform machine

`_yieldMarshalMachinePtrForAtlasEntry` picks a transform machine's delegate in the SAME row ("Pick delegate without
growing stack.  (This currently means recursive transform won't fly.)").  So:
  * a transform whose target type has a transform itself overwrites the row's one transform machine
    (trFunc, delegate), which ends up delegating to itself;
  * a POINTER to a type whose transform yields a pointer type overwrites the row's one ptrDeref machine, which ends up
    in a cycle ptrDeref -> transform -> ptrDeref.
In Go both panic at the second trip round the cycle (`reflect: Call using refmt.cU as type refmt.cT`): checked
against the real library with two three-line atlases.  The untyped stateful model goes round the cycle until its
fuel is gone (`stuck`).  The functional model marshals both values. -/

/-- 0 string; 10 struct T (transform 0 to string, tag 5); 11 struct U (transform 1 to T, tag 6);
    14 struct W (transform 2 to *string); 15 *string; 16 *W -/
def cxTs : Types :=
  [(0, .prim .string true), (10, .struct []), (11, .struct []), (14, .struct []), (15, .ptr 0), (16, .ptr 14)]
def cxAtlas : Atlas :=
  ⟨[⟨true, 10, some 5, .transform 0 0 0⟩, ⟨true, 11, some 6, .transform 1 10 10⟩, ⟨true, 14, none, .transform 2 15 15⟩],
   .default⟩
def cxTrs : Trs :=
  ⟨fun fn _ => match fn with
     | 0 => some (.str [65]) | 1 => some (.struct []) | 2 => some (.ptr (some (.str [66]))) | _ => none,
   fun _ _ => none⟩

/-- single transforms are fine -/
example : run cxTs cxAtlas cxTrs 30 (MM.bind cxTs cxAtlas cxTrs 30 MState.fresh 10 (.struct [])) =
    ⟨[⟨.str [65], some 5⟩], none⟩ ∧ marshalV cxTs cxAtlas cxTrs 30 10 (.struct []) = ⟨[⟨.str [65], some 5⟩], none⟩ := by
  constructor <;> with_unfolding_all rfl
example : (run cxTs cxAtlas cxTrs 30 (MM.bind cxTs cxAtlas cxTrs 30 MState.fresh 14 (.struct []))).toks =
    [⟨.str [66], none⟩] := by decide +kernel

/-- a chained transform: functional model `"A"` tagged 6; stateful model (and Go) never get out of `Bind` -/
theorem clash_chain :
    marshalV cxTs cxAtlas cxTrs 30 11 (.struct []) = ⟨[⟨.str [65], some 6⟩], none⟩ ∧
    (MM.bind cxTs cxAtlas cxTrs 30 MState.fresh 11 (.struct [])).bindErr = some .stuck ∧
    (run cxTs cxAtlas cxTrs 30 (MM.bind cxTs cxAtlas cxTrs 30 MState.fresh 11 (.struct []))).fail = some .panic := by
  refine ⟨by with_unfolding_all rfl, by decide +kernel, by decide +kernel⟩

/-- a pointer to a type transformed to a pointer type -/
theorem clash_ptr :
    marshalV cxTs cxAtlas cxTrs 30 16 (.ptr (some (.struct []))) = ⟨[⟨.str [66], none⟩], none⟩ ∧
    (MM.bind cxTs cxAtlas cxTrs 30 MState.fresh 16 (.ptr (some (.struct [])))).bindErr = some .stuck ∧
    (run cxTs cxAtlas cxTrs 30 (MM.bind cxTs cxAtlas cxTrs 30 MState.fresh 16 (.ptr (some (.struct []))))).fail
      = some .panic := by
  refine ⟨by with_unfolding_all rfl, by decide +kernel, by decide +kernel⟩

/-- the cycle: a transform machine that delegates to itself never gets out of `Reset`, whatever the fuel -/
theorem clash_loop : ∀ (n rt : Nat) (v : Val) (row : Row), row.transform.delegate = some .transform →
    row.transform.trFunc = 0 → resetM cxTs cxAtlas cxTrs n ⟨0, .transform⟩ rt v [row] = .error .stuck
  | 0, _, _, _, _, _ => rfl
  | n+1, rt, v, row, hd, hf => by
    have htr : cxTrs.m row.transform.trFunc v = some (.str [65]) := by rw [hf]; rfl
    simp only [resetM, resetBody, resetTransform, updRow, hd, htr, List.getElem?_cons_zero, List.set_cons_zero]
    exact clash_loop n _ _ _ rfl hf

/-- the statement at full strength does not hold -/
theorem marshaller_refines_statement_false : ¬ marshaller_refines_statement := by
  intro h
  obtain ⟨N, hN⟩ := h cxTs cxAtlas cxTrs 30 11 (.struct []) (by rw [clash_chain.1]; simp)
  have hrun := hN (N + 6) (by omega) MState.fresh
  rw [clash_chain.1] at hrun
  -- Bind does not succeed
  obtain ⟨row, hy, hd, hf⟩ : ∃ row, yieldM cxTs cxAtlas 6 Row.zero 11 = .ok (row, .transform) ∧
      row.transform.delegate = some .transform ∧ row.transform.trFunc = 0 :=
    ⟨{ transform := { trFunc := 0, mty := 0, delegate := some .transform, tag := some 6 } },
      by with_unfolding_all rfl, rfl, rfl⟩
  have hy' : yieldM cxTs cxAtlas (N + 6) Row.zero 11 = .ok (row, .transform) :=
    (yieldM_mono (by omega) (hy ▸ NS.ok)).trans hy
  have hb : (MM.bind cxTs cxAtlas cxTrs (N + 6) MState.fresh 11 (.struct [])).bindErr = some .stuck := by
    simp [MM.bind, requisition, hy', clash_loop _ _ _ row hd hf]
  simp [run, hb] at hrun

end Refmt.C17ObjMarshal
