/-
  C16 through the pump: a write fault on the sink's writer makes `TokenPump.Run` fail.

  `C16.cbor_write_fault` / `json_write_fault` speak about the batch run `runFaulty` over a token list.  Here the
  sink encoder sits behind the lock-step pump `Pump.run` (one source step, one sink step per iteration, "done"
  of the source checked against "done" of the sink) and writes to a writer with an injected fault.

  * `faultySink sink f`        : the sink with its writer state: one step performs the step's `Write` calls on the
                                 faulty writer and returns what Go's `Step` returns under that writer
                                 (`retUnder`: where the model says `Ret.ck`, the sticky write error if there is one),
                                 so that its observable flag is exactly `Ret.flagW` (`faultySink_flag`).
  * `pump_no_fault_same`       : with `f = none` (and a writer that has not failed) the faulty-sink pump IS the plain
                                 pump: same `ok`, `out`, `rd` - any source, any sink, any fuel.
  * `pump_faulty_of_batch`     : the pump feeds the sink exactly the source's tokens until the first non-`cont` flag:
                                 if the source run yields `ts` and the batch run `runFaulty sink f … ts` ends in
                                 `err`, the pump returns `ok = false`.
  * `pump_write_fault_cbor`, `pump_write_fault_json` : source = CBOR bytes `Spec.Cbor.parse` accepts / JSON text
                                 `Spec.Json.parse` accepts (C10's hypotheses), any sink whose batch run reports
                                 the fault: the pump returns `ok = false`.
  * the four transcoders       : `pump_write_fault_c2j` (CBOR → JSON, common data model), `pump_write_fault_c2c`
                                 (CBOR → CBOR, `C02.WFv`), `pump_write_fault_j2c` (JSON → CBOR, no extra hypothesis),
                                 `pump_write_fault_j2j` (JSON → JSON, no extra hypothesis): every fault `f` at a
                                 `Write` call the document needs (`f.k < number of writes`) that is effective
                                 (`C16.effective`: not a short count on an empty buffer) gives `ok = false`.
                                 This includes the writes of the LAST token, where source and sink both report
                                 done (`pump_fault_on_last_write_*`, and the examples at the end).

  All statements proved.
-/
import RefmtModel
import RefmtProofs.Props.C10
import RefmtProofs.Props.C16
import RefmtProofs.Lemmas.CborLeaves
import RefmtProofs.Lemmas.JsonFinite
set_option linter.unusedSimpArgs false
set_option linter.unusedVariables false
namespace Refmt.C16Pump
open Refmt Refmt.Pump

/-! ### the sink behind a faulty writer -/

/-- what Go's `Step` returns when the model says `r` and the writer is in state `w` after the step's writes:
    `Ret.ck d` is `return d, w.checkErr()` -/
def retUnder (r : Ret) (w : WSt) : Ret :=
  match r with
  | .ck d => if w.failed then .bad else .plain d
  | r => r

theorem retUnder_flag (r : Ret) (w : WSt) : (retUnder r w).flag = r.flagW w := by
  cases r with
  | ck d => simp only [retUnder, Ret.flagW]; cases w.failed <;> simp [Ret.flag]
  | plain d => rfl
  | bad => rfl
  | panic => rfl

/-- the sink over a writer with fault `f`: the state carries the writer state (calls made, failed) -/
def faultySink {τ : Type} (sink : τ → Tok → EncOut τ) (f : Option WFault) : (τ × WSt) → Tok → EncOut (τ × WSt) :=
  fun kw t =>
    let o := sink kw.1 t
    let w' := kw.2.writes f o.writes
    ⟨(o.st, w'), o.writes, retUnder o.ret w'⟩

/-- its observable flag is `Ret.flagW` of the step's result under the writer state after the step's writes -/
theorem faultySink_flag {τ : Type} (sink : τ → Tok → EncOut τ) (f : Option WFault) (k : τ) (w : WSt) (t : Tok) :
    (faultySink sink f (k, w) t).ret.flag = (sink k t).ret.flagW (w.writes f (sink k t).writes) :=
  retUnder_flag _ _

theorem faultySink_st {τ : Type} (sink : τ → Tok → EncOut τ) (f : Option WFault) (k : τ) (w : WSt) (t : Tok) :
    (faultySink sink f (k, w) t).st = ((sink k t).st, w.writes f (sink k t).writes) := rfl

theorem faultySink_writes {τ : Type} (sink : τ → Tok → EncOut τ) (f : Option WFault) (k : τ) (w : WSt) (t : Tok) :
    (faultySink sink f (k, w) t).writes = (sink k t).writes := rfl

/-- the batch run of the faulty sink (writer that never fails on top) is `runFaulty` -/
theorem runFlags_faultySink {τ : Type} (sink : τ → Tok → EncOut τ) (f : Option WFault) :
    ∀ (ts : List Tok) (k : τ) (w : WSt),
      runFlags (faultySink sink f) (k, w) ts = (runFaulty sink f k w ts).1
  | [], _, _ => rfl
  | t :: ts, k, w => by
    simp only [runFlags, runFaulty]
    rw [faultySink_flag, faultySink_st]
    cases h : (sink k t).ret.flagW (w.writes f (sink k t).writes) <;> simp [runFlags_faultySink sink f ts]

/-! ### no fault: the plain pump -/

theorem pump_no_fault_same {σ τ : Type} (src : σ → Rd → SrcStep σ) (sink : τ → Tok → EncOut τ) :
    ∀ (fuel : Nat) (s : σ) (rd : Rd) (k : τ) (w : WSt) (out : List Bytes), w.failed = false →
      Pump.run src (faultySink sink none) fuel s rd (k, w) out = Pump.run src sink fuel s rd k out
  | 0, _, _, _, _, _, _ => rfl
  | fuel+1, s, rd, k, w, out, hw => by
    simp only [Pump.run]
    cases hs : src s rd with
    | err r1 => rfl
    | tok s1 r1 t d =>
      have hw' : (w.writes none (sink k t).writes).failed = false := by
        rw [C16L.writes_none_failed]; exact hw
      have hfl : (faultySink sink none (k, w) t).ret.flag = (sink k t).ret.flag := by
        rw [faultySink_flag, C16L.flagW_of_not_failed _ _ hw']
      have ih := fun out' => pump_no_fault_same src sink fuel s1 r1 (sink k t).st _ out' hw'
      simp only
      rw [hfl, faultySink_writes, faultySink_st]
      cases (sink k t).ret.flag with
      | err => rfl
      | panic => rfl
      | cont =>
        simp only
        cases d with
        | true => rfl
        | false => simp only [Bool.false_eq_true, if_false]; split <;> exact ih _
      | done =>
        simp only
        cases d with
        | true => rfl
        | false => simp only [Bool.false_eq_true, if_false]; split <;> exact ih _

/-- the three observables, spelt out -/
theorem pump_no_fault_same' {σ τ : Type} (src : σ → Rd → SrcStep σ) (sink : τ → Tok → EncOut τ)
    (fuel : Nat) (s : σ) (rd : Rd) (k : τ) :
    let r := Pump.run src (faultySink sink none) fuel s rd (k, {}) []
    let r0 := Pump.run src sink fuel s rd k []
    r.ok = r0.ok ∧ r.out = r0.out ∧ r.rd = r0.rd := by
  intro r r0
  have : r = r0 := pump_no_fault_same src sink fuel s rd k {} [] rfl
  rw [this]
  exact ⟨rfl, rfl, rfl⟩

/-! ### the pump feeds the sink the source's tokens until the first non-`cont` flag -/

theorem getLast_singleton_err {fl : Flag} (h : [fl].getLast? = some Flag.err) : fl = Flag.err := by
  simpa using h

theorem pump_faulty_of_batch {σ τ : Type} (src : σ → Rd → SrcStep σ) (sink : τ → Tok → EncOut τ)
    (f : Option WFault) :
    ∀ (fuel : Nat) (s : σ) (rd : Rd) (k : τ) (w : WSt) (out : List Bytes) (ts : List Tok) (rd' : Rd),
      PumpL.srcRun src fuel s rd = (ts, true, rd') →
      (runFaulty sink f k w ts).1.getLast? = some Flag.err →
      (Pump.run src (faultySink sink f) fuel s rd (k, w) out).ok = false
  | 0, s, rd, k, w, out, ts, rd', h, _ => by simp [PumpL.srcRun] at h
  | fuel+1, s, rd, k, w, out, ts, rd', h, hf => by
    simp only [PumpL.srcRun] at h
    simp only [Pump.run]
    cases hs : src s rd with
    | err r1 => rfl
    | tok s1 r1 t d =>
      rw [hs] at h
      simp only
      rw [faultySink_flag, faultySink_st]
      cases d with
      | true =>
        simp only [Prod.mk.injEq] at h
        obtain ⟨rfl, _, _⟩ := h
        simp only [runFaulty] at hf
        cases hfl : (sink k t).ret.flagW (w.writes f (sink k t).writes) with
        | err => rfl
        | panic => rfl
        | cont => rfl
        | done => rw [hfl] at hf; simp at hf
      | false =>
        simp only [Prod.mk.injEq] at h
        obtain ⟨h1, h2, h3⟩ := h
        have hh : PumpL.srcRun src fuel s1 r1 = ((PumpL.srcRun src fuel s1 r1).1, true, rd') := by
          rw [← h2, ← h3]
        subst h1
        simp only [runFaulty] at hf
        cases hfl : (sink k t).ret.flagW (w.writes f (sink k t).writes) with
        | err => rfl
        | panic => rfl
        | done => rw [hfl] at hf; simp at hf
        | cont =>
          rw [hfl] at hf
          simp only at hf
          have hf' : (runFaulty sink f (sink k t).st (w.writes f (sink k t).writes)
              (PumpL.srcRun src fuel s1 r1).1).1.getLast? = some Flag.err := by
            cases hr : (runFaulty sink f (sink k t).st (w.writes f (sink k t).writes)
                (PumpL.srcRun src fuel s1 r1).1).1 with
            | nil => rw [hr] at hf; simp at hf
            | cons a as => rw [hr] at hf; simpa [List.getLast?_cons_cons] using hf
          have ih := fun out' => pump_faulty_of_batch src sink f fuel s1 r1 (sink k t).st
            (w.writes f (sink k t).writes) out' _ rd' hh hf'
          simp only [Bool.false_eq_true, if_false]
          split <;> exact ih _

/-! ### sources -/

/-- CBOR source: bytes the reference decoder accepts; any sink whose batch run over the document's tokens
    reports the fault -/
theorem pump_write_fault_cbor {τ : Type} (sink : τ → Tok → EncOut τ) (k0 : τ) (coerce : Bool) (bs : Bytes) (v : TV)
    (rest : Bytes) (hb : ∀ x ∈ bs, x < 256) (hp : Spec.Cbor.parse coerce bs = some (v, rest)) (f : Option WFault)
    (hflt : (runFaulty sink f k0 {} v.flatten).1.getLast? = some Flag.err) :
    (Pump.run (Pump.cborSrc coerce) (faultySink sink f) (2 * bs.length + 4) CborDec.init (Rd.ofBytes bs)
      (k0, {}) []).ok = false := by
  have href := C04.refine coerce bs hb
  simp only [hp] at href
  obtain ⟨h1, hdec, _⟩ := href
  have hrun := PumpL.cbor_run_eq coerce (2 * bs.length + 2) CborDec.init (Rd.ofBytes bs) [] 0 0
  simp only [List.reverse_nil, List.nil_append] at hrun
  obtain ⟨g1, g2, g3⟩ := hrun
  have hd : CborDec.decode coerce (Rd.ofBytes bs) =
      CborDec.run coerce (2 * bs.length + 2) CborDec.init (Rd.ofBytes bs) [] 0 0 := rfl
  rw [hd] at hdec h1
  rw [hdec] at g2
  have hsrc : PumpL.srcRun (Pump.cborSrc coerce) (2 * bs.length + 2) CborDec.init (Rd.ofBytes bs) =
      (v.flatten, true, (PumpL.srcRun (Pump.cborSrc coerce) (2 * bs.length + 2) CborDec.init (Rd.ofBytes bs)).2.2) := by
    have e1 : (PumpL.srcRun (Pump.cborSrc coerce) (2 * bs.length + 2) CborDec.init (Rd.ofBytes bs)).1 = v.flatten := by
      rw [← g1, h1]
    have e2 : (PumpL.srcRun (Pump.cborSrc coerce) (2 * bs.length + 2) CborDec.init (Rd.ofBytes bs)).2.1 = true := by
      rw [← g2]; rfl
    rw [← e1, ← e2]
  have hsrc' := PumpL.srcRun_mono (Pump.cborSrc coerce) 2 _ _ _ _ _ hsrc
  exact pump_faulty_of_batch (Pump.cborSrc coerce) sink f _ _ _ k0 {} [] _ _ hsrc' hflt

/-- JSON source: text the reference reader accepts; any sink whose batch run reports the fault -/
theorem pump_write_fault_json {τ : Type} (sink : τ → Tok → EncOut τ) (k0 : τ) (bs : Bytes) (v : TV)
    (rest : Bytes) (hb : ∀ x ∈ bs, x < 256) (hp : Spec.Json.parse bs = some (v, rest)) (f : Option WFault)
    (hflt : (runFaulty sink f k0 {} v.flatten).1.getLast? = some Flag.err) :
    (Pump.run Pump.jsonSrc (faultySink sink f) (2 * bs.length + 4) JsonDec.init (Rd.ofBytes bs)
      (k0, {}) []).ok = false := by
  have href := C05.refine bs hb
  simp only [hp] at href
  obtain ⟨h1, hdec, _⟩ := href
  have hrun := PumpL.json_run_eq (2 * bs.length + 2) JsonDec.init (Rd.ofBytes bs) [] 0
  simp only [List.reverse_nil, List.nil_append] at hrun
  obtain ⟨g1, g2, g3⟩ := hrun
  have hd : JsonDec.decode (Rd.ofBytes bs) =
      JsonDec.run (2 * bs.length + 2) JsonDec.init (Rd.ofBytes bs) [] 0 := rfl
  rw [hd] at hdec h1
  rw [hdec] at g2
  have hsrc : PumpL.srcRun Pump.jsonSrc (2 * bs.length + 2) JsonDec.init (Rd.ofBytes bs) =
      (v.flatten, true, (PumpL.srcRun Pump.jsonSrc (2 * bs.length + 2) JsonDec.init (Rd.ofBytes bs)).2.2) := by
    have e1 : (PumpL.srcRun Pump.jsonSrc (2 * bs.length + 2) JsonDec.init (Rd.ofBytes bs)).1 = v.flatten := by
      rw [← g1, h1]
    have e2 : (PumpL.srcRun Pump.jsonSrc (2 * bs.length + 2) JsonDec.init (Rd.ofBytes bs)).2.1 = true := by
      rw [← g2]; rfl
    rw [← e1, ← e2]
  have hsrc' := PumpL.srcRun_mono Pump.jsonSrc 2 _ _ _ _ _ hsrc
  exact pump_faulty_of_batch Pump.jsonSrc sink f _ _ _ k0 {} [] _ _ hsrc' hflt

/-! ### the four transcoders -/

/-- CBOR → JSON (common data model): every effective fault at a write the document needs fails the pump -/
theorem pump_write_fault_c2j (c : JsonEnc.Cfg) (ff : Nat → Bytes) (bs : Bytes) (v : TV) (rest : Bytes)
    (hb : ∀ x ∈ bs, x < 256) (hp : Spec.Cbor.parse false bs = some (v, rest)) (hc : C10.common v = true)
    (f : WFault) (hk : f.k < (runOut (JsonEnc.step c ff) JsonEnc.init v.flatten).2.length)
    (heff : C16.effective f (runOut (JsonEnc.step c ff) JsonEnc.init v.flatten).2) :
    (Pump.run (Pump.cborSrc false) (faultySink (JsonEnc.step c ff) (some f)) (2 * bs.length + 4) CborDec.init
      (Rd.ofBytes bs) (JsonEnc.init, {}) []).ok = false :=
  pump_write_fault_cbor _ _ false bs v rest hb hp (some f)
    (C16.json_write_fault c ff v (CborLeaves.parse_common_JWF16 false bs v rest hb hp hc) f hk heff)

/-- CBOR → CBOR (re-encoding; the tree must be in the CBOR encoder's domain: `Spec.Cbor.parse` also accepts
    containers as map keys, which the encoder refuses) -/
theorem pump_write_fault_c2c (bs : Bytes) (v : TV) (rest : Bytes)
    (hb : ∀ x ∈ bs, x < 256) (hp : Spec.Cbor.parse false bs = some (v, rest)) (hw : C02.WFv v = true)
    (f : WFault) (hk : f.k < (runOut CborEnc.step CborEnc.init v.flatten).2.length)
    (heff : C16.effective f (runOut CborEnc.step CborEnc.init v.flatten).2) :
    (Pump.run (Pump.cborSrc false) (faultySink CborEnc.step (some f)) (2 * bs.length + 4) CborDec.init
      (Rd.ofBytes bs) (CborEnc.init, {}) []).ok = false :=
  pump_write_fault_cbor _ _ false bs v rest hb hp (some f) (C16.cbor_write_fault v hw f hk heff)

/-- JSON → CBOR: no hypothesis beyond C10's -/
theorem pump_write_fault_j2c (bs : Bytes) (v : TV) (rest : Bytes)
    (hb : ∀ x ∈ bs, x < 256) (hp : Spec.Json.parse bs = some (v, rest))
    (f : WFault) (hk : f.k < (runOut CborEnc.step CborEnc.init v.flatten).2.length)
    (heff : C16.effective f (runOut CborEnc.step CborEnc.init v.flatten).2) :
    (Pump.run Pump.jsonSrc (faultySink CborEnc.step (some f)) (2 * bs.length + 4) JsonDec.init
      (Rd.ofBytes bs) (CborEnc.init, {}) []).ok = false :=
  pump_write_fault_json _ _ bs v rest hb hp (some f)
    (C16.cbor_write_fault v (PumpL.wfV v (PumpL.parse_JT bs v rest hb hp)) f hk heff)

/-- JSON → JSON (re-formatting): no hypothesis beyond C10's -/
theorem pump_write_fault_j2j (c : JsonEnc.Cfg) (ff : Nat → Bytes) (bs : Bytes) (v : TV) (rest : Bytes)
    (hb : ∀ x ∈ bs, x < 256) (hp : Spec.Json.parse bs = some (v, rest))
    (f : WFault) (hk : f.k < (runOut (JsonEnc.step c ff) JsonEnc.init v.flatten).2.length)
    (heff : C16.effective f (runOut (JsonEnc.step c ff) JsonEnc.init v.flatten).2) :
    (Pump.run Pump.jsonSrc (faultySink (JsonEnc.step c ff) (some f)) (2 * bs.length + 4) JsonDec.init
      (Rd.ofBytes bs) (JsonEnc.init, {}) []).ok = false :=
  pump_write_fault_json _ _ bs v rest hb hp (some f)
    (C16.json_write_fault c ff v (JsonFinite.parse_JWF16 bs v rest hb hp) f hk heff)

/-! ### the last write -/

/-- a fault on the very last `Write` call of the document (made while source and sink both report done)
    is still reported: CBOR → JSON -/
theorem pump_fault_on_last_write_c2j (c : JsonEnc.Cfg) (ff : Nat → Bytes) (bs : Bytes) (v : TV) (rest : Bytes)
    (hb : ∀ x ∈ bs, x < 256) (hp : Spec.Cbor.parse false bs = some (v, rest)) (hc : C10.common v = true)
    (mode : WMode) (stop : Bool) (hm : mode ≠ .short)
    (hpos : 0 < (runOut (JsonEnc.step c ff) JsonEnc.init v.flatten).2.length) :
    (Pump.run (Pump.cborSrc false)
      (faultySink (JsonEnc.step c ff) (some ⟨(runOut (JsonEnc.step c ff) JsonEnc.init v.flatten).2.length - 1, mode, stop⟩))
      (2 * bs.length + 4) CborDec.init (Rd.ofBytes bs) (JsonEnc.init, {}) []).ok = false :=
  pump_write_fault_c2j c ff bs v rest hb hp hc _ (by simp only; omega) (Or.inl hm)

/-- … JSON → CBOR -/
theorem pump_fault_on_last_write_j2c (bs : Bytes) (v : TV) (rest : Bytes)
    (hb : ∀ x ∈ bs, x < 256) (hp : Spec.Json.parse bs = some (v, rest))
    (mode : WMode) (stop : Bool) (hm : mode ≠ .short)
    (hpos : 0 < (runOut CborEnc.step CborEnc.init v.flatten).2.length) :
    (Pump.run Pump.jsonSrc
      (faultySink CborEnc.step (some ⟨(runOut CborEnc.step CborEnc.init v.flatten).2.length - 1, mode, stop⟩))
      (2 * bs.length + 4) JsonDec.init (Rd.ofBytes bs) (CborEnc.init, {}) []).ok = false :=
  pump_write_fault_j2c bs v rest hb hp _ (by simp only; omega) (Or.inl hm)

/-! ### non-vacuity -/

-- JSON `[1]` → CBOR: the sink makes three writes (`9f`, `01`, `ff`); the last one, the break, is written on the
-- last token, where the JSON decoder and the CBOR encoder both report done.
example : Spec.Json.parse [91, 49, 93] =
    some (.arr none (-1) [.scalar ⟨.int 1, none⟩], []) := rfl
example : (runOut CborEnc.step CborEnc.init
    (TV.arr none (-1) [.scalar ⟨.int 1, none⟩]).flatten).2 = [[0x9f], [0x01], [0xff]] := by decide
-- no fault: the pump succeeds ...
example : (Pump.run Pump.jsonSrc (faultySink CborEnc.step none) 10 JsonDec.init (Rd.ofBytes [91, 49, 93])
    (CborEnc.init, {}) []).ok = true := by decide
-- ... a failing last write (call number 2) is reported, in every mode ...
example : (Pump.run Pump.jsonSrc (faultySink CborEnc.step (some ⟨2, .err, false⟩)) 10 JsonDec.init
    (Rd.ofBytes [91, 49, 93]) (CborEnc.init, {}) []).ok = false := by decide
example : (Pump.run Pump.jsonSrc (faultySink CborEnc.step (some ⟨2, .short, false⟩)) 10 JsonDec.init
    (Rd.ofBytes [91, 49, 93]) (CborEnc.init, {}) []).ok = false := by decide
-- ... a fault at a call the document never makes (number 3) is not
example : (Pump.run Pump.jsonSrc (faultySink CborEnc.step (some ⟨3, .err, true⟩)) 10 JsonDec.init
    (Rd.ofBytes [91, 49, 93]) (CborEnc.init, {}) []).ok = true := by decide
-- the theorem on that document (fuel `2 * 3 + 4 = 10`)
example : (Pump.run Pump.jsonSrc (faultySink CborEnc.step (some ⟨2, .both, true⟩)) (2 * [91, 49, 93].length + 4)
    JsonDec.init (Rd.ofBytes [91, 49, 93]) (CborEnc.init, {}) []).ok = false :=
  pump_write_fault_j2c [91, 49, 93] (.arr none (-1) [.scalar ⟨.int 1, none⟩]) [] (by decide) rfl
    ⟨2, .both, true⟩ (by decide) (Or.inl (by decide))

-- CBOR `[1]` (`81 01`) → JSON: hypotheses of `pump_write_fault_c2j` are satisfiable, and the last of the
-- writes of `[1]` is covered
example : Spec.Cbor.parse false [0x81, 0x01] = some (.arr none 1 [.scalar ⟨.uint 1, none⟩], []) := rfl
example : C10.common (.arr none 1 [.scalar ⟨.uint 1, none⟩]) = true := by decide
example : (Pump.run (Pump.cborSrc false)
    (faultySink (JsonEnc.step ⟨none, []⟩ FloatText.jsonFloat)
      (some ⟨(runOut (JsonEnc.step ⟨none, []⟩ FloatText.jsonFloat) JsonEnc.init
        (TV.arr none 1 [.scalar ⟨.uint 1, none⟩]).flatten).2.length - 1, .err, false⟩))
    (2 * [0x81, 0x01].length + 4) CborDec.init (Rd.ofBytes [0x81, 0x01]) (JsonEnc.init, {}) []).ok = false :=
  pump_fault_on_last_write_c2j ⟨none, []⟩ FloatText.jsonFloat [0x81, 0x01] (.arr none 1 [.scalar ⟨.uint 1, none⟩]) []
    (by decide) rfl (by decide) .err false (by decide) (by decide)

end Refmt.C16Pump
