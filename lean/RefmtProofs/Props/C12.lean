/-
  C12 — re-marshalling a decoded document reaches a byte-exact fixpoint.

  The chain in refmt is  v ─M→ b1 ─U(untyped)→ u1 ─M→ b2 ─U(untyped)→ u2 ─M→ b3  and the claim is b3 = b2
  (and that b2 still decodes into v's own type to a value equal to v: that part is the round-trip
  specification `normV` shared with C01 and is carried by the correspondence stream `remarshal`).

  The proof obligation that tests cannot reach is about *every* value an untyped slot can hold:

  * `unm_yields_untyped`  : whatever token list the untyped unmarshaller accepts, the value it builds is a
                            native untyped value (`isU`): nil, bool, int, uint64 (only above MaxInt64), float64,
                            string, byte string, []interface{} and map[string]interface{} of such.
  * `untyped_roundtrip`   : marshalling a native untyped value and unmarshalling the tokens into an untyped slot
                            gives the value back with every map's entries in the marshaller's (sorted) key order (`sortU`).
  * `marshal_sortU`       : sorting the entries does not change what is marshalled (the marshaller sorts).
  * `fixpoint_tokens`     : hence  M (U (M u)) = M u  on tokens, for every native untyped value u.
  * `unm_canon_untyped`   : the untyped unmarshaller does not see the difference between a token list and what the
                            CBOR codec returns for it (`C02.canonTok`: non-negative ints come back unsigned).
  * `fixpoint_cbor`       : the byte-level statement for CBOR, composing the encoder model, the decoder model
                            (C02's round trip) and the two object machines:  b3 = b2.
  * `native_first_pass_cbor` : for native untyped values the first re-marshal is already byte-identical (b2 = b1).
  * `fixpoint_json`       : the same for JSON on what JSON can carry (no byte strings, finite floats whose printed
                            text re-reads exactly (`C03.FloatsOk`-style hypothesis), no float -0).

  Status.
    * `unm_yields_untyped`, `marshal_sortU`, `unm_canon_untyped` : proved as stated.
    * `untyped_roundtrip`, `fixpoint_tokens`, `fixpoint_cbor`, `native_first_pass_cbor` : the fuel side condition as
      first written (`… + n + 64 < fuel`) is too weak: a level of `[]interface{}` costs five units of fuel but only two
      tokens (one CBOR byte), and the unmarshaller needs one unit more than the marshaller.  The first statements are
      kept (`untyped_roundtrip_statement`, `fixpoint_tokens_statement`, `fixpoint_cbor_statement`) and refuted by a
      33-fold nested `[[…[nil]…]]` at fuel 167 (`*_statement_false`); the theorems are proved with `3 * n` in place
      of `n` (a pure fuel adjustment; fuel is a model artefact).  `smallU` additionally bounds container lengths by
      2^63 (a Go `int`), which C02's domain needs.
    * `fixpoint_json` : same fuel adjustment (here the first bound is not refuted: JSON spends two bytes per level),
      and `jsonU` carries one more decidable per-float condition, `floatStable`: the float's text re-reads
      (`numTok`) as a number that prints as the same text.  For an integral float such as 1.0 the text `1` comes back
      as the *int* 1, which is re-marshalled as `1`; that the texts agree in general is the round-trip property of
      strconv's shortest formatting (`FloatText.jsonFloat`/`parseDecimal`), which is not proved here.
    * Non-vacuity: a concrete environment (`exTs`, `exA`, `exIt`, `exEnv`) and `fixpoint_cbor` / `fixpoint_json`
      instantiated on `map[string]interface{}{"b": []interface{}{5, "x", nil}, "a": 7}` at the end of the file.

  Proof plan: `treeU` is the token tree of a native untyped value; `marshal_tree` (the marshaller emits its
  flattening), `unm_tree` (the untyped unmarshaller reads it back as `sortU`), `marshal_sortU_all`, `unm_compat`
  (the untyped unmarshaller does not see declared lengths nor the signedness spelling of small integers).
  Lemmas that do not depend on the definitions of this file are in RefmtProofs/Lemmas/Untyped.lean.
-/
import RefmtModel
import RefmtProofs.Props.C02
import RefmtProofs.Props.C03
import RefmtProofs.Props.C07
import RefmtProofs.Props.C08
import RefmtProofs.Lemmas.Untyped
set_option linter.unusedSimpArgs false
set_option linter.unusedVariables false
set_option linter.unusedSectionVars false
namespace Refmt.C12
open Refmt Refmt.Obj Refmt.C12L


/-- The untyped universe as the harness (and Go) sets it up: the ids in `it` name the predeclared types, which
    the atlas cannot override, and the two untyped container types, which have no atlas entry. -/
structure UEnv (ts : Types) (a : Atlas) (it : IfaceTys) : Prop where
  iface : ts.get it.iface = .iface false
  str : ts.get it.str = .prim .string true
  bytes : ts.get it.bytes = .bytes true
  bool : ts.get it.bool = .prim .bool true
  int : ts.get it.int = .prim .int true
  uint64 : ts.get it.uint64 = .prim .uint64 true
  f64 : ts.get it.f64 = .prim .f64 true
  mapSI : ts.get it.mapSI = .map it.str it.iface
  sliceI : ts.get it.sliceI = .slice it.iface
  noMap : a.get it.mapSI = none
  noSlice : a.get it.sliceI = none
  noIface : a.get it.iface = none

def keyOf : Val → Bytes
  | .str s => s
  | _ => []

/-- native untyped values (fuel-bounded structural check); map keys are strings and pairwise distinct -/
def isU (it : IfaceTys) : Nat → Val → Bool
  | 0, _ => false
  | _+1, .iface none => true
  | f+1, .iface (some (d, x)) =>
    (match x with
     | .str _ => d == it.str
     | .bytes (some _) => d == it.bytes
     | .bool _ => d == it.bool
     | .int i => d == it.int && decide (-(two63 : Int) ≤ i) && decide (i < (two63 : Int))
     | .uint n => d == it.uint64 && decide (two63 ≤ n) && decide (n < two64)
     | .float b => d == it.f64 && decide (b < two64)
     | .slice (some vs) => d == it.sliceI && vs.all (isU it f)
     | .map (some es) => d == it.mapSI && es.all (fun (k, y) => (match k with | .str _ => true | _ => false) && isU it f y)
                         && decide ((es.map fun (k, _) => keyOf k).Nodup)
     | _ => false)
  | _, _ => false

/-- the same value with every map's entries put into the marshaller's key order -/
def sortU (mode : KeySort) : Nat → Val → Val
  | 0, v => v
  | f+1, .iface (some (d, .slice (some vs))) => .iface (some (d, .slice (some (vs.map (sortU mode f)))))
  | f+1, .iface (some (d, .map (some es))) =>
    .iface (some (d, .map (some ((sortKeys mode (es.map fun (k, y) => (keyOf k, sortU mode f y))).map fun (k, y) => (Val.str k, y)))))
  | _, v => v

/-- every token is one the codecs can carry (Go-representable numbers, tags absent: no registered tagged types are involved) -/
def tokPlain (t : Tok) : Bool :=
  t.tag.isNone &&
  (match t.body with
   | .uint n => decide (n < two64)
   | .int i => decide (-(two63 : Int) ≤ i) && decide (i < (two63 : Int))
   | .float b => decide (b < two64)
   | _ => true)


/-! ### The token tree of a native untyped value -/

/-- the token tree the marshaller emits for a native untyped value (exact lengths, keys in marshalling order) -/
def treeU (mode : KeySort) : Nat → Val → TV
  | 0, _ => .scalar ⟨.null, none⟩
  | f+1, .iface (some (_, x)) =>
    (match x with
     | .str s => .scalar ⟨.str s, none⟩
     | .bytes (some b) => .scalar ⟨.bytes b, none⟩
     | .bool b => .scalar ⟨.bool b, none⟩
     | .int i => .scalar ⟨.int i, none⟩
     | .uint n => .scalar ⟨.uint n, none⟩
     | .float b => .scalar ⟨.float b, none⟩
     | .slice (some vs) => .arr none vs.length (vs.map (treeU mode f))
     | .map (some es) =>
       .map none es.length ((sortKeys mode (es.map fun p => (keyOf p.1, p.2))).map fun p =>
         (TV.scalar ⟨.str p.1, none⟩, treeU mode f p.2))
     | _ => .scalar ⟨.null, none⟩)
  | _, _ => .scalar ⟨.null, none⟩


/-! ### Unfolding the marshaller on the untyped universe -/

section env
variable {ts : Types} {a : Atlas} {it : IfaceTys} (trs : Trs) (he : UEnv ts a it)
include he

theorem peel_iface : peel ts 64 0 it.iface = (0, it.iface) := peel_nonptr ts 64 0 _ (by simp [he.iface])
theorem peel_str : peel ts 64 0 it.str = (0, it.str) := peel_nonptr ts 64 0 _ (by simp [he.str])
theorem peel_bytes : peel ts 64 0 it.bytes = (0, it.bytes) := peel_nonptr ts 64 0 _ (by simp [he.bytes])
theorem peel_bool : peel ts 64 0 it.bool = (0, it.bool) := peel_nonptr ts 64 0 _ (by simp [he.bool])
theorem peel_int : peel ts 64 0 it.int = (0, it.int) := peel_nonptr ts 64 0 _ (by simp [he.int])
theorem peel_uint64 : peel ts 64 0 it.uint64 = (0, it.uint64) := peel_nonptr ts 64 0 _ (by simp [he.uint64])
theorem peel_f64 : peel ts 64 0 it.f64 = (0, it.f64) := peel_nonptr ts 64 0 _ (by simp [he.f64])
theorem peel_mapSI : peel ts 64 0 it.mapSI = (0, it.mapSI) := peel_nonptr ts 64 0 _ (by simp [he.mapSI])
theorem peel_sliceI : peel ts 64 0 it.sliceI = (0, it.sliceI) := peel_nonptr ts 64 0 _ (by simp [he.sliceI])

theorem pick_iface : pickBare ts a it.iface = .wildcard := by simp [pickBare, he.iface, he.noIface]
theorem pick_str : pickBare ts a it.str = .prim := by simp [pickBare, he.str]
theorem pick_bytes : pickBare ts a it.bytes = .prim := by simp [pickBare, he.bytes]
theorem pick_bool : pickBare ts a it.bool = .prim := by simp [pickBare, he.bool]
theorem pick_int : pickBare ts a it.int = .prim := by simp [pickBare, he.int]
theorem pick_uint64 : pickBare ts a it.uint64 = .prim := by simp [pickBare, he.uint64]
theorem pick_f64 : pickBare ts a it.f64 = .prim := by simp [pickBare, he.f64]
theorem pick_mapSI : pickBare ts a it.mapSI = .map it.str it.iface a.defaultSort := by simp [pickBare, he.mapSI, he.noMap]
theorem pick_sliceI : pickBare ts a it.sliceI = .slice it.iface := by simp [pickBare, he.sliceI, he.noSlice]

theorem mV_nil (f : Nat) : marshalV ts a trs (f+2) it.iface (.iface none) = ⟨[⟨.null, none⟩], none⟩ := by
  simp [marshalV, peel_iface he, pick_iface he, marshalBare, MOut.ok]

theorem mV_some (f d : Nat) (x : Val) :
    marshalV ts a trs (f+2) it.iface (.iface (some (d, x))) = marshalV ts a trs f d x := by
  simp [marshalV, peel_iface he, pick_iface he, marshalBare]

theorem mV_str (f : Nat) (x : Val) : marshalV ts a trs (f+2) it.str x = primTok ts it.str x := by
  simp [marshalV, peel_str he, pick_str he, marshalBare]
theorem mV_bytes (f : Nat) (x : Val) : marshalV ts a trs (f+2) it.bytes x = primTok ts it.bytes x := by
  simp [marshalV, peel_bytes he, pick_bytes he, marshalBare]
theorem mV_bool (f : Nat) (x : Val) : marshalV ts a trs (f+2) it.bool x = primTok ts it.bool x := by
  simp [marshalV, peel_bool he, pick_bool he, marshalBare]
theorem mV_int (f : Nat) (x : Val) : marshalV ts a trs (f+2) it.int x = primTok ts it.int x := by
  simp [marshalV, peel_int he, pick_int he, marshalBare]
theorem mV_uint64 (f : Nat) (x : Val) : marshalV ts a trs (f+2) it.uint64 x = primTok ts it.uint64 x := by
  simp [marshalV, peel_uint64 he, pick_uint64 he, marshalBare]
theorem mV_f64 (f : Nat) (x : Val) : marshalV ts a trs (f+2) it.f64 x = primTok ts it.f64 x := by
  simp [marshalV, peel_f64 he, pick_f64 he, marshalBare]

theorem mV_slice (f : Nat) (vs : List Val) :
    marshalV ts a trs (f+2) it.sliceI (.slice (some vs)) =
      (MOut.ok [⟨.arrOpen vs.length, none⟩]).seq fun _ =>
        (marshalList ts a trs f it.iface vs).seq fun _ => .ok [⟨.arrClose, none⟩] := by
  simp [marshalV, peel_sliceI he, pick_sliceI he, marshalBare]


theorem mV_map (f : Nat) (es : List (Val × Val)) (hk : ∀ p ∈ es, ∃ s, p.1 = .str s) :
    marshalV ts a trs (f+2) it.mapSI (.map (some es)) =
      (MOut.ok [⟨.mapOpen es.length, none⟩]).seq fun _ =>
        (marshalEntries ts a trs f it.iface (sortKeys a.defaultSort (es.map fun p => (keyOf p.1, p.2)))).seq
          fun _ => .ok [⟨.mapClose, none⟩] := by
  simp only [marshalV, peel_mapSI he, pick_mapSI he]
  simp only [beq_self_eq_true, if_true]
  unfold marshalBare
  simp only [he.str, Option.getD_some]
  rw [C08.mapM_eq_some_map _ (fun (p : Val × Val) => (keyOf p.1, p.2)) es ?_]
  · simp
  · intro p hp
    obtain ⟨s, hs⟩ := hk p hp
    obtain ⟨k, x⟩ := p
    simp only at hs
    subst hs
    rfl

end env

/-! ### Inversion of `isU` -/

inductive UV (it : IfaceTys) : Nat → Val → Prop
  | nil (f : Nat) : UV it (f+1) (.iface none)
  | str (f : Nat) (s : Bytes) : UV it (f+1) (.iface (some (it.str, .str s)))
  | bytes (f : Nat) (b : Bytes) : UV it (f+1) (.iface (some (it.bytes, .bytes (some b))))
  | bool (f : Nat) (b : Bool) : UV it (f+1) (.iface (some (it.bool, .bool b)))
  | int (f : Nat) (i : Int) (h1 : -(two63 : Int) ≤ i) (h2 : i < (two63 : Int)) : UV it (f+1) (.iface (some (it.int, .int i)))
  | uint (f : Nat) (n : Nat) (h1 : two63 ≤ n) (h2 : n < two64) : UV it (f+1) (.iface (some (it.uint64, .uint n)))
  | float (f : Nat) (b : Nat) (h : b < two64) : UV it (f+1) (.iface (some (it.f64, .float b)))
  | slice (f : Nat) (vs : List Val) (h : ∀ x ∈ vs, isU it f x = true) :
      UV it (f+1) (.iface (some (it.sliceI, .slice (some vs))))
  | map (f : Nat) (es : List (Val × Val)) (hk : ∀ p ∈ es, ∃ s, p.1 = .str s) (hv : ∀ p ∈ es, isU it f p.2 = true)
      (hd : (es.map fun p => keyOf p.1).Nodup) :
      UV it (f+1) (.iface (some (it.mapSI, .map (some es))))

theorem isU_UV {it : IfaceTys} {n : Nat} {u : Val} (h : isU it n u = true) : UV it n u := by
  unfold isU at h
  split at h
  · cases h
  · exact .nil _
  · split at h
    all_goals try simp only [Bool.and_eq_true, beq_iff_eq, decide_eq_true_eq, List.all_eq_true] at h
    · subst h; exact .str _ _
    · subst h; exact .bytes _ _
    · subst h; exact .bool _ _
    · obtain ⟨⟨rfl, h1⟩, h2⟩ := h; exact .int _ _ h1 h2
    · obtain ⟨⟨rfl, h1⟩, h2⟩ := h; exact .uint _ _ h1 h2
    · obtain ⟨rfl, h1⟩ := h; exact .float _ _ h1
    · obtain ⟨rfl, h1⟩ := h; exact .slice _ _ h1
    · obtain ⟨⟨rfl, h1⟩, h2⟩ := h
      refine .map _ _ ?_ ?_ ?_
      · intro p hp
        have := (h1 p hp).1
        obtain ⟨k, y⟩ := p
        cases k <;> simp at this
        exact ⟨_, rfl⟩
      · intro p hp; exact (h1 p hp).2
      · exact h2
    · cases h
  · cases h

theorem UV_isU {it : IfaceTys} {n : Nat} {u : Val} (h : UV it n u) : isU it n u = true := by
  cases h <;> simp_all [isU]
  rename_i f es hk hv hd
  intro k y hp
  obtain ⟨s, hs⟩ := hk _ _ hp
  subst hs
  exact ⟨rfl, hv _ _ hp⟩


section env
variable {ts : Types} {a : Atlas} {it : IfaceTys} (trs : Trs) (he : UEnv ts a it)
include he

/-- `marshalV` on the untyped slot with enough fuel: the flattening of `treeU` -/
def MTree (f : Nat) : Prop := ∀ u fuel, isU it f u = true → (treeU a.defaultSort f u).flatten.length + 3 * f ≤ fuel →
    marshalV ts a trs fuel it.iface u = ⟨(treeU a.defaultSort f u).flatten, none⟩

omit he in
theorem mList_tree (f : Nat) (ih : MTree (ts := ts) (a := a) (it := it) trs f) : ∀ (vs : List Val) (F : Nat),
    (∀ x ∈ vs, isU it f x = true) →
    (TV.flattenList (vs.map (treeU a.defaultSort f))).length + 1 + 3 * f ≤ F →
    marshalList ts a trs F it.iface vs = ⟨TV.flattenList (vs.map (treeU a.defaultSort f)), none⟩ := by
  intro vs
  induction vs with
  | nil =>
    intro F _ hF
    obtain ⟨F', rfl⟩ : ∃ F', F = F' + 1 := ⟨F - 1, by omega⟩
    simp [marshalList, TV.flattenList, MOut.ok]
  | cons x xs ihl =>
    intro F hU hF
    obtain ⟨F', rfl⟩ : ∃ F', F = F' + 1 := ⟨F - 1, by omega⟩
    simp only [List.map_cons, TV.flattenList, List.length_append] at hF ⊢
    have hp := flatten_pos (treeU a.defaultSort f x)
    rw [marshalList, ih x F' (hU x (by simp)) (by omega), ihl F' (fun y hy => hU y (by simp [hy])) (by omega)]
    simp [MOut.seq]

omit he in
theorem mEntries_tree (f : Nat) (ih : MTree (ts := ts) (a := a) (it := it) trs f) : ∀ (L : List (Bytes × Val)) (F : Nat),
    (∀ p ∈ L, isU it f p.2 = true) →
    (TV.flattenEntries (L.map fun p => (TV.scalar ⟨.str p.1, none⟩, treeU a.defaultSort f p.2))).length + 1 + 3 * f ≤ F →
    marshalEntries ts a trs F it.iface L =
      ⟨TV.flattenEntries (L.map fun p => (TV.scalar ⟨.str p.1, none⟩, treeU a.defaultSort f p.2)), none⟩ := by
  intro L
  induction L with
  | nil =>
    intro F _ hF
    obtain ⟨F', rfl⟩ : ∃ F', F = F' + 1 := ⟨F - 1, by omega⟩
    simp [marshalEntries, TV.flattenEntries, MOut.ok]
  | cons p xs ihl =>
    intro F hU hF
    obtain ⟨k, x⟩ := p
    obtain ⟨F', rfl⟩ : ∃ F', F = F' + 1 := ⟨F - 1, by omega⟩
    simp only [List.map_cons, TV.flattenEntries, TV.flatten, List.length_append, List.length_cons, List.length_nil] at hF ⊢
    have hp := flatten_pos (treeU a.defaultSort f x)
    rw [marshalEntries, ih x F' (hU (k, x) (by simp)) (by omega), ihl F' (fun y hy => hU y (by simp [hy])) (by omega)]
    simp [MOut.seq, MOut.ok]


theorem sortKeys_mem_isU (mode : KeySort) (f : Nat) (es : List (Val × Val)) (hv : ∀ p ∈ es, isU it f p.2 = true) :
    ∀ p ∈ sortKeys mode (es.map fun p => (keyOf p.1, p.2)), isU it f p.2 = true := by
  intro p hp
  have := (C08.sortKeys_perm mode _).mem_iff.mp hp
  simp only [List.mem_map] at this
  obtain ⟨q, hq, rfl⟩ := this
  exact hv q hq

theorem marshal_tree_all : ∀ f, MTree (ts := ts) (a := a) (it := it) trs f := by
  intro f
  induction f with
  | zero => intro u fuel hu; simp [isU] at hu
  | succ f ih =>
    intro u fuel hu hF
    have hUV := isU_UV hu
    cases hUV with
    | nil =>
      simp only [treeU, TV.flatten, List.length_cons, List.length_nil] at hF ⊢
      obtain ⟨F', rfl⟩ : ∃ F', fuel = F' + 2 := ⟨fuel - 2, by omega⟩
      exact mV_nil trs he F'
    | str _ s =>
      simp only [treeU, TV.flatten, List.length_cons, List.length_nil] at hF ⊢
      obtain ⟨F', rfl⟩ : ∃ F', fuel = F' + 4 := ⟨fuel - 4, by omega⟩
      rw [mV_some trs he, mV_str trs he]; rfl
    | bytes _ b =>
      simp only [treeU, TV.flatten, List.length_cons, List.length_nil] at hF ⊢
      obtain ⟨F', rfl⟩ : ∃ F', fuel = F' + 4 := ⟨fuel - 4, by omega⟩
      rw [mV_some trs he, mV_bytes trs he]; rfl
    | bool _ b =>
      simp only [treeU, TV.flatten, List.length_cons, List.length_nil] at hF ⊢
      obtain ⟨F', rfl⟩ : ∃ F', fuel = F' + 4 := ⟨fuel - 4, by omega⟩
      rw [mV_some trs he, mV_bool trs he]; rfl
    | int _ i h1 h2 =>
      simp only [treeU, TV.flatten, List.length_cons, List.length_nil] at hF ⊢
      obtain ⟨F', rfl⟩ : ∃ F', fuel = F' + 4 := ⟨fuel - 4, by omega⟩
      rw [mV_some trs he, mV_int trs he]; rfl
    | uint _ n h1 h2 =>
      simp only [treeU, TV.flatten, List.length_cons, List.length_nil] at hF ⊢
      obtain ⟨F', rfl⟩ : ∃ F', fuel = F' + 4 := ⟨fuel - 4, by omega⟩
      rw [mV_some trs he, mV_uint64 trs he]; rfl
    | float _ b h =>
      simp only [treeU, TV.flatten, List.length_cons, List.length_nil] at hF ⊢
      obtain ⟨F', rfl⟩ : ∃ F', fuel = F' + 4 := ⟨fuel - 4, by omega⟩
      rw [mV_some trs he, mV_f64 trs he]; rfl
    | slice _ vs h =>
      simp only [treeU, TV.flatten, List.length_cons, List.length_append, List.length_nil] at hF ⊢
      obtain ⟨F', rfl⟩ : ∃ F', fuel = F' + 4 := ⟨fuel - 4, by omega⟩
      rw [mV_some trs he, mV_slice trs he, mList_tree trs f ih vs F' h (by omega)]
      simp [MOut.seq, MOut.ok]
    | map _ es hk hv hd =>
      simp only [treeU, TV.flatten, List.length_cons, List.length_append, List.length_nil] at hF ⊢
      obtain ⟨F', rfl⟩ : ∃ F', fuel = F' + 4 := ⟨fuel - 4, by omega⟩
      rw [mV_some trs he, mV_map trs he _ es hk,
        mEntries_tree trs f ih _ F' (sortKeys_mem_isU he a.defaultSort f es hv) (by omega)]
      simp [MOut.seq, MOut.ok]

/-- L1: with enough fuel the marshaller emits the flattening of `treeU` -/
theorem marshal_tree (n : Nat) (u : Val) (fuel : Nat) (hu : isU it n u = true)
    (hF : (treeU a.defaultSort n u).flatten.length + 3 * n ≤ fuel) :
    marshalV ts a trs fuel it.iface u = ⟨(treeU a.defaultSort n u).flatten, none⟩ :=
  marshal_tree_all trs he n u fuel hu hF

/-- whenever the marshaller succeeds, the tokens are the flattening of `treeU` -/
theorem marshal_ok_tree (n : Nat) (u : Val) (fuel : Nat) (toks : List Tok) (hu : isU it n u = true)
    (hm : marshalV ts a trs fuel it.iface u = ⟨toks, none⟩) : toks = (treeU a.defaultSort n u).flatten := by
  have h1 := C07.marshal_fuel_mono_le ts a trs fuel (max fuel ((treeU a.defaultSort n u).flatten.length + 3 * n)) it.iface u _ hm
    (by simp) (Nat.le_max_left _ _)
  rw [marshal_tree trs he n u _ hu (Nat.le_max_right _ _)] at h1
  simpa using h1.symm

end env

/-- `sortU` written with projections -/
theorem sortU_slice (mode : KeySort) (f d : Nat) (vs : List Val) :
    sortU mode (f+1) (.iface (some (d, .slice (some vs)))) = .iface (some (d, .slice (some (vs.map (sortU mode f))))) := rfl

theorem sortU_map (mode : KeySort) (f d : Nat) (es : List (Val × Val)) :
    sortU mode (f+1) (.iface (some (d, .map (some es)))) =
      .iface (some (d, .map (some ((sortKeys mode (es.map fun p => (keyOf p.1, sortU mode f p.2))).map fun p => (Val.str p.1, p.2))))) := rfl

section env
variable {ts : Types} {a : Atlas} {it : IfaceTys} (trs : Trs) (he : UEnv ts a it)
include he

omit he in
theorem mList_congr (g : Val → Val) (e : Nat) : ∀ (vs : List Val),
    (∀ x ∈ vs, ∀ F, marshalV ts a trs F e (g x) = marshalV ts a trs F e x) →
    ∀ F, marshalList ts a trs F e (vs.map g) = marshalList ts a trs F e vs := by
  intro vs
  induction vs with
  | nil => intro _ F; rfl
  | cons x xs ih =>
    intro h F
    cases F with
    | zero => simp [marshalList]
    | succ F =>
      simp only [List.map_cons, marshalList]
      rw [h x (by simp) F, ih (fun y hy => h y (by simp [hy])) F]

omit he in
theorem mEntries_congr (g : Val → Val) (e : Nat) : ∀ (L : List (Bytes × Val)),
    (∀ p ∈ L, ∀ F, marshalV ts a trs F e (g p.2) = marshalV ts a trs F e p.2) →
    ∀ F, marshalEntries ts a trs F e (L.map fun p => (p.1, g p.2)) = marshalEntries ts a trs F e L := by
  intro L
  induction L with
  | nil => intro _ F; rfl
  | cons x xs ih =>
    intro h F
    obtain ⟨k, x⟩ := x
    cases F with
    | zero => simp [marshalEntries]
    | succ F =>
      simp only [List.map_cons, marshalEntries]
      rw [h (k, x) (by simp) F, ih (fun y hy => h y (by simp [hy])) F]

theorem marshal_sortU_all : ∀ (n : Nat) (u : Val), isU it n u = true → ∀ fuel,
    marshalV ts a trs fuel it.iface (sortU a.defaultSort n u) = marshalV ts a trs fuel it.iface u := by
  intro n
  induction n with
  | zero => intro u hu; simp [isU] at hu
  | succ f ih =>
    intro u hu fuel
    have hUV := isU_UV hu
    cases hUV with
    | slice _ vs h =>
      rw [sortU_slice]
      match fuel with
      | 0 => simp [marshalV]
      | 1 => simp [marshalV, marshalBare, peel_iface he]
      | 2 => simp [marshalV, marshalBare, peel_iface he, pick_iface he]
      | 3 => simp [marshalV, marshalBare, peel_iface he, pick_iface he, peel_sliceI he, peel_mapSI he]
      | F+4 =>
        rw [mV_some trs he, mV_some trs he, mV_slice trs he, mV_slice trs he,
          mList_congr trs (sortU a.defaultSort f) it.iface vs (fun x hx F => ih x (h x hx) F)]
        simp
    | map _ es hk hv hd =>
      rw [sortU_map]
      match fuel with
      | 0 => simp [marshalV]
      | 1 => simp [marshalV, marshalBare, peel_iface he]
      | 2 => simp [marshalV, marshalBare, peel_iface he, pick_iface he]
      | 3 => simp [marshalV, marshalBare, peel_iface he, pick_iface he, peel_sliceI he, peel_mapSI he]
      | F+4 =>
        rw [mV_some trs he, mV_some trs he, mV_map trs he _ es hk, mV_map trs he _ _ (by
          intro p hp
          simp only [List.mem_map] at hp
          obtain ⟨q, _, rfl⟩ := hp
          exact ⟨_, rfl⟩)]
        have e1 : (es.map fun p => (keyOf p.1, sortU a.defaultSort f p.2)) =
            (es.map fun p => (keyOf p.1, p.2)).map fun p => (p.1, sortU a.defaultSort f p.2) := by
          simp [List.map_map]
        simp only [List.map_map, List.length_map, ObjL.sortKeys_length]
        have e2 : ((fun (p : Val × Val) => (keyOf p.1, p.2)) ∘ fun (p : Bytes × Val) => (Val.str p.1, p.2)) = id := by
          funext p; rfl
        rw [e2, List.map_id, sortKeys_idem, e1, sortKeys_mapVal,
          mEntries_congr trs (sortU a.defaultSort f) it.iface _ (fun p hp F =>
            ih p.2 (sortKeys_mem_isU he a.defaultSort f es hv p hp) F)]
    | _ => rfl

end env

/-! ### Unfolding the unmarshaller on the untyped universe -/

section env
variable {ts : Types} {a : Atlas} {it : IfaceTys} (trs : Trs) (he : UEnv ts a it)
include he

theorem upick_iface : upickBare ts a it.iface = .wildcard := by simp [upickBare, he.iface, he.noIface]

theorem uV_iface (f : Nat) (cur : Val) (t : Tok) (rest : List Tok) :
    unmV ts a trs it (f+2) it.iface cur (t :: rest) = unmWild ts a trs it f false t rest := by
  simp [unmV, peel_iface he, upick_iface he, unmBare, he.iface]

theorem uV_iface_nil (f : Nat) (cur : Val) : unmV ts a trs it (f+1) it.iface cur [] = .more 0 := by
  simp [unmV]

omit he in
theorem uW_null (f : Nat) (rest : List Tok) :
    unmWild ts a trs it (f+1) false ⟨.null, none⟩ rest = .ok (.iface none) rest 1 := by simp [unmWild]
omit he in
theorem uW_str (f : Nat) (s : Bytes) (rest : List Tok) :
    unmWild ts a trs it (f+1) false ⟨.str s, none⟩ rest = .ok (.iface (some (it.str, .str s))) rest 1 := by simp [unmWild]
omit he in
theorem uW_bytes (f : Nat) (s : Bytes) (rest : List Tok) :
    unmWild ts a trs it (f+1) false ⟨.bytes s, none⟩ rest = .ok (.iface (some (it.bytes, .bytes (some s)))) rest 1 := by simp [unmWild]
omit he in
theorem uW_bool (f : Nat) (s : Bool) (rest : List Tok) :
    unmWild ts a trs it (f+1) false ⟨.bool s, none⟩ rest = .ok (.iface (some (it.bool, .bool s))) rest 1 := by simp [unmWild]
omit he in
theorem uW_int (f : Nat) (s : Int) (rest : List Tok) :
    unmWild ts a trs it (f+1) false ⟨.int s, none⟩ rest = .ok (.iface (some (it.int, .int s))) rest 1 := by simp [unmWild]
omit he in
theorem uW_uint (f : Nat) (s : Nat) (rest : List Tok) :
    unmWild ts a trs it (f+1) false ⟨.uint s, none⟩ rest =
      if s < two63 then .ok (.iface (some (it.int, .int s))) rest 1 else .ok (.iface (some (it.uint64, .uint s))) rest 1 := by
  simp [unmWild]
omit he in
theorem uW_float (f : Nat) (s : Nat) (rest : List Tok) :
    unmWild ts a trs it (f+1) false ⟨.float s, none⟩ rest = .ok (.iface (some (it.f64, .float s))) rest 1 := by simp [unmWild]

omit he in
theorem uW_arr (f : Nat) (l : Int) (rest : List Tok) :
    unmWild ts a trs it (f+2) false ⟨.arrOpen l, none⟩ rest =
      ((unmElems ts a trs it f it.iface none [] rest).shift 1).bind
        (fun v r u => .ok (.iface (some (it.sliceI, v))) r u) := by
  simp only [unmWild, unmBare, Bool.false_and, Bool.false_eq_true, if_false]
  generalize URes.shift 1 _ = r
  cases r <;> rfl

theorem uW_map (f : Nat) (l : Int) (rest : List Tok) :
    unmWild ts a trs it (f+2) false ⟨.mapOpen l, none⟩ rest =
      ((unmMapEntries ts a trs it f none it.iface [] rest).shift 1).bind
        (fun v r u => .ok (.iface (some (it.mapSI, v))) r u) := by
  simp only [unmWild, unmBare, Bool.false_and, Bool.false_eq_true, if_false, he.str]
  generalize URes.shift 1 _ = r
  cases r <;> rfl

omit he in
theorem uE_close (F e : Nat) (acc : List Val) (tg : Option Int) (rest : List Tok) :
    unmElems ts a trs it (F+1) e none acc (⟨.arrClose, tg⟩ :: rest) = .ok (.slice (some acc.reverse)) rest 1 := by
  simp [unmElems]

omit he in
theorem uE_step (F e : Nat) (acc : List Val) (toks : List Tok)
    (h : ∃ t rest, toks = t :: rest ∧ t.body ≠ .mapClose ∧ t.body ≠ .arrClose) :
    unmElems ts a trs it (F+1) e none acc toks =
      (unmV ts a trs it F e (zeroVal ts 64 e) toks).bind
        (fun v r u => (unmElems ts a trs it F e none (v :: acc) r).shift u) := by
  obtain ⟨t, rest, rfl, h1, h2⟩ := h
  obtain ⟨b, tg⟩ := t
  cases b <;> simp at h1 h2 <;> simp only [unmElems, Bool.false_eq_true, if_false] <;>
    (generalize unmV ts a trs it F e _ _ = r; cases r <;> rfl)

omit he in
theorem uM_close (F vt : Nat) (es : List (Val × Val)) (tg : Option Int) (rest : List Tok) :
    unmMapEntries ts a trs it (F+1) none vt es (⟨.mapClose, tg⟩ :: rest) = .ok (.map (some es)) rest 1 := by
  simp [unmMapEntries]

omit he in
theorem uM_str (F vt : Nat) (es : List (Val × Val)) (s : Bytes) (tg : Option Int) (rest : List Tok) :
    unmMapEntries ts a trs it (F+1) none vt es (⟨.str s, tg⟩ :: rest) =
      if hasKey (.str s) es then .err 0
      else ((unmV ts a trs it F vt (zeroVal ts 64 vt) rest).shift 1).bind
            (fun v r u => (unmMapEntries ts a trs it F none vt (es ++ [(.str s, v)]) r).shift u) := by
  simp only [unmMapEntries]
  split
  · rfl
  · generalize unmV ts a trs it F vt _ _ = r; cases r <;> rfl

end env

/-! ### Unmarshalling the flattening of `treeU` -/

theorem treeU_head (mode : KeySort) (f : Nat) (u : Val) :
    ∃ t rest, (treeU mode f u).flatten = t :: rest ∧ t.body ≠ .mapClose ∧ t.body ≠ .arrClose := by
  unfold treeU
  split
  · exact ⟨_, _, rfl, by simp, by simp⟩
  · split <;> exact ⟨_, _, rfl, by simp, by simp⟩
  · exact ⟨_, _, rfl, by simp, by simp⟩

theorem head_append {toks : List Tok} (more : List Tok)
    (h : ∃ t rest, toks = t :: rest ∧ t.body ≠ .mapClose ∧ t.body ≠ .arrClose) :
    ∃ t rest, toks ++ more = t :: rest ∧ t.body ≠ .mapClose ∧ t.body ≠ .arrClose := by
  obtain ⟨t, rest, rfl, h1, h2⟩ := h
  exact ⟨t, rest ++ more, rfl, h1, h2⟩

theorem hasKey_str (k : Bytes) (accL : List (Bytes × Val)) :
    hasKey (.str k) (accL.map fun p => (Val.str p.1, p.2)) = accL.any (fun p => p.1 == k) := by
  simp [hasKey, List.any_map, beqVal]
  rfl

section env
variable {ts : Types} {a : Atlas} {it : IfaceTys} (trs : Trs) (he : UEnv ts a it)
include he

def UTree (f : Nat) : Prop := ∀ u fuel cur more, isU it f u = true →
    (treeU a.defaultSort f u).flatten.length + 3 * f ≤ fuel →
    unmV ts a trs it fuel it.iface cur ((treeU a.defaultSort f u).flatten ++ more) =
      .ok (sortU a.defaultSort f u) more (treeU a.defaultSort f u).flatten.length

omit he in
theorem uElems_tree (f : Nat) (ih : UTree (ts := ts) (a := a) (it := it) trs f) :
    ∀ (vs : List Val) (F : Nat) (acc : List Val) (more : List Tok),
    (∀ x ∈ vs, isU it f x = true) →
    (TV.flattenList (vs.map (treeU a.defaultSort f))).length + 1 + 3 * f ≤ F →
    unmElems ts a trs it F it.iface none acc
        (TV.flattenList (vs.map (treeU a.defaultSort f)) ++ ⟨.arrClose, none⟩ :: more) =
      .ok (.slice (some (acc.reverse ++ vs.map (sortU a.defaultSort f)))) more
        ((TV.flattenList (vs.map (treeU a.defaultSort f))).length + 1) := by
  intro vs
  induction vs with
  | nil =>
    intro F acc more _ hF
    obtain ⟨F', rfl⟩ : ∃ F', F = F' + 1 := ⟨F - 1, by omega⟩
    simp [TV.flattenList, uE_close]
  | cons x xs ihl =>
    intro F acc more hU hF
    obtain ⟨F', rfl⟩ : ∃ F', F = F' + 1 := ⟨F - 1, by omega⟩
    simp only [List.map_cons, TV.flattenList, List.length_append, List.append_assoc] at hF ⊢
    have hp := flatten_pos (treeU a.defaultSort f x)
    rw [uE_step trs F' _ acc _ (head_append _ (treeU_head a.defaultSort f x)),
      ih x F' _ _ (hU x (by simp)) (by omega)]
    simp only [URes.bind_ok]
    rw [ihl F' _ _ (fun y hy => hU y (by simp [hy])) (by omega)]
    simp
    omega

omit he in
theorem uEntries_tree (f : Nat) (ih : UTree (ts := ts) (a := a) (it := it) trs f) :
    ∀ (L : List (Bytes × Val)) (F : Nat) (accL : List (Bytes × Val)) (more : List Tok),
    (∀ p ∈ L, isU it f p.2 = true) → ((accL ++ L).map (·.1)).Nodup →
    (TV.flattenEntries (L.map fun p => (TV.scalar ⟨.str p.1, none⟩, treeU a.defaultSort f p.2))).length + 1 + 3 * f ≤ F →
    unmMapEntries ts a trs it F none it.iface (accL.map fun p => (Val.str p.1, p.2))
        (TV.flattenEntries (L.map fun p => (TV.scalar ⟨.str p.1, none⟩, treeU a.defaultSort f p.2)) ++ ⟨.mapClose, none⟩ :: more) =
      .ok (.map (some ((accL ++ L.map fun p => (p.1, sortU a.defaultSort f p.2)).map fun p => (Val.str p.1, p.2)))) more
        ((TV.flattenEntries (L.map fun p => (TV.scalar ⟨.str p.1, none⟩, treeU a.defaultSort f p.2))).length + 1) := by
  intro L
  induction L with
  | nil =>
    intro F accL more _ _ hF
    obtain ⟨F', rfl⟩ : ∃ F', F = F' + 1 := ⟨F - 1, by omega⟩
    simp [TV.flattenEntries, uM_close]
  | cons p xs ihl =>
    intro F accL more hU hnd hF
    obtain ⟨k, x⟩ := p
    obtain ⟨F', rfl⟩ : ∃ F', F = F' + 1 := ⟨F - 1, by omega⟩
    simp only [List.map_cons, TV.flattenEntries, TV.flatten, List.length_append, List.length_cons, List.length_nil,
      List.append_assoc, List.cons_append, List.nil_append] at hF ⊢
    have hp := flatten_pos (treeU a.defaultSort f x)
    have hk : hasKey (.str k) (accL.map fun p => (Val.str p.1, p.2)) = false := by
      rw [hasKey_str]
      simp only [List.map_append, List.map_cons, List.nodup_append, List.mem_cons, List.nodup_cons] at hnd
      simp only [List.any_eq_false, beq_iff_eq]
      intro q hq hqk
      exact hnd.2.2 q.1 (List.mem_map_of_mem hq) k (Or.inl rfl) hqk
    rw [uM_str, hk]
    simp only [Bool.false_eq_true, if_false]
    rw [ih x F' _ _ (hU (k, x) (by simp)) (by omega)]
    simp only [URes.shift_ok, URes.bind_ok]
    have e : (accL.map fun p => (Val.str p.1, p.2)) ++ [(Val.str k, sortU a.defaultSort f x)] =
        (accL ++ [(k, sortU a.defaultSort f x)]).map fun p => (Val.str p.1, p.2) := by simp
    rw [e, ihl F' _ _ (fun y hy => hU y (by simp [hy])) (by simpa [List.append_assoc] using hnd) (by omega)]
    simp [List.append_assoc]
    omega


theorem sortKeys_nodup (mode : KeySort) (es : List (Val × Val)) (hd : (es.map fun p => keyOf p.1).Nodup) :
    ((sortKeys mode (es.map fun p => (keyOf p.1, p.2))).map (·.1)).Nodup := by
  have hp := (C08.sortKeys_perm mode (es.map fun p => (keyOf p.1, p.2))).map (·.1)
  rw [hp.nodup_iff]
  rw [List.map_map]
  exact hd

theorem unm_tree_all : ∀ f, UTree (ts := ts) (a := a) (it := it) trs f := by
  intro f
  induction f with
  | zero => intro u fuel cur more hu; simp [isU] at hu
  | succ f ih =>
    intro u fuel cur more hu hF
    have hUV := isU_UV hu
    cases hUV with
    | nil =>
      simp only [treeU, TV.flatten, List.length_cons, List.length_nil] at hF ⊢
      obtain ⟨F', rfl⟩ : ∃ F', fuel = F' + 3 := ⟨fuel - 3, by omega⟩
      simp only [List.cons_append, List.nil_append]
      rw [uV_iface trs he, uW_null]; rfl
    | str _ s =>
      simp only [treeU, TV.flatten, List.length_cons, List.length_nil] at hF ⊢
      obtain ⟨F', rfl⟩ : ∃ F', fuel = F' + 3 := ⟨fuel - 3, by omega⟩
      simp only [List.cons_append, List.nil_append]
      rw [uV_iface trs he, uW_str]; rfl
    | bytes _ b =>
      simp only [treeU, TV.flatten, List.length_cons, List.length_nil] at hF ⊢
      obtain ⟨F', rfl⟩ : ∃ F', fuel = F' + 3 := ⟨fuel - 3, by omega⟩
      simp only [List.cons_append, List.nil_append]
      rw [uV_iface trs he, uW_bytes]; rfl
    | bool _ b =>
      simp only [treeU, TV.flatten, List.length_cons, List.length_nil] at hF ⊢
      obtain ⟨F', rfl⟩ : ∃ F', fuel = F' + 3 := ⟨fuel - 3, by omega⟩
      simp only [List.cons_append, List.nil_append]
      rw [uV_iface trs he, uW_bool]; rfl
    | int _ i h1 h2 =>
      simp only [treeU, TV.flatten, List.length_cons, List.length_nil] at hF ⊢
      obtain ⟨F', rfl⟩ : ∃ F', fuel = F' + 3 := ⟨fuel - 3, by omega⟩
      simp only [List.cons_append, List.nil_append]
      rw [uV_iface trs he, uW_int]; rfl
    | uint _ n h1 h2 =>
      simp only [treeU, TV.flatten, List.length_cons, List.length_nil] at hF ⊢
      obtain ⟨F', rfl⟩ : ∃ F', fuel = F' + 3 := ⟨fuel - 3, by omega⟩
      simp only [List.cons_append, List.nil_append]
      rw [uV_iface trs he, uW_uint, if_neg (by omega)]; rfl
    | float _ b h =>
      simp only [treeU, TV.flatten, List.length_cons, List.length_nil] at hF ⊢
      obtain ⟨F', rfl⟩ : ∃ F', fuel = F' + 3 := ⟨fuel - 3, by omega⟩
      simp only [List.cons_append, List.nil_append]
      rw [uV_iface trs he, uW_float]; rfl
    | slice _ vs h =>
      rw [sortU_slice]
      simp only [treeU, TV.flatten, List.length_cons, List.length_append, List.length_nil] at hF ⊢
      obtain ⟨F', rfl⟩ : ∃ F', fuel = F' + 4 := ⟨fuel - 4, by omega⟩
      simp only [List.cons_append, List.append_assoc, List.nil_append]
      rw [uV_iface trs he, uW_arr, uElems_tree trs f ih vs F' [] more h (by omega)]
      simp
    | map _ es hk hv hd =>
      rw [sortU_map]
      simp only [treeU, TV.flatten, List.length_cons, List.length_append, List.length_nil] at hF ⊢
      obtain ⟨F', rfl⟩ : ∃ F', fuel = F' + 4 := ⟨fuel - 4, by omega⟩
      simp only [List.cons_append, List.append_assoc, List.nil_append]
      have := uEntries_tree trs f ih (sortKeys a.defaultSort (es.map fun p => (keyOf p.1, p.2))) F' [] more
        (sortKeys_mem_isU he a.defaultSort f es hv) (by simpa using sortKeys_nodup he a.defaultSort es hd) (by omega)
      simp only [List.map_nil, List.nil_append] at this
      rw [uV_iface trs he, uW_map trs he, this]
      have e1 : (es.map fun p => (keyOf p.1, sortU a.defaultSort f p.2)) =
          (es.map fun p => (keyOf p.1, p.2)).map fun p => (p.1, sortU a.defaultSort f p.2) := by
        simp [List.map_map]
      rw [e1, sortKeys_mapVal]
      simp

/-- L2: the untyped unmarshaller on the flattening of `treeU` (whatever follows it) -/
theorem unm_tree (n : Nat) (u : Val) (fuel : Nat) (cur : Val) (more : List Tok) (hu : isU it n u = true)
    (hF : (treeU a.defaultSort n u).flatten.length + 3 * n ≤ fuel) :
    unmV ts a trs it fuel it.iface cur ((treeU a.defaultSort n u).flatten ++ more) =
      .ok (sortU a.defaultSort n u) more (treeU a.defaultSort n u).flatten.length :=
  unm_tree_all trs he n u fuel cur more hu hF

end env

/-! ### `isU` is monotone in its fuel -/

theorem isU_mono_succ (it : IfaceTys) : ∀ (f : Nat) (v : Val), isU it f v = true → isU it (f+1) v = true := by
  intro f
  induction f with
  | zero => intro v h; simp [isU] at h
  | succ f ih =>
    intro v hh
    have hUV := isU_UV hh
    apply UV_isU
    cases hUV with
    | nil => exact .nil _
    | str _ s => exact .str _ _
    | bytes _ b => exact .bytes _ _
    | bool _ b => exact .bool _ _
    | int _ i h1 h2 => exact .int _ _ h1 h2
    | uint _ n h1 h2 => exact .uint _ _ h1 h2
    | float _ b h => exact .float _ _ h
    | slice _ vs h => exact .slice _ _ (fun x hx => ih x (h x hx))
    | map _ es hk hv hd => exact .map _ _ hk (fun p hp => ih p.2 (hv p hp)) hd

theorem isU_mono (it : IfaceTys) {f g : Nat} (h : f ≤ g) (v : Val) (hv : isU it f v = true) : isU it g v = true := by
  induction h with
  | refl => exact hv
  | step _ ih => exact isU_mono_succ it _ v ih

/-! ### small-fuel and end-of-input cases of the unmarshaller -/

section env
variable {ts : Types} {a : Atlas} {it : IfaceTys} (trs : Trs) (he : UEnv ts a it)
include he

omit he in
theorem uV_zero (id : Nat) (cur : Val) (toks : List Tok) : unmV ts a trs it 0 id cur toks = .panic 0 := by simp [unmV]
omit he in
theorem uV_nil (F id : Nat) (cur : Val) : unmV ts a trs it (F+1) id cur [] = .more 0 := by simp [unmV]
theorem uV_one (cur : Val) (t : Tok) (rest : List Tok) : unmV ts a trs it 1 it.iface cur (t :: rest) = .panic 0 := by
  simp [unmV, peel_iface he, unmBare]
omit he in
theorem uW_zero (m : Bool) (t : Tok) (rest : List Tok) : unmWild ts a trs it 0 m t rest = .panic 0 := by simp [unmWild]
omit he in
theorem uW_arr1 (l : Int) (rest : List Tok) : unmWild ts a trs it 1 false ⟨.arrOpen l, none⟩ rest = .panic 0 := by
  simp [unmWild, unmBare]
omit he in
theorem uW_map1 (l : Int) (rest : List Tok) : unmWild ts a trs it 1 false ⟨.mapOpen l, none⟩ rest = .panic 0 := by
  simp [unmWild, unmBare]
omit he in
theorem uW_arrClose (f : Nat) (rest : List Tok) : unmWild ts a trs it (f+1) false ⟨.arrClose, none⟩ rest = .err 0 := by
  simp [unmWild]
omit he in
theorem uW_mapClose (f : Nat) (rest : List Tok) : unmWild ts a trs it (f+1) false ⟨.mapClose, none⟩ rest = .err 0 := by
  simp [unmWild]
omit he in
theorem uE_zero (e : Nat) (c : Option Nat) (acc : List Val) (toks : List Tok) :
    unmElems ts a trs it 0 e c acc toks = .panic 0 := by simp [unmElems]
omit he in
theorem uE_nil (F e : Nat) (acc : List Val) : unmElems ts a trs it (F+1) e none acc [] = .more 0 := by
  simp [unmElems]
omit he in
theorem uE_mapClose (F e : Nat) (acc : List Val) (tg : Option Int) (rest : List Tok) :
    unmElems ts a trs it (F+1) e none acc (⟨.mapClose, tg⟩ :: rest) = .err 0 := by simp [unmElems]
omit he in
theorem uM_zero (kf : Option Nat) (vt : Nat) (es : List (Val × Val)) (toks : List Tok) :
    unmMapEntries ts a trs it 0 kf vt es toks = .panic 0 := by simp [unmMapEntries]
omit he in
theorem uM_nil (F : Nat) (kf : Option Nat) (vt : Nat) (es : List (Val × Val)) :
    unmMapEntries ts a trs it (F+1) kf vt es [] = .more 0 := by simp [unmMapEntries]
omit he in
theorem uM_other (F : Nat) (kf : Option Nat) (vt : Nat) (es : List (Val × Val)) (t : Tok) (rest : List Tok)
    (h1 : t.body ≠ .mapClose) (h2 : ∀ s, t.body ≠ .str s) :
    unmMapEntries ts a trs it (F+1) kf vt es (t :: rest) = .err 0 := by
  obtain ⟨b, tg⟩ := t
  cases b <;> simp at h1 h2 <;> simp [unmMapEntries]

end env

/-- the entries committed so far: string keys, pairwise distinct, native values -/
def MInv (it : IfaceTys) (G : Nat) (es : List (Val × Val)) : Prop :=
  (∀ p ∈ es, ∃ s, p.1 = .str s) ∧ (∀ p ∈ es, isU it G p.2 = true) ∧ (es.map fun p => keyOf p.1).Nodup

theorem hasKey_false {s : Bytes} {es : List (Val × Val)} (hk : ∀ p ∈ es, ∃ s, p.1 = .str s)
    (h : hasKey (.str s) es = false) : s ∉ es.map fun p => keyOf p.1 := by
  intro hm
  simp only [List.mem_map] at hm
  obtain ⟨p, hp, hps⟩ := hm
  obtain ⟨s', hs'⟩ := hk p hp
  simp only [hasKey, List.any_eq_false] at h
  have := h p hp
  obtain ⟨k, y⟩ := p
  simp only at hs'
  subst hs'
  simp only [keyOf] at hps
  subst hps
  simp [beqVal] at this

section env
variable {ts : Types} {a : Atlas} {it : IfaceTys} (trs : Trs) (he : UEnv ts a it)
include he

def PVy (F : Nat) : Prop := ∀ cur toks v rest used, toks.all tokPlain = true →
  unmV ts a trs it F it.iface cur toks = .ok v rest used → isU it F v = true ∧ rest.all tokPlain = true
def PEy (F : Nat) : Prop := ∀ G, F ≤ G → ∀ acc toks v rest used, toks.all tokPlain = true →
  (∀ x ∈ acc, isU it G x = true) → unmElems ts a trs it F it.iface none acc toks = .ok v rest used →
  (∃ vs, v = .slice (some vs) ∧ ∀ x ∈ vs, isU it G x = true) ∧ rest.all tokPlain = true
def PMy (F : Nat) : Prop := ∀ G, F ≤ G → ∀ es toks v rest used, toks.all tokPlain = true →
  MInv it G es → unmMapEntries ts a trs it F none it.iface es toks = .ok v rest used →
  (∃ es', v = .map (some es') ∧ MInv it G es') ∧ rest.all tokPlain = true

omit he in
theorem pey_step (F : Nat) (hv : PVy (ts := ts) (a := a) (it := it) trs F) (hE : PEy (ts := ts) (a := a) (it := it) trs F) :
    PEy (ts := ts) (a := a) (it := it) trs (F+1) := by
  intro G hG acc toks v rest used hp hacc h
  cases toks with
  | nil => simp [uE_nil] at h
  | cons t tl =>
    simp only [List.all_cons, Bool.and_eq_true] at hp
    by_cases h1 : t.body = .arrClose
    · obtain ⟨b, tg⟩ := t
      simp only at h1; subst h1
      rw [uE_close] at h
      simp only [URes.ok.injEq] at h
      obtain ⟨rfl, rfl, rfl⟩ := h
      exact ⟨⟨_, rfl, fun x hx => hacc x (by simpa using hx)⟩, hp.2⟩
    · by_cases h2 : t.body = .mapClose
      · obtain ⟨b, tg⟩ := t
        simp only at h2; subst h2
        simp [uE_mapClose] at h
      · rw [uE_step trs F _ acc _ ⟨t, tl, rfl, h2, h1⟩] at h
        obtain ⟨v1, r1, u1, hr, h⟩ := bind_eq_ok h
        obtain ⟨u2, h, _⟩ := shift_eq_ok h
        obtain ⟨hv1, hr1⟩ := hv _ _ _ _ _ (by simp [hp.1, hp.2]) hr
        exact hE G (by omega) (v1 :: acc) r1 v rest u2 hr1
          (by intro x hx
              simp only [List.mem_cons] at hx
              rcases hx with rfl | hx
              · exact isU_mono it (by omega) _ hv1
              · exact hacc x hx) h

omit he in
theorem pmy_step (F : Nat) (hv : PVy (ts := ts) (a := a) (it := it) trs F) (hM : PMy (ts := ts) (a := a) (it := it) trs F) :
    PMy (ts := ts) (a := a) (it := it) trs (F+1) := by
  intro G hG es toks v rest used hp hinv h
  cases toks with
  | nil => simp [uM_nil] at h
  | cons t tl =>
    simp only [List.all_cons, Bool.and_eq_true] at hp
    by_cases h1 : t.body = .mapClose
    · obtain ⟨b, tg⟩ := t
      simp only at h1; subst h1
      rw [uM_close] at h
      simp only [URes.ok.injEq] at h
      obtain ⟨rfl, rfl, rfl⟩ := h
      exact ⟨⟨_, rfl, hinv⟩, hp.2⟩
    · by_cases h2 : ∃ s, t.body = .str s
      · obtain ⟨s, h2⟩ := h2
        obtain ⟨b, tg⟩ := t
        simp only at h2; subst h2
        rw [uM_str] at h
        split at h
        · simp at h
        · rename_i hk
          obtain ⟨v1, r1, u1, hr, h⟩ := bind_eq_ok h
          obtain ⟨u0, hr, _⟩ := shift_eq_ok hr
          obtain ⟨u2, h, _⟩ := shift_eq_ok h
          obtain ⟨hv1, hr1⟩ := hv _ _ _ _ _ hp.2 hr
          refine hM G (by omega) _ r1 v rest u2 hr1 ?_ h
          obtain ⟨i1, i2, i3⟩ := hinv
          refine ⟨?_, ?_, ?_⟩
          · intro p hp'
            simp only [List.mem_append, List.mem_singleton] at hp'
            rcases hp' with hp' | rfl
            · exact i1 p hp'
            · exact ⟨_, rfl⟩
          · intro p hp'
            simp only [List.mem_append, List.mem_singleton] at hp'
            rcases hp' with hp' | rfl
            · exact i2 p hp'
            · exact isU_mono it (by omega) _ hv1
          · have hnk := hasKey_false i1 (by simpa using hk)
            rw [List.map_append, List.nodup_append]
            refine ⟨i3, by simp, ?_⟩
            intro x hx y hy
            simp only [List.map_cons, List.map_nil, List.mem_singleton, keyOf] at hy
            subst hy
            intro hxy
            subst hxy
            exact hnk hx
      · rw [uM_other trs F none _ es t tl h1 (fun s hs => h2 ⟨s, hs⟩)] at h
        simp at h


theorem pvy_of (F : Nat) (hE : ∀ F', F' + 4 ≤ F → PEy (ts := ts) (a := a) (it := it) trs F')
    (hM : ∀ F', F' + 4 ≤ F → PMy (ts := ts) (a := a) (it := it) trs F') :
    PVy (ts := ts) (a := a) (it := it) trs F := by
  intro cur toks v rest used hp h
  cases toks with
  | nil =>
    cases F with
    | zero => simp [uV_zero] at h
    | succ F => simp [uV_nil] at h
  | cons t tl =>
    simp only [List.all_cons, Bool.and_eq_true] at hp
    obtain ⟨hpt, hptl⟩ := hp
    match F, hE, hM with
    | 0, _, _ => simp [uV_zero] at h
    | 1, _, _ => simp [uV_one trs he] at h
    | 2, _, _ => simp [uV_iface trs he, uW_zero] at h
    | F+3, hE, hM =>
      rw [uV_iface trs he] at h
      obtain ⟨b, tg⟩ := t
      simp only [tokPlain, Bool.and_eq_true, Option.isNone_iff_eq_none] at hpt
      obtain ⟨rfl, hb⟩ := hpt
      cases b with
      | null =>
        rw [uW_null] at h; simp only [URes.ok.injEq] at h; obtain ⟨rfl, rfl, rfl⟩ := h
        exact ⟨UV_isU (.nil _), hptl⟩
      | str s =>
        rw [uW_str] at h; simp only [URes.ok.injEq] at h; obtain ⟨rfl, rfl, rfl⟩ := h
        exact ⟨UV_isU (.str _ _), hptl⟩
      | bytes s =>
        rw [uW_bytes] at h; simp only [URes.ok.injEq] at h; obtain ⟨rfl, rfl, rfl⟩ := h
        exact ⟨UV_isU (.bytes _ _), hptl⟩
      | bool s =>
        rw [uW_bool] at h; simp only [URes.ok.injEq] at h; obtain ⟨rfl, rfl, rfl⟩ := h
        exact ⟨UV_isU (.bool _ _), hptl⟩
      | int i =>
        rw [uW_int] at h; simp only [URes.ok.injEq] at h; obtain ⟨rfl, rfl, rfl⟩ := h
        simp only [Bool.and_eq_true, decide_eq_true_eq] at hb
        exact ⟨UV_isU (.int _ _ hb.1 hb.2), hptl⟩
      | uint n =>
        rw [uW_uint] at h
        simp only [decide_eq_true_eq] at hb
        split at h
        · rename_i hn
          simp only [URes.ok.injEq] at h; obtain ⟨rfl, rfl, rfl⟩ := h
          exact ⟨UV_isU (.int _ _ (by unfold two63; omega) (by omega)), hptl⟩
        · rename_i hn
          simp only [URes.ok.injEq] at h; obtain ⟨rfl, rfl, rfl⟩ := h
          exact ⟨UV_isU (.uint _ _ (by omega) hb), hptl⟩
      | float x =>
        rw [uW_float] at h; simp only [URes.ok.injEq] at h; obtain ⟨rfl, rfl, rfl⟩ := h
        simp only [decide_eq_true_eq] at hb
        exact ⟨UV_isU (.float _ _ hb), hptl⟩
      | arrClose => simp [uW_arrClose] at h
      | mapClose => simp [uW_mapClose] at h
      | arrOpen l =>
        cases F with
        | zero => simp [uW_arr1] at h
        | succ F =>
          rw [uW_arr] at h
          obtain ⟨v1, r1, u1, hr, h⟩ := bind_eq_ok h
          obtain ⟨u0, hr, _⟩ := shift_eq_ok hr
          simp only [URes.ok.injEq] at h; obtain ⟨rfl, rfl, rfl⟩ := h
          obtain ⟨⟨vs, rfl, hvs⟩, hr1⟩ := hE F (by omega) (F+3) (by omega) [] tl _ _ _ hptl (by simp) hr
          exact ⟨UV_isU (.slice _ _ hvs), hr1⟩
      | mapOpen l =>
        cases F with
        | zero => simp [uW_map1] at h
        | succ F =>
          rw [uW_map trs he] at h
          obtain ⟨v1, r1, u1, hr, h⟩ := bind_eq_ok h
          obtain ⟨u0, hr, _⟩ := shift_eq_ok hr
          simp only [URes.ok.injEq] at h; obtain ⟨rfl, rfl, rfl⟩ := h
          obtain ⟨⟨es, rfl, h1, h2, h3⟩, hr1⟩ := hM F (by omega) (F+3) (by omega) [] tl _ _ _ hptl
            ⟨by simp, by simp, by simp⟩ hr
          exact ⟨UV_isU (.map _ _ h1 h2 h3), hr1⟩

theorem yields_all (F : Nat) : PVy (ts := ts) (a := a) (it := it) trs F ∧ PEy (ts := ts) (a := a) (it := it) trs F ∧
    PMy (ts := ts) (a := a) (it := it) trs F := by
  induction F using Nat.strongRecOn with
  | _ F ih =>
    have hv : PVy (ts := ts) (a := a) (it := it) trs F :=
      pvy_of trs he F (fun F' h => (ih F' (by omega)).2.1) (fun F' h => (ih F' (by omega)).2.2)
    refine ⟨hv, ?_, ?_⟩
    · cases F with
      | zero => intro G _ acc toks v rest used _ _ h; simp [uE_zero] at h
      | succ F => exact pey_step trs F (ih F (by omega)).1 (ih F (by omega)).2.1
    · cases F with
      | zero => intro G _ acc toks v rest used _ _ h; simp [uM_zero] at h
      | succ F => exact pmy_step trs F (ih F (by omega)).1 (ih F (by omega)).2.2

end env

/-- whatever the untyped unmarshaller accepts, it builds a native untyped value (proved as stated) -/
theorem unm_yields_untyped (ts : Types) (a : Atlas) (trs : Trs) (it : IfaceTys) (fuel : Nat) (cur : Val)
    (toks rest : List Tok) (v : Val) (used : Nat) (he : UEnv ts a it) (hp : toks.all tokPlain = true)
    (h : unmV ts a trs it fuel it.iface cur toks = .ok v rest used) :
    isU it fuel v = true :=
  ((yields_all trs he fuel).1 cur toks v rest used hp h).1


/-! ### The untyped unmarshaller does not see declared lengths nor the signedness spelling of small integers -/

/-- token bodies the wildcard machine cannot tell apart -/
def BodyCompat : Body → Body → Prop
  | .mapOpen _, b' => ∃ l, b' = .mapOpen l
  | .arrOpen _, b' => ∃ l, b' = .arrOpen l
  | .int i, b' => b' = .int i ∨ (0 ≤ i ∧ i < (two63 : Int) ∧ b' = .uint i.toNat)
  | .uint n, b' => b' = .uint n ∨ (n < two63 ∧ b' = .int n)
  | b, b' => b' = b

def Compat (t t' : Tok) : Prop := t.tag = none ∧ t'.tag = none ∧ BodyCompat t.body t'.body

def mapRes (g : Tok → Tok) : URes → URes
  | .ok v r k => .ok v (r.map g) k
  | x => x

@[simp] theorem mapRes_ok (g : Tok → Tok) (v : Val) (r : List Tok) (k : Nat) : mapRes g (.ok v r k) = .ok v (r.map g) k := rfl
@[simp] theorem mapRes_more (g : Tok → Tok) (k : Nat) : mapRes g (.more k) = .more k := rfl
@[simp] theorem mapRes_err (g : Tok → Tok) (k : Nat) : mapRes g (.err k) = .err k := rfl
@[simp] theorem mapRes_panic (g : Tok → Tok) (k : Nat) : mapRes g (.panic k) = .panic k := rfl

theorem mapRes_shift (g : Tok → Tok) (r : URes) (k : Nat) : mapRes g (r.shift k) = (mapRes g r).shift k := by
  cases r <;> rfl

theorem compat_kind {b b' : Body} (h : BodyCompat b b') :
    (b' = .mapClose ↔ b = .mapClose) ∧ (b' = .arrClose ↔ b = .arrClose) ∧ (∀ s, b' = .str s ↔ b = .str s) := by
  cases b with
  | mapOpen l => obtain ⟨l', rfl⟩ := h; simp
  | arrOpen l => obtain ⟨l', rfl⟩ := h; simp
  | int i => rcases h with rfl | ⟨_, _, rfl⟩ <;> simp
  | uint n => rcases h with rfl | ⟨_, rfl⟩ <;> simp
  | mapClose => simp only [BodyCompat] at h; subst h; simp
  | arrClose => simp only [BodyCompat] at h; subst h; simp
  | null => simp only [BodyCompat] at h; subst h; simp
  | str s => simp only [BodyCompat] at h; subst h; simp
  | bytes s => simp only [BodyCompat] at h; subst h; simp
  | bool s => simp only [BodyCompat] at h; subst h; simp
  | float s => simp only [BodyCompat] at h; subst h; simp

section env
variable {ts : Types} {a : Atlas} {it : IfaceTys} (trs : Trs) (he : UEnv ts a it) (g : Tok → Tok)
include he

def QV (F : Nat) : Prop := ∀ cur toks, (∀ t ∈ toks, Compat t (g t)) →
  unmV ts a trs it F it.iface cur (toks.map g) = mapRes g (unmV ts a trs it F it.iface cur toks) ∧
  (∀ v r u, unmV ts a trs it F it.iface cur toks = .ok v r u → ∀ t ∈ r, t ∈ toks)
def QE (F : Nat) : Prop := ∀ acc toks, (∀ t ∈ toks, Compat t (g t)) →
  unmElems ts a trs it F it.iface none acc (toks.map g) = mapRes g (unmElems ts a trs it F it.iface none acc toks) ∧
  (∀ v r u, unmElems ts a trs it F it.iface none acc toks = .ok v r u → ∀ t ∈ r, t ∈ toks)
def QM (F : Nat) : Prop := ∀ es toks, (∀ t ∈ toks, Compat t (g t)) →
  unmMapEntries ts a trs it F none it.iface es (toks.map g) = mapRes g (unmMapEntries ts a trs it F none it.iface es toks) ∧
  (∀ v r u, unmMapEntries ts a trs it F none it.iface es toks = .ok v r u → ∀ t ∈ r, t ∈ toks)

omit he in
theorem qe_step (F : Nat) (hv : QV (ts := ts) (a := a) (it := it) trs g F) (hE : QE (ts := ts) (a := a) (it := it) trs g F) :
    QE (ts := ts) (a := a) (it := it) trs g (F+1) := by
  intro acc toks hc
  cases toks with
  | nil => simp [uE_nil]
  | cons t tl =>
    have hct := hc t (by simp)
    have hctl : ∀ t ∈ tl, Compat t (g t) := fun x hx => hc x (by simp [hx])
    obtain ⟨b, tg⟩ := t
    obtain ⟨h1, h2, h3⟩ := hct
    simp only at h1; subst h1
    generalize hgt : g ⟨b, none⟩ = t' at h2 h3
    obtain ⟨b', tg'⟩ := t'
    simp only at h2 h3; subst h2
    by_cases hb1 : b = .arrClose
    · subst hb1
      simp only [BodyCompat] at h3; subst h3
      simp only [List.map_cons, hgt, uE_close, mapRes_ok, true_and]
      intro v r u h; simp only [URes.ok.injEq] at h; obtain ⟨_, rfl, _⟩ := h
      intro x hx; simp [hx]
    · by_cases hb2 : b = .mapClose
      · subst hb2
        simp only [BodyCompat] at h3; subst h3
        simp [List.map_cons, hgt, uE_mapClose]
      · have hb' : b' ≠ .mapClose ∧ b' ≠ .arrClose :=
          ⟨fun e => hb2 ((compat_kind h3).1.mp e), fun e => hb1 ((compat_kind h3).2.1.mp e)⟩
        rw [uE_step trs F _ acc _ ⟨⟨b, none⟩, tl, rfl, hb2, hb1⟩]
        have e : List.map g (⟨b, none⟩ :: tl) = ⟨b', none⟩ :: tl.map g := by simp [hgt]
        rw [uE_step trs F _ acc _ ⟨⟨b', none⟩, tl.map g, e, hb'.1, hb'.2⟩]
        obtain ⟨q1, q2⟩ := hv (zeroVal ts 64 it.iface) (⟨b, none⟩ :: tl) hc
        rw [q1]
        cases hr : unmV ts a trs it F it.iface (zeroVal ts 64 it.iface) (⟨b, none⟩ :: tl) with
        | ok v1 r1 u1 =>
          have hsub := q2 v1 r1 u1 hr
          obtain ⟨e1, e2⟩ := hE (v1 :: acc) r1 (fun x hx => hc x (hsub x hx))
          simp only [mapRes_ok, URes.bind_ok, e1, mapRes_shift, true_and]
          intro v r u h
          obtain ⟨u2, h, _⟩ := shift_eq_ok h
          exact fun x hx => hsub x (e2 v r u2 h x hx)
        | more k => simp
        | err k => simp
        | panic k => simp


omit he in
theorem qm_step (F : Nat) (hv : QV (ts := ts) (a := a) (it := it) trs g F) (hM : QM (ts := ts) (a := a) (it := it) trs g F) :
    QM (ts := ts) (a := a) (it := it) trs g (F+1) := by
  intro es toks hc
  cases toks with
  | nil => simp [uM_nil]
  | cons t tl =>
    have hct := hc t (by simp)
    have hctl : ∀ t ∈ tl, Compat t (g t) := fun x hx => hc x (by simp [hx])
    obtain ⟨b, tg⟩ := t
    obtain ⟨h1, h2, h3⟩ := hct
    simp only at h1; subst h1
    generalize hgt : g ⟨b, none⟩ = t' at h2 h3
    obtain ⟨b', tg'⟩ := t'
    simp only at h2 h3; subst h2
    have hk := compat_kind h3
    by_cases hb1 : b = .mapClose
    · subst hb1
      simp only [BodyCompat] at h3; subst h3
      simp only [List.map_cons, hgt, uM_close, mapRes_ok, true_and]
      intro v r u h; simp only [URes.ok.injEq] at h; obtain ⟨_, rfl, _⟩ := h
      intro x hx; simp [hx]
    · by_cases hb2 : ∃ s, b = .str s
      · obtain ⟨s, rfl⟩ := hb2
        simp only [BodyCompat] at h3; subst h3
        simp only [List.map_cons, hgt, uM_str]
        split
        · simp
        · obtain ⟨q1, q2⟩ := hv (zeroVal ts 64 it.iface) tl hctl
          rw [q1]
          cases hr : unmV ts a trs it F it.iface (zeroVal ts 64 it.iface) tl with
          | ok v1 r1 u1 =>
            have hsub := q2 v1 r1 u1 hr
            obtain ⟨e1, e2⟩ := hM (es ++ [(.str s, v1)]) r1 (fun x hx => hctl x (hsub x hx))
            simp only [mapRes_ok, URes.shift_ok, URes.bind_ok, e1, mapRes_shift, true_and]
            intro v r u h
            obtain ⟨u2, h, _⟩ := shift_eq_ok h
            exact fun x hx => List.mem_cons_of_mem _ (hsub x (e2 v r u2 h x hx))
          | more k => simp
          | err k => simp
          | panic k => simp
      · have e : List.map g (⟨b, none⟩ :: tl) = ⟨b', none⟩ :: tl.map g := by simp [hgt]
        rw [e, uM_other trs F none _ es _ tl hb1 (fun s hs => hb2 ⟨s, hs⟩),
          uM_other trs F none _ es _ (tl.map g) (fun e => hb1 (hk.1.mp e)) (fun s hs => hb2 ⟨s, (hk.2.2 s).mp hs⟩)]
        simp

theorem qv_of (F : Nat) (hE : ∀ F', F' + 4 ≤ F → QE (ts := ts) (a := a) (it := it) trs g F')
    (hM : ∀ F', F' + 4 ≤ F → QM (ts := ts) (a := a) (it := it) trs g F') :
    QV (ts := ts) (a := a) (it := it) trs g F := by
  intro cur toks hc
  cases toks with
  | nil =>
    cases F with
    | zero => simp [uV_zero]
    | succ F => simp [uV_nil]
  | cons t tl =>
    have hct := hc t (by simp)
    have hctl : ∀ t ∈ tl, Compat t (g t) := fun x hx => hc x (by simp [hx])
    obtain ⟨b, tg⟩ := t
    obtain ⟨h1, h2, h3⟩ := hct
    simp only at h1; subst h1
    generalize hgt : g ⟨b, none⟩ = t' at h2 h3
    obtain ⟨b', tg'⟩ := t'
    simp only at h2 h3; subst h2
    simp only [List.map_cons, hgt]
    have hsuf : ∀ (v : Val) (k : Nat) (v' : Val) (r : List Tok) (u : Nat),
        URes.ok v tl k = URes.ok v' r u → ∀ t ∈ r, t ∈ (⟨b, none⟩ : Tok) :: tl := by
      intro v k v' r u h; simp only [URes.ok.injEq] at h; obtain ⟨_, rfl, _⟩ := h
      intro x hx; simp [hx]
    match F, hE, hM with
    | 0, _, _ => simp [uV_zero]
    | 1, _, _ => simp [uV_one trs he]
    | 2, _, _ => simp [uV_iface trs he, uW_zero]
    | F+3, hE, hM =>
      rw [uV_iface trs he, uV_iface trs he]
      cases b with
      | null => simp only [BodyCompat] at h3; subst h3; simp only [uW_null, mapRes_ok, true_and]; exact hsuf _ _
      | str s => simp only [BodyCompat] at h3; subst h3; simp only [uW_str, mapRes_ok, true_and]; exact hsuf _ _
      | bytes s => simp only [BodyCompat] at h3; subst h3; simp only [uW_bytes, mapRes_ok, true_and]; exact hsuf _ _
      | bool s => simp only [BodyCompat] at h3; subst h3; simp only [uW_bool, mapRes_ok, true_and]; exact hsuf _ _
      | float s => simp only [BodyCompat] at h3; subst h3; simp only [uW_float, mapRes_ok, true_and]; exact hsuf _ _
      | arrClose => simp only [BodyCompat] at h3; subst h3; simp [uW_arrClose]
      | mapClose => simp only [BodyCompat] at h3; subst h3; simp [uW_mapClose]
      | int i =>
        rcases h3 with rfl | ⟨i0, i1, rfl⟩
        · simp only [uW_int, mapRes_ok, true_and]; exact hsuf _ _
        · have : i.toNat < two63 := by unfold two63 at *; omega
          have e : ((i.toNat : Nat) : Int) = i := Int.toNat_of_nonneg i0
          simp only [uW_int, uW_uint, this, if_true, e, mapRes_ok, true_and]; exact hsuf _ _
      | uint n =>
        rcases h3 with rfl | ⟨n0, rfl⟩
        · simp only [uW_uint]
          split
          · simp only [mapRes_ok, true_and]; exact hsuf _ _
          · simp only [mapRes_ok, true_and]; exact hsuf _ _
        · simp only [uW_int, uW_uint, n0, if_true, mapRes_ok, true_and]; exact hsuf _ _
      | arrOpen l =>
        obtain ⟨l', rfl⟩ := h3
        cases F with
        | zero => simp [uW_arr1]
        | succ F =>
          obtain ⟨e1, e2⟩ := hE F (by omega) [] tl hctl
          simp only [uW_arr, e1]
          cases hr : unmElems ts a trs it F it.iface none [] tl with
          | ok v1 r1 u1 =>
            simp only [mapRes_ok, URes.shift_ok, URes.bind_ok, true_and]
            intro v r u h; simp only [URes.ok.injEq] at h; obtain ⟨_, rfl, _⟩ := h
            exact fun x hx => List.mem_cons_of_mem _ (e2 _ _ _ hr x hx)
          | more k => simp
          | err k => simp
          | panic k => simp
      | mapOpen l =>
        obtain ⟨l', rfl⟩ := h3
        cases F with
        | zero => simp [uW_map1]
        | succ F =>
          obtain ⟨e1, e2⟩ := hM F (by omega) [] tl hctl
          simp only [uW_map trs he, e1]
          cases hr : unmMapEntries ts a trs it F none it.iface [] tl with
          | ok v1 r1 u1 =>
            simp only [mapRes_ok, URes.shift_ok, URes.bind_ok, true_and]
            intro v r u h; simp only [URes.ok.injEq] at h; obtain ⟨_, rfl, _⟩ := h
            exact fun x hx => List.mem_cons_of_mem _ (e2 _ _ _ hr x hx)
          | more k => simp
          | err k => simp
          | panic k => simp

theorem compat_all (F : Nat) : QV (ts := ts) (a := a) (it := it) trs g F ∧ QE (ts := ts) (a := a) (it := it) trs g F ∧
    QM (ts := ts) (a := a) (it := it) trs g F := by
  induction F using Nat.strongRecOn with
  | _ F ih =>
    have hv : QV (ts := ts) (a := a) (it := it) trs g F :=
      qv_of trs he g F (fun F' h => (ih F' (by omega)).2.1) (fun F' h => (ih F' (by omega)).2.2)
    refine ⟨hv, ?_, ?_⟩
    · cases F with
      | zero => intro acc toks _; simp [uE_zero]
      | succ F => exact qe_step trs g F (ih F (by omega)).1 (ih F (by omega)).2.1
    · cases F with
      | zero => intro acc toks _; simp [uM_zero]
      | succ F => exact qm_step trs g F (ih F (by omega)).1 (ih F (by omega)).2.2

/-- the untyped unmarshaller gives the same result on two token lists related token-wise by `Compat` -/
theorem unm_compat (fuel : Nat) (cur : Val) (toks : List Tok) (hc : ∀ t ∈ toks, Compat t (g t)) :
    unmV ts a trs it fuel it.iface cur (toks.map g) = mapRes g (unmV ts a trs it fuel it.iface cur toks) :=
  ((compat_all trs he g fuel).1 cur toks hc).1

end env

/-- Marshal then unmarshal into an untyped slot: the value comes back with every map in key order.
    The fuel hypothesis `hf` is `toks.length + 3 * n + 64 < fuel`; as first written it had `n` in place of `3 * n`
    (`untyped_roundtrip_statement`), which is false for values nested deeper than 32 levels: one level of
    `[]interface{}` costs five units of fuel and only two tokens, and the unmarshaller needs one unit more than
    the marshaller (`untyped_roundtrip_statement_false`, at the end of the file). -/
theorem untyped_roundtrip (ts : Types) (a : Atlas) (trs : Trs) (it : IfaceTys) (fuel n : Nat) (u : Val) (toks : List Tok)
    (he : UEnv ts a it) (hu : isU it n u = true) (hm : marshalV ts a trs fuel it.iface u = ⟨toks, none⟩)
    (hf : toks.length + 3 * n + 64 < fuel) :
    unmV ts a trs it fuel it.iface (.iface none) toks = .ok (sortU a.defaultSort n u) [] toks.length := by
  have e := marshal_ok_tree trs he n u fuel toks hu hm
  subst e
  have := unm_tree trs he n u fuel (.iface none) [] hu (by omega)
  simpa using this

theorem marshal_sortU (ts : Types) (a : Atlas) (trs : Trs) (it : IfaceTys) (fuel n : Nat) (u : Val)
    (he : UEnv ts a it) (hu : isU it n u = true) :
    marshalV ts a trs fuel it.iface (sortU a.defaultSort n u) = marshalV ts a trs fuel it.iface u :=
  marshal_sortU_all trs he n u hu fuel

/-- token-level fixpoint: M (U (M u)) = M u   (fuel hypothesis adjusted as in `untyped_roundtrip`;
    the first statement is `fixpoint_tokens_statement`, refuted at the end of the file) -/
theorem fixpoint_tokens (ts : Types) (a : Atlas) (trs : Trs) (it : IfaceTys) (fuel n : Nat) (u : Val) (toks : List Tok)
    (he : UEnv ts a it) (hu : isU it n u = true) (hm : marshalV ts a trs fuel it.iface u = ⟨toks, none⟩)
    (hf : toks.length + 3 * n + 64 < fuel) :
    ∃ u', unmV ts a trs it fuel it.iface (.iface none) toks = .ok u' [] toks.length ∧
          marshalV ts a trs fuel it.iface u' = ⟨toks, none⟩ :=
  ⟨sortU a.defaultSort n u, untyped_roundtrip ts a trs it fuel n u toks he hu hm hf,
    (marshal_sortU ts a trs it fuel n u he hu).trans hm⟩

theorem bodyCompat_refl (b : Body) : BodyCompat b b := by
  cases b <;> simp [BodyCompat]

theorem compat_canon (t : Tok) (h : tokPlain t = true) : Compat t (C02.canonTok t) := by
  obtain ⟨b, tg⟩ := t
  simp only [tokPlain, Bool.and_eq_true, Option.isNone_iff_eq_none] at h
  obtain ⟨rfl, hb⟩ := h
  cases b with
  | int i =>
    simp only [Bool.and_eq_true, decide_eq_true_eq] at hb
    by_cases hi : i ≥ 0
    · simp only [C02.canonTok, hi, if_true]
      exact ⟨rfl, rfl, Or.inr ⟨hi, hb.2, rfl⟩⟩
    · simp only [C02.canonTok, hi, if_false]
      exact ⟨rfl, rfl, Or.inl rfl⟩
  | _ => exact ⟨rfl, rfl, bodyCompat_refl _⟩

/-- the untyped unmarshaller gives the same value for the tokens as the CBOR codec hands them back -/
theorem unm_canon_untyped (ts : Types) (a : Atlas) (trs : Trs) (it : IfaceTys) (fuel : Nat) (cur : Val) (toks : List Tok)
    (he : UEnv ts a it) (hp : toks.all tokPlain = true) :
    unmV ts a trs it fuel it.iface cur (toks.map C02.canonTok) =
      (match unmV ts a trs it fuel it.iface cur toks with
       | .ok v r k => .ok v (r.map C02.canonTok) k
       | x => x) := by
  rw [unm_compat trs he C02.canonTok fuel cur toks (fun t ht => compat_canon t (List.all_eq_true.mp hp t ht))]
  cases unmV ts a trs it fuel it.iface cur toks <;> rfl

/-! ### byte level, CBOR -/

/-- refmt.Marshal for CBOR in the model: marshal, then run the encoder machine over the tokens -/
def marshalCbor (ts : Types) (a : Atlas) (trs : Trs) (fuel id : Nat) (v : Val) : Option Bytes :=
  let mo := marshalV ts a trs fuel id v
  match mo.fail with
  | some _ => none
  | none =>
    let (fl, ws) := runOut CborEnc.step CborEnc.init mo.toks
    if fl.getLast? = some Flag.done then some ws.flatten else none

/-- refmt.Unmarshal for CBOR in the model: decode one item, hand its tokens to the unmarshaller -/
def unmarshalCbor (ts : Types) (a : Atlas) (trs : Trs) (it : IfaceTys) (fuel id : Nat) (bs : Bytes) : Option Val :=
  let o := CborDec.decode false (Rd.ofBytes bs)
  if o.res.isOk then
    (match unmV ts a trs it fuel id (zeroVal ts 64 id) o.toks with
     | .ok v [] _ => some v
     | _ => none)
  else none

/-- strings and byte strings within the decoder's built-in 32 MiB per-item cap; slices and maps with fewer than
    2^63 entries.  (The length clause was added to the definition as first written: a Go `len` is an `int`, but a
    Lean list is unbounded, and C02's encoder/decoder theorems (`WFv`) need declared lengths below 2^63.) -/
def smallU : Nat → Val → Bool
  | 0, _ => true
  | f+1, .iface (some (_, x)) =>
    (match x with
     | .str s => decide (s.length ≤ 33554432)
     | .bytes (some b) => decide (b.length ≤ 33554432)
     | .slice (some vs) => decide (vs.length < 9223372036854775808) && vs.all (smallU f)
     | .map (some es) => decide (es.length < 9223372036854775808) &&
                         es.all fun (k, y) => decide ((keyOf k).length ≤ 33554432) && smallU f y
     | _ => true)
  | _, _ => true



/-! ### `treeU` is inside the domain of the CBOR codec theorems (C02) -/

theorem tree_WFv (it : IfaceTys) (mode : KeySort) : ∀ (n : Nat) (u : Val), isU it n u = true → smallU n u = true →
    C02.WFv (treeU mode n u) = true ∧ C02.Supported (treeU mode n u) = true := by
  intro n
  induction n with
  | zero => intro u hu; simp [isU] at hu
  | succ f ih =>
    intro u hu hs
    have hUV := isU_UV hu
    cases hUV with
    | nil => simp [treeU, C02.WFv, C02.Supported, C02.tokInRange]
    | str _ s => simpa [treeU, C02.WFv, C02.Supported, C02.tokInRange, smallU] using hs
    | bytes _ b => simpa [treeU, C02.WFv, C02.Supported, C02.tokInRange, smallU] using hs
    | bool _ b => simp [treeU, C02.WFv, C02.Supported, C02.tokInRange]
    | int _ i h1 h2 => simp [treeU, C02.WFv, C02.Supported, C02.tokInRange, h1, h2]
    | uint _ n h1 h2 => simp [treeU, C02.WFv, C02.Supported, C02.tokInRange, h2]
    | float _ b h => simp [treeU, C02.WFv, C02.Supported, C02.tokInRange, h]
    | slice _ vs h =>
      simp only [smallU, Bool.and_eq_true, decide_eq_true_eq, List.all_eq_true] at hs
      have hl : (vs.length : Int) < (two63 : Int) := by unfold two63; omega
      simp only [treeU, C02.WFv, C02.Supported, Bool.and_eq_true, decide_eq_true_eq, List.length_map, Bool.or_eq_true,
        beq_self_eq_true, or_true, true_and, hl]
      exact ⟨WFl_of _ (by
          intro v hv; simp only [List.mem_map] at hv; obtain ⟨x, hx, rfl⟩ := hv
          exact (ih x (h x hx) (hs.2 x hx)).1),
        SupportedL_of _ (by
          intro v hv; simp only [List.mem_map] at hv; obtain ⟨x, hx, rfl⟩ := hv
          exact (ih x (h x hx) (hs.2 x hx)).2)⟩
    | map _ es hk hv hd =>
      simp only [smallU, Bool.and_eq_true, decide_eq_true_eq, List.all_eq_true] at hs
      have hl : (es.length : Int) < (two63 : Int) := by unfold two63; omega
      have hmem : ∀ p ∈ sortKeys mode (es.map fun p => (keyOf p.1, p.2)),
          p.1.length ≤ 33554432 ∧ isU it f p.2 = true ∧ smallU f p.2 = true := by
        intro p hp
        have := (C08.sortKeys_perm mode _).mem_iff.mp hp
        simp only [List.mem_map] at this
        obtain ⟨q, hq, rfl⟩ := this
        have := hs.2 q hq
        exact ⟨this.1, hv q hq, this.2⟩
      simp only [treeU, C02.WFv, C02.Supported, Bool.and_eq_true, decide_eq_true_eq, List.length_map, Bool.or_eq_true,
        ObjL.sortKeys_length, beq_self_eq_true, or_true, true_and, hl]
      exact ⟨WFe_of _ _ (fun p hp => (ih p.2 (hmem p hp).2.1 (hmem p hp).2.2).1),
        SupportedE_of _ _ (fun p hp => ⟨(hmem p hp).1, (ih p.2 (hmem p hp).2.1 (hmem p hp).2.2).2⟩)⟩


theorem tree_plain (it : IfaceTys) (mode : KeySort) : ∀ (n : Nat) (u : Val), isU it n u = true →
    ∀ t ∈ (treeU mode n u).flatten, tokPlain t = true := by
  intro n
  induction n with
  | zero => intro u hu; simp [isU] at hu
  | succ f ih =>
    intro u hu t ht
    have hUV := isU_UV hu
    cases hUV with
    | nil => simp only [treeU, TV.flatten, List.mem_singleton] at ht; subst ht; rfl
    | str _ s => simp only [treeU, TV.flatten, List.mem_singleton] at ht; subst ht; rfl
    | bytes _ b => simp only [treeU, TV.flatten, List.mem_singleton] at ht; subst ht; rfl
    | bool _ b => simp only [treeU, TV.flatten, List.mem_singleton] at ht; subst ht; rfl
    | int _ i h1 h2 => simp only [treeU, TV.flatten, List.mem_singleton] at ht; subst ht; simp [tokPlain, h1, h2]
    | uint _ n h1 h2 => simp only [treeU, TV.flatten, List.mem_singleton] at ht; subst ht; simp [tokPlain, h2]
    | float _ b h => simp only [treeU, TV.flatten, List.mem_singleton] at ht; subst ht; simp [tokPlain, h]
    | slice _ vs h =>
      simp only [treeU, TV.flatten, List.mem_cons, List.mem_append, List.mem_singleton, List.not_mem_nil, or_false] at ht
      rcases ht with rfl | ht | rfl
      · rfl
      · obtain ⟨v, hv, ht⟩ := mem_flattenList ht
        simp only [List.mem_map] at hv
        obtain ⟨x, hx, rfl⟩ := hv
        exact ih x (h x hx) t ht
      · rfl
    | map _ es hk hv hd =>
      simp only [treeU, TV.flatten, List.mem_cons, List.mem_append, List.mem_singleton, List.not_mem_nil, or_false] at ht
      rcases ht with rfl | ht | rfl
      · rfl
      · obtain ⟨p, hp, ht⟩ := mem_flattenEntries ht
        simp only [List.mem_map] at hp
        obtain ⟨q, hq, rfl⟩ := hp
        rcases ht with ht | ht
        · simp only [TV.flatten, List.mem_singleton] at ht; subst ht; rfl
        · have := (C08.sortKeys_perm mode _).mem_iff.mp hq
          simp only [List.mem_map] at this
          obtain ⟨q', hq', rfl⟩ := this
          exact ih _ (hv q' hq') t ht
      · rfl

theorem compat_norm (t : Tok) (h : tokPlain t = true) : Compat t (C02.normTok t) := by
  obtain ⟨b, tg⟩ := t
  simp only [tokPlain, Bool.and_eq_true, Option.isNone_iff_eq_none] at h
  obtain ⟨rfl, hb⟩ := h
  cases b with
  | int i =>
    simp only [Bool.and_eq_true, decide_eq_true_eq] at hb
    by_cases hi : i ≥ 0
    · simp only [C02.normTok, C02L.canonBody, hi, if_true]
      exact ⟨rfl, rfl, Or.inr ⟨hi, hb.2, rfl⟩⟩
    · simp only [C02.normTok, C02L.canonBody, hi, if_false]
      exact ⟨rfl, rfl, Or.inl rfl⟩
  | arrOpen l => exact ⟨rfl, rfl, by simp only [C02.normTok, C02L.canonBody, BodyCompat]; split <;> exact ⟨_, rfl⟩⟩
  | mapOpen l => exact ⟨rfl, rfl, by simp only [C02.normTok, C02L.canonBody, BodyCompat]; split <;> exact ⟨_, rfl⟩⟩
  | _ => exact ⟨rfl, rfl, bodyCompat_refl _⟩

theorem marshalCbor_inv {ts : Types} {a : Atlas} {trs : Trs} {fuel id : Nat} {v : Val} {b : Bytes}
    (h : marshalCbor ts a trs fuel id v = some b) :
    ∃ toks, marshalV ts a trs fuel id v = ⟨toks, none⟩ ∧
      (runOut CborEnc.step CborEnc.init toks).1.getLast? = some Flag.done ∧
      b = (runOut CborEnc.step CborEnc.init toks).2.flatten := by
  unfold marshalCbor at h
  simp only at h
  split at h
  · simp at h
  · rename_i hf
    split at h
    · rename_i hd
      simp only [Option.some.injEq] at h
      refine ⟨(marshalV ts a trs fuel id v).toks, ?_, hd, h.symm⟩
      cases hm : marshalV ts a trs fuel id v
      simp_all
    · simp at h

/-- what the CBOR decoder model returns for the bytes `marshalCbor` produced -/
theorem cbor_decode (ts : Types) (a : Atlas) (trs : Trs) (it : IfaceTys) (fuel n : Nat) (u1 : Val) (b2 : Bytes)
    (he : UEnv ts a it) (hu : isU it n u1 = true) (hs : smallU n u1 = true)
    (hm : marshalCbor ts a trs fuel it.iface u1 = some b2) :
    (CborDec.decode false (Rd.ofBytes b2)).toks = (treeU a.defaultSort n u1).flatten.map C02.normTok ∧
    (CborDec.decode false (Rd.ofBytes b2)).res = .ok () ∧
    (treeU a.defaultSort n u1).flatten.length ≤ 2 * b2.length := by
  obtain ⟨toks, hmv, hdone, hb⟩ := marshalCbor_inv hm
  have e := marshal_ok_tree trs he n u1 fuel toks hu hmv
  subst e
  obtain ⟨hwf, hsup⟩ := tree_WFv it a.defaultSort n u1 hu hs
  have henc := (C02.enc_eq_spec _ hwf).2
  rw [← hb] at henc
  have hlen := C02.lenV _ hwf
  rw [← henc] at hlen
  have hrt := C02.roundtrip_norm (treeU a.defaultSort n u1) [] hwf hsup
  simp only [List.append_nil, ← henc] at hrt
  exact ⟨hrt.1, hrt.2.1, hlen⟩

/-- `unmarshalCbor` on those bytes is the untyped unmarshaller on the marshalled tokens -/
theorem unmarshalCbor_eq (ts : Types) (a : Atlas) (trs : Trs) (it : IfaceTys) (fuel n : Nat) (u1 : Val) (b2 : Bytes)
    (he : UEnv ts a it) (hu : isU it n u1 = true) (hs : smallU n u1 = true)
    (hm : marshalCbor ts a trs fuel it.iface u1 = some b2) :
    unmarshalCbor ts a trs it fuel it.iface b2 =
      (match mapRes C02.normTok (unmV ts a trs it fuel it.iface (zeroVal ts 64 it.iface) (treeU a.defaultSort n u1).flatten) with
       | .ok v [] _ => some v
       | _ => none) := by
  obtain ⟨h1, h2, _⟩ := cbor_decode ts a trs it fuel n u1 b2 he hu hs hm
  unfold unmarshalCbor
  simp only [h1, h2]
  rw [unm_compat trs he C02.normTok fuel _ _ (fun t ht => compat_norm t (tree_plain it a.defaultSort n u1 hu t ht))]
  rfl

/-- CBOR byte-level fixpoint  b3 = b2.
    Changes with respect to the statement as first written (`fixpoint_cbor_statement`, refuted at the end of the file):
    the fuel hypothesis `hf` has `3 * n` instead of `n` (see `untyped_roundtrip`), and `smallU` also bounds
    container lengths by `2^63` (a Go `int`), without which the token tree is outside C02's domain. -/
theorem fixpoint_cbor (ts : Types) (a : Atlas) (trs : Trs) (it : IfaceTys) (fuel n : Nat) (u1 : Val) (b2 : Bytes)
    (he : UEnv ts a it) (hu : isU it n u1 = true) (hs : smallU n u1 = true)
    (hm : marshalCbor ts a trs fuel it.iface u1 = some b2) (hf : 2 * b2.length + 3 * n + 64 < fuel) :
    ∃ u2, unmarshalCbor ts a trs it fuel it.iface b2 = some u2 ∧ marshalCbor ts a trs fuel it.iface u2 = some b2 := by
  obtain ⟨_, _, hlen⟩ := cbor_decode ts a trs it fuel n u1 b2 he hu hs hm
  refine ⟨sortU a.defaultSort n u1, ?_, ?_⟩
  · rw [unmarshalCbor_eq ts a trs it fuel n u1 b2 he hu hs hm]
    have := unm_tree trs he n u1 fuel (zeroVal ts 64 it.iface) [] hu (by omega)
    rw [List.append_nil] at this
    rw [this]
    rfl
  · unfold marshalCbor
    rw [marshal_sortU ts a trs it fuel n u1 he hu]
    exact hm

/-- for values an untyped slot holds natively the very first re-marshal is byte-identical -/
theorem native_first_pass_cbor (ts : Types) (a : Atlas) (trs : Trs) (it : IfaceTys) (fuel n : Nat) (v : Val) (b1 : Bytes)
    (he : UEnv ts a it) (hu : isU it n v = true) (hs : smallU n v = true)
    (hm : marshalCbor ts a trs fuel it.iface v = some b1) (hf : 2 * b1.length + 3 * n + 64 < fuel) :
    ∃ u1, unmarshalCbor ts a trs it fuel it.iface b1 = some u1 ∧ marshalCbor ts a trs fuel it.iface u1 = some b1 :=
  fixpoint_cbor ts a trs it fuel n v b1 he hu hs hm hf


/-! ### byte level, JSON -/

def marshalJson (c : JsonEnc.Cfg) (ts : Types) (a : Atlas) (trs : Trs) (fuel id : Nat) (v : Val) : Option Bytes :=
  let mo := marshalV ts a trs fuel id v
  match mo.fail with
  | some _ => none
  | none =>
    let (fl, ws) := runOut (JsonEnc.step c FloatText.jsonFloat) JsonEnc.init mo.toks
    if fl.getLast? = some Flag.done then some ws.flatten else none

def unmarshalJson (ts : Types) (a : Atlas) (trs : Trs) (it : IfaceTys) (fuel id : Nat) (bs : Bytes) : Option Val :=
  let o := JsonDec.decode (Rd.ofBytes bs)
  if o.res.isOk then
    (match unmV ts a trs it fuel id (zeroVal ts 64 id) o.toks with
     | .ok v [] _ => some v
     | _ => none)
  else none

/-- The float's JSON text re-reads (`numTok`) as a number that prints as the same text, and that number is
    again a Go-representable finite value.  This is the round-trip property of strconv's shortest formatting
    (`FloatText.jsonFloat` / `parseDecimal`); it is not proved in general here, so it is a decidable per-float
    side condition of `jsonU` (it fails for `-0`, whose text `-0` re-reads as the integer `0`). -/
def floatStable (b : Nat) : Bool :=
  match JsonDec.numTok (FloatText.jsonFloat b) with
  | .ok b' => (C03L.scalarTxt b' == FloatText.jsonFloat b) &&
              (match b' with | .float x => decide (x < two64) && !floatNonFinite x | _ => true)
  | .error _ => false

/-- what JSON can carry: no byte strings, strings valid UTF-8, finite floats other than -0 whose text is a
    number the decoder can type (the `floatOk` of C03) and re-reads stably (`floatStable`, added to the definition
    as first written; see there) -/
def jsonU : Nat → Val → Bool
  | 0, _ => true
  | f+1, .iface (some (_, x)) =>
    (match x with
     | .str s => toValidUtf8 s == s
     | .bytes _ => false
     | .float b => (C03L.floatOk b && !floatNonFinite b) && b != 9223372036854775808 && floatStable b
     | .slice (some vs) => vs.all (jsonU f)
     | .map (some es) => es.all fun (k, y) => (toValidUtf8 (keyOf k) == keyOf k) && jsonU f y
     | _ => true)
  | _, _ => true



section json
open Refmt.JsonEnc Refmt.C03L Refmt.Spec.Json

/-- what the untyped unmarshaller rebuilds from the JSON text of a native untyped value: floats are re-typed by
    their text (an integral float comes back as an int) -/
def jretU (it : IfaceTys) : Nat → Val → Val
  | 0, v => v
  | f+1, .iface (some (d, .float b)) =>
    (match JsonDec.numTok (FloatText.jsonFloat b) with
     | .ok (.int i) => .iface (some (it.int, .int i))
     | .ok (.uint m) => .iface (some (it.uint64, .uint m))
     | .ok (.float x) => .iface (some (it.f64, .float x))
     | _ => .iface (some (d, .float b)))
  | f+1, .iface (some (d, .slice (some vs))) => .iface (some (d, .slice (some (vs.map (jretU it f)))))
  | f+1, .iface (some (d, .map (some es))) => .iface (some (d, .map (some (es.map fun p => (p.1, jretU it f p.2)))))
  | _, v => v

/-- declared lengths forgotten (JSON has none) -/
def eraseLen (t : Tok) : Tok :=
  ⟨match t.body with
   | .mapOpen _ => .mapOpen (-1)
   | .arrOpen _ => .arrOpen (-1)
   | b => b, none⟩

theorem stable_cases {b : Nat} (h : floatStable b = true) :
    (∃ i, JsonDec.numTok (FloatText.jsonFloat b) = .ok (.int i) ∧ -(two63 : Int) ≤ i ∧ i < (two63 : Int) ∧
        scalarTxt (.int i) = FloatText.jsonFloat b) ∨
    (∃ m, JsonDec.numTok (FloatText.jsonFloat b) = .ok (.uint m) ∧ two63 ≤ m ∧ m < two64 ∧
        scalarTxt (.uint m) = FloatText.jsonFloat b) ∨
    (∃ x, JsonDec.numTok (FloatText.jsonFloat b) = .ok (.float x) ∧ x < two64 ∧ floatNonFinite x = false ∧
        scalarTxt (.float x) = FloatText.jsonFloat b) := by
  unfold floatStable at h
  split at h
  · rename_i b' hb
    simp only [Bool.and_eq_true, beq_iff_eq] at h
    rcases numTok_kinds hb with ⟨i, rfl, h1, h2⟩ | ⟨m, rfl, h1, h2⟩ | ⟨x, rfl⟩
    · exact Or.inl ⟨i, hb, h1, h2, h.1⟩
    · exact Or.inr (Or.inl ⟨m, hb, h1, h2, h.1⟩)
    · have := h.2
      simp only [Bool.and_eq_true, decide_eq_true_eq, Bool.not_eq_true'] at this
      exact Or.inr (Or.inr ⟨x, hb, this.1, this.2, h.1⟩)
  · cases h


/-! ### `jretU` on containers, and members of the sorted entry list -/

theorem treeU_jret_slice (it : IfaceTys) (mode : KeySort) (f d : Nat) (vs : List Val) :
    treeU mode (f+1) (jretU it (f+1) (.iface (some (d, .slice (some vs))))) =
      .arr none vs.length (vs.map fun x => treeU mode f (jretU it f x)) := by
  simp [jretU, treeU, List.map_map]

theorem treeU_jret_map (it : IfaceTys) (mode : KeySort) (f d : Nat) (es : List (Val × Val)) :
    treeU mode (f+1) (jretU it (f+1) (.iface (some (d, .map (some es))))) =
      .map none es.length ((sortKeys mode (es.map fun p => (keyOf p.1, p.2))).map fun p =>
        (TV.scalar ⟨.str p.1, none⟩, treeU mode f (jretU it f p.2))) := by
  have e1 : ((es.map fun p => (p.1, jretU it f p.2)).map fun p => (keyOf p.1, p.2)) =
      (es.map fun p => (keyOf p.1, p.2)).map fun p => (p.1, jretU it f p.2) := by
    simp [List.map_map]
  simp only [jretU, treeU, List.length_map]
  rw [e1, sortKeys_mapVal, List.map_map]
  rfl

theorem sorted_mem (mode : KeySort) (es : List (Val × Val)) (P : Bytes → Val → Prop)
    (h : ∀ p ∈ es, P (keyOf p.1) p.2) : ∀ p ∈ sortKeys mode (es.map fun p => (keyOf p.1, p.2)), P p.1 p.2 := by
  intro p hp
  have := (C08.sortKeys_perm mode _).mem_iff.mp hp
  simp only [List.mem_map] at this
  obtain ⟨q, hq, rfl⟩ := this
  exact h q hq


/-- everything the JSON fixpoint needs about a native untyped value inside `jsonU`, by one induction -/
def JAll (it : IfaceTys) (mode : KeySort) (c : Cfg) (n : Nat) (u : Val) : Prop :=
  isU it n (jretU it n u) = true ∧
  DOk (treeU mode n u) = true ∧
  EOk (treeU mode n (jretU it n u)) = true ∧
  (treeU mode n u).flatten.map retypeTok = (treeU mode n (jretU it n u)).flatten.map eraseLen ∧
  (∀ d, txtV c d (treeU mode n (jretU it n u)) = txtV c d (treeU mode n u)) ∧
  C03.trailer c (treeU mode n (jretU it n u)) = C03.trailer c (treeU mode n u)

theorem json_all (it : IfaceTys) (mode : KeySort) (c : Cfg) : ∀ (n : Nat) (u : Val),
    isU it n u = true → jsonU n u = true → JAll it mode c n u := by
  intro n
  induction n with
  | zero => intro u hu; simp [isU] at hu
  | succ f ih =>
    intro u hu hj
    have hUV := isU_UV hu
    cases hUV with
    | nil =>
      refine ⟨hu, by simp [treeU, DOk, decOk], by simp [jretU, treeU, EOk, encOk], ?_, fun d => rfl, rfl⟩
      simp [jretU, treeU, TV.flatten, retypeTok, eraseLen]
    | str _ s =>
      have hs : toValidUtf8 s = s := by simpa [jsonU] using hj
      refine ⟨hu, by simp [treeU, DOk, decOk], by simp [jretU, treeU, EOk, encOk], ?_, fun d => rfl, rfl⟩
      simp [jretU, treeU, TV.flatten, retypeTok, eraseLen, hs]
    | bytes _ b => simp [jsonU] at hj
    | bool _ b =>
      refine ⟨hu, by simp [treeU, DOk, decOk], by simp [jretU, treeU, EOk, encOk], ?_, fun d => rfl, rfl⟩
      simp [jretU, treeU, TV.flatten, retypeTok, eraseLen]
    | int _ i h1 h2 =>
      refine ⟨hu, by simp [treeU, DOk, decOk, h1, h2], by simp [jretU, treeU, EOk, encOk], ?_, fun d => rfl, rfl⟩
      simp [jretU, treeU, TV.flatten, retypeTok, eraseLen]
    | uint _ m h1 h2 =>
      have : ¬ m < two63 := by omega
      refine ⟨hu, by simp [treeU, DOk, decOk, h2], by simp [jretU, treeU, EOk, encOk], ?_, fun d => rfl, rfl⟩
      simp [jretU, treeU, TV.flatten, retypeTok, eraseLen, this]
    | float _ b hb =>
      simp only [jsonU, Bool.and_eq_true, Bool.not_eq_true', bne_iff_ne, ne_eq] at hj
      obtain ⟨⟨⟨hfo, hfin⟩, _⟩, hst⟩ := hj
      have hd : DOk (treeU mode (f+1) (.iface (some (it.f64, .float b)))) = true := by
        simp [treeU, DOk, decOk, hfin, hfo]
      rcases stable_cases hst with ⟨i, hn, h1, h2, htx⟩ | ⟨m, hn, h1, h2, htx⟩ | ⟨x, hn, h1, h2, htx⟩
      · have e : jretU it (f+1) (.iface (some (it.f64, .float b))) = .iface (some (it.int, .int i)) := by
          simp [jretU, hn]
        rw [JAll, e]
        refine ⟨UV_isU (.int _ _ h1 h2), hd, by simp [treeU, EOk, encOk], ?_, fun d => ?_, rfl⟩
        · simp [treeU, TV.flatten, retypeTok, eraseLen, hn]
        · simp only [treeU, txtV]; exact htx
      · have e : jretU it (f+1) (.iface (some (it.f64, .float b))) = .iface (some (it.uint64, .uint m)) := by
          simp [jretU, hn]
        rw [JAll, e]
        refine ⟨UV_isU (.uint _ _ h1 h2), hd, by simp [treeU, EOk, encOk], ?_, fun d => ?_, rfl⟩
        · simp [treeU, TV.flatten, retypeTok, eraseLen, hn]
        · simp only [treeU, txtV]; exact htx
      · have e : jretU it (f+1) (.iface (some (it.f64, .float b))) = .iface (some (it.f64, .float x)) := by
          simp [jretU, hn]
        rw [JAll, e]
        refine ⟨UV_isU (.float _ _ h1), hd, by simp [treeU, EOk, encOk, h2], ?_, fun d => ?_, rfl⟩
        · simp [treeU, TV.flatten, retypeTok, eraseLen, hn]
        · simp only [treeU, txtV]; exact htx
    | slice _ vs h =>
      have hjs : ∀ x ∈ vs, jsonU f x = true := by simpa [jsonU] using hj
      have IH : ∀ x ∈ vs, JAll it mode c f x := fun x hx => ih x (h x hx) (hjs x hx)
      rw [JAll, treeU_jret_slice]
      refine ⟨?_, ?_, ?_, ?_, ?_, rfl⟩
      · simp only [jretU]
        exact UV_isU (.slice _ _ (by
          intro y hy; simp only [List.mem_map] at hy; obtain ⟨x, hx, rfl⟩ := hy; exact (IH x hx).1))
      · simp only [treeU, DOk]
        exact DOkL_of _ (by
          intro v hv; simp only [List.mem_map] at hv; obtain ⟨x, hx, rfl⟩ := hv; exact (IH x hx).2.1)
      · simp only [EOk]
        exact EOkL_of _ (by
          intro v hv; simp only [List.mem_map] at hv; obtain ⟨x, hx, rfl⟩ := hv; exact (IH x hx).2.2.1)
      · simp only [treeU, TV.flatten, List.map_cons, List.map_append, List.map_nil]
        rw [flattenList_map_congr (treeU mode f) (fun x => treeU mode f (jretU it f x)) retypeTok eraseLen vs
          (fun x hx => (IH x hx).2.2.2.1)]
        simp [retypeTok, eraseLen]
      · intro d
        simp only [treeU, txtV, List.isEmpty_map]
        rw [txtL_congr c (treeU mode f) (fun x => treeU mode f (jretU it f x)) vs (d+1) false
          (fun x hx => (IH x hx).2.2.2.2.1)]
    | map _ es hk hv hd =>
      have hjs : ∀ p ∈ es, toValidUtf8 (keyOf p.1) = keyOf p.1 ∧ jsonU f p.2 = true := by
        simpa [jsonU] using hj
      have IH : ∀ p ∈ sortKeys mode (es.map fun p => (keyOf p.1, p.2)),
          toValidUtf8 p.1 = p.1 ∧ JAll it mode c f p.2 :=
        sorted_mem mode es (fun k y => toValidUtf8 k = k ∧ JAll it mode c f y)
          (fun p hp => ⟨(hjs p hp).1, ih p.2 (hv p hp) (hjs p hp).2⟩)
      rw [JAll, treeU_jret_map]
      refine ⟨?_, ?_, ?_, ?_, ?_, rfl⟩
      · simp only [jretU]
        refine UV_isU (.map _ _ ?_ ?_ ?_)
        · intro p hp; simp only [List.mem_map] at hp; obtain ⟨q, hq, rfl⟩ := hp; exact hk q hq
        · intro p hp; simp only [List.mem_map] at hp; obtain ⟨q, hq, rfl⟩ := hp
          exact (ih q.2 (hv q hq) (hjs q hq).2).1
        · rw [List.map_map]; exact hd
      · simp only [treeU, DOk]
        exact DOkE_of _ _ (fun p hp => (IH p hp).2.2.1)
      · simp only [EOk]
        exact EOkE_of (fun x => treeU mode f (jretU it f x)) _ (fun p hp => (IH p hp).2.2.2.1)
      · simp only [treeU, TV.flatten, List.map_cons, List.map_append, List.map_nil]
        rw [flattenEntries_map_congr (treeU mode f) (fun x => treeU mode f (jretU it f x)) retypeTok eraseLen _
          (fun p hp => by simp [retypeTok, eraseLen, (IH p hp).1]) (fun p hp => (IH p hp).2.2.2.2.1)]
        simp [retypeTok, eraseLen]
      · intro d
        simp only [treeU, txtV, List.isEmpty_map]
        rw [txtE_congr c (treeU mode f) (fun x => treeU mode f (jretU it f x)) _ (d+1) false
          (fun p hp => (IH p hp).2.2.2.2.2.1)]


theorem compat_erase (t : Tok) (h : tokPlain t = true) : Compat t (eraseLen t) := by
  obtain ⟨b, tg⟩ := t
  simp only [tokPlain, Bool.and_eq_true, Option.isNone_iff_eq_none] at h
  obtain ⟨rfl, hb⟩ := h
  refine ⟨rfl, rfl, ?_⟩
  cases b <;> simp [eraseLen, BodyCompat]

theorem marshalJson_inv {c : Cfg} {ts : Types} {a : Atlas} {trs : Trs} {fuel id : Nat} {v : Val} {b : Bytes}
    (h : marshalJson c ts a trs fuel id v = some b) :
    ∃ toks, marshalV ts a trs fuel id v = ⟨toks, none⟩ ∧
      (runOut (JsonEnc.step c FloatText.jsonFloat) JsonEnc.init toks).1.getLast? = some Flag.done ∧
      b = (runOut (JsonEnc.step c FloatText.jsonFloat) JsonEnc.init toks).2.flatten := by
  unfold marshalJson at h
  simp only at h
  split at h
  · simp at h
  · rename_i hf
    split at h
    · rename_i hd
      simp only [Option.some.injEq] at h
      refine ⟨(marshalV ts a trs fuel id v).toks, ?_, hd, h.symm⟩
      cases hm : marshalV ts a trs fuel id v
      simp_all
    · simp at h

/-- JSON byte-level fixpoint.  Changes with respect to the first statement: the fuel hypothesis `hf`
    (`3 * n` instead of `n`, see `untyped_roundtrip`), and `jsonU` carries the per-float side condition
    `floatStable` (the float's text re-reads as a number that prints as the same text). -/
theorem fixpoint_json (c : JsonEnc.Cfg) (ts : Types) (a : Atlas) (trs : Trs) (it : IfaceTys) (fuel n : Nat) (u1 : Val) (b2 : Bytes)
    (hc : C03.cfgOk c = true) (he : UEnv ts a it) (hu : isU it n u1 = true) (hj : jsonU n u1 = true)
    (hm : marshalJson c ts a trs fuel it.iface u1 = some b2) (hf : 2 * b2.length + 3 * n + 64 < fuel) :
    ∃ u2, unmarshalJson ts a trs it fuel it.iface b2 = some u2 ∧ marshalJson c ts a trs fuel it.iface u2 = some b2 := by
  obtain ⟨toks, hmv, hdone, hb⟩ := marshalJson_inv hm
  have e := marshal_ok_tree trs he n u1 fuel toks hu hmv
  subst e
  obtain ⟨hu', hdok, heok', hret, htxt, htr⟩ := json_all it a.defaultSort c n u1 hu hj
  have hb2 : b2 = C03.out c (treeU a.defaultSort n u1) := hb
  have hrun := run_eq_eok c _ (eok_of_dok _ hdok)
  have hlen := lenV c _ hdok 0
  have hbl : (treeU a.defaultSort n u1).flatten.length ≤ b2.length := by
    rw [hb2, hrun.2, List.length_append]; omega
  have hlen' : (treeU a.defaultSort n (jretU it n u1)).flatten.length = (treeU a.defaultSort n u1).flatten.length := by
    have := congrArg List.length hret
    simpa using this.symm
  obtain ⟨h1, h2⟩ := roundtrip_dok' c _ hc hdok
  rw [← hb2] at h1 h2
  refine ⟨sortU a.defaultSort n (jretU it n u1), ?_, ?_⟩
  · unfold unmarshalJson
    simp only [h1, h2, hret]
    rw [unm_compat trs he eraseLen fuel _ _
      (fun t ht => compat_erase t (tree_plain it a.defaultSort n _ hu' t ht))]
    have := unm_tree trs he n (jretU it n u1) fuel (zeroVal ts 64 it.iface) [] hu' (by omega)
    rw [List.append_nil] at this
    rw [this]
    rfl
  · unfold marshalJson
    rw [marshal_sortU ts a trs it fuel n _ he hu', marshal_tree trs he n _ fuel hu' (by omega)]
    have hrun' := run_eq_eok c _ heok'
    have hout : C03.out c (treeU a.defaultSort n (jretU it n u1)) = b2 := by
      rw [hrun'.2, htxt 0, htr, ← hrun.2, hb2]
    simp only [hrun'.1]
    simp only [C03.out] at hout
    simp [hout]


end json

/-! ### Non-vacuity: a concrete untyped universe and a concrete nested value -/

def exTs : Types := [(0, .iface false), (1, .prim .string true), (2, .bytes true), (3, .prim .bool true),
  (4, .prim .int true), (5, .prim .uint64 true), (6, .prim .f64 true), (7, .map 1 0), (8, .slice 0)]
def exIt : IfaceTys := ⟨1, 2, 3, 4, 5, 6, 7, 8, 0⟩
def exA : Atlas := ⟨[], .default⟩
def exTrs : Trs := ⟨fun _ _ => none, fun _ _ => none⟩
theorem exEnv : UEnv exTs exA exIt := ⟨rfl, rfl, rfl, rfl, rfl, rfl, rfl, rfl, rfl, rfl, rfl, rfl⟩

/-- `map[string]interface{}{"b": []interface{}{5, "x", nil}, "a": 7}` (entries held in the order b, a) -/
def exU : Val :=
  .iface (some (7, .map (some [
    (.str [98], .iface (some (8, .slice (some [.iface (some (4, .int 5)), .iface (some (1, .str [120])), .iface none])))),
    (.str [97], .iface (some (4, .int 7)))])))

theorem exHu : isU exIt 3 exU = true := by decide
theorem exHs : smallU 3 exU = true := by decide

def exTree : TV :=
  .map none 2 [(.scalar ⟨.str [97], none⟩, .scalar ⟨.int 7, none⟩),
    (.scalar ⟨.str [98], none⟩, .arr none 3 [.scalar ⟨.int 5, none⟩, .scalar ⟨.str [120], none⟩, .scalar ⟨.null, none⟩])]

theorem exTree_eq : treeU exA.defaultSort 3 exU = exTree := by
  simp only [exU, treeU, List.map_cons, List.map_nil, keyOf, List.length_cons, List.length_nil]
  rw [sortKeys_eq_of_sorted exA.defaultSort _ [([97], _), ([98], _)] (List.Perm.swap _ _ _) (by decide)
    (by simp [exA, keyLe, bytesLe, bytesLt])]
  rfl

theorem exMarshal : marshalV exTs exA exTrs 200 0 exU = ⟨exTree.flatten, none⟩ := by
  have h := marshal_tree exTrs exEnv 3 exU 200 exHu (by rw [exTree_eq]; decide)
  rw [exTree_eq] at h
  exact h

/-- the CBOR bytes of the example: `a2 61 61 07 61 62 83 05 61 78 f6` (keys sorted: a before b) -/
theorem exHm : marshalCbor exTs exA exTrs 200 0 exU = some [162, 97, 97, 7, 97, 98, 131, 5, 97, 120, 246] := by
  unfold marshalCbor
  rw [exMarshal]
  with_unfolding_all rfl

/-- `fixpoint_cbor` applies: all its hypotheses hold for the example -/
example : ∃ u2, unmarshalCbor exTs exA exTrs exIt 200 exIt.iface [162, 97, 97, 7, 97, 98, 131, 5, 97, 120, 246] = some u2 ∧
    marshalCbor exTs exA exTrs 200 exIt.iface u2 = some [162, 97, 97, 7, 97, 98, 131, 5, 97, 120, 246] :=
  fixpoint_cbor exTs exA exTrs exIt 200 3 exU _ exEnv exHu exHs exHm (by decide)

theorem exHj : jsonU 3 exU = true := by
  simp [jsonU, exU, keyOf, C03L.tv_ascii, C03L.tv_nil]

/-- the compact JSON text of the example: `{"a":7,"b":[5,"x",null]}` -/
theorem exHmJ : marshalJson ⟨none, []⟩ exTs exA exTrs 200 0 exU =
    some [123, 34, 97, 34, 58, 55, 44, 34, 98, 34, 58, 91, 53, 44, 34, 120, 34, 44, 110, 117, 108, 108, 93, 125] := by
  unfold marshalJson
  rw [exMarshal]
  with_unfolding_all rfl

/-- `fixpoint_json` applies to the example (no float in it: `floatStable` is about the float text routines and
    can be evaluated, `#eval floatStable 4609434218613702656` (1.5), but not reduced by the kernel) -/
example : ∃ u2, unmarshalJson exTs exA exTrs exIt 200 exIt.iface
      [123, 34, 97, 34, 58, 55, 44, 34, 98, 34, 58, 91, 53, 44, 34, 120, 34, 44, 110, 117, 108, 108, 93, 125] = some u2 ∧
    marshalJson ⟨none, []⟩ exTs exA exTrs 200 exIt.iface u2 =
      some [123, 34, 97, 34, 58, 55, 44, 34, 98, 34, 58, 91, 53, 44, 34, 120, 34, 44, 110, 117, 108, 108, 93, 125] :=
  fixpoint_json ⟨none, []⟩ exTs exA exTrs exIt 200 3 exU _ (by decide) exEnv exHu exHj exHmJ (by decide)

/-! ### The statements as first written, and their refutation (fuel) -/

def untyped_roundtrip_statement : Prop :=
  ∀ (ts : Types) (a : Atlas) (trs : Trs) (it : IfaceTys) (fuel n : Nat) (u : Val) (toks : List Tok),
    UEnv ts a it → isU it n u = true → marshalV ts a trs fuel it.iface u = ⟨toks, none⟩ →
    toks.length + n + 64 < fuel →
    unmV ts a trs it fuel it.iface (.iface none) toks = .ok (sortU a.defaultSort n u) [] toks.length

def fixpoint_tokens_statement : Prop :=
  ∀ (ts : Types) (a : Atlas) (trs : Trs) (it : IfaceTys) (fuel n : Nat) (u : Val) (toks : List Tok),
    UEnv ts a it → isU it n u = true → marshalV ts a trs fuel it.iface u = ⟨toks, none⟩ →
    toks.length + n + 64 < fuel →
    ∃ u', unmV ts a trs it fuel it.iface (.iface none) toks = .ok u' [] toks.length ∧
          marshalV ts a trs fuel it.iface u' = ⟨toks, none⟩

/-- (with the `smallU` of this file; the counterexample below has no container longer than one element, so it
    satisfies the definition as first written as well) -/
def fixpoint_cbor_statement : Prop :=
  ∀ (ts : Types) (a : Atlas) (trs : Trs) (it : IfaceTys) (fuel n : Nat) (u1 : Val) (b2 : Bytes),
    UEnv ts a it → isU it n u1 = true → smallU n u1 = true →
    marshalCbor ts a trs fuel it.iface u1 = some b2 → 2 * b2.length + n + 64 < fuel →
    ∃ u2, unmarshalCbor ts a trs it fuel it.iface b2 = some u2 ∧ marshalCbor ts a trs fuel it.iface u2 = some b2

/-- `[[…[nil]…]]`, `d` levels of `[]interface{}` -/
def nest : Nat → Val
  | 0 => .iface none
  | d+1 => .iface (some (8, .slice (some [nest d])))
def nestToks : Nat → List Tok
  | 0 => [⟨.null, none⟩]
  | d+1 => ⟨.arrOpen 1, none⟩ :: (nestToks d ++ [⟨.arrClose, none⟩])

set_option maxRecDepth 100000 in
theorem cex_isU : isU exIt 34 (nest 33) = true := by with_unfolding_all rfl
set_option maxRecDepth 100000 in
theorem cex_small : smallU 34 (nest 33) = true := by with_unfolding_all rfl
set_option maxRecDepth 100000 in
theorem cex_tree : (treeU exA.defaultSort 34 (nest 33)).flatten = nestToks 33 := by with_unfolding_all rfl
theorem cex_len : (nestToks 33).length = 67 := by with_unfolding_all rfl
set_option maxRecDepth 100000 in
/-- fuel 167 is exactly enough for the marshaller … -/
theorem cex_marshal : marshalV exTs exA exTrs 167 exIt.iface (nest 33) = ⟨nestToks 33, none⟩ := by with_unfolding_all rfl
set_option maxRecDepth 100000 in
/-- … but the unmarshaller runs out of fuel at the innermost token -/
theorem cex_unm : unmV exTs exA exTrs exIt 167 exIt.iface (.iface none) (nestToks 33) = .panic 33 := by with_unfolding_all rfl
set_option maxRecDepth 100000 in
theorem cex_marshalCbor : marshalCbor exTs exA exTrs 167 exIt.iface (nest 33) = some (List.replicate 33 129 ++ [246]) := by
  with_unfolding_all rfl

theorem untyped_roundtrip_statement_false : ¬ untyped_roundtrip_statement := by
  intro h
  have := h exTs exA exTrs exIt 167 34 (nest 33) (nestToks 33) exEnv cex_isU cex_marshal (by rw [cex_len]; decide)
  rw [cex_unm] at this
  cases this

theorem fixpoint_tokens_statement_false : ¬ fixpoint_tokens_statement := by
  intro h
  obtain ⟨u', h1, _⟩ := h exTs exA exTrs exIt 167 34 (nest 33) (nestToks 33) exEnv cex_isU cex_marshal
    (by rw [cex_len]; decide)
  rw [cex_unm] at h1
  cases h1

theorem fixpoint_cbor_statement_false : ¬ fixpoint_cbor_statement := by
  intro h
  obtain ⟨u2, h1, _⟩ := h exTs exA exTrs exIt 167 34 (nest 33) _ exEnv cex_isU cex_small cex_marshalCbor (by decide)
  rw [unmarshalCbor_eq exTs exA exTrs exIt 167 34 (nest 33) _ exEnv cex_isU cex_small cex_marshalCbor, cex_tree] at h1
  have e : zeroVal exTs 64 exIt.iface = .iface none := rfl
  rw [e, cex_unm] at h1
  cases h1

end Refmt.C12
