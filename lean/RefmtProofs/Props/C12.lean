/-
  C12 — re-marshalling a decoded document reaches a byte-exact fixpoint.

  The chain in refmt is  v ─M→ b1 ─U(untyped)→ u1 ─M→ b2 ─U(untyped)→ u2 ─M→ b3  and the claim is b3 = b2
  (and that b2 still decodes into v's own type to a value equal to v: that part is the round-trip
  specification `normV` shared with C01 and is carried by the correspondence stream `remarshal`).

  The proof obligation that tests cannot reach is about *every* value an untyped slot can hold:

  * `unm_yields_untyped`  : whatever token list the untyped unmarshaller accepts, the value it builds is a
                            native untyped value (`isU`): nil, bool, int, uint64 (only above MaxInt64), float64,
                            string, byte string, []interface{} and map[string]interface{} of such.
  * `untyped_roundtrip`   : marshalling a native untyped value and unmarshalling the tokens into an untyped slot
                            gives the value back with every map's entries in the marshaller's (sorted) key order (`sortU`).
  * `marshal_sortU`       : sorting the entries does not change what is marshalled (the marshaller sorts).
  * `fixpoint_tokens`     : hence  M (U (M u)) = M u  on tokens, for every native untyped value u.
  * `unm_canon_untyped`   : the untyped unmarshaller does not see the difference between a token list and what the
                            CBOR codec returns for it (`C02.canonTok`: non-negative ints come back unsigned).
  * `fixpoint_cbor`       : the byte-level statement for CBOR, composing the encoder model, the decoder model
                            (C02's round trip) and the two object machines:  b3 = b2.
  * `native_first_pass_cbor` : for native untyped values the first re-marshal is already byte-identical (b2 = b1).
  * `fixpoint_json`       : the same for JSON on what JSON can carry (no byte strings, finite floats whose printed
                            text re-reads exactly (`C03.FloatsOk`-style hypothesis), no float -0).
-/
import RefmtModel
import RefmtProofs.Props.C02
import RefmtProofs.Props.C03
import RefmtProofs.Props.C08
set_option linter.unusedSimpArgs false
set_option linter.unusedVariables false
namespace Refmt.C12
open Refmt Refmt.Obj

/-- The untyped universe as the harness (and Go) sets it up: the ids in `it` name the predeclared types, which
    the atlas cannot override, and the two untyped container types, which have no atlas entry. -/
structure UEnv (ts : Types) (a : Atlas) (it : IfaceTys) : Prop where
  iface : ts.get it.iface = .iface false
  str : ts.get it.str = .prim .string true
  bytes : ts.get it.bytes = .bytes true
  bool : ts.get it.bool = .prim .bool true
  int : ts.get it.int = .prim .int true
  uint64 : ts.get it.uint64 = .prim .uint64 true
  f64 : ts.get it.f64 = .prim .f64 true
  mapSI : ts.get it.mapSI = .map it.str it.iface
  sliceI : ts.get it.sliceI = .slice it.iface
  noMap : a.get it.mapSI = none
  noSlice : a.get it.sliceI = none
  noIface : a.get it.iface = none

def keyOf : Val → Bytes
  | .str s => s
  | _ => []

/-- native untyped values (fuel-bounded structural check); map keys are strings and pairwise distinct -/
def isU (it : IfaceTys) : Nat → Val → Bool
  | 0, _ => false
  | _+1, .iface none => true
  | f+1, .iface (some (d, x)) =>
    (match x with
     | .str _ => d == it.str
     | .bytes (some _) => d == it.bytes
     | .bool _ => d == it.bool
     | .int i => d == it.int && decide (-(two63 : Int) ≤ i) && decide (i < (two63 : Int))
     | .uint n => d == it.uint64 && decide (two63 ≤ n) && decide (n < two64)
     | .float b => d == it.f64 && decide (b < two64)
     | .slice (some vs) => d == it.sliceI && vs.all (isU it f)
     | .map (some es) => d == it.mapSI && es.all (fun (k, y) => (match k with | .str _ => true | _ => false) && isU it f y)
                         && decide ((es.map fun (k, _) => keyOf k).Nodup)
     | _ => false)
  | _, _ => false

/-- the same value with every map's entries put into the marshaller's key order -/
def sortU (mode : KeySort) : Nat → Val → Val
  | 0, v => v
  | f+1, .iface (some (d, .slice (some vs))) => .iface (some (d, .slice (some (vs.map (sortU mode f)))))
  | f+1, .iface (some (d, .map (some es))) =>
    .iface (some (d, .map (some ((sortKeys mode (es.map fun (k, y) => (keyOf k, sortU mode f y))).map fun (k, y) => (Val.str k, y)))))
  | _, v => v

/-- every token is one the codecs can carry (Go-representable numbers, tags absent: no registered tagged types are involved) -/
def tokPlain (t : Tok) : Bool :=
  t.tag.isNone &&
  (match t.body with
   | .uint n => decide (n < two64)
   | .int i => decide (-(two63 : Int) ≤ i) && decide (i < (two63 : Int))
   | .float b => decide (b < two64)
   | _ => true)

theorem unm_yields_untyped (ts : Types) (a : Atlas) (trs : Trs) (it : IfaceTys) (fuel : Nat) (cur : Val)
    (toks rest : List Tok) (v : Val) (used : Nat) (he : UEnv ts a it) (hp : toks.all tokPlain = true)
    (h : unmV ts a trs it fuel it.iface cur toks = .ok v rest used) :
    isU it fuel v = true := by
  sorry

theorem untyped_roundtrip (ts : Types) (a : Atlas) (trs : Trs) (it : IfaceTys) (fuel n : Nat) (u : Val) (toks : List Tok)
    (he : UEnv ts a it) (hu : isU it n u = true) (hm : marshalV ts a trs fuel it.iface u = ⟨toks, none⟩)
    (hf : toks.length + n + 64 < fuel) :
    unmV ts a trs it fuel it.iface (.iface none) toks = .ok (sortU a.defaultSort n u) [] toks.length := by
  sorry

theorem marshal_sortU (ts : Types) (a : Atlas) (trs : Trs) (it : IfaceTys) (fuel n : Nat) (u : Val)
    (he : UEnv ts a it) (hu : isU it n u = true) :
    marshalV ts a trs fuel it.iface (sortU a.defaultSort n u) = marshalV ts a trs fuel it.iface u := by
  sorry

/-- token-level fixpoint: M (U (M u)) = M u -/
theorem fixpoint_tokens (ts : Types) (a : Atlas) (trs : Trs) (it : IfaceTys) (fuel n : Nat) (u : Val) (toks : List Tok)
    (he : UEnv ts a it) (hu : isU it n u = true) (hm : marshalV ts a trs fuel it.iface u = ⟨toks, none⟩)
    (hf : toks.length + n + 64 < fuel) :
    ∃ u', unmV ts a trs it fuel it.iface (.iface none) toks = .ok u' [] toks.length ∧
          marshalV ts a trs fuel it.iface u' = ⟨toks, none⟩ := by
  sorry

/-- the untyped unmarshaller gives the same value for the tokens as the CBOR codec hands them back -/
theorem unm_canon_untyped (ts : Types) (a : Atlas) (trs : Trs) (it : IfaceTys) (fuel : Nat) (cur : Val) (toks : List Tok)
    (he : UEnv ts a it) (hp : toks.all tokPlain = true) :
    unmV ts a trs it fuel it.iface cur (toks.map C02.canonTok) =
      (match unmV ts a trs it fuel it.iface cur toks with
       | .ok v r k => .ok v (r.map C02.canonTok) k
       | x => x) := by
  sorry

/-! ### byte level, CBOR -/

/-- refmt.Marshal for CBOR in the model: marshal, then run the encoder machine over the tokens -/
def marshalCbor (ts : Types) (a : Atlas) (trs : Trs) (fuel id : Nat) (v : Val) : Option Bytes :=
  let mo := marshalV ts a trs fuel id v
  match mo.fail with
  | some _ => none
  | none =>
    let (fl, ws) := runOut CborEnc.step CborEnc.init mo.toks
    if fl.getLast? = some Flag.done then some ws.flatten else none

/-- refmt.Unmarshal for CBOR in the model: decode one item, hand its tokens to the unmarshaller -/
def unmarshalCbor (ts : Types) (a : Atlas) (trs : Trs) (it : IfaceTys) (fuel id : Nat) (bs : Bytes) : Option Val :=
  let o := CborDec.decode false (Rd.ofBytes bs)
  if o.res.isOk then
    (match unmV ts a trs it fuel id (zeroVal ts 64 id) o.toks with
     | .ok v [] _ => some v
     | _ => none)
  else none

/-- strings and byte strings within the decoder's built-in 32 MiB per-item cap -/
def smallU : Nat → Val → Bool
  | 0, _ => true
  | f+1, .iface (some (_, x)) =>
    (match x with
     | .str s => decide (s.length ≤ 33554432)
     | .bytes (some b) => decide (b.length ≤ 33554432)
     | .slice (some vs) => vs.all (smallU f)
     | .map (some es) => es.all fun (k, y) => decide ((keyOf k).length ≤ 33554432) && smallU f y
     | _ => true)
  | _, _ => true

theorem fixpoint_cbor (ts : Types) (a : Atlas) (trs : Trs) (it : IfaceTys) (fuel n : Nat) (u1 : Val) (b2 : Bytes)
    (he : UEnv ts a it) (hu : isU it n u1 = true) (hs : smallU n u1 = true)
    (hm : marshalCbor ts a trs fuel it.iface u1 = some b2) (hf : 2 * b2.length + n + 64 < fuel) :
    ∃ u2, unmarshalCbor ts a trs it fuel it.iface b2 = some u2 ∧ marshalCbor ts a trs fuel it.iface u2 = some b2 := by
  sorry

/-- for values an untyped slot holds natively the very first re-marshal is byte-identical -/
theorem native_first_pass_cbor (ts : Types) (a : Atlas) (trs : Trs) (it : IfaceTys) (fuel n : Nat) (v : Val) (b1 : Bytes)
    (he : UEnv ts a it) (hu : isU it n v = true) (hs : smallU n v = true)
    (hm : marshalCbor ts a trs fuel it.iface v = some b1) (hf : 2 * b1.length + n + 64 < fuel) :
    ∃ u1, unmarshalCbor ts a trs it fuel it.iface b1 = some u1 ∧ marshalCbor ts a trs fuel it.iface u1 = some b1 :=
  fixpoint_cbor ts a trs it fuel n v b1 he hu hs hm hf

/-! ### byte level, JSON -/

def marshalJson (c : JsonEnc.Cfg) (ts : Types) (a : Atlas) (trs : Trs) (fuel id : Nat) (v : Val) : Option Bytes :=
  let mo := marshalV ts a trs fuel id v
  match mo.fail with
  | some _ => none
  | none =>
    let (fl, ws) := runOut (JsonEnc.step c FloatText.jsonFloat) JsonEnc.init mo.toks
    if fl.getLast? = some Flag.done then some ws.flatten else none

def unmarshalJson (ts : Types) (a : Atlas) (trs : Trs) (it : IfaceTys) (fuel id : Nat) (bs : Bytes) : Option Val :=
  let o := JsonDec.decode (Rd.ofBytes bs)
  if o.res.isOk then
    (match unmV ts a trs it fuel id (zeroVal ts 64 id) o.toks with
     | .ok v [] _ => some v
     | _ => none)
  else none

/-- what JSON can carry: no byte strings, strings valid UTF-8, finite floats other than -0 whose text re-reads
    exactly (the `floatOk` of C03) -/
def jsonU : Nat → Val → Bool
  | 0, _ => true
  | f+1, .iface (some (_, x)) =>
    (match x with
     | .str s => toValidUtf8 s == s
     | .bytes _ => false
     | .float b => (C03L.floatOk b && !floatNonFinite b) && b != 9223372036854775808
     | .slice (some vs) => vs.all (jsonU f)
     | .map (some es) => es.all fun (k, y) => (toValidUtf8 (keyOf k) == keyOf k) && jsonU f y
     | _ => true)
  | _, _ => true

theorem fixpoint_json (c : JsonEnc.Cfg) (ts : Types) (a : Atlas) (trs : Trs) (it : IfaceTys) (fuel n : Nat) (u1 : Val) (b2 : Bytes)
    (hc : C03.cfgOk c = true) (he : UEnv ts a it) (hu : isU it n u1 = true) (hj : jsonU n u1 = true)
    (hm : marshalJson c ts a trs fuel it.iface u1 = some b2) (hf : 2 * b2.length + n + 64 < fuel) :
    ∃ u2, unmarshalJson ts a trs it fuel it.iface b2 = some u2 ∧ marshalJson c ts a trs fuel it.iface u2 = some b2 := by
  sorry

end Refmt.C12
