/-
  C12, claim (ii) WITH TAGGED ATLAS ENTRIES — the re-marshalled document still decodes, into the value's own type, to
  the value.  (Claim (ii) without tags: RefmtProofs/Props/C12Typed.lean, whose `tagged_statement` is the subject here.)

  The chain is   v ─M→ t1 ─U(untyped)→ u1 ─M→ t2 ─U(type of v)→ r.   With a tagged entry the untyped pass does not build
  a native untyped value: the untyped slot sees the tag on the first token, looks the registered type up
  (`Atlas.getByTag`) and reconstructs THAT type, so u1 holds `(e.ty, rtF v)`, the typed round-trip value; the
  re-marshal then writes that value through its own (typed) machine, tag included.  Claim (ii) therefore needs the typed
  round trip to be idempotent on reconstructed values: marshalling `rtF v` must give a rendering that reads back as
  `rtF v` (`IDM`, RefmtProofs/Lemmas/TagIdm*.lean).  That is not always so, whence the extra hypothesis `TagStab`.

  RESULTS.
  `remarshal_typed_leg_tokens_tagged` : `C12Typed.remarshal_typed_leg_tokens` with, in place of `NoTags a`,
        `C12Typed.TagsOk a`   every registered tagged entry is found under its own tag, and
        `TagStab ts a trs`    every registered tagged type is RE-MARSHAL STABLE (`StabTy`, TagDefs.lean): at or below it
                              (through struct fields, elements, map values, pointers, union members, transform targets)
                                * a struct-map field is `omitempty` only if its type is a pointer, or has no atlas entry
                                  (scalars, byte strings, slices, arrays, maps, untyped slots), or is a keyed union
                                  (`OmitOk` / `plainField`: not a struct-map or transform type);
                                * every transform is a retraction: `u x = some w → m w = some x` (`RetractFn`).
        Conclusion as before: for every sufficiently large fuel the untyped pass consumes t1 exactly, the re-marshal
        succeeds, t2 read into a zero value of type `id` is consumed exactly and yields EXACTLY `rtF … v` (what Clone
        returns), which equals the specified value `normV .pretty … v` up to the order of map entries.
        The hypotheses are vacuous for an atlas without tags (`noTags_tagsOk`, `noTags_tagStab`), so the theorem contains
        `C12Typed.remarshal_typed_leg_tokens`; nothing is asked of untagged types that are not below a tagged one.
  `remarshal_typed_leg_tokens_tagged_global` : the same with `NoOmit a` (no `omitempty` field anywhere) and
        `TrRetract trs` (all transform pairs are retractions) instead of `TagStab`.
  `remarshal_typed_leg_tokens_tagged_hyp`, `remarshal_typed_leg_cbor_tagged` : hypothesis form, CBOR byte level.
  `remarshal_idempotent`  : the new ingredient on its own: for a re-marshal stable type, `rtF v` marshals (at its own type)
        to a rendering that reads back as `rtF v`.
  `tagStab_of_check` (TagDefs.lean) : a Bool checker for `TagStab` (given which transform pairs are retractions).

  FINDINGS.  `C12Typed.tagged_statement` (TagsOk alone) is FALSE: `tagged_statement_false`.
    * `omitempty` on a struct-typed field under a tag (`oe*` below).  T = struct{F S `omitempty`} registered with tag 50,
      S = struct{P *[]byte; Sl []int}, v = T{F: S{P: &nil, Sl: []int{}}}.  F is not empty (P is a non-nil pointer), so t1
      carries it: `50({f: {p: null, s: []}})`.  The untyped pass reconstructs T{F: S{P: nil, Sl: []int{}}} — now F IS
      empty (nil pointer, empty slice) — and the re-marshal omits it: t2 = `50({})`.  Reading t2 into T gives
      T{F: S{P: nil, Sl: nil}}, whereas the specified value (and Clone's result) has Sl = []int{} (non-nil).  Without tags
      the untyped pass builds a `map[string]interface{}`, which has no `omitempty`, and the property holds
      (`C12Typed.remarshal_typed_leg_tokens`).  This is a disagreement between claim (ii) and refmt as modelled; it
      needs `omitempty` on a field whose round-trip value can be empty without being the zero value (a struct, or a
      transform's result).  On fields of the other kinds `omitempty` is harmless (`TagOmit.lean`, `ok*` below).
    * transforms that are not retractions (`nr*` below, evaluated at fuel 40): a tagged transform with `u x = {x+1}`,
      `m {y} = y`: the untyped pass applies `u`, the re-marshal `m`, the final typed read `u` again; the value read
      from t2 is one more than the specified value.  Without tags the untyped pass never leaves the wire form.
    * `TagsOk` itself is needed (`C12Typed.dup_tag_untyped_pass_fails`: two registered types sharing a tag).

  PROOF.  `Refmt.Obj.idm_all` (TagIdm1–4, TagOmit): an induction over the marshaller's fuel, parallel to `C13Full`'s `RTF`,
  showing for every value of a stable type that `rtF v` re-marshals to a rendering of the same head shape (`Hd2T`) which
  reads back as `rtF v`.  `Refmt.Obj.legt_all` (TagLeg1–5): the `LEG` induction of C12Typed with tags allowed on first
  tokens; at a tagged struct map / transform (`legt_b_tagged`) and at an untyped slot (`legt_b_wild`) it uses `RTF` + `IDM`
  instead of its own induction hypothesis (there the untyped pass IS the typed pass).
  Not covered: JSON (tags do not survive JSON); `omitempty` on struct- / transform-typed fields below a tag (false in
  general, see above); transforms that are retractions only on the image of their marshal function.
  Non-vacuity: `fu_tagged` / `fu_eval` (C13Full's `fuV`: a struct holding a keyed union, an untyped slot with a tagged
  struct and a tagged transform inside a `[]interface{}`, a tagged transform field and a pointer to one), `ok_tagged`.
-/
import RefmtModel
import RefmtProofs.Lemmas.TagLeg5
import RefmtProofs.Props.C12Typed
set_option linter.unusedSimpArgs false
set_option linter.unusedVariables false
namespace Refmt.C12Tagged
open Refmt Refmt.Obj Refmt.C13 Refmt.C11 Refmt.C12 Refmt.C12Typed

/-- Claim (ii) at token level, tagged entries allowed.  `TagsOk a`: every registered tagged entry is found under its own
    tag.  `TagStab ts a trs`: every registered tagged type is re-marshal stable (`StabTy`: at or below it, struct-map
    fields are `OmitOk` and transforms are retractions). -/
theorem remarshal_typed_leg_tokens_tagged (ts : Types) (a : Atlas) (trs : Trs) (it : IfaceTys) (fuel0 g id : Nat) (v : Val)
    (t1 : List Tok)
    (hp : fullTy ts a 64 id = true) (hv : hasTy ts 1000 id v = true) (hside : fullVal ts a trs it g id v = true)
    (he : UEnv ts a it) (hz : ZeroStable ts) (htr : TrsEqv trs)
    (hto : TagsOk a) (hts : TagStab ts a trs)
    (hm : marshalV ts a trs fuel0 id v = ⟨t1, none⟩) (h0 : fuel0 ≤ 1000) (hg : fuel0 ≤ g) :
    ∃ N, ∀ fuel, N ≤ fuel → ∃ u1 t2 r,
      unmV ts a trs it fuel it.iface (.iface none) t1 = .ok u1 [] t1.length ∧
      marshalV ts a trs fuel it.iface u1 = ⟨t2, none⟩ ∧
      unmV ts a trs it fuel id (zeroVal ts 64 id) t2 = .ok r [] t2.length ∧
      r = rtF ts a trs it g id v ∧
      ValEqv'' r (normV .pretty ts a trs it g id v) := by
  obtain ⟨u, tk2, N, hgood⟩ :=
    (legt_all he hz htr hto hts fuel0 h0).v 64 1000 id v t1 g (Nat.le_refl _) hp hv hg hside hm
  refine ⟨N, fun fuel hF => ⟨u, tk2, rtF ts a trs it g id v, ?_, (hgood.1.2 fuel hF).2, ?_, rfl,
    (rtf_eqv_norm htr he g).1 64 id v (Nat.le_refl _) hp hside⟩⟩
  · have := (hgood.1.2 fuel hF).1 []
    rw [zeroVal_iface he] at this
    simpa using this
  · have := hgood.2 fuel hF []
    simpa using this

/-- the same with the two extra hypotheses stated on the whole atlas / on all transform pairs -/
theorem remarshal_typed_leg_tokens_tagged_global (ts : Types) (a : Atlas) (trs : Trs) (it : IfaceTys) (fuel0 g id : Nat) (v : Val)
    (t1 : List Tok)
    (hp : fullTy ts a 64 id = true) (hv : hasTy ts 1000 id v = true) (hside : fullVal ts a trs it g id v = true)
    (he : UEnv ts a it) (hz : ZeroStable ts) (htr : TrsEqv trs)
    (hto : TagsOk a) (hno : NoOmit a) (hret : TrRetract trs)
    (hm : marshalV ts a trs fuel0 id v = ⟨t1, none⟩) (h0 : fuel0 ≤ 1000) (hg : fuel0 ≤ g) :
    ∃ N, ∀ fuel, N ≤ fuel → ∃ u1 t2 r,
      unmV ts a trs it fuel it.iface (.iface none) t1 = .ok u1 [] t1.length ∧
      marshalV ts a trs fuel it.iface u1 = ⟨t2, none⟩ ∧
      unmV ts a trs it fuel id (zeroVal ts 64 id) t2 = .ok r [] t2.length ∧
      r = rtF ts a trs it g id v ∧
      ValEqv'' r (normV .pretty ts a trs it g id v) :=
  remarshal_typed_leg_tokens_tagged ts a trs it fuel0 g id v t1 hp hv hside he hz htr hto (tagStab_of_global hno hret) hm h0 hg

/-- an atlas without tags satisfies both tag hypotheses: the theorem contains `C12Typed.remarshal_typed_leg_tokens` -/
theorem noTags_tagsOk {a : Atlas} (h : NoTags a) : TagsOk a := by
  intro e he _ ht
  rw [h e he] at ht
  cases ht

theorem noTags_tagStab {a : Atlas} (ts : Types) (trs : Trs) (h : NoTags a) : TagStab ts a trs := by
  intro e he _ ht
  rw [h e he] at ht
  cases ht

/-- the same in hypothesis form -/
theorem remarshal_typed_leg_tokens_tagged_hyp (ts : Types) (a : Atlas) (trs : Trs) (it : IfaceTys) (fuel0 g id : Nat) (v : Val)
    (t1 : List Tok)
    (hp : fullTy ts a 64 id = true) (hv : hasTy ts 1000 id v = true) (hside : fullVal ts a trs it g id v = true)
    (he : UEnv ts a it) (hz : ZeroStable ts) (htr : TrsEqv trs)
    (hto : TagsOk a) (hts : TagStab ts a trs)
    (hm : marshalV ts a trs fuel0 id v = ⟨t1, none⟩) (h0 : fuel0 ≤ 1000) (hg : fuel0 ≤ g) :
    ∃ N, ∀ fuel, N ≤ fuel → ∀ (u1 : Val) (k : Nat) (t2 : List Tok),
      unmV ts a trs it fuel it.iface (.iface none) t1 = .ok u1 [] k →
      marshalV ts a trs fuel it.iface u1 = ⟨t2, none⟩ →
      ∃ r, unmV ts a trs it fuel id (zeroVal ts 64 id) t2 = .ok r [] t2.length ∧
        ValEqv'' r (normV .pretty ts a trs it g id v) := by
  obtain ⟨N, hN⟩ := remarshal_typed_leg_tokens_tagged ts a trs it fuel0 g id v t1 hp hv hside he hz htr hto hts hm h0 hg
  refine ⟨N, fun fuel hF u1 k t2 h1 h2 => ?_⟩
  obtain ⟨u1', t2', r, e1, e2, e3, -, e4⟩ := hN fuel hF
  rw [e1] at h1
  cases h1
  rw [e2] at h2
  cases h2
  exact ⟨r, e3, e4⟩

/-- the new ingredient: the round-trip value of a re-marshal stable type marshals, at its own type, to a rendering
    that reads back as itself -/
theorem remarshal_idempotent (ts : Types) (a : Atlas) (trs : Trs) (it : IfaceTys) (fuel0 g id : Nat) (v : Val) (t1 : List Tok)
    (hp : fullTy ts a 64 id = true) (hv : hasTy ts 1000 id v = true) (hside : fullVal ts a trs it g id v = true)
    (he : UEnv ts a it) (hz : ZeroStable ts) (htr : TrsEqv trs) (hst : StabTy ts a trs 64 id) (hts : TagStab ts a trs)
    (hm : marshalV ts a trs fuel0 id v = ⟨t1, none⟩) (h0 : fuel0 ≤ 1000) (hg : fuel0 ≤ g) :
    ∃ t1' N, ∀ fuel, N ≤ fuel →
      marshalV ts a trs fuel id (rtF ts a trs it g id v) = ⟨t1', none⟩ ∧
      unmV ts a trs it fuel id (zeroVal ts 64 id) t1' = .ok (rtF ts a trs it g id v) [] t1'.length := by
  obtain ⟨tk2, N, -, hgood⟩ := (idm_all he hz htr hts fuel0 h0).v 64 1000 id v t1 g (Nat.le_refl _) hp hst hv hg hside hm
  refine ⟨tk2, N, fun fuel hF => ⟨(hgood fuel hF).1, ?_⟩⟩
  have := (hgood fuel hF).2 []
  simpa using this

/-- Claim (ii) for CBOR, tagged entries allowed (as `C12Typed.remarshal_typed_leg_cbor`). -/
theorem remarshal_typed_leg_cbor_tagged (ts : Types) (a : Atlas) (trs : Trs) (it : IfaceTys) (fuel0 g id : Nat) (v : Val)
    (t1 : List Tok)
    (hp : fullTy ts a 64 id = true) (hv : hasTy ts 1000 id v = true) (hside : fullVal ts a trs it g id v = true)
    (he : UEnv ts a it) (hz : ZeroStable ts) (htr : TrsEqv trs)
    (hto : TagsOk a) (hts : TagStab ts a trs)
    (hm : marshalV ts a trs fuel0 id v = ⟨t1, none⟩) (h0 : fuel0 ≤ 1000) (hg : fuel0 ≤ g)
    (hc1 : t1.all C01.carryCbor = true) :
    ∃ N, ∀ fuel, N ≤ fuel → ∃ b1 u1 t2,
      C01.encodeCbor t1 = some b1 ∧
      viaDecCbor ts a trs it fuel it.iface b1 = some u1 ∧
      marshalV ts a trs fuel it.iface u1 = ⟨t2, none⟩ ∧
      (t2.all C01.carryCbor = true → ∃ b2 r,
        C01.encodeCbor t2 = some b2 ∧ viaDecCbor ts a trs it fuel id b2 = some r ∧
        ValEqv'' r (normV .pretty ts a trs it g id v)) := by
  obtain ⟨N, hN⟩ := remarshal_typed_leg_tokens_tagged ts a trs it fuel0 g id v t1 hp hv hside he hz htr hto hts hm h0 hg
  refine ⟨N, fun fuel hF => ?_⟩
  obtain ⟨u1, t2, r, e1, e2, e3, -, e4⟩ := hN fuel hF
  obtain ⟨b1, hb1, ht1, hr1, -⟩ := C01.transport_cbor ts a trs fuel0 id v t1 hm hc1
  have hfit1 : t1.all C01.intFits = true :=
    List.all_eq_true.mpr fun t ht => C01.carryCbor_intFits (List.all_eq_true.mp hc1 t ht)
  refine ⟨b1, u1, t2, hb1, ?_, e2, fun hc2 => ?_⟩
  · unfold viaDecCbor
    simp only [ht1, hr1, Except.isOk, Except.toBool, if_true, zeroVal_iface he]
    rw [C01.unm_canon_fixed ts a trs it fuel it.iface _ t1 hfit1, e1]
    simp [C01.URes.mapRest]
  · obtain ⟨b2, hb2, ht2, hr2, -⟩ := C01.transport_cbor ts a trs fuel it.iface u1 t2 e2 hc2
    have hfit2 : t2.all C01.intFits = true :=
      List.all_eq_true.mpr fun t ht => C01.carryCbor_intFits (List.all_eq_true.mp hc2 t ht)
    refine ⟨b2, r, hb2, ?_, e4⟩
    unfold viaDecCbor
    simp only [ht2, hr2, Except.isOk, Except.toBool, if_true]
    rw [C01.unm_canon_fixed ts a trs it fuel id _ t2 hfit2, e3]
    simp [C01.URes.mapRest]

/-! ### Non-vacuity: `C13Full.fuV`

  Type 0 = `struct{U union; I interface{}; T transform; P *transform}`; the value holds, inside the untyped slot, a
  `[]interface{}` with a nil, an int, a TAGGED struct (type 13, tag 50) and a TAGGED transform (type 30, tag 60), and the
  transform type 30 also as a field and behind a pointer. -/

open Refmt.C13Full in
theorem fu_tagsOk : TagsOk fuA := by unfold TagsOk; decide

open Refmt.C13Full in
theorem fu_retract : TrRetract fuTrs := by
  intro fn x w h
  simp only [fuTrs] at h ⊢
  split at h
  · cases h; simp
  · cases h

open Refmt.C13Full in
theorem fu_tagStab : TagStab fuTs fuA fuTrs :=
  tagStab_of_check (rfn := fun _ => true) (fun fn _ => fu_retract fn) (by decide)

open Refmt.C13Full in
theorem fu_marshal : marshalV fuTs fuA fuTrs 60 0 fuV = ⟨(marshalV fuTs fuA fuTrs 60 0 fuV).toks, none⟩ := by
  have hok : (marshalV fuTs fuA fuTrs 60 0 fuV).fail = none := by with_unfolding_all decide
  cases hm : marshalV fuTs fuA fuTrs 60 0 fuV with
  | mk t f => rw [hm] at hok; simp at hok; rw [hok]

open Refmt.C13Full in
/-- the theorem applies to `fuV` -/
theorem fu_tagged : ∃ N, ∀ fuel, N ≤ fuel → ∃ u1 t2 r,
    unmV fuTs fuA fuTrs fuIt fuel fuIt.iface (.iface none) (marshalV fuTs fuA fuTrs 60 0 fuV).toks =
      .ok u1 [] (marshalV fuTs fuA fuTrs 60 0 fuV).toks.length ∧
    marshalV fuTs fuA fuTrs fuel fuIt.iface u1 = ⟨t2, none⟩ ∧
    unmV fuTs fuA fuTrs fuIt fuel 0 (zeroVal fuTs 64 0) t2 = .ok r [] t2.length ∧
    r = rtF fuTs fuA fuTrs fuIt 1001 0 fuV ∧
    ValEqv'' r (normV .pretty fuTs fuA fuTrs fuIt 1001 0 fuV) :=
  remarshal_typed_leg_tokens_tagged fuTs fuA fuTrs fuIt 60 1001 0 fuV _ (by decide) (by decide) (by decide)
    fu_env fu_zero fu_trsEqv fu_tagsOk fu_tagStab fu_marshal (by omega) (by omega)

open Refmt.C13Full in
/-- the first rendering of `fuV` (tags 50 and 60 on the first tokens of the tagged items) -/
def fuT1 : List Tok := [⟨.mapOpen 4, none⟩,
  ⟨.str [117], none⟩, ⟨.mapOpen 1, none⟩, ⟨.str [66], none⟩, ⟨.mapOpen 1, none⟩, ⟨.str [115], none⟩, ⟨.str [1, 2], none⟩,
    ⟨.mapClose, none⟩, ⟨.mapClose, none⟩,
  ⟨.str [105], none⟩, ⟨.arrOpen 4, none⟩, ⟨.null, none⟩, ⟨.int 5, none⟩,
    ⟨.mapOpen 1, some 50⟩, ⟨.str [121], none⟩, ⟨.int 9, none⟩, ⟨.mapClose, none⟩, ⟨.str [3, 4], some 60⟩, ⟨.arrClose, none⟩,
  ⟨.str [116], none⟩, ⟨.str [1, 2], some 60⟩,
  ⟨.str [112], none⟩, ⟨.str [5, 6], some 60⟩, ⟨.mapClose, none⟩]

/-- what the untyped pass makes of it: native maps / slices, except behind the tags, where the registered types 13 and 30
    are reconstructed -/
def fuU1 : Val := .iface (some (7, .map (some [
  (.str [117], .iface (some (7, .map (some [(.str [66], .iface (some (7, .map (some [(.str [115], .iface (some (1, .str [1, 2])))]))))])))),
  (.str [105], .iface (some (8, .slice (some [.iface none, .iface (some (2, .int 5)), .iface (some (13, .struct [.int 9])),
    .iface (some (30, .struct [.int 3, .int 4]))])))),
  (.str [116], .iface (some (30, .struct [.int 1, .int 2]))),
  (.str [112], .iface (some (30, .struct [.int 5, .int 6])))])))

/-- the re-marshalled rendering: entries in key order (i, p, t, u), the tags still on the tagged items -/
def fuT2 : List Tok := [⟨.mapOpen 4, none⟩,
  ⟨.str [105], none⟩, ⟨.arrOpen 4, none⟩, ⟨.null, none⟩, ⟨.int 5, none⟩,
    ⟨.mapOpen 1, some 50⟩, ⟨.str [121], none⟩, ⟨.int 9, none⟩, ⟨.mapClose, none⟩, ⟨.str [3, 4], some 60⟩, ⟨.arrClose, none⟩,
  ⟨.str [112], none⟩, ⟨.str [5, 6], some 60⟩,
  ⟨.str [116], none⟩, ⟨.str [1, 2], some 60⟩,
  ⟨.str [117], none⟩, ⟨.mapOpen 1, none⟩, ⟨.str [66], none⟩, ⟨.mapOpen 1, none⟩, ⟨.str [115], none⟩, ⟨.str [1, 2], none⟩,
    ⟨.mapClose, none⟩, ⟨.mapClose, none⟩, ⟨.mapClose, none⟩]

set_option maxRecDepth 20000 in
open Refmt.C13Full in
/-- the chain on `fuV`, evaluated at fuel 60 -/
theorem fu_eval :
    marshalV fuTs fuA fuTrs 60 0 fuV = ⟨fuT1, none⟩ ∧
    unmV fuTs fuA fuTrs fuIt 60 20 (.iface none) fuT1 = .ok fuU1 [] 24 ∧
    marshalV fuTs fuA fuTrs 60 20 fuU1 = ⟨fuT2, none⟩ ∧
    unmV fuTs fuA fuTrs fuIt 60 0 (zeroVal fuTs 64 0) fuT2 = .ok fuV [] 24 ∧
    fuT2 ≠ fuT1 := by
  refine ⟨by with_unfolding_all rfl, by with_unfolding_all rfl, ?_, by with_unfolding_all rfl, by decide⟩
  simp [marshalV, marshalBare, marshalEntries, marshalList, marshalFields, traverse, machForEntry, peel, fuTs, fuA, fuU1, fuT2, fuTrs,
    Types.get, List.lookup, pickBare, Atlas.get, sortKeys, List.mergeSort, List.merge, keyLe, bytesLe, bytesLt, MOut.seq,
    MOut.ok, primTok, retagFirst, emitP, isEmpty]

/-! ### Non-vacuity: `omitempty` under a tag on fields of plain kinds

  Type 0 = `struct{A int; P *[]byte; S []int}`, all three fields `omitempty`, registered with tag 50;
  v = `{A: 0, P: &nil, S: []int{}}`.  A and S are empty and not written; P is a non-nil pointer, written as null, and
  comes back nil — so the re-marshal omits all three fields; the result is the zero struct, as specified. -/

def okTs : Types := [
  (0, .struct [⟨[65], 2, true, false, none⟩, ⟨[80], 40, true, false, none⟩, ⟨[83], 41, true, false, none⟩]),
  (40, .ptr 3), (41, .slice 2),
  (1, .prim .string true), (2, .prim .int true), (3, .bytes true), (4, .prim .bool true), (5, .prim .uint64 true), (6, .prim .f64 true),
  (7, .map 1 20), (8, .slice 20), (20, .iface false)]
def okA : Atlas := ⟨[⟨true, 0, some 50,
  .structMap [⟨[97], false, [0], 2, true⟩, ⟨[112], false, [1], 40, true⟩, ⟨[115], false, [2], 41, true⟩]⟩], .default⟩
def okV : Val := .struct [.int 0, .ptr (some (.bytes none)), .slice (some [])]
def okT1 : List Tok := [⟨.mapOpen 1, some 50⟩, ⟨.str [112], none⟩, ⟨.null, none⟩, ⟨.mapClose, none⟩]

theorem ok_env : UEnv okTs okA lgIt := by constructor <;> decide
theorem ok_zero : ZeroStable okTs := zeroStable_of_check _ (by decide)
theorem ok_tagsOk : TagsOk okA := by unfold TagsOk; decide
theorem ok_tagStab : TagStab okTs okA lgTrs :=
  tagStab_of_check (rfn := fun _ => true) (fun fn _ x w h => by simp [lgTrs] at h) (by decide)
theorem ok_marshal : marshalV okTs okA lgTrs 30 0 okV = ⟨okT1, none⟩ := by with_unfolding_all rfl

theorem ok_tagged : ∃ N, ∀ fuel, N ≤ fuel → ∃ u1 t2 r,
    unmV okTs okA lgTrs lgIt fuel lgIt.iface (.iface none) okT1 = .ok u1 [] okT1.length ∧
    marshalV okTs okA lgTrs fuel lgIt.iface u1 = ⟨t2, none⟩ ∧
    unmV okTs okA lgTrs lgIt fuel 0 (zeroVal okTs 64 0) t2 = .ok r [] t2.length ∧
    r = rtF okTs okA lgTrs lgIt 100 0 okV ∧
    ValEqv'' r (normV .pretty okTs okA lgTrs lgIt 100 0 okV) :=
  remarshal_typed_leg_tokens_tagged okTs okA lgTrs lgIt 30 100 0 okV okT1 (by decide) (by decide) (by decide)
    ok_env ok_zero lg_trsEqv ok_tagsOk ok_tagStab ok_marshal (by omega) (by omega)

/-- evaluated at fuel 40: the re-marshalled document is `50({})`, read back as the zero struct = the specified value -/
theorem ok_eval :
    unmV okTs okA lgTrs lgIt 40 20 (.iface none) okT1 = .ok (.iface (some (0, .struct [.int 0, .ptr none, .slice none]))) [] 4 ∧
    marshalV okTs okA lgTrs 40 20 (.iface (some (0, .struct [.int 0, .ptr none, .slice none]))) =
      ⟨[⟨.mapOpen 0, some 50⟩, ⟨.mapClose, none⟩], none⟩ ∧
    unmV okTs okA lgTrs lgIt 40 0 (zeroVal okTs 64 0) [⟨.mapOpen 0, some 50⟩, ⟨.mapClose, none⟩] =
      .ok (.struct [.int 0, .ptr none, .slice none]) [] 2 ∧
    normV .pretty okTs okA lgTrs lgIt 100 0 okV = .struct [.int 0, .ptr none, .slice none] := by
  refine ⟨by with_unfolding_all rfl, by with_unfolding_all rfl, by with_unfolding_all rfl, by with_unfolding_all rfl⟩

/-! ### `C12Typed.tagged_statement` is false: `omitempty` on a struct-typed field under a tag -/

def oeTs : Types := [
  (0, .struct [⟨[70], 30, true, false, none⟩]),
  (30, .struct [⟨[80], 40, true, false, none⟩, ⟨[83], 41, true, false, none⟩]),
  (40, .ptr 3), (41, .slice 2),
  (1, .prim .string true), (2, .prim .int true), (3, .bytes true), (4, .prim .bool true), (5, .prim .uint64 true), (6, .prim .f64 true),
  (7, .map 1 20), (8, .slice 20), (20, .iface false)]
/-- T (type 0, tag 50) = `struct{F S "omitempty"}`, S (type 30) = `struct{P *[]byte; Sl []int}` -/
def oeA : Atlas := ⟨[⟨true, 0, some 50, .structMap [⟨[102], false, [0], 30, true⟩]⟩,
                     ⟨true, 30, none, .structMap [⟨[112], false, [0], 40, false⟩, ⟨[115], false, [1], 41, false⟩]⟩], .default⟩
/-- `T{F: S{P: &nil, Sl: []int{}}}` -/
def oeV : Val := .struct [.struct [.ptr (some (.bytes none)), .slice (some [])]]
/-- Clone's result, the specified value, and what the untyped pass reconstructs: `T{F: S{P: nil, Sl: []int{}}}` -/
def oeW : Val := .struct [.struct [.ptr none, .slice (some [])]]
/-- what the re-marshalled document reads as: `T{F: S{P: nil, Sl: nil}}` -/
def oeX : Val := .struct [.struct [.ptr none, .slice none]]
def oeT1 : List Tok := [⟨.mapOpen 1, some 50⟩, ⟨.str [102], none⟩, ⟨.mapOpen 2, none⟩, ⟨.str [112], none⟩, ⟨.null, none⟩,
  ⟨.str [115], none⟩, ⟨.arrOpen 0, none⟩, ⟨.arrClose, none⟩, ⟨.mapClose, none⟩, ⟨.mapClose, none⟩]
def oeT2 : List Tok := [⟨.mapOpen 0, some 50⟩, ⟨.mapClose, none⟩]

theorem oe_env : UEnv oeTs oeA lgIt := by constructor <;> decide
theorem oe_zero : ZeroStable oeTs := zeroStable_of_check _ (by decide)
theorem oe_tagsOk : TagsOk oeA := by unfold TagsOk; decide

theorem oe_facts :
    fullTy oeTs oeA 64 0 = true ∧ hasTy oeTs 1000 0 oeV = true ∧ fullVal oeTs oeA lgTrs lgIt 100 0 oeV = true ∧
    hasTy oeTs 1000 0 oeX = true ∧ fullVal oeTs oeA lgTrs lgIt 100 0 oeX = true := by decide

theorem oe_m1 : marshalV oeTs oeA lgTrs 30 0 oeV = ⟨oeT1, none⟩ := by with_unfolding_all rfl
theorem oe_m2 : marshalV oeTs oeA lgTrs 30 20 (.iface (some (0, oeW))) = ⟨oeT2, none⟩ := by with_unfolding_all rfl
theorem oe_m3 : marshalV oeTs oeA lgTrs 30 0 oeX = ⟨oeT2, none⟩ := by with_unfolding_all rfl
theorem oe_rt1 : rtF oeTs oeA lgTrs lgIt 100 0 oeV = oeW := by with_unfolding_all rfl
theorem oe_rt3 : rtF oeTs oeA lgTrs lgIt 100 0 oeX = oeX := by with_unfolding_all rfl
theorem oe_norm : normV .pretty oeTs oeA lgTrs lgIt 100 0 oeV = oeW := by with_unfolding_all rfl

/-- a nil slice is not an empty slice -/
theorem oe_not_eqv : ¬ ValEqv'' oeX oeW := by
  intro h
  unfold oeX oeW at h
  cases h with
  | struct _ h1 =>
    have h2 := h1 0 _ _ rfl rfl
    cases h2 with
    | struct _ h3 =>
      have h4 := h3 1 _ _ rfl rfl
      cases h4

/-- the chain on the counterexample, at every fuel from 40 on: the untyped pass reconstructs `oeW`, the re-marshal omits
    the (now empty) field, and the typed read of `50({})` gives `oeX` -/
theorem oe_chain (fuel : Nat) (hF : 40 ≤ fuel) :
    unmV oeTs oeA lgTrs lgIt fuel 20 (.iface none) oeT1 = .ok (.iface (some (0, oeW))) [] 10 ∧
    marshalV oeTs oeA lgTrs fuel 20 (.iface (some (0, oeW))) = ⟨oeT2, none⟩ ∧
    unmV oeTs oeA lgTrs lgIt fuel 0 (zeroVal oeTs 64 0) oeT2 = .ok oeX [] 2 := by
  obtain ⟨hp, hv, hs, hvx, hsx⟩ := oe_facts
  refine ⟨?_, C07.marshal_fuel_mono_le _ _ _ 30 fuel _ _ _ oe_m2 (by simp) (by omega), ?_⟩
  · have h1 := ((rtf_all oe_env oe_zero lg_trsEqv 30 (by omega)).v 64 1000 0 oeV oeT1 100 (Nat.le_refl _) hp hv (by omega) hs oe_m1).2
    obtain ⟨F, rfl⟩ : ∃ F', fuel = F' + 3 := ⟨fuel - 3, by omega⟩
    have h2 := h1 (F + 1) (by omega) []
    rw [oe_rt1] at h2
    have hnp : ∀ e, oeTs.get 0 ≠ .ptr e := by intro e; simp [oeTs, Types.get]
    unfold oeT1 at h2 ⊢
    rw [List.cons_append, unmV_nonptr oeTs oeA lgTrs lgIt hnp] at h2
    rw [show (20 : Nat) = lgIt.iface from rfl, uV_iface lgTrs oe_env]
    have hbt : oeA.getByTag 50 = some ⟨true, 0, some 50, .structMap [⟨[102], false, [0], 30, true⟩]⟩ := by decide
    exact C20.untyped_known_tag oeTs oeA lgTrs lgIt F _ 50 _ _ _ _ _ hbt h2
  · have h1 := ((rtf_all oe_env oe_zero lg_trsEqv 30 (by omega)).v 64 1000 0 oeX oeT2 100 (Nat.le_refl _) hp hvx (by omega) hsx oe_m3).2
    have h2 := h1 fuel (by omega) []
    rw [oe_rt3] at h2
    simpa [oeT2] using h2

/-- FINDING: `TagsOk` alone does not give claim (ii): the re-marshal of the reconstructed struct omits a field that the
    first rendering carried, and the final typed read returns a nil slice where the specified value has an empty one. -/
theorem tagged_statement_false : ¬ tagged_statement := by
  intro h
  obtain ⟨hp, hv, hs, -, -⟩ := oe_facts
  obtain ⟨N, hN⟩ := h oeTs oeA lgTrs lgIt 30 100 0 oeV oeT1 hp hv hs oe_env oe_zero lg_trsEqv oe_tagsOk oe_m1 (by omega) (by omega)
  obtain ⟨u1, t2, r, e1, e2, e3, e4⟩ := hN (max N 40) (Nat.le_max_left _ _)
  obtain ⟨c1, c2, c3⟩ := oe_chain (max N 40) (Nat.le_max_right _ _)
  rw [show lgIt.iface = 20 from rfl, c1] at e1
  cases e1
  rw [show lgIt.iface = 20 from rfl, c2] at e2
  cases e2
  rw [c3] at e3
  cases e3
  rw [oe_norm] at e4
  exact oe_not_eqv e4

/-- the field that breaks it is not `OmitOk`: the atlas is not `TagStab` -/
theorem oe_not_stab : tagStabB oeTs oeA (fun _ => true) = false := by decide

/-! ### transforms that are not retractions (evaluated)

  Type 0 = `struct{Y int}` written through the transform pair `m {y} = y`, `u x = {x + 1}`, tag 70.  Clone returns (and
  `normV` specifies) `{6}` for `{5}`; the untyped pass reconstructs `{6}`, the re-marshal writes `70(6)`, and the final
  typed read returns `{7}`. -/

def nrTs : Types := [
  (0, .struct [⟨[89], 2, true, false, none⟩]),
  (1, .prim .string true), (2, .prim .int true), (3, .bytes true), (4, .prim .bool true), (5, .prim .uint64 true), (6, .prim .f64 true),
  (7, .map 1 20), (8, .slice 20), (20, .iface false)]
def nrA : Atlas := ⟨[⟨true, 0, some 70, .transform 0 2 2⟩], .default⟩
def nrTrs : Trs :=
  ⟨fun _ v => match v with | .struct [.int y] => some (.int y) | _ => none,
   fun _ v => match v with | .int x => some (.struct [.int (x + 1)]) | _ => none⟩

theorem nr_not_retract : ¬ RetractFn nrTrs 0 := by
  intro h
  have := h (.int 5) (.struct [.int 6]) rfl
  simp [nrTrs] at this

theorem nr_eval :
    fullTy nrTs nrA 64 0 = true ∧ hasTy nrTs 1000 0 (.struct [.int 5]) = true ∧
    fullVal nrTs nrA nrTrs lgIt 100 0 (.struct [.int 5]) = true ∧
    marshalV nrTs nrA nrTrs 30 0 (.struct [.int 5]) = ⟨[⟨.int 5, some 70⟩], none⟩ ∧
    clone nrTs nrA nrTrs lgIt 100 0 (.struct [.int 5]) = some (.struct [.int 6]) ∧
    normV .pretty nrTs nrA nrTrs lgIt 100 0 (.struct [.int 5]) = .struct [.int 6] ∧
    unmV nrTs nrA nrTrs lgIt 40 20 (.iface none) [⟨.int 5, some 70⟩] = .ok (.iface (some (0, .struct [.int 6]))) [] 1 ∧
    marshalV nrTs nrA nrTrs 40 20 (.iface (some (0, .struct [.int 6]))) = ⟨[⟨.int 6, some 70⟩], none⟩ ∧
    unmV nrTs nrA nrTrs lgIt 40 0 (zeroVal nrTs 64 0) [⟨.int 6, some 70⟩] = .ok (.struct [.int 7]) [] 1 := by
  refine ⟨by decide, by decide, by decide, by with_unfolding_all rfl, by with_unfolding_all rfl, by with_unfolding_all rfl,
    by with_unfolding_all rfl, by with_unfolding_all rfl, by with_unfolding_all rfl⟩

end Refmt.C12Tagged
