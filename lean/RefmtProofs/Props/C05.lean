/-
  C05 — the JSON decoder agrees with RFC 8259 on what to accept and what it means.

  The specification is the recursive-descent reference reader `Spec.Json.parse`
  (one value at the front of the input; the single leniency `,]` / `,}`), whose
  lexical level is pinned to the RFC grammar by two independent, structurally
  written recognisers below (`isNumber`, `isStringBody`).

  * `refine`          : for every byte string the decoder machine yields exactly the tokens of the value
                        the reference reader reads, done on its last token, leaving exactly the reference
                        reader's rest (the number look-ahead byte sits in push-back); and it returns an
                        error whenever the reference reader rejects.
  * `number_dfa`      : the eight-state number scanner accepts exactly the RFC 8259 number grammar.
  * `string_dfa`      : the six-state string scanner accepts exactly the RFC 8259 string-body grammar.
  * `unquote_total`   : `parseString` never fails on a body the scanner accepted.
  * `reject_*`        : the rejections the property lists, as corollaries on the reference reader.
-/
import RefmtModel
import RefmtProofs.Lemmas.JsonDec
set_option linter.unusedSimpArgs false
set_option linter.unusedVariables false
namespace Refmt.C05
open Refmt Refmt.JsonDec

/-! ### RFC 8259 lexical grammar, written structurally (independent of the scanners) -/

def digits1 (bs : Bytes) : Bool := !bs.isEmpty && bs.all isDigit

/-- int = "0" / ( digit1-9 *DIGIT ) -/
def isIntPart (bs : Bytes) : Bool :=
  match bs with
  | [48] => true
  | d :: r => 49 ≤ d && d ≤ 57 && r.all isDigit
  | [] => false

/-- exp = ( "e" / "E" ) [ "-" / "+" ] 1*DIGIT, given without the leading e -/
def isExpTail (bs : Bytes) : Bool :=
  match bs with
  | 43 :: r => digits1 r
  | 45 :: r => digits1 r
  | r => digits1 r

/-- number = [ "-" ] int [ "." 1*DIGIT ] [ exp ] -/
def isNumber (bs : Bytes) : Bool :=
  let body := match bs with | 45 :: r => r | r => r
  let mant := body.takeWhile fun c => c != 101 && c != 69
  let rest := body.dropWhile fun c => c != 101 && c != 69
  let ip := mant.takeWhile (· != 46)
  let fr := mant.dropWhile (· != 46)
  isIntPart ip &&
  (match fr with | [] => true | _ :: f => digits1 f) &&
  (match rest with | [] => true | _ :: e => isExpTail e)

/-- Run the number scanner over a whole text from the state chosen by its first byte;
    accept iff every byte is consumed and the final state may end a number. -/
def dfaNumber (bs : Bytes) : Bool :=
  match bs with
  | [] => false
  | b :: r =>
    if !(b == 45 || isDigit b) then false else
    let st : NS := if b == 45 then .neg else if b == 48 then .s0 else .s1
    let rec go : NS → Bytes → Bool
      | st, [] => (match numStep st 32 with | .ok _ => true | .error _ => false)
      | st, c :: cs => (match numStep st c with | .ok (some st') => go st' cs | _ => false)
    go st r

/-! #### number scanner: what `go` computes from each state -/

def notE (c : Nat) : Bool := c != 101 && c != 69
def notDot (c : Nat) : Bool := c != 46

theorem go_e0 (cs : Bytes) : dfaNumber.go .e0 cs = cs.all isDigit := by
  induction cs with
  | nil => simp [dfaNumber.go, numStep, isDigit]
  | cons c cs ih =>
    by_cases h : isDigit c = true <;> simp [dfaNumber.go, numStep, h, ih]

theorem go_eSign (cs : Bytes) : dfaNumber.go .eSign cs = digits1 cs := by
  cases cs with
  | nil => simp [dfaNumber.go, numStep, isDigit, digits1]
  | cons c cs =>
    by_cases h : isDigit c = true <;> simp [dfaNumber.go, numStep, h, digits1, go_e0]

theorem go_e (cs : Bytes) : dfaNumber.go .e cs = isExpTail cs := by
  cases cs with
  | nil => simp [dfaNumber.go, numStep, isDigit, digits1, isExpTail]
  | cons c cs =>
    by_cases h43 : c = 43
    · subst h43; simp [dfaNumber.go, numStep, isExpTail, go_eSign]
    by_cases h45 : c = 45
    · subst h45; simp [dfaNumber.go, numStep, isExpTail, go_eSign]
    have : isExpTail (c :: cs) = digits1 (c :: cs) := by
      unfold isExpTail
      split
      · rename_i h; simp at h; exact (h43 h.1).elim
      · rename_i h; simp at h; exact (h45 h.1).elim
      · rfl
    rw [this]
    by_cases h : isDigit c = true <;> simp [dfaNumber.go, numStep, h, digits1, go_e0, h43, h45]

theorem go_dot0 (f : Bytes) (hf : f.all notE = true) : dfaNumber.go .dot0 f = f.all isDigit := by
  induction f with
  | nil => simp [dfaNumber.go, numStep, isDigit]
  | cons c cs ih =>
    simp only [List.all_cons, Bool.and_eq_true] at hf
    have hc := hf.1
    simp only [notE, Bool.and_eq_true, bne_iff_ne, ne_eq] at hc
    by_cases h : isDigit c = true <;> simp [dfaNumber.go, numStep, h, ih hf.2, hc.1, hc.2]

theorem go_dot (f : Bytes) (hf : f.all notE = true) : dfaNumber.go .dot f = digits1 f := by
  cases f with
  | nil => simp [dfaNumber.go, numStep, isDigit, digits1]
  | cons c cs =>
    simp only [List.all_cons, Bool.and_eq_true] at hf
    by_cases h : isDigit c = true <;> simp [dfaNumber.go, numStep, h, digits1, go_dot0 cs hf.2]

theorem go_s1 (r : Bytes) (he : r.all notE = true) (hd : r.all notDot = true) :
    dfaNumber.go .s1 r = r.all isDigit := by
  induction r with
  | nil => simp [dfaNumber.go, numStep, isDigit]
  | cons c cs ih =>
    simp only [List.all_cons, Bool.and_eq_true] at he hd
    have hc := he.1
    simp only [notE, Bool.and_eq_true, bne_iff_ne, ne_eq] at hc
    have hc2 := hd.1
    simp only [notDot, bne_iff_ne, ne_eq] at hc2
    by_cases h : isDigit c = true <;> simp [dfaNumber.go, numStep, h, ih he.2 hd.2, hc.1, hc.2, hc2]

theorem go_s0 (r : Bytes) (he : r.all notE = true) (hd : r.all notDot = true) :
    dfaNumber.go .s0 r = r.isEmpty := by
  cases r with
  | nil => simp [dfaNumber.go, numStep, isDigit]
  | cons c cs =>
    simp only [List.all_cons, Bool.and_eq_true] at he hd
    have hc := he.1
    simp only [notE, Bool.and_eq_true, bne_iff_ne, ne_eq] at hc
    have hc2 := hd.1
    simp only [notDot, bne_iff_ne, ne_eq] at hc2
    simp [dfaNumber.go, numStep, hc.1, hc.2, hc2]

theorem go_neg (r : Bytes) (he : r.all notE = true) (hd : r.all notDot = true) :
    dfaNumber.go .neg r = isIntPart r := by
  cases r with
  | nil => simp [dfaNumber.go, numStep, isDigit, isIntPart]
  | cons c cs =>
    simp only [List.all_cons, Bool.and_eq_true] at he hd
    by_cases h48 : c = 48
    · subst h48
      simp only [dfaNumber.go, numStep, beq_self_eq_true, if_true, go_s0 cs he.2 hd.2]
      cases cs <;> simp [isIntPart]
    · have : isIntPart (c :: cs) = (decide (49 ≤ c) && decide (c ≤ 57) && cs.all isDigit) := by
        unfold isIntPart
        split
        · rename_i h; simp at h; exact (h48 h.1).elim
        · rename_i h; simp at h; rw [h.1, h.2]
        · rename_i h; simp at h
      rw [this]
      by_cases h : 49 ≤ c ∧ c ≤ 57
      · simp [dfaNumber.go, numStep, h48, h.1, h.2, go_s1 cs he.2 hd.2]
      · have h' : (decide (49 ≤ c) && decide (c ≤ 57)) = false := by
          rw [Bool.and_eq_false_iff]; simp only [decide_eq_false_iff_not]; omega
        simp only [dfaNumber.go, numStep]
        simp [h48, h']

def isInt : NS → Bool | .neg | .s0 | .s1 => true | _ => false
def isM : NS → Bool | .neg | .s0 | .s1 | .dot | .dot0 => true | _ => false

theorem go_int_split (ip f : Bytes) (he : ip.all notE = true) (hd : ip.all notDot = true) :
    ∀ st, isInt st = true → dfaNumber.go st (ip ++ 46 :: f) = (dfaNumber.go st ip && dfaNumber.go .dot f) := by
  induction ip with
  | nil => intro st hst; cases st <;> simp [isInt] at hst <;> simp [dfaNumber.go, numStep, isDigit]
  | cons c cs ih =>
    intro st hst
    simp only [List.all_cons, Bool.and_eq_true] at he hd
    have hc := he.1
    simp only [notE, Bool.and_eq_true, bne_iff_ne, ne_eq] at hc
    have hc2 := hd.1
    simp only [notDot, bne_iff_ne, ne_eq] at hc2
    have ih' := ih he.2 hd.2
    cases st <;> simp [isInt] at hst
    · -- neg
      simp only [List.cons_append, dfaNumber.go, numStep]
      by_cases h48 : c = 48
      · simp [h48, ih' .s0 rfl]
      · by_cases h : 49 ≤ c ∧ c ≤ 57
        · simp [h48, h.1, h.2, ih' .s1 rfl]
        · have : ¬ ((decide (49 ≤ c) && decide (c ≤ 57)) = true) := by simpa using h
          simp [h48, this]
    · -- s0
      simp [dfaNumber.go, numStep, hc.1, hc.2, hc2]
    · -- s1
      by_cases h : isDigit c = true <;> simp [dfaNumber.go, numStep, h, hc.1, hc.2, hc2, ih' .s1 rfl]

theorem go_mant_split (m e : Bytes) (c : Nat) (hce : c = 101 ∨ c = 69) (he : m.all notE = true) :
    ∀ st, isM st = true → dfaNumber.go st (m ++ c :: e) = (dfaNumber.go st m && dfaNumber.go .e e) := by
  induction m with
  | nil =>
    intro st hst
    rcases hce with rfl | rfl <;> cases st <;> simp [isM] at hst <;> simp [dfaNumber.go, numStep, isDigit]
  | cons x cs ih =>
    intro st hst
    simp only [List.all_cons, Bool.and_eq_true] at he
    have hc := he.1
    simp only [notE, Bool.and_eq_true, bne_iff_ne, ne_eq] at hc
    have ih' := ih he.2
    cases st <;> simp [isM] at hst
    · -- neg
      simp only [List.cons_append, dfaNumber.go, numStep]
      by_cases h48 : x = 48
      · simp [h48, ih' .s0 rfl]
      · by_cases h : 49 ≤ x ∧ x ≤ 57
        · simp [h48, h.1, h.2, ih' .s1 rfl]
        · have : ¬ ((decide (49 ≤ x) && decide (x ≤ 57)) = true) := by simpa using h
          simp [h48, this]
    · -- s0
      by_cases h46 : x = 46 <;> simp [dfaNumber.go, numStep, hc.1, hc.2, h46, ih' .dot rfl]
    · -- s1
      by_cases h : isDigit x = true
      · simp [dfaNumber.go, numStep, h, hc.1, hc.2, ih' .s1 rfl]
      · by_cases h46 : x = 46
        · subst h46; simp [dfaNumber.go, numStep, show isDigit 46 = false by decide, ih' .dot rfl]
        · simp [dfaNumber.go, numStep, h, hc.1, hc.2, h46]
    · -- dot
      by_cases h : isDigit x = true <;> simp [dfaNumber.go, numStep, h, hc.1, hc.2, ih' .dot0 rfl]
    · -- dot0
      by_cases h : isDigit x = true <;> simp [dfaNumber.go, numStep, h, hc.1, hc.2, ih' .dot0 rfl]


theorem tw_all (p q : Nat → Bool) (l : Bytes) (h : l.all p = true) : (l.takeWhile q).all p = true := by
  induction l with
  | nil => rfl
  | cons x xs ih =>
    simp only [List.all_cons, Bool.and_eq_true] at h
    simp only [List.takeWhile_cons]
    split
    · simp only [List.all_cons, Bool.and_eq_true]; exact ⟨h.1, ih h.2⟩
    · rfl

theorem dw_all (p q : Nat → Bool) (l : Bytes) (h : l.all p = true) : (l.dropWhile q).all p = true := by
  induction l with
  | nil => rfl
  | cons x xs ih =>
    have h' := h
    simp only [List.all_cons, Bool.and_eq_true] at h'
    simp only [List.dropWhile_cons]
    split
    · exact ih h'.2
    · exact h

theorem tw_self (p : Nat → Bool) (l : Bytes) : (l.takeWhile p).all p = true := by
  induction l with
  | nil => rfl
  | cons x xs ih =>
    simp only [List.takeWhile_cons]
    split
    · rename_i h; simp only [List.all_cons, Bool.and_eq_true]; exact ⟨h, ih⟩
    · rfl

theorem dw_head (p : Nat → Bool) (l : Bytes) (c : Nat) (e : Bytes) (h : l.dropWhile p = c :: e) : p c = false := by
  induction l with
  | nil => simp at h
  | cons x xs ih =>
    simp only [List.dropWhile_cons] at h
    split at h
    · exact ih h
    · rename_i hx
      simp only [List.cons.injEq] at h
      rw [← h.1]; simpa using hx

theorem number_split (mant rest : Bytes) (hm : mant.all notE = true)
    (hr : ∀ c e, rest = c :: e → c = 101 ∨ c = 69) :
    dfaNumber.go .neg (mant ++ rest) =
      (dfaNumber.go .neg mant && match (generalizing := false) rest with | [] => true | _ :: e => isExpTail e) := by
  cases rest with
  | nil => simp
  | cons c e =>
    rw [go_mant_split mant e c (hr c e rfl) hm .neg rfl, go_e]

theorem mant_split (ip fr : Bytes) (he : ip.all notE = true) (hd : ip.all notDot = true)
    (hfr : ∀ c f, fr = c :: f → c = 46 ∧ f.all notE = true) :
    dfaNumber.go .neg (ip ++ fr) = (isIntPart ip && match (generalizing := false) fr with | [] => true | _ :: f => digits1 f) := by
  cases fr with
  | nil => simp [go_neg ip he hd]
  | cons c f =>
    obtain ⟨rfl, hf⟩ := hfr c f rfl
    rw [go_int_split ip f he hd .neg rfl, go_neg ip he hd, go_dot f hf]

theorem go_neg_body (body : Bytes) :
    dfaNumber.go .neg body =
      (isIntPart ((body.takeWhile notE).takeWhile notDot) &&
       (match (body.takeWhile notE).dropWhile notDot with | [] => true | _ :: f => digits1 f) &&
       (match body.dropWhile notE with | [] => true | _ :: e => isExpTail e)) := by
  have h1 := number_split (body.takeWhile notE) (body.dropWhile notE) (tw_self _ _) (by
    intro c e h
    have h1 := dw_head _ _ _ _ h
    simp only [notE, Bool.and_eq_false_iff, bne_eq_false_iff_eq] at h1
    exact h1)
  rw [List.takeWhile_append_dropWhile] at h1
  have h2 := mant_split ((body.takeWhile notE).takeWhile notDot) ((body.takeWhile notE).dropWhile notDot)
    (tw_all _ _ _ (tw_self _ _)) (tw_self _ _) (by
      intro c f h
      have h1 := dw_head _ _ _ _ h
      have h2 := dw_all notE notDot _ (tw_self notE body)
      rw [h] at h2
      simp only [List.all_cons, Bool.and_eq_true] at h2
      refine ⟨?_, h2.2⟩
      simpa [notDot] using h1)
  rw [List.takeWhile_append_dropWhile] at h2
  rw [h1, h2]
  rfl

theorem dfa_neg (r : Bytes) : dfaNumber (45 :: r) = dfaNumber.go .neg r := by simp [dfaNumber]

theorem dfa_pos (b : Nat) (r : Bytes) (h45 : b ≠ 45) : dfaNumber (b :: r) = dfaNumber.go .neg (b :: r) := by
  simp only [dfaNumber, dfaNumber.go, numStep]
  by_cases h48 : b = 48
  · subst h48; simp [isDigit]
  · by_cases h : 49 ≤ b ∧ b ≤ 57
    · have hd : isDigit b = true := by simp [isDigit]; omega
      have : (decide (49 ≤ b) && decide (b ≤ 57)) = true := by simp; omega
      simp [h45, h48, hd, this]
    · have hd : isDigit b = false := by simp [isDigit]; omega
      have : (decide (49 ≤ b) && decide (b ≤ 57)) = false := by
        rw [Bool.and_eq_false_iff]; simp only [decide_eq_false_iff_not]; omega
      simp [h45, h48, hd, this]

theorem number_dfa (bs : Bytes) : dfaNumber bs = isNumber bs := by
  cases bs with
  | nil => decide
  | cons b r =>
    by_cases h45 : b = 45
    · subst h45
      rw [dfa_neg, go_neg_body]
      rfl
    · unfold isNumber
      split
      · rename_i h; simp at h; exact (h45 h.1).elim
      · rw [dfa_pos b r h45, go_neg_body]
        rfl

/-- char = unescaped / "\" ( one of "\/bfnrt or uXXXX ); unescaped = any byte >= 0x20 except " and \ -/
def isStringBody : Bytes → Bool
  | [] => true
  | 92 :: 117 :: a :: b :: c :: d :: r => isHex a && isHex b && isHex c && isHex d && isStringBody r
  | 92 :: e :: r =>
    (e == 34 || e == 92 || e == 47 || e == 98 || e == 102 || e == 110 || e == 114 || e == 116) && isStringBody r
  | c :: r => c != 34 && c != 92 && c ≥ 0x20 && isStringBody r

/-- the string scanner, run over a body followed by the closing quote -/
def dfaStringBody (bs : Bytes) : Bool :=
  let rec go : SS → Bytes → Bool
    | st, [] => (match strStep st 34 with | .ok none => true | _ => false)
    | st, c :: cs => (match strStep st c with | .ok (some st') => go st' cs | _ => false)
  go .normal bs

theorem go_u0_short (r : Bytes) (h : ∀ (a b c d : Nat) (r1 : List Nat), r = a :: b :: c :: d :: r1 → False) :
    dfaStringBody.go .u0 r = false := by
  have h34 : isHex 34 = false := by decide
  match r with
  | [] => simp [dfaStringBody.go, strStep, h34]
  | [a] => by_cases ha : isHex a <;> simp [dfaStringBody.go, strStep, h34, ha]
  | [a, b] => by_cases ha : isHex a <;> by_cases hb : isHex b <;> simp [dfaStringBody.go, strStep, h34, ha, hb]
  | [a, b, c] =>
    by_cases ha : isHex a <;> by_cases hb : isHex b <;> by_cases hc : isHex c <;>
      simp [dfaStringBody.go, strStep, h34, ha, hb, hc]
  | a :: b :: c :: d :: r1 => exact (h a b c d r1 rfl).elim

theorem go_normal (bs : Bytes) : dfaStringBody.go .normal bs = isStringBody bs := by
  fun_induction isStringBody bs with
  | case1 => simp [dfaStringBody.go, strStep]
  | case2 a b c d r ih =>
    simp only [dfaStringBody.go, strStep]
    simp
    by_cases ha : isHex a <;> simp [ha]
    by_cases hb : isHex b <;> simp [hb]
    by_cases hc : isHex c <;> simp [hc]
    by_cases hd : isHex d <;> simp [hd]
    exact ih
  | case3 e r hne ih =>
    simp only [dfaStringBody.go, strStep]
    simp
    by_cases h1 : ((((((e = 98 ∨ e = 102) ∨ e = 110) ∨ e = 114) ∨ e = 116) ∨ e = 92) ∨ e = 47) ∨ e = 34
    · rw [if_pos h1]
      simp only [ih]
      have : (e == 34 || e == 92 || e == 47 || e == 98 || e == 102 || e == 110 || e == 114 || e == 116) = true := by
        simp; omega
      simp [this]
    · rw [if_neg h1]
      have : (e == 34 || e == 92 || e == 47 || e == 98 || e == 102 || e == 110 || e == 114 || e == 116) = false := by
        simp; omega
      simp only [this, Bool.false_and]
      by_cases h2 : e = 117
      · rw [if_pos h2]
        simp only
        exact go_u0_short r (fun a b c d r1 hr => hne a b c d r1 h2 hr)
      · rw [if_neg h2]
  | case4 c r h1 h2 ih =>
    by_cases hc : c = 92
    · subst hc
      have : r = [] := by
        cases r with
        | nil => rfl
        | cons e r1 => exact (h2 e r1 rfl rfl).elim
      subst this
      simp [dfaStringBody.go, strStep]
    · simp only [dfaStringBody.go, strStep]
      by_cases h34 : c = 34
      · simp [h34]
      · by_cases hlt : c < 32
        · have : ¬ c ≥ 32 := by omega
          simp [h34, hc, hlt, this]
        · have : c ≥ 32 := by omega
          simp [h34, hc, hlt, this, ih]

theorem string_dfa (bs : Bytes) : dfaStringBody bs = isStringBody bs := go_normal bs

theorem isb_hi (c : Nat) (r : Bytes) (hc : 0x80 ≤ c) : isStringBody (c :: r) = isStringBody r := by
  have h92 : c ≠ 92 := by omega
  have h34 : c ≠ 34 := by omega
  rw [isStringBody.eq_4]
  · have : c ≥ 32 := by omega
    simp [h92, h34, this]
  · intro a b c' d r1 h; exact (h92 h).elim
  · intro e r1 h; exact (h92 h).elim

theorem isb_drop_rune (c : Nat) (rest : Bytes) (hc : 0x80 ≤ c) (h : isStringBody (c :: rest) = true) :
    isStringBody ((c :: rest).drop (max (decodeRune (c :: rest)).2 1)) = true := by
  rw [isb_hi c rest hc] at h
  have hlt : ¬ c < 0x80 := by omega
  simp only [decodeRune]
  repeat' split
  all_goals simp_all [isCont]
  all_goals
    simp (disch := omega) only [isb_hi] at h
    exact h

theorem isb_u (rest : Bytes) (h : isStringBody (92 :: 117 :: rest) = true) :
    ∃ a b c d r, rest = a :: b :: c :: d :: r ∧ isHex a = true ∧ isHex b = true ∧ isHex c = true ∧ isHex d = true ∧
      isStringBody r = true := by
  match rest, h with
  | [], h => simp [isStringBody] at h
  | [a], h => simp [isStringBody] at h
  | [a, b], h => simp [isStringBody] at h
  | [a, b, c], h => simp [isStringBody] at h
  | a :: b :: c :: d :: r, h =>
    simp only [isStringBody, Bool.and_eq_true] at h
    exact ⟨a, b, c, d, r, rfl, h.1.1.1.1, h.1.1.1.2, h.1.1.2, h.1.2, h.2⟩

theorem getu4_some (s : Bytes) (x : Nat) (h : getu4 s = some x) :
    ∃ a b c d r, s = 92 :: 117 :: a :: b :: c :: d :: r ∧ isHex a = true ∧ isHex b = true ∧ isHex c = true ∧
      isHex d = true := by
  unfold getu4 at h
  split at h
  · rename_i a b c d r
    split at h
    · rename_i hh
      simp only [Bool.and_eq_true] at hh
      exact ⟨a, b, c, d, r, rfl, hh.1.1.1, hh.1.1.2, hh.1.2, hh.2⟩
    · cases h
  · cases h

theorem map_ex {α β : Type} (f : α → β) (x : Option α) (h : ∃ o, x = some o) : ∃ out, Option.map f x = some out := by
  obtain ⟨o, rfl⟩ := h
  exact ⟨_, rfl⟩

theorem unquote_gen (n : Nat) : ∀ (s : Bytes), s.length < n → isStringBody s = true →
    ∃ out, parseString n s = some out := by
  induction n with
  | zero => intro s h; omega
  | succ n ih =>
    intro s hl hs
    cases s with
    | nil => exact ⟨[], by simp [parseString]⟩
    | cons c rest =>
      simp only [List.length_cons] at hl
      unfold parseString
      by_cases hc : c = 92
      · subst hc
        simp only [beq_self_eq_true, if_true]
        cases rest with
        | nil => simp [isStringBody] at hs
        | cons e rest' =>
          simp only [List.length_cons] at hl
          simp only
          by_cases hu : e = 117
          · subst hu
            obtain ⟨a, b, c, d, r, rfl, ha, hb, hc, hd, hr⟩ := isb_u rest' hs
            simp only [List.length_cons] at hl
            have hg : getu4 (92 :: 117 :: a :: b :: c :: d :: r) =
                some (hexNib a * 4096 + hexNib b * 256 + hexNib c * 16 + hexNib d) := by
              simp [getu4, ha, hb, hc, hd]
            rw [hg]
            simp only [List.drop_succ_cons, List.drop_zero]
            simp only [show (117 == 34 || 117 == 92 || 117 == 47 || 117 == 39) = false by decide,
              show (117 == 98) = false by decide, show (117 == 102) = false by decide,
              show (117 == 110) = false by decide, show (117 == 114) = false by decide,
              show (117 == 116) = false by decide, Bool.false_eq_true, if_false, beq_self_eq_true, if_true]
            have hr' := ih r (by omega) hr
            split
            · split
              · rename_i rr1 hg1
                obtain ⟨a', b', c', d', r2, rfl, _, _, _, _⟩ := getu4_some _ _ hg1
                split
                · simp only [List.drop_succ_cons, List.drop_zero]
                  obtain ⟨_, _, _, _, r3, h3, _, _, _, _, hr3⟩ := isb_u _ hr
                  simp only [List.cons.injEq] at h3
                  obtain ⟨_, _, _, _, rfl⟩ := h3
                  simp only [List.length_cons] at hl
                  exact map_ex _ _ (ih r2 (by omega) hr3)
                · exact map_ex _ _ hr'
              · exact map_ex _ _ hr'
            · exact map_ex _ _ hr'
          · rw [isStringBody.eq_3 _ _ (by intro a b c d r h; exact (hu h).elim)] at hs
            simp only [Bool.and_eq_true, Bool.or_eq_true, beq_iff_eq] at hs
            obtain ⟨he, hr⟩ := hs
            have hr' := ih rest' (by omega) hr
            repeat' split
            all_goals first
              | exact map_ex _ _ hr'
              | (exfalso; simp_all; omega)
              | (exfalso; simp_all)
      · have hc' : (c == 92) = false := by simp [hc]
        rw [hc']
        simp only [Bool.false_eq_true, if_false]
        rw [isStringBody.eq_4 _ _ (by intro a b c' d r1 h; exact (hc h).elim) (by intro e r1 h; exact (hc h).elim)] at hs
        simp only [Bool.and_eq_true, bne_iff_ne, ne_eq, decide_eq_true_eq] at hs
        obtain ⟨⟨⟨h34, _⟩, h32⟩, hr⟩ := hs
        have : ¬ ((c == 34 || decide (c < 32)) = true) := by simp [h34]; omega
        rw [if_neg this]
        by_cases h80 : c < 0x80
        · rw [if_pos h80]
          exact map_ex _ _ (ih rest (by omega) hr)
        · rw [if_neg h80]
          have hb : isStringBody (c :: rest) = true := by rw [isb_hi c rest (by omega)]; exact hr
          have := isb_drop_rune c rest (by omega) hb
          exact map_ex _ _ (ih _ (by simp only [List.length_drop, List.length_cons]; omega) this)

theorem unquote_total (bs : Bytes) (h : isStringBody bs = true) :
    ∃ out, parseString (bs.length + 1) bs = some out := unquote_gen _ bs (by omega) h

/-! ### The machine refines the reference reader -/

theorem refine (bs : Bytes) (hb : ∀ x ∈ bs, x < 256) :
    let o := JsonDec.decode (Rd.ofBytes bs)
    match Spec.Json.parse bs with
    | some (v, rest) => o.toks = v.flatten ∧ o.res = .ok () ∧ o.rd.data = rest
    | none => ∃ e, o.res = .error e :=
  C05L.decode_refines bs

/-! ### Listed rejections (corollaries on the reference reader) -/

/-- a misspelt or truncated literal is rejected -/
theorem reject_literal (rest : Bytes) (h1 : ¬ Spec.Json.startsWith [117, 108, 108] rest) :
    Spec.Json.parse (110 :: rest) = none := by
  have e : 2 * (110 :: rest).length + 2 = (2 * rest.length + 3) + 1 := by simp; omega
  unfold Spec.Json.parse
  rw [e, Spec.Json.parseValue]
  simp [Spec.Json.skip, isWs, h1]

/-- a key that is not a string is rejected -/
theorem reject_nonstring_key (b : Nat) (rest : Bytes) (hb : b ≠ 34) (hc : b ≠ 125) (hw : isWs b = false) :
    Spec.Json.parse (123 :: b :: rest) = none := by
  have e : 2 * (123 :: b :: rest).length + 2 = (2 * rest.length + 4) + 1 + 1 := by simp; omega
  unfold Spec.Json.parse
  rw [e, Spec.Json.parseValue]
  simp only [Spec.Json.skip, isWs]
  simp
  rw [Spec.Json.parseMembers]
  simp [Spec.Json.skip, hw, hc]
  split <;> simp_all

/-- an unterminated document (input ends inside the value) is rejected -/
theorem reject_unterminated_array : Spec.Json.parse [91, 49] = none := by decide

example : (Spec.Json.parse [123, 34, 97, 34, 58, 91, 49, 44, 93, 125, 32, 55]).map (fun p => (p.1.flatten, p.2)) =
    some ([⟨.mapOpen (-1), none⟩, ⟨.str [97], none⟩, ⟨.arrOpen (-1), none⟩, ⟨.int 1, none⟩, ⟨.arrClose, none⟩,
           ⟨.mapClose, none⟩], [32, 55]) := by decide

end Refmt.C05
