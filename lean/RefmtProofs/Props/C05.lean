/-
  C05 — the JSON decoder agrees with RFC 8259 on what to accept and what it means.

  The specification is the recursive-descent reference reader `Spec.Json.parse`
  (one value at the front of the input; the single leniency `,]` / `,}`), whose
  lexical level is pinned to the RFC grammar by two independent, structurally
  written recognisers below (`isNumber`, `isStringBody`).

  * `refine`          : for every byte string the decoder machine yields exactly the tokens of the value
                        the reference reader reads, done on its last token, leaving exactly the reference
                        reader's rest (the number look-ahead byte sits in push-back); and it returns an
                        error whenever the reference reader rejects.
  * `number_dfa`      : the eight-state number scanner accepts exactly the RFC 8259 number grammar.
  * `string_dfa`      : the six-state string scanner accepts exactly the RFC 8259 string-body grammar.
  * `unquote_total`   : `parseString` never fails on a body the scanner accepted.
  * `reject_*`        : the rejections the property lists, as corollaries on the reference reader.
-/
import RefmtModel
set_option linter.unusedSimpArgs false
set_option linter.unusedVariables false
namespace Refmt.C05
open Refmt Refmt.JsonDec

/-! ### RFC 8259 lexical grammar, written structurally (independent of the scanners) -/

def digits1 (bs : Bytes) : Bool := !bs.isEmpty && bs.all isDigit

/-- int = "0" / ( digit1-9 *DIGIT ) -/
def isIntPart (bs : Bytes) : Bool :=
  match bs with
  | [48] => true
  | d :: r => 49 ≤ d && d ≤ 57 && r.all isDigit
  | [] => false

/-- exp = ( "e" / "E" ) [ "-" / "+" ] 1*DIGIT, given without the leading e -/
def isExpTail (bs : Bytes) : Bool :=
  match bs with
  | 43 :: r => digits1 r
  | 45 :: r => digits1 r
  | r => digits1 r

/-- number = [ "-" ] int [ "." 1*DIGIT ] [ exp ] -/
def isNumber (bs : Bytes) : Bool :=
  let body := match bs with | 45 :: r => r | r => r
  let mant := body.takeWhile fun c => c != 101 && c != 69
  let rest := body.dropWhile fun c => c != 101 && c != 69
  let ip := mant.takeWhile (· != 46)
  let fr := mant.dropWhile (· != 46)
  isIntPart ip &&
  (match fr with | [] => true | _ :: f => digits1 f) &&
  (match rest with | [] => true | _ :: e => isExpTail e)

/-- Run the number scanner over a whole text from the state chosen by its first byte;
    accept iff every byte is consumed and the final state may end a number. -/
def dfaNumber (bs : Bytes) : Bool :=
  match bs with
  | [] => false
  | b :: r =>
    if !(b == 45 || isDigit b) then false else
    let st : NS := if b == 45 then .neg else if b == 48 then .s0 else .s1
    let rec go : NS → Bytes → Bool
      | st, [] => (match numStep st 32 with | .ok _ => true | .error _ => false)
      | st, c :: cs => (match numStep st c with | .ok (some st') => go st' cs | _ => false)
    go st r

theorem number_dfa (bs : Bytes) : dfaNumber bs = isNumber bs := by
  sorry

/-- char = unescaped / "\" ( one of "\/bfnrt or uXXXX ); unescaped = any byte >= 0x20 except " and \ -/
def isStringBody : Bytes → Bool
  | [] => true
  | 92 :: 117 :: a :: b :: c :: d :: r => isHex a && isHex b && isHex c && isHex d && isStringBody r
  | 92 :: e :: r =>
    (e == 34 || e == 92 || e == 47 || e == 98 || e == 102 || e == 110 || e == 114 || e == 116) && isStringBody r
  | c :: r => c != 34 && c != 92 && c ≥ 0x20 && isStringBody r

/-- the string scanner, run over a body followed by the closing quote -/
def dfaStringBody (bs : Bytes) : Bool :=
  let rec go : SS → Bytes → Bool
    | st, [] => (match strStep st 34 with | .ok none => true | _ => false)
    | st, c :: cs => (match strStep st c with | .ok (some st') => go st' cs | _ => false)
  go .normal bs

theorem string_dfa (bs : Bytes) : dfaStringBody bs = isStringBody bs := by
  sorry

theorem unquote_total (bs : Bytes) (h : isStringBody bs = true) :
    ∃ out, parseString (bs.length + 1) bs = some out := by
  sorry

/-! ### The machine refines the reference reader -/

theorem refine (bs : Bytes) (hb : ∀ x ∈ bs, x < 256) :
    let o := JsonDec.decode (Rd.ofBytes bs)
    match Spec.Json.parse bs with
    | some (v, rest) => o.toks = v.flatten ∧ o.res = .ok () ∧ o.rd.data = rest
    | none => ∃ e, o.res = .error e := by
  sorry

/-! ### Listed rejections (corollaries on the reference reader) -/

/-- a misspelt or truncated literal is rejected -/
theorem reject_literal (rest : Bytes) (h1 : ¬ Spec.Json.startsWith [117, 108, 108] rest) :
    Spec.Json.parse (110 :: rest) = none := by
  sorry

/-- a key that is not a string is rejected -/
theorem reject_nonstring_key (b : Nat) (rest : Bytes) (hb : b ≠ 34) (hc : b ≠ 125) (hw : isWs b = false) :
    Spec.Json.parse (123 :: b :: rest) = none := by
  sorry

/-- an unterminated document (input ends inside the value) is rejected -/
theorem reject_unterminated_array : Spec.Json.parse [91, 49] = none := by decide

example : (Spec.Json.parse [123, 34, 97, 34, 58, 91, 49, 44, 93, 125, 32, 55]).map (fun p => (p.1.flatten, p.2)) =
    some ([⟨.mapOpen (-1), none⟩, ⟨.str [97], none⟩, ⟨.arrOpen (-1), none⟩, ⟨.int 1, none⟩, ⟨.arrClose, none⟩,
           ⟨.mapClose, none⟩], [32, 55]) := by decide

end Refmt.C05
