/-
  C17 (object unmarshaller), continued: the refinement of the FUNCTIONAL model `unmV` by the STATEFUL model
  (`UM.bind`, `UM.urun`: slab rows, machine stack, one token per Step), beyond single-token targets.

  1. `unmarshaller_refines_fixed_statement` of C17ObjUnmarshal.lean is FALSE
     (`unmarshaller_refines_fixed_statement_false`).  Two independent disagreements, both `decide +kernel`:
       * `clash_deep_ptr`   : a type with more than 64 pointer levels as the element type of a slice / array / map: the
         stateful model (and the library) select the element machine in the container's `Reset`, i.e. in `Bind`, and
         panic; the functional model only when an element arrives.  Excluded by `PtrOk` (decidable).
       * `clash_union_reset`: a keyed union whose member's `Reset` fails (map with a non-string key type, ...): the
         stateful model reports the error at the KEY token, the functional model one token later.  Excluded by
         `UnionOk` (decidable).
     `unmarshaller_refines_fixed2_statement` is the statement with both hypotheses added (NOT proved in general).

  2. PROVED: `unmarshaller_refines_frag` / `unmarshaller_refines_target` (same conclusion as the corrected statement,
     for ANY current content of the target, not only the zero value; only hypothesis on the run: the functional model
     does not panic; machine fuel 14 is enough whatever the functional fuel):
       for every type `id` of a set `S` with `Closed ts a S wi` (decidable; `FragTarget ts a it id` computes `S`),
     i.e. every type reachable from `id` selects (pointer levels peeled off, at most 64) one of
       * the primitive machine (all scalar kinds, byte slices, byte arrays) or an error thunk,
       * the slice machine, the array machine (too many elements, short arrays padded),
       * the map machine (string keys and keys made from strings by an atlas transform; duplicate keys; unsupported
         key type reported at Reset),
       * the struct-map machine (unknown keys, expected-length check, route allocation, field not reachable), with
         IGNORED keys (the value is slurped by a wildcard machine),
       * the wildcard machine for untyped slots (scalars, nested `[]interface{}` / `map[string]interface{}` in
         `slab.tip()`, which need not be the machine's own row: rows leak when a slice / array / map machine receives
         null; interface types with methods), for atlases WITHOUT tagged entries (`NoTags`) and with `ItOk`,
       * the transform machine over one of the primitive / slice / array / map / struct machines (receive type not a
         pointer type, no chained transform: the two cases the library refuses and C17ObjUnmarshal.lean shows to
         disagree); the user function failing is an error at the token that completes the value,
     each directly or behind pointers.  Recursive types are fine (`fS`, `exS`).
     NOT covered: keyed unions, tagged tokens found in the atlas.  Both reconfigure a row in place (`slab.tip()`
     users rewrite the configuration fields of the row they borrow), while the simulation below keeps every row's
     configuration fixed (`SameCfg`); the union machine in addition has phases of its own around its delegate.

  Proof architecture (RefmtProofs/Lemmas/UnmarshalMach*.lean): `Agree` relates a run of the driver to a result of the
  functional model, with the continuation `kont` (pop + absorb into the suspended parent) and the rows left behind
  (`lo` untouched, the machine's row with the same configuration, anything above); `Wr` is the chain of wrapping
  machines (pointer, wildcard, transform; same row or `slab.tip()`) between the driver's current machine and the leaf;
  `SimV/SimB/SimE/SimAr/SimM/SimSt` are the statements for `unmV/unmBare/unmElems/unmMapEntries/unmStruct`, proved
  together by induction on the functional fuel (`sim_all`), one machine per file.
-/
import RefmtProofs.Props.C17ObjUnmarshal
import RefmtProofs.Lemmas.UnmarshalMachMain
open Refmt Refmt.Obj Refmt.Obj.UM Refmt.UMachL

namespace Refmt.C17ObjUnmarshal

/-- no atlas entry carries a tag -/
def NoTags (a : Atlas) : Prop := ∀ e ∈ a.pool, e.tag = none

instance (a : Atlas) : Decidable (NoTags a) := by unfold NoTags; infer_instance

/-- the side condition for untyped slots (needed only when the closed set asks for them, `wi ≠ none`): `wi` names
    `interface{}`, the untyped-slot type ids denote what they should (`ItOk`), no atlas entry carries a tag -/
def UntypedOk (ts : Types) (a : Atlas) (it : IfaceTys) (wi : Option Nat) : Prop :=
  wi = none ∨ (wi = some it.iface ∧ ItOk ts a it ∧ NoTags a)

theorem wildHyp_of {ts : Types} {a : Atlas} {it : IfaceTys} {S : List Nat} {wi : Option Nat}
    (h : UntypedOk ts a it wi) (hw : wildIn S wi) : WildHyp ts a it S := by
  rcases h with rfl | ⟨rfl, ⟨h1, h2, h3, h4, ⟨b, h5⟩, _, _⟩, hnt⟩
  · exact hw.elim
  · refine ⟨h3, h4, ?_, hw, ?_, ?_, ?_, ?_⟩
    · simp [keyFnOfU, h5]
    · simp [peel, h1]
    · simp [upickBare, h1, h2]
    · simp [hasMethods, h1]
    · intro g
      simp only [Atlas.getByTag, List.find?_eq_none]
      intro e he
      simp [hnt e he]

/-- the refinement for every type of a closed set `S` of covered types (`Closed`, decidable): any current content of
    the target, any dirty instance, any token list, machine fuel 14 -/
theorem unmarshaller_refines_frag (ts : Types) (a : Atlas) (trs : Trs) (it : IfaceTys) (S : List Nat)
    (wi : Option Nat) (hS : Closed ts a S wi) (hU : UntypedOk ts a it wi) (id : Nat) (hid : id ∈ S) (fuel : Nat)
    (cur : Val) (toks : List Tok) (hnp : NoPanic (unmV ts a trs it fuel id cur toks)) :
    ∃ N, ∀ sf, N ≤ sf → ∀ dirty : UState,
      urun ts a trs it sf (UM.bind ts a sf dirty id cur) toks = unmV ts a trs it fuel id cur toks :=
  ⟨14, fun sf hsf dirty => refines_closed hS (wildHyp_of hU) hid fuel cur toks hnp sf hsf dirty⟩

/-! ### The class as a decidable predicate on (ts, a, it, id): the closed set is computed -/

/-- the types the machine selected for `id` requisitions machines for -/
def kids (ts : Types) (a : Atlas) (it : IfaceTys) (id : Nat) : List Nat :=
  match upickBare ts a (peel ts 64 0 id).2 with
  | .slice e | .array _ e | .map _ e => [e]
  | .structMap fs => fs.map fun f => if f.ignore then it.iface else f.ty
  | .wildcard => [it.iface]
  | .transform _ uty =>
    (match upickBare ts a uty with
     | .slice e | .array _ e | .map _ e => [e]
     | .structMap fs => fs.map fun f => if f.ignore then it.iface else f.ty
     | _ => [])
  | _ => []

/-- `n` rounds of adding element types -/
def reach (ts : Types) (a : Atlas) (it : IfaceTys) : Nat → List Nat → List Nat
  | 0, S => S
  | n+1, S => reach ts a it n ((S ++ S.flatMap (kids ts a it)).eraseDups)

instance (ts : Types) (a : Atlas) (it : IfaceTys) : Decidable (ItOk ts a it) := by
  unfold ItOk
  have : Decidable (∃ b, ts.get it.str = .prim .string b) :=
    if h1 : ts.get it.str = .prim .string true then isTrue ⟨true, h1⟩
    else if h2 : ts.get it.str = .prim .string false then isTrue ⟨false, h2⟩
    else isFalse (by rintro ⟨b, hb⟩; cases b <;> simp_all)
  infer_instance

/-- `id` is a covered target: the types reachable from it select covered machines only; when untyped slots or ignored
    keys are among them, the untyped-slot ids are right and the atlas has no tags -/
def FragTarget (ts : Types) (a : Atlas) (it : IfaceTys) (id : Nat) : Prop :=
  id ∈ reach ts a it (ts.length + 1) [id] ∧
  (Closed ts a (reach ts a it (ts.length + 1) [id]) none ∨
   (Closed ts a (reach ts a it (ts.length + 1) [id]) (some it.iface) ∧ ItOk ts a it ∧ NoTags a))

instance (ts : Types) (a : Atlas) (it : IfaceTys) (id : Nat) : Decidable (FragTarget ts a it id) := by
  unfold FragTarget; infer_instance

/-- the corrected statement of C17ObjUnmarshal.lean for covered targets (and any current content of the target) -/
theorem unmarshaller_refines_target (ts : Types) (a : Atlas) (trs : Trs) (it : IfaceTys) (id : Nat)
    (h : FragTarget ts a it id) (fuel : Nat) (cur : Val) (toks : List Tok)
    (hnp : NoPanic (unmV ts a trs it fuel id cur toks)) :
    ∃ N, ∀ sf, N ≤ sf → ∀ dirty : UState,
      urun ts a trs it sf (UM.bind ts a sf dirty id cur) toks = unmV ts a trs it fuel id cur toks := by
  obtain ⟨hid, h | ⟨hc, hi, hn⟩⟩ := h
  · exact unmarshaller_refines_frag ts a trs it _ none h (Or.inl rfl) id hid fuel cur toks hnp
  · exact unmarshaller_refines_frag ts a trs it _ (some it.iface) hc (Or.inr ⟨rfl, hi, hn⟩) id hid fuel cur toks hnp

/-- `unmarshaller_refines_fixed_statement` of C17ObjUnmarshal.lean, restricted to covered targets (its hypotheses
    `AtlasOk`, `ItOk` are not needed: `FragTarget` asks for what it uses) -/
theorem unmarshaller_refines_fixed_frag :
    ∀ (ts : Types) (a : Atlas) (trs : Trs) (it : IfaceTys),
    ∀ (fuel id : Nat) (toks : List Tok), FragTarget ts a it id →
    NoPanic (unmV ts a trs it fuel id (zeroVal ts 64 id) toks) →
    ∃ N, ∀ sf, N ≤ sf → ∀ dirty : UState,
      urun ts a trs it sf (UM.bind ts a sf dirty id (zeroVal ts 64 id)) toks
        = unmV ts a trs it fuel id (zeroVal ts 64 id) toks :=
  fun ts a trs it fuel id toks h hnp => unmarshaller_refines_target ts a trs it id h fuel _ toks hnp

/-! ### Non-vacuity: a closed set with a recursive struct type -/

/-- 0 string, 1 int, 2 map[string]int, 3 struct{A map[string]int; B []int; C *struct3; D [2]int}, 5 []int, 6 *struct3,
    9 [2]int, 10 [][]*int, 11 []*int, 12 *int, 13 struct without atlas entry, 14 []struct13 -/
def fTs : Types :=
  [(0, .prim .string true), (1, .prim .int true), (2, .map 0 1),
   (3, .struct [⟨[65], 2, true, false, none⟩, ⟨[66], 5, true, false, none⟩, ⟨[67], 6, true, false, none⟩,
     ⟨[68], 9, true, false, none⟩]),
   (5, .slice 1), (6, .ptr 3), (9, .arr 2 1), (10, .slice 11), (11, .slice 12), (12, .ptr 1), (13, .struct []),
   (14, .slice 13)]
def fAtlas : Atlas :=
  ⟨[⟨true, 3, none, .structMap [⟨[97], false, [0], 2, false⟩, ⟨[98], false, [1], 5, false⟩,
      ⟨[99], false, [2], 6, false⟩, ⟨[100], false, [3], 9, false⟩]⟩], .default⟩
def fS : List Nat := [0, 1, 2, 3, 5, 6, 9, 10, 11, 12, 13, 14]

theorem fS_closed : Closed fTs fAtlas fS none := by decide +kernel

/-- {"a":{"k":1},"c":{"b":[2,3],"c":null,"d":[4]}} -/
def fToks : List Tok :=
  [tk (.mapOpen 2), tk (.str [97]), tk (.mapOpen 1), tk (.str [107]), tk (.int 1), tk .mapClose,
   tk (.str [99]), tk (.mapOpen 3), tk (.str [98]), tk (.arrOpen 2), tk (.int 2), tk (.int 3), tk .arrClose,
   tk (.str [99]), tk .null, tk (.str [100]), tk (.arrOpen 1), tk (.int 4), tk .arrClose, tk .mapClose, tk .mapClose]

example : sameRes (unmV fTs fAtlas exTrs exIt 40 3 (zeroVal fTs 64 3) fToks)
    (.ok (.struct [.map (some [(.str [107], .int 1)]), .slice none,
      .ptr (some (.struct [.map none, .slice (some [.int 2, .int 3]), .ptr none, .arr [.int 4, .int 0]])),
      .arr [.int 0, .int 0]]) [] 21) = true := by decide +kernel

def notPanic : URes → Bool
  | .panic _ => false
  | _ => true
theorem NoPanic_of (x : URes) (h : notPanic x = true) : NoPanic x := by
  intro u hu; rw [hu] at h; cases h

/-- the theorem applied: the stateful model from the dirty instance of C17ObjUnmarshal.lean (abandoned in the middle
    of a nested map, non-empty stack), every machine fuel ≥ 14 -/
example (sf : Nat) (h : 14 ≤ sf) :
    urun fTs fAtlas exTrs exIt sf (UM.bind fTs fAtlas sf dirty 3 (zeroVal fTs 64 3)) fToks
      = unmV fTs fAtlas exTrs exIt 40 3 (zeroVal fTs 64 3) fToks :=
  refines_closed fS_closed (fun h => h.elim) (by decide) 40 _ fToks (NoPanic_of _ (by decide +kernel)) sf h dirty

/-! ### Non-vacuity: the zoo of C17ObjUnmarshal.lean (untyped slots, ignored keys) -/

def exS : List Nat := [0, 1, 2, 3, 4, 5, 6, 7, 8, 9, 12]

theorem exS_closed : Closed exTs exAtlas exS (some 4) := by decide +kernel

theorem ex_itOk : ItOk exTs exAtlas exIt := by
  refine ⟨by decide +kernel, by decide +kernel, by decide +kernel, by decide +kernel, ⟨true, by decide +kernel⟩,
    by decide +kernel, by decide +kernel⟩

theorem ex_untypedOk : UntypedOk exTs exAtlas exIt (some 4) := Or.inr ⟨rfl, ex_itOk, by decide +kernel⟩

/-- `toks1` of C17ObjUnmarshal.lean (a map, an ignored key holding `[{}]`, `[3, []]` into `[]interface{}`, a pointer
    to a nested struct with a null field, one token left over) from the dirty instance: every machine fuel ≥ 14 -/
example (sf : Nat) (h : 14 ≤ sf) :
    urun exTs exAtlas exTrs exIt sf (UM.bind exTs exAtlas sf dirty 3 (zeroVal exTs 64 3)) toks1
      = unmV exTs exAtlas exTrs exIt 40 3 (zeroVal exTs 64 3) toks1 :=
  refines_closed exS_closed (wildHyp_of ex_untypedOk) (by decide) 40 _ toks1 (NoPanic_of _ (by decide +kernel)) sf h
    dirty

example : (match unmV exTs exAtlas exTrs exIt 40 3 (zeroVal exTs 64 3) toks1 with
    | .ok _ r u => (r.length, u) | _ => (0, 0)) = (1, 23) := by decide +kernel

/-- the predicate decides: every type of the two zoos is a covered target; the counterexamples below are not -/
example : (exS.all fun id => decide (FragTarget exTs exAtlas exIt id)) = true := by decide +kernel
example : (fS.all fun id => decide (FragTarget fTs fAtlas exIt id)) = true := by decide +kernel

/-! ### Non-vacuity: transforms (as values, as elements, behind pointers, as map keys) -/

/-- the types of `cxTs` (10 = struct T made from a string by transform 0) and 20 []T, 21 *T, 22 map[T]T, 23 [][]*T -/
def tTs : Types := cxTs ++ [(20, .slice 10), (21, .ptr 10), (22, .map 10 10), (23, .slice 24), (24, .slice 21)]
def tAtlas : Atlas := ⟨[⟨true, 10, none, .transform 0 0 0⟩], .default⟩
def tTrs : Trs := ⟨fun _ _ => none, fun _ v => match v with | .str (66 :: _) => none | .str x => some (.struct [.str x]) | _ => none⟩

example : ([10, 20, 21, 22, 23].all fun id => decide (FragTarget tTs tAtlas exIt id)) = true := by decide +kernel

/-- [[null, "A"], [], ["C"]] into [][]*T; {"A": "C"} into map[T]T; the user function refusing "B…" (an error at the
    token that completes the value) -/
def tToks1 : List Tok :=
  [tk (.arrOpen 3), tk (.arrOpen 2), tk .null, tk (.str [65]), tk .arrClose, tk (.arrOpen 0), tk .arrClose,
   tk (.arrOpen 1), tk (.str [67]), tk .arrClose, tk .arrClose]
def tToks2 : List Tok := [tk (.mapOpen 1), tk (.str [65]), tk (.str [67]), tk .mapClose]
def tToks3 : List Tok := [tk (.arrOpen 2), tk (.str [65]), tk (.str [66]), tk .arrClose]

example : sameRes (unmV tTs tAtlas tTrs exIt 40 23 (zeroVal tTs 64 23) tToks1)
      (.ok (.slice (some [.slice (some [.ptr none, .ptr (some (.struct [.str [65]]))]), .slice (some []),
        .slice (some [.ptr (some (.struct [.str [67]]))])])) [] 11) &&
    sameRes (unmV tTs tAtlas tTrs exIt 40 22 (zeroVal tTs 64 22) tToks2)
      (.ok (.map (some [(.struct [.str [65]], .struct [.str [67]])])) [] 4) &&
    sameRes (unmV tTs tAtlas tTrs exIt 40 20 (zeroVal tTs 64 20) tToks3) (.err 2) = true := by decide +kernel

example (sf : Nat) (h : 14 ≤ sf) (id : Nat) (hid : id = 23 ∨ id = 22 ∨ id = 20) (toks : List Tok)
    (htoks : toks = tToks1 ∨ toks = tToks2 ∨ toks = tToks3)
    (hnp : NoPanic (unmV tTs tAtlas tTrs exIt 40 id (zeroVal tTs 64 id) toks)) :
    urun tTs tAtlas tTrs exIt sf (UM.bind tTs tAtlas sf dirty id (zeroVal tTs 64 id)) toks
      = unmV tTs tAtlas tTrs exIt 40 id (zeroVal tTs 64 id) toks := by
  have hS : Closed tTs tAtlas [0, 10, 20, 21, 22, 23, 24] none := by decide +kernel
  exact refines_closed hS (fun hw => hw.elim) (by rcases hid with rfl | rfl | rfl <;> decide) 40 _ toks hnp sf h dirty

/-! ### The corrected statement of C17ObjUnmarshal.lean is still false (1): more than 64 pointer levels

`peel` (both models) gives up after 64 levels and the remaining pointer type selects the panicking machine.  The
stateful model (as the library: `requisitionMachine` in the slice / array / map machine's `Reset`) selects the ELEMENT
machine when the container machine is Reset, i.e. in `Bind`; the functional model only when an element arrives.
For an empty container the functional model succeeds, the stateful model panics. -/

/-- 0..64: 65 nested pointer types over 65 = int; 100 = [] of type 0; 200.. the untyped-slot types -/
def pTs : Types := (List.range 65).map (fun i => (i, TyDesc.ptr (i+1))) ++
  [(65, .prim .int true), (100, .slice 0), (200, .iface false), (201, .map 202 200), (202, .prim .string true),
   (203, .slice 200)]
def pAtlas : Atlas := ⟨[], .default⟩
def pIt : IfaceTys := ⟨202, 202, 202, 65, 65, 65, 201, 203, 200⟩
def pToks : List Tok := [tk (.arrOpen (-1)), tk .arrClose]

theorem clash_deep_ptr :
    sameRes (urun pTs pAtlas exTrs pIt 30 (UM.bind pTs pAtlas 30 dirty 100 (zeroVal pTs 64 100)) pToks) (.panic 0) &&
    sameRes (unmV pTs pAtlas exTrs pIt 40 100 (zeroVal pTs 64 100) pToks) (.ok (.slice (some [])) [] 2) = true := by
  decide +kernel

theorem p_fun : unmV pTs pAtlas exTrs pIt 40 100 (zeroVal pTs 64 100) pToks = .ok (.slice (some [])) [] 2 := by
  with_unfolding_all rfl

/-- whatever the fuel, `Bind` of the slice type panics -/
theorem p_bind (f : Nat) (d : UState) (cur : Val) :
    (UM.bind pTs pAtlas (f + 6) d 100 cur).bindErr = some (.f .panic) := by
  have h100 : upickBare pTs pAtlas 100 = .slice 0 := by with_unfolding_all rfl
  have h64 : upickBare pTs pAtlas 64 = .panic := by with_unfolding_all rfl
  have hp100 : peel pTs 64 0 100 = (0, 100) := by decide +kernel
  have hp0 : peel pTs 64 0 0 = (64, 64) := by decide +kernel
  have hg : pTs.get 100 = .slice 0 := by decide +kernel
  simp [UM.bind, requisition, yieldU, hp100, hp0, yieldBare, cfgU, h100, h64, resetM, resetBody, resetSlice, hg]

theorem p_atlasOk : AtlasOk pTs pAtlas := by intro e he; cases he
theorem p_itOk : ItOk pTs pAtlas pIt := by
  refine ⟨by decide +kernel, rfl, by decide +kernel, by decide +kernel, ⟨true, by decide +kernel⟩, rfl, rfl⟩

/-- the corrected statement of C17ObjUnmarshal.lean does not hold either -/
theorem unmarshaller_refines_fixed_statement_false : ¬ unmarshaller_refines_fixed_statement := by
  intro h
  obtain ⟨N, hN⟩ := h pTs pAtlas exTrs pIt p_atlasOk p_itOk 40 100 pToks (by rw [p_fun]; intro u hu; cases hu)
  have hrun := hN (N + 6) (by omega) UState.fresh
  rw [p_fun] at hrun
  simp [urun, pToks, p_bind, XFail.toURes] at hrun

/-! ### (2): a keyed union whose member's `Reset` fails

`step_acceptKey` Resets the member's machine while it processes the KEY token; when that Reset fails (a map member
whose key type is not string-kinded, a transform member whose receive type has no machine, ...) the stateful model
(and the library) report the error at the key token.  The functional model raises it one token later, at the first
token of the member value, and asks for more tokens when there is none. -/

/-- 2 = map[int]int, registered; 3 = an interface type, keyed union {m: type 2} -/
def qTs : Types := [(0, .prim .string true), (1, .prim .int true), (2, .map 1 1), (3, .iface false),
  (200, .iface false), (201, .map 0 200), (203, .slice 200)]
def qAtlas : Atlas := ⟨[⟨true, 3, none, .union [([109], 1)]⟩, ⟨true, 2, none, .mapMorph .default⟩], .default⟩
def qIt : IfaceTys := ⟨0, 0, 0, 1, 1, 1, 201, 203, 200⟩
def qToks : List Tok := [tk (.mapOpen 1), tk (.str [109])]

theorem clash_union_reset :
    sameRes (urun qTs qAtlas exTrs qIt 30 (UM.bind qTs qAtlas 30 dirty 3 (zeroVal qTs 64 3)) qToks) (.err 1) &&
    sameRes (unmV qTs qAtlas exTrs qIt 40 3 (zeroVal qTs 64 3) qToks) (.more 2) &&
    sameRes (urun qTs qAtlas exTrs qIt 30 (UM.bind qTs qAtlas 30 dirty 3 (zeroVal qTs 64 3)) (qToks ++ [tk (.mapOpen 0)]))
      (.err 1) &&
    sameRes (unmV qTs qAtlas exTrs qIt 40 3 (zeroVal qTs 64 3) (qToks ++ [tk (.mapOpen 0)])) (.err 2) = true := by
  decide +kernel

theorem q_atlasOk : AtlasOk qTs qAtlas := by
  intro e he
  simp only [qAtlas, List.mem_cons, List.not_mem_nil, or_false] at he
  rcases he with rfl | rfl
  · refine ⟨by with_unfolding_all trivial, ?_⟩
    intro m hm me hme
    simp only [List.mem_cons, List.not_mem_nil, or_false] at hm
    subst hm
    simp only [qAtlas] at hme
    cases hme
    trivial
  · exact ⟨by with_unfolding_all trivial, trivial⟩
theorem q_itOk : ItOk qTs qAtlas qIt := by
  refine ⟨by decide +kernel, by decide +kernel, by decide +kernel, by decide +kernel, ⟨true, by decide +kernel⟩,
    by decide +kernel, by decide +kernel⟩

/-! ### The hypotheses that exclude (1) and (2) -/

/-- no type of the table has more than 64 pointer levels -/
def PtrOk (ts : Types) : Prop := ∀ p ∈ ts, isPtrTy ts (peel ts 64 0 p.1).2 = false

instance (ts : Types) : Decidable (PtrOk ts) := by unfold PtrOk; infer_instance

/-- the `Reset` of a machine selected for a union member cannot fail: a struct map; a map whose key type is accepted;
    a transform whose delegate is the primitive, slice, array or struct machine, or a map machine with an accepted key
    type -/
def resetSafe (ts : Types) (a : Atlas) : UMach → Bool
  | .structMap _ | .prim | .slice _ | .array _ _ => true
  | .map kt _ => (keyFnOfU ts a kt).isSome
  | _ => false

def unionOkB (ts : Types) (a : Atlas) : Bool :=
  a.pool.all fun e =>
    match e.k with
    | .union ms => ms.all fun m =>
        match a.pool[m.2]? with
        | none => true
        | some me =>
          (match umachForEntry ts me with
           | .transform _ uty => resetSafe ts a (upickBare ts a uty)
           | M => resetSafe ts a M)
    | _ => true

def UnionOk (ts : Types) (a : Atlas) : Prop := unionOkB ts a = true

instance (ts : Types) (a : Atlas) : Decidable (UnionOk ts a) := by unfold UnionOk; infer_instance

/-- the statement with the two further hypotheses (not proved here beyond `unmarshaller_refines_frag`) -/
def unmarshaller_refines_fixed2_statement : Prop :=
  ∀ (ts : Types) (a : Atlas) (trs : Trs) (it : IfaceTys), AtlasOk ts a → ItOk ts a it → PtrOk ts → UnionOk ts a →
    ∀ (fuel id : Nat) (toks : List Tok),
    NoPanic (unmV ts a trs it fuel id (zeroVal ts 64 id) toks) →
    ∃ N, ∀ sf, N ≤ sf → ∀ dirty : UState,
      urun ts a trs it sf (UM.bind ts a sf dirty id (zeroVal ts 64 id)) toks
        = unmV ts a trs it fuel id (zeroVal ts 64 id) toks

/-- the two hypotheses do exclude the counterexamples, and are satisfiable (the zoo of C17ObjUnmarshal.lean) -/
example : ¬ PtrOk pTs := by decide +kernel
example : PtrOk exTs ∧ PtrOk qTs := by decide +kernel
example : ¬ UnionOk qTs qAtlas := by decide +kernel
example : UnionOk exTs exAtlas ∧ UnionOk uxTs uxAtlas ∧ PtrOk uxTs := by decide +kernel

/-- the counterexamples' targets are outside the covered class (so are transforms, unions, tagged atlases) -/
example : ¬ FragTarget pTs pAtlas pIt 100 ∧ ¬ FragTarget qTs qAtlas qIt 3 ∧ ¬ FragTarget cxTs cxAtlas exIt 11 ∧
    ¬ FragTarget cxTs cxAtlas exIt 14 ∧ ¬ FragTarget uxTs uxAtlas uxIt 22 := by decide +kernel

end Refmt.C17ObjUnmarshal

#print axioms Refmt.C17ObjUnmarshal.unmarshaller_refines_frag
#print axioms Refmt.C17ObjUnmarshal.unmarshaller_refines_target
#print axioms Refmt.C17ObjUnmarshal.unmarshaller_refines_fixed_frag
#print axioms Refmt.C17ObjUnmarshal.unmarshaller_refines_fixed_statement_false
#print axioms Refmt.C17ObjUnmarshal.clash_deep_ptr
#print axioms Refmt.C17ObjUnmarshal.clash_union_reset
