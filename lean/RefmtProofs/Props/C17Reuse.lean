/-
  C17, composed: a long-lived codec instance behaves like a fresh one.

  The Go helpers (`Marshaller.Marshal`, `Unmarshaller.Unmarshal`, the `Marshal`/`Unmarshal` convenience loops)
  keep ONE encoder / decoder value alive and call `Reset()` on it before every item.  Here one such call is a
  function of the instance's state before the call (whatever the earlier calls left there: a finished item, a
  failed one, an abandoned one) returning the observable result AND the state it leaves behind; a long-lived
  instance is the fold of these calls over its history.

  * `reused_eq_fresh_*`     : the observable result of a call does not depend on the state it starts from: it is
                              the run from `init` (= `runOut … init`, `CborDec.decode`, `JsonDec.decode`);
                              for all four machines, every state (reachable or not).
  * `history_irrelevant_*`  : after ANY list of earlier calls (token lists for the encoders, readers for the
                              decoders) from ANY starting state, the next call gives what a single call on a
                              fresh instance gives.
  * `all_calls_fresh_*`     : hence the list of results of a whole history is the list of independent fresh
                              results, call by call.
  * decoders, the reader    : the decoder instance is reset, the reader is not: it persists between calls (that
                              is `C17.frame_cbor` / `frame_json`).  `readItemsReused*` threads one decoder
                              instance AND one reader through n calls; it equals `C17.readItems` /
                              `C17.readItemsJson` (which start every call from `init`), so the framing theorems
                              hold verbatim for a reused decoder (`frame_cbor_reused`, `frame_json_reused`).

  All statements proved; each is a composition of `C17.reset_is_fresh`.
-/
import RefmtModel
import RefmtProofs.Props.C17
set_option linter.unusedSimpArgs false
set_option linter.unusedVariables false
namespace Refmt.C17Reuse
open Refmt

/-! ### the state a run leaves behind -/

/-- encoder state after feeding tokens as `runOut` does (stop at the first done / error / panic) -/
def encFinal {σ : Type} (step : σ → Tok → EncOut σ) : σ → List Tok → σ
  | s, [] => s
  | s, t :: ts =>
    match (step s t).ret.flag with
    | .cont => encFinal step (step s t).st ts
    | _ => (step s t).st

/-- CBOR decoder state after `CborDec.run` (same recursion, keeping the state instead of the tokens) -/
def cborDecFinal (coerce : Bool) : Nat → CborDec.St → Rd → CborDec.St
  | 0, s, _ => s
  | fuel+1, s, rd =>
    let o := CborDec.step coerce s rd
    match o.ret with
    | .tok _ false => cborDecFinal coerce fuel o.st o.rd
    | _ => o.st

/-- JSON decoder state after `JsonDec.run` -/
def jsonDecFinal : Nat → JsonDec.St → Rd → JsonDec.St
  | 0, s, _ => s
  | fuel+1, s, rd =>
    let o := JsonDec.step s rd
    match o.ret with
    | .tok _ false => jsonDecFinal fuel o.st o.rd
    | _ => o.st

/-! ### one call on a long-lived instance: `Reset()`, then the item -/

/-- `Marshaller.Marshal` on the CBOR encoder: `encoder.Reset()`, then pump the tokens -/
def cborMarshallerCall (st : CborEnc.St) (toks : List Tok) : List Flag × List Bytes :=
  runOut CborEnc.step (CborEnc.reset st) toks
/-- the encoder state that call leaves in the instance -/
def cborMarshallerNext (st : CborEnc.St) (toks : List Tok) : CborEnc.St :=
  encFinal CborEnc.step (CborEnc.reset st) toks

def jsonMarshallerCall (c : JsonEnc.Cfg) (ff : Nat → Bytes) (st : JsonEnc.St) (toks : List Tok) :
    List Flag × List Bytes :=
  runOut (JsonEnc.step c ff) (JsonEnc.reset st) toks
def jsonMarshallerNext (c : JsonEnc.Cfg) (ff : Nat → Bytes) (st : JsonEnc.St) (toks : List Tok) : JsonEnc.St :=
  encFinal (JsonEnc.step c ff) (JsonEnc.reset st) toks

/-- `Unmarshaller.Unmarshal` on the CBOR decoder: `decoder.Reset()`, then read one item from `rd` -/
def cborUnmarshallerCall (coerce : Bool) (st : CborDec.St) (rd : Rd) : CborDec.RunOut :=
  CborDec.run coerce (2 * rd.data.length + 2) (CborDec.reset st) rd [] 0 0
def cborUnmarshallerNext (coerce : Bool) (st : CborDec.St) (rd : Rd) : CborDec.St :=
  cborDecFinal coerce (2 * rd.data.length + 2) (CborDec.reset st) rd

def jsonUnmarshallerCall (st : JsonDec.St) (rd : Rd) : JsonDec.RunOut :=
  JsonDec.run (2 * rd.data.length + 2) (JsonDec.reset st) rd [] 0
def jsonUnmarshallerNext (st : JsonDec.St) (rd : Rd) : JsonDec.St :=
  jsonDecFinal (2 * rd.data.length + 2) (JsonDec.reset st) rd

/-! ### `reused_eq_fresh`: the result does not depend on the state the call starts from -/

theorem reused_eq_fresh_cbor_enc (st : CborEnc.St) (toks : List Tok) :
    cborMarshallerCall st toks = runOut CborEnc.step CborEnc.init toks := by
  unfold cborMarshallerCall
  rw [(C17.reset_is_fresh st JsonEnc.init CborDec.init JsonDec.init Pretty.init).1]

theorem reused_eq_fresh_json_enc (c : JsonEnc.Cfg) (ff : Nat → Bytes) (st : JsonEnc.St) (toks : List Tok) :
    jsonMarshallerCall c ff st toks = runOut (JsonEnc.step c ff) JsonEnc.init toks := by
  unfold jsonMarshallerCall
  rw [(C17.reset_is_fresh CborEnc.init st CborDec.init JsonDec.init Pretty.init).2.1]

theorem reused_eq_fresh_cbor_dec (coerce : Bool) (st : CborDec.St) (rd : Rd) :
    cborUnmarshallerCall coerce st rd = CborDec.decode coerce rd := by
  unfold cborUnmarshallerCall CborDec.decode
  rw [(C17.reset_is_fresh CborEnc.init JsonEnc.init st JsonDec.init Pretty.init).2.2.1]

theorem reused_eq_fresh_json_dec (st : JsonDec.St) (rd : Rd) :
    jsonUnmarshallerCall st rd = JsonDec.decode rd := by
  unfold jsonUnmarshallerCall JsonDec.decode
  rw [(C17.reset_is_fresh CborEnc.init JsonEnc.init CborDec.init st Pretty.init).2.2.2.1]

/-- in particular two instances with different pasts agree -/
theorem reused_eq_reused_cbor_enc (st st' : CborEnc.St) (toks : List Tok) :
    cborMarshallerCall st toks = cborMarshallerCall st' toks := by
  rw [reused_eq_fresh_cbor_enc, reused_eq_fresh_cbor_enc]

theorem reused_eq_reused_json_enc (c : JsonEnc.Cfg) (ff : Nat → Bytes) (st st' : JsonEnc.St) (toks : List Tok) :
    jsonMarshallerCall c ff st toks = jsonMarshallerCall c ff st' toks := by
  rw [reused_eq_fresh_json_enc, reused_eq_fresh_json_enc]

theorem reused_eq_reused_cbor_dec (coerce : Bool) (st st' : CborDec.St) (rd : Rd) :
    cborUnmarshallerCall coerce st rd = cborUnmarshallerCall coerce st' rd := by
  rw [reused_eq_fresh_cbor_dec, reused_eq_fresh_cbor_dec]

theorem reused_eq_reused_json_dec (st st' : JsonDec.St) (rd : Rd) :
    jsonUnmarshallerCall st rd = jsonUnmarshallerCall st' rd := by
  rw [reused_eq_fresh_json_dec, reused_eq_fresh_json_dec]

/-! ### `history_irrelevant`: the instance after any list of earlier calls -/

/-- the instance state after a history of calls (each call: Reset, then the item, leaving its final state) -/
def cborEncAfter (st0 : CborEnc.St) (history : List (List Tok)) : CborEnc.St :=
  history.foldl cborMarshallerNext st0
def jsonEncAfter (c : JsonEnc.Cfg) (ff : Nat → Bytes) (st0 : JsonEnc.St) (history : List (List Tok)) : JsonEnc.St :=
  history.foldl (jsonMarshallerNext c ff) st0
def cborDecAfter (coerce : Bool) (st0 : CborDec.St) (history : List Rd) : CborDec.St :=
  history.foldl (cborUnmarshallerNext coerce) st0
def jsonDecAfter (st0 : JsonDec.St) (history : List Rd) : JsonDec.St :=
  history.foldl jsonUnmarshallerNext st0

theorem history_irrelevant_cbor_enc (st0 : CborEnc.St) (history : List (List Tok)) (toks : List Tok) :
    cborMarshallerCall (cborEncAfter st0 history) toks = cborMarshallerCall CborEnc.init toks ∧
    cborMarshallerCall (cborEncAfter st0 history) toks = runOut CborEnc.step CborEnc.init toks :=
  ⟨reused_eq_reused_cbor_enc _ _ _, reused_eq_fresh_cbor_enc _ _⟩

theorem history_irrelevant_json_enc (c : JsonEnc.Cfg) (ff : Nat → Bytes) (st0 : JsonEnc.St)
    (history : List (List Tok)) (toks : List Tok) :
    jsonMarshallerCall c ff (jsonEncAfter c ff st0 history) toks = jsonMarshallerCall c ff JsonEnc.init toks ∧
    jsonMarshallerCall c ff (jsonEncAfter c ff st0 history) toks = runOut (JsonEnc.step c ff) JsonEnc.init toks :=
  ⟨reused_eq_reused_json_enc _ _ _ _ _, reused_eq_fresh_json_enc _ _ _ _⟩

/-- per call on a given reader `rd` (whatever readers the earlier calls were made on) -/
theorem history_irrelevant_cbor_dec (coerce : Bool) (st0 : CborDec.St) (history : List Rd) (rd : Rd) :
    cborUnmarshallerCall coerce (cborDecAfter coerce st0 history) rd = cborUnmarshallerCall coerce CborDec.init rd ∧
    cborUnmarshallerCall coerce (cborDecAfter coerce st0 history) rd = CborDec.decode coerce rd :=
  ⟨reused_eq_reused_cbor_dec _ _ _ _, reused_eq_fresh_cbor_dec _ _ _⟩

theorem history_irrelevant_json_dec (st0 : JsonDec.St) (history : List Rd) (rd : Rd) :
    jsonUnmarshallerCall (jsonDecAfter st0 history) rd = jsonUnmarshallerCall JsonDec.init rd ∧
    jsonUnmarshallerCall (jsonDecAfter st0 history) rd = JsonDec.decode rd :=
  ⟨reused_eq_reused_json_dec _ _ _, reused_eq_fresh_json_dec _ _⟩

/-! ### every result of a history is the fresh result -/

/-- all results of a history of calls on one instance, in order -/
def callsFold {σ α β : Type} (call : σ → α → β) (next : σ → α → σ) : σ → List α → List β
  | _, [] => []
  | st, a :: as => call st a :: callsFold call next (next st a) as

theorem callsFold_eq_map {σ α β : Type} (call : σ → α → β) (next : σ → α → σ) (fresh : α → β)
    (h : ∀ st a, call st a = fresh a) : ∀ (st : σ) (as : List α), callsFold call next st as = as.map fresh
  | _, [] => rfl
  | st, a :: as => by simp [callsFold, h, callsFold_eq_map call next fresh h]

/-- folding the calls and looking at the last result: a single call on a fresh instance -/
theorem callsFold_getLast {σ α β : Type} (call : σ → α → β) (next : σ → α → σ) (fresh : α → β)
    (h : ∀ st a, call st a = fresh a) (st : σ) (as : List α) (a : α) :
    (callsFold call next st (as ++ [a])).getLast? = some (fresh a) := by
  rw [callsFold_eq_map call next fresh h]
  simp

theorem all_calls_fresh_cbor_enc (st0 : CborEnc.St) (history : List (List Tok)) :
    callsFold cborMarshallerCall cborMarshallerNext st0 history = history.map (runOut CborEnc.step CborEnc.init) :=
  callsFold_eq_map _ _ _ reused_eq_fresh_cbor_enc st0 history

theorem all_calls_fresh_json_enc (c : JsonEnc.Cfg) (ff : Nat → Bytes) (st0 : JsonEnc.St) (history : List (List Tok)) :
    callsFold (jsonMarshallerCall c ff) (jsonMarshallerNext c ff) st0 history =
      history.map (runOut (JsonEnc.step c ff) JsonEnc.init) :=
  callsFold_eq_map _ _ _ (reused_eq_fresh_json_enc c ff) st0 history

theorem all_calls_fresh_cbor_dec (coerce : Bool) (st0 : CborDec.St) (history : List Rd) :
    callsFold (cborUnmarshallerCall coerce) (cborUnmarshallerNext coerce) st0 history =
      history.map (CborDec.decode coerce) :=
  callsFold_eq_map _ _ _ (reused_eq_fresh_cbor_dec coerce) st0 history

theorem all_calls_fresh_json_dec (st0 : JsonDec.St) (history : List Rd) :
    callsFold jsonUnmarshallerCall jsonUnmarshallerNext st0 history = history.map JsonDec.decode :=
  callsFold_eq_map _ _ _ reused_eq_fresh_json_dec st0 history

/-- the last result of a folded history is the single fresh call (encoders) -/
theorem history_last_cbor_enc (st0 : CborEnc.St) (history : List (List Tok)) (toks : List Tok) :
    (callsFold cborMarshallerCall cborMarshallerNext st0 (history ++ [toks])).getLast? =
      some (runOut CborEnc.step CborEnc.init toks) :=
  callsFold_getLast _ _ _ reused_eq_fresh_cbor_enc st0 history toks

theorem history_last_json_enc (c : JsonEnc.Cfg) (ff : Nat → Bytes) (st0 : JsonEnc.St) (history : List (List Tok))
    (toks : List Tok) :
    (callsFold (jsonMarshallerCall c ff) (jsonMarshallerNext c ff) st0 (history ++ [toks])).getLast? =
      some (runOut (JsonEnc.step c ff) JsonEnc.init toks) :=
  callsFold_getLast _ _ _ (reused_eq_fresh_json_enc c ff) st0 history toks

theorem history_last_cbor_dec (coerce : Bool) (st0 : CborDec.St) (history : List Rd) (rd : Rd) :
    (callsFold (cborUnmarshallerCall coerce) (cborUnmarshallerNext coerce) st0 (history ++ [rd])).getLast? =
      some (CborDec.decode coerce rd) :=
  callsFold_getLast _ _ _ (reused_eq_fresh_cbor_dec coerce) st0 history rd

theorem history_last_json_dec (st0 : JsonDec.St) (history : List Rd) (rd : Rd) :
    (callsFold jsonUnmarshallerCall jsonUnmarshallerNext st0 (history ++ [rd])).getLast? =
      some (JsonDec.decode rd) :=
  callsFold_getLast _ _ _ reused_eq_fresh_json_dec st0 history rd

/-! ### decoders: one instance and one reader threaded through n calls (framing) -/

/-- read `n` CBOR items with ONE decoder instance (Reset before each item) from ONE reader -/
def readItemsReused (coerce : Bool) : Nat → CborDec.St → Rd → List (List Tok) → Option (List (List Tok) × Rd)
  | 0, _, rd, acc => some (acc.reverse, rd)
  | n+1, st, rd, acc =>
    let o := cborUnmarshallerCall coerce st rd
    match o.res with
    | .ok _ => readItemsReused coerce n (cborUnmarshallerNext coerce st rd) o.rd (o.toks :: acc)
    | .error _ => none

theorem readItemsReused_eq (coerce : Bool) : ∀ (n : Nat) (st : CborDec.St) (rd : Rd) (acc : List (List Tok)),
    readItemsReused coerce n st rd acc = C17.readItems coerce n rd acc
  | 0, _, _, _ => rfl
  | n+1, st, rd, acc => by
    simp only [readItemsReused, C17.readItems]
    rw [reused_eq_fresh_cbor_dec]
    simp only [CborDec.decode]
    cases (CborDec.run coerce (2 * rd.data.length + 2) CborDec.init rd [] 0 0).res with
    | ok _ => exact readItemsReused_eq coerce n _ _ _
    | error _ => rfl

def readItemsJsonReused : Nat → JsonDec.St → Rd → List (List Tok) → Option (List (List Tok) × Rd)
  | 0, _, rd, acc => some (acc.reverse, rd)
  | n+1, st, rd, acc =>
    let o := jsonUnmarshallerCall st rd
    match o.res with
    | .ok _ => readItemsJsonReused n (jsonUnmarshallerNext st rd) o.rd (o.toks :: acc)
    | .error _ => none

theorem readItemsJsonReused_eq : ∀ (n : Nat) (st : JsonDec.St) (rd : Rd) (acc : List (List Tok)),
    readItemsJsonReused n st rd acc = C17.readItemsJson n rd acc
  | 0, _, _, _ => rfl
  | n+1, st, rd, acc => by
    simp only [readItemsJsonReused, C17.readItemsJson]
    rw [reused_eq_fresh_json_dec]
    simp only [JsonDec.decode]
    cases (JsonDec.run (2 * rd.data.length + 2) JsonDec.init rd [] 0).res with
    | ok _ => exact readItemsJsonReused_eq n _ _ _
    | error _ => rfl

/-- `C17.frame_cbor` for a reused decoder instance in any state -/
theorem frame_cbor_reused (st : CborDec.St) (vs : List TV) (rest : Bytes)
    (hw : ∀ v ∈ vs, C02.WFv v = true) (hs : ∀ v ∈ vs, C02.Supported v = true) :
    readItemsReused false vs.length st (Rd.ofBytes ((vs.map Spec.Cbor.enc).flatten ++ rest)) [] =
      some (vs.map (fun v => v.flatten.map C02.normTok), Rd.ofBytes rest) := by
  rw [readItemsReused_eq]
  exact C17.frame_cbor vs rest hw hs

/-- `C17.frame_json` for a reused decoder instance in any state -/
theorem frame_json_reused (st : JsonDec.St) (c : JsonEnc.Cfg) (vs : List TV)
    (hw : ∀ v ∈ vs, C03.JWF v = true) (hc : C03.cfgOk c = true) (hf : ∀ v ∈ vs, C03.FloatsOk v) :
    ∃ rd', readItemsJsonReused vs.length st (Rd.ofBytes ((vs.map fun v => C03.out c v ++ [10]).flatten)) [] =
      some (vs.map (fun v => v.flatten.map Spec.Json.retypeTok), rd') ∧ rd'.data.all JsonDec.isWs = true := by
  obtain ⟨rd', h1, h2⟩ := C17.frame_json c vs hw hc hf
  exact ⟨rd', by rw [readItemsJsonReused_eq]; exact h1, h2⟩

/-! ### non-vacuity: the state really differs between calls, the results do not -/

-- after an abandoned item (`[` `1`, never closed) the CBOR encoder instance is not in its initial state ...
example : cborMarshallerNext CborEnc.init [⟨.arrOpen 2, none⟩, ⟨.uint 1, none⟩] ≠ CborEnc.init := by decide
-- ... without `Reset` the next item would be written as an array element (`cont`, not `done`) ...
example : (runOut CborEnc.step (cborMarshallerNext CborEnc.init [⟨.arrOpen 2, none⟩, ⟨.uint 1, none⟩])
    [⟨.uint 500, none⟩]).1 = [Flag.cont] := by decide
-- ... the call resets first: same flags and bytes as a fresh encoder
example : cborMarshallerCall (cborMarshallerNext CborEnc.init [⟨.arrOpen 2, none⟩, ⟨.uint 1, none⟩])
    [⟨.uint 500, none⟩] = ([Flag.done], [[0x19], [0x01, 0xf4]]) := by decide

-- JSON encoder: after the abandoned `{"a":` the instance is mid-map; the next call still writes a top-level `true`
example : jsonMarshallerNext ⟨none, []⟩ FloatText.jsonFloat JsonEnc.init [⟨.mapOpen 1, none⟩, ⟨.str [97], none⟩]
    ≠ JsonEnc.init := by decide
example : (jsonMarshallerCall ⟨none, []⟩ FloatText.jsonFloat
    (jsonMarshallerNext ⟨none, []⟩ FloatText.jsonFloat JsonEnc.init [⟨.mapOpen 1, none⟩, ⟨.str [97], none⟩])
    [⟨.bool true, none⟩]).2.flatten = [116, 114, 117, 101] := by decide

-- JSON decoder: a truncated `[1,` leaves the instance inside an array; the next call on `2 ` reads a top-level 2
example : jsonUnmarshallerNext JsonDec.init (Rd.ofBytes [91, 49, 44]) ≠ JsonDec.init := by decide
example : (jsonUnmarshallerCall (jsonUnmarshallerNext JsonDec.init (Rd.ofBytes [91, 49, 44])) (Rd.ofBytes [50, 32])).toks
    = [⟨.int 2, none⟩] := by decide

end Refmt.C17Reuse
