/-
  C01 on the whole domain for JSON: the JSON analogue of `C01Full.roundtrip_full_cbor`.

      Marshal to JSON bytes, then Unmarshal from them into a fresh variable of the same type with the same atlas,
      returns the value the specification `normV .json` prescribes (up to the order in which the model lists map
      entries), for every type of the class `fullTyJ` and every value of the domain `fullValJ`.

  Route.  JSON, unlike CBOR, does not hand the unmarshaller the marshaller's tokens back: it hands back
  `toks.map Spec.Json.retypeTok` (lengths unknown, tags dropped, `uint n < 2^63` as `int n`, floats as the number token
  of their text, strings as `toValidUtf8`).  So `viaJson` is NOT `viaTokens` on this domain (`-0`, integral floats in
  untyped slots), and the proof is a second induction over all the unmarshal machines (RefmtProofs/Lemmas/JFullRT*.lean,
  mirroring FullRT*.lean): for the marshaller's output `toks` of a value `v`,
      unmV … (toks.map retypeTok ++ rest) = .ok (rtJ … v) rest toks.length
  where `rtJ` is `normV .json` with every map in marshalling order (`rtj_eqv_norm`: `ValEqv'' (rtJ v) (normV .json v)`).

  Definitions (RefmtProofs/Lemmas/JFullDefs.lean):
    `fullTyJ ts a p id`  = `fullTy ts a p id` (plain kinds, struct maps — tagged or not —, keyed unions, transforms,
                           untyped slots, nested through slices / arrays / string-keyed maps / pointers) on an atlas whose
                           struct-map field names and union member names are valid UTF-8 (`namesUtf8`): JSON replaces
                           the invalid bytes of a string, so any other name is not found again.
    `fullValJ … g id v`  = the side conditions of `fullVal`, restricted to what JSON carries:
                           * scalars (`jsonScalar`): floats finite, strings valid UTF-8, no byte string / byte array
                             (a nil `[]byte`, written as `null`, is allowed);
                           * map keys: distinct, valid UTF-8 strings;
                           * transforms: the marshal function's result inhabits the target type and satisfies the side
                             conditions; the unmarshal function succeeds on `normV .json` of it;
                           * untyped slots hold nil, a scalar as above, or a native `[]interface{}` /
                             `map[string]interface{}` of such.  NO registered tagged types inside untyped slots (see
                             the finding below).
    float32 targets are INCLUDED (a float32 value is stored as its exact widening; `narrowF32` of the re-read number
    is the value again, and `narrowF32 0 = 0` for `-0`).
    Tagged entries at TYPED positions are INCLUDED: the JSON encoder ignores tags (`C03.JWF` allows them), the decoder
    returns untagged tokens and no typed machine looks at the tag; `transport_json'` is `C01.transport_json` for
    `carryJson'` (= `carryJson` without `t.tag.isNone`, and without `floatOk`, which holds for every finite float).

  Stages.
    (1) typed targets on the whole struct / union / transform domain : proved (part of the induction);
    (2) untyped slots holding native values                          : proved (`rtj_b_wild`);
    (3) more: float32 targets, tagged entries at typed positions, nil `[]byte`; the exact result (`roundtrip_full_json_exact`:
        `viaJson = some rtJ`).  `fullTy`'s `tagBlind` restriction (a tagged transform must not have an untyped wire form)
        is inherited although JSON does not need it (the proof of the transform case never uses it: tags are gone).

  Findings.
    * No disagreement between `normV .json` and the model's JSON round trip on this domain.
    * Outside it, `normV .json` does not describe what JSON returns for a registered tagged type held in an untyped
      slot: the tag is lost, a struct comes back as `map[string]interface{}` and a transform as its wire form, whereas
      `normV .json` falls into the same fallback as for CBOR and keeps the registered type
      (`tagged_struct_in_untyped_json`, `tagged_transform_in_untyped_json`).  `normV`'s own comment declares that
      fallback to be about CBOR; for JSON the case is simply unspecified.  `fullValJ` excludes it.
    * Non-vacuity: `jxTs` / `jxA` / `jxV` at the end.
-/
import RefmtModel
import RefmtProofs.Lemmas.JFullRT4
import RefmtProofs.Props.C01Full
set_option linter.unusedSimpArgs false
set_option linter.unusedVariables false

namespace Refmt.C01
open Refmt Refmt.Obj

/-- what JSON can carry, tags allowed (the JSON encoder drops them): no byte strings, finite floats, numbers within the
    64-bit kinds, bytes < 256 in strings -/
def carryJson' (t : Tok) : Bool :=
  match t.body with
  | .uint n => decide (n < two64)
  | .int i => decide (-(two63 : Int) ≤ i) && decide (i < (two63 : Int))
  | .float b => decide (b < two64) && !floatNonFinite b
  | .str s => s.all (· < 256)
  | .bytes _ => false
  | _ => true

theorem carryJson_carryJson' {t : Tok} (h : carryJson t = true) : carryJson' t = true := by
  obtain ⟨body, tag⟩ := t
  unfold carryJson at h
  unfold carryJson'
  cases body <;> simp_all

end Refmt.C01

namespace Refmt.C01JsonFull
open Refmt Refmt.Obj Refmt.C11 Refmt.C12 Refmt.C13

/-! ### JSON transport of tagged tokens -/

theorem carry_scalar {t : Tok} (h : C01.carryJson' t = true) (hs : t.body.isScalar = true) : C03.jsonScalarOk t = true := by
  obtain ⟨body, tag⟩ := t
  unfold C01.carryJson' at h
  unfold C03.jsonScalarOk
  cases body <;> simp_all [Body.isScalar]

mutual
  theorem jwf_of_flat' : ∀ (tv : TV), tv.flatten.all C01.carryJson' = true → C07.Leaves tv = true → C07.KeysStr tv = true →
      C03.JWF tv = true
    | .scalar t, h, hl, _ => by
      simp only [TV.flatten, List.all_cons, List.all_nil, Bool.and_true] at h
      simp only [C07.Leaves] at hl
      simpa [C03.JWF] using carry_scalar h hl
    | .arr tag len items, h, hl, hk => by
      simp only [TV.flatten, List.all_cons, List.all_append, Bool.and_eq_true] at h
      simp only [C07.Leaves] at hl
      simp only [C07.KeysStr] at hk
      simp only [C03.JWF]
      exact jwfl_of_flat' items h.2.1 hl hk
    | .map tag len es, h, hl, hk => by
      simp only [TV.flatten, List.all_cons, List.all_append, Bool.and_eq_true] at h
      simp only [C07.Leaves] at hl
      simp only [C07.KeysStr] at hk
      simp only [C03.JWF]
      exact jwfe_of_flat' es h.2.1 hl hk
  theorem jwfl_of_flat' : ∀ (vs : List TV), (TV.flattenList vs).all C01.carryJson' = true → C07.LeavesL vs = true →
      C07.KeysStrL vs = true → C03.JWFl vs = true
    | [], _, _, _ => rfl
    | v :: vs, h, hl, hk => by
      simp only [TV.flattenList, List.all_append, Bool.and_eq_true] at h
      simp only [C07.LeavesL, Bool.and_eq_true] at hl
      simp only [C07.KeysStrL, Bool.and_eq_true] at hk
      simp only [C03.JWFl, Bool.and_eq_true]
      exact ⟨jwf_of_flat' v h.1 hl.1 hk.1, jwfl_of_flat' vs h.2 hl.2 hk.2⟩
  theorem jwfe_of_flat' : ∀ (es : List (TV × TV)), (TV.flattenEntries es).all C01.carryJson' = true → C07.LeavesE es = true →
      C07.KeysStrE es = true → C03.JWFe es = true
    | [], _, _, _ => rfl
    | (k, v) :: es, h, hl, hk => by
      simp only [TV.flattenEntries, List.all_append, Bool.and_eq_true] at h
      simp only [C07.LeavesE, Bool.and_eq_true] at hl
      simp only [C07.KeysStrE, Bool.and_eq_true] at hk
      simp only [C03.JWFe, Bool.and_eq_true]
      refine ⟨⟨?_, jwf_of_flat' v h.2.1 hl.1.2 hk.1.2⟩, jwfe_of_flat' es h.2.2 hl.2 hk.2⟩
      cases k with
      | scalar t =>
        obtain ⟨body, tag⟩ := t
        have h1 := h.1
        simp only [TV.flatten, List.all_cons, List.all_nil, Bool.and_true] at h1
        unfold C01.carryJson' at h1
        cases body <;> simp_all
      | arr _ _ _ => simp at hk
      | map _ _ _ => simp at hk
end

theorem floatsOk_of_flat' (tv : TV) (h : tv.flatten.all C01.carryJson' = true) : C03.FloatsOk tv := by
  intro t ht x hb
  have := List.all_eq_true.mp h t ht
  unfold C01.carryJson' at this
  rw [hb] at this
  simp only [Bool.and_eq_true, Bool.not_eq_true'] at this
  exact FloatL.floatOk_finite x this.2

/-- `C01.transport_json` for marshaller output that may carry tags (struct-map / transform entries with a tag): the
    JSON encoder accepts it, done exactly at the end, and the decoder returns the tokens re-typed, for every type. -/
theorem transport_json' (c : JsonEnc.Cfg) (ts : Types) (a : Atlas) (trs : Trs) (fuel id : Nat) (v : Val) (toks : List Tok)
    (hcfg : C03.cfgOk c = true) (hm : marshalV ts a trs fuel id v = ⟨toks, none⟩) (hc : toks.all C01.carryJson' = true) :
    ∃ bs, C01.encodeJson c toks = some bs ∧
      (let o := JsonDec.decode (Rd.ofBytes bs)
       o.toks = toks.map Spec.Json.retypeTok ∧ o.res = .ok ()) := by
  obtain ⟨tv, rfl, h1, h2, h3⟩ := C07.marshal_wf_strong ts a trs fuel id v toks hm
  have hj := jwf_of_flat' tv hc h3 h2
  have hd : (runOut (JsonEnc.step c FloatText.jsonFloat) JsonEnc.init tv.flatten).1.getLast? = some Flag.done := by
    rw [C03.enc_accepts c tv hj]; simp
  refine ⟨(runOut (JsonEnc.step c FloatText.jsonFloat) JsonEnc.init tv.flatten).2.flatten, ?_,
    C03.roundtrip_partial c tv hj hcfg (floatsOk_of_flat' tv hc)⟩
  unfold C01.encodeJson
  simp only [hd, if_true]

/-! ### the main theorems -/

/-- the JSON round trip is the unmarshaller run on the re-typed tokens -/
theorem viaJson_eq_retyped (c : JsonEnc.Cfg) (ts : Types) (a : Atlas) (trs : Trs) (it : IfaceTys) (fuel id : Nat) (v : Val)
    (toks : List Tok) (hcfg : C03.cfgOk c = true) (hm : marshalV ts a trs fuel id v = ⟨toks, none⟩)
    (hc : toks.all C01.carryJson' = true) :
    C01.viaJson c ts a trs it fuel id v =
      (match unmV ts a trs it fuel id (zeroVal ts 64 id) (toks.map Spec.Json.retypeTok) with
       | .ok r [] _ => some r
       | _ => none) := by
  obtain ⟨bs, hbs, hto, hr⟩ := transport_json' c ts a trs fuel id v toks hcfg hm hc
  unfold C01.viaJson
  simp only [hm, hbs, hto, hr, Except.isOk, Except.toBool, if_true]
  rfl

/-- the exact JSON round trip on `fullTyJ`: `rtJ` (the specified value with every map in marshalling order) -/
theorem roundtrip_full_json_exact (c : JsonEnc.Cfg) (ts : Types) (a : Atlas) (trs : Trs) (it : IfaceTys) (fuel0 fuel id : Nat)
    (v : Val) (hcfg : C03.cfgOk c = true)
    (hp : fullTyJ ts a 64 id = true) (hv : hasTy ts 1000 id v = true) (hside : fullValJ ts a trs it fuel id v = true)
    (he : UEnv ts a it) (hz : ZeroStable ts) (htr : TrsEqv trs)
    (hok : (marshalV ts a trs fuel0 id v).fail = none) (h0 : fuel0 ≤ 1000) (hf : fuel0 < fuel)
    (hc : (marshalV ts a trs fuel id v).toks.all C01.carryJson' = true) :
    C01.viaJson c ts a trs it fuel id v = some (rtJ ts a trs it fuel id v) := by
  unfold fullTyJ at hp
  simp only [Bool.and_eq_true] at hp
  obtain ⟨hp, hnm⟩ := hp
  have hm : marshalV ts a trs fuel0 id v = ⟨(marshalV ts a trs fuel0 id v).toks, none⟩ := by
    cases hm : marshalV ts a trs fuel0 id v with | mk t f => rw [hm] at hok; simp at hok; rw [hok]
  have hm' := C07.marshal_fuel_mono_le ts a trs fuel0 fuel id v _ hm (by simp) (by omega)
  rw [hm'] at hc
  have := ((rtj_all he hz htr hnm fuel0 h0).v 64 1000 id v _ fuel (Nat.le_refl _) hp hv (by omega) hside hm).2 fuel hf []
  simp only [List.append_nil] at this
  rw [viaJson_eq_retyped c ts a trs it fuel id v _ hcfg hm' hc, this]

/-- C01 FOR JSON ON THE FULL DOMAIN.  For a type of the class `fullTyJ` (structs with struct-map entries — tagged or
    not —, keyed unions, transforms, untyped slots, and slices / arrays / string-keyed maps / pointers of these; field
    and member names valid UTF-8) and a value that inhabits it (`hasTy`) and satisfies the side conditions `fullValJ`
    (finite floats, valid UTF-8 strings and distinct valid UTF-8 map keys, no byte strings; transforms yield values of
    their target type on which, once normalized for JSON, the unmarshal function succeeds; untyped slots hold nil,
    scalars or native untyped containers): if the marshaller succeeds (with one unit of fuel to spare) and its tokens
    are carriable by JSON, then Marshal to JSON bytes followed by Unmarshal from them succeeds and returns the
    specified value `normV .json` — `-0` as `0`, an integral float in an untyped slot as an `int`, `uint64` below
    `2^63` in an untyped slot as `int` — up to the order of map entries.
    Environment hypotheses as for CBOR: `UEnv`, `ZeroStable`, `TrsEqv`; `cfgOk` (Line / Indent are JSON whitespace). -/
theorem roundtrip_full_json (c : JsonEnc.Cfg) (ts : Types) (a : Atlas) (trs : Trs) (it : IfaceTys) (fuel0 fuel id : Nat)
    (v : Val) (hcfg : C03.cfgOk c = true)
    (hp : fullTyJ ts a 64 id = true) (hv : hasTy ts 1000 id v = true) (hside : fullValJ ts a trs it fuel id v = true)
    (he : UEnv ts a it) (hz : ZeroStable ts) (htr : TrsEqv trs)
    (hok : (marshalV ts a trs fuel0 id v).fail = none) (h0 : fuel0 ≤ 1000) (hf : fuel0 < fuel)
    (hc : (marshalV ts a trs fuel id v).toks.all C01.carryJson' = true) :
    ∃ r, C01.viaJson c ts a trs it fuel id v = some r ∧ ValEqv'' r (normV .json ts a trs it fuel id v) := by
  refine ⟨_, roundtrip_full_json_exact c ts a trs it fuel0 fuel id v hcfg hp hv hside he hz htr hok h0 hf hc, ?_⟩
  unfold fullTyJ at hp
  simp only [Bool.and_eq_true] at hp
  exact (rtj_eqv_norm htr he fuel).1 64 id v (Nat.le_refl _) hp.1 hside

/-- the same at the level of `unmV`: the re-typed rendering is accepted, completes exactly on its last token, and
    reconstructs the specified value -/
theorem complete_full_json (ts : Types) (a : Atlas) (trs : Trs) (it : IfaceTys) (fuel0 fuel id : Nat) (v : Val) (toks : List Tok)
    (hp : fullTyJ ts a 64 id = true) (hv : hasTy ts 1000 id v = true) (hside : fullValJ ts a trs it fuel id v = true)
    (he : UEnv ts a it) (hz : ZeroStable ts) (htr : TrsEqv trs)
    (hm : marshalV ts a trs fuel0 id v = ⟨toks, none⟩) (h0 : fuel0 ≤ 1000) (hf : fuel0 < fuel) :
    ∃ v', unmV ts a trs it fuel id (zeroVal ts 64 id) (toks.map Spec.Json.retypeTok) = .ok v' [] toks.length ∧
      ValEqv'' v' (normV .json ts a trs it fuel id v) := by
  unfold fullTyJ at hp
  simp only [Bool.and_eq_true] at hp
  have := ((rtj_all he hz htr hp.2 fuel0 h0).v 64 1000 id v _ fuel (Nat.le_refl _) hp.1 hv (by omega) hside hm).2 fuel hf []
  simp only [List.append_nil] at this
  exact ⟨_, this, (rtj_eqv_norm htr he fuel).1 64 id v (Nat.le_refl _) hp.1 hside⟩

/-! ### FINDING: registered tagged types inside untyped slots are outside what `normV .json` describes

  `C13Full.fuTs` / `fuA`: type 13 is a struct `{Y int}` registered with tag 50, type 30 a transform (tag 60) whose
  wire form is a two-byte string.  Held in an untyped slot (type 20) they are reconstructed by CBOR (through the tag);
  JSON drops the tag: the struct comes back as `map[string]interface{}{"y": 9}` and the transform as the string
  `"\x03\x04"`, whereas `normV .json` (its CBOR fallback) keeps the registered types. -/

def cfg0 : JsonEnc.Cfg := ⟨none, []⟩

theorem tagged_struct_in_untyped_json :
    C01.viaJson cfg0 C13Full.fuTs C13Full.fuA C13Full.fuTrs C13Full.fuIt 100 20 (.iface (some (13, .struct [.int 9]))) =
      some (.iface (some (7, .map (some [(.str [121], .iface (some (2, .int 9)))])))) ∧
    normV .json C13Full.fuTs C13Full.fuA C13Full.fuTrs C13Full.fuIt 100 20 (.iface (some (13, .struct [.int 9]))) =
      .iface (some (13, .struct [.int 9])) := by
  constructor <;> with_unfolding_all rfl

theorem tagged_transform_in_untyped_json :
    C01.viaJson cfg0 C13Full.fuTs C13Full.fuA C13Full.fuTrs C13Full.fuIt 100 20 (.iface (some (30, C13Full.fuTm 3 4))) =
      some (.iface (some (1, .str [3, 4]))) ∧
    normV .json C13Full.fuTs C13Full.fuA C13Full.fuTrs C13Full.fuIt 100 20 (.iface (some (30, C13Full.fuTm 3 4))) =
      .iface (some (30, C13Full.fuTm 3 4)) := by
  constructor <;> with_unfolding_all rfl

/-- … and they are indeed outside `fullValJ` -/
example : fullValJ C13Full.fuTs C13Full.fuA C13Full.fuTrs C13Full.fuIt 100 20 (.iface (some (13, .struct [.int 9]))) = false ∧
    fullValJ C13Full.fuTs C13Full.fuA C13Full.fuTrs C13Full.fuIt 100 20 (.iface (some (30, C13Full.fuTm 3 4))) = false := by
  decide

/-! ### Non-vacuity

  The untyped universe (ids 1–8, 20), a keyed union (10, members 11 `{X int}` and 12 `{S string}`), a float32 type (9),
  and the struct 0 = `{F float64; I interface{}; U union; G float32; Z float64; N interface{}}`, registered WITH a tag
  (tag 50: a tagged entry at a typed position). -/

def jxTs : Types := [
  (0, .struct [⟨[70], 6, true, false, none⟩, ⟨[73], 20, true, false, none⟩, ⟨[85], 10, true, false, none⟩,
               ⟨[71], 9, true, false, none⟩, ⟨[90], 6, true, false, none⟩, ⟨[78], 20, true, false, none⟩]),
  (1, .prim .string true), (2, .prim .int true), (3, .bytes true), (4, .prim .bool true), (5, .prim .uint64 true), (6, .prim .f64 true),
  (7, .map 1 20), (8, .slice 20), (9, .prim .f32 true), (20, .iface false),
  (10, .iface true),
  (11, .struct [⟨[88], 2, true, false, none⟩]),
  (12, .struct [⟨[83], 1, true, false, none⟩])]

def jxA : Atlas := ⟨[
  ⟨true, 0, some 50, .structMap [⟨[102], false, [0], 6, false⟩, ⟨[105], false, [1], 20, false⟩, ⟨[117], false, [2], 10, false⟩,
                                 ⟨[103], false, [3], 9, false⟩, ⟨[122], false, [4], 6, false⟩, ⟨[110], false, [5], 20, false⟩]⟩,
  ⟨true, 10, none, .union [([65], 2), ([66], 3)]⟩,
  ⟨true, 11, none, .structMap [⟨[120], false, [0], 2, false⟩]⟩,
  ⟨true, 12, none, .structMap [⟨[115], false, [0], 1, false⟩]⟩], .default⟩

def jxIt : IfaceTys := ⟨1, 3, 4, 2, 5, 6, 7, 8, 20⟩
def jxTrs : Trs := ⟨fun _ _ => none, fun _ _ => none⟩

def f1_5 : Nat := 4609434218613702656     -- 1.5
def f3_0 : Nat := 4613937818241073152     -- 3.0
def f0_5 : Nat := 4602678819172646912     -- 0.5 (exact as a float32)
def fNeg0 : Nat := 9223372036854775808    -- -0

/-- `{F: 1.5, I: float64(3.0), U: B{S: "hi"}, G: float32(0.5), Z: -0.0, N: []interface{}{uint64(7), nil, "é"}}` -/
def jxV : Val := .struct [
  .float f1_5,
  .iface (some (6, .float f3_0)),
  .iface (some (12, .struct [.str [104, 105]])),
  .float f0_5,
  .float fNeg0,
  .iface (some (8, .slice (some [.iface (some (5, .uint 7)), .iface none, .iface (some (1, .str [195, 169]))])))]

/-- what comes back: the integral float in the untyped slot as `int 3`, `-0` as `0`, the `uint64` as `int` -/
def jxR : Val := .struct [
  .float f1_5,
  .iface (some (2, .int 3)),
  .iface (some (12, .struct [.str [104, 105]])),
  .float f0_5,
  .float 0,
  .iface (some (8, .slice (some [.iface (some (2, .int 7)), .iface none, .iface (some (1, .str [195, 169]))])))]

theorem jx_env : UEnv jxTs jxA jxIt := by constructor <;> decide
theorem jx_zero : ZeroStable jxTs := zeroStable_of_check _ (by decide)
theorem jx_trsEqv : TrsEqv jxTrs := by
  intro fn x y b _ h
  simp [jxTrs] at h

/-- the type is in the class, the value inhabits it and satisfies the side conditions -/
theorem jx_hyps : fullTyJ jxTs jxA 64 0 = true ∧ hasTy jxTs 1000 0 jxV = true ∧ fullValJ jxTs jxA jxTrs jxIt 41 0 jxV = true := by
  refine ⟨by with_unfolding_all decide, by decide, by with_unfolding_all decide⟩

theorem jx_ok : (marshalV jxTs jxA jxTrs 40 0 jxV).fail = none := by with_unfolding_all decide

/-- the marshaller's tokens are carriable by JSON although the first one carries tag 50
    (`C01.carryJson` is false on it, `C01.carryJson'` true) -/
theorem jx_carry : (marshalV jxTs jxA jxTrs 41 0 jxV).toks.all C01.carryJson' = true := by with_unfolding_all decide
example : (marshalV jxTs jxA jxTrs 41 0 jxV).toks.all C01.carryJson = false := by with_unfolding_all decide

/-- the conclusion of `roundtrip_full_json`, instantiated -/
theorem jx_roundtrip : ∃ r, C01.viaJson cfg0 jxTs jxA jxTrs jxIt 41 0 jxV = some r ∧
    ValEqv'' r (normV .json jxTs jxA jxTrs jxIt 41 0 jxV) :=
  roundtrip_full_json cfg0 jxTs jxA jxTrs jxIt 40 41 0 jxV (by decide) jx_hyps.1 jx_hyps.2.1 jx_hyps.2.2 jx_env jx_zero jx_trsEqv
    jx_ok (by omega) (by omega) jx_carry

/-- the specified value, evaluated: `jxR` (which differs from `jxV` in the three places JSON re-types) -/
theorem jx_norm : normV .json jxTs jxA jxTrs jxIt 41 0 jxV = jxR := by with_unfolding_all rfl

/-- (no map is involved, so the copy is the specified value itself) -/
theorem jx_exact : C01.viaJson cfg0 jxTs jxA jxTrs jxIt 41 0 jxV = some jxR := by
  rw [roundtrip_full_json_exact cfg0 jxTs jxA jxTrs jxIt 40 41 0 jxV (by decide) jx_hyps.1 jx_hyps.2.1 jx_hyps.2.2 jx_env jx_zero
    jx_trsEqv jx_ok (by omega) (by omega) jx_carry]
  with_unfolding_all rfl

/-- what the token-level round trip (Clone, CBOR) returns: `jxV` but for the `uint64` in the untyped slot -/
def jxTok : Val := .struct [
  .float f1_5,
  .iface (some (6, .float f3_0)),
  .iface (some (12, .struct [.str [104, 105]])),
  .float f0_5,
  .float fNeg0,
  .iface (some (8, .slice (some [.iface (some (2, .int 7)), .iface none, .iface (some (1, .str [195, 169]))])))]

/-- JSON is NOT the token-level round trip here (`-0`, the integral float in the untyped slot) -/
theorem jx_tokens_differ : C01.viaTokens jxTs jxA jxTrs jxIt 41 0 jxV = some jxTok ∧
    C01.viaTokens jxTs jxA jxTrs jxIt 41 0 jxV ≠ C01.viaJson cfg0 jxTs jxA jxTrs jxIt 41 0 jxV := by
  have h1 : C01.viaTokens jxTs jxA jxTrs jxIt 41 0 jxV = some jxTok := by with_unfolding_all rfl
  refine ⟨h1, ?_⟩
  rw [jx_exact, h1]
  intro h
  simp [jxTok, jxR, fNeg0] at h

end Refmt.C01JsonFull
