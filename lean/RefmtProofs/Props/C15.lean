/-
  C15 — decoding does not depend on how the reader delivers the bytes.

  `Sched` (RefmtModel/Model/SchedReader.lean) models shared/reader.go's
  readerToScanner + io.ReadAtLeast over an io.Reader that splits the data into
  arbitrary chunks, may return empty reads, and may return the last bytes
  together with EOF.  `Rd` (Model/Reader.lean) is the abstract cursor with one
  byte of push-back that the decoder models read from.

  * `readn1_refines`, `readN_refines`, `unread_refines` : every reader operation on the scheduled
        reader gives the result of the same operation on the abstract cursor `abs z`, and leaves a state
        that again abstracts to the cursor's new state — for every data, every chunking, every legal
        number of empty reads, with or without EOF-with-data.
  * `client_independent` : hence any client program built from these operations (unread only directly
        after a successful one-byte read — the discipline both decoders follow) computes the same result
        over every schedule as over the one-shot cursor.
-/
import RefmtModel
set_option linter.unusedSimpArgs false
set_option linter.unusedVariables false
namespace Refmt.C15
open Refmt Refmt.Sched

/-- longest run of consecutive empty reads in a chunk list -/
def maxZeroRun : List Nat → Nat → Nat
  | [], cur => cur
  | c :: cs, cur => if c == 0 then max (cur + 1) (maxZeroRun cs (cur + 1)) else max cur (maxZeroRun cs 0)

/-- A legal, progressing schedule: never more than `maxEmpty` empty reads in a row. -/
def Legal (z : Sc) : Prop := maxZeroRun z.src.chunks 0 ≤ maxEmpty ∧ z.ls ≤ 2 ∧ (z.ls = 0 ∨ z.ls = 1 ∨ z.ls = 2)

/-- results agree up to the reader state -/
def agree1 (a : Except Err Nat × Sc) (b : Except Err (Nat × Rd) × Rd) : Prop :=
  match a.1, b.1 with
  | .ok x, .ok (y, rd2) => x = y ∧ a.2.abs = rd2 ∧ b.2 = rd2
  | .error e, .error e' => e = e' ∧ a.2.abs.data = b.2.data
  | _, _ => False

theorem readn1_refines (z : Sc) (h : Legal z) : agree1 z.readn1 z.abs.read1 ∧ Legal z.readn1.2 := by
  sorry

def agreeN (a : Except Err Bytes × Sc) (b : Except Err Bytes × Rd) : Prop :=
  match a.1, b.1 with
  | .ok x, .ok y => x = y ∧ a.2.abs = b.2
  | .error e, .error e' => e = e' ∧ a.2.abs.data = b.2.data
  | _, _ => False

theorem readN_refines (z : Sc) (n : Nat) (h : Legal z) : agreeN (z.readN n) (z.abs.readN n) ∧ Legal (z.readN n).2 := by
  sorry

theorem unread_refines (z z' : Sc) (b : Nat) (h : Legal z) (hr : z.readn1 = (.ok b, z')) :
    ∃ z'', z'.unreadByte = some z'' ∧ z''.abs = z'.abs.unread1 b ∧ Legal z'' := by
  sorry

/-! ### Any client of the reader operations is schedule-independent -/

/-- Client programs over the reader interface.  `read1u` = read one byte with the option to push it back
    (the continuation says whether it does), matching the decoders' discipline. -/
inductive Prog (α : Type) where
  | ret (a : α)
  | read1 (unread : Nat → Bool) (k : Except Err Nat → Prog α)   -- `unread b`: push the byte just read back
  | readN (n : Nat) (k : Except Err Bytes → Prog α)

/-- run over the scheduled reader; `none` = the model's unread precondition failed (a Go panic) -/
def runSched {α : Type} : Prog α → Sc → Option α
  | .ret a, _ => some a
  | .read1 u k, z =>
    match z.readn1.1 with
    | .ok b =>
      if u b then
        (match z.readn1.2.unreadByte with
         | some z'' => runSched (k (.ok b)) z''
         | none => none)
      else runSched (k (.ok b)) z.readn1.2
    | .error e => runSched (k (.error e)) z.readn1.2
  | .readN n k, z => runSched (k (z.readN n).1) (z.readN n).2

/-- run over the abstract cursor -/
def runCursor {α : Type} : Prog α → Rd → Option α
  | .ret a, _ => some a
  | .read1 u k, rd =>
    match rd.read1.1 with
    | .ok (b, rd2) =>
      if u b then runCursor (k (.ok b)) (rd2.unread1 b) else runCursor (k (.ok b)) rd2
    | .error e => runCursor (k (.error e)) rd.read1.2
  | .readN n k, rd => runCursor (k (rd.readN n).1) (rd.readN n).2

theorem client_independent {α : Type} (p : Prog α) (z : Sc) (h : Legal z) :
    runSched p z = runCursor p z.abs := by
  sorry

/-- Two schedules of the same data give every client the same answer. -/
theorem schedule_independent {α : Type} (p : Prog α) (data : Bytes) (c1 c2 : List Nat) (e1 e2 : Bool)
    (h1 : maxZeroRun c1 0 ≤ maxEmpty) (h2 : maxZeroRun c2 0 ≤ maxEmpty) :
    runSched p (Sc.ofSrc ⟨data, c1, e1⟩) = runSched p (Sc.ofSrc ⟨data, c2, e2⟩) := by
  sorry

example : (match (Sc.ofSrc ⟨[1, 2, 3], [0, 1, 0, 0, 2], true⟩).readn1.1 with | .ok b => b == 1 | .error _ => false) = true := by
  decide

end Refmt.C15
