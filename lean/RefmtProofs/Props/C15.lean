/-
  C15 — decoding does not depend on how the reader delivers the bytes.

  `Sched` (RefmtModel/Model/SchedReader.lean) models shared/reader.go's
  readerToScanner + io.ReadAtLeast over an io.Reader that splits the data into
  arbitrary chunks, may return empty reads, and may return the last bytes
  together with EOF.  `Rd` (Model/Reader.lean) is the abstract cursor with one
  byte of push-back that the decoder models read from.

  * `readn1_refines`, `readN_refines`, `unread_refines` : every reader operation on the scheduled
        reader gives the result of the same operation on the abstract cursor `abs z`, and leaves a state
        that again abstracts to the cursor's new state — for every data, every chunking, every legal
        number of empty reads, with or without EOF-with-data.
  * `client_independent` : hence any client program built from these operations (unread only directly
        after a successful one-byte read — the discipline both decoders follow) computes the same result
        over every schedule as over the one-shot cursor.
-/
import RefmtModel
set_option linter.unusedSimpArgs false
set_option linter.unusedVariables false
namespace Refmt.C15
open Refmt Refmt.Sched

/-- longest run of consecutive empty reads in a chunk list -/
def maxZeroRun : List Nat → Nat → Nat
  | [], cur => cur
  | c :: cs, cur => if c == 0 then max (cur + 1) (maxZeroRun cs (cur + 1)) else max cur (maxZeroRun cs 0)

/-- A legal, progressing schedule: never more than `maxEmpty` empty reads in a row. -/
def Legal (z : Sc) : Prop := maxZeroRun z.src.chunks 0 ≤ maxEmpty ∧ z.ls ≤ 2 ∧ (z.ls = 0 ∨ z.ls = 1 ∨ z.ls = 2)

/-- results agree up to the reader state -/
def agree1 (a : Except Err Nat × Sc) (b : Except Err (Nat × Rd) × Rd) : Prop :=
  match a.1, b.1 with
  | .ok x, .ok (y, rd2) => x = y ∧ a.2.abs = rd2 ∧ b.2 = rd2
  | .error e, .error e' => e = e' ∧ a.2.abs.data = b.2.data
  | _, _ => False

/-! ### Helper lemmas -/

theorem mzr_ge_cur : ∀ (cs : List Nat) (cur : Nat), cur ≤ maxZeroRun cs cur := by
  intro cs
  induction cs with
  | nil => intro cur; simp [maxZeroRun]
  | cons c cs ih =>
    intro cur
    unfold maxZeroRun
    split <;> omega

theorem mzr_mono : ∀ (cs : List Nat) (a b : Nat), a ≤ b → maxZeroRun cs a ≤ maxZeroRun cs b := by
  intro cs
  induction cs with
  | nil => intro a b h; simpa [maxZeroRun] using h
  | cons c cs ih =>
    intro a b h
    unfold maxZeroRun
    split
    · have := ih (a + 1) (b + 1) (by omega); omega
    · omega

theorem mzr_zero_le (cs : List Nat) (cur : Nat) : maxZeroRun cs 0 ≤ maxZeroRun cs cur :=
  mzr_mono cs 0 cur (Nat.zero_le _)

theorem mzr_tail (c : Nat) (cs : List Nat) (cur : Nat) : maxZeroRun cs 0 ≤ maxZeroRun (c :: cs) cur := by
  conv => rhs; unfold maxZeroRun
  split
  · have := mzr_mono cs 0 (cur + 1) (by omega); omega
  · omega

theorem mzr_partial (c d : Nat) (hd : d ≠ 0) (hc : c ≠ 0) (cs : List Nat) (cur : Nat) :
    maxZeroRun (d :: cs) 0 ≤ maxZeroRun (c :: cs) cur := by
  unfold maxZeroRun
  simp [hd, hc]
  omega

/-- one step of the underlying reader, `want > 0` -/
theorem src_read_spec (s : Src) (w : Nat) (hw : 0 < w) :
    (s.data = [] ∧ s.read w = ([], true, s)) ∨
    (s.data ≠ [] ∧ ∃ cs, s.chunks = 0 :: cs ∧ s.read w = ([], false, { s with chunks := cs })) ∨
    (s.data ≠ [] ∧ ∃ n s', 0 < n ∧ n ≤ w ∧ n ≤ s.data.length ∧
        s.read w = (s.data.take n, s.eofWithData && n == s.data.length, s') ∧
        s'.data = s.data.drop n ∧ s'.chunks.length ≤ s.chunks.length ∧
        (∀ cur, maxZeroRun s'.chunks 0 ≤ maxZeroRun s.chunks cur)) := by
  obtain ⟨data, chunks, e⟩ := s
  cases data with
  | nil => left; simp [Src.read]
  | cons b rest =>
    right
    cases chunks with
    | nil =>
      right
      refine ⟨by simp, min w (rest.length + 1), ⟨(b :: rest).drop (min w (rest.length + 1)), [], e⟩, ?_, ?_, ?_, ?_, rfl, ?_, ?_⟩
      · omega
      · omega
      · simp; omega
      · simp [Src.read]
      · simp
      · intro cur; simp [maxZeroRun]
    | cons c cs =>
      by_cases hc : c = 0
      · left
        subst hc
        exact ⟨by simp, cs, rfl, by simp [Src.read]⟩
      · right
        refine ⟨by simp, min (min c w) (rest.length + 1), ⟨(b :: rest).drop (min (min c w) (rest.length + 1)), (if min (min c w) (rest.length + 1) < c then (c - min (min c w) (rest.length + 1)) :: cs else cs), e⟩, ?_, ?_, ?_, ?_, rfl, ?_, ?_⟩
        · omega
        · omega
        · simp; omega
        · simp [Src.read, hc]
        · simp; split <;> simp
        · intro cur
          simp only
          split
          · apply mzr_partial <;> omega
          · exact mzr_tail c cs cur

theorem getLastD_irrel {α} (l : List α) (a b : α) (h : l ≠ []) : l.getLastD a = l.getLastD b := by
  cases l with
  | nil => exact absurd rfl h
  | cons x xs => rw [List.getLastD_cons, List.getLastD_cons]

/-- one `Read` of the scanner, `want > 0`, against the abstract data `D = z.abs.data` -/
theorem sc_read_spec (z : Sc) (w : Nat) (hw : 0 < w) :
    ∃ k eof z', z.read w = (z.abs.data.take k, eof, z') ∧ k ≤ w ∧ k ≤ z.abs.data.length ∧
      z'.ls ≠ 1 ∧ z'.src.data = z.abs.data.drop k ∧
      (∀ cur, maxZeroRun z'.src.chunks 0 ≤ maxZeroRun z.src.chunks cur) ∧
      (z.ls ≤ 2 → z'.ls ≤ 2) ∧
      (eof = true → k < w ∧ z.abs.data.length = k) ∧
      (eof = false → k < w → z'.src.chunks.length + (w - k) < z.src.chunks.length + w) ∧
      (0 < k → z'.ls = 2 ∧ z'.l = (z.abs.data.take k).getLastD 0) ∧
      (k = 0 → z.ls ≠ 1 ∧ (eof = false → z.src.chunks = 0 :: z'.src.chunks) ∧ (eof = true → z' = z)) := by
  obtain ⟨src, l, ls⟩ := z
  by_cases hls : ls = 1
  · subst hls
    by_cases hw1 : w = 1
    · subst hw1
      refine ⟨1, false, ⟨src, l, 2⟩, ?_, ?_⟩
      · simp [Sc.read, Sc.abs]
      · simp [Sc.abs, mzr_zero_le]
    · rcases src_read_spec src (w - 1) (by omega) with ⟨hd, hr⟩ | ⟨hd, cs, hc, hr⟩ | ⟨hd, n, s', hn0, hnw, hnl, hr, hsd, hsc, hsm⟩
      · refine ⟨1, true, ⟨src, l, 2⟩, ?_, ?_⟩
        · simp [Sc.read, Sc.abs, hw1, hr]
        · simp [Sc.abs, hd, mzr_zero_le]; omega
      · refine ⟨1, false, ⟨{ src with chunks := cs }, l, 2⟩, ?_, ?_⟩
        · simp [Sc.read, Sc.abs, hw1, hr]
        · simp [Sc.abs, hc, mzr_tail]; omega
      · have hne : List.take n src.data ≠ [] := by
          intro h
          have := congrArg List.length h
          have hl : 0 < src.data.length := List.length_pos_iff.mpr hd
          rw [List.length_take, List.length_nil] at this; omega
        have hmin : min n src.data.length = n := Nat.min_eq_left hnl
        have hE : (src.eofWithData && n == src.data.length) = true → n = src.data.length := by
          simp
        generalize (src.eofWithData && n == src.data.length) = E at hr hE
        refine ⟨n + 1, (if E && (n == w - 1) then false else E), ⟨s', (src.data.take n).getLastD 0, 2⟩, ?_, ?_, ?_, ?_, ?_, ?_, ?_, ?_, ?_, ?_, ?_⟩
        · simp [Sc.read, Sc.abs, hw1, hr, hne, hmin]
        · omega
        · simp [Sc.abs]; omega
        · simp
        · simp [Sc.abs, hsd]
        · exact hsm
        · simp
        · intro h
          have hE1 : E = true := by
            split at h
            · cases h
            · exact h
          have := hE hE1
          simp [hE1] at h
          simp [Sc.abs]; omega
        · intro _ _
          show s'.chunks.length + _ < src.chunks.length + _
          omega
        · intro _
          refine ⟨rfl, ?_⟩
          show (src.data.take n).getLastD 0 = (List.take (n + 1) (l :: src.data)).getLastD 0
          rw [List.take_succ_cons, List.getLastD_cons]
          exact getLastD_irrel _ _ _ hne
        · intro h; omega
  · rcases src_read_spec src w hw with ⟨hd, hr⟩ | ⟨hd, cs, hc, hr⟩ | ⟨hd, n, s', hn0, hnw, hnl, hr, hsd, hsc, hsm⟩
    · refine ⟨0, true, ⟨src, l, ls⟩, ?_, ?_⟩
      · simp [Sc.read, Sc.abs, hls, hr]
      · simp [Sc.abs, hd, hls, mzr_zero_le]; omega
    · refine ⟨0, false, ⟨{ src with chunks := cs }, l, ls⟩, ?_, ?_⟩
      · simp [Sc.read, Sc.abs, hls, hr]
      · simp [Sc.abs, hc, hls, mzr_tail]
    · have hne : List.take n src.data ≠ [] := by
        intro h
        have := congrArg List.length h
        have hl : 0 < src.data.length := List.length_pos_iff.mpr hd
        rw [List.length_take, List.length_nil] at this; omega
      have hmin : min n src.data.length = n := Nat.min_eq_left hnl
      have hE : (src.eofWithData && n == src.data.length) = true → n = src.data.length := by
        simp
      generalize (src.eofWithData && n == src.data.length) = E at hr hE
      refine ⟨n, (if E && (n == w) then false else E), ⟨s', (src.data.take n).getLastD 0, 2⟩, ?_, ?_, ?_, ?_, ?_, ?_, ?_, ?_, ?_, ?_, ?_⟩
      · simp [Sc.read, Sc.abs, hls, hr, hne, hmin]
      · omega
      · simp [Sc.abs, hls]; omega
      · simp
      · simp [Sc.abs, hsd, hls]
      · exact hsm
      · simp
      · intro h
        have hE1 : E = true := by
          split at h
          · cases h
          · exact h
        have := hE hE1
        simp [hE1] at h
        simp [Sc.abs, hls]; omega
      · intro _ _
        show s'.chunks.length + _ < src.chunks.length + _
        omega
      · intro _
        refine ⟨rfl, ?_⟩
        simp [Sc.abs, hls]
      · intro h; omega

theorem abs_of_ne (z : Sc) (h : z.ls ≠ 1) : z.abs = ⟨z.src.data, none, 0⟩ := by
  simp [Sc.abs, h]

theorem readByte_spec : ∀ (fuel : Nat) (z : Sc) (cur : Nat),
    maxZeroRun z.src.chunks cur < fuel + cur →
    ∃ z', z'.ls ≠ 1 ∧ (z.ls ≤ 2 → z'.ls ≤ 2) ∧ maxZeroRun z'.src.chunks 0 ≤ maxZeroRun z.src.chunks cur ∧
      z'.src.data = z.abs.data.drop 1 ∧
      match z.abs.data with
      | [] => z.readByte fuel = (.error .eof, z')
      | b :: _ => z.readByte fuel = (.ok b, z') ∧ z'.ls = 2 ∧ z'.l = b := by
  intro fuel
  induction fuel with
  | zero =>
    intro z cur h
    have := mzr_ge_cur z.src.chunks cur
    omega
  | succ fuel ih =>
    intro z cur h
    obtain ⟨k, eof, z', hread, hk1, hkD, hls', hdata, hmzr, hls2, heofT, heofF, hpos, hzero⟩ := sc_read_spec z 1 (by omega)
    cases hD : z.abs.data with
    | nil =>
      rw [hD] at hread hkD hdata
      have hk0 : k = 0 := by simpa using hkD
      subst hk0
      obtain ⟨hzls, hF, hT⟩ := hzero rfl
      cases eof with
      | true =>
        refine ⟨z', hls', hls2, hmzr cur, by simpa using hdata, ?_⟩
        simp [Sc.readByte, hread]
      | false =>
        have hc := hF rfl
        have habs : z'.abs.data = [] := by rw [abs_of_ne z' hls']; simpa using hdata
        have hm : maxZeroRun z'.src.chunks (cur + 1) < fuel + (cur + 1) := by
          rw [hc] at h; unfold maxZeroRun at h; simp at h; omega
        obtain ⟨z'', h1, h2, h3, h4, h5⟩ := ih z' (cur + 1) hm
        rw [habs] at h4 h5
        refine ⟨z'', h1, fun hh => h2 (hls2 hh), ?_, by simpa using h4, ?_⟩
        · rw [hc]; conv => rhs; unfold maxZeroRun
          simp; omega
        · simp only [Sc.readByte, hread, List.take_nil]
          simpa using h5
    | cons b rest =>
      rw [hD] at hread hkD hdata
      by_cases hk0 : k = 0
      · subst hk0
        obtain ⟨hzls, hF, hT⟩ := hzero rfl
        cases eof with
        | true => have := (heofT rfl).2; rw [hD] at this; simp at this
        | false =>
          have hc := hF rfl
          have habs : z'.abs.data = b :: rest := by rw [abs_of_ne z' hls']; simpa using hdata
          have hm : maxZeroRun z'.src.chunks (cur + 1) < fuel + (cur + 1) := by
            rw [hc] at h; unfold maxZeroRun at h; simp at h; omega
          obtain ⟨z'', h1, h2, h3, h4, h5⟩ := ih z' (cur + 1) hm
          rw [habs] at h4 h5
          refine ⟨z'', h1, fun hh => h2 (hls2 hh), ?_, by simpa using h4, ?_⟩
          · rw [hc]; conv => rhs; unfold maxZeroRun
            simp; omega
          · simp only [Sc.readByte, hread, List.take_zero]
            simpa using h5
      · have hk : k = 1 := by omega
        subst hk
        obtain ⟨hl2, hl⟩ := hpos (by omega)
        rw [hD] at hl
        refine ⟨z', hls', hls2, hmzr cur, by simpa using hdata, ?_⟩
        simp [Sc.readByte, hread, hl2]
        simpa using hl

theorem readAtLeast_spec : ∀ (fuel : Nat) (z : Sc) (want : Nat) (acc : Bytes) (cur : Nat),
    0 < want → z.src.chunks.length + want < fuel →
    ∃ z', z'.ls ≠ 1 ∧ (z.ls ≤ 2 → z'.ls ≤ 2) ∧ maxZeroRun z'.src.chunks 0 ≤ maxZeroRun z.src.chunks cur ∧
      if want ≤ z.abs.data.length then
        z.readAtLeast fuel want acc = (.ok (acc ++ z.abs.data.take want), z') ∧ z'.src.data = z.abs.data.drop want
      else
        z.readAtLeast fuel want acc = (.error (if (acc ++ z.abs.data).isEmpty then .eof else .unexpectedEof), z') ∧
          z'.src.data = [] := by
  intro fuel
  induction fuel with
  | zero => intro z want acc cur hw hf; omega
  | succ fuel ih =>
    intro z want acc cur hw hf
    obtain ⟨k, eof, z', hread, hkw, hkD, hls', hdata, hmzr, hls2, heofT, heofF, hpos, hzero⟩ := sc_read_spec z want hw
    have hw0 : (want == 0) = false := by simp; omega
    have hlen : (z.abs.data.take k).length = k := by rw [List.length_take]; omega
    by_cases hkw' : want ≤ k
    · have hk : k = want := by omega
      subst hk
      refine ⟨z', hls', hls2, hmzr cur, ?_⟩
      rw [if_pos hkD]
      refine ⟨?_, hdata⟩
      simp only [Sc.readAtLeast, hw0, hread, hlen]
      simp
    · cases eof with
      | true =>
        obtain ⟨_, hDk⟩ := heofT rfl
        refine ⟨z', hls', hls2, hmzr cur, ?_⟩
        rw [if_neg (by omega)]
        have htake : z.abs.data.take k = z.abs.data := by rw [← hDk]; exact List.take_length
        refine ⟨?_, by rw [hdata, ← hDk]; exact List.drop_length⟩
        simp only [Sc.readAtLeast, hw0, hread, hlen]
        simp [hkw', htake]
      | false =>
        have hprog := heofF rfl (by omega)
        have habs : z'.abs.data = z.abs.data.drop k := by rw [abs_of_ne z' hls']; exact hdata
        obtain ⟨z'', h1, h2, h3, h4⟩ := ih z' (want - k) (acc ++ z.abs.data.take k) 0 (by omega) (by omega)
        refine ⟨z'', h1, fun hh => h2 (hls2 hh), Nat.le_trans h3 (hmzr cur), ?_⟩
        have hstep : z.readAtLeast (fuel + 1) want acc = z'.readAtLeast fuel (want - k) (acc ++ z.abs.data.take k) := by
          simp only [Sc.readAtLeast, hw0, hread, hlen]
          simp [hkw']
        rw [hstep]
        rw [habs] at h4
        have htk : z.abs.data.take k ++ (z.abs.data.drop k).take (want - k) = z.abs.data.take want := by
          have : want = k + (want - k) := by omega
          conv => rhs; rw [this, List.take_add]
        have hdk : (z.abs.data.drop k).drop (want - k) = z.abs.data.drop want := by
          rw [List.drop_drop]; congr 1; omega
        by_cases hwl : want ≤ z.abs.data.length
        · rw [if_pos hwl]
          rw [if_pos (by rw [List.length_drop]; omega)] at h4
          rw [List.append_assoc, htk, hdk] at h4
          exact h4
        · rw [if_neg hwl]
          rw [if_neg (by rw [List.length_drop]; omega)] at h4
          rw [List.append_assoc, List.take_append_drop] at h4
          exact h4

theorem legal_of {z : Sc} (h1 : maxZeroRun z.src.chunks 0 ≤ maxEmpty) (h2 : z.ls ≤ 2) : Legal z :=
  ⟨h1, h2, by omega⟩

theorem abs_fault (z : Sc) : z.abs.fault = none := by
  unfold Sc.abs; split <;> rfl

theorem rd_read1_nofault (r : Rd) (h : r.fault = none) :
    r.read1 = match r.data with
      | [] => (.error .eof, r)
      | b :: rest => (.ok (b, ⟨rest, none, 0⟩), ⟨rest, none, 0⟩) := by
  unfold Rd.read1
  rw [h]
  cases r.data <;> simp

theorem rd_readN_nofault (r : Rd) (n : Nat) (h : r.fault = none) :
    r.readN n = if n = 0 then (.ok [], r) else
      if n ≤ r.data.length then (.ok (r.data.take n), ⟨r.data.drop n, none, 0⟩)
      else (.error (if r.data.isEmpty then .eof else .unexpectedEof), ⟨[], none, 0⟩) := by
  unfold Rd.readN
  rw [h]
  simp

/-- full-strength one-byte read: results, exact abstract states (also after an error), unread -/
theorem readn1_strong (z : Sc) (h : Legal z) :
    ∃ z', z.readn1.2 = z' ∧ Legal z' ∧ z'.abs = z.abs.read1.2 ∧
      match z.abs.data with
      | [] => z.readn1.1 = .error .eof ∧ z.abs.read1.1 = .error .eof
      | b :: rest => z.readn1.1 = .ok b ∧ z.abs.read1.1 = .ok (b, ⟨rest, none, 0⟩) ∧ z.abs.read1.2 = ⟨rest, none, 0⟩ ∧
          z'.ls = 2 ∧ z'.l = b := by
  obtain ⟨hm, hl2, _⟩ := h
  obtain ⟨z', h1, h2, h3, h4, h5⟩ := readByte_spec (maxEmpty + 1) z 0 (by omega)
  have hr1 := rd_read1_nofault z.abs (abs_fault z)
  have habs' := abs_of_ne z' h1
  cases hD : z.abs.data with
  | nil =>
    rw [hD] at h4 h5 hr1
    simp only at h5 hr1
    have hz : z.ls ≠ 1 := by
      intro hc; simp [Sc.abs, hc] at hD
    refine ⟨z', by simp [Sc.readn1, h5], legal_of (Nat.le_trans h3 hm) (h2 hl2), ?_, by simp [Sc.readn1, h5], by simp [hr1]⟩
    rw [hr1, habs', h4]
    show _ = z.abs
    rw [abs_of_ne z hz]
    rw [abs_of_ne z hz] at hD
    simp at hD
    simp [hD]
  | cons b rest =>
    rw [hD] at h4 h5 hr1
    simp only at h5 hr1
    obtain ⟨h5, h6, h7⟩ := h5
    refine ⟨z', by simp [Sc.readn1, h5], legal_of (Nat.le_trans h3 hm) (h2 hl2), ?_, by simp [Sc.readn1, h5], by simp [hr1], by simp [hr1], h6, h7⟩
    rw [hr1, habs', h4]
    simp

theorem readN_strong (z : Sc) (n : Nat) (h : Legal z) :
    (z.readN n).1 = (z.abs.readN n).1 ∧ (z.readN n).2.abs = (z.abs.readN n).2 ∧ Legal (z.readN n).2 := by
  have hrN := rd_readN_nofault z.abs n (abs_fault z)
  by_cases hn : n = 0
  · subst hn
    simp [Sc.readN, hrN, h]
  · obtain ⟨hm, hl2, _⟩ := h
    obtain ⟨z', h1, h2, h3, h4⟩ := readAtLeast_spec (n + (z.src.chunks.length + 2)) z n [] 0 (by omega) (by omega)
    have habs' := abs_of_ne z' h1
    have hn' : (n == 0) = false := by simp [hn]
    rw [if_neg hn] at hrN
    have hzN : z.readN n = z.readAtLeast (n + (z.src.chunks.length + 2)) n [] := by
      simp [Sc.readN, hn]
    by_cases hnl : n ≤ z.abs.data.length
    · rw [if_pos hnl] at h4 hrN
      obtain ⟨h4, h5⟩ := h4
      rw [hzN, h4, hrN]
      refine ⟨by simp, ?_, legal_of (Nat.le_trans h3 hm) (h2 hl2)⟩
      show z'.abs = _
      rw [habs', h5]
    · rw [if_neg hnl] at h4 hrN
      obtain ⟨h4, h5⟩ := h4
      rw [hzN, h4, hrN]
      refine ⟨by simp, ?_, legal_of (Nat.le_trans h3 hm) (h2 hl2)⟩
      show z'.abs = _
      rw [habs', h5]

/-! ### The refinement theorems -/

theorem readn1_refines (z : Sc) (h : Legal z) : agree1 z.readn1 z.abs.read1 ∧ Legal z.readn1.2 := by
  obtain ⟨z', hz', hL, habs, hm⟩ := readn1_strong z h
  subst hz'
  refine ⟨?_, hL⟩
  cases hD : z.abs.data with
  | nil =>
    rw [hD] at hm
    simp only [agree1, hm.1, hm.2, habs]
    simp
  | cons b rest =>
    rw [hD] at hm
    obtain ⟨h1, h2, h3, _, _⟩ := hm
    simp only [agree1, h1, h2]
    exact ⟨trivial, by rw [habs, h3], h3⟩

def agreeN (a : Except Err Bytes × Sc) (b : Except Err Bytes × Rd) : Prop :=
  match a.1, b.1 with
  | .ok x, .ok y => x = y ∧ a.2.abs = b.2
  | .error e, .error e' => e = e' ∧ a.2.abs.data = b.2.data
  | _, _ => False

theorem readN_refines (z : Sc) (n : Nat) (h : Legal z) : agreeN (z.readN n) (z.abs.readN n) ∧ Legal (z.readN n).2 := by
  obtain ⟨h1, h2, h3⟩ := readN_strong z n h
  refine ⟨?_, h3⟩
  unfold agreeN
  rw [h1, h2]
  cases (z.abs.readN n).1 <;> simp

theorem unread_refines (z z' : Sc) (b : Nat) (h : Legal z) (hr : z.readn1 = (.ok b, z')) :
    ∃ z'', z'.unreadByte = some z'' ∧ z''.abs = z'.abs.unread1 b ∧ Legal z'' := by
  obtain ⟨z1, hz1, hL, habs, hm⟩ := readn1_strong z h
  rw [hr] at hz1 hm
  simp only at hz1 hm
  subst hz1
  cases hD : z.abs.data with
  | nil => rw [hD] at hm; simp at hm
  | cons b' rest =>
    rw [hD] at hm
    obtain ⟨h1, _, _, hls, hl⟩ := hm
    have hb : b = b' := by simpa using h1
    subst hb
    obtain ⟨src, l, ls⟩ := z'
    simp only at hls hl
    subst hls hl
    refine ⟨⟨src, l, 1⟩, by simp [Sc.unreadByte], by simp [Sc.abs, Rd.unread1], ?_⟩
    exact ⟨hL.1, by simp, by simp⟩

/-! ### Any client of the reader operations is schedule-independent -/

/-- Client programs over the reader interface.  `read1u` = read one byte with the option to push it back
    (the continuation says whether it does), matching the decoders' discipline. -/
inductive Prog (α : Type) where
  | ret (a : α)
  | read1 (unread : Nat → Bool) (k : Except Err Nat → Prog α)   -- `unread b`: push the byte just read back
  | readN (n : Nat) (k : Except Err Bytes → Prog α)

/-- run over the scheduled reader; `none` = the model's unread precondition failed (a Go panic) -/
def runSched {α : Type} : Prog α → Sc → Option α
  | .ret a, _ => some a
  | .read1 u k, z =>
    match z.readn1.1 with
    | .ok b =>
      if u b then
        (match z.readn1.2.unreadByte with
         | some z'' => runSched (k (.ok b)) z''
         | none => none)
      else runSched (k (.ok b)) z.readn1.2
    | .error e => runSched (k (.error e)) z.readn1.2
  | .readN n k, z => runSched (k (z.readN n).1) (z.readN n).2

/-- run over the abstract cursor -/
def runCursor {α : Type} : Prog α → Rd → Option α
  | .ret a, _ => some a
  | .read1 u k, rd =>
    match rd.read1.1 with
    | .ok (b, rd2) =>
      if u b then runCursor (k (.ok b)) (rd2.unread1 b) else runCursor (k (.ok b)) rd2
    | .error e => runCursor (k (.error e)) rd.read1.2
  | .readN n k, rd => runCursor (k (rd.readN n).1) (rd.readN n).2

theorem client_independent {α : Type} (p : Prog α) (z : Sc) (h : Legal z) :
    runSched p z = runCursor p z.abs := by
  induction p generalizing z with
  | ret a => simp [runSched, runCursor]
  | read1 u k ih =>
    obtain ⟨z', hz', hL, habs, hm⟩ := readn1_strong z h
    cases hD : z.abs.data with
    | nil =>
      rw [hD] at hm
      simp only [runSched, runCursor, hm.1, hm.2]
      rw [ih _ _ (hz' ▸ hL), hz', habs]
    | cons b rest =>
      rw [hD] at hm
      obtain ⟨h1, h2, h3, hls, hl⟩ := hm
      obtain ⟨z'', hu, hua, huL⟩ := unread_refines z z' b h (by rw [← hz', ← h1])
      simp only [runSched, runCursor, h1, h2, hz', hu]
      rw [habs, h3] at hua
      split
      · rw [ih _ _ huL, hua]
      · rw [ih _ _ hL, habs, h3]
  | readN n k ih =>
    obtain ⟨h1, h2, h3⟩ := readN_strong z n h
    simp only [runSched, runCursor]
    rw [ih _ _ h3, h1, h2]

/-- Two schedules of the same data give every client the same answer. -/
theorem schedule_independent {α : Type} (p : Prog α) (data : Bytes) (c1 c2 : List Nat) (e1 e2 : Bool)
    (h1 : maxZeroRun c1 0 ≤ maxEmpty) (h2 : maxZeroRun c2 0 ≤ maxEmpty) :
    runSched p (Sc.ofSrc ⟨data, c1, e1⟩) = runSched p (Sc.ofSrc ⟨data, c2, e2⟩) := by
  rw [client_independent p _ ⟨h1, by simp [Sc.ofSrc], by simp [Sc.ofSrc]⟩,
    client_independent p _ ⟨h2, by simp [Sc.ofSrc], by simp [Sc.ofSrc]⟩]
  rfl

example : (match (Sc.ofSrc ⟨[1, 2, 3], [0, 1, 0, 0, 2], true⟩).readn1.1 with | .ok b => b == 1 | .error _ => false) = true := by
  decide

end Refmt.C15
