/-
  C17 (object unmarshaller): the STATEFUL model of obj.Unmarshaller (RefmtModel/Model/Obj/UnmarshalMach.lean: slab
  rows, machine stack, current machine, Bind, one token per Step) against the FUNCTIONAL model `unmV`
  (RefmtModel/Model/Obj/Unmarshal.lean), from ANY state the instance was left in.

  Contents
    * `unmarshaller_refines_statement` : the statement at full strength (all atlases, all types).  It is FALSE
      (`unmarshaller_refines_statement_false`): the library refuses chained transforms, the functional model unmarshals
      through them (`clash_chain`; also `clash_ptr_recv`, `clash_union`: a Go defect, stack overflow).
    * `unmarshaller_refines_fixed_statement` : the corrected statement (hypotheses on the atlas and on the untyped-slot
      type ids only).  NOT PROVED here.
    * `unmarshaller_refines_partial` : PROVED fragment: targets whose machine (pointer levels peeled off) is the
      primitive machine or an error thunk; every dirty state, every current content, every token list; an equation
      (no no-panic hypothesis needed).
    * `reused_eq_fresh` : a reused instance behaves as a fresh one (unconditional: every atlas, every machine).
    * `decide +kernel` examples running the stateful model from a dirty state (an instance abandoned in the middle of
      a nested map, non-empty stack) against the functional model: structs with ignored keys, maps, slices, arrays,
      untyped slots, pointers, transforms, keyed unions, tags; accepted, rejected and truncated inputs (every prefix).
  What is missing for `unmarshaller_refines_fixed_statement`: the simulation for the machines that take more than one
  token (slice, array, map, struct, wildcard, transform, union): an invariant relating the suspended machines on the
  stack (phase, index, working / target slots, child machine reference and its row's configuration, row indices
  increasing, rows above the current machine's row irrelevant except for `slab.tip()` users) to the pending calls of
  `unmElems` / `unmMapEntries` / `unmStruct`, and its preservation by one `Step` (the architecture of
  RefmtProofs/Lemmas/MarshalMach*.lean).
-/
import RefmtProofs.Lemmas.UnmarshalMachScalar
open Refmt Refmt.Obj Refmt.Obj.UM Refmt.UMachL

namespace Refmt.C17ObjUnmarshal

/-- the functional model did not panic (in particular: it did not run out of fuel) -/
def NoPanic (x : URes) : Prop := ∀ u, x ≠ .panic u

/-- the refinement at full strength: all atlases, all types -/
def unmarshaller_refines_statement : Prop :=
  ∀ (ts : Types) (a : Atlas) (trs : Trs) (it : IfaceTys) (fuel id : Nat) (toks : List Tok),
    NoPanic (unmV ts a trs it fuel id (zeroVal ts 64 id) toks) →
    ∃ N, ∀ sf, N ≤ sf → ∀ dirty : UState,
      urun ts a trs it sf (UM.bind ts a sf dirty id (zeroVal ts 64 id)) toks
        = unmV ts a trs it fuel id (zeroVal ts 64 id) toks

/-- no atlas entry selects a panicking machine; a transform's receive type is not a pointer type and does not need a
    transform itself (the library refuses both); a union's members are struct-map, map or transform entries -/
def AtlasOk (ts : Types) (a : Atlas) : Prop :=
  ∀ e ∈ a.pool,
    (match umachForEntry ts e with | .panic => False | _ => True) ∧
    (match e.k with
     | .transform _ _ uty =>
       isPtrTy ts uty = false ∧ (match upickBare ts a uty with | .transform _ _ | .union _ | .wildcard => False | _ => True)
     | .union ms => ∀ m ∈ ms, ∀ me, a.pool[m.2]? = some me →
         (match me.k with | .union _ | .invalid => False | _ => True)
     | _ => True)

/-- the type ids handed to the functional model for untyped slots denote what they should -/
def ItOk (ts : Types) (a : Atlas) (it : IfaceTys) : Prop :=
  ts.get it.iface = .iface false ∧ a.get it.iface = none ∧ ts.get it.mapSI = .map it.str it.iface ∧
  ts.get it.sliceI = .slice it.iface ∧ (∃ b, ts.get it.str = .prim .string b) ∧ a.get it.mapSI = none ∧
  a.get it.sliceI = none

/-- the corrected statement (not proved here; see the header) -/
def unmarshaller_refines_fixed_statement : Prop :=
  ∀ (ts : Types) (a : Atlas) (trs : Trs) (it : IfaceTys), AtlasOk ts a → ItOk ts a it →
    ∀ (fuel id : Nat) (toks : List Tok),
    NoPanic (unmV ts a trs it fuel id (zeroVal ts 64 id) toks) →
    ∃ N, ∀ sf, N ≤ sf → ∀ dirty : UState,
      urun ts a trs it sf (UM.bind ts a sf dirty id (zeroVal ts 64 id)) toks
        = unmV ts a trs it fuel id (zeroVal ts 64 id) toks

/-- whatever the instance did before, `Bind` makes it behave as a new one: every atlas, every fuel -/
theorem reused_eq_fresh (ts : Types) (a : Atlas) (trs : Trs) (it : IfaceTys) (sf : Nat) (dirty : UState) (id : Nat)
    (cur : Val) (toks : List Tok) :
    urun ts a trs it sf (UM.bind ts a sf dirty id cur) toks
      = urun ts a trs it sf (UM.bind ts a sf UState.fresh id cur) toks := by
  cases toks with
  | nil => simp [urun]
  | cons t rest =>
    unfold UM.bind
    cases requisition ts a sf [] id with
    | error x => simp [urun]
    | ok p =>
      obtain ⟨R, m⟩ := p
      cases resetM ts a sf m id cur R <;> rfl

/-- the fragment proved so far: the machine selected for the target type (pointer levels peeled off) is the
    primitive machine (bool, string, all integer and float kinds with their range checks, byte slices, byte arrays,
    typedef'd or not) or an error thunk (struct without atlas entry, func / chan / ...).  Decidable. -/
abbrev ScalarTarget (ts : Types) (a : Atlas) (id : Nat) : Prop := Scalar ts a id

instance (ts : Types) (a : Atlas) (id : Nat) : Decidable (ScalarTarget ts a id) := by
  unfold ScalarTarget Scalar
  cases upickBare ts a (peel ts 64 0 id).2 <;> simp <;> infer_instance

/-- the refinement for scalar targets behind any number of pointers: EVERY dirty state, every current content of the
    target (not only the zero value), every token list (too short, too long, ill-typed, out of range), without
    any no-panic hypothesis; fuel 2 for the functional model and 4 for the stateful one are enough -/
theorem unmarshaller_refines_partial (ts : Types) (a : Atlas) (trs : Trs) (it : IfaceTys) (id : Nat)
    (h : ScalarTarget ts a id) (fuel sf : Nat) (hfuel : 2 ≤ fuel) (hsf : 4 ≤ sf) (dirty : UState) (cur : Val)
    (toks : List Tok) :
    urun ts a trs it sf (UM.bind ts a sf dirty id cur) toks = unmV ts a trs it fuel id cur toks :=
  refines_scalar hfuel hsf h dirty cur toks

/-! ### Non-vacuity: the stateful model run from a deliberately dirty state -/

/-- 0 string, 1 int, 2 map[string]int, 3 struct{A map[string]int; B []interface{}; C *struct3}, 4 interface{},
    5 []interface{}, 6 *struct3, 7 map[string]interface{}, 8 uint8, 9 [2]uint8, 12 map[string]map[string]int -/
def exTs : Types :=
  [(0, .prim .string true), (1, .prim .int true), (2, .map 0 1),
   (3, .struct [⟨[65], 2, true, false, none⟩, ⟨[66], 5, true, false, none⟩, ⟨[67], 6, true, false, none⟩]),
   (4, .iface false), (5, .slice 4), (6, .ptr 3), (7, .map 0 4), (8, .prim .uint8 true), (9, .arr 2 8), (12, .map 0 2)]
/-- fields a, b, c and an ignored key x -/
def exAtlas : Atlas :=
  ⟨[⟨true, 3, none, .structMap [⟨[97], false, [0], 2, false⟩, ⟨[98], false, [1], 5, false⟩,
      ⟨[99], false, [2], 6, false⟩, ⟨[120], true, [], 0, false⟩]⟩], .default⟩
def exTrs : Trs := ⟨fun _ _ => none, fun _ _ => none⟩
def exIt : IfaceTys := ⟨0, 0, 0, 1, 1, 1, 7, 5, 4⟩
def tk (b : Body) : Tok := ⟨b, none⟩

/-- feed tokens to an instance, keeping the state (an erroring step leaves the state as it was) -/
def feed (sf : Nat) (s : UState) (toks : List Tok) : UState :=
  toks.foldl (fun s t => match ustep exTs exAtlas exTrs exIt sf s t with | .ok r => r.st | .error _ => s) s

/-- an instance abandoned in the middle of a nested map (`{"k": {"j":` into a map[string]map[string]int, then a
    token that is rejected): rows left over, a non-empty stack -/
def dirty0 : UState :=
  feed 20 (UM.bind exTs exAtlas 20 UState.fresh 12 (.map none))
    [tk (.mapOpen 1), tk (.str [107]), tk (.mapOpen 1), tk (.str [106]), tk .arrClose]

/-- the rejected step itself had already pushed the inner map machine and made the value machine current -/
def dirty : UState := { dirty0 with stack := ⟨1, .map⟩ :: dirty0.stack, step := some ⟨2, .prim⟩ }

example : dirty0.rows.length = 3 ∧ dirty0.stack = [⟨0, .map⟩] ∧ dirty0.step = some ⟨1, .map⟩ := by decide +kernel
example : dirty.rows.length = 3 ∧ dirty.stack.length = 2 ∧
    (dirty.rows.map fun r => r.map.phase) = [.acceptAnotherKeyOrClose, .acceptValue, .initial] := by decide +kernel

/-- a Bool comparison of values (fuelled), for `decide`: `Val` has no decidable equality -/
def veq : Nat → Val → Val → Bool
  | 0, _, _ => false
  | n+1, x, y =>
    let all2 (xs ys : List Val) : Bool := xs.length == ys.length && (xs.zip ys).all fun (p, q) => veq n p q
    match x, y with
    | .bool p, .bool q => p == q
    | .int p, .int q => p == q
    | .uint p, .uint q => p == q
    | .float p, .float q => p == q
    | .str p, .str q => p == q
    | .bytes p, .bytes q => p == q
    | .byteArr p, .byteArr q => p == q
    | .slice none, .slice none => true
    | .slice (some p), .slice (some q) => all2 p q
    | .arr p, .arr q => all2 p q
    | .map none, .map none => true
    | .map (some p), .map (some q) =>
      p.length == q.length && (p.zip q).all fun (e, f) => veq n e.1 f.1 && veq n e.2 f.2
    | .ptr none, .ptr none => true
    | .ptr (some p), .ptr (some q) => veq n p q
    | .iface none, .iface none => true
    | .iface (some p), .iface (some q) => p.1 == q.1 && veq n p.2 q.2
    | .struct p, .struct q => all2 p q
    | _, _ => false

/-- the same outcome: class, value, unconsumed tokens, count -/
def sameRes : URes → URes → Bool
  | .ok v r u, .ok v' r' u' => veq 100 v v' && r == r' && u == u'
  | .more u, .more u' => u == u'
  | .err u, .err u' => u == u'
  | .panic u, .panic u' => u == u'
  | _, _ => false

/-- stateful from the dirty state / functional -/
def runBoth (id : Nat) (toks : List Tok) : URes × URes :=
  (urun exTs exAtlas exTrs exIt 20 (UM.bind exTs exAtlas 20 dirty id (zeroVal exTs 64 id)) toks,
   unmV exTs exAtlas exTrs exIt 40 id (zeroVal exTs 64 id) toks)

/-- struct with a map, an ignored key holding `[{}]`, a slice of untyped values, a pointer to a nested struct with a
    null field; one token left over -/
def toks1 : List Tok :=
  [tk (.mapOpen 4), tk (.str [97]), tk (.mapOpen 1), tk (.str [107]), tk (.int 5), tk .mapClose,
   tk (.str [120]), tk (.arrOpen 1), tk (.mapOpen 0), tk .mapClose, tk .arrClose,
   tk (.str [98]), tk (.arrOpen 2), tk (.int 3), tk (.arrOpen 0), tk .arrClose, tk .arrClose,
   tk (.str [99]), tk (.mapOpen (-1)), tk (.str [97]), tk .null, tk .mapClose, tk .mapClose, tk .null]

example : sameRes (runBoth 3 toks1).1 (runBoth 3 toks1).2 = true := by decide +kernel
example : (match (runBoth 3 toks1).1 with | .ok _ r u => (r.length, u) | _ => (0, 0)) = (1, 23) := by decide +kernel

/-- rejected and truncated inputs: range check inside an array, array overflow, repeated map key, unknown struct
    key, declared length not met, close of the wrong kind, every proper prefix of `toks1`, nulls -/
def badCases : List (Nat × List Tok) :=
  [(9, [tk (.arrOpen 2), tk (.int 3), tk (.int 300)]),
   (9, [tk (.arrOpen 3), tk (.int 3), tk (.int 4), tk (.int 5)]),
   (9, [tk (.arrOpen 1), tk (.int 3), tk .arrClose]),
   (2, [tk (.mapOpen 2), tk (.str [1]), tk (.int 1), tk (.str [1]), tk (.int 2), tk .mapClose]),
   (3, [tk (.mapOpen 1), tk (.str [122]), tk (.int 1), tk .mapClose]),
   (3, [tk (.mapOpen 2), tk (.str [97]), tk .null, tk .mapClose]),
   (5, [tk (.arrOpen 1), tk (.mapOpen 1), tk (.str [1]), tk .arrClose]),
   (12, [tk (.mapOpen 1), tk (.str [107]), tk (.mapOpen 1), tk (.str [106]), tk .arrClose]),
   (6, [tk .null]), (6, []), (4, [tk .mapClose]), (4, [tk (.uint (2^63))])]
  ++ (List.range 24).map fun n => (3, toks1.take n)

example : (badCases.all fun (id, toks) => sameRes (runBoth id toks).1 (runBoth id toks).2) = true := by decide +kernel
example : (badCases.take 8).map (fun (id, toks) => match (runBoth id toks).1 with | .err u => some u | _ => none) =
    [some 2, some 3, none, some 3, some 1, some 3, some 3, some 4] := by decide +kernel

/-! ### Transforms, keyed unions and tags (outside the proved fragment), from the same dirty state

0 string, 1 int, 4 interface{}, 5 []interface{}, 7 map[string]interface{}, 10 struct T{S string} (transform 0 from string,
tag 5), 20 interface Shape = union {c: Circle, t: T}, 21 struct Circle{r int; t T; a interface{}}, 22 []Shape -/

def uxTs : Types :=
  [(0, .prim .string true), (1, .prim .int true), (4, .iface false), (5, .slice 4), (7, .map 0 4),
   (10, .struct [⟨[83], 0, true, false, none⟩]), (20, .iface true),
   (21, .struct [⟨[82], 1, true, false, none⟩, ⟨[84], 10, true, false, none⟩, ⟨[65], 4, true, false, none⟩]), (22, .slice 20)]
def uxAtlas : Atlas :=
  ⟨[⟨true, 10, some 5, .transform 0 0 0⟩,
    ⟨true, 21, none, .structMap [⟨[114], false, [0], 1, false⟩, ⟨[116], false, [1], 10, false⟩, ⟨[97], false, [2], 4, false⟩]⟩,
    ⟨true, 20, none, .union [([99], 1), ([116], 0)]⟩], .default⟩
def uxTrs : Trs := ⟨fun _ _ => none, fun _ v => match v with | .str x => some (.struct [.str x]) | _ => none⟩
def uxIt : IfaceTys := ⟨0, 0, 0, 1, 1, 1, 7, 5, 4⟩
def uxBoth (id : Nat) (toks : List Tok) : URes × URes :=
  (urun uxTs uxAtlas uxTrs uxIt 20 (UM.bind uxTs uxAtlas 20 dirty id (zeroVal uxTs 64 id)) toks,
   unmV uxTs uxAtlas uxTrs uxIt 40 id (zeroVal uxTs 64 id) toks)
/-- `[{"c": {"r": 4, "t": "A", "a": 5("B")}}, {"t": "Q"}]` -/
def uxToks : List Tok :=
  [tk (.arrOpen 2), tk (.mapOpen 1), tk (.str [99]), tk (.mapOpen 3), tk (.str [114]), tk (.int 4), tk (.str [116]),
   tk (.str [65]), tk (.str [97]), ⟨.str [66], some 5⟩, tk .mapClose, tk .mapClose,
   tk (.mapOpen 1), tk (.str [116]), tk (.str [81]), tk .mapClose, tk .arrClose]

example : sameRes (uxBoth 22 uxToks).1 (uxBoth 22 uxToks).2 = true := by decide +kernel
example : sameRes (uxBoth 22 uxToks).1 (.ok (.slice (some [
      .iface (some (21, .struct [.int 4, .struct [.str [65]], .iface (some (10, .struct [.str [66]]))])),
      .iface (some (10, .struct [.str [81]]))])) [] 17) = true := by decide +kernel
/-- every proper prefix, an unknown member, a missing tag, a wrong close -/
example : (((List.range 17).map fun n => uxToks.take n) ++
      [[tk (.arrOpen 1), tk (.mapOpen 1), tk (.str [120])], [tk (.arrOpen 1), tk (.mapOpen 2)],
       (uxToks.take 9) ++ [⟨.str [66], some 6⟩], (uxToks.take 15) ++ [tk .arrClose]]).all
      (fun toks => sameRes (uxBoth 22 toks).1 (uxBoth 22 toks).2) = true := by decide +kernel

/-! ### The statement at full strength is false: chained transforms

`_yieldUnmarshalMachinePtrForAtlasEntry` picks a transform machine's delegate in the SAME row; the library (as found
in /tmp/repoclean) REFUSES a receive type that needs the row's transform machine itself ("chained transforms are not
supported") and a receive type that is a pointer type: it returns an error thunk, so `Bind` (or the first token of
such a value) reports an error.  The functional model `unmV` unmarshals through the chain, and panics on the pointer
receive type.  Checked against the real library: C17ObjUnmarshal_chain_test.go.txt. -/

/-- 0 string; 10 struct T (transform 0 from string); 11 struct U (transform 1 from T); 14 struct W (transform 2 from
    *string); 15 *string -/
def cxTs : Types := [(0, .prim .string true), (10, .struct []), (11, .struct []), (14, .struct []), (15, .ptr 0)]
def cxAtlas : Atlas :=
  ⟨[⟨true, 10, none, .transform 0 0 0⟩, ⟨true, 11, none, .transform 1 10 10⟩, ⟨true, 14, none, .transform 2 15 15⟩], .default⟩
def cxTrs : Trs := ⟨fun _ _ => none, fun _ _ => some (.struct [])⟩
def tA : Tok := ⟨.str [65], none⟩
def cxBoth (id : Nat) : URes × URes :=
  (urun cxTs cxAtlas cxTrs exIt 20 (UM.bind cxTs cxAtlas 20 dirty id (zeroVal cxTs 64 id)) [tA],
   unmV cxTs cxAtlas cxTrs exIt 40 id (zeroVal cxTs 64 id) [tA])

/-- a single transform: both models unmarshal -/
example : sameRes (cxBoth 10).1 (.ok (.struct []) [] 1) && sameRes (cxBoth 10).2 (.ok (.struct []) [] 1) = true := by
  decide +kernel
/-- a chained transform: the functional model unmarshals, the stateful model (and Go) report an error -/
theorem clash_chain : sameRes (cxBoth 11).1 (.err 0) && sameRes (cxBoth 11).2 (.ok (.struct []) [] 1) = true := by
  decide +kernel
/-- a transform receiving a pointer type: the functional model panics, the stateful model (and Go) report an error -/
theorem clash_ptr_recv : sameRes (cxBoth 14).1 (.err 0) && sameRes (cxBoth 14).2 (.panic 0) = true := by
  decide +kernel

theorem cx_fun : unmV cxTs cxAtlas cxTrs exIt 40 11 (zeroVal cxTs 64 11) [tA] = .ok (.struct []) [] 1 := by
  with_unfolding_all rfl

/-- whatever the fuel, `Bind` of the chained type fails -/
theorem cx_bind (f : Nat) (d : UState) (cur : Val) :
    (UM.bind cxTs cxAtlas (f + 6) d 11 cur).bindErr = some (.f .err) := by
  have h11 : upickBare cxTs cxAtlas 11 = .transform 1 10 := by with_unfolding_all rfl
  have h10 : upickBare cxTs cxAtlas 10 = .transform 0 0 := by with_unfolding_all rfl
  have h0 : upickBare cxTs cxAtlas 0 = .prim := by with_unfolding_all rfl
  have hp : peel cxTs 64 0 11 = (0, 11) := by decide +kernel
  have hq10 : isPtrTy cxTs 10 = false := by decide +kernel
  have hq0 : isPtrTy cxTs 0 = false := by decide +kernel
  simp [UM.bind, requisition, yieldU, hp, yieldBare, cfgU, h11, h10, h0, hq10, hq0, resetM, resetBody, resetErr]

/-- the statement at full strength does not hold -/
theorem unmarshaller_refines_statement_false : ¬ unmarshaller_refines_statement := by
  intro h
  obtain ⟨N, hN⟩ := h cxTs cxAtlas cxTrs exIt 40 11 [tA] (by rw [cx_fun]; intro u hu; cases hu)
  have hrun := hN (N + 6) (by omega) UState.fresh
  rw [cx_fun] at hrun
  simp [urun, tA, cx_bind, XFail.toURes] at hrun

/-! ### A second disagreement, and a defect of the Go code: a keyed union whose member is a keyed union

`step_acceptKey` configures the member's machine in `slab.tip()`, which is the union machine's OWN row when nothing has
leaked above it.  A member that is itself a union is the row's one union machine: the machine becomes its own
delegate, and the next token sends `step_delegate` into unbounded recursion.  Go: `fatal error: stack overflow` (the
process dies; C17ObjUnmarshal_union_test.go.txt, input `{"u":{"c":{}}}`).  Stateful model: `stuck` at token 2
(reported as a panic).  Functional model: unmarshals. -/

/-- 20 interface Outer = union {u: Inner}; 30 interface Inner = union {c: Circle}; 21 struct Circle -/
def unTs : Types := [(0, .prim .string true), (20, .iface true), (30, .iface true), (21, .struct [])]
def unAtlas : Atlas :=
  ⟨[⟨true, 20, none, .union [([117], 1)]⟩, ⟨true, 30, none, .union [([99], 2)]⟩, ⟨true, 21, none, .structMap []⟩], .default⟩
def unToks : List Tok :=
  [tk (.mapOpen 1), tk (.str [117]), tk (.mapOpen 1), tk (.str [99]), tk (.mapOpen 0), tk .mapClose, tk .mapClose, tk .mapClose]

theorem clash_union :
    sameRes (urun unTs unAtlas exTrs exIt 30 (UM.bind unTs unAtlas 30 dirty 20 (zeroVal unTs 64 20)) unToks) (.panic 2) &&
    sameRes (unmV unTs unAtlas exTrs exIt 40 20 (zeroVal unTs 64 20) unToks)
      (.ok (.iface (some (30, .iface (some (21, .struct []))))) [] 8) = true := by decide +kernel

end Refmt.C17ObjUnmarshal

#print axioms Refmt.C17ObjUnmarshal.unmarshaller_refines_partial
#print axioms Refmt.C17ObjUnmarshal.reused_eq_fresh
#print axioms Refmt.C17ObjUnmarshal.unmarshaller_refines_statement_false
#print axioms Refmt.C17ObjUnmarshal.clash_chain
#print axioms Refmt.C17ObjUnmarshal.clash_union
