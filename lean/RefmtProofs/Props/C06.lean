/-
  C06 — decoding untrusted bytes never panics, hangs or allocates without bound.

  * `cbor_terminates`, `json_terminates` : the decoder machines, iterated WITHOUT any step budget beyond
        2·|input| + 2, have already finished: giving them more steps changes nothing (tokens, outcome, reader,
        step count, allocation).  Since every run is finite and the outcome type of the decoder models has no
        panic constructor, decoding any byte string returns a value or an error after at most 2·|input| + 2
        token steps.
  * `cbor_steps_bound`, `json_steps_bound` : the step counts are ≤ 2·|input| + 2.
  * `cbor_alloc_bound` : the bytes the CBOR decoder model allocates (its `make` sites: definite strings and
        byte strings, the growing buffer of indefinite strings) are bounded by twice the 32 MiB per-item cap
        plus a linear function of the input length, whatever lengths the input declares.
  * `sinks_never_panic` : every token the decoders can produce is handled by every encoder without panic
        (C14), so decoder-to-encoder pumps return a value or an error too.

  Proof method (RefmtProofs/Lemmas/Bounds.lean; independent of the reference parsers of C04/C05):
  * CBOR: every `step` that yields a token strictly decreases `2·|undelivered bytes| + |left|` (`left` = the
    stack of definite-container countdowns): it either consumes a byte (and opens at most one definite
    container) or closes a definite container.  JSON: every step that yields a token consumes a byte.
    Hence a run with fuel above that measure never reaches the fuel-exhausted case, and its whole result
    record (tokens, outcome, reader, steps, alloc) is independent of any extra fuel.  These facts hold for an
    arbitrary reader (injected faults, push-back): see the `_any_reader` versions below.
  * allocation: every step that yields a token allocates at most 8 bytes per input byte it consumed; a
    failing step (necessarily the last) allocates at most `2·cap32M + 64` beyond that.  The factor 2 and the
    factor 8 are both needed: the bound as stated is tight up to an additive constant < 1 KiB (see the remarks
    and kernel-checked examples at the end of this file).
-/
import RefmtModel
import RefmtProofs.Props.C04
import RefmtProofs.Props.C05
import RefmtProofs.Props.C14
import RefmtProofs.Lemmas.Bounds
set_option linter.unusedSimpArgs false
set_option linter.unusedVariables false
namespace Refmt.C06
open Refmt

theorem cbor_terminates (coerce : Bool) (bs : Bytes) (hb : ∀ x ∈ bs, x < 256) (fuel : Nat) (hf : 2 * bs.length + 2 ≤ fuel) :
    let a := CborDec.run coerce fuel CborDec.init (Rd.ofBytes bs) [] 0 0
    let b := CborDec.decode coerce (Rd.ofBytes bs)
    a.toks = b.toks ∧ a.res = b.res ∧ a.rd = b.rd ∧ a.steps = b.steps ∧ a.alloc = b.alloc := by
  intro a b
  have hab : a = b := by
    show CborDec.run coerce fuel CborDec.init (Rd.ofBytes bs) [] 0 0 = CborDec.decode coerce (Rd.ofBytes bs)
    unfold CborDec.decode
    have hd : (Rd.ofBytes bs).data.length = bs.length := rfl
    rw [hd]
    obtain ⟨k, rfl⟩ : ∃ k, fuel = (2 * bs.length + 2) + k := ⟨fuel - (2 * bs.length + 2), by omega⟩
    exact Cbor.run_fuel coerce k _ _ _ _ _ _ (by rw [hd]; simp [CborDec.init])
  rw [hab]
  exact ⟨rfl, rfl, rfl, rfl, rfl⟩

theorem json_terminates (bs : Bytes) (fuel : Nat) (hf : 2 * bs.length + 2 ≤ fuel) :
    let a := JsonDec.run fuel JsonDec.init (Rd.ofBytes bs) [] 0
    let b := JsonDec.decode (Rd.ofBytes bs)
    a.toks = b.toks ∧ a.res = b.res ∧ a.rd = b.rd ∧ a.steps = b.steps := by
  intro a b
  have hab : a = b := by
    show JsonDec.run fuel JsonDec.init (Rd.ofBytes bs) [] 0 = JsonDec.decode (Rd.ofBytes bs)
    unfold JsonDec.decode
    have hd : (Rd.ofBytes bs).data.length = bs.length := rfl
    rw [hd]
    obtain ⟨k, rfl⟩ : ∃ k, fuel = (2 * bs.length + 2) + k := ⟨fuel - (2 * bs.length + 2), by omega⟩
    exact Json.run_fuel k _ _ _ _ _ (by rw [hd]; omega)
  rw [hab]
  exact ⟨rfl, rfl, rfl, rfl⟩

theorem cbor_steps_bound (coerce : Bool) (rd : Rd) : (CborDec.decode coerce rd).steps ≤ 2 * rd.data.length + 2 := by
  have := Cbor.run_steps coerce (2 * rd.data.length + 2) CborDec.init rd [] 0 0
  unfold CborDec.decode
  omega

theorem json_steps_bound (rd : Rd) : (JsonDec.decode rd).steps ≤ 2 * rd.data.length + 2 := by
  have := Json.run_steps (2 * rd.data.length + 2) JsonDec.init rd [] 0
  unfold JsonDec.decode
  omega

/-- allocation of the CBOR decoder model: at most twice the built-in cap, plus linear in the input -/
theorem cbor_alloc_bound (coerce : Bool) (bs : Bytes) :
    (CborDec.decode coerce (Rd.ofBytes bs)).alloc ≤ 2 * CborDec.cap32M + 8 * bs.length + 64 := by
  have := Cbor.run_alloc coerce (2 * (Rd.ofBytes bs).data.length + 2) CborDec.init (Rd.ofBytes bs) [] 0 0
  have hd : (Rd.ofBytes bs).data.length = bs.length := rfl
  unfold CborDec.decode
  omega

/-! ### The same facts for an arbitrary reader (injected faults, pushed-back byte) and any start state -/

theorem cbor_terminates_any_reader (coerce : Bool) (rd : Rd) (fuel : Nat) (hf : 2 * rd.data.length + 2 ≤ fuel) :
    CborDec.run coerce fuel CborDec.init rd [] 0 0 = CborDec.decode coerce rd := by
  obtain ⟨k, rfl⟩ : ∃ k, fuel = (2 * rd.data.length + 2) + k := ⟨fuel - (2 * rd.data.length + 2), by omega⟩
  exact Cbor.run_fuel coerce k _ _ _ _ _ _ (by simp [CborDec.init])

theorem json_terminates_any_reader (rd : Rd) (fuel : Nat) (hf : 2 * rd.data.length + 2 ≤ fuel) :
    JsonDec.run fuel JsonDec.init rd [] 0 = JsonDec.decode rd := by
  obtain ⟨k, rfl⟩ : ∃ k, fuel = (2 * rd.data.length + 2) + k := ⟨fuel - (2 * rd.data.length + 2), by omega⟩
  exact Json.run_fuel k _ _ _ _ _ (by omega)

theorem cbor_alloc_bound_any_reader (coerce : Bool) (rd : Rd) :
    (CborDec.decode coerce rd).alloc ≤ 2 * CborDec.cap32M + 8 * rd.data.length + 64 := by
  have := Cbor.run_alloc coerce (2 * rd.data.length + 2) CborDec.init rd [] 0 0
  unfold CborDec.decode
  omega

/-- the allocation is also paid for by the bytes actually consumed, not just by those offered -/
theorem cbor_alloc_bound_consumed (coerce : Bool) (rd : Rd) :
    (CborDec.decode coerce rd).alloc + 8 * (CborDec.decode coerce rd).rd.data.length
      ≤ 2 * CborDec.cap32M + 8 * rd.data.length + 64 := by
  have := Cbor.run_alloc coerce (2 * rd.data.length + 2) CborDec.init rd [] 0 0
  unfold CborDec.decode
  omega

/-! ### How tight `cbor_alloc_bound` is

  * the cap term is needed: five bytes declaring a 32 MiB byte string allocate 32 MiB before the read fails;
    six bytes opening an indefinite string whose first chunk declares 32 MiB allocate `16 + 32 + 32 MiB`;
  * `8` per byte is needed: `9f (5f ff)ⁿ ff` allocates `16·n` for `2·n + 2` bytes;
  * the factor `2` on the cap is needed (not kernel-checked, the witness has 20 971 613 bytes): an indefinite
    string with chunks of 31, 32, 1, 63, 1, 127, …, 1, 2²²−1 (buffer capacity 2ᵏ−1, filled, doubled), then
    2, 2²², 3·2²² bytes (capacity 13·2²²), then a chunk header declaring 2²⁵ bytes with no data behind it,
    allocates 234 880 959 = 8·|input| + 2·cap32M − 809 bytes. -/

example : (CborDec.decode false (Rd.ofBytes [0x5a, 2, 0, 0, 0])).alloc = CborDec.cap32M := by decide +kernel
example : (CborDec.decode false (Rd.ofBytes [0x7f, 0x7a, 2, 0, 0, 0])).alloc = 16 + 32 + CborDec.cap32M := by
  decide +kernel
example : (CborDec.decode false (Rd.ofBytes [0x9f, 0x5f, 0xff, 0x5f, 0xff, 0x5f, 0xff, 0xff])).alloc = 48 := by
  decide +kernel

/-- whatever a decoder emits, no encoder panics on it -/
theorem sinks_never_panic (c : JsonEnc.Cfg) (ff : Nat → Bytes) (ts : List Tok) :
    Flag.panic ∉ runFlags CborEnc.step CborEnc.init ts ∧
    Flag.panic ∉ runFlags (JsonEnc.step c ff) JsonEnc.init ts ∧
    Flag.panic ∉ runFlags Refmt.Pretty.step Refmt.Pretty.init ts :=
  C14.enc_no_panic c ff ts

end Refmt.C06
