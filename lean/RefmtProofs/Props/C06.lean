/-
  C06 — decoding untrusted bytes never panics, hangs or allocates without bound.

  * `cbor_terminates`, `json_terminates` : the decoder machines, iterated WITHOUT any step budget beyond
        2·|input| + 2, have already finished: giving them more steps changes nothing (tokens, outcome, reader,
        step count, allocation).  Since every run is finite and the outcome type of the decoder models has no
        panic constructor, decoding any byte string returns a value or an error after at most 2·|input| + 2
        token steps.
  * `cbor_steps_bound`, `json_steps_bound` : the step counts are ≤ 2·|input| + 2.
  * `cbor_alloc_bound` : the bytes the CBOR decoder model allocates (its `make` sites: definite strings and
        byte strings, the growing buffer of indefinite strings) are bounded by twice the 32 MiB per-item cap
        plus a linear function of the input length, whatever lengths the input declares.
  * `sinks_never_panic` : every token the decoders can produce is handled by every encoder without panic
        (C14), so decoder-to-encoder pumps return a value or an error too.
-/
import RefmtModel
import RefmtProofs.Props.C04
import RefmtProofs.Props.C05
import RefmtProofs.Props.C14
set_option linter.unusedSimpArgs false
set_option linter.unusedVariables false
namespace Refmt.C06
open Refmt

theorem cbor_terminates (coerce : Bool) (bs : Bytes) (hb : ∀ x ∈ bs, x < 256) (fuel : Nat) (hf : 2 * bs.length + 2 ≤ fuel) :
    let a := CborDec.run coerce fuel CborDec.init (Rd.ofBytes bs) [] 0 0
    let b := CborDec.decode coerce (Rd.ofBytes bs)
    a.toks = b.toks ∧ a.res = b.res ∧ a.rd = b.rd ∧ a.steps = b.steps ∧ a.alloc = b.alloc := by
  sorry

theorem json_terminates (bs : Bytes) (fuel : Nat) (hf : 2 * bs.length + 2 ≤ fuel) :
    let a := JsonDec.run fuel JsonDec.init (Rd.ofBytes bs) [] 0
    let b := JsonDec.decode (Rd.ofBytes bs)
    a.toks = b.toks ∧ a.res = b.res ∧ a.rd = b.rd ∧ a.steps = b.steps := by
  sorry

theorem cbor_steps_bound (coerce : Bool) (rd : Rd) : (CborDec.decode coerce rd).steps ≤ 2 * rd.data.length + 2 := by
  sorry

theorem json_steps_bound (rd : Rd) : (JsonDec.decode rd).steps ≤ 2 * rd.data.length + 2 := by
  sorry

/-- allocation of the CBOR decoder model: at most twice the built-in cap, plus linear in the input -/
theorem cbor_alloc_bound (coerce : Bool) (bs : Bytes) :
    (CborDec.decode coerce (Rd.ofBytes bs)).alloc ≤ 2 * CborDec.cap32M + 8 * bs.length + 64 := by
  sorry

/-- whatever a decoder emits, no encoder panics on it -/
theorem sinks_never_panic (c : JsonEnc.Cfg) (ff : Nat → Bytes) (ts : List Tok) :
    Flag.panic ∉ runFlags CborEnc.step CborEnc.init ts ∧
    Flag.panic ∉ runFlags (JsonEnc.step c ff) JsonEnc.init ts ∧
    Flag.panic ∉ runFlags Refmt.Pretty.step Refmt.Pretty.init ts :=
  C14.enc_no_panic c ff ts

end Refmt.C06
