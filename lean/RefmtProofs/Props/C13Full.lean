/-
  C13 / C11 / C01 — completeness of the token-level round trip on the FULL domain of the property:
  everything `C11.clone_equal_struct_fixed` covers (`C11.structTy`), and in addition
    (U) keyed unions,
    (T) transforms,
    (I) untyped slots (`interface{}`) holding nil, scalars, native `[]interface{}` / `map[string]interface{}` values,
        and values of registered TAGGED struct-map / transform types (reconstructed through `GetEntryByTag`),
  nested arbitrarily through struct fields, slice / array elements, map values and pointers.

  Definitions (RefmtProofs/Lemmas/FullDefs.lean):
    `fullTy ts a fuel id`        the class of types (Bool, decidable by evaluation);
    `fullVal ts a trs it g id v` the value side conditions (Bool), by the recursion of `normV … g id v`;
    `rtF`                        the value the round trip really returns (`normV` with maps in key order);
    `ValEqv''`                   `C11.ValEqv'` + congruence under `.iface (some (dt, ·))`;
    `TrsEqv trs`                 the unmarshal transforms do not observe the order of map entries.

  Main results:
    `clone_full_rt`     Clone returns exactly `rtF`;
    `clone_equal_full`  Clone returns the specified value `normV .pretty` up to the order of map entries (`ValEqv''`);
    `structTy_fullTy`   `fullTy` contains `C11.structTy`;
    `isU_side`          C12's native untyped values (`C12.isU`) satisfy the value side conditions;
    `clone_equal_untyped_native`  the instance of `clone_equal_full` for them.

  Findings.
    * No disagreement between the hand-written specification `normV` and the model's round trip was found on this
      domain: for every kind the model returns `rtF`, which differs from `normV` only in the order of map entries
      (already known from C13 / C11: Go maps are unordered).
    * Fuel (model artefact, not a defect of refmt): with EXACTLY the fuel the marshaller needs, the unmarshaller can run
      out — reading a nil into an untyped slot costs one unit more than writing it (`exact_fuel_insufficient`).  The
      theorems therefore take the marshaller's success at some `fuel0 < fuel` (and `fuel0 ≤ 1000`, the fuel at which
      the specification's `isNullSer` / `isBareNullSer` evaluate the marshaller).
    * For a transform the specified value is `(trs.u fn (normV mty tv)).getD v` whereas the model applies `trs.u fn` to
      the value as received (`rtF mty tv`: maps in key order).  The two agree up to `ValEqv''` exactly when the user's
      function does not observe map order (`TrsEqv`, which holds for every transform whose wire form is a scalar:
      `trsEqv_of_scalar`); this hypothesis is needed only if a transform's wire form contains maps.
    * A TAGGED transform whose wire form is an untyped slot cannot be read back at all (the slot sees the transform's own
      tag and delegates back to the transform, for ever): `tagged_transform_untyped_target`.  Completeness fails there
      (Marshal succeeds, Unmarshal does not, `normV` nevertheless specifies a value); `fullTy` excludes it (`tagBlind`).
    * Evaluated, not proved (outside the class): pointer-typed and typed slice / array / map dynamic values inside an
      untyped slot come back as `normV` says; an UNTAGGED struct or a keyed union inside an untyped slot comes back as
      `map[string]interface{}` whereas `normV`'s fallback keeps the struct (`normV`'s own comment declares that case
      outside the property's domain).
    * Non-vacuity: `fuTs` / `fuA` / `fuIt` / `fuTrs` / `fuV` at the end of the file.
-/
import RefmtModel
import RefmtProofs.Lemmas.FullRT5
set_option linter.unusedSimpArgs false
set_option linter.unusedVariables false
namespace Refmt.C13Full
open Refmt Refmt.Obj Refmt.C13 Refmt.C11 Refmt.C12

/-! ### `fullTy` contains `C11.structTy` -/

theorem structTy_fullTy (ts : Types) (a : Atlas) : ∀ (p id : Nat), structTy ts a p id = true → fullTy ts a p id = true := by
  intro p
  induction p with
  | zero => intro id h; simp [structTy] at h
  | succ p ih =>
    intro id h
    cases hd : ts.get id with
    | prim k b =>
      have hn : a.get id = none := by simpa [structTy, hd] using h
      simp [fullTy, hd, hn]
    | bytes b =>
      have hn : a.get id = none := by simpa [structTy, hd] using h
      simp [fullTy, hd, hn]
    | byteArr n =>
      have hn : a.get id = none := by simpa [structTy, hd] using h
      simp [fullTy, hd, hn]
    | slice e =>
      have h' : a.get id = none ∧ structTy ts a p e = true := by simpa [structTy, hd] using h
      simp [fullTy, hd, h'.1, ih e h'.2]
    | arr n e =>
      have h' : a.get id = none ∧ structTy ts a p e = true := by simpa [structTy, hd] using h
      simp [fullTy, hd, h'.1, ih e h'.2]
    | map k e =>
      simp only [structTy, hd, Bool.and_eq_true, Option.isNone_iff_eq_none] at h
      obtain ⟨⟨hn, hk⟩, he⟩ := h
      simp only [fullTy, hd, hn, Bool.and_eq_true]
      exact ⟨hk, ih e he⟩
    | ptr e =>
      have h' : structTy ts a p e = true := by simpa [structTy, hd] using h
      simp [fullTy, hd, ih e h']
    | iface m => simp [structTy, hd] at h
    | other => simp [structTy, hd] at h
    | struct fds =>
      simp only [structTy, hd] at h
      split at h
      · rename_i reg ty fields he
        simp only [Bool.and_eq_true, decide_eq_true_eq, List.all_eq_true] at h
        obtain ⟨⟨h1, h2⟩, h3⟩ := h
        simp only [fullTy, hd, he, Bool.and_eq_true, decide_eq_true_eq, List.all_eq_true, fieldOkB]
        exact ⟨⟨h1, h2⟩, fun f hf => ⟨(h3 f hf).1, ih _ (h3 f hf).2⟩⟩
      · cases h

/-! ### the main theorems -/

/-- the exact token-level round trip on `fullTy`: Clone returns `rtF` -/
theorem clone_full_rt (ts : Types) (a : Atlas) (trs : Trs) (it : IfaceTys) (fuel0 fuel id : Nat) (v : Val)
    (hp : fullTy ts a 64 id = true) (hv : hasTy ts 1000 id v = true) (hside : fullVal ts a trs it fuel id v = true)
    (he : UEnv ts a it) (hz : ZeroStable ts) (htr : TrsEqv trs)
    (hok : (marshalV ts a trs fuel0 id v).fail = none) (h0 : fuel0 ≤ 1000) (hf : fuel0 < fuel) :
    clone ts a trs it fuel id v = some (rtF ts a trs it fuel id v) := by
  have hm : marshalV ts a trs fuel0 id v = ⟨(marshalV ts a trs fuel0 id v).toks, none⟩ := by
    cases hm : marshalV ts a trs fuel0 id v with | mk t f => rw [hm] at hok; simp at hok; rw [hok]
  have hm' := C07.marshal_fuel_mono_le ts a trs fuel0 fuel id v _ hm (by simp) (by omega)
  have := ((rtf_all he hz htr fuel0 h0).v 64 1000 id v _ fuel (Nat.le_refl _) hp hv (by omega) hside hm).2 fuel hf []
  simp only [List.append_nil] at this
  simp [clone, hm', this]

/-- COMPLETENESS ON THE FULL DOMAIN.  For a type of the class `fullTy` (structs with struct-map entries, keyed
    unions, transforms, untyped slots, and slices / arrays / string-keyed maps / pointers of these) and a value that
    inhabits it (`hasTy`) and satisfies the side conditions `fullVal` (map keys are distinct strings; a transform's
    marshal function yields a value of the target type on which, once normalized, the unmarshal function succeeds;
    an untyped slot holds nil, a scalar, a native untyped container, or a value of a registered tagged type):
    if the marshaller succeeds (with one unit of fuel to spare), Clone — marshal, then unmarshal the tokens into a
    zero value of the same type — succeeds and returns the specified value `normV .pretty`, up to the order of map
    entries.  Environment hypotheses: `UEnv` (the ids in `it` name the predeclared types: C12), `ZeroStable` (fuel
    side condition of C11), `TrsEqv` (user transforms do not observe map order). -/
theorem clone_equal_full (ts : Types) (a : Atlas) (trs : Trs) (it : IfaceTys) (fuel0 fuel id : Nat) (v : Val)
    (hp : fullTy ts a 64 id = true) (hv : hasTy ts 1000 id v = true) (hside : fullVal ts a trs it fuel id v = true)
    (he : UEnv ts a it) (hz : ZeroStable ts) (htr : TrsEqv trs)
    (hok : (marshalV ts a trs fuel0 id v).fail = none) (h0 : fuel0 ≤ 1000) (hf : fuel0 < fuel) :
    ∃ r, clone ts a trs it fuel id v = some r ∧ ValEqv'' r (normV .pretty ts a trs it fuel id v) :=
  ⟨_, clone_full_rt ts a trs it fuel0 fuel id v hp hv hside he hz htr hok h0 hf,
    (rtf_eqv_norm htr he fuel).1 64 id v (Nat.le_refl _) hp hside⟩

/-- the same at the level of `unmV` (C13's `complete_plain_perm` on the full domain): the rendering is accepted,
    completes exactly on its last token, and reconstructs the specified value -/
theorem complete_full_perm (ts : Types) (a : Atlas) (trs : Trs) (it : IfaceTys) (fuel0 fuel id : Nat) (v : Val) (toks : List Tok)
    (hp : fullTy ts a 64 id = true) (hv : hasTy ts 1000 id v = true) (hside : fullVal ts a trs it fuel id v = true)
    (he : UEnv ts a it) (hz : ZeroStable ts) (htr : TrsEqv trs)
    (hm : marshalV ts a trs fuel0 id v = ⟨toks, none⟩) (h0 : fuel0 ≤ 1000) (hf : fuel0 < fuel) :
    ∃ v', unmV ts a trs it fuel id (zeroVal ts 64 id) toks = .ok v' [] toks.length ∧
      ValEqv'' v' (normV .pretty ts a trs it fuel id v) := by
  have := ((rtf_all he hz htr fuel0 h0).v 64 1000 id v _ fuel (Nat.le_refl _) hp hv (by omega) hside hm).2 fuel hf []
  simp only [List.append_nil] at this
  exact ⟨_, this, (rtf_eqv_norm htr he fuel).1 64 id v (Nat.le_refl _) hp hside⟩

/-! ### `TrsEqv` for transforms whose wire form is a scalar -/

def isScalar : Val → Prop
  | .bool _ | .int _ | .uint _ | .float _ | .str _ | .bytes _ | .byteArr _ => True
  | _ => False

theorem ValEqv''_scalar {x y : Val} (h : ValEqv'' x y) (hy : isScalar y) : x = y := by
  cases h <;> first | rfl | (simp [isScalar] at hy)

/-- an unmarshal transform that only accepts scalars (strings, numbers, byte strings, …) cannot observe map order -/
theorem trsEqv_of_scalar (trs : Trs) (h : ∀ fn y b, trs.u fn y = some b → isScalar y) : TrsEqv trs := by
  intro fn x y b hxy hu
  have := ValEqv''_scalar hxy (h fn y b hu)
  subst this
  exact ⟨b, hu, ValEqv''.refl _⟩


/-! ### C12's native untyped values satisfy the side conditions -/

section native
variable {ts : Types} {a : Atlas} {trs : Trs} {it : IfaceTys}

theorem keyOf_eq_keyStr (v : Val) : C12.keyOf v = keyStr v := by cases v <;> rfl

theorem fullValB_wild_none (g id : Nat) : fullValB ts a trs it (g+1) id .wildcard (.iface none) = true := by
  rw [fullValB.eq_def]

theorem fullVal_untyped {id : Nat} (hd : ts.get id = .iface false) (hn : a.get id = none) (g : Nat) (v : Val) :
    fullVal ts a trs it (g+1) id v = fullValB ts a trs it g id .wildcard v := by
  rw [fullVal_nonptr ts a trs it (by simp [hd]), (pick_wild hd hn).1]

/-- a native untyped value (`C12.isU`) in an untyped slot inhabits it and satisfies the side conditions of
    `clone_equal_full`, at every fuel of the specification -/
theorem isU_side (he : UEnv ts a it) : ∀ (n : Nat) (u : Val), isU it n u = true →
    ∀ id, ts.get id = .iface false → a.get id = none →
    (∀ h, 2 * n ≤ h → hasTy ts h id u = true) ∧ (∀ g, fullVal ts a trs it g id u = true) := by
  intro n
  induction n with
  | zero => intro u hu; simp [isU] at hu
  | succ n ih =>
    intro u hu id hd hn
    have hUV := isU_UV hu
    constructor
    · intro h hh
      obtain ⟨h, rfl⟩ : ∃ h', h = h' + 2 := ⟨h - 2, by omega⟩
      cases hUV with
      | nil => simp [hasTy, hd]
      | str _ s => simp [hasTy, hd, he.str]
      | bytes _ b => simp [hasTy, hd, he.bytes]
      | bool _ b => simp [hasTy, hd, he.bool]
      | int _ i h1 h2 =>
        simp [hasTy, hd, he.int, intRange]
        constructor <;> (unfold two63 at *; omega)
      | uint _ m h1 h2 =>
        simp [hasTy, hd, he.uint64, intRange, uintMax]
        omega
      | float _ b hb =>
        simp [hasTy, hd, he.f64]
        exact hb
      | slice _ vs hvs =>
        simp only [hasTy, hd, he.sliceI, List.all_eq_true]
        intro x hx
        exact (ih x (hvs x hx) it.iface he.iface he.noIface).1 h (by omega)
      | map _ es hk hv hd' =>
        simp only [hasTy, hd, he.mapSI, List.all_eq_true, Bool.and_eq_true]
        intro q hq
        obtain ⟨s, hs⟩ := hk q hq
        obtain ⟨q1, q2⟩ := q
        simp only at hs
        subst hs
        have hq2 := hv _ hq
        simp only at hq2
        have hn1 : 1 ≤ n := by
          cases n with
          | zero => simp [isU] at hq2
          | succ n' => omega
        obtain ⟨h, rfl⟩ : ∃ h', h = h' + 1 := ⟨h - 1, by omega⟩
        refine ⟨by simp [hasTy, he.str], ?_⟩
        exact (ih q2 hq2 it.iface he.iface he.noIface).1 (h + 1) (by omega)
    · intro g
      cases g with
      | zero => simp [fullVal]
      | succ g =>
        rw [fullVal_untyped hd hn]
        cases g with
        | zero => simp [fullValB]
        | succ g =>
          cases hUV with
          | nil => exact fullValB_wild_none g id
          | str _ s => rw [fullValB_wild]; simp [notPtrB, he.str, C12.pick_str he]
          | bytes _ b => rw [fullValB_wild]; simp [notPtrB, he.bytes, C12.pick_bytes he]
          | bool _ b => rw [fullValB_wild]; simp [notPtrB, he.bool, C12.pick_bool he]
          | int _ i h1 h2 => rw [fullValB_wild]; simp [notPtrB, he.int, C12.pick_int he]
          | uint _ m h1 h2 => rw [fullValB_wild]; simp [notPtrB, he.uint64, C12.pick_uint64 he]
          | float _ b hb => rw [fullValB_wild]; simp [notPtrB, he.f64, C12.pick_f64 he]
          | slice _ vs hvs =>
            rw [fullValB_wild]
            simp only [notPtrB, he.sliceI, C12.pick_sliceI he, beq_self_eq_true, Bool.true_and, List.all_eq_true]
            intro x hx
            exact (ih x (hvs x hx) it.iface he.iface he.noIface).2 g
          | map _ es hk hv hd' =>
            rw [fullValB_wild]
            simp only [notPtrB, he.mapSI, C12.pick_mapSI he, beq_self_eq_true, Bool.true_and, List.all_eq_true, Bool.and_eq_true,
              strKeysB, decide_eq_true_eq]
            refine ⟨⟨fun q hq => ?_, ?_⟩, fun q hq => (ih q.2 (hv q hq) it.iface he.iface he.noIface).2 g⟩
            · obtain ⟨s, hs⟩ := hk q hq
              rw [hs]; rfl
            · have : (es.map fun p => keyStr p.1) = es.map fun p => C12.keyOf p.1 :=
                List.map_congr_left (fun q _ => (keyOf_eq_keyStr q.1).symm)
              rw [this]; exact hd'

/-- `clone_equal_full` for C12's native untyped values held in an untyped slot -/
theorem clone_equal_untyped_native (ts : Types) (a : Atlas) (trs : Trs) (it : IfaceTys) (fuel0 fuel id n : Nat) (u : Val)
    (hd : ts.get id = .iface false) (hn : a.get id = none) (hu : isU it n u = true) (hn500 : n ≤ 500)
    (he : UEnv ts a it) (hz : ZeroStable ts) (htr : TrsEqv trs)
    (hok : (marshalV ts a trs fuel0 id u).fail = none) (h0 : fuel0 ≤ 1000) (hf : fuel0 < fuel) :
    ∃ r, clone ts a trs it fuel id u = some r ∧ ValEqv'' r (normV .pretty ts a trs it fuel id u) := by
  obtain ⟨h1, h2⟩ := isU_side (trs := trs) he n u hu id hd hn
  exact clone_equal_full ts a trs it fuel0 fuel id u (by simp [fullTy, hd, hn]) (h1 1000 (by omega)) (h2 fuel) he hz htr hok h0 hf

end native

/-! ### Non-vacuity

  A type table with the untyped universe (ids 1–8, 20), a keyed union (10, members 11 and 12), a tagged struct (13),
  a transform (30: a struct `{H, M int}` written as the two-byte string `[H, M]`, tag 60), a pointer to it (40), and the
  struct 0 = `{U union; I interface{}; T transform; P *transform}`. -/

def fuTs : Types := [
  (0, .struct [⟨[85], 10, true, false, none⟩, ⟨[73], 20, true, false, none⟩, ⟨[84], 30, true, false, none⟩, ⟨[80], 40, true, false, none⟩]),
  (1, .prim .string true), (2, .prim .int true), (3, .bytes true), (4, .prim .bool true), (5, .prim .uint64 true), (6, .prim .f64 true),
  (7, .map 1 20), (8, .slice 20), (20, .iface false),
  (10, .iface true),
  (11, .struct [⟨[88], 2, true, false, none⟩]),
  (12, .struct [⟨[83], 1, true, false, none⟩]),
  (13, .struct [⟨[89], 2, true, false, none⟩]),
  (30, .struct [⟨[72], 2, true, false, none⟩, ⟨[77], 2, true, false, none⟩]),
  (40, .ptr 30)]

def fuA : Atlas := ⟨[
  ⟨true, 0, none, .structMap [⟨[117], false, [0], 10, false⟩, ⟨[105], false, [1], 20, false⟩, ⟨[116], false, [2], 30, false⟩, ⟨[112], false, [3], 40, false⟩]⟩,
  ⟨true, 10, none, .union [([65], 2), ([66], 3)]⟩,
  ⟨true, 11, none, .structMap [⟨[120], false, [0], 2, false⟩]⟩,
  ⟨true, 12, none, .structMap [⟨[115], false, [0], 1, false⟩]⟩,
  ⟨true, 13, some 50, .structMap [⟨[121], false, [0], 2, false⟩]⟩,
  ⟨true, 30, some 60, .transform 0 1 1⟩], .default⟩

def fuIt : IfaceTys := ⟨1, 3, 4, 2, 5, 6, 7, 8, 20⟩

/-- the transform pair of type 30: `{H, M}` ↦ the string `[H, M]` and back -/
def fuTrs : Trs :=
  ⟨fun _ v => match v with | .struct [.int h, .int m] => some (.str [h.toNat, m.toNat]) | _ => none,
   fun _ v => match v with | .str [h, m] => some (.struct [.int h, .int m]) | _ => none⟩

def fuTm (h m : Nat) : Val := .struct [.int h, .int m]

/-- `{U: B{S: "\x01\x02"}, I: []interface{}{nil, 5, tagged struct {Y: 9}, tagged transform 3:4}, T: 1:2, P: &5:6}` -/
def fuV : Val := .struct [
  .iface (some (12, .struct [.str [1, 2]])),
  .iface (some (8, .slice (some [.iface none, .iface (some (2, .int 5)), .iface (some (13, .struct [.int 9])), .iface (some (30, fuTm 3 4))]))),
  fuTm 1 2,
  .ptr (some (fuTm 5 6))]

theorem fu_env : UEnv fuTs fuA fuIt := by constructor <;> decide
theorem fu_zero : ZeroStable fuTs := zeroStable_of_check _ (by decide)
theorem fu_trsEqv : TrsEqv fuTrs := by
  apply trsEqv_of_scalar
  intro fn y b h
  cases y <;> simp [fuTrs] at h ⊢ <;> simp [isScalar]

/-- the type is in the class, the value inhabits it and satisfies the side conditions -/
example : fullTy fuTs fuA 64 0 = true ∧ hasTy fuTs 1000 0 fuV = true ∧ fullVal fuTs fuA fuTrs fuIt 1001 0 fuV = true := by
  decide
/-- the transform type and the union type on their own -/
example : fullTy fuTs fuA 64 30 = true ∧ fullTy fuTs fuA 64 10 = true ∧ fullTy fuTs fuA 64 40 = true := by decide
example : hasTy fuTs 1000 30 (fuTm 7 8) = true ∧ fullVal fuTs fuA fuTrs fuIt 1001 30 (fuTm 7 8) = true := by decide
example : hasTy fuTs 1000 10 (.iface (some (11, .struct [.int 4]))) = true ∧
    fullVal fuTs fuA fuTrs fuIt 1001 10 (.iface (some (11, .struct [.int 4]))) = true := by decide

theorem fu_ok : (marshalV fuTs fuA fuTrs 1000 0 fuV).fail = none := by with_unfolding_all decide

/-- the conclusion of `clone_equal_full`, instantiated -/
theorem fu_clone : ∃ r, clone fuTs fuA fuTrs fuIt 1001 0 fuV = some r ∧ ValEqv'' r (normV .pretty fuTs fuA fuTrs fuIt 1001 0 fuV) :=
  clone_equal_full fuTs fuA fuTrs fuIt 1000 1001 0 fuV (by decide) (by decide) (by decide) fu_env fu_zero fu_trsEqv fu_ok
    (by omega) (by omega)

/-- (here no map is involved, so the copy is the specified value itself, which is the source value) -/
example : clone fuTs fuA fuTrs fuIt 1001 0 fuV = some (normV .pretty fuTs fuA fuTrs fuIt 1001 0 fuV) ∧
    clone fuTs fuA fuTrs fuIt 1001 0 fuV = some fuV := by
  constructor <;> with_unfolding_all rfl

/-- an untyped slot holding `map[string]interface{}{"b": 5, "a": nil}` (entries listed in that order): the theorem
    applies; the copy lists the entries in key order, the specified value in the order of the source -/
def fuM : Val := .iface (some (7, .map (some [(.str [98], .iface (some (2, .int 5))), (.str [97], .iface none)])))

theorem fuM_ok : (marshalV fuTs fuA fuTrs 30 20 fuM).fail = none := by
  simp [marshalV, marshalBare, marshalEntries, peel, fuTs, fuA, fuM, Types.get, List.lookup, pickBare, Atlas.get,
    sortKeys, List.mergeSort, List.merge, keyLe, bytesLe, bytesLt, MOut.seq, MOut.ok, primTok]

example : ∃ r, clone fuTs fuA fuTrs fuIt 1001 20 fuM = some r ∧ ValEqv'' r (normV .pretty fuTs fuA fuTrs fuIt 1001 20 fuM) :=
  clone_equal_full fuTs fuA fuTrs fuIt 30 1001 20 fuM (by decide) (by decide) (by decide) fu_env fu_zero fu_trsEqv fuM_ok
    (by omega) (by omega)

/-- the same value through C12's `isU` -/
example : ∃ r, clone fuTs fuA fuTrs fuIt 1001 20 fuM = some r ∧ ValEqv'' r (normV .pretty fuTs fuA fuTrs fuIt 1001 20 fuM) :=
  clone_equal_untyped_native fuTs fuA fuTrs fuIt 30 1001 20 3 fuM (by decide) (by decide) (by decide) (by omega)
    fu_env fu_zero fu_trsEqv fuM_ok (by omega) (by omega)

/-! ### The fuel side condition is needed

  `[]interface{}{nil}`: the marshaller succeeds with 5 units of fuel, the unmarshaller of the same tokens needs 6
  (the untyped slot spends one unit more on reading the nil than the marshaller on writing it).  Fuel is a model
  artefact; the theorems ask for the marshaller's success at some `fuel0 < fuel`. -/
theorem exact_fuel_insufficient :
    (marshalV fuTs fuA fuTrs 5 8 (.slice (some [.iface none]))).fail = none ∧
    (clone fuTs fuA fuTrs fuIt 5 8 (.slice (some [.iface none]))).isNone = true ∧
    (clone fuTs fuA fuTrs fuIt 6 8 (.slice (some [.iface none]))).isSome = true := by
  with_unfolding_all decide


/-! ### Why a TAGGED transform must not have an untyped wire form (`tagBlind` in `fullTy`)

  Type 50 is written through the transform pair 1 as an `interface{}` (type 20) and its entry carries tag 70.  The
  marshaller succeeds (one token, `7` tagged 70).  The transform's unmarshalling machine hands that token to the
  untyped slot, which sees tag 70, looks the tag up, finds type 50 again and delegates to its transform machine, and
  so on: the model runs out of fuel (at every fuel), i.e. Clone fails although Marshal succeeded, while `normV` still
  specifies a value.  Such entries are outside `fullTy`. -/
def loopTs : Types := fuTs ++ [(50, .struct [⟨[72], 2, true, false, none⟩])]
def loopA : Atlas := ⟨fuA.pool ++ [⟨true, 50, some 70, .transform 1 20 20⟩], .default⟩
def loopTrs : Trs :=
  ⟨fun _ v => match v with | .struct [.int h] => some (.iface (some (2, .int h))) | _ => none,
   fun _ v => match v with | .iface (some (_, .int h)) => some (.struct [.int h]) | _ => none⟩

theorem tagged_transform_untyped_target :
    fullTy loopTs loopA 64 50 = false ∧
    (marshalV loopTs loopA loopTrs 100 50 (.struct [.int 7])).fail = none ∧
    (clone loopTs loopA loopTrs fuIt 100 50 (.struct [.int 7])).isNone = true := by
  with_unfolding_all decide

end Refmt.C13Full
