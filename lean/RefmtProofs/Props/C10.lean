/-
  C10 — streaming transcoding between JSON and CBOR preserves the document.

  `Pump.run` (RefmtModel/Model/Pump.lean) models shared.TokenPump.Run over the decoder and
  encoder step machines.  Specifications: the reference decoders `Spec.Cbor.parse`,
  `Spec.Json.parse` and the RFC 7049 encoder `Spec.Cbor.enc`.

  * `pump_eq_batch`   : on an input the source decoder accepts, the lock-step pump produces exactly what
                        running the sink encoder over the decoded token list produces, and leaves the reader
                        where the decoder leaves it (one item consumed).
  * `j2c`             : for every JSON text whose first value the reference reader accepts, the pump into the
                        CBOR encoder succeeds, writes the RFC 7049 encoding of that very value, and the CBOR
                        reference decoder reads those bytes back as the same token tree (so the output denotes
                        the same document); exactly one item is consumed and one produced.
  * `c2j_accepts`     : for every CBOR item in the common data model (string keys, no byte strings or tags,
                        finite floats) the pump into the JSON encoder succeeds, done on the last token.
  * `pump_src_error`  : if the source decoder fails, the pump fails.
-/
import RefmtModel
import RefmtProofs.Props.C02
import RefmtProofs.Props.C04
import RefmtProofs.Props.C05
import RefmtProofs.Props.C14
set_option linter.unusedSimpArgs false
set_option linter.unusedVariables false
namespace Refmt.C10
open Refmt

/-- batch composition: decode everything, then encode the token list -/
theorem pump_eq_batch_cbor_src {τ : Type} (sink : τ → Tok → EncOut τ) (k0 : τ) (coerce : Bool) (bs : Bytes)
    (hb : ∀ x ∈ bs, x < 256)
    (hdec : (CborDec.decode coerce (Rd.ofBytes bs)).res = .ok ())
    (hsink : (runOut sink k0 (CborDec.decode coerce (Rd.ofBytes bs)).toks).1 =
      List.replicate ((CborDec.decode coerce (Rd.ofBytes bs)).toks.length - 1) Flag.cont ++ [Flag.done]) :
    let r := Pump.run (Pump.cborSrc coerce) sink (2 * bs.length + 4) CborDec.init (Rd.ofBytes bs) k0 []
    r.ok = true ∧ r.out = (runOut sink k0 (CborDec.decode coerce (Rd.ofBytes bs)).toks).2 ∧
    r.rd.data = (CborDec.decode coerce (Rd.ofBytes bs)).rd.data := by
  sorry

theorem pump_eq_batch_json_src {τ : Type} (sink : τ → Tok → EncOut τ) (k0 : τ) (bs : Bytes)
    (hdec : (JsonDec.decode (Rd.ofBytes bs)).res = .ok ())
    (hsink : (runOut sink k0 (JsonDec.decode (Rd.ofBytes bs)).toks).1 =
      List.replicate ((JsonDec.decode (Rd.ofBytes bs)).toks.length - 1) Flag.cont ++ [Flag.done]) :
    let r := Pump.run Pump.jsonSrc sink (2 * bs.length + 4) JsonDec.init (Rd.ofBytes bs) k0 []
    r.ok = true ∧ r.out = (runOut sink k0 (JsonDec.decode (Rd.ofBytes bs)).toks).2 ∧
    r.rd.data = (JsonDec.decode (Rd.ofBytes bs)).rd.data := by
  sorry

/-- JSON → CBOR: same value, one item in, one item out -/
theorem j2c (bs : Bytes) (v : TV) (rest : Bytes) (hb : ∀ x ∈ bs, x < 256)
    (hp : Spec.Json.parse bs = some (v, rest)) :
    let r := Pump.run Pump.jsonSrc CborEnc.step (2 * bs.length + 4) JsonDec.init (Rd.ofBytes bs) CborEnc.init []
    r.ok = true ∧ r.out.flatten = Spec.Cbor.enc v ∧ r.rd.data = rest ∧
    (Spec.Cbor.parse false (Spec.Cbor.enc v)).map (fun p => (p.1.flatten, p.2)) = some (v.flatten.map C02.normTok, []) := by
  sorry

-- the common data model, on token trees
mutual
  def common : TV → Bool
    | .scalar t => t.tag.isNone && (match t.body with
        | .bytes _ => false
        | .float b => !floatNonFinite b
        | _ => true)
    | .arr tag _ items => tag.isNone && commonL items
    | .map tag _ es => tag.isNone && commonE es
  def commonL : List TV → Bool
    | [] => true
    | v :: vs => common v && commonL vs
  def commonE : List (TV × TV) → Bool
    | [] => true
    | (k, v) :: es => (match k with | .scalar t => t.tag.isNone && (match t.body with | .str _ => true | _ => false) | _ => false) &&
        common v && commonE es
end

/-- CBOR → JSON: accepted, done on the last token, one item consumed -/
theorem c2j_accepts (c : JsonEnc.Cfg) (ff : Nat → Bytes) (bs : Bytes) (v : TV) (rest : Bytes) (hb : ∀ x ∈ bs, x < 256)
    (hp : Spec.Cbor.parse false bs = some (v, rest)) (hc : common v = true) :
    let r := Pump.run (Pump.cborSrc false) (JsonEnc.step c ff) (2 * bs.length + 4) CborDec.init (Rd.ofBytes bs) JsonEnc.init []
    r.ok = true ∧ r.rd.data = rest ∧ r.out = (runOut (JsonEnc.step c ff) JsonEnc.init v.flatten).2 := by
  sorry

/-- an input error surfaces as a pump error -/
theorem pump_src_error_cbor {τ : Type} (sink : τ → Tok → EncOut τ) (k0 : τ) (coerce : Bool) (bs : Bytes) (e : Err)
    (hdec : (CborDec.decode coerce (Rd.ofBytes bs)).res = .error e) :
    (Pump.run (Pump.cborSrc coerce) sink (2 * bs.length + 4) CborDec.init (Rd.ofBytes bs) k0 []).ok = false := by
  sorry

theorem pump_src_error_json {τ : Type} (sink : τ → Tok → EncOut τ) (k0 : τ) (bs : Bytes) (e : Err)
    (hdec : (JsonDec.decode (Rd.ofBytes bs)).res = .error e) :
    (Pump.run Pump.jsonSrc sink (2 * bs.length + 4) JsonDec.init (Rd.ofBytes bs) k0 []).ok = false := by
  sorry

end Refmt.C10
