/-
  C10 — streaming transcoding between JSON and CBOR preserves the document.

  `Pump.run` (RefmtModel/Model/Pump.lean) models shared.TokenPump.Run over the decoder and
  encoder step machines.  Specifications: the reference decoders `Spec.Cbor.parse`,
  `Spec.Json.parse` and the RFC 7049 encoder `Spec.Cbor.enc`.

  * `pump_eq_batch`   : on an input the source decoder accepts, the lock-step pump produces exactly what
                        running the sink encoder over the decoded token list produces, and leaves the reader
                        where the decoder leaves it (one item consumed).
  * `j2c_pump`        : for every JSON text whose first value the reference reader accepts, the pump into the
                        CBOR encoder succeeds, writes the RFC 7049 encoding of that very value, and exactly
                        one item is consumed and one produced.
  * `j2c_bounded`     : moreover the CBOR reference decoder reads those bytes back as the same token tree (so
                        the output denotes the same document) — provided every string of the document is
                        within the decoders' 32 MiB cap (`hbig`).
  * `c2j_accepts`     : for every CBOR item in the common data model (string keys, no byte strings or tags,
                        finite floats) the pump into the JSON encoder succeeds, done on the last token.
  * `pump_src_error`  : if the source decoder fails, the pump fails.

  Status.  `pump_eq_batch_cbor_src`, `pump_eq_batch_json_src`, `c2j_accepts`, `pump_src_error_cbor`,
  `pump_src_error_json` are proved as first stated (`hb` of `pump_eq_batch_cbor_src` is not needed).
  `j2c` as first stated is FALSE: `j2c_statement` keeps it, `j2c_statement_false` refutes it with the JSON
  string literal of 33 554 433 letters (accepted, pumped and encoded, but above the 32 MiB cap of
  `Spec.Cbor.parse` / `CborDec`; the culprit is the statement, which forgot the cap that the model and the
  Go code really have).  `j2c_pump` is its first three conjuncts with no extra hypothesis, `j2c_readback` the
  fourth under the cap, `j2c_bounded` all four with the single added hypothesis `hbig`.

  The fuel question (`2 * n + 4` for the pump, `2 * n + 2` for the decoders): a finished run is unchanged by
  more fuel (`PumpL.srcRun_mono`); for failures, the CBOR machine never runs out of `2 * n + 2` steps on a
  fault-free reader because every continuing step decreases `2 * bytes left + stack depth`
  (`PumpL.step_ok`, no hypothesis on byte values), and the JSON rejection lemmas of C05 hold for every fuel.

  Lemmas: RefmtProofs/Lemmas/{PumpL,PumpCbor,PumpJson,CborScalar,JsonTree,J2CCounter}.lean.
-/
import RefmtModel
import RefmtProofs.Props.C02
import RefmtProofs.Props.C04
import RefmtProofs.Props.C05
import RefmtProofs.Props.C14
import RefmtProofs.Lemmas.PumpL
import RefmtProofs.Lemmas.PumpCbor
import RefmtProofs.Lemmas.PumpJson
import RefmtProofs.Lemmas.CborScalar
import RefmtProofs.Lemmas.JsonTree
import RefmtProofs.Lemmas.J2CCounter
set_option linter.unusedSimpArgs false
set_option linter.unusedVariables false
namespace Refmt.C10
open Refmt

/-- batch composition: decode everything, then encode the token list -/
theorem pump_eq_batch_cbor_src {τ : Type} (sink : τ → Tok → EncOut τ) (k0 : τ) (coerce : Bool) (bs : Bytes)
    (hb : ∀ x ∈ bs, x < 256)
    (hdec : (CborDec.decode coerce (Rd.ofBytes bs)).res = .ok ())
    (hsink : (runOut sink k0 (CborDec.decode coerce (Rd.ofBytes bs)).toks).1 =
      List.replicate ((CborDec.decode coerce (Rd.ofBytes bs)).toks.length - 1) Flag.cont ++ [Flag.done]) :
    let r := Pump.run (Pump.cborSrc coerce) sink (2 * bs.length + 4) CborDec.init (Rd.ofBytes bs) k0 []
    r.ok = true ∧ r.out = (runOut sink k0 (CborDec.decode coerce (Rd.ofBytes bs)).toks).2 ∧
    r.rd.data = (CborDec.decode coerce (Rd.ofBytes bs)).rd.data := by
  intro r
  have hrun := PumpL.cbor_run_eq coerce (2 * bs.length + 2) CborDec.init (Rd.ofBytes bs) [] 0 0
  simp only [List.reverse_nil, List.nil_append] at hrun
  obtain ⟨h1, h2, h3⟩ := hrun
  have hd : CborDec.decode coerce (Rd.ofBytes bs) =
      CborDec.run coerce (2 * bs.length + 2) CborDec.init (Rd.ofBytes bs) [] 0 0 := rfl
  rw [hd] at hdec hsink ⊢
  rw [hdec] at h2
  have hsrc : PumpL.srcRun (Pump.cborSrc coerce) (2 * bs.length + 2) CborDec.init (Rd.ofBytes bs) =
      ((CborDec.run coerce (2 * bs.length + 2) CborDec.init (Rd.ofBytes bs) [] 0 0).toks, true,
       (CborDec.run coerce (2 * bs.length + 2) CborDec.init (Rd.ofBytes bs) [] 0 0).rd) := by
    rw [h1, h3]
    have : (PumpL.srcRun (Pump.cborSrc coerce) (2 * bs.length + 2) CborDec.init (Rd.ofBytes bs)).2.1 = true := by
      rw [← h2]; rfl
    rw [← this]
  have hsrc' := PumpL.srcRun_mono (Pump.cborSrc coerce) 2 _ _ _ _ _ hsrc
  have hp := PumpL.pump_ok (Pump.cborSrc coerce) sink _ _ _ k0 [] _ _ hsrc' hsink
  have hr : r = Pump.run (Pump.cborSrc coerce) sink (2 * bs.length + 2 + 2) CborDec.init (Rd.ofBytes bs) k0 [] := rfl
  rw [hr, hp]
  simp

theorem pump_eq_batch_json_src {τ : Type} (sink : τ → Tok → EncOut τ) (k0 : τ) (bs : Bytes)
    (hdec : (JsonDec.decode (Rd.ofBytes bs)).res = .ok ())
    (hsink : (runOut sink k0 (JsonDec.decode (Rd.ofBytes bs)).toks).1 =
      List.replicate ((JsonDec.decode (Rd.ofBytes bs)).toks.length - 1) Flag.cont ++ [Flag.done]) :
    let r := Pump.run Pump.jsonSrc sink (2 * bs.length + 4) JsonDec.init (Rd.ofBytes bs) k0 []
    r.ok = true ∧ r.out = (runOut sink k0 (JsonDec.decode (Rd.ofBytes bs)).toks).2 ∧
    r.rd.data = (JsonDec.decode (Rd.ofBytes bs)).rd.data := by
  intro r
  have hrun := PumpL.json_run_eq (2 * bs.length + 2) JsonDec.init (Rd.ofBytes bs) [] 0
  simp only [List.reverse_nil, List.nil_append] at hrun
  obtain ⟨h1, h2, h3⟩ := hrun
  have hd : JsonDec.decode (Rd.ofBytes bs) =
      JsonDec.run (2 * bs.length + 2) JsonDec.init (Rd.ofBytes bs) [] 0 := rfl
  rw [hd] at hdec hsink ⊢
  rw [hdec] at h2
  have hsrc : PumpL.srcRun Pump.jsonSrc (2 * bs.length + 2) JsonDec.init (Rd.ofBytes bs) =
      ((JsonDec.run (2 * bs.length + 2) JsonDec.init (Rd.ofBytes bs) [] 0).toks, true,
       (JsonDec.run (2 * bs.length + 2) JsonDec.init (Rd.ofBytes bs) [] 0).rd) := by
    rw [h1, h3]
    have : (PumpL.srcRun Pump.jsonSrc (2 * bs.length + 2) JsonDec.init (Rd.ofBytes bs)).2.1 = true := by
      rw [← h2]; rfl
    rw [← this]
  have hsrc' := PumpL.srcRun_mono Pump.jsonSrc 2 _ _ _ _ _ hsrc
  have hp := PumpL.pump_ok Pump.jsonSrc sink _ _ _ k0 [] _ _ hsrc' hsink
  have hr : r = Pump.run Pump.jsonSrc sink (2 * bs.length + 2 + 2) JsonDec.init (Rd.ofBytes bs) k0 [] := rfl
  rw [hr, hp]
  simp

/-- JSON → CBOR, the statement as first written.  It is FALSE (`j2c_statement_false` below): a JSON string
    longer than 32 MiB is pumped and encoded without complaint, but neither the CBOR decoder nor the
    reference decoder `Spec.Cbor.parse` reads a string above the built-in 32 MiB cap back. -/
def j2c_statement : Prop :=
  ∀ (bs : Bytes) (v : TV) (rest : Bytes), (∀ x ∈ bs, x < 256) → Spec.Json.parse bs = some (v, rest) →
    let r := Pump.run Pump.jsonSrc CborEnc.step (2 * bs.length + 4) JsonDec.init (Rd.ofBytes bs) CborEnc.init []
    r.ok = true ∧ r.out.flatten = Spec.Cbor.enc v ∧ r.rd.data = rest ∧
    (Spec.Cbor.parse false (Spec.Cbor.enc v)).map (fun p => (p.1.flatten, p.2)) = some (v.flatten.map C02.normTok, [])

/-- JSON → CBOR, the pump half of `j2c` (no extra hypothesis): for every JSON text whose first value the
    reference reader accepts, the pump into the CBOR encoder succeeds, writes the RFC 7049 encoding of
    that very value, and consumes exactly one item. -/
theorem j2c_pump (bs : Bytes) (v : TV) (rest : Bytes) (hb : ∀ x ∈ bs, x < 256)
    (hp : Spec.Json.parse bs = some (v, rest)) :
    let r := Pump.run Pump.jsonSrc CborEnc.step (2 * bs.length + 4) JsonDec.init (Rd.ofBytes bs) CborEnc.init []
    r.ok = true ∧ r.out.flatten = Spec.Cbor.enc v ∧ r.rd.data = rest := by
  intro r
  have hj := PumpL.parse_JT bs v rest hb hp
  have hw := PumpL.wfV v hj
  have href := C05.refine bs hb
  simp only [hp] at href
  obtain ⟨h1, h2, h3⟩ := href
  obtain ⟨e1, e2⟩ := C02.enc_eq_spec v hw
  rw [← h1] at e1
  obtain ⟨g1, g2, g3⟩ := pump_eq_batch_json_src CborEnc.step CborEnc.init bs h2 e1
  refine ⟨g1, ?_, ?_⟩
  · rw [← e2, ← h1]; exact congrArg List.flatten g2
  · rw [← h3]; exact g3

/-- the read-back half: the RFC 7049 encoding of a JSON-parsed tree whose string leaves are within the
    32 MiB cap is read by the CBOR reference decoder as the same token tree -/
theorem j2c_readback (v : TV) (hj : PumpL.JT v = true) (hbig : PumpL.StrBound v.flatten) :
    (Spec.Cbor.parse false (Spec.Cbor.enc v)).map (fun p => (p.1.flatten, p.2)) =
      some (v.flatten.map C02.normTok, []) := by
  have hw := PumpL.wfV v hj
  have hs := PumpL.supV v hj hbig
  have hrt := C02.roundtrip_norm v [] hw hs
  simp only [List.append_nil] at hrt
  obtain ⟨r1, r2, r3⟩ := hrt
  have href := C04.refine false (Spec.Cbor.enc v) (PumpL.encV_B256 v hj)
  cases hq : Spec.Cbor.parse false (Spec.Cbor.enc v) with
  | none =>
    simp only [hq] at href
    obtain ⟨e, he⟩ := href
    rw [r2] at he
    cases he
  | some p =>
    obtain ⟨v', rest'⟩ := p
    simp only [hq] at href
    obtain ⟨q1, _, q3⟩ := href
    simp only [Option.map_some, Option.some.injEq, Prod.mk.injEq]
    exact ⟨by rw [← q1, r1], by rw [← q3, r3]⟩

/-- JSON → CBOR: same value, one item in, one item out — `j2c` with the one missing hypothesis `hbig`
    (every string of the document is at most 32 MiB long, the decoders' built-in cap) -/
theorem j2c_bounded (bs : Bytes) (v : TV) (rest : Bytes) (hb : ∀ x ∈ bs, x < 256)
    (hp : Spec.Json.parse bs = some (v, rest))
    (hbig : ∀ t ∈ v.flatten, ∀ s, t.body = .str s → s.length ≤ 33554432) :
    let r := Pump.run Pump.jsonSrc CborEnc.step (2 * bs.length + 4) JsonDec.init (Rd.ofBytes bs) CborEnc.init []
    r.ok = true ∧ r.out.flatten = Spec.Cbor.enc v ∧ r.rd.data = rest ∧
    (Spec.Cbor.parse false (Spec.Cbor.enc v)).map (fun p => (p.1.flatten, p.2)) = some (v.flatten.map C02.normTok, []) := by
  intro r
  obtain ⟨g1, g2, g3⟩ := j2c_pump bs v rest hb hp
  exact ⟨g1, g2, g3, j2c_readback v (PumpL.parse_JT bs v rest hb hp) hbig⟩

/-- `j2c` as first written is false: the JSON text `"aaa…a"` with 33 554 433 letters (one more than 32 MiB)
    is accepted by the reference reader and pumped, but the CBOR reference decoder rejects the encoding
    of a string above the cap (proved for the symbolic length; nothing of that size is evaluated). -/
theorem j2c_statement_false : ¬ j2c_statement := by
  intro h
  have h4 := (h (PumpL.bigJson 33554433) _ [] (PumpL.bigJson_bytes _) (PumpL.parse_bigJson _)).2.2.2
  have hrej := PumpL.cbor_rejects_big (PumpL.bigStr 33554433)
    (by simp only [PumpL.bigStr, List.length_replicate]; decide)
    (by simp only [PumpL.bigStr, List.length_replicate]; decide)
  rw [hrej] at h4
  cases h4

-- the common data model, on token trees
mutual
  def common : TV → Bool
    | .scalar t => t.tag.isNone && (match t.body with
        | .bytes _ => false
        | .float b => !floatNonFinite b
        | _ => true)
    | .arr tag _ items => tag.isNone && commonL items
    | .map tag _ es => tag.isNone && commonE es
  def commonL : List TV → Bool
    | [] => true
    | v :: vs => common v && commonL vs
  def commonE : List (TV × TV) → Bool
    | [] => true
    | (k, v) :: es => (match k with | .scalar t => t.tag.isNone && (match t.body with | .str _ => true | _ => false) | _ => false) &&
        common v && commonE es
end

/-! #### the JSON recogniser (hence, by C14, the JSON encoder) accepts the common data model -/

/-- recogniser flags from the point where one complete value has been consumed in context `stk` -/
def afterFlags (stk : List Frame) (rest : List Tok) : List Flag :=
  match afterValue stk with
  | .cont stk' => .cont :: recFlags .json stk' rest
  | .done => [.done]
  | .reject => [.err]

theorem recFlags_cons (stk : List Frame) (t : Tok) (ts : List Tok) :
    recFlags .json stk (t :: ts) =
      (match recStep .json stk t.body with
       | .cont stk' => Flag.cont :: recFlags .json stk' ts
       | .done => [Flag.done]
       | .reject => [Flag.err]) := rfl

theorem recStep_value (stk : List Frame) (b : Body) (h : ∀ r, stk ≠ .mapKey :: r) :
    recStep .json stk b = recValue .json stk b := by
  unfold recStep
  split
  · exact absurd rfl (h _)
  · rfl

theorem scalar_rec (t : Tok) (hs : t.body.isScalar = true) (hc : common (.scalar t) = true) (stk : List Frame) :
    recValue .json stk t.body = afterValue stk := by
  simp only [common, Bool.and_eq_true] at hc
  obtain ⟨_, hc⟩ := hc
  cases hb : t.body <;> rw [hb] at hs hc <;> simp [Body.isScalar] at hs <;> simp at hc <;>
    simp [recValue, valOk, hc]

theorem rep_cons (n : Nat) (X : List Flag) :
    Flag.cont :: (List.replicate n Flag.cont ++ X) = List.replicate (n + 1) Flag.cont ++ X := by
  simp [List.replicate_succ]

theorem rep_app (a b : Nat) (X : List Flag) :
    List.replicate a Flag.cont ++ (List.replicate b Flag.cont ++ X) = List.replicate (a + b) Flag.cont ++ X := by
  rw [← List.append_assoc, List.replicate_append_replicate]

theorem flatten_pos (v : TV) : 1 ≤ v.flatten.length := by
  cases v <;> simp [TV.flatten]

mutual
  theorem recV : ∀ (v : TV), common v = true → PumpL.SB v = true → ∀ (stk : List Frame) (rest : List Tok),
      (∀ r, stk ≠ .mapKey :: r) →
      recFlags .json stk (v.flatten ++ rest) =
        List.replicate (v.flatten.length - 1) Flag.cont ++ afterFlags stk rest
    | .scalar t, hc, hs, stk, rest, hk => by
      simp only [TV.flatten, List.singleton_append, List.cons_append, List.nil_append, recFlags_cons,
        List.length_cons, List.length_nil]
      rw [recStep_value stk _ hk, scalar_rec t (by simpa [PumpL.SB] using hs) hc stk]
      simp [afterFlags]
    | .arr tag len items, hc, hs, stk, rest, hk => by
      simp only [common, Bool.and_eq_true] at hc
      simp only [PumpL.SB] at hs
      have h2 := recL items hc.2 hs stk (⟨.arrClose, none⟩ :: rest)
      simp only [TV.flatten, List.cons_append, List.append_assoc, recFlags_cons, List.singleton_append,
        List.nil_append]
      rw [recStep_value stk _ hk]
      simp only [recValue]
      rw [h2, recFlags_cons]
      have : recStep .json (.arr :: stk) Body.arrClose = afterValue stk := rfl
      rw [this, rep_cons]
      simp only [List.length_cons, List.length_append, List.length_nil]
      rfl
    | .map tag len es, hc, hs, stk, rest, hk => by
      simp only [common, Bool.and_eq_true] at hc
      simp only [PumpL.SB] at hs
      have h2 := recE es hc.2 hs stk (⟨.mapClose, none⟩ :: rest)
      simp only [TV.flatten, List.cons_append, List.append_assoc, recFlags_cons, List.singleton_append,
        List.nil_append]
      rw [recStep_value stk _ hk]
      simp only [recValue]
      rw [h2, recFlags_cons]
      have : recStep .json (.mapKey :: stk) Body.mapClose = afterValue stk := rfl
      rw [this, rep_cons]
      simp only [List.length_cons, List.length_append, List.length_nil]
      rfl
  theorem recL : ∀ (vs : List TV), commonL vs = true → PumpL.SBl vs = true → ∀ (stk : List Frame) (rest : List Tok),
      recFlags .json (.arr :: stk) (TV.flattenList vs ++ rest) =
        List.replicate (TV.flattenList vs).length Flag.cont ++ recFlags .json (.arr :: stk) rest
    | [], _, _, stk, rest => by simp [TV.flattenList]
    | v :: vs, hc, hs, stk, rest => by
      simp only [commonL, Bool.and_eq_true] at hc
      simp only [PumpL.SBl, Bool.and_eq_true] at hs
      have h1 := recV v hc.1 hs.1 (.arr :: stk) (TV.flattenList vs ++ rest) (by intro r h; cases h)
      have h2 := recL vs hc.2 hs.2 stk rest
      have hp := flatten_pos v
      simp only [TV.flattenList, List.append_assoc, List.length_append]
      rw [h1]
      simp only [afterFlags, afterValue]
      rw [h2, rep_cons, rep_app]
      congr 2
      omega
  theorem recE : ∀ (es : List (TV × TV)), commonE es = true → PumpL.SBe es = true →
      ∀ (stk : List Frame) (rest : List Tok),
      recFlags .json (.mapKey :: stk) (TV.flattenEntries es ++ rest) =
        List.replicate (TV.flattenEntries es).length Flag.cont ++ recFlags .json (.mapKey :: stk) rest
    | [], _, _, stk, rest => by simp [TV.flattenEntries]
    | (k, v) :: es, hc, hs, stk, rest => by
      simp only [commonE, Bool.and_eq_true] at hc
      obtain ⟨⟨hk, hv⟩, hes⟩ := hc
      simp only [PumpL.SBe, Bool.and_eq_true] at hs
      have h1 := recV v hv hs.1.2 (.mapVal :: stk) (TV.flattenEntries es ++ rest) (by intro r h; cases h)
      have h2 := recE es hes hs.2 stk rest
      have hp := flatten_pos v
      cases k with
      | scalar t =>
        simp only [Bool.and_eq_true] at hk
        cases hb : t.body <;> rw [hb] at hk <;> simp at hk
        simp only [TV.flattenEntries, TV.flatten, List.append_assoc, List.singleton_append, List.cons_append,
          List.nil_append, recFlags_cons, recStep, recKey, hb, keyOk, List.length_cons, List.length_append]
        simp only [if_true]
        rw [h1]
        simp only [afterFlags, afterValue]
        rw [h2, rep_cons, rep_cons, rep_app]
        congr 2
        omega
      | arr _ _ _ => simp at hk
      | map _ _ _ => simp at hk
end

/-- the JSON encoder accepts the tokens of every tree of the common data model, done exactly on the last -/
theorem json_sink_ok (c : JsonEnc.Cfg) (ff : Nat → Bytes) (v : TV) (hc : common v = true) (hs : PumpL.SB v = true) :
    PumpL.SinkOk (JsonEnc.step c ff) JsonEnc.init v.flatten := by
  unfold PumpL.SinkOk
  rw [PumpL.runOut_fst, C14.json_accepts_exactly]
  have := recV v hc hs [] [] (by intro r h; cases h)
  simpa [afterFlags, afterValue] using this

/-- CBOR → JSON: accepted, done on the last token, one item consumed -/
theorem c2j_accepts (c : JsonEnc.Cfg) (ff : Nat → Bytes) (bs : Bytes) (v : TV) (rest : Bytes) (hb : ∀ x ∈ bs, x < 256)
    (hp : Spec.Cbor.parse false bs = some (v, rest)) (hc : common v = true) :
    let r := Pump.run (Pump.cborSrc false) (JsonEnc.step c ff) (2 * bs.length + 4) CborDec.init (Rd.ofBytes bs) JsonEnc.init []
    r.ok = true ∧ r.rd.data = rest ∧ r.out = (runOut (JsonEnc.step c ff) JsonEnc.init v.flatten).2 := by
  intro r
  have href := C04.refine false bs hb
  simp only [hp] at href
  obtain ⟨h1, h2, h3⟩ := href
  have hsink := json_sink_ok c ff v hc (PumpL.parse_SB false bs v rest hp)
  unfold PumpL.SinkOk at hsink
  rw [← h1] at hsink
  obtain ⟨g1, g2, g3⟩ := pump_eq_batch_cbor_src (JsonEnc.step c ff) JsonEnc.init false bs hb h2 hsink
  refine ⟨g1, ?_, ?_⟩
  · rw [← h3]; exact g3
  · rw [← h1]; exact g2

/-- an input error surfaces as a pump error -/
theorem pump_src_error_cbor {τ : Type} (sink : τ → Tok → EncOut τ) (k0 : τ) (coerce : Bool) (bs : Bytes) (e : Err)
    (hdec : (CborDec.decode coerce (Rd.ofBytes bs)).res = .error e) :
    (Pump.run (Pump.cborSrc coerce) sink (2 * bs.length + 4) CborDec.init (Rd.ofBytes bs) k0 []).ok = false := by
  apply PumpL.pump_fail
  have hrun := (PumpL.cbor_run_eq coerce (2 * bs.length + 2) CborDec.init (Rd.ofBytes bs) [] 0 0).2.1
  have hd : CborDec.decode coerce (Rd.ofBytes bs) =
      CborDec.run coerce (2 * bs.length + 2) CborDec.init (Rd.ofBytes bs) [] 0 0 := rfl
  rw [hd] at hdec
  rw [hdec] at hrun
  have hind := PumpL.cbor_srcRun_indep coerce (2 * bs.length + 4) (2 * bs.length + 2) CborDec.init bs
    (by simp [PumpL.cborMu, CborDec.init]) (by simp [PumpL.cborMu, CborDec.init])
  have e : Rd.ofBytes bs = ⟨bs, none, 0⟩ := rfl
  rw [e] at hrun ⊢
  rw [hind, ← hrun]
  rfl

theorem pump_src_error_json {τ : Type} (sink : τ → Tok → EncOut τ) (k0 : τ) (bs : Bytes) (e : Err)
    (hdec : (JsonDec.decode (Rd.ofBytes bs)).res = .error e) :
    (Pump.run Pump.jsonSrc sink (2 * bs.length + 4) JsonDec.init (Rd.ofBytes bs) k0 []).ok = false := by
  apply PumpL.pump_fail
  exact PumpL.json_srcRun_err bs e hdec _

end Refmt.C10
