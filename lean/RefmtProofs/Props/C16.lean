/-
  C16 — I/O failures are reported, never swallowed.

  Writers: the k-th `Write` call returns an error, a short count, or both (fail-once or
  fail-stop).  Both encoder models keep the first failure sticky and return it from
  `Step` (`Ret.ck`); the run below is what the token pump does (stop at the first error).
  Readers: the abstract cursor carries an injected fault `(k, stop)`: a distinguished
  error after `k` delivered bytes, once or forever.

  * `cbor_write_fault`, `json_write_fault` : for every document (well-formed token tree of the format's
        domain, every JSON option setting) and every fault at a Write call the document needs — unless it
        is an unobservable "short count" on an empty buffer — the run ends with an error, never with done.
  * `no_fault_same` : with no fault the faulty-writer run is the ordinary run (sanity of the formulation).
  * `cbor_read_fault`, `json_read_fault` : if the reader fails with the injected error at any offset strictly
        inside the item the fault-free decoder would read, decoding returns that error (fail-once and fail-stop).
-/
import RefmtModel
import RefmtProofs.Props.C02
set_option linter.unusedSimpArgs false
set_option linter.unusedVariables false
namespace Refmt.C16
open Refmt

/-! ### JSON document domain (as in C03) -/

def jsonScalarOk (t : Tok) : Bool :=
  match t.body with
  | .uint n => n < two64
  | .int i => - (two63 : Int) ≤ i && i < (two63 : Int)
  | .float b => b < two64 && !floatNonFinite b
  | .str s => s.all (· < 256)
  | .null => true
  | .bool _ => true
  | _ => false

mutual
  def JWF : TV → Bool
    | .scalar t => jsonScalarOk t
    | .arr _ _ items => JWFl items
    | .map _ _ es => JWFe es
  def JWFl : List TV → Bool
    | [] => true
    | v :: vs => JWF v && JWFl vs
  def JWFe : List (TV × TV) → Bool
    | [] => true
    | (k, v) :: es =>
      (match k with | .scalar t => (match t.body with | .str s => s.all (· < 256) | _ => false) | _ => false) &&
      JWF v && JWFe es
end

/-! ### Write faults -/

/-- the fault is observable: not a "short count" on an empty buffer -/
def effective (f : WFault) (allWrites : List Bytes) : Prop :=
  f.mode ≠ .short ∨ allWrites.getD f.k [] ≠ []

theorem no_fault_same {σ : Type} (step : σ → Tok → EncOut σ) (s : σ) (w : WSt) (hw : w.failed = false) (ts : List Tok) :
    (runFaulty step none s w ts).1 = runFlags step s ts := by
  sorry

theorem cbor_write_fault (v : TV) (h : C02.WFv v = true) (f : WFault)
    (hk : f.k < (runOut CborEnc.step CborEnc.init v.flatten).2.length)
    (heff : effective f (runOut CborEnc.step CborEnc.init v.flatten).2) :
    (runFaulty CborEnc.step (some f) CborEnc.init {} v.flatten).1.getLast? = some Flag.err := by
  sorry

theorem json_write_fault (c : JsonEnc.Cfg) (ff : Nat → Bytes) (v : TV) (h : JWF v = true) (f : WFault)
    (hk : f.k < (runOut (JsonEnc.step c ff) JsonEnc.init v.flatten).2.length)
    (heff : effective f (runOut (JsonEnc.step c ff) JsonEnc.init v.flatten).2) :
    (runFaulty (JsonEnc.step c ff) (some f) JsonEnc.init {} v.flatten).1.getLast? = some Flag.err := by
  sorry

/-! ### Read faults -/

theorem cbor_read_fault (coerce : Bool) (bs : Bytes) (k : Nat) (stop : Bool) (hb : ∀ x ∈ bs, x < 256)
    (h0 : (CborDec.decode coerce (Rd.ofBytes bs)).res = .ok ())
    (hk : k < bs.length - (CborDec.decode coerce (Rd.ofBytes bs)).rd.data.length) :
    (CborDec.decode coerce ⟨bs, some (k, stop), 0⟩).res = .error .injected := by
  sorry

theorem json_read_fault (bs : Bytes) (k : Nat) (stop : Bool) (hb : ∀ x ∈ bs, x < 256)
    (h0 : (JsonDec.decode (Rd.ofBytes bs)).res = .ok ())
    (hk : k < bs.length - (JsonDec.decode (Rd.ofBytes bs)).rd.data.length) :
    (JsonDec.decode ⟨bs, some (k, stop), 0⟩).res = .error .injected := by
  sorry

example : (runFaulty CborEnc.step (some ⟨1, .short, false⟩) CborEnc.init {} [⟨.uint 500, none⟩]).1 = [Flag.err] := by decide
end Refmt.C16
