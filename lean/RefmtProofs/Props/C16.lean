/-
  C16 — I/O failures are reported, never swallowed.

  Writers: the k-th `Write` call returns an error, a short count, or both (fail-once or
  fail-stop).  Both encoder models keep the first failure sticky and return it from
  `Step` (`Ret.ck`); the run below is what the token pump does (stop at the first error).
  Readers: the abstract cursor carries an injected fault `(k, stop)`: a distinguished
  error after `k` delivered bytes, once or forever.

  * `cbor_write_fault`, `json_write_fault` : for every document (well-formed token tree of the format's
        domain, every JSON option setting) and every fault at a Write call the document needs — unless it
        is an unobservable "short count" on an empty buffer — the run ends with an error, never with done.
  * `no_fault_same` : with no fault the faulty-writer run is the ordinary run (sanity of the formulation).
  * `cbor_read_fault`, `json_read_fault` : if the reader fails with the injected error at any offset strictly
        inside the item the fault-free decoder would read, decoding returns that error (fail-once and fail-stop).

  All five statements are proved as first written.  Proof layout:
  * RefmtProofs/Lemmas/WFaults.lean : `fault_reported` — for any `step` that never returns an explicit nil error
        after a `Write` (`Honest`), if the fault-free run answers continue/done only and performs write number
        `f.k`, observably, the faulty run ends with `err`; `cbor_honest` / `json_honest` hold for every state and
        token (CBOR: the only `Ret.plain` is the definite-length close, which writes nothing; JSON: none at all).
        Flags: C02.enc_eq_spec (CBOR), C14.json_accepts_exactly + the recogniser on `flatten v` (`recV` below).
  * RefmtProofs/Lemmas/RFaults.lean : the faulted reader as a function `inj M stop` of the fault-free one (the
        fault fires when `M` bytes of data are left); `read1`/`readN`/`unread1` either report the injected error
        or commute with `inj`.  RFaultsCbor.lean / RFaultsJson.lean lift this dichotomy through every function of
        the two decoder models up to `step`, then to `run` (fuel is computed from `data.length`, equal on both
        sides) and `decode`.  The byte-range hypothesis `hb` is not needed.
-/
import RefmtModel
import RefmtProofs.Props.C02
import RefmtProofs.Props.C14
import RefmtProofs.Lemmas.WFaults
import RefmtProofs.Lemmas.RFaultsCbor
import RefmtProofs.Lemmas.RFaultsJson
set_option linter.unusedSimpArgs false
set_option linter.unusedVariables false
namespace Refmt.C16
open Refmt

/-! ### JSON document domain (as in C03) -/

def jsonScalarOk (t : Tok) : Bool :=
  match t.body with
  | .uint n => n < two64
  | .int i => - (two63 : Int) ≤ i && i < (two63 : Int)
  | .float b => b < two64 && !floatNonFinite b
  | .str s => s.all (· < 256)
  | .null => true
  | .bool _ => true
  | _ => false

mutual
  def JWF : TV → Bool
    | .scalar t => jsonScalarOk t
    | .arr _ _ items => JWFl items
    | .map _ _ es => JWFe es
  def JWFl : List TV → Bool
    | [] => true
    | v :: vs => JWF v && JWFl vs
  def JWFe : List (TV × TV) → Bool
    | [] => true
    | (k, v) :: es =>
      (match k with | .scalar t => (match t.body with | .str s => s.all (· < 256) | _ => false) | _ => false) &&
      JWF v && JWFe es
end

/-! ### Write faults -/

/-- the fault is observable: not a "short count" on an empty buffer -/
def effective (f : WFault) (allWrites : List Bytes) : Prop :=
  f.mode ≠ .short ∨ allWrites.getD f.k [] ≠ []

theorem no_fault_same {σ : Type} (step : σ → Tok → EncOut σ) (s : σ) (w : WSt) (hw : w.failed = false) (ts : List Tok) :
    (runFaulty step none s w ts).1 = runFlags step s ts :=
  C16L.no_fault_same step ts s w hw

/-- an effective fault at a write the run performs is noticed by the wrapper -/
theorem effective_hits (f : WFault) (all : List Bytes) (h : effective f all) :
    f.hits f.k (all.getD f.k []) = true := by
  unfold WFault.hits
  rcases h with h | h
  · cases hm : f.mode <;> simp_all
  · generalize all.getD f.k [] = x at h ⊢
    cases x with
    | nil => exact absurd rfl h
    | cons _ _ => cases hm : f.mode <;> simp

theorem cbor_write_fault (v : TV) (h : C02.WFv v = true) (f : WFault)
    (hk : f.k < (runOut CborEnc.step CborEnc.init v.flatten).2.length)
    (heff : effective f (runOut CborEnc.step CborEnc.init v.flatten).2) :
    (runFaulty CborEnc.step (some f) CborEnc.init {} v.flatten).1.getLast? = some Flag.err := by
  apply C16L.fault_reported CborEnc.step f C16L.cbor_honest v.flatten CborEnc.init {} rfl (Nat.zero_le _)
  · simpa using hk
  · simpa using effective_hits f _ heff
  · rw [(C02.enc_eq_spec v h).1]
    intro x hx
    simp only [List.mem_append, List.mem_replicate, List.mem_singleton] at hx
    rcases hx with ⟨_, rfl⟩ | rfl
    · exact Or.inl rfl
    · exact Or.inr rfl

/-! JSON documents: the recogniser (hence, by C14, the encoder) answers continue/done only. -/

theorem scalar_recValue {t : Tok} (h : jsonScalarOk t = true) (stk : List Frame) :
    recValue .json stk t.body = afterValue stk := by
  unfold jsonScalarOk at h
  cases hb : t.body <;> simp [hb] at h <;> simp [recValue, valOk, h]

open C16L in
mutual
  theorem recV : ∀ (v : TV), JWF v = true → ∀ (stk : List Frame) (rest : List Tok),
      AfterOk .json stk rest → FlagsOk (recFlags .json stk (v.flatten ++ rest))
    | .scalar t, h, stk, rest, ha => by
      simp only [TV.flatten, List.singleton_append, List.cons_append, List.nil_append, recFlags_cons]
      rw [recStep_value _ _ _ (fun r => afterOk_not_mapKey _ _ r _ ha), scalar_recValue (by simpa [JWF] using h)]
      exact afterOk_flags _ _ _ ha
    | .arr tag len items, h, stk, rest, ha => by
      simp only [TV.flatten, List.cons_append, List.append_assoc, recFlags_cons]
      rw [recStep_value _ _ _ (fun r => afterOk_not_mapKey _ _ r _ ha)]
      simp only [recValue]
      apply flagsOk_cons_cont
      apply recL items (by simpa [JWF] using h) stk
      simp only [List.singleton_append, recFlags_cons, recStep, recValue]
      exact afterOk_flags _ _ _ ha
    | .map tag len es, h, stk, rest, ha => by
      simp only [TV.flatten, List.cons_append, List.append_assoc, recFlags_cons]
      rw [recStep_value _ _ _ (fun r => afterOk_not_mapKey _ _ r _ ha)]
      simp only [recValue]
      apply flagsOk_cons_cont
      apply recE es (by simpa [JWF] using h) stk
      simp only [List.singleton_append, recFlags_cons, recStep, recKey]
      exact afterOk_flags _ _ _ ha
  theorem recL : ∀ (vs : List TV), JWFl vs = true → ∀ (stk : List Frame) (rest : List Tok),
      FlagsOk (recFlags .json (.arr :: stk) rest) →
      FlagsOk (recFlags .json (.arr :: stk) (TV.flattenList vs ++ rest))
    | [], _, stk, rest, hr => by simpa [TV.flattenList] using hr
    | v :: vs, h, stk, rest, hr => by
      simp only [JWFl, Bool.and_eq_true] at h
      simp only [TV.flattenList, List.append_assoc]
      apply recV v h.1
      simp only [AfterOk, afterValue]
      exact recL vs h.2 stk rest hr
  theorem recE : ∀ (es : List (TV × TV)), JWFe es = true → ∀ (stk : List Frame) (rest : List Tok),
      FlagsOk (recFlags .json (.mapKey :: stk) rest) →
      FlagsOk (recFlags .json (.mapKey :: stk) (TV.flattenEntries es ++ rest))
    | [], _, stk, rest, hr => by simpa [TV.flattenEntries] using hr
    | (k, v) :: es, h, stk, rest, hr => by
      simp only [JWFe, Bool.and_eq_true] at h
      obtain ⟨⟨hk, hv⟩, hes⟩ := h
      cases k with
      | scalar t =>
        cases hb : t.body <;> simp [hb] at hk
        simp only [TV.flattenEntries, TV.flatten, List.append_assoc, List.singleton_append, List.cons_append,
          List.nil_append, recFlags_cons, recStep, recKey, hb, keyOk]
        apply flagsOk_cons_cont
        apply recV v hv
        simp only [AfterOk, afterValue]
        exact recE es hes stk rest hr
      | arr _ _ _ => simp at hk
      | map _ _ _ => simp at hk
end

theorem json_flags_ok (c : JsonEnc.Cfg) (ff : Nat → Bytes) (v : TV) (h : JWF v = true) :
    C16L.FlagsOk (runOut (JsonEnc.step c ff) JsonEnc.init v.flatten).1 := by
  rw [C16L.runOut_fst, C14.json_accepts_exactly]
  have := recV v h [] [] (by simp [C16L.AfterOk, afterValue])
  simpa using this

theorem json_write_fault (c : JsonEnc.Cfg) (ff : Nat → Bytes) (v : TV) (h : JWF v = true) (f : WFault)
    (hk : f.k < (runOut (JsonEnc.step c ff) JsonEnc.init v.flatten).2.length)
    (heff : effective f (runOut (JsonEnc.step c ff) JsonEnc.init v.flatten).2) :
    (runFaulty (JsonEnc.step c ff) (some f) JsonEnc.init {} v.flatten).1.getLast? = some Flag.err := by
  apply C16L.fault_reported (JsonEnc.step c ff) f (C16L.json_honest c ff) v.flatten JsonEnc.init {} rfl
    (Nat.zero_le _)
  · simpa using hk
  · simpa using effective_hits f _ heff
  · exact json_flags_ok c ff v h

/-! ### Read faults -/

theorem cbor_read_fault (coerce : Bool) (bs : Bytes) (k : Nat) (stop : Bool) (hb : ∀ x ∈ bs, x < 256)
    (h0 : (CborDec.decode coerce (Rd.ofBytes bs)).res = .ok ())
    (hk : k < bs.length - (CborDec.decode coerce (Rd.ofBytes bs)).rd.data.length) :
    (CborDec.decode coerce ⟨bs, some (k, stop), 0⟩).res = .error .injected :=
  C16R.decode_sim coerce bs k stop h0 hk

theorem json_read_fault (bs : Bytes) (k : Nat) (stop : Bool) (hb : ∀ x ∈ bs, x < 256)
    (h0 : (JsonDec.decode (Rd.ofBytes bs)).res = .ok ())
    (hk : k < bs.length - (JsonDec.decode (Rd.ofBytes bs)).rd.data.length) :
    (JsonDec.decode ⟨bs, some (k, stop), 0⟩).res = .error .injected :=
  C16R.Json.decode_sim bs k stop h0 hk

example : (runFaulty CborEnc.step (some ⟨1, .short, false⟩) CborEnc.init {} [⟨.uint 500, none⟩]).1 = [Flag.err] := by decide

/-! ### non-vacuity of the read-fault theorems (hypotheses satisfiable, boundary as stated) -/

/-- evaluate the CBOR decoder model on closed input (`acceptValue` does not reduce by `decide`) -/
local macro "cbor_eval" : tactic =>
  `(tactic| simp [CborDec.decode, CborDec.run, CborDec.step, CborDec.subStep, CborDec.withMajor, CborDec.acceptValue,
    Rd.read1, Rd.readN, Rd.ofBytes, Rd.afterFault, CborDec.init, CborDec.inContainer, CborDec.scalarOut,
    CborDec.decUint, CborDec.decLen, CborDec.decString, CborDec.push, CborDec.maxInt, CborDec.cap32M,
    CborEnc.sigNil, CborEnc.sigUndef, CborEnc.sigFalse, CborEnc.sigTrue, CborEnc.sigF16, CborEnc.sigF32,
    CborEnc.sigF64, CborEnc.sigIndefBytes, CborEnc.sigIndefStr, CborEnc.sigIndefArr, CborEnc.sigIndefMap,
    CborEnc.majNeg, CborEnc.majBytes, CborEnc.majStr, CborEnc.majArr, CborEnc.majMap, CborEnc.majTag,
    CborEnc.sigBreak])

-- CBOR `[42, "a"]` followed by one more byte: five bytes are read, one is left
example : (CborDec.decode false (Rd.ofBytes [0x82, 0x18, 0x2a, 0x61, 0x61, 0x00])).res = .ok () ∧
    (CborDec.decode false (Rd.ofBytes [0x82, 0x18, 0x2a, 0x61, 0x61, 0x00])).rd.data.length = 1 := by cbor_eval
-- a fault before the last byte of the item is reported (as `cbor_read_fault` says) ...
example : (CborDec.decode false ⟨[0x82, 0x18, 0x2a, 0x61, 0x61, 0x00], some (4, false), 0⟩).res = .error .injected := by
  cbor_eval
-- ... a fault right after the item is never reached
example : (CborDec.decode false ⟨[0x82, 0x18, 0x2a, 0x61, 0x61, 0x00], some (5, true), 0⟩).res = .ok () := by
  cbor_eval

-- JSON `[12 ,"a"] x`: nine bytes are read, two are left
example : (JsonDec.decode (Rd.ofBytes [91, 49, 50, 32, 44, 34, 97, 34, 93, 32, 120])).res = .ok () ∧
    (JsonDec.decode (Rd.ofBytes [91, 49, 50, 32, 44, 34, 97, 34, 93, 32, 120])).rd.data.length = 2 := ⟨rfl, rfl⟩
example : (JsonDec.decode ⟨[91, 49, 50, 32, 44, 34, 97, 34, 93, 32, 120], some (8, false), 0⟩).res =
    .error .injected := rfl
-- top-level number followed by a space: the look-ahead byte is pushed back, so it is not counted as
-- read (`rd.data.length = 1`) and the theorem claims offsets 0 and 1 only; the model also reports a
-- fault that hits the look-ahead read itself (offset 2), which the theorem does not need
example : (JsonDec.decode (Rd.ofBytes [49, 50, 32])).res = .ok () ∧
    (JsonDec.decode (Rd.ofBytes [49, 50, 32])).rd.data.length = 1 := ⟨rfl, rfl⟩
example : (JsonDec.decode ⟨[49, 50, 32], some (1, true), 0⟩).res = .error .injected := rfl
example : (JsonDec.decode ⟨[49, 50, 32], some (2, true), 0⟩).res = .error .injected := rfl
end Refmt.C16
