/-
  C14 — encoders accept exactly the well-formed token sequences of their format.

  For each of the three hand-written encoder automata (CBOR: 7 phases, JSON: 4
  phases + `some`, pretty: 4 phases) the sequence of (continue | done | error |
  panic) answers on ANY token list equals the answers of the small pushdown
  recogniser `recStep` (RefmtModel/Spec/Rec.lean); the recogniser rejects a token
  exactly when no continuation can complete a well-formed value; hence completion
  is signalled exactly when the sequence forms one value, the error comes at the
  first token that cannot continue any well-formed value, and no encoder panics.
  Writers are assumed not to fail here (I/O errors are C16).
-/
import RefmtModel
set_option linter.unusedSimpArgs false
set_option linter.unusedVariables false
namespace Refmt.C14
open Refmt
def BelowOk : List Frame → Prop
  | [] => True
  | .mapKey :: _ => False
  | _ :: r => BelowOk r

def StackOk : List Frame → Prop
  | [] => True
  | _ :: r => BelowOk r

theorem belowOk_of_after {r stk' : List Frame} (h : BelowOk r) (ha : afterValue r = .cont stk') : StackOk stk' := by
  cases r with
  | nil => simp [afterValue] at ha
  | cons f r' =>
    cases f <;> simp [afterValue] at ha <;> subst ha <;> simpa [StackOk, BelowOk] using h

theorem stackOk_step (fmt : Fmt) (stk stk' : List Frame) (b : Body) (h : StackOk stk)
    (hs : recStep fmt stk b = .cont stk') : StackOk stk' := by
  unfold recStep at hs
  cases stk with
  | nil =>
    cases b <;> simp [recValue, afterValue] at hs
    all_goals first
      | (subst hs; simp [StackOk, BelowOk])
      | (split at hs <;> simp at hs)
  | cons f r =>
    have hb : BelowOk r := by simpa [StackOk] using h
    cases f <;> cases b <;> simp [recValue, recKey, afterValue] at hs
    all_goals first
      | exact belowOk_of_after hb hs
      | (subst hs; simp_all [StackOk, BelowOk])
      | (split at hs <;> simp at hs <;> subst hs <;> simp_all [StackOk, BelowOk])


/-- Tokens that close every frame below the top once the value above it is complete. -/
def completionBelow : List Frame → List Body
  | [] => []
  | .arr :: r => .arrClose :: completionBelow r
  | _ :: r => .mapClose :: completionBelow r

/-- A shortest completion of a pending context: close everything, `null` for a pending map value. -/
def completion : List Frame → List Body
  | [] => []
  | .arr :: r => .arrClose :: completionBelow r
  | .mapKey :: r => .mapClose :: completionBelow r
  | .mapVal :: r => .null :: .mapClose :: completionBelow r

theorem valOk_null (fmt : Fmt) : valOk fmt Body.null = true := by cases fmt <;> rfl

/-- Running the recogniser after a completed value in context `r`. -/
def afterRun (fmt : Fmt) (r : List Frame) (rest : List Body) : RecOut :=
  match afterValue r with
  | .cont stk' => recRun fmt stk' rest
  | .done => (match rest with | [] => RecOut.done | _ => RecOut.reject)
  | .reject => RecOut.reject

theorem run_arrClose (fmt : Fmt) (r : List Frame) (rest : List Body) :
    recRun fmt (.arr :: r) (.arrClose :: rest) = afterRun fmt r rest := by
  simp only [recRun, recStep, recValue, afterRun]
  cases afterValue r <;> rfl

theorem run_mapClose (fmt : Fmt) (r : List Frame) (rest : List Body) :
    recRun fmt (.mapKey :: r) (.mapClose :: rest) = afterRun fmt r rest := by
  simp only [recRun, recStep, recKey, afterRun]
  cases afterValue r <;> rfl

theorem run_null_mapVal (fmt : Fmt) (r : List Frame) (rest : List Body) :
    recRun fmt (.mapVal :: r) (.null :: rest) = recRun fmt (.mapKey :: r) rest := by
  simp [recRun, recStep, recValue, afterValue, valOk_null]

theorem after_done (fmt : Fmt) : ∀ (r : List Frame), BelowOk r →
    afterRun fmt r (completionBelow r) = .done := by
  intro r
  induction r with
  | nil => intro _; simp [afterRun, afterValue, completionBelow]
  | cons g r' ih =>
    intro hb
    cases g with
    | mapKey => simp [BelowOk] at hb
    | arr =>
      have h2 := ih (by simpa [BelowOk] using hb)
      simp only [afterRun, afterValue, completionBelow, run_arrClose]
      exact h2
    | mapVal =>
      have h2 := ih (by simpa [BelowOk] using hb)
      simp only [afterRun, afterValue, completionBelow, run_mapClose]
      exact h2

theorem completion_done (fmt : Fmt) (stk : List Frame) (hne : stk ≠ []) (hok : StackOk stk) :
    recRun fmt stk (completion stk) = .done := by
  cases stk with
  | nil => exact absurd rfl hne
  | cons f r =>
    have hb : BelowOk r := by simpa [StackOk] using hok
    cases f with
    | arr => simp only [completion, run_arrClose]; exact after_done fmt r hb
    | mapKey => simp only [completion, run_mapClose]; exact after_done fmt r hb
    | mapVal => simp only [completion, run_null_mapVal, run_mapClose]; exact after_done fmt r hb

theorem rec_reject_dead (fmt : Fmt) (stk : List Frame) (b : Body) (rest : List Body)
    (h : recStep fmt stk b = .reject) : recRun fmt stk (b :: rest) = .reject := by
  simp [recRun, h]

theorem cont_ne_nil (fmt : Fmt) (stk stk' : List Frame) (b : Body)
    (hs : recStep fmt stk b = .cont stk') : stk' ≠ [] := by
  intro he; subst he
  unfold recStep at hs
  cases stk with
  | nil => cases b <;> simp [recValue, afterValue] at hs <;> (split at hs <;> simp at hs)
  | cons f r =>
    cases f <;> cases b <;> simp [recValue, recKey, afterValue] at hs
    all_goals first
      | (cases r with
          | nil => simp [afterValue] at hs
          | cons g r' => cases g <;> simp [afterValue] at hs)
      | (split at hs <;> simp at hs)

theorem rec_alive (fmt : Fmt) (stk : List Frame) (b : Body) (hok : StackOk stk)
    (h : recStep fmt stk b ≠ .reject) : ∃ rest, recRun fmt stk (b :: rest) = .done := by
  cases hs : recStep fmt stk b with
  | reject => exact absurd hs h
  | done => exact ⟨[], by simp [recRun, hs]⟩
  | cont stk' =>
    refine ⟨completion stk', ?_⟩
    simp only [recRun, hs]
    exact completion_done fmt stk' (cont_ne_nil fmt stk stk' b hs) (stackOk_step fmt stk stk' b hok hs)
def recFlag : RecOut → Flag
  | .cont _ => .cont
  | .done => .done
  | .reject => .err

@[simp] theorem afterValue_nil : afterValue [] = .done := rfl
@[simp] theorem afterValue_arr (r : List Frame) : afterValue (.arr :: r) = .cont (.arr :: r) := rfl
@[simp] theorem afterValue_mapVal (r : List Frame) : afterValue (.mapVal :: r) = .cont (.mapKey :: r) := rfl
@[simp] theorem afterValue_mapKey (r : List Frame) : afterValue (.mapKey :: r) = .reject := rfl

namespace Cbor
open CborEnc

def belowFrame : Phase → Option Frame
  | .mapDefKey => some .mapVal
  | .mapIndefKey => some .mapVal
  | .arrDef => some .arr
  | .arrIndef => some .arr
  | _ => none

def absBelow : List Phase → Option (List Frame)
  | [] => some []
  | p :: r => match belowFrame p, absBelow r with
    | some f, some fr => some (f :: fr)
    | _, _ => none

def topFrame : Phase → Phase → Option Frame
  | .mapDefKey, .mapDefKey => some .mapKey
  | .mapDefKey, .mapDefVal => some .mapVal
  | .mapIndefKey, .mapIndefKey => some .mapKey
  | .mapIndefKey, .mapIndefVal => some .mapVal
  | .arrDef, .arrDef => some .arr
  | .arrIndef, .arrIndef => some .arr
  | _, _ => none

def abs (s : St) : Option (List Frame) :=
  match s.stack with
  | [] => if s.current = .any then some [] else none
  | p :: r => match topFrame p s.current, absBelow r with
    | some f, some fr => some (f :: fr)
    | _, _ => none

@[simp] theorem below_open (m : Bool) (len : Int) :
    belowFrame (openPhase m len) = some (if m then .mapVal else .arr) := by
  unfold openPhase; cases m <;> split <;> rfl
@[simp] theorem top_open (m : Bool) (len : Int) :
    topFrame (openPhase m len) (openPhase m len) = some (if m then .mapKey else .arr) := by
  unfold openPhase; cases m <;> split <;> rfl

theorem abs_cons {p c : Phase} {r : List Phase} {stk : List Frame} (h : abs ⟨p :: r, c⟩ = some stk) :
    ∃ f fr, topFrame p c = some f ∧ absBelow r = some fr ∧ stk = f :: fr := by
  simp only [abs] at h
  cases h1 : topFrame p c <;> cases h2 : absBelow r <;> simp [h1, h2] at h
  exact ⟨_, _, rfl, rfl, h.symm⟩

theorem step_flag (s : St) (stk : List Frame) (t : Tok) (h : abs s = some stk) :
    (step s t).ret.flag = recFlag (recStep .cbor stk t.body) := by
  obtain ⟨stack, current⟩ := s
  obtain ⟨body, tag⟩ := t
  cases stack with
  | nil =>
    cases current <;> simp [abs] at h
    subst h
    cases body <;> simp [step, stepOpen, stepMapClose, stepArrClose, stepValueOnly, stepKeyable, valuePos,
      Ret.flag, recStep, recValue, valOk, recFlag]
  | cons p r =>
    obtain ⟨f, fr, h1, h2, rfl⟩ := abs_cons h
    cases p <;> cases current <;> simp [topFrame] at h1 <;> subst h1 <;>
      cases body <;>
        simp [step, stepOpen, stepMapClose, stepArrClose, stepValueOnly, stepKeyable, valuePos, keyPos,
          Ret.flag, recStep, recValue, recKey, valOk, keyOk, recFlag, popRet, pop]
    all_goals
      (cases r with
       | nil => simp [absBelow] at h2; subst h2; simp [recFlag, Ret.flag]
       | cons q r' =>
         simp only [absBelow] at h2
         cases q <;> simp [belowFrame] at h2 <;>
           (cases h3 : absBelow r' <;> simp [h3] at h2 <;> subst h2 <;> simp [recFlag, Ret.flag]))

theorem step_state (s : St) (stk stk' : List Frame) (t : Tok) (h : abs s = some stk)
    (hs : recStep .cbor stk t.body = .cont stk') : abs (step s t).st = some stk' := by
  obtain ⟨stack, current⟩ := s
  obtain ⟨body, tag⟩ := t
  cases stack with
  | nil =>
    cases current <;> simp [abs] at h
    subst h
    cases body <;> simp [recStep, recValue, valOk] at hs <;> subst hs <;>
      simp [step, stepOpen, valuePos, push, abs, absBelow]
  | cons p r =>
    obtain ⟨f, fr, h1, h2, rfl⟩ := abs_cons h
    cases p <;> cases current <;> simp [topFrame] at h1 <;> subst h1 <;>
      cases body <;> simp [recStep, recValue, recKey, valOk, keyOk] at hs <;> (try subst hs) <;>
        simp [step, stepOpen, stepMapClose, stepArrClose, stepValueOnly, stepKeyable, valuePos, keyPos,
          popRet, pop, push, abs, absBelow, h2] <;> (try simp [topFrame, belowFrame])
    all_goals
      (cases r with
       | nil => simp [absBelow] at h2; subst h2; simp at hs
       | cons q r' =>
         simp only [absBelow] at h2
         cases q <;> simp [belowFrame] at h2 <;>
           (cases h3 : absBelow r' <;> simp [h3] at h2 <;> subst h2 <;> simp at hs <;> subst hs <;>
             simp [abs, topFrame, h3]))
end Cbor

/-! ### Lifting the one-step simulation to whole token lists -/

theorem lift {σ : Type} (step : σ → Tok → EncOut σ) (abs : σ → Option (List Frame)) (fmt : Fmt)
    (hflag : ∀ s stk t, abs s = some stk → (step s t).ret.flag = recFlag (recStep fmt stk t.body))
    (hstate : ∀ s stk stk' t, abs s = some stk → recStep fmt stk t.body = .cont stk' →
      abs (step s t).st = some stk') :
    ∀ ts s stk, abs s = some stk → runFlags step s ts = recFlags fmt stk ts := by
  intro ts
  induction ts with
  | nil => intros; rfl
  | cons t ts ih =>
    intro s stk h
    have hf := hflag s stk t h
    simp only [runFlags, recFlags]
    cases hr : recStep fmt stk t.body with
    | cont stk' =>
      have hs := hstate s stk stk' t h hr
      rw [hr] at hf
      simp only [recFlag] at hf
      rw [hf]
      simp only
      rw [ih _ _ hs]
    | done => rw [hr] at hf; simp only [recFlag] at hf; rw [hf]
    | reject => rw [hr] at hf; simp only [recFlag] at hf; rw [hf]

theorem recFlags_no_panic (fmt : Fmt) : ∀ ts stk, Flag.panic ∉ recFlags fmt stk ts := by
  intro ts
  induction ts with
  | nil => intro stk; simp [recFlags]
  | cons t ts ih =>
    intro stk
    simp only [recFlags]
    cases recStep fmt stk t.body with
    | cont stk' => simp [ih stk']
    | done => simp
    | reject => simp

/-! ### Json encoder ≈ recogniser -/
namespace Json
open JsonEnc

def belowFrame : Phase → Option Frame
  | .mapKey => some .mapVal
  | .arr => some .arr
  | _ => none

def absBelow : List Phase → Option (List Frame)
  | [] => some []
  | p :: r => match belowFrame p, absBelow r with
    | some f, some fr => some (f :: fr)
    | _, _ => none

def topFrame : Phase → Phase → Option Frame
  | .mapKey, .mapKey => some .mapKey
  | .mapKey, .mapVal => some .mapVal
  | .arr, .arr => some .arr
  | _, _ => none

def abs (s : St) : Option (List Frame) :=
  match s.stack with
  | [] => if s.current = .any then some [] else none
  | p :: r => match topFrame p s.current, absBelow r with
    | some f, some fr => some (f :: fr)
    | _, _ => none

theorem abs_cons {p c : Phase} {r : List Phase} {sm : Bool} {stk : List Frame} (h : abs ⟨p :: r, c, sm⟩ = some stk) :
    ∃ f fr, topFrame p c = some f ∧ absBelow r = some fr ∧ stk = f :: fr := by
  simp only [abs] at h
  cases h1 : topFrame p c <;> cases h2 : absBelow r <;> simp [h1, h2] at h
  exact ⟨_, _, rfl, rfl, h.symm⟩

theorem valueRet_st (s : St) (pre : List Bytes) (d : Bool) (fl : Flush) : (valueRet s pre d fl).st = s := by
  cases fl <;> rfl

def dflag (d : Bool) : Flag := if d = true then .done else .cont

/-- Flag of a value step, by token kind. -/
def flushFlag (d : Bool) : Body → Flag
  | .null => dflag d
  | .str _ => dflag d
  | .bool _ => dflag d
  | .int _ => dflag d
  | .uint _ => dflag d
  | .float bits => if floatNonFinite bits = true then .err else dflag d
  | .bytes _ => .err
  | .mapOpen _ => .panic
  | .mapClose => .panic
  | .arrOpen _ => .panic
  | .arrClose => .panic

theorem valueRet_flag (ff : Nat → Bytes) (s : St) (pre : List Bytes) (d : Bool) (b : Body) :
    (valueRet s pre d (flushValue ff b)).ret.flag = flushFlag d b := by
  cases b <;> simp [flushValue, valueRet, Ret.flag, flushFlag, dflag]
  · rename_i b; cases b <;> simp [flushValue, valueRet, Ret.flag]
  · rename_i bits
    by_cases hf : floatNonFinite bits = true <;> simp [hf, valueRet, Ret.flag]

theorem step_flag (c : Cfg) (ff : Nat → Bytes) (s : St) (stk : List Frame) (t : Tok) (h : abs s = some stk) :
    (step c ff s t).ret.flag = recFlag (recStep .json stk t.body) := by
  obtain ⟨stack, current, sm⟩ := s
  obtain ⟨body, tag⟩ := t
  cases stack with
  | nil =>
    cases current <;> simp [abs] at h
    subst h
    cases body <;> simp [step, stepAny, valueRet_flag, flushFlag, dflag, valOk, recStep, recValue, recFlag] <;>
      (try simp [Ret.flag]) <;> (try (split <;> simp [recFlag]))
    all_goals (rename_i bits; cases hf : floatNonFinite bits <;> simp)
  | cons p r =>
    obtain ⟨f, fr, h1, h2, rfl⟩ := abs_cons h
    cases p <;> cases current <;> simp [topFrame] at h1 <;> subst h1 <;>
      cases body <;>
        simp [step, stepMapKey, stepMapVal, stepArr, valueRet_flag, flushFlag, dflag, valOk, pop,
          recStep, recValue, recKey, keyOk, recFlag] <;>
        (try simp [Ret.flag]) <;> (try (split <;> simp [recFlag]))
    all_goals first
      | (rename_i bits; cases hf : floatNonFinite bits <;> simp; done)
      | (cases r with
         | nil => simp [absBelow] at h2; subst h2; simp [recFlag, Ret.flag]
         | cons q r' =>
           simp only [absBelow] at h2
           cases q <;> simp [belowFrame] at h2 <;>
             (cases h3 : absBelow r' <;> simp [h3] at h2 <;> subst h2 <;> simp [recFlag, Ret.flag]))

theorem step_state (c : Cfg) (ff : Nat → Bytes) (s : St) (stk stk' : List Frame) (t : Tok) (h : abs s = some stk)
    (hs : recStep .json stk t.body = .cont stk') : abs (step c ff s t).st = some stk' := by
  obtain ⟨stack, current, sm⟩ := s
  obtain ⟨body, tag⟩ := t
  cases stack with
  | nil =>
    cases current <;> simp [abs] at h
    subst h
    cases body <;> simp [recStep, recValue, valOk] at hs <;> (try subst hs) <;>
      simp [step, stepAny, push, abs, absBelow, topFrame]
    all_goals (split at hs <;> simp at hs)
  | cons p r =>
    obtain ⟨f, fr, h1, h2, rfl⟩ := abs_cons h
    cases p <;> cases current <;> simp [topFrame] at h1 <;> subst h1 <;>
      cases body <;> simp [recStep, recValue, recKey, valOk, keyOk] at hs <;> (try subst hs) <;>
        simp [step, stepMapKey, stepMapVal, stepArr, valueRet_st, pop, push, abs, absBelow, h2, topFrame, belowFrame]
    all_goals first
      | (split at hs <;> simp at hs; exact hs)
      | (cases r with
         | nil => simp [absBelow] at h2; subst h2; simp at hs
         | cons q r' =>
           simp only [absBelow] at h2
           cases q <;> simp [belowFrame] at h2 <;>
             (cases h3 : absBelow r' <;> simp [h3] at h2 <;> subst h2 <;> simp at hs <;> subst hs <;>
               simp [abs, topFrame, h3]))

end Json

/-! ### Pretty encoder ≈ recogniser -/
namespace Pretty
open Refmt.Pretty

def belowFrame : Phase → Option Frame
  | .mapKey => some .mapVal
  | .arr => some .arr
  | _ => none

def absBelow : List Phase → Option (List Frame)
  | [] => some []
  | p :: r => match belowFrame p, absBelow r with
    | some f, some fr => some (f :: fr)
    | _, _ => none

def topFrame : Phase → Phase → Option Frame
  | .mapKey, .mapKey => some .mapKey
  | .mapKey, .mapVal => some .mapVal
  | .arr, .arr => some .arr
  | _, _ => none

def abs (s : St) : Option (List Frame) :=
  match s.stack with
  | [] => if s.current = .any then some [] else none
  | p :: r => match topFrame p s.current, absBelow r with
    | some f, some fr => some (f :: fr)
    | _, _ => none

theorem abs_cons {p c : Phase} {r : List Phase} {stk : List Frame} (h : abs ⟨p :: r, c⟩ = some stk) :
    ∃ f fr, topFrame p c = some f ∧ absBelow r = some fr ∧ stk = f :: fr := by
  simp only [abs] at h
  cases h1 : topFrame p c <;> cases h2 : absBelow r <;> simp [h1, h2] at h
  exact ⟨_, _, rfl, rfl, h.symm⟩

theorem step_flag (s : St) (stk : List Frame) (t : Tok) (h : abs s = some stk) :
    (step s t).ret.flag = recFlag (recStep .pretty stk t.body) := by
  obtain ⟨stack, current⟩ := s
  obtain ⟨body, tag⟩ := t
  cases stack with
  | nil =>
    cases current <;> simp [abs] at h
    subst h
    cases body <;> simp [step, stepAny, valOk, recStep, recValue, recFlag, Ret.flag]
  | cons p r =>
    obtain ⟨f, fr, h1, h2, rfl⟩ := abs_cons h
    cases p <;> cases current <;> simp [topFrame] at h1 <;> subst h1 <;>
      cases body <;>
        simp [step, stepMapKey, stepMapVal, stepArr, valOk, pop, popRet,
          recStep, recValue, recKey, keyOk, recFlag, Ret.flag]
    all_goals
      (cases r with
       | nil => simp [absBelow] at h2; subst h2; simp [recFlag, Ret.flag]
       | cons q r' =>
         simp only [absBelow] at h2
         cases q <;> simp [belowFrame] at h2 <;>
           (cases h3 : absBelow r' <;> simp [h3] at h2 <;> subst h2 <;> simp [recFlag, Ret.flag]))

theorem step_state (s : St) (stk stk' : List Frame) (t : Tok) (h : abs s = some stk)
    (hs : recStep .pretty stk t.body = .cont stk') : abs (step s t).st = some stk' := by
  obtain ⟨stack, current⟩ := s
  obtain ⟨body, tag⟩ := t
  cases stack with
  | nil =>
    cases current <;> simp [abs] at h
    subst h
    cases body <;> simp [recStep, recValue, valOk] at hs <;> (try subst hs) <;>
      simp [step, stepAny, push, abs, absBelow, topFrame]
  | cons p r =>
    obtain ⟨f, fr, h1, h2, rfl⟩ := abs_cons h
    cases p <;> cases current <;> simp [topFrame] at h1 <;> subst h1 <;>
      cases body <;> simp [recStep, recValue, recKey, valOk, keyOk] at hs <;> (try subst hs) <;>
        simp [step, stepMapKey, stepMapVal, stepArr, pop, popRet, push, abs, absBelow, h2, topFrame, belowFrame]
    all_goals
      (cases r with
       | nil => simp [absBelow] at h2; subst h2; simp at hs
       | cons q r' =>
         simp only [absBelow] at h2
         cases q <;> simp [belowFrame] at h2 <;>
           (cases h3 : absBelow r' <;> simp [h3] at h2 <;> subst h2 <;> simp at hs <;> subst hs <;>
             simp [abs, topFrame, h3]))

end Pretty

/-! ### The property theorems -/

/-- CBOR encoder: on every token list, the answers equal the recogniser's. -/
theorem cbor_accepts_exactly (ts : List Tok) :
    runFlags CborEnc.step CborEnc.init ts = recFlags .cbor [] ts :=
  lift CborEnc.step Cbor.abs .cbor Cbor.step_flag Cbor.step_state ts CborEnc.init [] rfl

/-- JSON encoder, for every pretty-printing option and float formatter. -/
theorem json_accepts_exactly (c : JsonEnc.Cfg) (ff : Nat → Bytes) (ts : List Tok) :
    runFlags (JsonEnc.step c ff) JsonEnc.init ts = recFlags .json [] ts :=
  lift (JsonEnc.step c ff) Json.abs .json (Json.step_flag c ff) (Json.step_state c ff) ts JsonEnc.init [] rfl

/-- Pretty-printer. -/
theorem pretty_accepts_exactly (ts : List Tok) :
    runFlags Refmt.Pretty.step Refmt.Pretty.init ts = recFlags .pretty [] ts :=
  lift Refmt.Pretty.step Pretty.abs .pretty Pretty.step_flag Pretty.step_state ts Refmt.Pretty.init [] rfl

/-- No encoder ever panics, on any token list. -/
theorem enc_no_panic (c : JsonEnc.Cfg) (ff : Nat → Bytes) (ts : List Tok) :
    Flag.panic ∉ runFlags CborEnc.step CborEnc.init ts ∧
    Flag.panic ∉ runFlags (JsonEnc.step c ff) JsonEnc.init ts ∧
    Flag.panic ∉ runFlags Refmt.Pretty.step Refmt.Pretty.init ts := by
  rw [cbor_accepts_exactly, json_accepts_exactly, pretty_accepts_exactly]
  exact ⟨recFlags_no_panic _ _ _, recFlags_no_panic _ _ _, recFlags_no_panic _ _ _⟩

/-- Reusing an encoder after `Reset` is the same as using a fresh one (C17, codec part). -/
theorem reset_is_init (s1 : CborEnc.St) (s2 : JsonEnc.St) (s3 : Refmt.Pretty.St) :
    CborEnc.reset s1 = CborEnc.init ∧ JsonEnc.reset s2 = JsonEnc.init ∧ Refmt.Pretty.reset s3 = Refmt.Pretty.init :=
  ⟨rfl, rfl, rfl⟩

-- non-vacuity: a concrete nested sequence is accepted with `done` exactly on its last token
example : runFlags CborEnc.step CborEnc.init
    [⟨.mapOpen 1, some 5⟩, ⟨.str [107], none⟩, ⟨.arrOpen (-1), none⟩, ⟨.uint 1, none⟩, ⟨.arrClose, none⟩, ⟨.mapClose, none⟩]
    = [.cont, .cont, .cont, .cont, .cont, .done] := by decide
example : runFlags (JsonEnc.step ⟨none, []⟩ (fun _ => [48])) JsonEnc.init [⟨.mapOpen 1, none⟩, ⟨.int 1, none⟩]
    = [.cont, .err] := by decide

end Refmt.C14
