/-
  C17, object layer and codec structs: what a reused machine reads was written for THIS use.

  Two obligations, both regenerated from /repo's working tree on every run (tools/extract -> Gen/Machines.lean):

  1. the slab discipline (Model/Slab.lean) is the code's: the source text of grow / release / Bind is the text the
     model was written from; in the model a requisitioned row is the zero row after ANY history, and Bind forgets
     every history;
  2. in the table of every field of every struct with a Reset method - is it assigned by Reset at top level, under a
     condition, or not at all; is it assigned at every yield site - every field is written for every use (Reset at
     top level, or every yield site) or is one of the AUDITED carried fields below, each listed with the reason why
     reading it is still independent of the instance's past.  A new field nobody resets, a reset that was dropped
     or moved under a condition, a slab that recycles rows, a Bind that keeps its stack: each breaks an obligation
     here, and the reuse histories of the correspondence check (stream hist) then look for a failing history.
     (A new field that IS reset, a reset added to a carried field, renamed locals: no obligation breaks.)
-/
import RefmtModel.Model.Slab
import RefmtModel.Gen.Machines
namespace Refmt.C17Machines
open Refmt Refmt.Slab

variable {Row : Type}

/-- a requisitioned row is the zero row, whatever the slab held and whatever was done to it before -/
theorem requisition_zero (zero : Row) (s : S Row) : tip? (grow zero s) = some zero := by
  simp [tip?, grow]

/-- grow / release are balanced: a machine that releases what it requisitioned leaves the slab as it found it -/
theorem release_grow (zero : Row) (s : S Row) : release (grow zero s) = s := by
  cases s; simp [release, grow]

/-- Bind forgets: after Bind the slab does not depend on anything that happened before -/
theorem bind_forgets (s₁ s₂ : S Row) : bind s₁ = bind s₂ := rfl

/-- every reachable state: whatever two instances did before (any operations, complete or abandoned runs), after Bind
    the first requisition gives both the same slab, with a zero tip -/
theorem first_machine_independent_of_history (zero : Row) (s₁ s₂ : S Row) (h₁ h₂ : List (Op Row)) :
    grow zero (bind (run zero s₁ h₁)) = grow zero (bind (run zero s₂ h₂)) ∧
    tip? (grow zero (bind (run zero s₁ h₁))) = some zero := by
  exact ⟨rfl, requisition_zero zero _⟩

/-- within one run: every row handed out by `grow` is zero, after any operations of this run as well -/
theorem every_requisition_zero (zero : Row) (s : S Row) (ops : List (Op Row)) :
    tip? (grow zero (run zero s ops)) = some zero := requisition_zero zero _

/-- rows below the tip are not touched by anything a machine does to the tip (a child cannot disturb its parents) -/
theorem writeTip_keeps_parents (f : Row → Row) (zero : Row) (s : S Row) :
    (writeTip f (grow zero s)).rows.dropLast = s.rows := by
  cases s; simp [writeTip, grow]

/-- non-vacuity: a dirty slab, an abandoned run on it, Bind, requisition -/
example : tip? (grow (0 : Nat) (bind (run 0 ⟨[7, 8, 9]⟩ [.grow, .write (· + 5), .grow, .write (· + 1)]))) = some 0 := by decide

/-! ### the code's discipline is the model's -/

/-- source text of grow / release / Bind, as the model above reads them -/
def auditedDiscipline : List String := [
  "marshalSlab.grow: { s.rows = append(s.rows, marshalSlabRow{}) }",
  "marshalSlab.release: { s.rows = s.rows[0 : len(s.rows)-1] }",
  "unmarshalSlab.grow: { s.rows = append(s.rows, unmarshalSlabRow{}) }",
  "unmarshalSlab.release: { s.rows = s.rows[0 : len(s.rows)-1] }",
  "Marshaller.Bind: d.stack = d.stack[0:0]; d.marshalSlab.rows = d.marshalSlab.rows[0:0]",
  "Unmarshaller.Bind: d.stack = d.stack[0:0]; d.unmarshalSlab.rows = d.unmarshalSlab.rows[0:0]"
]

theorem slab_discipline_as_modelled : Gen.slabDiscipline = auditedDiscipline := by decide

/-! ### the audited field table -/

/-- Fields that neither `Reset` (at top level) nor every yield site assigns, each with the reason why a reused
    instance still behaves like a fresh one.  Everything else in the table is assigned by Reset at top level (`R`) or
    at every yield site (`Y`). -/
def carried : List (String × String) := [
  -- codec structs: set once by the constructor, never changed (configuration, the reader / writer, scratch space whose
  -- content is written before it is read)
  ("cbor.Decoder.cfg", "constructor configuration"),
  ("cbor.Decoder.r", "the reader: the stream position is what a long-lived decoder is for"),
  ("cbor.Encoder.spareBytes", "scratch: written before read in every emit"),
  ("cbor.Encoder.w", "the writer (its sticky error is cleared by Reset through the quickWriter's clearError)"),
  ("json.Decoder.r", "the reader"),
  ("json.Encoder.cfg", "constructor configuration"),
  ("json.Encoder.scratch", "scratch: written before read"),
  ("pretty.Encoder.scratch", "scratch: written before read"),
  ("pretty.Encoder.wr", "the writer"),
  -- object layer
  ("obj.marshalMachineMapWildcard.keyStringer", "assigned in every branch of Reset's switch on the key kind that does not return an error"),
  ("obj.marshalMachineMapWildcard.value", "false in a zero row and false again after every completed entry; a run abandoned between a key and its value leaves it set in a row that Bind drops and grow never hands out again (requisition_zero)"),
  ("obj.unmarshalMachineStructAtlas.expectLen", "written by Step on the map-open token before it is read"),
  ("obj.unmarshalMachineStructAtlas.fieldEntry", "written by Step when it consumes a key, read only for the value that follows"),
  ("obj.unmarshalMachineUnionKeyed.delegate", "written by Step when it consumes the member name, read only after that"),
  ("obj.unmarshalMachineUnionKeyed.tmp_rv", "written by Step when it consumes the member name (a fresh value per member), read only after that")
]

/-- is the field written for every use: by Reset at top level, or at every yield site -/
def writtenPerUse (e : String × String × String) : Bool := e.2.1 == "R" || e.2.2 == "Y"

def accounted (tbl : List (String × String × String)) : Bool :=
  tbl.all fun e => writtenPerUse e || (carried.map (·.1)).contains e.1

theorem accounted_table : accounted Gen.machineFields = true := by decide +kernel

/-- every field of every reusable struct in the CODE (the regenerated table) is written for every use or is one of the
    audited carried fields -/
theorem every_field_accounted : ∀ e ∈ Gen.machineFields, writtenPerUse e = true ∨ e.1 ∈ carried.map (·.1) := by
  intro e he
  have h := accounted_table
  unfold accounted at h
  rw [List.all_eq_true] at h
  have := h e he
  simp only [Bool.or_eq_true, List.contains_iff_mem] at this
  exact this

end Refmt.C17Machines
