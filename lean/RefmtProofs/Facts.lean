/-
  Fact obligations: the constants and the shared-write set regenerated from /repo's working
  tree by tools/extract (RefmtModel/Gen/*.lean, rewritten on every run) must agree with the
  literals the hand-written model uses.  A change of one of these in the Go source makes the
  corresponding `decide` fail, i.e. breaks a proof obligation of the properties that import it.
-/
import RefmtModel
import RefmtModel.Gen.Consts
import RefmtModel.Gen.SharedWrites
namespace Refmt.Facts
open Refmt

/-- CBOR major types and sigils used by the encoder / decoder models and by the RFC 7049 spec -/
theorem cbor_constants :
    Gen.cborMajorUint = some CborEnc.majUint ∧ Gen.cborMajorNegInt = some CborEnc.majNeg ∧
    Gen.cborMajorBytes = some CborEnc.majBytes ∧ Gen.cborMajorString = some CborEnc.majStr ∧
    Gen.cborMajorArray = some CborEnc.majArr ∧ Gen.cborMajorMap = some CborEnc.majMap ∧
    Gen.cborMajorTag = some CborEnc.majTag ∧ Gen.cborMajorSimple = some 0xe0 ∧
    Gen.cborSigilFalse = some CborEnc.sigFalse ∧ Gen.cborSigilTrue = some CborEnc.sigTrue ∧
    Gen.cborSigilNil = some CborEnc.sigNil ∧ Gen.cborSigilUndefined = some CborEnc.sigUndef ∧
    Gen.cborSigilFloat16 = some CborEnc.sigF16 ∧ Gen.cborSigilFloat32 = some CborEnc.sigF32 ∧
    Gen.cborSigilFloat64 = some CborEnc.sigF64 ∧ Gen.cborSigilIndefiniteBytes = some CborEnc.sigIndefBytes ∧
    Gen.cborSigilIndefiniteString = some CborEnc.sigIndefStr ∧ Gen.cborSigilIndefiniteArray = some CborEnc.sigIndefArr ∧
    Gen.cborSigilIndefiniteMap = some CborEnc.sigIndefMap ∧ Gen.cborSigilBreak = some CborEnc.sigBreak := by
  decide

/-- the head-size thresholds of `emitMajorPlusLen` are the ones `CborEnc.emitHead` (and RFC 7049) use -/
theorem head_thresholds : Gen.headThresholds = [0x17, 0xff, 0xffff, 0xffffffff] := by decide

/-- the 32 MiB per-item cap at its three sites, each checked (with a return) before the read / allocation it guards -/
theorem caps_checked_before_allocation :
    Gen.capDecodeBytes = [some (CborDec.cap32M, true)] ∧ Gen.capDecodeString = [some (CborDec.cap32M, true)] ∧
    Gen.capDecodeChunks = [some (CborDec.cap32M, true)] := by decide

/-- the JSON float format cut-offs (`abs < 1e-6 || abs >= 2^63` selects the exponent form) -/
theorem json_float_cutoffs : Gen.jsonFloatLowCutoff = some "1e-06" ∧ Gen.jsonFloatHighCutoff = some 9223372036854775808 := by decide

/-- token type codes (protocol glue) -/
theorem token_codes :
    Gen.TMapOpen = some 123 ∧ Gen.TMapClose = some 125 ∧ Gen.TArrOpen = some 91 ∧ Gen.TArrClose = some 93 ∧ Gen.TNull = some 48 ∧
    Gen.TString = some 115 ∧ Gen.TBytes = some 120 ∧ Gen.TBool = some 98 ∧ Gen.TInt = some 105 ∧ Gen.TUint = some 117 ∧
    Gen.TFloat64 = some 102 := by decide

theorem key_sort_modes : Gen.keySortModes = ["default", "strings", "rfc7049"] := by decide

/-- C18: outside `init` functions nothing stores to package-level state of refmt, and outside the builder
    functions nothing stores to an Atlas / AtlasEntry / StructMap / StructMapEntry / MapMorphism / UnionKeyedMorphism -/
theorem no_shared_writes : Gen.sharedWrites = [] := by decide

end Refmt.Facts
