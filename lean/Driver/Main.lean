import RefmtModel
import Driver.Proto
import Driver.ObjProto
open Refmt Refmt.Proto Refmt.Obj

/-- Run an encoder step function over tokens, stopping at the first done / error / panic.
    Returns (flags, writes).  Flags: '.' continue, 'D' done, 'E' error, 'P' panic. -/
def runEncAux {σ : Type} (step : σ → Tok → EncOut σ) (keep : Bool) :
    σ → List Tok → List Char → List (List Bytes) → List Char × List (List Bytes)
  | _, [], fl, ws => (fl, ws)
  | s, t :: ts, fl, ws =>
    let o := step s t
    let ws' := if keep then o.writes :: ws else ws
    match o.ret with
    | .ck false | .plain false => runEncAux step keep o.st ts ('.' :: fl) ws'
    | .ck true | .plain true => ('D' :: fl, ws')
    | .bad => ('E' :: fl, ws')
    | .panic => ('P' :: fl, ws')

def runEnc {σ : Type} (step : σ → Tok → EncOut σ) (s : σ) (ts : List Tok) (keep : Bool := true) :
    String × List Bytes :=
  let (fl, ws) := runEncAux step keep s ts [] []
  (String.ofList fl.reverse, ws.reverse.flatten)

def runRecAux (fmt : Fmt) : List Frame → List Tok → List Char → List Char
  | _, [], fl => fl
  | stk, t :: ts, fl =>
    match recStep fmt stk t.body with
    | .cont stk' => runRecAux fmt stk' ts ('.' :: fl)
    | .done => 'D' :: fl
    | .reject => 'E' :: fl

def runRec (fmt : Fmt) (ts : List Tok) : String := String.ofList (runRecAux fmt [] ts []).reverse

def flagChar : Flag → Char
  | .cont => '.' | .done => 'D' | .err => 'E' | .panic => 'P'
def showFlags (fs : List Flag) : String := String.ofList (fs.map flagChar)

def parseFmt : String → Option Fmt
  | "cbor" => some .cbor | "json" => some .json | "pretty" => some .pretty | _ => none

def noFloat : Nat → Bytes := fun _ => [63]

def errClass : Err → String
  | .eof => "eof" | .unexpectedEof => "ueof" | .injected => "inj" | _ => "rej"

def showDec (o : CborDec.RunOut) : String :=
  showToks o.toks ++ "/" ++ toString o.rd.data.length ++ "/" ++
    (match o.res with | .ok _ => "ok" | .error e => errClass e)

/-- canonical form a CBOR round trip returns: non-negative signed integers come back unsigned -/
def canonTok (t : Tok) : Tok :=
  match t.body with
  | .int i => if i ≥ 0 then { t with body := .uint i.toNat } else t
  | .arrOpen l => if l < 0 then { t with body := .arrOpen (-1) } else t
  | .mapOpen l => if l < 0 then { t with body := .mapOpen (-1) } else t
  | _ => t

def tagsOk (ts : List Tok) : Bool := ts.all fun t => match t.tag with | some n => n ≥ 0 | none => true

def parseSchedule (s : String) : Option (List Nat) :=
  if s == "-" then some [] else (s.splitOn ".").mapM parseNat

def showErr (e : Err) : String := "e" ++ errClass e

/-- run raw reader operations on the scheduled-reader model and on the abstract cursor -/
def runRdOps : List String → Sched.Sc → Rd → Option Nat → List String → List String → List String × List String
  | [], _, _, _, am, as => (am.reverse, as.reverse)
  | op :: ops, z, rd, last, am, as =>
    match op.toList with
    | ['r'] =>
      let (rm, z') := z.readn1
      let (rs, rd') := rd.read1
      let sm := match rm with | .ok b => hexOf [b] | .error e => showErr e
      let (ss, rd2, last') := match rs with
        | .ok (b, r2) => (hexOf [b], r2, some b)
        | .error e => (showErr e, rd', none)
      runRdOps ops z' rd2 last' (sm :: am) (ss :: as)
    | ['u'] =>
      let (sm, z') := match z.unreadByte with | some z2 => ("u", z2) | none => ("P", z)
      let (ss, rd') := match last with | some b => ("u", rd.unread1 b) | none => ("P", rd)
      runRdOps ops z' rd' none (sm :: am) (ss :: as)
    | c :: ks =>
      if c == 'n' || c == 'z' then
        match parseNatChars ks with
        | some k =>
          let (rm, z') := z.readN k
          let (rs, rd') := rd.readN k
          let sm := match rm with | .ok bs => hexOrDash bs | .error e => showErr e
          let ss := match rs with | .ok bs => hexOrDash bs | .error e => showErr e
          runRdOps ops z' rd' none (sm :: am) (ss :: as)
        | none => (["bad"], ["bad"])
      else (["bad"], ["bad"])
    | _ => (["bad"], ["bad"])

def handle (parts : List String) : String :=
  match parts with
  | ["acc", "jsoni", toks] =>
    -- the JSON encoder with Line and Indent options set (same acceptance, different writes)
    match parseToks toks with
    | some ts =>
      "M=" ++ showFlags (runFlags (JsonEnc.step ⟨some [10], [32, 32]⟩ noFloat) JsonEnc.init ts) ++ " S=" ++ showFlags (recFlags .json [] ts)
    | none => "bad-op"
  | ["acc", f, toks] =>
    match parseFmt f, parseToks toks with
    | some fmt, some ts =>
      -- the very functions the C14 theorems are stated about
      let m := match fmt with
        | .cbor => runFlags CborEnc.step CborEnc.init ts
        | .json => runFlags (JsonEnc.step ⟨none, []⟩ noFloat) JsonEnc.init ts
        | .pretty => runFlags Pretty.step Pretty.init ts
      "M=" ++ showFlags m ++ " S=" ++ showFlags (recFlags fmt [] ts)
    | _, _ => "bad-op"
  | ["cborenc", toks] =>
    match parseToks toks with
    | some ts =>
      let (fl, ws) := runEnc CborEnc.step CborEnc.init ts
      let bytes := ws.flatten
      let rt := if fl.endsWith "D" then showDec (CborDec.decode false (Rd.ofBytes bytes)) else "-"
      let spec := match TV.ofToks ts with
        | some v =>
          if v.lengthsOk && tagsOk ts && recFlags .cbor [] ts == (List.replicate (ts.length - 1) Flag.cont ++ [Flag.done]) then
            " S=" ++ hexOrDash (Spec.Cbor.enc v) ++ " SR=" ++ showToks (ts.map canonTok) ++ "/0/ok"
          else ""
        | none => ""
      "M=" ++ fl ++ " W=" ++ showWrites ws ++ " R=" ++ rt ++ spec
    | none => "bad-op"
  | ["cbordec", co, hx] =>
    match parseHex hx with
    | some bs =>
      let coerce := co == "1"
      let o := CborDec.decode coerce (Rd.ofBytes bs)
      let spec := match Spec.Cbor.parse coerce bs with
        | some (v, rest) => showToks v.flatten ++ "/" ++ toString rest.length ++ "/ok"
        | none => "E"
      "M=" ++ showDec o ++ " n=" ++ toString o.steps ++ " a=" ++ toString o.alloc ++ " S=" ++ spec
    | none => "bad-op"
  | ["wfault", f, ln, ind, toks, ks, md] =>
    match parseToks toks, parseNat ks, parseHex ind with
    | some ts, some k, some indent =>
      let mode : WMode := match md.toList.head? with | some 'e' => .err | some 's' => .short | _ => .both
      let flt : WFault := ⟨k, mode, md.endsWith "1"⟩
      let line : Option Bytes := if ln == "nil" then none else parseHex ln
      let r := if f == "cbor" || f == "cborw" then runFaulty CborEnc.step (some flt) CborEnc.init {} ts
               else runFaulty (JsonEnc.step ⟨line, indent⟩ FloatText.jsonFloat) (some flt) JsonEnc.init {} ts
      "M=" ++ showFlags r.1 ++ " c=" ++ toString r.2
    | _, _, _ => "bad-op"
  | ["rfault", f, hx, ks, st] =>
    match parseHex hx, parseNat ks with
    | some bs, some k =>
      let rd : Rd := ⟨bs, some (k, st == "1"), 0⟩
      if f == "cbor" then
        let o := CborDec.decode false rd
        "M=" ++ showToks o.toks ++ "/" ++ (match o.res with | .ok _ => "ok" | .error e => errClass e)
      else
        let o := JsonDec.decode rd
        "M=" ++ showToks o.toks ++ "/" ++ (match o.res with | .ok _ => "ok" | .error e => errClass e)
    | _, _ => "bad-op"
  | ["rdops", hx, sch, eof, ops] =>
    match parseHex hx, parseSchedule sch with
    | some bs, some chunks =>
      let z := Sched.Sc.ofSrc ⟨bs, chunks, eof == "1"⟩
      let (am, as) := runRdOps (ops.splitOn ",") z (Rd.ofBytes bs) none [] []
      "M=" ++ ",".intercalate am ++ " S=" ++ ",".intercalate as
    | _, _ => "bad-op"
  | ["sched", f, hx, _sch, _eof] =>
    match parseHex hx with
    | some bs =>
      -- schedule independence: the model's answer does not look at the schedule at all
      if f == "cbor" then
        let o := CborDec.decode false (Rd.ofBytes bs)
        "M=" ++ showToks o.toks ++ "/" ++ (match o.res with | .ok _ => "ok" | .error e => errClass e)
      else
        let o := JsonDec.decode (Rd.ofBytes bs)
        "M=" ++ showToks o.toks ++ "/" ++ (match o.res with | .ok _ => "ok" | .error e => errClass e)
    | none => "bad-op"
  | ["jsondec", hx] =>
    match parseHex hx with
    | some bs =>
      let o := JsonDec.decode (Rd.ofBytes bs)
      let spec := match Spec.Json.parse bs with
        | some (v, rest) => showToks v.flatten ++ "/" ++ toString rest.length ++ "/ok"
        | none => "E"
      "M=" ++ showToks o.toks ++ "/" ++ toString o.rd.sourceLeft ++ "/" ++
        (match o.res with | .ok _ => "ok" | .error e => errClass e) ++
        " n=" ++ toString o.steps ++ " pb=" ++ toString o.rd.pb ++ " S=" ++ spec
    | none => "bad-op"
  | ["jsonenc", ln, ind, toks] =>
    match parseToks toks, parseHex ind with
    | some ts, some indent =>
      let line : Option Bytes := if ln == "nil" then none else parseHex ln
      let cfg : JsonEnc.Cfg := ⟨line, indent⟩
      let (fl, ws) := runEnc (JsonEnc.step cfg FloatText.jsonFloat) JsonEnc.init ts
      let bytes := ws.flatten
      let rt := if fl.endsWith "D" then
          let o := JsonDec.decode (Rd.ofBytes bytes)
          showToks o.toks ++ "/" ++ toString o.rd.sourceLeft ++ "/" ++ (match o.res with | .ok _ => "ok" | .error e => errClass e)
        else "-"
      let wf := recFlags .json [] ts == (List.replicate (ts.length - 1) Flag.cont ++ [Flag.done])
      let spec := if wf then
          " SR=" ++ showToks (ts.map Spec.Json.retypeTok) ++ "/0/ok" ++
          " SC=" ++ hexOrDash (runEnc (JsonEnc.step ⟨none, []⟩ FloatText.jsonFloat) JsonEnc.init ts).2.flatten
        else ""
      "M=" ++ fl ++ " W=" ++ showWrites ws ++ " R=" ++ rt ++ spec
    | _, _ => "bad-op"
  | _ => "bad-op"

structure DState where
  types : Obj.Types := []
  atlases : List (Nat × Obj.Atlas) := []
  it : Obj.IfaceTys := default

def showURes (total : Nat) : URes → String × Option Val
  | .ok v _ used => (String.ofList (List.replicate (used - 1) '.') ++ "D", some v)
  | .more used => (String.ofList (List.replicate (min used total) '.'), none)
  | .err used => (String.ofList (List.replicate used '.') ++ "E", none)
  | .panic used => (String.ofList (List.replicate used '.') ++ "P", none)

/-- the STATEFUL model of obj.Unmarshaller (slab rows, machine stack, one token per Step), started from an instance that
    was abandoned after the first tokens of the same input.  Where machines clash in one slab row (a transform that receives
    a type needing a transform itself, a union whose member is a union) the stateful model gets stuck; the library refuses. -/
def pumpU (ts : Obj.Types) (a : Obj.Atlas) (it : Obj.IfaceTys) : UM.UState → List Tok → URes
  | _, [] => .more 0
  | s, t :: rest =>
    match UM.ustep ts a trLib it 100000 s t with
    | .error .stuck => .err 0
    | .error (.f .err) => .err 0
    | .error (.f .panic) => .panic 0
    | .ok res =>
      match res.done with
      | some v => .ok v rest 1
      | none => (pumpU ts a it res.st rest).shift 1

def abandonU (ts : Obj.Types) (a : Obj.Atlas) (it : Obj.IfaceTys) : Nat → UM.UState → List Tok → UM.UState
  | 0, s, _ => s
  | _, s, [] => s
  | k+1, s, t :: rest =>
    match UM.ustep ts a trLib it 100000 s t with
    | .error _ => s
    | .ok res => (match res.done with | some _ => res.st | none => abandonU ts a it k res.st rest)

/-- `none` = Bind itself fails -/
def runUMach (ts : Obj.Types) (a : Obj.Atlas) (it : Obj.IfaceTys) (id : Nat) (toks : List Tok) : Option URes :=
  let z := zeroVal ts 64 id
  let dirty := abandonU ts a it 3 (UM.bind ts a 100000 UM.UState.fresh id z) toks
  let s := UM.bind ts a 100000 dirty id z
  match s.bindErr with
  | some _ => none
  | none => some (pumpU ts a it s toks)

/-- does `Bind` (machine selection + Reset of the root machine) fail? -/
def bindFails (ts : Obj.Types) (a : Obj.Atlas) (id : Nat) : Bool :=
  let (n, base) := peel ts 64 0 id
  -- refused whatever the pointer depth: a transform that receives a pointer type, or a type that needs a transform itself
  let trRefused : Bool :=
    match upickBare ts a base with
    | .transform _ uty =>
      (match ts.get uty with
       | .ptr _ => true
       | _ => (match upickBare ts a uty with | .transform _ _ => true | _ => false))
    | _ => false
  if trRefused && n == 0 then true else
  if n > 0 then false else
  let mapBad (kt : Nat) : Bool :=
    match ts.get kt with
    | .prim .string _ => false
    | _ => (match a.get kt with
            | some ⟨_, _, _, .transform _ _ uty⟩ => (match ts.get uty with | .prim .string _ => false | _ => true)
            | _ => true)
  match upickBare ts a base with
  | .errThunk => true
  | .map kt _ => mapBad kt
  | .transform _ uty => (match upickBare ts a uty with | .errThunk => true | .map kt _ => mapBad kt | _ => false)
  | _ => false

/-- a transform the unmarshaller refuses, behind at least one pointer level: the pointer machine still takes a null;
    anything else meets the refusing machine -/
def ptrTrRefused (ts : Obj.Types) (a : Obj.Atlas) (id : Nat) : Bool :=
  let (n, base) := peel ts 64 0 id
  n > 0 && (match upickBare ts a base with
    | .transform _ uty =>
      (match ts.get uty with
       | .ptr _ => true
       | _ => (match upickBare ts a uty with | .transform _ _ => true | _ => false))
    | _ => false)

/-- a pointer to a type whose marshal transform yields a pointer type: refused when the machine is configured, whatever the value -/
def ptrTrRefusedM (ts : Obj.Types) (a : Obj.Atlas) (id : Nat) : Bool :=
  let (n, base) := peel ts 64 0 id
  n > 0 && (match pickBare ts a base with
    | .transform _ _ mty => (match ts.get mty with | .ptr _ => true | _ => false)
    | _ => false)

/-- pump the stateful marshaller `k` times and leave it there (an abandoned run) -/
def pumpN (ts : Obj.Types) (a : Obj.Atlas) : Nat → MM.MState → MM.MState
  | 0, s => s
  | k+1, s =>
    match MM.mstep ts a trLib 100000 s with
    | .error _ => s
    | .ok res => if res.done then res.st else pumpN ts a k res.st

/-- the STATEFUL model of obj.Marshaller (slab rows, machine stack, one token per Step), started from an instance that
    abandoned a run of the same value after three tokens.  Where machines clash in one slab row (a transform whose serial
    type needs a transform or a pointer machine in the same row) the stateful model gets stuck; the library refuses. -/
def runMach (ts : Obj.Types) (a : Obj.Atlas) (id : Nat) (v : Obj.Val) : MOut :=
  if ptrTrRefusedM ts a id then ⟨[], some .err⟩ else
  let dirty := pumpN ts a 3 (MM.bind ts a trLib 100000 MM.MState.fresh id v)
  let s := MM.bind ts a trLib 100000 dirty id v
  let conv : MM.XFail → Fail := fun x => match x with | .stuck => .err | .f y => y
  match s.bindErr with
  | some x => ⟨[], some (conv x)⟩
  | none =>
    let r := MM.runX ts a trLib 100000 100000 s
    ⟨r.1, r.2.map conv⟩

def showMOut (o : MOut) : String :=
  showToks o.toks ++ "/" ++ (match o.fail with | none => "ok" | some .err => "err" | some .panic => "panic")

/-- encode a token list with the format's encoder model; `none` unless accepted with done on the last token -/
def encodeToks (f : String) (line : Option Bytes) (indent : Bytes) (toks : List Tok) : Option Bytes :=
  let (fl, ws) := if f == "cbor" then runOut CborEnc.step CborEnc.init toks
                  else runOut (JsonEnc.step ⟨line, indent⟩ FloatText.jsonFloat) JsonEnc.init toks
  if fl.getLast? == some Flag.done && fl.length == toks.length then some ws.flatten else none

def decodeBytes (f : String) (bs : Bytes) : Option (List Tok) :=
  if f == "cbor" then
    let o := CborDec.decode false (Rd.ofBytes bs); if o.res.isOk then some o.toks else none
  else
    let o := JsonDec.decode (Rd.ofBytes bs); if o.res.isOk then some o.toks else none

/-- Marshal: value → bytes (model composition) -/
def mMarshal (st : DState) (a : Obj.Atlas) (f : String) (ti : Nat) (v : Val) : Option Bytes :=
  let mo := marshalV st.types a trLib 100000 ti v
  match mo.fail with
  | some _ => none
  | none => encodeToks f none [] mo.toks

/-- Unmarshal: bytes → value of type `ti` -/
def mUnmarshal (st : DState) (a : Obj.Atlas) (f : String) (ti : Nat) (bs : Bytes) : Option Val :=
  match decodeBytes f bs with
  | none => none
  | some toks =>
    if bindFails st.types a ti then none else
    match unmV st.types a trLib st.it 100000 ti (zeroVal st.types 64 ti) toks with
    | .ok rv [] _ => some rv
    | _ => none

/-- `unmarshalm` / `unmarshalr`: the input through the stateful model of the unmarshaller.  With `refusalOnly` only THAT the
    input is refused is compared (the code refuses a union whose member is a union at the member's key; the stateful model,
    like the code before the repair, only trips at the token after it). -/
def doUnmarshalM (st : DState) (refusalOnly : Bool) (aid tid toks : String) : Option (DState × String) :=
  match parseNat aid, parseNat tid, parseToks toks with
  | some ai, some ti, some tks =>
    match st.atlases.lookup ai with
    | some a =>
      (match runUMach st.types a st.it ti tks with
       | none => some (st, "M=b V=-")
       | some r =>
         let (fl, v) := showURes tks.length r
         if refusalOnly && fl.endsWith "E" then some (st, "M=refused V=-") else
         some (st, "M=" ++ fl ++ " V=" ++ (match v with | some x => showVal x | none => "-")))
    | none => some (st, "bad-op")
  | _, _, _ => some (st, "bad-op")

def handleObj (st : DState) (parts : List String) : Option (DState × String) :=
  match parts with
  | ["T", id, d] =>
    match parseNat id, parseTyDesc d with
    | some i, some td => some ({ st with types := st.types ++ [(i, td)] }, "def")
    | _, _ => some (st, "bad-def")
  | ["A", id, srt, body] =>
    match parseNat id, parseAtlas srt body with
    | some i, some a => some ({ st with atlases := st.atlases ++ [(i, a)] }, "def")
    | _, _ => some (st, "bad-def")
  | ["Y", a1, a2, a3, a4, a5, a6, a7, a8, a9] =>
    match [a1, a2, a3, a4, a5, a6, a7, a8, a9].mapM parseNat with
    | some [s, b, bo, i, u, f, m, sl, ifc] => some ({ st with it := ⟨s, b, bo, i, u, f, m, sl, ifc⟩ }, "def")
    | _ => some (st, "bad-def")
  | ["unmarshalm", aid, tid, toks] => doUnmarshalM st false aid tid toks
  | ["unmarshalr", aid, tid, toks] => doUnmarshalM st true aid tid toks
  | ["unmarshal", aid, tid, toks] =>
    match parseNat aid, parseNat tid, parseToks toks with
    | some ai, some ti, some tks =>
      match st.atlases.lookup ai with
      | some a =>
        if bindFails st.types a ti then some (st, "M=b V=-") else
        if ptrTrRefused st.types a ti then
          -- the pointer machine takes a null itself; any other first token meets the machine that refuses
          (match tks with
           | [] => some (st, "M= V=-")
           | ⟨.null, none⟩ :: _ => some (st, "M=D V=n")
           | _ => some (st, "M=E V=-"))
        else
        let r := unmV st.types a trLib st.it 100000 ti (zeroVal st.types 64 ti) tks
        let (fl, v) := showURes tks.length r
        some (st, "M=" ++ fl ++ " V=" ++ (match v with | some x => showVal x | none => "-"))
      | none => some (st, "bad-op")
    | _, _, _ => some (st, "bad-op")
  | ["race", _, _, _, _] =>
    -- non-interference (C18): every worker's results are its sequential results; the model has no shared mutable state
    some (st, "M=ok")
  | ["untrusted", f, aid, tid, hx] =>
    match parseNat aid, parseNat tid, parseHex hx with
    | some ai, some ti, some bs =>
      match st.atlases.lookup ai with
      | some a =>
        if bindFails st.types a ti then some (st, "M=err n=0 am=0") else
        -- lock-step: the unmarshaller may stop the pump before the decoder is finished
        let (toks, dok, steps, am) := if f == "cbor" then
            let o := CborDec.decode false (Rd.ofBytes bs); (o.toks, o.res.isOk, o.steps, o.alloc)
          else
            let o := JsonDec.decode (Rd.ofBytes bs); (o.toks, o.res.isOk, o.steps, 0)
        let r := unmV st.types a trLib st.it 100000 ti (zeroVal st.types 64 ti) toks
        let (cls, n) := match r with
          | .ok _ _ used => (if dok && used == toks.length then "ok" else if used < toks.length then "err" else "err", if used < toks.length then used + 1 else steps)
          | .err used => ("err", used + 1)
          | .panic used => ("panic", used + 1)
          | .more _ => ("err", steps)
        some (st, "M=" ++ cls ++ " n=" ++ toString n ++ " am=" ++ toString am)
      | none => some (st, "bad-op")
    | _, _, _ => some (st, "bad-op")
  | ["hist", f, script] =>
    -- the model has no per-instance state at all: every call is evaluated on its own
    let fmt : Fmt := if f == "cbor" then .cbor else .json
    let outs := (script.splitOn ";").map fun (op : String) =>
      match op.splitOn "|" with
      | [k, aid, tid, arg, extra] =>
        if k == "M" then "err"     -- a marshal call whose writer fails at a Write call the document needs (C16: reported)
        else
          -- X: clone a value of type `tid` into a variable of another type `extra`
          (match parseNat aid, parseNat tid, parseNat extra with
           | some ai, some ti, some tj =>
             (match st.atlases.lookup ai with
              | some a =>
                (match parseValue st.types ti arg with
                 | some v =>
                   let mo := marshalV st.types a trLib 100000 ti v
                   if mo.fail.isSome || bindFails st.types a ti || bindFails st.types a tj then "err" else
                   (match unmV st.types a trLib st.it 100000 tj (zeroVal st.types 64 tj) mo.toks with
                    | .ok rv [] _ => showVal rv
                    | _ => "err")
                 | none => "bad")
              | none => "bad")
           | _, _, _ => "bad")
      | [k, aid, tid, arg] =>
        (match parseNat aid, parseNat tid with
         | some ai, some ti =>
           (match st.atlases.lookup ai with
            | some a =>
              if k == "M" || k == "H" then
                (match parseValue st.types ti arg with
                 | some v => (match mMarshal st a f ti v with | some b => hexOrDash b | none => "err")
                 | none => "bad")
              else if k == "U" || k == "B" then
                (match parseHex arg with
                 | some bs =>
                   (match (if f == "cbor" then
                             (let o := CborDec.decode false (Rd.ofBytes bs); if o.res.isOk then some o.toks else none)
                           else (let o := JsonDec.decode (Rd.ofBytes bs); if o.res.isOk then some o.toks else none)) with
                    | none => "err"
                    | some toks =>
                      if bindFails st.types a ti then "err" else
                      (match unmV st.types a trLib st.it 100000 ti (zeroVal st.types 64 ti) toks with
                       | .ok rv [] _ => showVal rv
                       | _ => "err"))
                 | none => "bad")
              else
                (match parseValue st.types ti arg with
                 | some v =>
                   let mo := marshalV st.types a trLib 100000 ti v
                   if mo.fail.isSome || bindFails st.types a ti then "err" else
                   (match unmV st.types a trLib st.it 100000 ti (zeroVal st.types 64 ti) mo.toks with
                    | .ok rv [] _ => showVal rv
                    | _ => "err")
                 | none => "bad")
            | none => "bad")
         | _, _ => "bad")
      | _ => "bad"
    let _ := fmt
    some (st, "M=" ++ ";".intercalate outs)
  | ["frame", f0, aid, tid, vals] =>
    -- `json0`: JSON items written back to back with no separator at all (sent as op `frame0`)
    let nosep := f0 == "json0"
    let f := if nosep then "json" else f0
    match parseNat aid, parseNat tid with
    | some ai, some ti =>
      match st.atlases.lookup ai with
      | some a =>
        let vs := (vals.splitOn "|").map (parseValue st.types ti)
        if vs.any Option.isNone then some (st, "bad-op") else
        let items := vs.filterMap id
        let encs := items.map fun v => mMarshal st a f ti v
        if encs.any Option.isNone then some (st, "M=marshal-failed") else
        let sep : Bytes := if f == "json" && !nosep then [10] else []
        let stream := (encs.filterMap id).foldl (fun acc b => acc ++ b ++ sep) []
        -- one reader, read back one item per call; the reader (with its push-back) is carried from call to call
        let rec readAll : Nat → Rd → List String → List String × Rd
          | 0, rd, acc => (acc.reverse, rd)
          | n+1, rd, acc =>
            if f == "cbor" then
              let o := CborDec.run false (2 * rd.data.length + 2) CborDec.init rd [] 0 0
              let r := if o.res.isOk then
                  (match unmV st.types a trLib st.it 100000 ti (zeroVal st.types 64 ti) o.toks with
                   | .ok rv [] _ => showVal rv | _ => "err") else "err"
              readAll n o.rd (r :: acc)
            else
              let o := JsonDec.run (2 * rd.data.length + 2) JsonDec.init rd [] 0
              let r := if o.res.isOk then
                  (match unmV st.types a trLib st.it 100000 ti (zeroVal st.types 64 ti) o.toks with
                   | .ok rv [] _ => showVal rv | _ => "err") else "err"
              readAll n o.rd (r :: acc)
        let (outs, rd) := readAll items.length (Rd.ofBytes stream) []
        let spec := " S=" ++ "|".intercalate (items.map fun v =>
          showVal (normV (if f == "cbor" then .cbor else .json) st.types a trLib st.it 100000 ti v))
        some (st, "M=" ++ "|".intercalate outs ++ "/" ++ toString rd.sourceLeft ++ spec)
      | none => some (st, "bad-op")
    | _, _ => some (st, "bad-op")
  | ["autogen", tid, md] =>
    match parseNat tid, parseSort md with
    | some ti, some mode =>
      let showF := fun (fs : List AField) =>
        if fs.isEmpty then "-" else ";".intercalate (fs.map fun f =>
          hexOf f.name ++ ":" ++ (if f.route.isEmpty then "-" else ".".intercalate (f.route.map toString)) ++ ":" ++
          toString f.ty ++ ":" ++ (if f.omitEmpty then "1" else "0"))
      some (st, "M=" ++ showF (exploreFields st.types uTab ti mode) ++ " S=" ++ showF (promoted st.types uTab ti))
    | _, _ => some (st, "bad-op")
  | ["roundtrip", f, aid, tid, ln, ind, val] =>
    match parseNat aid, parseNat tid, parseHex ind with
    | some ai, some ti, some indent =>
      match st.atlases.lookup ai, parseValue st.types ti val with
      | some a, some v =>
        let fmt : Fmt := if f == "cbor" then .cbor else .json
        let spec := " S=" ++ showVal (normV fmt st.types a trLib st.it 100000 ti v)
        let mo := marshalV st.types a trLib 100000 ti v
        match mo.fail with
        | some _ => some (st, "M=-/-/err" ++ spec)
        | none =>
          let line : Option Bytes := if ln == "nil" then none else parseHex ln
          let (fl, ws) := if f == "cbor" then runOut CborEnc.step CborEnc.init mo.toks
                          else runOut (JsonEnc.step ⟨line, indent⟩ FloatText.jsonFloat) JsonEnc.init mo.toks
          if fl.getLast? != some Flag.done then some (st, "M=-/-/err" ++ spec) else
          let bytes := ws.flatten
          let (dtoks, dok) := if f == "cbor" then
              let o := CborDec.decode false (Rd.ofBytes bytes); (o.toks, o.res.isOk)
            else
              let o := JsonDec.decode (Rd.ofBytes bytes); (o.toks, o.res.isOk)
          if !dok then some (st, "M=" ++ hexOrDash bytes ++ "/-/err" ++ spec) else
          match unmV st.types a trLib st.it 100000 ti (zeroVal st.types 64 ti) dtoks with
          | .ok rv [] _ => some (st, "M=" ++ hexOrDash bytes ++ "/" ++ showVal rv ++ "/ok" ++ spec)
          | _ => some (st, "M=" ++ hexOrDash bytes ++ "/-/err" ++ spec)
      | _, _ => some (st, "bad-op")
    | _, _, _ => some (st, "bad-op")
  | ["unmbytes", f, aid, tid, hx] =>
    match parseNat aid, parseNat tid, parseHex hx with
    | some ai, some ti, some bs =>
      match st.atlases.lookup ai with
      | some a => (match mUnmarshal st a f ti bs with
          | some v => some (st, "M=" ++ showVal v ++ "/ok")
          | none => some (st, "M=-/err"))
      | none => some (st, "bad-op")
    | _, _, _ => some (st, "bad-op")
  | ["remarshal", f, aid, tid, val] =>
    match parseNat aid, parseNat tid with
    | some ai, some ti =>
      match st.atlases.lookup ai, parseValue st.types ti val with
      | some a, some v =>
        let h := fun (b : Option Bytes) => match b with | some x => hexOrDash x | none => "-"
        match mMarshal st a f ti v with
        | none => some (st, "M=-/-/-/-/err1")
        | some b1 =>
          match mUnmarshal st a f st.it.iface b1 with
          | none => some (st, "M=" ++ h b1 ++ "/-/-/-/err2")
          | some u1 =>
            match mMarshal st a f st.it.iface u1 with
            | none => some (st, "M=" ++ h b1 ++ "/-/-/-/err3")
            | some b2 =>
              match mUnmarshal st a f ti b2 with
              | none => some (st, "M=" ++ h b1 ++ "/" ++ h b2 ++ "/-/-/err4")
              | some back =>
                match mUnmarshal st a f st.it.iface b2 with
                | none => some (st, "M=" ++ h b1 ++ "/" ++ h b2 ++ "/-/" ++ showVal back ++ "/err5")
                | some u2 =>
                  match mMarshal st a f st.it.iface u2 with
                  | none => some (st, "M=" ++ h b1 ++ "/" ++ h b2 ++ "/-/" ++ showVal back ++ "/err6")
                  | some b3 =>
                    some (st, "M=" ++ h b1 ++ "/" ++ h b2 ++ "/" ++ h b3 ++ "/" ++ showVal back ++ "/ok" ++
                      " S=" ++ showVal (normV (if f == "cbor" then .cbor else .json) st.types a trLib st.it 100000 ti v))
      | _, _ => some (st, "bad-op")
    | _, _ => some (st, "bad-op")
  | ["clonep", aid, tid, val] =>
    -- the destination already holds a (shallow) copy of the source when Clone is called
    match parseNat aid, parseNat tid with
    | some ai, some ti =>
      match st.atlases.lookup ai, parseValue st.types ti val with
      | some a, some v =>
        let mo := marshalV st.types a trLib 100000 ti v
        match mo.fail with
        | some _ => some (st, "M=-/err")
        | none =>
          if bindFails st.types a ti then some (st, "M=-/err") else
          match unmV st.types a trLib st.it 100000 ti v mo.toks with
          | .ok rv [] _ => some (st, "M=" ++ showVal rv ++ "/ok")
          | _ => some (st, "M=-/err")
      | _, _ => some (st, "bad-op")
    | _, _ => some (st, "bad-op")
  | ["clone", aid, tid, val] =>
    match parseNat aid, parseNat tid with
    | some ai, some ti =>
      match st.atlases.lookup ai, parseValue st.types ti val with
      | some a, some v =>
        let mo := marshalV st.types a trLib 100000 ti v
        match mo.fail with
        | some _ => some (st, "M=-/err")
        | none =>
          if bindFails st.types a ti then some (st, "M=-/err") else
          match unmV st.types a trLib st.it 100000 ti (zeroVal st.types 64 ti) mo.toks with
          | .ok rv [] _ => some (st, "M=" ++ showVal rv ++ "/ok S=" ++ showVal (normV .pretty st.types a trLib st.it 100000 ti v))
          | _ => some (st, "M=-/err")
      | _, _ => some (st, "bad-op")
    | _, _ => some (st, "bad-op")
  | ["clonex", aid, tid, tid2, val] =>
    -- Clone into a variable of another type: marshal by the source type, unmarshal by the destination type
    match parseNat aid, parseNat tid, parseNat tid2 with
    | some ai, some ti, some tj =>
      match st.atlases.lookup ai, parseValue st.types ti val with
      | some a, some v =>
        let mo := marshalV st.types a trLib 100000 ti v
        if mo.fail.isSome || bindFails st.types a ti || bindFails st.types a tj then some (st, "M=-/err") else
        match unmV st.types a trLib st.it 100000 tj (zeroVal st.types 64 tj) mo.toks with
        | .ok rv [] _ => some (st, "M=" ++ showVal rv ++ "/ok")
        | _ => some (st, "M=-/err")
      | _, _ => some (st, "bad-op")
    | _, _, _ => some (st, "bad-op")
  | "pump" :: sf :: kf :: ln :: ind :: hx :: _ =>
    match parseHex hx, parseHex ind with
    | some bs, some indent =>
      let line : Option Bytes := if ln == "nil" then none else parseHex ln
      -- the lock-step pump model (Model/Pump.lean)
      let rd0 := Rd.ofBytes bs
      let fuel := 2 * bs.length + 4
      let jcfg : JsonEnc.Cfg := ⟨line, indent⟩
      let res : Pump.Res :=
        if sf == "cbor" && kf == "json" then
          Pump.run (Pump.cborSrc false) (JsonEnc.step jcfg FloatText.jsonFloat) fuel CborDec.init rd0 JsonEnc.init []
        else if sf == "cbor" then
          Pump.run (Pump.cborSrc false) CborEnc.step fuel CborDec.init rd0 CborEnc.init []
        else if kf == "json" then
          Pump.run Pump.jsonSrc (JsonEnc.step jcfg FloatText.jsonFloat) fuel JsonDec.init rd0 JsonEnc.init []
        else
          Pump.run Pump.jsonSrc CborEnc.step fuel JsonDec.init rd0 CborEnc.init []
      let cls := if res.ok then "ok" else "err"
      let ws := res.out
      let left := res.rd.sourceLeft
      let slow :=
        if cls == "ok" then
          (match st.atlases.lookup 0 with
           | some a0 =>
             (match mUnmarshal st a0 sf st.it.iface bs with
              | some u => (match (let mo := marshalV st.types a0 trLib 100000 st.it.iface u
                                   if mo.fail.isSome then none else encodeToks kf line indent mo.toks) with
                           | some b => hexOrDash b | none => "fail")
              | none => "fail")
           | none => "fail")
        else "-"
      some (st, "M=" ++ hexOrDash ws.flatten ++ "/" ++ toString left ++ "/" ++ cls ++ " W=" ++ slow)
    | _, _ => some (st, "bad-op")
  | ["marshalm", aid, tid, _viaPtr, val] =>
    match parseNat aid, parseNat tid with
    | some ai, some ti =>
      match st.atlases.lookup ai, parseValue st.types ti val with
      | some a, some v =>
        let out := match _viaPtr, st.types.get ti, v with
          | "0", .iface _, .iface none => MOut.ok [⟨.null, none⟩]
          | "0", .iface _, .iface (some (dt, dv)) => runMach st.types a dt dv
          | _, _, _ => runMach st.types a ti v
        some (st, "M=" ++ showMOut out)
      | _, _ => some (st, "bad-op")
    | _, _ => some (st, "bad-op")
  | ["marshal", aid, tid, _viaPtr, val] =>
    match parseNat aid, parseNat tid with
    | some ai, some ti =>
      match st.atlases.lookup ai, parseValue st.types ti val with
      | some a, some v =>
        -- Bind(v interface{}) sees through a root of interface kind (and an untyped nil becomes a nil *int);
        -- via a pointer the declared type is kept.
        let out := match _viaPtr, st.types.get ti, v with
          | "0", .iface _, .iface none => MOut.ok [⟨.null, none⟩]
          | "0", .iface _, .iface (some (dt, dv)) => marshalV st.types a trLib 100000 dt dv
          | _, _, _ => marshalV st.types a trLib 100000 ti v
        some (st, "M=" ++ showMOut out)
      | _, _ => some (st, "bad-op")
    | _, _ => some (st, "bad-op")
  | _ => none

partial def loop (hin : IO.FS.Stream) (hout : IO.FS.Stream) (st : DState) : IO Unit := do
  let line ← hin.getLine
  if line.isEmpty then return ()
  let l := line.trimRight
  match l.splitOn " " with
  | id :: rest0 =>
    -- `clonev` (source passed by value instead of by pointer) is the same function of the value in the model
    let rest := match rest0 with | "clonev" :: r => "clone" :: r | "schedb" :: r => "sched" :: r | "rfaultw" :: r => "rfault" :: r | "schedk" :: r => "sched" :: r | "autogenj" :: r => "autogen" :: r | "frame0" :: f :: r => "frame" :: (f ++ "0") :: r | r => r
    match handleObj st rest with
    | some (st', out) =>
      hout.putStrLn (id ++ " " ++ out)
      loop hin hout st'
    | none =>
      hout.putStrLn (id ++ " " ++ handle rest)
      loop hin hout st
  | [] =>
    hout.putStrLn "bad-op"
    loop hin hout st

def main : IO Unit := do
  let hin ← IO.getStdin
  let hout ← IO.getStdout
  loop hin hout {}
