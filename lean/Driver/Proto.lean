/-
  Line protocol shared with the Go harness: parsing and printing of tokens,
  byte strings and small records.  Not part of the model; trusted as glue and
  exercised on every correspondence line.
-/
import RefmtModel.Tok
namespace Refmt.Proto
open Refmt

def hexVal (c : Char) : Option Nat :=
  if '0' ≤ c ∧ c ≤ '9' then some (c.toNat - 48)
  else if 'a' ≤ c ∧ c ≤ 'f' then some (c.toNat - 87)
  else if 'A' ≤ c ∧ c ≤ 'F' then some (c.toNat - 55)
  else none

partial def parseHexChars : List Char → List Nat → Option Bytes
  | [], acc => some acc.reverse
  | a :: b :: r, acc => do
      let x ← hexVal a
      let y ← hexVal b
      parseHexChars r ((x * 16 + y) :: acc)
  | _, _ => none

def parseHex (s : String) : Option Bytes :=
  if s == "-" then some [] else parseHexChars s.toList []

def hexChar (n : Nat) : Char := Char.ofNat (if n < 10 then 48 + n else 87 + n)

def hexOf (bs : Bytes) : String :=
  String.ofList (bs.foldr (fun b acc => hexChar (b / 16 % 16) :: hexChar (b % 16) :: acc) [])

def hexOrDash (bs : Bytes) : String := if bs.isEmpty then "-" else hexOf bs


def parseNatChars (cs : List Char) : Option Nat :=
  if cs.isEmpty then none else
  cs.foldlM (fun acc c => if '0' ≤ c ∧ c ≤ '9' then some (acc * 10 + (c.toNat - 48)) else none) 0

def parseIntChars : List Char → Option Int
  | '-' :: r => (parseNatChars r).map (fun n => - (n : Int))
  | cs => (parseNatChars cs).map (fun n => (n : Int))

def parseHexNatChars (cs : List Char) : Option Nat :=
  cs.foldlM (fun acc c => do let v ← hexVal c; pure (acc * 16 + v)) 0

def parseBodyChars : List Char → Option Body
  | '{' :: a => (parseIntChars a).map Body.mapOpen
  | ['}'] => some Body.mapClose
  | '[' :: a => (parseIntChars a).map Body.arrOpen
  | [']'] => some Body.arrClose
  | ['0'] => some Body.null
  | 's' :: a => (parseHexChars a []).map Body.str
  | 'x' :: a => (parseHexChars a []).map Body.bytes
  | ['b', '0'] => some (Body.bool false)
  | ['b', '1'] => some (Body.bool true)
  | 'i' :: a => (parseIntChars a).map Body.int
  | 'u' :: a => (parseNatChars a).map Body.uint
  | 'f' :: a => (parseHexNatChars a).map Body.float
  | _ => none

/-- one token: `[tN.]body` -/
def parseTokChars (cs : List Char) : Option Tok :=
  match cs with
  | 't' :: r =>
    let t := r.takeWhile (· != '.')
    let b := (r.dropWhile (· != '.')).drop 1
    do let n ← parseIntChars t
       let body ← parseBodyChars b
       pure ⟨body, some n⟩
  | _ => (parseBodyChars cs).map (fun b => ⟨b, none⟩)

def parseTok (s : String) : Option Tok := parseTokChars s.toList
def parseHexNat (s : String) : Option Nat := parseHexNatChars s.toList
def parseNat (s : String) : Option Nat := parseNatChars s.toList
def parseInt (s : String) : Option Int := parseIntChars s.toList

def parseToks (s : String) : Option (List Tok) :=
  if s == "-" then some [] else (s.splitOn ",").mapM parseTok

def pad16 (s : String) : String := String.ofList (List.replicate (16 - s.length) '0') ++ s

def natHex (n : Nat) : String := String.ofList (Nat.toDigits 16 n)

def showBody : Body → String
  | .mapOpen n => "{" ++ toString n
  | .mapClose => "}"
  | .arrOpen n => "[" ++ toString n
  | .arrClose => "]"
  | .null => "0"
  | .str s => "s" ++ hexOf s
  | .bytes b => "x" ++ hexOf b
  | .bool b => if b then "b1" else "b0"
  | .int i => "i" ++ toString i
  | .uint n => "u" ++ toString n
  | .float f => "f" ++ pad16 (natHex f)

def showTok (t : Tok) : String :=
  match t.tag with
  | none => showBody t.body
  | some n => "t" ++ toString n ++ "." ++ showBody t.body

def showToks (ts : List Tok) : String :=
  if ts.isEmpty then "-" else ",".intercalate (ts.map showTok)

def showWrites (ws : List Bytes) : String :=
  if ws.isEmpty then "-" else "|".intercalate (ws.map hexOf)

end Refmt.Proto
