/- Parsing / printing of type descriptors, atlases and values (shared syntax with harness/zoo.go, vals.go). -/
import RefmtModel.Model.Obj.Ty
import Driver.Proto
namespace Refmt.Proto
open Refmt Refmt.Obj

def parseKind : String → Option Kind
  | "bool" => some .bool | "int" => some .int | "int8" => some .int8 | "int16" => some .int16 | "int32" => some .int32
  | "int64" => some .int64 | "uint" => some .uint | "uint8" => some .uint8 | "uint16" => some .uint16 | "uint32" => some .uint32
  | "uint64" => some .uint64 | "uintptr" => some .uintptr | "f32" => some .f32 | "f64" => some .f64 | "string" => some .string
  | _ => none

def parseField (s : String) : Option FieldDesc :=
  match s.splitOn "," with
  | [nm, ty, ex, em, tg] => do
    let name ← parseHex (if nm == "" then "-" else nm)
    let t ← parseNat ty
    let tag ← if tg == "-" then some none else (parseHexChars (tg.toList.drop 1) []).map some
    pure ⟨name, t, ex == "1", em == "1", tag⟩
  | _ => none

def parseTyDesc (s : String) : Option TyDesc :=
  match s.splitOn ":" with
  | ["prim", k, b] => (parseKind k).map fun kk => .prim kk (b == "1")
  | ["bytes", b] => some (.bytes (b == "1"))
  | ["bytearr", n] => (parseNat n).map .byteArr
  | ["slice", e] => (parseNat e).map .slice
  | ["arr", n, e] => do pure (.arr (← parseNat n) (← parseNat e))
  | ["map", k, e] => do pure (.map (← parseNat k) (← parseNat e))
  | ["ptr", e] => (parseNat e).map .ptr
  | ["iface", m] => some (.iface (m == "1"))
  | ["struct", fs] => if fs == "-" then some (.struct []) else ((fs.splitOn ";").mapM parseField).map .struct
  | ["other"] => some .other
  | _ => none

def parseSort : String → Option KeySort
  | "default" => some .default | "strings" => some .strings | "rfc7049" => some .rfc7049 | _ => none

def parseRoute (s : String) : Option (List Nat) := if s == "-" then some [] else (s.splitOn ".").mapM parseNat

def parseSMField (s : String) : Option SMField :=
  match s.splitOn ":" with
  | [nm, ig, rt, ty, om] => do
    let name ← parseHex (if nm == "" then "-" else nm)
    let route ← parseRoute rt
    let t : Nat := (parseNat ty).getD 0
    pure ⟨name, ig == "1", route, t, om == "1"⟩
  | _ => none

def parseEntryK (s : String) : Option EntryK :=
  if s == "invalid" then some .invalid else
  match s.splitOn "=" with
  | ["sm", fs] => if fs == "-" then some (.structMap []) else ((fs.splitOn ";").mapM parseSMField).map .structMap
  | ["tr", x] => (match x.splitOn ":" with
      | [f, m, u] => do pure (.transform (← parseNat f) (← parseNat m) (← parseNat u))
      | _ => none)
  | ["un", ms] => ((ms.splitOn ";").mapM fun (m : String) => match m.splitOn ":" with
      | [nm, idx] => do pure ((← parseHex (if nm == "" then "-" else nm)), (← parseNat idx))
      | _ => none).map .union
  | ["mm", m] => (parseSort m).map .mapMorph
  | _ => none

def parseEntry (s : String) : Option Entry :=
  match s.splitOn "," with
  | [r, ty, tag, k] => do
    let t ← parseNat ty
    let tg ← if tag == "-" then some none else (parseInt tag).map some
    let kk ← parseEntryK k
    pure ⟨r == "r1", t, tg, kk⟩
  | _ => none

def parseAtlas (sort body : String) : Option Atlas := do
  let s ← parseSort sort
  let es ← if body == "-" then some [] else (body.splitOn "|").mapM parseEntry
  pure ⟨es, s⟩

/-! values -/

partial def parseVal : List Char → Option (Val × List Char)
  | 'n' :: r => some (.ptr none, r)        -- a nil of unknown kind; fixed up against the type by `fixNil`
  | 'b' :: c :: r => some (.bool (c == '1'), r)
  | 'i' :: r =>
    let t := r.takeWhile fun c => c == '-' || c.isDigit
    (parseIntChars t).map fun n => (.int n, r.drop t.length)
  | 'u' :: r =>
    let t := r.takeWhile Char.isDigit
    (parseNatChars t).map fun n => (.uint n, r.drop t.length)
  | 'f' :: r =>
    let t := r.takeWhile fun c => (hexVal c).isSome
    (parseHexNatChars t).map fun n => (.float n, r.drop t.length)
  | 's' :: r =>
    let t := r.takeWhile fun c => (hexVal c).isSome
    (parseHexChars t []).map fun b => (.str b, r.drop t.length)
  | 'x' :: 'n' :: r => some (.bytes none, r)
  | 'x' :: r =>
    let t := r.takeWhile fun c => (hexVal c).isSome
    (parseHexChars t []).map fun b => (.bytes (some b), r.drop t.length)
  | 'X' :: r =>
    let t := r.takeWhile fun c => (hexVal c).isSome
    (parseHexChars t []).map fun b => (.byteArr b, r.drop t.length)
  | '[' :: r => (parseVals r ']').map fun (vs, r') => (.slice (some vs), r')
  | 'A' :: '[' :: r => (parseVals r ']').map fun (vs, r') => (.arr vs, r')
  | 'S' :: '(' :: r => (parseVals r ')').map fun (vs, r') => (.struct vs, r')
  | 'M' :: '{' :: r => (parseKVs r).map fun (kvs, r') => (.map (some kvs), r')
  | 'P' :: r => (parseVal r).map fun (v, r') => (.ptr (some v), r')
  | 'I' :: r =>
    let t := r.takeWhile Char.isDigit
    match parseNatChars t, r.drop t.length with
    | some id, ':' :: r' => (parseVal r').map fun (v, r'') => (.iface (some (id, v)), r'')
    | _, _ => none
  | _ => none
where
  parseVals : List Char → Char → Option (List Val × List Char)
    | c :: r, close => if c == close then some ([], r) else
        match parseVal (c :: r) with
        | some (v, ',' :: r') => (parseVals r' close).map fun (vs, r'') => (v :: vs, r'')
        | some (v, c' :: r') => if c' == close then some ([v], r') else none
        | _ => none
    | [], _ => none
  parseKVs : List Char → Option (List (Val × Val) × List Char)
    | '}' :: r => some ([], r)
    | cs =>
      match parseVal cs with
      | some (k, '=' :: r) =>
        (match parseVal r with
         | some (v, ',' :: r') => (parseKVs r').map fun (kvs, r'') => ((k, v) :: kvs, r'')
         | some (v, '}' :: r') => some ([(k, v)], r')
         | _ => none)
      | _ => none

/-- give `n` (nil) its kind from the declared type; recurse through the structure -/
partial def fixNil (ts : Types) (id : Nat) (v : Val) : Val :=
  match ts.get id, v with
  | .bytes _, .ptr none => .bytes none
  | .slice _, .ptr none => .slice none
  | .map _ _, .ptr none => .map none
  | .iface _, .ptr none => .iface none
  | .iface _, .iface (some (dt, x)) => .iface (some (dt, fixNil ts dt x))
  | .slice e, .slice (some vs) => .slice (some (vs.map (fixNil ts e)))
  | .arr _ e, .arr vs => .arr (vs.map (fixNil ts e))
  | .map k e, .map (some kvs) => .map (some (kvs.map fun (a, b) => (fixNil ts k a, fixNil ts e b)))
  | .ptr e, .ptr (some x) => .ptr (some (fixNil ts e x))
  | .struct fs, .struct vs => .struct ((fs.zip vs).map fun (f, x) => fixNil ts f.ty x)
  | _, x => x

def parseValue (ts : Types) (id : Nat) (s : String) : Option Val :=
  match parseVal s.toList with
  | some (v, []) => some (fixNil ts id v)
  | _ => none

partial def showVal : Val → String
  | .bool b => if b then "b1" else "b0"
  | .int i => "i" ++ toString i
  | .uint n => "u" ++ toString n
  | .float f => "f" ++ pad16 (natHex f)
  | .str s => "s" ++ hexOf s
  | .bytes none => "xn"
  | .bytes (some b) => "x" ++ hexOf b
  | .byteArr b => "X" ++ hexOf b
  | .slice none => "n"
  | .slice (some vs) => "[" ++ ",".intercalate (vs.map showVal) ++ "]"
  | .arr vs => "A[" ++ ",".intercalate (vs.map showVal) ++ "]"
  | .map none => "n"
  | .map (some kvs) =>
    let parts := (kvs.map fun (k, v) => showVal k ++ "=" ++ showVal v)
    "M{" ++ ",".intercalate (parts.toArray.qsort (· < ·)).toList ++ "}"
  | .ptr none => "n"
  | .ptr (some v) => "P" ++ showVal v
  | .iface none => "n"
  | .iface (some (dt, v)) => "I" ++ toString dt ++ ":" ++ showVal v
  | .struct vs => "S(" ++ ",".intercalate (vs.map showVal) ++ ")"

end Refmt.Proto
