package main

import (
	"fmt"
	"math"
	"strconv"
	"strings"
)

var jsonAlphabet = []byte("{}[]:,\"\\/ \t\n019-+.eEnultrfasbx\x00\x1f\x7f\xc3\xa9\xed\xa0\x80\xff")
var jsonAlphabetSmall = []byte("{}[]:,\" 01-.enultrfas\\")

func emitJ(b []byte) { emit("jsondec %s", hexOrDash(b)) }

func randJSONString(r *rng) string {
	var sb strings.Builder
	sb.WriteByte('"')
	for n := r.intn(6); n > 0; n-- {
		switch r.intn(12) {
		case 0:
			sb.WriteString([]string{`\n`, `\t`, `\"`, `\\`, `\/`, `\b`, `\f`, `\r`}[r.intn(8)])
		case 1:
			sb.WriteString(fmt.Sprintf(`\u%04x`, r.intn(0x10000)))
		case 2:
			sb.WriteString(fmt.Sprintf(`\ud8%02x\udc%02x`, r.intn(4)*0x40+r.intn(0x40), r.intn(0x100)))
		case 3:
			sb.WriteString("é")
		case 4:
			sb.WriteString("\U0001F600")
		case 5:
			sb.WriteString("\u2028")
		default:
			sb.WriteByte(byte('a' + r.intn(26)))
		}
	}
	sb.WriteByte('"')
	return sb.String()
}

func randJSONNumber(r *rng) string {
	switch r.intn(10) {
	case 0:
		return []string{"0", "-0", "1", "-1", "9223372036854775807", "9223372036854775808", "-9223372036854775808",
			"-9223372036854775809", "18446744073709551615", "18446744073709551616", "1e400", "-1e400", "1e-400",
			"4.9e-324", "1.7976931348623157e308", "1.7976931348623159e308", "0.1", "1E5", "1e+5", "1e-5", "100000000000000000000",
			"123456789012345678901234567890", "0.000001", "0.0000001", "1e21", "1e20", "2.5e-7", "-0.0", "0e0", "1.0"}[r.intn(30)]
	case 1:
		return strconv.FormatInt(int64(r.next()>>uint(r.intn(64)))*int64(1-2*r.intn(2)), 10)
	case 2:
		return strconv.FormatFloat(math.Float64frombits(r.next()&^(0x7ff<<52)|uint64(r.intn(2047))<<52), 'g', -1, 64)
	case 3:
		return fmt.Sprintf("%d.%de%c%d", r.intn(100), r.intn(1000), "+-"[r.intn(2)], r.intn(30))
	default:
		return strconv.Itoa(r.intn(2000) - 1000)
	}
}

func ws(r *rng) string {
	return []string{"", "", "", " ", "\n", "\t ", "\r\n", "  "}[r.intn(8)]
}

func randJSON(r *rng, depth int, sb *strings.Builder) {
	sb.WriteString(ws(r))
	k := r.intn(10)
	if depth <= 0 && k < 4 {
		k = 4 + r.intn(6)
	}
	switch {
	case k < 2:
		sb.WriteByte('[')
		n := r.intn(4)
		for i := 0; i < n; i++ {
			if i > 0 {
				sb.WriteString(ws(r) + ",")
			}
			randJSON(r, depth-1, sb)
		}
		if n > 0 && r.chance(1, 8) {
			sb.WriteString(ws(r) + ",") // the pinned leniency
		}
		sb.WriteString(ws(r) + "]")
	case k < 4:
		sb.WriteByte('{')
		n := r.intn(4)
		for i := 0; i < n; i++ {
			if i > 0 {
				sb.WriteString(ws(r) + ",")
			}
			sb.WriteString(ws(r))
			if r.chance(1, 3) {
				sb.WriteString(fmt.Sprintf("\"k%d\"", i))
			} else {
				sb.WriteString(randJSONString(r))
			}
			sb.WriteString(ws(r) + ":")
			randJSON(r, depth-1, sb)
		}
		if n > 0 && r.chance(1, 8) {
			sb.WriteString(ws(r) + ",")
		}
		sb.WriteString(ws(r) + "}")
	case k == 4:
		sb.WriteString([]string{"null", "true", "false"}[r.intn(3)])
	case k < 7:
		sb.WriteString(randJSONNumber(r))
	default:
		sb.WriteString(randJSONString(r))
	}
}

func genJsonDec(tier string, seed uint64) {
	r := &rng{s: seed}
	// 1. exhaustive short strings
	emitJ(nil)
	nFull, nSmall := 3, 4
	if tier == "thorough" {
		nFull, nSmall = 4, 5
	}
	for n := 1; n <= nFull; n++ {
		enumAlphabet(jsonAlphabet, n, emitJ)
	}
	for n := nFull + 1; n <= nSmall; n++ {
		enumAlphabet(jsonAlphabetSmall, n, emitJ)
	}
	// 2. literals and their corruptions, numbers at every boundary, with every kind of follower
	for _, lit := range []string{"null", "true", "false"} {
		for _, tail := range []string{"", " ", ",", "]", "}", "x", "1", "\"", "\n"} {
			emitJ([]byte(lit + tail))
			for i := 0; i < len(lit); i++ {
				emitJ([]byte(lit[:i] + tail))
				emitJ([]byte(lit[:i] + "x" + lit[i+1:] + tail))
				emitJ([]byte("[" + lit[:i] + "x" + lit[i+1:] + "]"))
				emitJ([]byte("{\"a\":" + lit[:i] + "]"))
			}
		}
	}
	for i := 0; i < 30; i++ {
		r2 := &rng{s: uint64(i)}
		_ = r2
	}
	nums := []string{"0", "-0", "1", "-1", "9223372036854775807", "9223372036854775808", "-9223372036854775808",
		"-9223372036854775809", "18446744073709551615", "18446744073709551616", "1e400", "-1e400", "1e-400", "4.9e-324",
		"1.7976931348623157e308", "1.7976931348623159e308", "0.1", "1E5", "1e+5", "1e-5", "100000000000000000000",
		"1.", "1.e5", ".5", "-", "-.5", "01", "-01", "1e", "1e+", "1e-", "1ee5", "1.5.5", "+1", "0x10", "1_000", "Infinity", "NaN",
		"0.000001", "1e21", "2.5e-7", "-0.0", "0e0", "1.0", "00", "1e05", "1E-05"}
	for _, n := range nums {
		for _, tail := range []string{"", " ", ",", "]", "}", "x", "\n", "e", ".", "-"} {
			emitJ([]byte(n + tail))
		}
		emitJ([]byte("[" + n + "]"))
		emitJ([]byte("[" + n + ",1]"))
		emitJ([]byte("{\"a\":" + n + "}"))
		emitJ([]byte("{" + n + ":1}"))
	}
	// 3. every \uXXXX (stepping in quick), surrogate pairs, raw bytes in strings
	step := 17
	if tier == "thorough" {
		step = 1
	}
	for u := 0; u < 0x10000; u += step {
		emitJ([]byte(fmt.Sprintf("\"\\u%04x\"", u)))
		if u%3 == 0 {
			emitJ([]byte(fmt.Sprintf("\"\\u%04X\"", u)))
		}
	}
	for i := 0; i < 3000; i++ {
		hi, lo := 0xd800+r.intn(0x800), 0xd800+r.intn(0x800)
		emitJ([]byte(fmt.Sprintf("\"\\u%04x\\u%04x\"", hi, lo)))
		emitJ([]byte(fmt.Sprintf("\"\\u%04x%c\"", hi, 'a'+r.intn(26))))
	}
	for i := 0; i < 1500; i++ {
		// three escapes: an unpaired surrogate in front of / behind a valid pair or another unpaired one
		u := func() int { return 0xd800 + r.intn(0x800) }
		emitJ([]byte(fmt.Sprintf("\"\\u%04x\\u%04x\\u%04x\"", u(), u(), u())))
		emitJ([]byte(fmt.Sprintf("\"\\u%04x\\ud83d\\ude00\"", u())))
		emitJ([]byte(fmt.Sprintf("\"\\ud83d\\ude00\\u%04x\"", u())))
	}
	// very long strings and numbers (buffers of the reader grow past their first sizes)
	for _, n := range []int{4000, 70000, 80000, 200000} {
		emitJ([]byte("\"" + strings.Repeat("a", n) + "\""))
		emitJ([]byte("[\"" + strings.Repeat("b", n) + "\",1]"))
		emitJ([]byte("\"" + strings.Repeat("a", n)))
	}
	emitJ([]byte(strings.Repeat("1", 70000)))
	// things some parsers forgive in front of, between and after the parts of a valid document
	for _, doc := range []string{"1", "\"a\"", "[1,2]", "{\"a\":1}", "true", "null", "-0.5e1"} {
		for _, pre := range []string{"\xef\xbb\xbf", "\xfe\xff", "\xff\xfe", "\xef\xbb", "\x00", "\xc2\xa0", "\xe2\x80\xa8", "\x0b", "\x0c", "\x1e", "//c\n", "/*c*/", "#c\n", "\xef\xbb\xbf\xef\xbb\xbf", " \xef\xbb\xbf"} {
			emitJ([]byte(pre + doc))
			emitJ([]byte(doc + pre))
			emitJ([]byte("[" + pre + doc + "]"))
			emitJ([]byte("[" + doc + pre + "]"))
		}
	}
	// integer literals longer than any 64-bit number (with and without sign, exponent markers of both cases)
	for _, n := range []int{19, 20, 21, 63, 64, 65, 66, 100, 308, 309, 310, 400} {
		for _, d := range []string{"1", "9"} {
			lit := strings.Repeat(d, n)
			for _, tx := range []string{lit, "-" + lit, lit + "E-10", lit + "e-10", lit + "E+2", lit + ".5", "[" + lit + "]", "{\"k\":-" + lit + "}"} {
				emitJ([]byte(tx))
				emitJ([]byte(tx + " "))
			}
		}
	}
	// a lone high-surrogate escape followed by text that LOOKS like the hex digits of a low surrogate
	for _, tail := range []string{"x deadline", "\\n dc00", "12dead", "  DFFF.", "ab\\udead", "\\u0041dc00", "xxde00", "\\ud83ddead"} {
		for _, hi := range []string{"\\ud83d", "\\uD800", "\\udbff"} {
			emitJ([]byte("\"" + hi + tail + "\""))
			emitJ([]byte("[\"a" + hi + tail + "\",1]"))
		}
	}
	// long mantissas (past every integer range) with and without fraction / exponent, both signs
	for _, n := range []int{18, 19, 20, 21, 25, 40, 400} {
		m := strings.Repeat("1234567890", n/10+1)[:n]
		for _, suf := range []string{"", ".5", "e3", "E-3", "e+90", ".25e-7", "e-400", "e400", ".0"} {
			emitJ([]byte(m + suf))
			emitJ([]byte("-" + m + suf))
			emitJ([]byte("[" + m + suf + "]"))
		}
	}
	for b := 0; b < 256; b++ {
		emitJ([]byte{'"', byte(b), '"'})
		emitJ([]byte{'"', '\\', byte(b), '"'})
		emitJ([]byte{'"', 0xe2, byte(b), 0xa8, '"'})
		emitJ([]byte{'"', '\\', 'u', '0', '0', byte(b), '0', '"'})
	}
	// 4. grammar-generated documents; with trailing data; every proper prefix; single-edit mutants
	nd := 5000
	if tier == "thorough" {
		nd = 200000
	}
	for i := 0; i < nd; i++ {
		var sb strings.Builder
		randJSON(r, r.intn(5), &sb)
		doc := []byte(sb.String())
		emitJ(doc)
		emitJ(append(append([]byte{}, doc...), []byte(ws(r)+[]string{"", "1", "x", ",", "]", "{}"}[r.intn(6)])...))
		if len(doc) <= 48 {
			for p := 0; p < len(doc); p++ {
				emitJ(doc[:p])
			}
		}
		for m := 0; m < 6 && len(doc) > 0; m++ {
			mut := append([]byte{}, doc...)
			pos := r.intn(len(mut))
			switch r.intn(4) {
			case 0:
				mut[pos] = jsonAlphabet[r.intn(len(jsonAlphabet))]
			case 1:
				mut = append(mut[:pos], mut[pos+1:]...)
			case 2:
				mut = append(mut[:pos], append([]byte{jsonAlphabet[r.intn(len(jsonAlphabet))]}, mut[pos:]...)...)
			default:
				if pos+1 < len(mut) {
					mut[pos], mut[pos+1] = mut[pos+1], mut[pos]
				}
			}
			emitJ(mut)
		}
	}
	emitShapes("jsondec", tier)
	// 5. deep nesting
	for _, d := range []int{100, 3000} {
		emitJ([]byte(strings.Repeat("[", d) + "1" + strings.Repeat("]", d)))
		emitJ([]byte(strings.Repeat("{\"a\":", d) + "1" + strings.Repeat("}", d)))
		emitJ([]byte(strings.Repeat("[", d)))
	}
}

// ---- C03: token streams for the JSON encoder ---------------------------------------------

func utf8Hex(r rune) string {
	return fmt.Sprintf("%x", []byte(string(r)))
}

var jsonLineOpts = [][2]string{{"nil", "-"}, {"0a", "-"}, {"0a", "09"}, {"0a", "2020"}, {"-", "-"}, {"0d0a", "20"}, {"20", "-"}, {"nil", "2020"}}

func genJsonEnc(tier string, seed uint64) {
	r := &rng{s: seed}
	opt := func() (string, string) { o := jsonLineOpts[r.intn(len(jsonLineOpts))]; return o[0], o[1] }
	// 1. strings: code points, all two-byte sequences, raw bytes, surrogate forms
	cpStep := 13
	if tier == "thorough" {
		cpStep = 1
	}
	for cp := 0; cp <= 0x10FFFF; cp++ {
		if cp >= 0x3000 && cp%cpStep != 0 {
			continue
		}
		if cp >= 0xD800 && cp < 0xE000 {
			// lone surrogate in its (invalid) 3-byte UTF-8 form
			emit("jsonenc nil - s%02x%02x%02x", 0xE0|cp>>12, 0x80|(cp>>6)&0x3F, 0x80|cp&0x3F)
			continue
		}
		emit("jsonenc nil - s%s", utf8Hex(rune(cp)))
	}
	for a := 0; a < 256; a++ {
		for b := 0; b < 256; b++ {
			emit("jsonenc nil - s%02x%02x", a, b)
		}
		emit("jsonenc 0a 09 {1,s%02x61,s61%02x,}", a, a)
		emit("jsonenc nil - s%02x", a)
		emit("jsonenc nil - se2%02xa8", a)
		emit("jsonenc nil - sf0%02x8080", a)
	}
	// the same key twice in a row (legal for a token stream), with a plain or an escape-needing string in between
	for _, k := range []string{"s22", "s5c", "s09", "sff", "sc3a9", "s6b", "s7361792022686922", "se2"} {
		for _, v := range []string{"s76", "s22", "i1", "b1", "0", "sff", "s"} {
			l, i := opt()
			emit("jsonenc %s %s {2,%s,%s,%s,%s,}", l, i, k, v, k, v)
			emit("jsonenc %s %s [2,{1,%s,%s,},{1,%s,%s,},]", l, i, k, v, k, v)
			emit("jsonenc %s %s {-1,%s,%s,s6b32,%s,%s,s77,}", l, i, k, v, v, k)
		}
	}
	// 2. integers
	for _, u := range boundaryU {
		l, i := opt()
		emit("jsonenc %s %s u%d", l, i, u)
		if u < 1<<63 {
			emit("jsonenc %s %s i%d", l, i, int64(u))
			emit("jsonenc %s %s i%d", l, i, -int64(u)-1)
		}
		emit("jsonenc %s %s [1,u%d,]", l, i, u)
	}
	// 3. floats: formatting switch points, integral floats, subnormals, max, random
	specials := []float64{0, 1e-6, 9.999999e-7, 1e-7, 1e21, 9.99999999999999e20, 1e20, 1e22, 0.1, 0.5, 1.5, 123456789, 1e15, 1e16, 1e17,
		9007199254740992, 9007199254740993, 9223372036854775807, 9223372036854775808, 18446744073709551615, 18446744073709551616,
		4.9e-324, 2.2250738585072014e-308, 2.225073858507201e-308, 1.7976931348623157e308, 1e-9, 1e-10, 1.5e-9, 123e-20, 5e-324, 1e100, 1e300,
		0.000001, 0.0000011, 100, 1e2, 3.14159, 2.5e-7}
	for _, f := range specials {
		for _, s := range []float64{1, -1} {
			l, i := opt()
			emit("jsonenc %s %s f%016x", l, i, math.Float64bits(f*s))
			emit("jsonenc %s %s f%016x", l, i, math.Float64bits(f*s)+1)
			emit("jsonenc %s %s f%016x", l, i, math.Float64bits(f*s)-1)
		}
	}
	emit("jsonenc nil - f7ff0000000000000")
	emit("jsonenc nil - ffff0000000000000")
	emit("jsonenc nil - f7ff8000000000001")
	emit("jsonenc nil - [1,f7ff8000000000001,]")
	emit("jsonenc nil - f8000000000000000")
	nf := 20000
	if tier == "thorough" {
		nf = 1000000
	}
	for k := 0; k < nf; k++ {
		emit("jsonenc nil - f%016x", randFloatBits(r))
	}
	for e := -30; e <= 30; e++ {
		for m := 1; m < 40; m++ {
			emit("jsonenc nil - f%016x", math.Float64bits(float64(m)*math.Pow(10, float64(e))))
		}
	}
	// 4. all nesting shapes up to a bound, each under several option settings
	maxLen := 5
	if tier == "thorough" {
		maxLen = 6
	}
	shapes := []string{"{-1", "{1", "}", "[-1", "[0", "]", "0", "s6b", "i-1", "f3ff8000000000000"}
	var rec func(prefix []string)
	rec = func(prefix []string) {
		for _, a := range shapes {
			seq := append(append([]string(nil), prefix...), a)
			line := strings.Join(seq, ",")
			ts, _ := parseToks(line)
			w := &recordingWriter{}
			fl := runSteps(newEncoder("json", w, jsonOptsNone), ts)
			if strings.HasSuffix(fl, "D") || strings.HasSuffix(fl, "E") {
				for _, o := range jsonLineOpts[:4] {
					emit("jsonenc %s %s %s", o[0], o[1], line)
				}
			}
			if len(seq) < maxLen && len(fl) == len(seq) && fl[len(fl)-1] == '.' {
				rec(seq)
			}
		}
	}
	rec(nil)
	// 5. random well-formed trees (string keys only), random options
	nt := 15000
	if tier == "thorough" {
		nt = 600000
	}
	for k := 0; k < nt; k++ {
		var toks []string
		genTree(r, 1+r.intn(6), &toks, false)
		l, i := opt()
		emit("jsonenc %s %s %s", l, i, strings.Join(toks, ","))
	}
	// strings longer than 64 KiB with a multi-byte character lying across every offset around k * 65536; keys and values with
	// bytes that are not valid UTF-8, under every line / indent setting
	for _, k := range []int{1, 2} {
		for off := -3; off <= 1; off++ {
			n := k*65536 + off
			for _, ch := range []string{"c3a9", "e697a5", "f09f9880"} {
				body := strings.Repeat("61", n) + ch + "62"
				emit("jsonenc nil - s%s", body)
				emit("jsonenc 0a 09 [2,s%s,i1,]", body)
				emit("jsonenc nil - {1,s%s,0,}", body)
			}
		}
	}
	for _, o := range [][2]string{{"nil", "-"}, {"0a", "09"}, {"0a", "-"}, {"-", "2020"}} {
		for _, k := range []string{"ff", "61ff62", "c3", "e697", "80", "6bc328", "f09f98", "eda080", "c0af", strings.Repeat("6b", 59) + "ff", strings.Repeat("6b", 60) + "ff", strings.Repeat("6b", 70) + "c3"} {
			emit("jsonenc %s %s {1,s%s,i1,}", o[0], o[1], k)
			emit("jsonenc %s %s {2,s61,s%s,s%s,[1,s%s,],}", o[0], o[1], k, k, k)
			emit("jsonenc %s %s [2,s%s,{-1,s%s,0,},]", o[0], o[1], k, k)
		}
	}
	for _, k := range []int{30, 31, 32, 33, 62, 63, 64, 65, 66, 127, 128, 129, 255, 256, 257} {
		for _, esc := range []string{"22", "5c", "0a", "01", "ff", "e280a8", "7f"} {
			for _, unit := range []string{"61", "c3a9"} {
				run := strings.Repeat(unit, k)[:2*k]
				emit("jsonenc nil - s%s%s62", run, esc)
				emit("jsonenc nil - s78%s%s%s%s", run, esc, run, esc)
				emit("jsonenc 0a 09 {1,s%s%s,s%s%s,}", run, esc, run, esc)
			}
		}
	}
	emitShapes("jsonenc", tier)
	// 6. deep nesting
	for _, d := range []int{100, 2000} {
		emit("jsonenc 0a 20 %s0%s", strings.Repeat("[1,", d/8), strings.Repeat(",]", d/8))
		emit("jsonenc nil - %su1%s", strings.Repeat("{-1,s6b,", d), strings.Repeat(",}", d))
	}
}
