package main

// Correspondence harness: runs the real refmt code (built from /repo's working
// tree through the replace directive in go.mod) on protocol lines and prints
// one canonical result line per case.  `gen` subcommands write case streams.

import (
	"bufio"
	"fmt"
	"os"
	"strconv"
	"strings"
)

type rng struct{ s uint64 }

func (r *rng) next() uint64 {
	r.s += 0x9e3779b97f4a7c15
	z := r.s
	z = (z ^ (z >> 30)) * 0xbf58476d1ce4e5b9
	z = (z ^ (z >> 27)) * 0x94d049bb133111eb
	return z ^ (z >> 31)
}
func (r *rng) intn(n int) int           { return int(r.next() % uint64(n)) }
func (r *rng) chance(num, den int) bool { return r.intn(den) < num }

var out *bufio.Writer

func main() {
	out = bufio.NewWriterSize(os.Stdout, 1<<20)
	defer out.Flush()
	if len(os.Args) < 2 {
		fmt.Fprintln(os.Stderr, "usage: harness run | gen <stream> <tier> <seed>")
		os.Exit(2)
	}
	switch os.Args[1] {
	case "run":
		runLoop()
	case "gen":
		if len(os.Args) < 5 {
			fmt.Fprintln(os.Stderr, "usage: harness gen <stream> <tier> <seed>")
			os.Exit(2)
		}
		seed, _ := strconv.ParseUint(os.Args[4], 10, 64)
		gen(os.Args[2], os.Args[3], seed)
	default:
		fmt.Fprintln(os.Stderr, "unknown subcommand")
		os.Exit(2)
	}
}

func runLoop() {
	cliPath = os.Getenv("REFMT_CLI")
	zooDefs() // fix type ids exactly as the generator did
	sc := bufio.NewScanner(os.Stdin)
	sc.Buffer(make([]byte, 1<<20), 1<<28)
	for sc.Scan() {
		line := sc.Text()
		parts := strings.Split(line, " ")
		if len(parts) < 2 {
			fmt.Fprintln(out, "bad-op")
			continue
		}
		res := handle(parts[1:])
		out.WriteString(parts[0])
		out.WriteByte(' ')
		out.WriteString(res)
		out.WriteByte('\n')
		// every answer reaches the pipe before the next operation starts: a fatal crash of the process (stack
		// overflow, out of memory, the race detector halting) is then attributed to the operation that caused it
		out.Flush()
	}
}

func handle(p []string) (res string) {
	defer func() {
		if r := recover(); r != nil {
			res = fmt.Sprintf("I=HARNESS-PANIC %v", r)
			res = strings.ReplaceAll(res, "\n", " ")
		}
	}()
	switch p[0] {
	case "acc":
		return opAcc(p[1:])
	case "cborenc":
		return opCborEncRT(p[1:])
	case "cbordec":
		return opCborDec(p[1:])
	case "jsondec":
		return opJsonDec(p[1:])
	case "jsonenc":
		return opJsonEnc(p[1:])
	case "T", "A", "Y":
		return "def"
	case "unmarshalm":
		return opUnmarshal(p[1:])
	case "unmarshalr":
		// only THAT the input is refused (with an error, not a panic) is reported, not at which token
		r := opUnmarshal(p[1:])
		if f := strings.Fields(r); len(f) > 0 && strings.HasPrefix(f[0], "I=") && strings.HasSuffix(f[0], "E") {
			return "I=refused V=- O=ok"
		}
		return r
	case "marshalm":
		return opMarshal(p[1:])
	case "marshal":
		return opMarshal(p[1:])
	case "unmarshal":
		return opUnmarshal(p[1:])
	case "autogen":
		return opAutogen(p[1:], false)
	case "autogenj":
		return opAutogen(p[1:], true)
	case "race":
		return opRace(p[1:])
	case "untrusted":
		return opUntrusted(p[1:])
	case "hist":
		return opHist(p[1:])
	case "frame":
		return opFrame(p[1:], true)
	case "frame0":
		return opFrame(p[1:], false)
	case "roundtrip":
		return opRoundtrip(p[1:])
	case "unmbytes":
		return opUnmBytes(p[1:])
	case "remarshal":
		return opRemarshal(p[1:])
	case "clone":
		return opClone(p[1:], false, false)
	case "clonev":
		return opClone(p[1:], true, false)
	case "clonep":
		return opClone(p[1:], false, true)
	case "clonex":
		return opCloneX(p[1:])
	case "pump":
		return opPump(p[1:])
	case "wfault":
		return opWFault(p[1:])
	case "rfaultw":
		return opRFaultE(p[1:], errInjectedEOF)
	case "rfault":
		return opRFault(p[1:])
	case "rdops":
		return opRdOps(p[1:])
	case "sched":
		return opSched(p[1:], "")
	case "schedb":
		return opSched(p[1:], "bufio")
	case "schedk":
		return opSched(p[1:], "bufio4k")
	}
	return "bad-op"
}

var caseID int

// a generator that runs away (an enumeration that was meant to be sampled) must fail loudly instead of filling the disk
const maxCases = 120000000
const maxGenBytes = 24 << 30

var genBytes int64

func emit(format string, a ...interface{}) {
	caseID++
	n1, _ := fmt.Fprintf(out, "%d ", caseID)
	n2, _ := fmt.Fprintf(out, format, a...)
	out.WriteByte('\n')
	genBytes += int64(n1 + n2 + 1)
	if caseID > maxCases || genBytes > maxGenBytes {
		out.Flush()
		fmt.Fprintf(os.Stderr, "generator runaway: %d cases, %d bytes\n", caseID, genBytes)
		os.Exit(3)
	}
}
