package main

import (
	"bytes"
	"fmt"
	"reflect"
	"runtime"
	"strconv"
	"strings"
	"sync"

	"github.com/polydawn/refmt"
	"github.com/polydawn/refmt/cbor"
	"github.com/polydawn/refmt/json"
	"github.com/polydawn/refmt/obj"
	"github.com/polydawn/refmt/pretty"
	"github.com/polydawn/refmt/shared"
)

type raceJob struct {
	kind string // M (marshal), U (unmarshal), C (clone)
	f    string
	aid  int
	t    reflect.Type
	src  reflect.Value // shared, read-only
	data []byte        // shared, read-only (for U)
}

func runJob(j raceJob, a *atlasCfg) string {
	var eo refmt.EncodeOptions = cbor.EncodeOptions{}
	var do refmt.DecodeOptions = cbor.DecodeOptions{}
	if j.f == "json" {
		eo, do = json.EncodeOptions{}, json.DecodeOptions{}
	}
	switch j.kind {
	case "M":
		var b []byte
		e, pn := safely(func() error { var e error; b, e = refmt.MarshalAtlased(eo, j.src.Interface(), a.atl); return e })
		return resStr(hexOrDash(b), e, pn)
	case "U":
		dst := reflect.New(j.t)
		e, pn := safely(func() error { return refmt.UnmarshalAtlased(do, j.data, dst.Interface(), a.atl) })
		return resStr(dumpValue(dst.Elem()), e, pn)
	case "P", "J":
		// the rarely used sinks: the pretty printer, and the JSON encoder with line / indent options, fed by an
		// object-layer marshaller of the worker's own through a pump of its own
		var buf bytes.Buffer
		e, pn := safely(func() error {
			m := obj.NewMarshaller(a.atl)
			if err := m.Bind(j.src.Interface()); err != nil {
				return err
			}
			var sink shared.TokenSink = pretty.NewEncoder(&buf)
			if j.kind == "J" {
				sink = json.NewEncoder(&buf, json.EncodeOptions{Line: []byte("\n"), Indent: []byte("    ")})
			}
			return shared.TokenPump{TokenSource: m, TokenSink: sink}.Run()
		})
		return resStr(hexOrDash(buf.Bytes()), e, pn)
	case "R":
		// long-lived instances of the worker's own, used for the same value twice
		var buf bytes.Buffer
		var out string
		e, pn := safely(func() error {
			m := refmt.NewMarshallerAtlased(eo, &buf, a.atl)
			if err := m.Marshal(j.src.Interface()); err != nil {
				return err
			}
			if err := m.Marshal(j.src.Interface()); err != nil {
				return err
			}
			u := refmt.NewUnmarshallerAtlased(do, &buf, a.atl)
			for k := 0; k < 2; k++ {
				dst := reflect.New(j.t)
				if err := u.Unmarshal(dst.Interface()); err != nil {
					return err
				}
				out += dumpValue(dst.Elem()) + ";"
			}
			return nil
		})
		return resStr(out, e, pn)
	default:
		dst := reflect.New(j.t)
		e, pn := safely(func() error { return refmt.CloneAtlased(j.src.Interface(), dst.Interface(), a.atl) })
		return resStr(dumpValue(dst.Elem()), e, pn)
	}
}

// a chain of records nested d deep (the deepest levels the printers' indentation has to reach)
func deepRec(d int) Rec {
	r := Rec{V: d}
	if d > 0 {
		if d%2 == 0 {
			k := deepRec(d - 1)
			r.Next = &k
		} else {
			r.Kids = []Rec{{V: -d}, deepRec(d - 1)}
		}
	}
	return r
}

// race <seed> <workers> <jobs> <procs>: N goroutines, each with its own machinery, one shared atlas set and shared
// read-only inputs; results must equal the sequential ones (and the race detector must stay silent when built with -race).
func opRace(p []string) string {
	seed, _ := strconv.ParseUint(p[0], 10, 64)
	workers, _ := strconv.Atoi(p[1])
	njobs, _ := strconv.Atoi(p[2])
	procs, _ := strconv.Atoi(p[3])
	if procs > 0 {
		defer runtime.GOMAXPROCS(runtime.GOMAXPROCS(procs))
	}
	r := &rng{s: seed}
	var types []reflect.Type
	for _, v := range []interface{}{Inner{}, WithPtr{}, Emb{}, Rec{}, Tagged{}, OmitAll{}, Nums{}, HasShape{}, MapKeyed{}, []TrNum{}, map[string]interface{}{},
		[]interface{}{}, StrMap{}, map[KeyStruct]string{}, []byte{}, []Shape{}, HasShape{}, []Shape{}, Wide{}, Wide{}, TwoMaps{}, KeyedMap{}, Blob{}, map[TrKey]int{},
		reflect.New(hugeT130).Elem().Interface(), map[string]Shape{}} {
		types = append(types, reflect.TypeOf(v))
	}
	zas := zooAtlases()
	var jobs []raceJob
	deepest := 6
	for i := 0; i < njobs; i++ {
		f := []string{"cbor", "json"}[r.intn(2)]
		a := zas[1+r.intn(len(zas)-1)]
		t := types[r.intn(len(types))]
		vd := genValue(r, t, genOpts{depth: 1 + r.intn(3), jsonSafe: f == "json", roundtrip: true, tagged: a.id == 2 || a.id == 3, cbor: f == "cbor"})
		if t == reflect.TypeOf(HasShape{}) || t == reflect.TypeOf([]Shape{}) {
			for try := 0; try < 10 && !strings.Contains(vd, "I"); try++ {
				vd = genValue(r, t, genOpts{depth: 2 + r.intn(2), jsonSafe: f == "json", roundtrip: true, tagged: a.id == 2 || a.id == 3, cbor: f == "cbor"})
			}
		}
		rv, err := buildValue(t, vd)
		if err != nil {
			return "bad-op"
		}
		src := reflect.New(t)
		src.Elem().Set(rv)
		j := raceJob{kind: []string{"M", "U", "C", "M", "U", "C", "P", "J", "R"}[r.intn(9)], f: f, aid: a.id, t: t, src: src}
		if (j.kind == "P" || j.kind == "J") && i%4 == 0 {
			// every so often a value nested deeper than any other in this run
			deepest += 1 + r.intn(4)
			dr := deepRec(deepest)
			j.t = reflect.TypeOf(dr)
			j.src = reflect.New(j.t)
			j.src.Elem().Set(reflect.ValueOf(dr))
		}
		if j.kind == "U" && a.id == 3 && t == reflect.TypeOf(Emb{}) {
			// the key atlas 3 declares as ignored, present in the input (between the mapped ones)
			e := src.Elem().Interface().(Emb)
			doc := map[string]interface{}{"zed": e.Z, "why": e.Y, "ex": e.X, "legacy": []interface{}{e.Y, map[string]interface{}{"k": e.Z}}}
			var eo refmt.EncodeOptions = cbor.EncodeOptions{}
			if f == "json" {
				eo = json.EncodeOptions{}
			}
			if b, e := refmt.Marshal(eo, doc); e == nil {
				j.data = b
				jobs = append(jobs, j)
				continue
			}
		}
		if j.kind == "U" {
			var eo refmt.EncodeOptions = cbor.EncodeOptions{}
			if f == "json" {
				eo = json.EncodeOptions{}
			}
			b, e := refmt.MarshalAtlased(eo, src.Interface(), a.atl)
			if e != nil {
				j.kind = "M"
			}
			j.data = b
			// a third of the inputs are corrupted in one letter (unknown struct field / union member / string content):
			// rejection paths run concurrently too
			if r.chance(1, 3) && len(b) > 0 {
				c := append([]byte{}, b...)
				for try := 0; try < 8; try++ {
					k := r.intn(len(c))
					if c[k] >= 'a' && c[k] <= 'y' {
						c[k]++
						break
					}
				}
				j.data = c
			} else if r.chance(1, 2) {
				// unknown union member names (no-op for inputs without a union)
				c := bytes.Replace(append([]byte{}, b...), []byte("circle"), []byte("circlf"), -1)
				j.data = bytes.Replace(c, []byte("sq"), []byte("sr"), -1)
			}
		}
		jobs = append(jobs, j)
	}
	// The concurrent passes come FIRST and the sequential reference after them: whatever package-level state the
	// library builds or grows on first use (tables, caches, pools) is then first touched by several goroutines at once.
	want := make([]string, len(jobs))
	mismatch := ""
	// concurrent: every worker runs every job (sharing atlases and inputs), in a worker-specific order; the atlases
	// are freshly built for this phase, so that the workers are the first ever to use them (lazily initialised or
	// first-use-mutated shared state would be touched concurrently)
	// Two passes, each on its own freshly built atlas set.  Pass 0: all workers take the jobs in the SAME order behind a
	// common start line, so the first use of every atlas entry happens in several goroutines at (nearly) the same time.
	// (Unrelated mutexes inside reflect and the allocator order goroutines that are far apart in time, which would hide a
	// race between a first-use write and a later read from the detector.)  Pass 1: worker-specific orders.
	for pass := 0; pass < 2; pass++ {
		fresh := map[int]*atlasCfg{}
		for _, a := range freshAtlases() {
			fresh[a.id] = a
		}
		got := make([][]string, workers)
		var wg sync.WaitGroup
		start := make(chan struct{})
		for w := 0; w < workers; w++ {
			wg.Add(1)
			go func(w int) {
				defer wg.Done()
				res := make([]string, len(jobs))
				<-start
				for k := range jobs {
					i := k
					if pass == 1 {
						i = (k*7 + w*13) % len(jobs)
					}
					res[i] = runJob(jobs[i], fresh[jobs[i].aid])
					if pass == 1 && k%16 == 0 {
						runtime.Gosched()
					}
				}
				got[w] = res
			}(w)
		}
		close(start)
		wg.Wait()
		if pass == 0 {
			for i, j := range jobs {
				want[i] = runJob(j, atlasByID(strconv.Itoa(j.aid)))
			}
		}
		for w := range got {
			for i := range jobs {
				if got[w][i] != want[i] && mismatch == "" {
					mismatch = fmt.Sprintf("I=differs O=viol:worker-%d-job-%d-%s-differs-from-sequential", w, i, jobs[i].kind)
				}
			}
		}
	}
	if mismatch != "" {
		return mismatch
	}
	return "I=ok O=ok"
}

func genRace(tier string, seed uint64) {
	emitDefs()
	n := 12
	jobs := 300
	if tier == "thorough" {
		n, jobs = 40, 500
	}
	cores := runtime.NumCPU()
	for i := 0; i < n; i++ {
		workers := []int{2, 4, cores, 2 * cores, 4 * cores}[i%5]
		procs := []int{0, 1, 2, cores / 2, 0}[i%5]
		emit("race %d %d %d %d", seed*1000+uint64(i), workers, jobs, procs)
	}
}
