package main

import (
	"github.com/polydawn/refmt"
	"reflect"
	"fmt"
	"io"
	"strconv"
	"strings"

	"github.com/polydawn/refmt/cbor"
	"github.com/polydawn/refmt/json"
	"github.com/polydawn/refmt/shared"
	"github.com/polydawn/refmt/tok"
)

// faultyWriter makes the k-th Write call (0-based) fail: mode 'e' = error, 's' = short count, 'b' = both.
// stop=true: every later call fails the same way.
type faultyWriter struct {
	k     int
	mode  byte
	stop  bool
	calls int
	sizes []int
}

func (w *faultyWriter) Write(p []byte) (int, error) {
	i := w.calls
	w.calls++
	w.sizes = append(w.sizes, len(p))
	if i == w.k || (w.stop && i > w.k) {
		switch w.mode {
		case 'e':
			return len(p), errInjected
		case 's':
			if len(p) == 0 {
				return 0, nil
			}
			return len(p) - 1, nil
		default:
			if len(p) == 0 {
				return 0, errInjected
			}
			return len(p) - 1, errInjected
		}
	}
	return len(p), nil
}

// sliceSource is a TokenSource over a fixed token list.
type sliceSource struct {
	ts []tok.Token
	i  int
}

func (s *sliceSource) Step(t *tok.Token) (bool, error) {
	if s.i >= len(s.ts) {
		return true, fmt.Errorf("source exhausted")
	}
	*t = s.ts[s.i]
	s.i++
	return s.i == len(s.ts), nil
}

func safePump(p shared.TokenPump) (err error, panicked bool) {
	defer func() {
		if r := recover(); r != nil {
			panicked = true
		}
	}()
	return p.Run(), false
}

// wfault <fmt> <line> <indent> <toks> <k> <mode><stop>
// faultyStringWriter: the same faulty writer, but it also offers WriteString, as bytes.Buffer, bufio.Writer and os.File do
type faultyStringWriter struct{ faultyWriter }

func (w *faultyStringWriter) WriteString(s string) (int, error) { return w.Write([]byte(s)) }

func opWFault(p []string) string {
	stringWriter := strings.HasSuffix(p[0], "w")
	p = append([]string{strings.TrimSuffix(p[0], "w")}, p[1:]...)
	ts, err := parseToks(p[3])
	if err != nil {
		return "bad-op"
	}
	k, _ := strconv.Atoi(p[4])
	mode, stop := p[5][0], strings.HasSuffix(p[5], "1")
	mk := func(w io.Writer) stepper {
		if p[0] == "cbor" {
			return cbor.NewEncoder(w)
		}
		return json.NewEncoder(w, parseJSONOpts(p[1], p[2]))
	}
	// fault-free run: how many writes does the document need, and how big is the k-th?
	ref := &faultyWriter{k: -1}
	refFlags := runSteps(mk(ref), ts)
	fw := &faultyWriter{k: k, mode: mode, stop: stop}
	fl := runSteps(mk(fw), ts)
	// the same through the real pump
	fw2 := &faultyWriter{k: k, mode: mode, stop: stop}
	var sinkW io.Writer = fw2
	if stringWriter {
		sinkW = &faultyStringWriter{faultyWriter{k: k, mode: mode, stop: stop}}
	}
	perr, pp := safePump(shared.TokenPump{TokenSource: &sliceSource{ts: ts}, TokenSink: mk(sinkW)})
	pump := "nil"
	if pp {
		pump = "panic"
	} else if perr != nil {
		pump = "err"
	}
	oracle := "ok"
	if strings.HasSuffix(refFlags, "D") && k < ref.calls {
		effective := !(mode == 's' && ref.sizes[k] == 0)
		if effective && pump != "err" {
			oracle = "viol:write-fault-swallowed"
		}
	}
	return fmt.Sprintf("I=%s c=%d pump=%s O=%s", fl, fw.calls, pump, oracle)
}

// rfault <fmt> <hex> <k> <stop>: the reader fails with a distinguished error after k bytes
func opRFault(p []string) string { return opRFaultE(p, nil) }

func opRFaultE(p []string, ferr error) string {
	data, err := parseHexOrDash(p[1])
	if err != nil {
		return "bad-op"
	}
	k, _ := strconv.Atoi(p[2])
	mk := func(r io.Reader) stepper {
		if p[0] == "cbor" {
			return cbor.NewDecoder(cbor.DecodeOptions{}, r)
		}
		return json.NewDecoder(r)
	}
	sr := newSched(data, "-", "0")
	sr.faultAt = k
	sr.faultStop = p[3] == "1"
	sr.faultErr = ferr
	toks, class, _ := runDecoder(mk(sr), 2*len(data)+8)
	// fault-free reference: how long is the item?
	ref := newSched(data, "-", "0")
	_, class0, _ := runDecoder(mk(ref), 2*len(data)+8)
	itemLen := ref.delivered
	oracle := "ok"
	if class0 == "ok" && k < itemLen && !(p[0] == "json" && k == itemLen-1 && jsonEndsWithLookahead(data, itemLen)) {
		if class != "inj" {
			oracle = "viol:read-fault-not-reported:" + class
		}
		// the same through the library's own pump into an unmarshaller (Unmarshaller.Unmarshal): it must not return nil
		if oracle == "ok" {
			sr2 := newSched(data, "-", "0")
			sr2.faultAt = k
			sr2.faultStop = p[3] == "1"
			sr2.faultErr = ferr
			var do refmt.DecodeOptions = cbor.DecodeOptions{}
			if p[0] == "json" {
				do = json.DecodeOptions{}
			}
			var v interface{}
			e, pn := safely(func() error { return refmt.NewUnmarshaller(do, sr2).Unmarshal(&v) })
			if pn {
				oracle = "viol:panic-in-unmarshal-on-read-fault"
			} else if e == nil {
				oracle = "viol:read-fault-swallowed-by-unmarshal:" + dumpValue(reflect.ValueOf(&v).Elem())
			}
		}
	}
	return fmt.Sprintf("I=%s/%s O=%s", showToks(toks), class, oracle)
}

// A top-level JSON number is delimited by one look-ahead byte that is not part of the item.
func jsonEndsWithLookahead(data []byte, delivered int) bool {
	i := 0
	for i < len(data) && (data[i] == ' ' || data[i] == '\t' || data[i] == '\r' || data[i] == '\n') {
		i++
	}
	return i < len(data) && (data[i] == '-' || (data[i] >= '0' && data[i] <= '9'))
}
