package main

import (
	"fmt"
	"math"
	"reflect"
	"strconv"
	"strings"

	"github.com/polydawn/refmt/obj"
	"github.com/polydawn/refmt/tok"
)

func atlasByID(s string) *atlasCfg {
	buildAtlases()
	id, _ := strconv.Atoi(s)
	for _, a := range atlases {
		if a.id == id {
			return a
		}
	}
	return atlases[0]
}

func safeBindM(m *obj.Marshaller, v interface{}) (err error, panicked bool) {
	defer func() {
		if r := recover(); r != nil {
			panicked = true
		}
	}()
	return m.Bind(v), false
}

func safeBindU(u *obj.Unmarshaller, v interface{}) (err error, panicked bool) {
	defer func() {
		if r := recover(); r != nil {
			panicked = true
		}
	}()
	return u.Bind(v), false
}

// valueSize counts the nodes of a value (for the C07 token bound).
func valueSize(v reflect.Value) int {
	switch v.Kind() {
	case reflect.Slice, reflect.Array:
		if v.Type().Elem().Kind() == reflect.Uint8 {
			return 1
		}
		n := 1
		for i := 0; i < v.Len(); i++ {
			n += valueSize(v.Index(i))
		}
		return n
	case reflect.Map:
		n := 1
		for _, k := range v.MapKeys() {
			n += 1 + valueSize(v.MapIndex(k))
		}
		return n
	case reflect.Ptr, reflect.Interface:
		if v.IsNil() {
			return 1
		}
		return 1 + valueSize(v.Elem())
	case reflect.Struct:
		n := 1
		for i := 0; i < v.NumField(); i++ {
			n += 1 + valueSize(v.Field(i))
		}
		return n
	}
	return 1
}

// wfTokens: exactly one well-formed value, string keys, accurate declared lengths.
func wfTokens(ts []tok.Token) string {
	pos := 0
	var walk func(depth int) string
	walk = func(depth int) string {
		if pos >= len(ts) {
			return "truncated"
		}
		t := ts[pos]
		pos++
		switch t.Type {
		case tok.TArrOpen:
			n := 0
			for {
				if pos >= len(ts) {
					return "truncated"
				}
				if ts[pos].Type == tok.TArrClose {
					pos++
					break
				}
				if e := walk(depth + 1); e != "" {
					return e
				}
				n++
			}
			if t.Length >= 0 && t.Length != n {
				return fmt.Sprintf("array-declares-%d-has-%d", t.Length, n)
			}
		case tok.TMapOpen:
			n := 0
			for {
				if pos >= len(ts) {
					return "truncated"
				}
				if ts[pos].Type == tok.TMapClose {
					pos++
					break
				}
				if ts[pos].Type != tok.TString {
					return "non-string-key"
				}
				if ts[pos].Tagged {
					return "tagged-key"
				}
				pos++
				if e := walk(depth + 1); e != "" {
					return e
				}
				n++
			}
			if t.Length >= 0 && t.Length != n {
				return fmt.Sprintf("map-declares-%d-has-%d", t.Length, n)
			}
		case tok.TArrClose, tok.TMapClose:
			return "stray-close"
		}
		return ""
	}
	if e := walk(0); e != "" {
		return e
	}
	if pos != len(ts) {
		return "tokens-after-value"
	}
	return ""
}

// marshal <aid> <tid> <viaPtr> <val>
func opMarshal(p []string) string {
	a := atlasByID(p[0])
	id, _ := strconv.Atoi(p[1])
	t := typeByID[id]
	rv, err := buildValue(t, p[3])
	if err != nil {
		return "bad-op " + err.Error()
	}
	var arg interface{}
	if p[2] == "1" {
		pv := reflect.New(t)
		pv.Elem().Set(rv)
		arg = pv.Interface()
	} else {
		arg = rv.Interface()
	}
	m := obj.NewMarshaller(a.atl)
	berr, bp := safeBindM(m, arg)
	if bp {
		return "I=-/panic O=viol:panic-in-bind"
	}
	if berr != nil {
		return "I=-/err O=ok" // a Bind error is an error before the first token
	}
	stepCap := 3*valueSize(rv) + 16
	toks, class, _ := runDecoder(m, stepCap)
	if class != "ok" && class != "panic" && class != "loop" {
		class = "err"
	}
	oracle := "ok"
	switch class {
	case "panic":
		oracle = "viol:panic"
	case "loop":
		oracle = "viol:endless-stream"
	case "ok":
		if e := wfTokens(toks); e != "" {
			oracle = "viol:malformed-stream:" + e
		}
	}
	return fmt.Sprintf("I=%s/%s O=%s", showToks(toks), class, oracle)
}

// recognise: are the first n tokens exactly one complete value (any scalar key allowed here: strictness is per target)?
func completeValue(ts []tok.Token) bool {
	depth := 0
	for i, t := range ts {
		switch t.Type {
		case tok.TArrOpen, tok.TMapOpen:
			depth++
		case tok.TArrClose, tok.TMapClose:
			depth--
			if depth < 0 {
				return false
			}
		}
		if depth == 0 {
			return i == len(ts)-1
		}
	}
	return false
}

// unmarshal <aid> <tid> <toks>
func opUnmarshal(p []string) string {
	a := atlasByID(p[0])
	id, _ := strconv.Atoi(p[1])
	t := typeByID[id]
	ts, err := parseToks(p[2])
	if err != nil {
		return "bad-op"
	}
	target := reflect.New(t)
	u := obj.NewUnmarshaller(a.atl)
	berr, bp := safeBindU(u, target.Interface())
	if bp {
		return "I=B V=- O=viol:panic-in-bind"
	}
	if berr != nil {
		return "I=b V=- O=ok"
	}
	fl := runSteps(u, ts)
	// the same through one reused token slot with stale fields (what a pump feeds): when that differs, it is reported
	{
		target2 := reflect.New(t)
		u2 := obj.NewUnmarshaller(a.atl)
		if e2, p2 := safeBindU(u2, target2.Interface()); e2 == nil && !p2 {
			fl2 := runStepsSlot(u2, ts)
			if fl2 != fl || (strings.HasSuffix(fl, "D") && dumpValue(target2.Elem()) != dumpValue(target.Elem())) {
				fl, target = fl2, target2
			}
		}
	}
	oracle := "ok"
	val := "-"
	if strings.HasSuffix(fl, "P") {
		oracle = "viol:panic"
	}
	if strings.HasSuffix(fl, "D") {
		if !completeValue(ts[:len(fl)]) {
			oracle = "viol:done-on-incomplete-value"
		}
		val = dumpValue(target.Elem())
		// C09: a single integer token stored into an integer kind must be exact
		if len(ts) == 1 && (ts[0].Type == tok.TInt || ts[0].Type == tok.TUint) {
			if e := exactNumber(ts[0], target.Elem()); e != "" {
				oracle = "viol:" + e
			}
		}
		// ... and so must integers stored into the narrow fields of a struct (the last entry for a key counts)
		if t == reflect.TypeOf(Narrow{}) && len(ts) >= 2 && len(ts)%2 == 0 && ts[0].Type == tok.TMapOpen {
			last := map[int]tok.Token{}
			plain := true
			for i := 1; i+1 < len(ts)-1; i += 2 {
				k, v := ts[i], ts[i+1]
				if k.Type != tok.TString || len(k.Str) != 1 || k.Str[0] < 'a' || k.Str[0] > 'd' || (v.Type != tok.TInt && v.Type != tok.TUint) {
					plain = false
					break
				}
				last[int(k.Str[0]-'a')] = v
			}
			if plain {
				for fi, tk := range last {
					if e := exactNumber(tk, target.Elem().Field(fi)); e != "" {
						oracle = "viol:field-" + e
					}
				}
			}
		}
	}
	return fmt.Sprintf("I=%s V=%s O=%s", fl, val, oracle)
}

// exactNumber: after storing integer token t into v, v holds exactly that mathematical value.
func exactNumber(t tok.Token, v reflect.Value) string {
	for v.Kind() == reflect.Ptr || v.Kind() == reflect.Interface {
		if v.IsNil() {
			return ""
		}
		v = v.Elem()
	}
	neg := t.Type == tok.TInt && t.Int < 0
	var mag uint64
	if t.Type == tok.TInt {
		if neg {
			mag = uint64(-(t.Int + 1)) + 1
		} else {
			mag = uint64(t.Int)
		}
	} else {
		mag = t.Uint
	}
	switch v.Kind() {
	case reflect.Int, reflect.Int8, reflect.Int16, reflect.Int32, reflect.Int64:
		x := v.Int()
		if (x < 0) != neg && !(x == 0 && mag == 0) {
			return "number-changed-sign"
		}
		var xm uint64
		if x < 0 {
			xm = uint64(-(x + 1)) + 1
		} else {
			xm = uint64(x)
		}
		if xm != mag {
			return "number-silently-changed"
		}
	case reflect.Uint, reflect.Uint8, reflect.Uint16, reflect.Uint32, reflect.Uint64, reflect.Uintptr:
		if neg || v.Uint() != mag {
			return "number-silently-changed"
		}
	case reflect.Float32, reflect.Float64:
		f := v.Float()
		want := float64(mag)
		if neg {
			want = -want
		}
		if v.Kind() == reflect.Float32 {
			want = float64(float32(want))
		}
		if f != want || math.IsNaN(f) {
			return "float-store-inexact"
		}
	}
	return ""
}
