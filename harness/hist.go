package main

import (
	"bytes"
	"fmt"
	"io"
	"reflect"
	"strconv"
	"strings"

	"github.com/polydawn/refmt"
	"github.com/polydawn/refmt/cbor"
	"github.com/polydawn/refmt/json"
)

// feedReader is an io.Reader whose content is appended between calls.
type feedReader struct{ buf bytes.Buffer }

func (f *feedReader) Read(p []byte) (int, error) {
	if f.buf.Len() == 0 {
		return 0, io.EOF
	}
	return f.buf.Read(p)
}

type histState struct {
	format string
	m      map[int]refmt.Marshaller
	mbuf   map[int]*histWriter
	u      map[int]refmt.Unmarshaller
	ufeed  map[int]*feedReader
	c      map[int]refmt.Cloner
}

func (h *histState) eopts() refmt.EncodeOptions {
	if h.format == "json" {
		return json.EncodeOptions{}
	}
	return cbor.EncodeOptions{}
}
func (h *histState) dopts() refmt.DecodeOptions {
	if h.format == "json" {
		return json.DecodeOptions{}
	}
	return cbor.DecodeOptions{}
}

// hist <fmt> <op>;<op>;…   op = M|aid|tid|val   U|aid|tid|hex   C|aid|tid|val
// Every op is run on a long-lived instance (one per kind and atlas) AND on a fresh one; both results are printed.
func opHist(p []string) string {
	h := &histState{format: p[0], m: map[int]refmt.Marshaller{}, mbuf: map[int]*histWriter{}, u: map[int]refmt.Unmarshaller{},
		ufeed: map[int]*feedReader{}, c: map[int]refmt.Cloner{}}
	var outs []string
	oracle := "ok"
	// what earlier calls on the long-lived instances handed back: it must still read the same after every later call
	type kept struct {
		n    int
		v    reflect.Value
		dump string
	}
	var keep []kept
	for n, op := range strings.Split(p[1], ";") {
		f := strings.Split(op, "|")
		a := atlasByID(f[1])
		id, _ := strconv.Atoi(f[2])
		t := typeByID[id]
		var reused, fresh string
		switch f[0] {
		case "M":
			rv, err := buildValue(t, f[3])
			if err != nil {
				return "bad-op"
			}
			src := reflect.New(t)
			src.Elem().Set(rv)
			if h.m[a.id] == nil {
				h.mbuf[a.id] = &histWriter{}
				h.m[a.id] = refmt.NewMarshallerAtlased(h.eopts(), h.mbuf[a.id], a.atl)
			}
			// optional 5th field: the writer fails at that Write call of this call only (the consumer walks away mid-run)
			failAt := -1
			if len(f) > 4 {
				failAt, _ = strconv.Atoi(f[4])
			}
			h.mbuf[a.id].reset(failAt)
			e, pn := safely(func() error { return h.m[a.id].Marshal(src.Interface()) })
			reused = resStr(hexOrDash(h.mbuf[a.id].buf.Bytes()), e, pn)
			fw := &histWriter{}
			fw.reset(failAt)
			e2, pn2 := safely(func() error {
				return refmt.NewMarshallerAtlased(h.eopts(), fw, a.atl).Marshal(src.Interface())
			})
			fresh = resStr(hexOrDash(fw.buf.Bytes()), e2, pn2)
		case "U":
			data, _ := parseHexOrDash(f[3])
			if h.u[a.id] == nil {
				h.ufeed[a.id] = &feedReader{}
				h.u[a.id] = refmt.NewUnmarshallerAtlased(h.dopts(), h.ufeed[a.id], a.atl)
			}
			h.ufeed[a.id].buf.Write(data)
			dst := reflect.New(t)
			e, pn := safely(func() error { return h.u[a.id].Unmarshal(dst.Interface()) })
			reused = resStr(dumpValue(dst.Elem()), e, pn)
			if e == nil && !pn {
				keep = append(keep, kept{n, dst.Elem(), dumpValue(dst.Elem())})
			}
			// re-align the stream: whatever a failed call left unread is dropped, so the next call starts on its own item
			h.ufeed[a.id].buf.Reset()
			dst2 := reflect.New(t)
			e2, pn2 := safely(func() error { return refmt.UnmarshalAtlased(h.dopts(), data, dst2.Interface(), a.atl) })
			fresh = resStr(dumpValue(dst2.Elem()), e2, pn2)
		case "H":
			// the helpers that take no atlas (cbor.Marshal, refmt.Marshal): whatever they keep between calls is an instance
			// too; compared with a fresh Marshaller over the empty atlas
			rv, err := buildValue(t, f[3])
			if err != nil {
				return "bad-op"
			}
			src := reflect.New(t)
			src.Elem().Set(rv)
			var hb []byte
			e, pn := safely(func() error {
				var e error
				if h.format == "json" {
					hb, e = refmt.Marshal(h.eopts(), src.Interface())
				} else {
					hb, e = cbor.Marshal(src.Interface())
				}
				return e
			})
			reused = resStr(hexOrDash(hb), e, pn)
			fw := &histWriter{}
			fw.reset(-1)
			e2, pn2 := safely(func() error { return refmt.NewMarshallerAtlased(h.eopts(), fw, a.atl).Marshal(src.Interface()) })
			fresh = resStr(hexOrDash(fw.buf.Bytes()), e2, pn2)
		case "B":
			// a call with a target Bind rejects (not a pointer) while the next item is already waiting in the stream;
			// then the proper call: it must get that very item (the rejected call consumes nothing)
			data, _ := parseHexOrDash(f[3])
			if h.u[a.id] == nil {
				h.ufeed[a.id] = &feedReader{}
				h.u[a.id] = refmt.NewUnmarshallerAtlased(h.dopts(), h.ufeed[a.id], a.atl)
			}
			h.ufeed[a.id].buf.Write(data)
			bad := reflect.New(t).Elem().Interface() // a value, not a pointer to one
			if t.Kind() == reflect.Interface {
				bad = 5
			}
			be, bpn := safely(func() error { return h.u[a.id].Unmarshal(bad) })
			dst := reflect.New(t)
			e, pn := safely(func() error { return h.u[a.id].Unmarshal(dst.Interface()) })
			reused = resStr(dumpValue(dst.Elem()), e, pn)
			if bpn {
				reused = "panic"
			} else if be == nil {
				reused = "bad-target-accepted"
			}
			h.ufeed[a.id].buf.Reset()
			dst2 := reflect.New(t)
			e2, pn2 := safely(func() error { return refmt.UnmarshalAtlased(h.dopts(), data, dst2.Interface(), a.atl) })
			fresh = resStr(dumpValue(dst2.Elem()), e2, pn2)
		case "X":
			// clone into a variable of ANOTHER type: the destination may reject in the middle of the source's stream
			rv, err := buildValue(t, f[3])
			if err != nil {
				return "bad-op"
			}
			id2, _ := strconv.Atoi(f[4])
			t2 := typeByID[id2]
			src := reflect.New(t)
			src.Elem().Set(rv)
			if h.c[a.id] == nil {
				h.c[a.id] = refmt.NewCloner(a.atl)
			}
			dst := reflect.New(t2)
			e, pn := safely(func() error { return h.c[a.id].Clone(src.Interface(), dst.Interface()) })
			reused = resStr(dumpValue(dst.Elem()), e, pn)
			dst2 := reflect.New(t2)
			e2, pn2 := safely(func() error { return refmt.CloneAtlased(src.Interface(), dst2.Interface(), a.atl) })
			fresh = resStr(dumpValue(dst2.Elem()), e2, pn2)
		case "C":
			rv, err := buildValue(t, f[3])
			if err != nil {
				return "bad-op"
			}
			src := reflect.New(t)
			src.Elem().Set(rv)
			if h.c[a.id] == nil {
				h.c[a.id] = refmt.NewCloner(a.atl)
			}
			dst := reflect.New(t)
			e, pn := safely(func() error { return h.c[a.id].Clone(src.Interface(), dst.Interface()) })
			reused = resStr(dumpValue(dst.Elem()), e, pn)
			if e == nil && !pn {
				keep = append(keep, kept{n, dst.Elem(), dumpValue(dst.Elem())})
			}
			dst2 := reflect.New(t)
			e2, pn2 := safely(func() error { return refmt.CloneAtlased(src.Interface(), dst2.Interface(), a.atl) })
			fresh = resStr(dumpValue(dst2.Elem()), e2, pn2)
		}
		outs = append(outs, reused)
		for _, k := range keep {
			if oracle == "ok" && k.n < n && dumpValue(k.v) != k.dump {
				oracle = fmt.Sprintf("viol:value-returned-by-call-%d-changed-during-call-%d:%s", k.n, n, k.dump)
			}
		}
		if reused != fresh && oracle == "ok" {
			if reused == "panic" {
				oracle = fmt.Sprintf("viol:panic-at-call-%d", n)
			} else {
				oracle = fmt.Sprintf("viol:reused-instance-differs-from-fresh-at-call-%d:%s", n, fresh)
			}
		}
	}
	return "I=" + strings.Join(outs, ";") + " O=" + oracle
}

// histWriter: a buffer whose k-th Write call (counted per marshal call) fails, if k >= 0
type histWriter struct {
	buf    bytes.Buffer
	failAt int
	calls  int
}

func (w *histWriter) reset(failAt int) {
	w.buf.Reset()
	w.failAt = failAt
	w.calls = 0
}

func (w *histWriter) Write(p []byte) (int, error) {
	i := w.calls
	w.calls++
	if w.failAt >= 0 && i == w.failAt {
		return 0, errInjected
	}
	return w.buf.Write(p)
}

func resStr(ok string, err error, panicked bool) string {
	if panicked {
		return "panic"
	}
	if err != nil {
		_ = err.Error() // callers format their errors (which must not touch anything shared either)
		return "err"
	}
	return ok
}

// frame <fmt> <aid> <tid> <val>|<val>|…: marshal back to back into one stream with one Marshaller, read back with one Unmarshaller
func opFrame(p []string, separate bool) string {
	a := atlasByID(p[1])
	id, _ := strconv.Atoi(p[2])
	t := typeByID[id]
	var stream bytes.Buffer
	var eo refmt.EncodeOptions = cbor.EncodeOptions{}
	var do refmt.DecodeOptions = cbor.DecodeOptions{}
	if p[0] == "json" {
		eo, do = json.EncodeOptions{}, json.DecodeOptions{}
	}
	m := refmt.NewMarshallerAtlased(eo, &stream, a.atl)
	vals := strings.Split(p[3], "|")
	for _, vd := range vals {
		rv, err := buildValue(t, vd)
		if err != nil {
			return "bad-op"
		}
		src := reflect.New(t)
		src.Elem().Set(rv)
		e, pn := safely(func() error { return m.Marshal(src.Interface()) })
		if e != nil || pn {
			return "I=marshal-failed O=ok"
		}
		if p[0] == "json" && separate {
			stream.WriteByte('\n') // JSON numbers are not self-delimiting: items are separated by whitespace
		}
	}
	u := refmt.NewUnmarshallerAtlased(do, &stream, a.atl)
	var outs []string
	for range vals {
		dst := reflect.New(t)
		e, pn := safely(func() error { return u.Unmarshal(dst.Interface()) })
		outs = append(outs, resStr(dumpValue(dst.Elem()), e, pn))
	}
	rest := stream.Len()
	return fmt.Sprintf("I=%s/%d O=ok", strings.Join(outs, "|"), rest)
}
