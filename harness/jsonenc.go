package main

import (
	"io"
	"bytes"
	stdjson "encoding/json"
	"fmt"
	"math"
	"strconv"
	"strings"
	"unicode/utf8"

	"github.com/polydawn/refmt/json"
	"github.com/polydawn/refmt/tok"
)

func perByteValidUTF8(s string) string {
	var sb strings.Builder
	for i := 0; i < len(s); {
		r, size := utf8.DecodeRuneInString(s[i:])
		if r == utf8.RuneError && size == 1 {
			sb.WriteString("�")
		} else {
			sb.WriteString(s[i : i+size])
		}
		i += size
	}
	return sb.String()
}

// sameEncoded compares the value the tokens denote with encoding/json's reading of the encoder's output.
func sameEncoded(a interface{}, b interface{}) string {
	switch bv := b.(type) {
	case nil:
		if a != nil {
			return "null differs"
		}
	case bool:
		if av, ok := a.(bool); !ok || av != bv {
			return "bool differs"
		}
	case string:
		av, ok := a.(string)
		if !ok || perByteValidUTF8(av) != bv {
			return fmt.Sprintf("string differs: %q vs %q", a, bv)
		}
	case stdjson.Number:
		s := string(bv)
		switch av := a.(type) {
		case int64:
			if i, err := strconv.ParseInt(s, 10, 64); err != nil || i != av {
				return fmt.Sprintf("int %d written as %s", av, s)
			}
		case uint64:
			if u, err := strconv.ParseUint(s, 10, 64); err != nil || u != av {
				return fmt.Sprintf("uint %d written as %s", av, s)
			}
		case float64:
			f, err := strconv.ParseFloat(s, 64)
			if err != nil || (math.Float64bits(f) != math.Float64bits(av) && !(f == 0 && av == 0)) {
				return fmt.Sprintf("float %v written as %s", av, s)
			}
		default:
			return "number vs " + fmt.Sprintf("%T", a)
		}
	case []interface{}:
		av, ok := a.([]interface{})
		if !ok || len(av) != len(bv) {
			return "array differs"
		}
		for i := range bv {
			if d := sameEncoded(av[i], bv[i]); d != "" {
				return d
			}
		}
	case map[string]interface{}:
		av, ok := a.([]kv)
		if !ok {
			return "object differs"
		}
		last := map[string]interface{}{}
		for _, e := range av {
			last[perByteValidUTF8(e.k)] = e.v
		}
		if len(last) != len(bv) {
			return "object key sets differ"
		}
		for k, v := range bv {
			x, ok := last[k]
			if !ok {
				return "missing key"
			}
			if d := sameEncoded(x, v); d != "" {
				return d
			}
		}
	}
	return ""
}

func stripJSONWs(t []byte) []byte {
	out := make([]byte, 0, len(t))
	inStr, esc := false, false
	for _, c := range t {
		if inStr {
			out = append(out, c)
			if esc {
				esc = false
			} else if c == '\\' {
				esc = true
			} else if c == '"' {
				inStr = false
			}
			continue
		}
		if c == '"' {
			inStr = true
			out = append(out, c)
			continue
		}
		if c == ' ' || c == '\t' || c == '\r' || c == '\n' {
			continue
		}
		out = append(out, c)
	}
	return out
}

func joinCalls(calls [][]byte) []byte {
	var all []byte
	for _, c := range calls {
		all = append(all, c...)
	}
	return all
}

func parseJSONOpts(line, indent string) json.EncodeOptions {
	var o json.EncodeOptions
	if line != "nil" {
		o.Line, _ = parseHexOrDash(line)
	}
	o.Indent, _ = parseHexOrDash(indent)
	if len(o.Indent) == 0 {
		o.Indent = nil
	}
	return o
}

func opJsonEnc(p []string) string {
	ts, err := parseToks(p[2])
	if err != nil {
		return "bad-op"
	}
	opts := parseJSONOpts(p[0], p[1])
	fl, w := encodeBoth(func(w io.Writer) stepper { return json.NewEncoder(w, opts) }, ts)
	out := joinCalls(w.calls)
	rt, oracle := "-", "ok"
	if strings.HasSuffix(fl, "D") {
		buf := bytes.NewBuffer(out)
		dec := json.NewDecoder(buf)
		toks, class, _ := runDecoder(dec, 2*len(out)+8)
		rt = showDec(toks, buf.Len(), class)
		if len(fl) == len(ts) {
			// oracle: an independent parser reads the same value; pretty == compact modulo whitespace
			pos := 0
			v, ok := tokensToValue(ts, &pos)
			sd := stdjson.NewDecoder(bytes.NewReader(out))
			sd.UseNumber()
			var ref interface{}
			switch {
			case !stdjson.Valid(out):
				oracle = "viol:output-not-valid-json"
			case !ok:
				oracle = "viol:accepted-non-value"
			case sd.Decode(&ref) != nil:
				oracle = "viol:oracle-cannot-read-output"
			default:
				if d := sameEncoded(v, ref); d != "" {
					oracle = "viol:value-differs:" + strings.ReplaceAll(d, " ", "_")
				}
			}
			if oracle == "ok" {
				w2 := &recordingWriter{}
				runSteps(json.NewEncoder(w2, json.EncodeOptions{}), ts)
				compact := joinCalls(w2.calls)
				if !bytes.Equal(stripJSONWs(out), compact) || !bytes.Equal(stripJSONWs(compact), compact) {
					oracle = "viol:pretty-differs-from-compact"
				}
			}
		}
	} else if strings.HasSuffix(fl, "P") {
		oracle = "viol:panic"
	}
	return "I=" + fl + " W=" + showWrites(w.calls) + " R=" + rt + " O=" + oracle
}

var _ = tok.TNull
