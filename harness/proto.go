package main

// Line protocol shared with the Lean driver (lean/Driver/Proto.lean).

import (
	"encoding/hex"
	"fmt"
	"math"
	"strconv"
	"strings"

	"github.com/polydawn/refmt/tok"
)

func hexOrDash(b []byte) string {
	if len(b) == 0 {
		return "-"
	}
	return hex.EncodeToString(b)
}

func parseHexOrDash(s string) ([]byte, error) {
	if s == "-" {
		return []byte{}, nil
	}
	return hex.DecodeString(s)
}

func showTok(t tok.Token) string {
	var sb strings.Builder
	closeTok := t.Type == tok.TMapClose || t.Type == tok.TArrClose
	if t.Tagged && !closeTok { // decoders leave Tagged stale on close tokens; not observable downstream
		sb.WriteString("t" + strconv.Itoa(t.Tag) + ".")
	}
	switch t.Type {
	case tok.TMapOpen:
		sb.WriteString("{" + strconv.Itoa(t.Length))
	case tok.TMapClose:
		sb.WriteString("}")
	case tok.TArrOpen:
		sb.WriteString("[" + strconv.Itoa(t.Length))
	case tok.TArrClose:
		sb.WriteString("]")
	case tok.TNull:
		sb.WriteString("0")
	case tok.TString:
		sb.WriteString("s" + hex.EncodeToString([]byte(t.Str)))
	case tok.TBytes:
		sb.WriteString("x" + hex.EncodeToString(t.Bytes))
	case tok.TBool:
		if t.Bool {
			sb.WriteString("b1")
		} else {
			sb.WriteString("b0")
		}
	case tok.TInt:
		sb.WriteString("i" + strconv.FormatInt(t.Int, 10))
	case tok.TUint:
		sb.WriteString("u" + strconv.FormatUint(t.Uint, 10))
	case tok.TFloat64:
		sb.WriteString(fmt.Sprintf("f%016x", math.Float64bits(t.Float64)))
	default:
		sb.WriteString("?" + strconv.Itoa(int(t.Type)))
	}
	return sb.String()
}

func showToks(ts []tok.Token) string {
	if len(ts) == 0 {
		return "-"
	}
	parts := make([]string, len(ts))
	for i, t := range ts {
		parts[i] = showTok(t)
	}
	return strings.Join(parts, ",")
}

func parseTok(s string) (tok.Token, error) {
	var t tok.Token
	if strings.HasPrefix(s, "t") {
		i := strings.IndexByte(s, '.')
		if i < 0 {
			return t, fmt.Errorf("bad tag in %q", s)
		}
		n, err := strconv.Atoi(s[1:i])
		if err != nil {
			return t, err
		}
		t.Tagged = true
		t.Tag = n
		s = s[i+1:]
	}
	if s == "" {
		return t, fmt.Errorf("empty token")
	}
	arg := s[1:]
	var err error
	switch s[0] {
	case '{':
		t.Type = tok.TMapOpen
		t.Length, err = strconv.Atoi(arg)
	case '}':
		t.Type = tok.TMapClose
	case '[':
		t.Type = tok.TArrOpen
		t.Length, err = strconv.Atoi(arg)
	case ']':
		t.Type = tok.TArrClose
	case '0':
		t.Type = tok.TNull
	case 's':
		t.Type = tok.TString
		var b []byte
		b, err = hex.DecodeString(arg)
		t.Str = string(b)
	case 'x':
		t.Type = tok.TBytes
		t.Bytes, err = hex.DecodeString(arg)
	case 'b':
		t.Type = tok.TBool
		t.Bool = arg == "1"
	case 'i':
		t.Type = tok.TInt
		t.Int, err = strconv.ParseInt(arg, 10, 64)
	case 'u':
		t.Type = tok.TUint
		t.Uint, err = strconv.ParseUint(arg, 10, 64)
	case 'f':
		t.Type = tok.TFloat64
		var u uint64
		u, err = strconv.ParseUint(arg, 16, 64)
		t.Float64 = math.Float64frombits(u)
	default:
		err = fmt.Errorf("bad token %q", s)
	}
	return t, err
}

func parseToks(s string) ([]tok.Token, error) {
	if s == "-" {
		return nil, nil
	}
	parts := strings.Split(s, ",")
	out := make([]tok.Token, len(parts))
	for i, p := range parts {
		t, err := parseTok(p)
		if err != nil {
			return nil, err
		}
		out[i] = t
	}
	return out, nil
}

func showWrites(ws [][]byte) string {
	if len(ws) == 0 {
		return "-"
	}
	parts := make([]string, len(ws))
	for i, w := range ws {
		parts[i] = hex.EncodeToString(w)
	}
	return strings.Join(parts, "|")
}
