package main

import (
	"math/big"
	"bytes"
	"encoding/hex"
	stdjson "encoding/json"
	"fmt"
	"math"
	"os/exec"
	"reflect"
	"strconv"
	"strings"
	"unicode/utf8"

	"github.com/polydawn/refmt"
	"github.com/polydawn/refmt/cbor"
	"github.com/polydawn/refmt/json"
	"github.com/polydawn/refmt/shared"
	"github.com/polydawn/refmt/tok"
)

func fmtOpts(f, line, indent string) (refmt.EncodeOptions, refmt.DecodeOptions) {
	if f == "json" {
		return parseJSONOpts(line, indent), json.DecodeOptions{}
	}
	return cbor.EncodeOptions{}, cbor.DecodeOptions{}
}

// remarshal <fmt> <aid> <tid> <val>:  b1 = M(v); b2 = M(U_iface(b1)); b3 = M(U_iface(b2)); back = U_T(b2)
func opRemarshal(p []string) string {
	a := atlasByID(p[1])
	id, _ := strconv.Atoi(p[2])
	t := typeByID[id]
	rv, err := buildValue(t, p[3])
	if err != nil {
		return "bad-op " + err.Error()
	}
	eo, do := fmtOpts(p[0], "nil", "-")
	src := reflect.New(t)
	src.Elem().Set(rv)
	var b1, b2, b3 []byte
	var back string
	class := "ok"
	_, panicked := safely(func() error {
		var e error
		if b1, e = refmt.MarshalAtlased(eo, src.Interface(), a.atl); e != nil {
			class = "err1"
			return e
		}
		var u1 interface{}
		if e = refmt.UnmarshalAtlased(do, b1, &u1, a.atl); e != nil {
			class = "err2"
			return e
		}
		if b2, e = refmt.MarshalAtlased(eo, &u1, a.atl); e != nil {
			class = "err3"
			return e
		}
		dst := reflect.New(t)
		if e = refmt.UnmarshalAtlased(do, b2, dst.Interface(), a.atl); e != nil {
			class = "err4"
			return e
		}
		back = dumpValue(dst.Elem())
		var u2 interface{}
		if e = refmt.UnmarshalAtlased(do, b2, &u2, a.atl); e != nil {
			class = "err5"
			return e
		}
		if b3, e = refmt.MarshalAtlased(eo, &u2, a.atl); e != nil {
			class = "err6"
			return e
		}
		return nil
	})
	if panicked {
		class = "panic"
	}
	oracle := "ok"
	switch {
	case class == "panic":
		oracle = "viol:panic"
	case class == "err1":
		// value not representable: nothing claimed
	case class != "ok":
		oracle = "viol:remarshal-chain-failed-at-" + class
	case !bytes.Equal(b2, b3):
		oracle = "viol:not-a-fixpoint"
	case nativeOnly(rv, p[0] == "json") && !bytes.Equal(b1, b2):
		oracle = "viol:native-value-not-byte-identical-after-one-remarshal"
	}
	return fmt.Sprintf("I=%s/%s/%s/%s/%s O=%s", hexOrDash(b1), hexOrDash(b2), hexOrDash(b3), orDash(back), class, oracle)
}

func orDash(s string) string {
	if s == "" {
		return "-"
	}
	return s
}

// clone <aid> <tid> <val>: dst = Clone(src); then probe every mutable location for aliasing
func opClone(p []string, byValue bool, prefill bool) string {
	a := atlasByID(p[0])
	id, _ := strconv.Atoi(p[1])
	t := typeByID[id]
	rv, err := buildValue(t, p[2])
	if err != nil {
		return "bad-op " + err.Error()
	}
	src := reflect.New(t)
	src.Elem().Set(rv)
	dst := reflect.New(t)
	if prefill {
		// `dst := src; Clone(src, &dst)`: the destination starts out sharing everything with the source
		dst.Elem().Set(src.Elem())
	}
	before := dumpValue(src.Elem())
	// the source is handed over by pointer or by value (a by-value array / struct still shares whatever it references)
	srcArg := func() interface{} {
		if byValue {
			return src.Elem().Interface()
		}
		return src.Interface()
	}
	cerr, panicked := safely(func() error { return refmt.CloneAtlased(srcArg(), dst.Interface(), a.atl) })
	if panicked {
		return "I=-/panic O=viol:panic"
	}
	if cerr != nil {
		return "I=-/err O=ok"
	}
	out := dumpValue(dst.Elem())
	oracle := "ok"
	if dumpValue(src.Elem()) != before {
		oracle = "viol:source-modified"
	}
	// no slice (with capacity) of the copy may start where a slice of the source starts: even an EMPTY slice that shares
	// its array lets an append through the copy write into the source's storage
	if oracle == "ok" {
		sp := map[uintptr]bool{}
		collectSlicePtrs(src.Elem(), sp, map[uintptr]bool{})
		dp := map[uintptr]bool{}
		collectSlicePtrs(dst.Elem(), dp, map[uintptr]bool{})
		for p := range dp {
			if sp[p] {
				oracle = "viol:copy-shares-a-backing-array-with-the-source"
			}
		}
	}
	// mutate everything reachable from dst; src must not change.  Then the other way round.
	if oracle == "ok" {
		mutateAll(dst.Elem(), map[uintptr]bool{})
		if dumpValue(src.Elem()) != before {
			oracle = "viol:mutating-the-copy-changes-the-source"
		}
	}
	if oracle == "ok" {
		dst2 := reflect.New(t)
		if prefill {
			dst2.Elem().Set(src.Elem())
		}
		if e, pn := safely(func() error { return refmt.CloneAtlased(srcArg(), dst2.Interface(), a.atl) }); e == nil && !pn {
			want := dumpValue(dst2.Elem())
			mutateAll(src.Elem(), map[uintptr]bool{})
			if dumpValue(dst2.Elem()) != want {
				oracle = "viol:mutating-the-source-changes-the-copy"
			}
		}
	}
	return fmt.Sprintf("I=%s/ok O=%s", out, oracle)
}

// collectSlicePtrs records the data pointer of every slice with capacity reachable from v.
func collectSlicePtrs(v reflect.Value, out map[uintptr]bool, seen map[uintptr]bool) {
	switch v.Kind() {
	case reflect.Ptr:
		if v.IsNil() || seen[v.Pointer()] {
			return
		}
		seen[v.Pointer()] = true
		collectSlicePtrs(v.Elem(), out, seen)
	case reflect.Interface:
		if !v.IsNil() {
			collectSlicePtrs(v.Elem(), out, seen)
		}
	case reflect.Slice:
		if v.Cap() > 0 {
			out[v.Pointer()] = true
		}
		for i := 0; i < v.Len(); i++ {
			collectSlicePtrs(v.Index(i), out, seen)
		}
	case reflect.Array:
		for i := 0; i < v.Len(); i++ {
			collectSlicePtrs(v.Index(i), out, seen)
		}
	case reflect.Map:
		for _, k := range v.MapKeys() {
			collectSlicePtrs(v.MapIndex(k), out, seen)
		}
	case reflect.Struct:
		for i := 0; i < v.NumField(); i++ {
			collectSlicePtrs(v.Field(i), out, seen)
		}
	}
}

// mutateAll flips every settable scalar / byte / element reachable from v.
func mutateAll(v reflect.Value, seen map[uintptr]bool) {
	switch v.Kind() {
	case reflect.Ptr:
		if v.IsNil() || seen[v.Pointer()] {
			return
		}
		seen[v.Pointer()] = true
		mutateAll(v.Elem(), seen)
	case reflect.Interface:
		if v.IsNil() {
			return
		}
		e := v.Elem()
		switch e.Kind() {
		case reflect.Ptr, reflect.Map, reflect.Slice:
			mutateAll(e, seen) // shared storage behind the interface
		}
	case reflect.Slice:
		for i := 0; i < v.Len(); i++ {
			mutateAll(v.Index(i), seen)
		}
	case reflect.Array:
		for i := 0; i < v.Len(); i++ {
			mutateAll(v.Index(i), seen)
		}
	case reflect.Map:
		if v.IsNil() {
			return
		}
		for _, k := range v.MapKeys() {
			e := v.MapIndex(k)
			tmp := reflect.New(e.Type()).Elem()
			tmp.Set(e)
			mutateAll(tmp, seen)
		}
		// storage of the map itself: delete one entry
		for _, k := range v.MapKeys() {
			v.SetMapIndex(k, reflect.Value{})
			break
		}
	case reflect.Struct:
		for i := 0; i < v.NumField(); i++ {
			if v.Field(i).CanSet() {
				mutateAll(v.Field(i), seen)
			}
		}
	case reflect.Bool:
		if v.CanSet() {
			v.SetBool(!v.Bool())
		}
	case reflect.Int, reflect.Int8, reflect.Int16, reflect.Int32, reflect.Int64:
		if v.CanSet() {
			v.SetInt(v.Int() ^ 1)
		}
	case reflect.Uint, reflect.Uint8, reflect.Uint16, reflect.Uint32, reflect.Uint64, reflect.Uintptr:
		if v.CanSet() {
			v.SetUint(v.Uint() ^ 1)
		}
	case reflect.Float32, reflect.Float64:
		if v.CanSet() {
			v.SetFloat(v.Float() + 1)
		}
	case reflect.String:
		if v.CanSet() {
			v.SetString(v.String() + "!")
		}
	}
}

// pump <src> <sink> <line> <indent> <hex>: decoder of one format straight into an encoder of the other
func opPump(p []string) string {
	data, err := parseHexOrDash(p[4])
	if err != nil {
		return "bad-op"
	}
	in := bytes.NewBuffer(data)
	var out bytes.Buffer
	var src shared.TokenSource
	var sink shared.TokenSink
	if p[0] == "cbor" {
		src = cbor.NewDecoder(cbor.DecodeOptions{}, in)
	} else {
		src = json.NewDecoder(in)
	}
	if p[1] == "cbor" {
		sink = cbor.NewEncoder(&out)
	} else {
		sink = json.NewEncoder(&out, parseJSONOpts(p[2], p[3]))
	}
	perr, pp := safePump(shared.TokenPump{TokenSource: src, TokenSink: sink})
	class := "ok"
	if pp {
		class = "panic"
	} else if perr != nil {
		class = "err"
	}
	oracle := "ok"
	if class == "panic" {
		oracle = "viol:panic"
	}
	// an independent reader must accept what the pump accepted (JSON source; refmt's one leniency, a comma before a
	// closing bracket, removed first)
	if class == "ok" && p[0] == "json" {
		// (after a top-level number the decoder has read one look-ahead byte, which stays in its push-back)
		raw := data[:len(data)-in.Len()]
		consumed := bytes.TrimSpace(raw)
		if !stdjson.Valid(lenient(consumed)) && !(len(raw) > 0 && stdjson.Valid(lenient(bytes.TrimSpace(raw[:len(raw)-1])))) {
			oracle = "viol:pump-accepted-a-text-that-is-not-json"
		}
	}
	// the slow route: Unmarshal into an untyped variable, then Marshal; compare VALUES (spelling and key order may differ)
	slow := "-"
	inModel := false
	if class == "ok" {
		// is the input inside the data model common to both formats?
		var chk stepper
		if p[0] == "cbor" {
			chk = cbor.NewDecoder(cbor.DecodeOptions{}, bytes.NewBuffer(data))
		} else {
			chk = json.NewDecoder(bytes.NewBuffer(data))
		}
		its, cls, _ := runDecoder(chk, 2*len(data)+8)
		inModel = cls == "ok" && tokensInCommonModel(its)
	}
	if class == "ok" && inModel {
		var u interface{}
		_, do := fmtOpts(p[0], "nil", "-")
		eo, sinkDo := fmtOpts(p[1], p[2], p[3])
		var slowBytes []byte
		e, pn := safely(func() error {
			if e := refmt.Unmarshal(do, data[:len(data)-in.Len()], &u); e != nil {
				return e
			}
			b, e := refmt.Marshal(eo, &u)
			slowBytes = b
			slow = hexOrDash(b)
			return e
		})
		if pn || e != nil {
			slow = "fail"
			oracle = "viol:slow-route-fails-where-the-pump-succeeds"
		} else {
			var vOut, vSlow interface{}
			e1 := refmt.Unmarshal(sinkDo, out.Bytes(), &vOut)
			e2 := refmt.Unmarshal(sinkDo, slowBytes, &vSlow)
			switch {
			case e1 != nil:
				oracle = "viol:pump-output-does-not-decode"
			case e2 != nil:
				oracle = "viol:slow-output-does-not-decode"
			case !sameValue(vOut, vSlow):
				oracle = "viol:pump-and-slow-route-denote-different-values"
			case !sameValue(u, vOut):
				oracle = "viol:output-denotes-a-different-value-than-the-input"
			}
		}
	}
	res := fmt.Sprintf("I=%s/%d/%s W=%s O=%s", hexOrDash(out.Bytes()), in.Len(), class, slow, oracle)
	if len(p) > 5 && p[5] == "cli" && cliPath != "" {
		c := runCLI(p[0]+"="+p[1], data)
		res += " C=" + c
		// the hex flavours
		if p[0] == "json" && p[1] == "cbor" {
			if h := runCLI("json=cbor.hex", data); h != "err" && c != "err" {
				raw, _ := hex.DecodeString(h)
				if hexOrDash([]byte(strings.TrimSpace(string(raw)))) != hexOrDash([]byte(c)) && strings.TrimSpace(string(raw)) != c {
					res += " CH=differs"
				}
			}
		}
		if p[0] == "cbor" && p[1] == "json" {
			if h := runCLI("cbor.hex=json", []byte(hex.EncodeToString(data))); h != c {
				res += " CH=differs"
			}
		}
	}
	return res
}

// sameValue compares two untyped values: maps unordered, numbers by mathematical value.
func sameValue(a, b interface{}) bool {
	switch av := a.(type) {
	case map[string]interface{}:
		bv, ok := b.(map[string]interface{})
		if !ok || len(av) != len(bv) {
			return false
		}
		for k, x := range av {
			y, ok := bv[k]
			if !ok || !sameValue(x, y) {
				return false
			}
		}
		return true
	case []interface{}:
		bv, ok := b.([]interface{})
		if !ok || len(av) != len(bv) {
			return false
		}
		for i := range av {
			if !sameValue(av[i], bv[i]) {
				return false
			}
		}
		return true
	case []byte:
		bv, ok := b.([]byte)
		return ok && bytes.Equal(av, bv)
	case int, uint64, float64:
		return sameNumber(a, b)
	}
	return reflect.DeepEqual(a, b)
}

func sameNumber(a, b interface{}) bool {
	af, aIsF := a.(float64)
	bf, bIsF := b.(float64)
	if aIsF || bIsF {
		toF := func(x interface{}) (float64, bool) {
			switch v := x.(type) {
			case int:
				return float64(v), true
			case uint64:
				return float64(v), true
			case float64:
				return v, true
			}
			return 0, false
		}
		x, ok1 := toF(a)
		y, ok2 := toF(b)
		_, _ = af, bf
		return ok1 && ok2 && (x == y || (x != x && y != y))
	}
	switch av := a.(type) {
	case int:
		switch bv := b.(type) {
		case int:
			return av == bv
		case uint64:
			return av >= 0 && uint64(av) == bv
		}
	case uint64:
		switch bv := b.(type) {
		case int:
			return bv >= 0 && uint64(bv) == av
		case uint64:
			return av == bv
		}
	}
	return false
}

var cliPath string

func runCLI(sub string, data []byte) string {
	cmd := exec.Command(cliPath, sub)
	cmd.Stdin = bytes.NewReader(data)
	var o, e bytes.Buffer
	cmd.Stdout, cmd.Stderr = &o, &e
	err := cmd.Run()
	if err != nil {
		return "err"
	}
	return hexOrDash(o.Bytes())
}

var _ = strings.Join

// nativeOnly: the value is built only from what an untyped variable holds natively
// (nil, bool, int, float64, string, []byte, []interface{}, map[string]interface{}); for JSON, no -0.
func nativeOnly(v reflect.Value, isJSON bool) bool {
	switch v.Kind() {
	case reflect.Interface:
		if v.IsNil() {
			return true
		}
		return nativeOnly(v.Elem(), isJSON)
	case reflect.Bool, reflect.String:
		return v.Type().PkgPath() == ""
	case reflect.Int:
		return v.Type() == reflect.TypeOf(int(0))
	case reflect.Float64:
		if v.Type() != reflect.TypeOf(float64(0)) {
			return false
		}
		f := v.Float()
		if isJSON && (f == 0 && 1/f < 0) {
			return false
		}
		// JSON re-types integral floats as integers, whose text is the same: still byte-identical
		return true
	case reflect.Slice:
		if v.Type() == reflect.TypeOf([]byte{}) {
			return true
		}
		if v.Type() != reflect.TypeOf([]interface{}{}) {
			return false
		}
		for i := 0; i < v.Len(); i++ {
			if !nativeOnly(v.Index(i), isJSON) {
				return false
			}
		}
		return true
	case reflect.Map:
		if v.Type() != reflect.TypeOf(map[string]interface{}{}) {
			return false
		}
		for _, k := range v.MapKeys() {
			if !nativeOnly(v.MapIndex(k), isJSON) {
				return false
			}
		}
		return true
	}
	return false
}

func tokensInCommonModel(ts []tok.Token) bool {
	depth := 0
	type fr struct {
		isMap bool
		key   bool
		seen  map[string]bool
	}
	var st []fr
	for _, t := range ts {
		if t.Tagged {
			return false
		}
		atKey := len(st) > 0 && st[len(st)-1].isMap && st[len(st)-1].key
		switch t.Type {
		case tok.TMapOpen:
			if atKey {
				return false
			}
			if len(st) > 0 && st[len(st)-1].isMap {
				st[len(st)-1].key = true
			}
			st = append(st, fr{true, true, map[string]bool{}})
			depth++
			continue
		case tok.TArrOpen:
			if atKey {
				return false
			}
			if len(st) > 0 && st[len(st)-1].isMap {
				st[len(st)-1].key = true
			}
			st = append(st, fr{false, false, nil})
			continue
		case tok.TMapClose, tok.TArrClose:
			st = st[:len(st)-1]
			continue
		case tok.TBytes:
			return false
		case tok.TString:
			if !utf8.ValidString(t.Str) {
				return false
			}
		case tok.TFloat64:
			if math.IsNaN(t.Float64) || math.IsInf(t.Float64, 0) {
				return false
			}
		}
		if atKey {
			if t.Type != tok.TString || st[len(st)-1].seen[t.Str] {
				return false // non-string or duplicate key: outside the common data model
			}
			st[len(st)-1].seen[t.Str] = true
			st[len(st)-1].key = false
		} else if len(st) > 0 && st[len(st)-1].isMap {
			st[len(st)-1].key = true
		}
	}
	return true
}

// clonex <aid> <tid-src> <tid-dst> <val>: Clone into a variable of ANOTHER type (source handed over by value and by
// pointer).  Oracle for numbers: an integer lands exactly or the call fails.
func opCloneX(p []string) string {
	a := atlasByID(p[0])
	id, _ := strconv.Atoi(p[1])
	id2, _ := strconv.Atoi(p[2])
	t, t2 := typeByID[id], typeByID[id2]
	rv, err := buildValue(t, p[3])
	if err != nil {
		return "bad-op " + err.Error()
	}
	src := reflect.New(t)
	src.Elem().Set(rv)
	run := func(arg interface{}) (string, reflect.Value) {
		dst := reflect.New(t2)
		e, pn := safely(func() error { return refmt.CloneAtlased(arg, dst.Interface(), a.atl) })
		if pn {
			return "-/panic", dst
		}
		if e != nil {
			return "-/err", dst
		}
		return dumpValue(dst.Elem()) + "/ok", dst
	}
	byPtr, _ := run(src.Interface())
	byVal, dst := run(src.Elem().Interface())
	oracle := "ok"
	switch {
	case strings.HasSuffix(byVal, "/panic") || strings.HasSuffix(byPtr, "/panic"):
		oracle = "viol:panic"
	case byPtr != byVal:
		oracle = "viol:by-value-" + byVal + "-differs-from-by-pointer"
	case strings.HasSuffix(byVal, "/ok"):
		if sn, ok := exactInt(src.Elem()); ok {
			if dn, ok2 := exactInt(dst.Elem()); ok2 && sn.Cmp(dn) != 0 {
				oracle = "viol:number-silently-changed:" + sn.String() + "-became-" + dn.String()
			}
		}
	}
	return fmt.Sprintf("I=%s O=%s", byVal, oracle)
}

// exactInt: the mathematical value of an integer variable (through pointers and interfaces)
func exactInt(v reflect.Value) (*big.Int, bool) {
	for v.Kind() == reflect.Ptr || v.Kind() == reflect.Interface {
		if v.IsNil() {
			return nil, false
		}
		v = v.Elem()
	}
	switch v.Kind() {
	case reflect.Int, reflect.Int8, reflect.Int16, reflect.Int32, reflect.Int64:
		return big.NewInt(v.Int()), true
	case reflect.Uint, reflect.Uint8, reflect.Uint16, reflect.Uint32, reflect.Uint64, reflect.Uintptr:
		return new(big.Int).SetUint64(v.Uint()), true
	}
	return nil, false
}
