package main

import (
	"fmt"
	"os"
	"strings"

	"github.com/polydawn/refmt/json"
)

var jsonOptsNone = json.EncodeOptions{}

func gen(stream, tier string, seed uint64) {
	switch stream {
	case "acc":
		genAcc(tier, seed)
	case "cborenc":
		genCborEnc(tier, seed)
	case "cbordec":
		genCborDec(tier, seed)
	case "jsondec":
		genJsonDec(tier, seed)
	case "jsonenc":
		genJsonEnc(tier, seed)
	case "marshal":
		genMarshal(tier, seed)
	case "unmarshal":
		genUnmarshal(tier, seed)
	case "store":
		genStore(tier, seed)
	case "order":
		genOrder(tier, seed)
	case "numclone":
		genNumClone(tier, seed)
	case "numbytes":
		genNumBytes(tier, seed)
	case "sortmodes":
		genSortModes(tier, seed)
	case "autogen":
		genAutogen(tier, seed)
	case "race":
		genRace(tier, seed)
	case "untrusted":
		genUntrusted(tier, seed)
	case "hist":
		genHist(tier, seed)
	case "roundtrip":
		genRoundtrip(tier, seed)
	case "tags":
		genTags(tier, seed)
	case "remarshal":
		genRemarshal(tier, seed)
	case "clone":
		genClone(tier, seed)
	case "pump":
		genPump(tier, seed)
	case "wfault":
		genWFault(tier, seed)
	case "rfault":
		genRFault(tier, seed)
	case "rdops":
		genRdOps(tier, seed)
	case "sched":
		genSched(tier, seed)
	default:
		fmt.Fprintln(os.Stderr, "unknown stream", stream)
		os.Exit(2)
	}
}

var accAlphabetFull = []string{
	"{-1", "{0", "{1", "{2", "}", "[-1", "[0", "[1", "]", "0",
	"s", "s6b", "s6b32", "x", "x01", "b0", "b1", "i-1", "i0", "u0", "u24",
	"f3ff8000000000000", "f7ff8000000000001", "f7ff0000000000000", "ffff0000000000000", "t0.s6b", "t24.[0", "t5.0", "t2.x01", "t3.x",
}
var accAlphabetSmall = []string{
	"{-1", "{1", "}", "[-1", "[0", "]", "0", "s6b", "x01", "b1", "i-1", "u0", "f3ff8000000000000", "t5.s6b",
}

// genAccTree enumerates, for one format, every token sequence of length <= maxLen
// over `alpha` whose proper prefixes all make the real encoder continue.
func genAccTree(format string, alpha []string, maxLen int) {
	var rec func(prefix []string)
	rec = func(prefix []string) {
		for _, a := range alpha {
			seq := append(append([]string(nil), prefix...), a)
			line := strings.Join(seq, ",")
			emit("acc %s %s", format, line)
			if len(seq) >= maxLen {
				continue
			}
			ts, _ := parseToks(line)
			w := &recordingWriter{}
			fl := runSteps(newEncoder(format, w, json.EncodeOptions{}), ts)
			if len(fl) == len(seq) && fl[len(fl)-1] == '.' {
				rec(seq)
			}
		}
	}
	rec(nil)
}

// randomAccSeq builds a mostly well-formed deep token sequence with occasional faults.
func randomAccSeq(r *rng, format string, maxDepth int) string {
	var toks []string
	scalars := []string{"0", "s", "s6b", "x01", "b0", "b1", "i-1", "i7", "u0", "u300", "f3ff8000000000000", "f7ff0000000000000", "ffff0000000000000", "f7ff8000000000001", "t7.i3", "t0.0"}
	keys := []string{"s6b", "s", "s6b32", "i4", "u9", "t3.s6b"}
	var value func(depth int)
	value = func(depth int) {
		if r.chance(1, 60) { // fault: stray close
			toks = append(toks, []string{"}", "]"}[r.intn(2)])
			return
		}
		k := r.intn(10)
		if depth >= maxDepth {
			k = 9
		}
		switch {
		case k < 3:
			n := r.intn(4)
			open := fmt.Sprintf("[%d", n)
			if r.chance(1, 2) {
				open = "[-1"
			}
			if r.chance(1, 8) {
				open = "t9." + open
			}
			toks = append(toks, open)
			for i := 0; i < n; i++ {
				value(depth + 1)
			}
			if r.chance(1, 40) {
				toks = append(toks, "}")
			} else {
				toks = append(toks, "]")
			}
		case k < 6:
			n := r.intn(4)
			open := fmt.Sprintf("{%d", n)
			if r.chance(1, 2) {
				open = "{-1"
			}
			toks = append(toks, open)
			for i := 0; i < n; i++ {
				if r.chance(1, 30) {
					toks = append(toks, scalars[r.intn(len(scalars))])
				} else if (format == "json" || format == "jsoni") && !r.chance(1, 10) {
					toks = append(toks, keys[r.intn(3)])
				} else {
					toks = append(toks, keys[r.intn(len(keys))])
				}
				value(depth + 1)
			}
			if r.chance(1, 40) {
				toks = append(toks, "]")
			} else {
				toks = append(toks, "}")
			}
		default:
			if r.chance(1, 10) {
				// long byte strings and strings, around the sizes of the encoders' fixed scratch areas (32, 64 bytes)
				n := []int{31, 32, 33, 63, 64, 65, 127, 200, 1000}[r.intn(9)]
				body := strings.Repeat([]string{"61", "00", "7f", "22", "5c"}[r.intn(5)], n)
				pre := []string{"x", "s", "t5.x", "t5.s"}[r.intn(4)]
				toks = append(toks, pre+body[:2*n])
				return
			}
			toks = append(toks, scalars[r.intn(len(scalars))])
		}
	}
	value(0)
	if r.chance(1, 20) && len(toks) > 1 {
		toks = toks[:r.intn(len(toks))+1] // truncated
	}
	return strings.Join(toks, ",")
}

func genAcc(tier string, seed uint64) {
	formats := []string{"cbor", "json", "pretty", "jsoni"}
	fullLen, smallLen, nRandom, depth := 3, 5, 3000, 12
	if tier == "thorough" {
		fullLen, smallLen, nRandom, depth = 4, 6, 100000, 40
	}
	for _, f := range formats {
		genAccTree(f, accAlphabetFull, fullLen)
		genAccTree(f, accAlphabetSmall, smallLen)
	}
	r := &rng{s: seed}
	for i := 0; i < nRandom; i++ {
		f := formats[r.intn(len(formats))]
		emit("acc %s %s", f, randomAccSeq(r, f, 2+r.intn(depth)))
	}
	// long scalars in every position (top level, array element, map key, map value), every format
	for _, f := range formats {
		for _, n := range []int{32, 33, 64, 65, 200, 3000} {
			for _, pre := range []string{"x", "s"} {
				b := pre + strings.Repeat("41", n)
				emit("acc %s %s", f, b)
				emit("acc %s [1,%s,]", f, b)
				emit("acc %s {1,s6b,%s,}", f, b)
				emit("acc %s {-1,%s,0,}", f, b)
				emit("acc %s [-1,t7.%s,%s,]", f, b, b)
			}
		}
	}
	emitShapes("acc", tier)
	// very deep nesting
	for _, f := range formats {
		for _, d := range []int{100, 5000} {
			emit("acc %s %s", f, strings.Repeat("[-1,", d)+"0"+strings.Repeat(",]", d))
			emit("acc %s %s", f, strings.Repeat("{1,s6b,", d)+"0"+strings.Repeat(",}", d))
		}
	}
}
