package main

import (
	"fmt"
	"math/big"
	"reflect"
	"regexp"
	"strings"
)

var jsonNumRe = regexp.MustCompile(`^-?(0|[1-9][0-9]*)(\.[0-9]+)?([eE][+-]?[0-9]+)?$`)

// wireNumber returns the exact mathematical value of a document that consists of one number
// (JSON number text; CBOR major type 0 or 1 with any head width), or nil if it is something else.
func wireNumber(format string, data []byte) *big.Rat {
	if format == "json" {
		s := strings.Trim(string(data), " \t\r\n")
		if !jsonNumRe.MatchString(s) || len(s) > 400 {
			return nil
		}
		r, ok := new(big.Rat).SetString(s)
		if !ok {
			return nil
		}
		return r
	}
	if len(data) == 0 {
		return nil
	}
	major, info := data[0]>>5, int(data[0]&0x1f)
	if major > 1 {
		return nil
	}
	var n uint64
	switch {
	case info < 24:
		if len(data) != 1 {
			return nil
		}
		n = uint64(info)
	case info <= 27:
		w := 1 << uint(info-24)
		if len(data) != 1+w {
			return nil
		}
		for _, b := range data[1:] {
			n = n<<8 | uint64(b)
		}
	default:
		return nil
	}
	v := new(big.Int).SetUint64(n)
	if major == 1 {
		v.Neg(v).Sub(v, big.NewInt(1))
	}
	return new(big.Rat).SetInt(v)
}

// numOracle: a number that was accepted must have been stored exactly (integers), or as the nearest
// float64 (float targets).  Returns "ok" or a violation description.
func numOracle(format string, data []byte, dst reflect.Value) string {
	want := wireNumber(format, data)
	if want == nil {
		return "ok"
	}
	v := dst
	for v.Kind() == reflect.Ptr || v.Kind() == reflect.Interface {
		if v.IsNil() {
			return "ok"
		}
		v = v.Elem()
	}
	var got *big.Rat
	switch v.Kind() {
	case reflect.Int, reflect.Int8, reflect.Int16, reflect.Int32, reflect.Int64:
		got = new(big.Rat).SetInt64(v.Int())
	case reflect.Uint, reflect.Uint8, reflect.Uint16, reflect.Uint32, reflect.Uint64, reflect.Uintptr:
		got = new(big.Rat).SetInt(new(big.Int).SetUint64(v.Uint()))
	case reflect.Float64:
		f, _ := want.Float64()
		if v.Float() != f {
			return fmt.Sprintf("viol:number-changed:stored-%v-nearest-float64-is-%v", v.Float(), f)
		}
		return "ok"
	default:
		return "ok"
	}
	if got.Cmp(want) != 0 {
		return fmt.Sprintf("viol:number-changed:wire-%s-stored-%s", want.RatString(), got.RatString())
	}
	return "ok"
}
