package main

import (
	"bytes"
	"encoding/binary"
	"encoding/hex"
	"fmt"
	"math"
	"strings"
)

// ---- C02: token streams for the CBOR encoder -------------------------------------------

var boundaryU = []uint64{0, 1, 22, 23, 24, 25, 254, 255, 256, 257, 65534, 65535, 65536, 65537,
	1<<32 - 2, 1<<32 - 1, 1 << 32, 1<<32 + 1, 1<<63 - 1, 1 << 63, 1<<63 + 1, 1<<64 - 2, 1<<64 - 1}

func hexStr(n int, seed byte) string {
	b := make([]byte, n)
	for i := range b {
		b[i] = seed + byte(i*7)
	}
	return hex.EncodeToString(b)
}

// genTree writes a random well-formed token tree into toks.
func genTree(r *rng, depth int, toks *[]string, cborKeys bool) {
	tag := ""
	if r.chance(1, 6) {
		tag = fmt.Sprintf("t%d.", boundaryU[r.intn(19)]) // tags up to 2^63-1
	}
	k := r.intn(12)
	if depth <= 0 && k < 4 {
		k = 4 + r.intn(8)
	}
	switch {
	case k < 2:
		n := r.intn(4)
		if r.chance(1, 2) {
			*toks = append(*toks, fmt.Sprintf("%s[%d", tag, n))
		} else {
			*toks = append(*toks, tag+"[-1")
		}
		for i := 0; i < n; i++ {
			genTree(r, depth-1, toks, cborKeys)
		}
		*toks = append(*toks, "]")
	case k < 4:
		n := r.intn(4)
		if r.chance(1, 2) {
			*toks = append(*toks, fmt.Sprintf("%s{%d", tag, n))
		} else {
			*toks = append(*toks, tag+"{-1")
		}
		for i := 0; i < n; i++ {
			switch {
			case cborKeys && r.chance(1, 4):
				*toks = append(*toks, fmt.Sprintf("i%d", int64(r.next()>>uint(r.intn(64)))-int64(r.intn(3))))
			case cborKeys && r.chance(1, 4):
				*toks = append(*toks, fmt.Sprintf("u%d", r.next()>>uint(r.intn(64))))
			default:
				*toks = append(*toks, "s"+hexStr(r.intn(5), byte(r.intn(256))))
			}
			genTree(r, depth-1, toks, cborKeys)
		}
		*toks = append(*toks, "}")
	case k == 4:
		*toks = append(*toks, tag+"0")
	case k == 5:
		*toks = append(*toks, fmt.Sprintf("%sb%d", tag, r.intn(2)))
	case k == 6:
		u := boundaryU[r.intn(len(boundaryU))]
		if r.chance(1, 2) {
			u = r.next() >> uint(r.intn(64))
		}
		*toks = append(*toks, fmt.Sprintf("%su%d", tag, u))
	case k == 7:
		v := int64(r.next() >> uint(r.intn(64)))
		if r.chance(1, 2) {
			v = -v - 1
		}
		*toks = append(*toks, fmt.Sprintf("%si%d", tag, v))
	case k == 8:
		*toks = append(*toks, fmt.Sprintf("%sf%016x", tag, randFloatBits(r)))
	case k == 9:
		*toks = append(*toks, tag+"x"+hexStr([]int{0, 1, 23, 24, 30}[r.intn(5)], byte(r.intn(256))))
	default:
		*toks = append(*toks, tag+"s"+hexStr([]int{0, 1, 5, 23, 24, 40}[r.intn(6)], byte(r.intn(256))))
	}
}

func randFloatBits(r *rng) uint64 {
	switch r.intn(9) {
	case 3:
		// integral floats around the integer-kind boundaries and the text-format switch points, both signs
		var f float64
		if r.chance(1, 3) {
			f = []float64{1e15, 1e16, 1e17, 1e18, 1e19, 1e20, 1e21, 1e22, 123456789012345680000}[r.intn(9)]
		} else {
			k := []uint{31, 32, 52, 53, 62, 63, 64, 65}[r.intn(8)]
			f = math.Ldexp(1, int(k))
			switch r.intn(3) {
			case 0:
				f = math.Nextafter(f, 0)
			case 1:
				f = math.Nextafter(f, math.Inf(1))
			}
		}
		if r.chance(1, 2) {
			f = -f
		}
		return math.Float64bits(f)
	case 0:
		return []uint64{0, 1 << 63, 0x7ff0000000000000, 0xfff0000000000000, 0x7ff8000000000001, 0x7ff0000000000001,
			0xfff8000000000000, 1, 0x000fffffffffffff, 0x0010000000000000, 0x7fefffffffffffff, 0x3ff0000000000000}[r.intn(12)]
	case 1:
		return math.Float64bits(float64(int64(r.next()>>uint(r.intn(64)))) * []float64{1, -1, 0.5, 1e3}[r.intn(4)])
	case 2:
		return math.Float64bits(float64(math.Float32frombits(uint32(r.next()))))
	default:
		return r.next()
	}
}

func genCborEnc(tier string, seed uint64) {
	// 1. every integer boundary in both spellings, plain and tagged, at top level and nested
	for _, u := range boundaryU {
		emit("cborenc u%d", u)
		emit("cborenc t%d.u%d", u&(1<<63-1), u)
		emit("cborenc [1,u%d,]", u)
		emit("cborenc {-1,u%d,u%d,}", u, u)
		if u < 1<<63 {
			emit("cborenc i%d", int64(u))
			emit("cborenc i%d", -int64(u)-1)
			emit("cborenc t5.i%d", -int64(u)-1)
			emit("cborenc {1,i%d,i%d,}", -int64(u)-1, int64(u))
			emit("cborenc [%d,]", int64(u)) // declared length only (count accuracy is C07's subject) -- not WF for S
			emit("cborenc t%d.0", u)
			emit("cborenc t%d.[0,]", u)
			emit("cborenc t%d.{-1,}", u)
		}
	}
	// 2. every value below a bound
	lim := uint64(1 << 16)
	if tier == "thorough" {
		lim = 1 << 22
	}
	for u := uint64(0); u < lim; u++ {
		emit("cborenc u%d", u)
	}
	for u := uint64(0); u < lim; u += 1 + u/4096 {
		emit("cborenc i%d", -int64(u)-1)
		emit("cborenc i%d", int64(u))
	}
	// 3. string / bytes lengths across head boundaries
	for _, n := range []int{0, 1, 22, 23, 24, 25, 254, 255, 256, 257, 65534, 65535, 65536, 65537} {
		emit("cborenc s%s", hexStr(n, 0x41))
		emit("cborenc x%s", hexStr(n, 0x00))
		emit("cborenc t7.x%s", hexStr(n, 0x80))
		emit("cborenc {1,s%s,s%s,}", hexStr(n, 0x61), hexStr(n, 0xc3))
	}
	// 4. floats
	r := &rng{s: seed}
	nf := 3000
	if tier == "thorough" {
		nf = 200000
	}
	for i := 0; i < nf; i++ {
		emit("cborenc f%016x", randFloatBits(r))
	}
	// the same multi-byte tag again and again with wide heads and floats between the occurrences
	for _, tg := range []uint64{24, 255, 256, 1000, 65535, 65536, 1 << 32, 1<<63 - 1} {
		for _, mid := range []string{"f3ff8000000000000", "u70000", "i-70000", "s" + hexStr(300, 0x61), "u5", "x" + hexStr(256, 1), "f7ff8000000000001"} {
			emit("cborenc [3,t%d.%s,t%d.%s,t%d.u1,]", tg, mid, tg, mid, tg)
			emit("cborenc [-1,t%d.[1,%s,],%s,t%d.{1,s6b,t%d.%s,},]", tg, mid, mid, tg, tg, mid)
			emit("cborenc {2,s61,t%d.%s,s62,t%d.%s,}", tg, mid, tg, mid)
		}
	}
	// more open containers than a 16-bit counter holds
	emit("cborenc %s0%s", strings.Repeat("[1,", 65538), strings.Repeat(",]", 65538))
	if tier == "thorough" {
		emit("cborenc %s0%s", strings.Repeat("{-1,s6b,", 65537), strings.Repeat(",}", 65537))
		emit("cborenc %s0%s", strings.Repeat("[-1,", 131073), strings.Repeat(",]", 131073))
	}
	emitShapes("cborenc", tier)
	// 5. deep nesting
	for _, d := range []int{10, 1000, 5000} {
		emit("cborenc %s0%s", strings.Repeat("[1,", d), strings.Repeat(",]", d))
		emit("cborenc %su1%s", strings.Repeat("{-1,s6b,", d), strings.Repeat(",}", d))
	}
	// 6. random well-formed trees
	nt := 20000
	if tier == "thorough" {
		nt = 1000000
	}
	for i := 0; i < nt; i++ {
		var toks []string
		genTree(r, 1+r.intn(6), &toks, true)
		emit("cborenc %s", strings.Join(toks, ","))
	}
	// 7. negative tags / malformed declared lengths (encoder still has to behave like the model)
	emit("cborenc [-2,]")
	emit("cborenc {-7,s6b,[-9223372036854775808,u1,],}")
	emit("cborenc t-1.0")
	emit("cborenc t-9223372036854775808.u1")
	emit("cborenc [3,u1,]")
	emit("cborenc {2,s6b,u1,}")
}

// ---- C04: byte strings for the CBOR decoder ----------------------------------------------

var cborAlphabet = []byte{
	0x00, 0x17, 0x18, 0x19, 0x1a, 0x1b, 0x1c, 0x1f, 0x20, 0x37, 0x38, 0x3b, 0x3f, 0x40, 0x41, 0x58, 0x5b, 0x5f,
	0x60, 0x61, 0x78, 0x7f, 0x80, 0x81, 0x97, 0x98, 0x9b, 0x9f, 0xa0, 0xa1, 0xb8, 0xbf, 0xc0, 0xc5, 0xd8, 0xdb, 0xdf,
	0xe0, 0xf3, 0xf4, 0xf5, 0xf6, 0xf7, 0xf8, 0xf9, 0xfa, 0xfb, 0xfc, 0xff, 0x01, 0x02, 0x7e,
}

func emitDec(b []byte) {
	emit("cbordec 0 %s", hexOrDash(b))
}

func enumAlphabet(alpha []byte, n int, f func([]byte)) {
	buf := make([]byte, n)
	var rec func(i int)
	rec = func(i int) {
		if i == n {
			f(buf)
			return
		}
		for _, a := range alpha {
			buf[i] = a
			rec(i + 1)
		}
	}
	rec(0)
}

// headBytes renders a CBOR head in the requested width (0 = shortest, 1/2/4/8 forced).
func headBytes(major byte, n uint64, width int) []byte {
	if width == 0 {
		switch {
		case n < 24:
			return []byte{major | byte(n)}
		case n < 1<<8:
			width = 1
		case n < 1<<16:
			width = 2
		case n < 1<<32:
			width = 4
		default:
			width = 8
		}
	}
	switch width {
	case 1:
		return []byte{major | 24, byte(n)}
	case 2:
		b := []byte{major | 25, 0, 0}
		binary.BigEndian.PutUint16(b[1:], uint16(n))
		return b
	case 4:
		b := []byte{major | 26, 0, 0, 0, 0}
		binary.BigEndian.PutUint32(b[1:], uint32(n))
		return b
	default:
		b := []byte{major | 27, 0, 0, 0, 0, 0, 0, 0, 0}
		binary.BigEndian.PutUint64(b[1:], n)
		return b
	}
}

func randWidth(r *rng, n uint64) int {
	ws := []int{0}
	for _, w := range []int{1, 2, 4, 8} {
		if w == 8 || n < 1<<(8*uint(w)) {
			ws = append(ws, w)
		}
	}
	return ws[r.intn(len(ws))]
}

// genItem writes one random well-formed CBOR item in a random legal spelling.
func genItem(r *rng, depth int, out *[]byte, tagged bool) {
	if !tagged && r.chance(1, 8) {
		t := r.next() >> uint(1+r.intn(63))
		*out = append(*out, headBytes(0xc0, t, randWidth(r, t))...)
		genItem(r, depth, out, true)
		return
	}
	k := r.intn(14)
	if depth <= 0 && k < 4 {
		k = 4 + r.intn(10)
	}
	switch {
	case k < 2:
		n := r.intn(4)
		if r.chance(1, 2) {
			*out = append(*out, headBytes(0x80, uint64(n), randWidth(r, uint64(n)))...)
			for i := 0; i < n; i++ {
				genItem(r, depth-1, out, false)
			}
		} else {
			*out = append(*out, 0x9f)
			for i := 0; i < n; i++ {
				genItem(r, depth-1, out, false)
			}
			*out = append(*out, 0xff)
		}
	case k < 4:
		n := r.intn(3)
		indef := r.chance(1, 2)
		if indef {
			*out = append(*out, 0xbf)
		} else {
			*out = append(*out, headBytes(0xa0, uint64(n), randWidth(r, uint64(n)))...)
		}
		for i := 0; i < n; i++ {
			if r.chance(1, 5) {
				genItem(r, 0, out, false)
			} else {
				s := []byte("k")[:r.intn(2)]
				*out = append(*out, headBytes(0x60, uint64(len(s)), 0)...)
				*out = append(*out, s...)
			}
			genItem(r, depth-1, out, false)
		}
		if indef {
			*out = append(*out, 0xff)
		}
	case k == 4:
		*out = append(*out, []byte{0xf4, 0xf5, 0xf6, 0xf7}[r.intn(4)])
	case k == 5:
		u := r.next() >> uint(r.intn(64))
		*out = append(*out, headBytes(0x00, u, randWidth(r, u))...)
	case k == 6:
		u := r.next() >> uint(r.intn(64))
		*out = append(*out, headBytes(0x20, u, randWidth(r, u))...)
	case k == 7:
		*out = append(*out, 0xf9, byte(r.next()), byte(r.next()))
	case k == 8:
		b := []byte{0xfa, 0, 0, 0, 0}
		binary.BigEndian.PutUint32(b[1:], uint32(r.next()))
		*out = append(*out, b...)
	case k == 9:
		b := []byte{0xfb, 0, 0, 0, 0, 0, 0, 0, 0}
		binary.BigEndian.PutUint64(b[1:], randFloatBits(r))
		*out = append(*out, b...)
	case k == 10 || k == 11:
		major := byte(0x40)
		if k == 11 {
			major = 0x60
		}
		n := []int{0, 1, 3, 23, 24, 33, 31, 32, 64}[r.intn(9)]
		*out = append(*out, headBytes(major, uint64(n), randWidth(r, uint64(n)))...)
		for i := 0; i < n; i++ {
			*out = append(*out, byte(r.next()))
		}
	default:
		major := byte(0x40)
		if r.chance(1, 2) {
			major = 0x60
		}
		*out = append(*out, major|0x1f)
		nh, big := r.intn(4), r.chance(1, 3)
		if big {
			nh = 2 + r.intn(10) // many hunks whose total outgrows any initial accumulation buffer, several times over
		}
		for c := nh; c > 0; c-- {
			n := r.intn(4)
			if big {
				n = []int{0, 1, 2, 5, 7, 10, 15, 16, 17, 40}[r.intn(10)]
			}
			*out = append(*out, headBytes(major, uint64(n), randWidth(r, uint64(n)))...)
			for i := 0; i < n; i++ {
				*out = append(*out, byte(r.next()))
			}
		}
		*out = append(*out, 0xff)
	}
}

func genCborDec(tier string, seed uint64) {
	r := &rng{s: seed}
	for _, hx := range []string{"c1f7", "d84df7", "82c1f701", "a1616bc1f7", "9fc1f7ff", "f7", "81f7", "c1f6"} {
		emit("cbordec 1 %s", hx)
		emit("cbordec 0 %s", hx)
	}
	// 0a. strings around the sizes of the reader's recycled scratch space, FOLLOWED in the same item by something whose
	//     decoding uses that space again (a token handed out earlier must keep its bytes)
	for _, major := range []byte{0x40, 0x60} {
		for n := 28; n <= 36; n++ {
			str := append(headBytes(major, uint64(n), 0), bytes.Repeat([]byte{0x41 + byte(n%8)}, n)...)
			for _, next := range []string{"190102", "1a01020304", "1b0102030405060708", "fb400921fb54442d18", "fa40490fdb", "f93c00", "6568656c6c6f", "4401020304",
				"5820" + strings.Repeat("07", 32), "7820" + strings.Repeat("62", 32), "c11a514b67b0", "3903e7", "5f4201024103ff"} {
				nb, _ := hex.DecodeString(next)
				emitDec(append(append([]byte{0x82}, str...), nb...))
				emitDec(append(append(append([]byte{0xa2, 0x61, 0x61}, str...), 0x61, 0x62), nb...))
				emitDec(append(append(append([]byte{0x9f}, str...), nb...), 0xff))
			}
		}
	}
	// 0. large definite strings, whole and cut short at several points (bulk reads past the reader's first buffer sizes)
	for _, major := range []byte{0x40, 0x60} {
		for _, n := range []int{65535, 65536, 65537, 131072, 200000} {
			item := append(headBytes(major, uint64(n), 0), bytes.Repeat([]byte{0x61}, n)...)
			emitDec(item)
			for _, cut := range []int{5, 4096, 65536, 65541, 70000, n - 1} {
				if cut < len(item) {
					emitDec(item[:cut])
				}
			}
		}
	}
	// 1. exhaustive: all strings of length <= 2 over all bytes; length 3 (and 4 in thorough) over the alphabet
	emitDec(nil)
	for a := 0; a < 256; a++ {
		emitDec([]byte{byte(a)})
		emit("cbordec 1 %02x", a)
	}
	for a := 0; a < 256; a++ {
		for b := 0; b < 256; b++ {
			emitDec([]byte{byte(a), byte(b)})
		}
	}
	enumAlphabet(cborAlphabet, 3, emitDec)
	if tier == "thorough" {
		enumAlphabet(cborAlphabet, 4, emitDec)
		for a := 0; a < 256; a++ {
			for b := 0; b < 256; b++ {
				for c := 0; c < 256; c += 1 {
					emitDec([]byte{byte(a), byte(b), byte(c)})
				}
			}
		}
	} else {
		// a slice of the 4-symbol space: first byte ranges over the alphabet, rest sampled
		for i := 0; i < 150000; i++ {
			n := 4 + r.intn(3)
			b := make([]byte, n)
			for j := range b {
				b[j] = cborAlphabet[r.intn(len(cborAlphabet))]
			}
			emitDec(b)
		}
	}
	// 2. all half floats; boundary single floats; sampled singles
	for h := 0; h < 65536; h++ {
		emitDec([]byte{0xf9, byte(h >> 8), byte(h)})
	}
	ns := 30000
	if tier == "thorough" {
		ns = 3000000
	}
	for i := 0; i < ns; i++ {
		v := uint32(r.next())
		if i < 4096 {
			v = uint32(i&0x1ff)<<23 | uint32([]uint32{0, 1, 0x7fffff, 0x400000, 0x200000, 0x3fffff, 0x000800, 0x7ff000}[i>>9])
		}
		emitDec([]byte{0xfa, byte(v >> 24), byte(v >> 16), byte(v >> 8), byte(v)})
	}
	// 3. integer heads at every boundary in every width, negative ints incl. the 64-bit range edge
	for _, u := range boundaryU {
		for _, w := range []int{0, 1, 2, 4, 8} {
			if w != 0 && w != 8 && u >= 1<<(8*uint(w)) {
				continue
			}
			for _, major := range []byte{0x00, 0x20, 0x40, 0x60, 0x80, 0xa0, 0xc0} {
				b := headBytes(major, u, w)
				emitDec(b)
				emitDec(append(append([]byte{}, b...), 0x00, 0xff, 0xff))
			}
		}
	}
	// 4. grammar-generated items: whole, with trailing bytes, every proper prefix, single-edit mutants
	ni := 4000
	if tier == "thorough" {
		ni = 150000
	}
	for i := 0; i < ni; i++ {
		var item []byte
		genItem(r, r.intn(5), &item, false)
		emitDec(item)
		emit("cbordec 1 %s", hexOrDash(item))
		emitDec(append(append([]byte{}, item...), byte(r.next()), byte(r.next())))
		if len(item) <= 40 {
			for p := 0; p < len(item); p++ {
				emitDec(item[:p])
			}
		}
		for m := 0; m < 6; m++ {
			mut := append([]byte{}, item...)
			pos := r.intn(len(mut))
			switch r.intn(4) {
			case 0:
				mut[pos] = cborAlphabet[r.intn(len(cborAlphabet))]
			case 1:
				mut = append(mut[:pos], mut[pos+1:]...)
			case 2:
				mut = append(mut[:pos], append([]byte{cborAlphabet[r.intn(len(cborAlphabet))]}, mut[pos:]...)...)
			default:
				mut[pos] ^= 1 << uint(r.intn(8))
			}
			emitDec(mut)
		}
	}
	// 5. adversarial length headers and deep nesting
	for _, major := range []byte{0x40, 0x60, 0x80, 0xa0} {
		for _, n := range []uint64{33554431, 33554432, 33554433, 1 << 40, 1<<63 - 1, 1 << 63, 1<<64 - 1} {
			emitDec(headBytes(major, n, 0))
			emitDec(append(headBytes(major, n, 0), 0x01, 0x02))
		}
	}
	// every small tag number (and a few large ones) on every kind of item, definite and chunked
	wellKnown := []uint64{55799, 55800, 55798, 65535, 65536, 1<<32 - 1, 1 << 32, 1<<63 - 1, 1 << 63, 1<<64 - 1, 1000, 22098, 15309736}
	for ti := uint64(0); ti <= 300+uint64(len(wellKnown))-1; ti++ {
		tg := ti
		if ti > 300 {
			tg = wellKnown[ti-301]
		}
		h := headBytes(0xc0, tg, 0)
		for _, it := range []string{"00", "4101", "5f42010241 03ff", "7f6161ff", "80", "9fff", "a0", "bf616b01ff", "f6", "fb3ff8000000000000", "d82a4101"} {
			b, _ := hex.DecodeString(strings.ReplaceAll(it, " ", ""))
			emitDec(append(append([]byte{}, h...), b...))
		}
	}
	// a break where a value is due (a dangling key), a break inside a definite container, an odd number of items in an
	// indefinite map: refused at every depth, under every kind of parent
	for _, d := range []int{0, 1, 2, 30, 31, 32, 33, 62, 63, 64, 65, 66, 100, 127, 128, 129, 255, 256, 257} {
		for _, parent := range []string{"81", "9f", "a1616b", "bf616b"} {
			pre, _ := hex.DecodeString(strings.Repeat(parent, d))
			for _, bad := range []string{"bf616bff", "bf6161016162ff", "81ff", "a1616bff", "bf01ff", "9f01ffff", "bf616b01616cff"} {
				b, _ := hex.DecodeString(bad)
				emitDec(append(append([]byte{}, pre...), b...))
			}
		}
	}
	// strings whose length is an exact multiple of 1 MiB (and one off)
	for _, n := range []int{1 << 20, 1<<20 + 1, 2 << 20, 3 << 20} {
		for _, major := range []byte{0x40, 0x60} {
			item := append(headBytes(major, uint64(n), 0), bytes.Repeat([]byte{0x62}, n)...)
			emitDec(item)
		}
	}
	if tier == "thorough" {
		// hunks that are each within the 32 MiB cap, more than the 32 MiB cap in TOTAL: the cap is per hunk
		hunk := append(headBytes(0x60, 12<<20, 0), bytes.Repeat([]byte{0x61}, 12<<20)...)
		item := append(append(append(append([]byte{0x7f}, hunk...), hunk...), hunk...), 0xff)
		emitDec(item)
	}
	emitShapes("cbordec", tier)
	for _, d := range []int{100, 3000} {
		emitDec(append([]byte(strings.Repeat("\x81", d)), 0x00))
		emitDec(append(append([]byte(strings.Repeat("\x9f", d)), 0x00), []byte(strings.Repeat("\xff", d))...))
		emitDec([]byte(strings.Repeat("\xbf\x61\x6b", d)))
	}
}
